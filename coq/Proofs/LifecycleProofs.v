(** Lifecycle: per-step facts and history-level theorems of C08 (statements in Props/C08.v). *)
From QV Require Import Lib.Tac Lib.Corr Model.Lifecycle Proofs.LifecycleInv.
Open Scope Z_scope.

(** * reachability *)
Lemma inv_run : forall h s, Inv s -> guarded s h = true -> Inv (run_state s h).
Proof.
  induction h as [|o h IH]; intros s H G; [exact H|].
  cbn [guarded] in G. apply andb_true_iff in G. destruct G as [G1 G2].
  cbn [run_state fold_left]. apply IH; [apply inv_step; assumption|exact G2].
Qed.

Lemma guarded_app : forall h1 h2 s,
  guarded s (h1 ++ h2) = guarded s h1 && guarded (run_state s h1) h2.
Proof.
  induction h1 as [|o h1 IH]; intros h2 s; [reflexivity|].
  cbn [app guarded run_state fold_left]. rewrite IH. unfold run_state. now rewrite andb_assoc.
Qed.

Lemma outs_app : forall h1 h2 s,
  outs_from s (h1 ++ h2) = outs_from s h1 ++ outs_from (run_state s h1) h2.
Proof.
  induction h1 as [|o h1 IH]; intros h2 s; [reflexivity|].
  cbn [app outs_from run_state fold_left]. rewrite IH. reflexivity.
Qed.

Lemma count_app : forall f a b, count f (a ++ b) = count f a + count f b.
Proof. induction a as [|x a IH]; intros b; cbn [app count]; [lia|rewrite IH; lia]. Qed.

Lemma count_nonneg : forall f l, 0 <= count f l.
Proof. induction l as [|x l IH]; cbn [count]; [lia|destruct (f x); lia]. Qed.

(** * Facts about one step from a CLOSED state *)
Definition quiet (e e' : option reason) : Prop := e' = e \/ e' = None.

Lemma closed_hp_rest : forall s now p pc sr, Inv s ->
  err_result p = false -> is_closed (st s) = true ->
  is_closed (st (hp_rest s now p pc sr)) = true /\ error (hp_rest s now p pc sr) = error s.
Proof.
  intros s now p pc sr H G C. unfold hp_rest.
  destruct p; casest s; cbn [process Lifecycle.authed err_result state_of_err fst snd negb andb orb] in *;
    try discriminate G; try discriminate C; repeat (first [progress prj | rewrite Est | split_if]); split; reflexivity.
Qed.

Lemma closed_step : forall s o, Inv s -> guard s o = true -> is_closed (st s) = true ->
  is_closed (st (step' s o)) = true /\ quiet (error s) (error (step' s o)).
Proof.
  intros s o H G C. unfold quiet.
  destruct o as [now code pto|now p pi pc sr|pi|now|other| |now e]; unfold step', step;
    cbn [step_gen fst].
  - unfold close_inner. rewrite C. auto.
  - rewrite hp_split. rewrite C. rewrite andb_false_r.
    destruct p; auto; unfold guard in G; rewrite C in G; cbn [err_result andb negb] in G;
      try discriminate G;
      (match goal with |- context [hp_rest _ _ ?p _ _] => destruct (closed_hp_rest s now p pc sr H eq_refl C) as [A B] end; rewrite A, B; auto).
  - unfold set_peer_params; destruct (negotiate (cfg_idle s) pi); prj; auto.
  - pose proof H as H'. unfold Inv in H'. destruct H' as (_ & I2 & I3 & I4 & _).
    destruct (I2 C) as [Ti Tk]. unfold handle_timeout, expired. rewrite Ti. prj.
    destruct (t_close s) as [d|]; [destruct (d <=? now)|]; prj; rewrite ?Tk; prj; auto.
  - unfold poll. destruct other; prj; auto. destruct (error s) eqn:Ee; prj; rewrite ?Ee; auto.
  - unfold poll_endpoint_events. destruct (0 <? epq s); prj; auto.
  - unfold guard in G. rewrite C, andb_true_r in G. apply negb_true_iff in G.
    unfold poll_transmit_gen. casest s; try discriminate C; prj; rewrite ?G;
      repeat (split_if; prj); rewrite ?Est; prj; auto.
Qed.

Lemma lost_out : forall s o r, snd (step s o) = OLost r -> error s = Some r /\ error (step' s o) = None.
Proof.
  intros s o r E. unfold step', step in *.
  destruct o as [now code pto|now p pi pc sr|pi|now|other| |now e]; cbn [step_gen fst snd] in *;
    try discriminate E.
  - unfold poll in *. destruct other; [cbn [snd] in E; discriminate E|]. destruct (error s) eqn:Ee.
    + cbn [snd fst] in *. inversion E; subst. prj. auto.
    + cbn [snd] in E. discriminate E.
  - unfold poll_endpoint_events in E. destruct (0 <? epq s); cbn [snd] in E; discriminate E.
  - exfalso. revert E. unfold poll_transmit_gen. destruct (st s); repeat (split_if; cbn [snd]); cbn [snd]; discriminate.
Qed.

(** * ConnectionLost is reported at most once *)
Definition can_report (s : state) : bool :=
  negb (is_closed (st s)) || match error s with Some _ => true | None => false end.

Lemma lost_bound : forall h s, Inv s -> guarded s h = true ->
  count is_lost (outs_from s h) <= (if can_report s then 1 else 0).
Proof.
  induction h as [|o h IH]; intros s H G; cbn [outs_from count]; [destruct (can_report s); lia|].
  cbn [guarded] in G. apply andb_true_iff in G. destruct G as [G1 G2].
  pose proof (inv_step s o H G1) as H1. specialize (IH _ H1 G2). fold (step' s o).
  destruct (snd (step s o)) eqn:Eo; cbn [is_lost].
  1,2,4,5: (destruct (can_report (step' s o)) eqn:C1; [|destruct (can_report s); lia];
    destruct (can_report s) eqn:C0; [lia|]; exfalso;
    unfold can_report in C0; apply orb_false_iff in C0; destruct C0 as [C0 E0];
    apply negb_false_iff in C0; destruct (closed_step s o H G1 C0) as [C Q];
    unfold can_report in C1; rewrite C in C1; cbn [negb orb] in C1;
    destruct Q as [Q|Q]; rewrite Q in C1; [rewrite C1 in E0|]; discriminate).
  destruct (lost_out s o r Eo) as [E0 E1].
  assert (C0 : is_closed (st s) = true).
  { destruct H as (I1 & _). apply I1. congruence. }
  destruct (closed_step s o H G1 C0) as [C _].
  assert (C1 : can_report (step' s o) = false).
  { unfold can_report. rewrite C, E1. reflexivity. }
  rewrite C1 in IH.
  unfold can_report. rewrite E0, orb_true_r. lia.
Qed.


(** * Drained exactly once *)
Definition newly_drained (s s' : state) : Z :=
  if is_drained (st s') && negb (is_drained (st s)) then 1 else 0.

Lemma drained_hp_rest : forall s now p pc sr, Inv s ->
  err_result p && is_closed (st s) = false ->
  epq (hp_rest s now p pc sr) = epq s + newly_drained s (hp_rest s now p pc sr) /\
  (is_drained (st s) = true -> is_drained (st (hp_rest s now p pc sr)) = true).
Proof.
  intros s now p pc sr H G. unfold hp_rest, newly_drained.
  destruct p; casest s; cbn [process Lifecycle.authed err_result state_of_err fst snd negb andb orb] in *;
    try discriminate G; repeat (first [progress prj | rewrite Est | split_if]); split; auto; lia.
Qed.

Lemma auth_epq : forall s now pto, epq (on_packet_authenticated s now pto) = epq s.
Proof. intros. unf2. repeat (split_if; prj); reflexivity. Qed.

Lemma drained_step : forall s o, Inv s -> guard s o = true ->
  (if is_epdrained (snd (step s o)) then 1 else 0) + epq (step' s o) =
    epq s + newly_drained s (step' s o) /\
  (is_drained (st s) = true -> is_drained (st (step' s o)) = true).
Proof.
  intros s o H G.
  destruct o as [now code pto|now p pi pc sr|pi|now|other| |now e]; unfold step', step, newly_drained;
    cbn [step_gen fst snd is_epdrained].
  - unfold close_inner. casest s; repeat (first [progress prj | rewrite Est | split_if]); split; auto; lia.
  - rewrite hp_split. unfold guard in G. apply negb_true_iff in G.
    destruct p; cbn [is_epdrained]; try (destruct (is_drained (st s)); split; auto; cbn; lia);
    match goal with |- context [hp_rest ?s1 _ ?p _ _] =>
      assert (I1 : Inv s1) by
        (destruct (Lifecycle.authed p && negb (is_closed (st s))) eqn:E; [|exact H];
         apply inv_auth; [exact H|]; apply andb_true_iff in E; destruct E as [_ E];
         now apply negb_true_iff in E);
      assert (S1 : st s1 = st s) by (destruct (Lifecycle.authed p && negb (is_closed (st s))); rewrite ?auth_st; reflexivity);
      assert (Q1 : epq s1 = epq s) by (destruct (Lifecycle.authed p && negb (is_closed (st s))); rewrite ?auth_epq; reflexivity);
      destruct (drained_hp_rest s1 now p pc sr I1) as [A B]; [rewrite S1; exact G|];
      unfold newly_drained in A; rewrite S1, Q1 in *; split; [lia|exact B]
    end.
  - unfold set_peer_params; destruct (negotiate (cfg_idle s) pi); prj; destruct (is_drained (st s)); split; auto; cbn; lia.
  - pose proof H as H'. destruct H' as (_ & I2 & I3 & I4 & I5 & _).
    unfold handle_timeout, expired. casest s; prj; sat;
      repeat (first [progress prj | rewrite Est | split_if]); split; auto; try lia; try congruence.
  - unfold poll. destruct other; prj; [|destruct (error s); prj];
      destruct (is_drained (st s)); split; auto; cbn; lia.
  - unfold poll_endpoint_events. destruct (0 <? epq s) eqn:E; prj;
      destruct (is_drained (st s)); split; auto; cbn; lia.
  - unfold guard in G. apply negb_true_iff in G.
    unfold poll_transmit_gen, on_sent, close_inner, reset_keep_alive, reset_idle_timeout.
    casest s; prj; rewrite ?andb_true_r, ?andb_false_r in G;
      repeat (first [progress prj | rewrite Est | split_if]); split; auto; try lia; try discriminate.
Qed.

Lemma drained_count : forall h s, Inv s -> guarded s h = true ->
  count is_epdrained (outs_from s h) + epq (run_state s h) = epq s + newly_drained s (run_state s h) /\
  (is_drained (st s) = true -> is_drained (st (run_state s h)) = true).
Proof.
  induction h as [|o h IH]; intros s H G.
  - cbn [outs_from count run_state fold_left]. unfold newly_drained.
    destruct (is_drained (st s)); cbn; split; auto; lia.
  - cbn [guarded] in G. apply andb_true_iff in G. destruct G as [G1 G2].
    pose proof (inv_step s o H G1) as H1. destruct (IH _ H1 G2) as [A B].
    destruct (drained_step s o H G1) as [A1 B1].
    cbn [outs_from count run_state fold_left]. fold (step' s o). fold (run_state (step' s o) h).
    split; [|auto].
    unfold newly_drained in *.
    destruct (is_drained (st s)) eqn:D0; destruct (is_drained (st (step' s o))) eqn:D1;
      destruct (is_drained (st (run_state (step' s o) h))) eqn:D2; cbn [negb andb] in *;
      try (specialize (B1 eq_refl); discriminate); try (specialize (B eq_refl); discriminate); lia.
Qed.

(** * The Close timer bounds the drain *)
(** instant and PTO the environment supplied to an operation that can close the connection *)
Definition op_time (o : op) : Z :=
  match o with
  | OpClose now _ _ | OpPacket now _ _ _ _ | OpTimeout now | OpTransmit now _ => now
  | _ => 0
  end.
Definition op_pto (o : op) : Z :=
  match o with
  | OpClose _ _ pto => pto
  | OpPacket _ _ _ pc _ => pc
  | OpTransmit _ e => pto_tx e
  | _ => 0
  end.

Lemma close_timer_hp_rest : forall s now p pc sr, Inv s ->
  err_result p && is_closed (st s) = false ->
  (is_closed (st s) = false -> is_closing (st (hp_rest s now p pc sr)) = true ->
     t_close (hp_rest s now p pc sr) = Some (now + 3 * pc)) /\
  (is_closing (st s) = true -> is_closing (st (hp_rest s now p pc sr)) = true ->
     t_close (hp_rest s now p pc sr) = t_close s).
Proof.
  intros s now p pc sr H G. unfold hp_rest.
  destruct p; casest s; cbn [process Lifecycle.authed err_result state_of_err fst snd negb andb orb] in *;
    try discriminate G; repeat (first [progress prj | rewrite Est | split_if]);
    split; intros; try discriminate; try reflexivity; auto.
Qed.

Lemma auth_t_close : forall s now pto, t_close (on_packet_authenticated s now pto) = t_close s.
Proof. intros. unf2. repeat (split_if; prj); reflexivity. Qed.

Lemma close_timer_step : forall s o, Inv s -> guard s o = true ->
  (is_closed (st s) = false -> is_closing (st (step' s o)) = true ->
     t_close (step' s o) = Some (op_time o + 3 * op_pto o)) /\
  (is_closing (st s) = true -> is_closing (st (step' s o)) = true ->
     t_close (step' s o) = t_close s).
Proof.
  intros s o H G.
  destruct o as [now code pto|now p pi pc sr|pi|now|other| |now e]; unfold step', step;
    cbn [step_gen fst snd op_time op_pto].
  - unfold close_inner. casest s; repeat (first [progress prj | rewrite Est | split_if]);
      split; intros; try discriminate; auto.
  - rewrite hp_split. unfold guard in G. apply negb_true_iff in G.
    destruct p; try (split; intros; [destruct (st s); discriminate|reflexivity]);
    match goal with |- context [hp_rest ?s1 _ ?p _ _] =>
      assert (I1 : Inv s1) by
        (destruct (Lifecycle.authed p && negb (is_closed (st s))) eqn:E; [|exact H];
         apply inv_auth; [exact H|]; apply andb_true_iff in E; destruct E as [_ E];
         now apply negb_true_iff in E);
      assert (S1 : st s1 = st s) by (destruct (Lifecycle.authed p && negb (is_closed (st s))); rewrite ?auth_st; reflexivity);
      assert (Q1 : t_close s1 = t_close s) by (destruct (Lifecycle.authed p && negb (is_closed (st s))); rewrite ?auth_t_close; reflexivity);
      destruct (close_timer_hp_rest s1 now p pc sr I1) as [A B]; [rewrite S1; exact G|];
      rewrite S1, Q1 in *; split; assumption
    end.
  - unfold set_peer_params; destruct (negotiate (cfg_idle s) pi); prj; (split; intros; [destruct (st s); discriminate|reflexivity]).
  - pose proof H as H'. destruct H' as (_ & I2 & I3 & I4 & I5 & _).
    unfold handle_timeout, expired. casest s; prj; sat;
      repeat (first [progress prj | rewrite Est | split_if]); split; intros; try discriminate; auto; try congruence.
  - unfold poll. destruct other; prj; [|destruct (error s); prj];
      split; intros; try reflexivity; destruct (st s); discriminate.
  - unfold poll_endpoint_events. destruct (0 <? epq s) eqn:E; prj;
      split; intros; try reflexivity; destruct (st s); discriminate.
  - unfold guard in G. apply negb_true_iff in G.
    unfold poll_transmit_gen, on_sent, close_inner, reset_keep_alive, reset_idle_timeout.
    casest s; prj; rewrite ?andb_true_r, ?andb_false_r in G;
      repeat (first [progress prj | rewrite Est | split_if]); split; intros; try discriminate; auto.
Qed.

(** expiry of the Close timer drains *)
Lemma close_timer_fires : forall s d now, Inv s -> is_closing (st s) = true ->
  t_close s = Some d -> d <= now ->
  st (handle_timeout s now) = Drained /\ epq (handle_timeout s now) = epq s + 1.
Proof.
  intros s d now H C T L. destruct H as (_ & I2 & _).
  assert (C' : is_closed (st s) = true) by (destruct (st s); try discriminate C; reflexivity).
  destruct (I2 C') as [Ti Tk]. unfold handle_timeout, expired. rewrite Ti, T. prj.
  assert ((d <=? now) = true) as -> by lia. prj. rewrite Tk. prj. auto.
Qed.

(** * After Drained: silence *)
Lemma drained_silent : forall s, Inv s -> st s = Drained ->
  t_close s = None /\ t_idle s = None /\ t_ka s = None /\
  (forall g now e, poll_transmit_gen g s now e = (s, ONone)) /\
  (forall now, handle_timeout s now = s).
Proof.
  intros s H D. destruct H as (_ & I2 & _ & I4 & _). rewrite D in *. prj.
  destruct (I2 eq_refl) as [Ti Tk]. specialize (I4 eq_refl).
  repeat split; auto.
  - intros. unfold poll_transmit_gen. rewrite D. reflexivity.
  - intros. unfold handle_timeout, expired. rewrite Ti, I4. prj. rewrite Tk. reflexivity.
Qed.

(** * A local close is announced at once *)
Definition has_keys (e : txenv) (sp : Z) : bool :=
  if sp =? 0 then keys_i e else if sp =? 1 then keys_h e else if sp =? 2 then keys_d e else false.

Lemma close_spaces_highest : forall e, has_keys e (highest e) = true ->
  snd (close_spaces e) = true /\ In (highest e) (fst (close_spaces e)).
Proof.
  intros e K. unfold has_keys, close_spaces in *.
  destruct (keys_i e), (keys_h e), (keys_d e);
  destruct (highest e =? 0) eqn:E0; try discriminate K; cbn [andb fst snd app In];
  try (apply Z.eqb_eq in E0; rewrite E0; auto; fail);
  destruct (highest e =? 1) eqn:E1; try discriminate K; cbn [andb fst snd app In];
  try (apply Z.eqb_eq in E1; rewrite E1; auto; fail);
  destruct (highest e =? 2) eqn:E2; try discriminate K; cbn [andb fst snd app In];
  try (apply Z.eqb_eq in E2; rewrite E2; auto 6; fail).
Qed.

Lemma local_close_announced : forall s now code pto now' e,
  is_closed (st s) = false -> has_keys e (highest e) = true ->
  amp_blocked e = false -> conf e <> 2 ->
  exists fr,
    poll_transmit (close_inner s now pto (CApp code)) now' e =
      (set_close (close_inner s now pto (CApp code)) false, OTxClose fr) /\
    In (highest e, if highest e =? 2 then CApp code else CTransport APPLICATION_ERROR) fr /\
    (forall sp a, In (sp, a) fr -> a = if sp =? 2 then CApp code else CTransport APPLICATION_ERROR).
Proof.
  intros s now code pto now' e C K A F.
  destruct (close_spaces_highest e K) as [S I].
  unfold poll_transmit, poll_transmit_gen, close_inner. rewrite C. prj. rewrite A.
  assert ((conf e =? 2) = false) as -> by lia. cbn [andb].
  destruct (close_spaces e) as [sp served]. cbn [fst snd] in *. subst served.
  destruct sp as [|x sp]; [destruct I|].
  eexists. split; [reflexivity|]. split.
  - change (highest e, if highest e =? 2 then CApp code else CTransport APPLICATION_ERROR)
      with ((fun x => (x, announce (Closed (CApp code)) x)) (highest e)).
    apply in_map. exact I.
  - intros sp0 a IN. apply in_map_iff in IN. destruct IN as (y & E & _). inversion E; subst. reflexivity.
Qed.

(** * negotiate_max_idle_timeout *)
Lemma negotiate_comm : forall x y, negotiate x y = negotiate y x.
Proof.
  intros [a|] [b|]; unfold negotiate; try reflexivity.
  destruct (a =? 0) eqn:A, (b =? 0) eqn:B; try reflexivity. now rewrite Z.min_comm.
Qed.
Lemma negotiate_absent : forall x y, absent x = true -> negotiate x y = negotiate None y.
Proof.
  intros [a|] [b|] H; unfold negotiate, absent in *; try reflexivity; rewrite H; reflexivity.
Qed.
Lemma negotiate_none : forall x y, negotiate x y = None <-> absent x = true /\ absent y = true.
Proof.
  intros [a|] [b|]; unfold negotiate, absent;
    repeat match goal with |- context [?v =? 0] => destruct (v =? 0) end; intuition discriminate.
Qed.
Lemma negotiate_min : forall a b, a <> 0 -> b <> 0 ->
  negotiate (Some a) (Some b) = Some (1000 * Z.min a b).
Proof.
  intros a b A B. unfold negotiate.
  assert ((a =? 0) = false) as -> by lia. assert ((b =? 0) = false) as -> by lia. reflexivity.
Qed.
Lemma negotiate_one : forall a y, a <> 0 -> absent y = true -> negotiate (Some a) y = Some (1000 * a).
Proof.
  intros a [b|] A Y; unfold negotiate, absent in *.
  - assert ((a =? 0) = false) as -> by lia. rewrite Y. reflexivity.
  - assert ((a =? 0) = false) as -> by lia. reflexivity.
Qed.

(** * Idle timer *)
Definition op_pto_idle (o : op) : Z :=
  match o with
  | OpPacket _ _ pi _ _ => pi
  | OpTransmit _ e => pto_tx e
  | _ => 0
  end.
(** an authenticated packet accepted by a connection that is not closed *)
Definition rx_auth (s : state) (o : op) : bool :=
  match o with
  | OpPacket _ p _ _ _ => Lifecycle.authed p && negb (is_closed (st s))
  | _ => false
  end.
(** operations that may legitimately restart the idle timer *)
Definition restarts (s : state) (o : op) : bool :=
  match o with
  | OpPacket _ p _ _ _ => Lifecycle.authed p && negb (is_closed (st s))
  | OpTransmit _ e => ack_eliciting e && data e && permit_idle_reset s && negb (is_closed (st s))
  | _ => false
  end.

Lemma hp_rest_idle : forall s now p pc sr,
  (t_idle (hp_rest s now p pc sr) = t_idle s \/ t_idle (hp_rest s now p pc sr) = None) /\
  idle_timeout (hp_rest s now p pc sr) = idle_timeout s.
Proof.
  intros. unfold hp_rest.
  destruct p; casest s; cbn [process Lifecycle.authed err_result state_of_err fst snd negb andb orb] in *;
    repeat (first [progress prj | rewrite Est | split_if]); auto.
Qed.

Lemma auth_idle : forall s now pto, is_closed (st s) = false ->
  idle_timeout (on_packet_authenticated s now pto) = idle_timeout s /\
  match idle_timeout s with
  | Some i => t_idle (on_packet_authenticated s now pto) = Some (now + Z.max i (3 * pto))
  | None => t_idle (on_packet_authenticated s now pto) = t_idle s
  end.
Proof.
  intros s now pto C. unf2. casest s; try discriminate C;
    repeat (first [progress prj | rewrite Est | split_if]); auto.
Qed.

Definition idle_fact (s : state) (o : op) (s' : state) : Prop :=
  (idle_timeout s' = idle_timeout s \/ exists p, o = OpPeerParams p) /\
  (t_idle s' = None \/
   (t_idle s' = t_idle s /\ (rx_auth s o = true -> idle_timeout s = None)) \/
   (exists i, idle_timeout s = Some i /\ restarts s o = true /\
              t_idle s' = Some (op_time o + Z.max i (3 * op_pto_idle o)))).

Lemma idle_step : forall s o, idle_fact s o (step' s o).
Proof.
  intros s o. unfold idle_fact.
  destruct o as [now code pto|now p pi pc sr|pi|now|other| |now e]; unfold step', step;
    cbn [step_gen fst snd op_time op_pto_idle rx_auth restarts]; try rewrite Ec0.
  - unfold close_inner. casest s; repeat (first [progress prj | rewrite Est | split_if]);
      split; auto; right; left; split; auto; discriminate.
  - rewrite hp_split.
    assert (PD : p = PDiscard \/ p <> PDiscard) by (destruct p; auto; right; discriminate).
    destruct PD as [-> | PD]; [split; auto; right; left; split; auto; cbn; discriminate|].
    assert (E : match p with PDiscard => s | _ => hp_rest (if Lifecycle.authed p && negb (is_closed (st s)) then on_packet_authenticated s now pi else s) now p pc sr end
                = hp_rest (if Lifecycle.authed p && negb (is_closed (st s)) then on_packet_authenticated s now pi else s) now p pc sr)
      by (destruct p; try reflexivity; congruence).
    rewrite E; clear E.
    destruct (Lifecycle.authed p && negb (is_closed (st s))) eqn:Eb.
    + apply andb_true_iff in Eb. destruct Eb as [Ea Ec]. apply negb_true_iff in Ec.
      destruct (auth_idle s now pi Ec) as [A B].
      destruct (hp_rest_idle (on_packet_authenticated s now pi) now p pc sr) as [[T|T] I]; rewrite T, I, A.
      * split; auto. destruct (idle_timeout s) as [i|]; rewrite B.
        -- right; right; exists i; auto.
        -- right; left; auto.
      * split; auto.
    + destruct (hp_rest_idle s now p pc sr) as [[T|T] I]; rewrite T, I; split; auto.
      right; left; split; auto; discriminate.
  - unfold set_peer_params; destruct (negotiate (cfg_idle s) pi); prj; (split; [right; eauto|]);
      [right; left; split; auto; discriminate | left; reflexivity].
  - unfold handle_timeout, expired, kill.
    repeat (first [progress prj | split_if]); split; auto; right; left; split; auto; discriminate.
  - unfold poll. destruct other; prj; [|destruct (error s); prj]; split; auto; right; left; split; auto; discriminate.
  - unfold poll_endpoint_events. destruct (0 <? epq s); prj; split; auto; right; left; split; auto; discriminate.
  - unfold poll_transmit_gen, on_sent, close_inner, reset_keep_alive, reset_idle_timeout, kill.
    casest s; repeat (first [progress prj | rewrite Est | split_if]); split; auto;
      try (right; left; split; auto; discriminate);
      try (right; right; eexists; split; [eassumption|]; split;
           [repeat match goal with H : _ = _ |- _ => rewrite H end; reflexivity|reflexivity]).
  all: right; right; eexists; split; [reflexivity|]; split; [|reflexivity];
    apply negb_false_iff in Heqb; rewrite Heqb; reflexivity.
Qed.


Lemma hp_rest_not_timedout : forall s now p pc sr, error s = None -> is_closed (st s) = false ->
  error (hp_rest s now p pc sr) <> Some RTimedOut.
Proof.
  intros s now p pc sr E1 C. unfold hp_rest.
  destruct p; cbn [process Lifecycle.authed err_result state_of_err fst snd negb andb orb];
  destruct (st s) eqn:Est; try discriminate C;
  repeat (first [progress prj | rewrite Est | rewrite E1 | split_if]); try discriminate; try congruence;
  try (destruct r; discriminate).
Qed.

(** TimedOut is produced only by [handle_timeout] at or after the Idle deadline. *)
Lemma timedout_step : forall s o, Inv s -> guard s o = true ->
  error (step' s o) = Some RTimedOut -> error s <> Some RTimedOut ->
  exists now d, o = OpTimeout now /\ t_idle s = Some d /\ d <= now.
Proof.
  intros s o H G E N.
  destruct (is_closed (st s)) eqn:C.
  - destruct (closed_step s o H G C) as [_ [Q|Q]]; congruence.
  - assert (En : error s = None).
    { destruct H as (I1 & _). destruct (error s) eqn:Ee; [|reflexivity].
      assert (X : is_closed (st s) = true) by (apply I1; discriminate). congruence. }
    clear N. revert E.
    destruct o as [now code pto|now p pi pc sr|pi|now|other| |now e]; unfold step', step;
      cbn [step_gen fst snd].
    + unfold close_inner. rewrite C. prj. congruence.
    + rewrite hp_split. destruct p; try congruence;
      (intros E; exfalso; revert E; apply hp_rest_not_timedout;
       [destruct (_ && negb (is_closed (st s))); [unf2; repeat (split_if; prj)|]; exact En
       |destruct (_ && negb (is_closed (st s))); rewrite ?auth_st; exact C]).
    + unfold set_peer_params; destruct (negotiate (cfg_idle s) pi); prj; congruence.
    + unfold handle_timeout, expired, kill. intros E.
      destruct (t_idle s) as [d|] eqn:Ti.
      * destruct (d <=? now) eqn:L.
        -- exists now, d. repeat split; auto. lia.
        -- exfalso. revert E. repeat (first [progress prj | split_if]); congruence.
      * exfalso. revert E. repeat (first [progress prj | split_if]); congruence.
    + unfold poll. destruct other; prj; [|rewrite En; prj]; congruence.
    + unfold poll_endpoint_events. destruct (0 <? epq s); prj; congruence.
    + unfold poll_transmit_gen, on_sent, close_inner, reset_keep_alive, reset_idle_timeout, kill.
      destruct (st s) eqn:Est; try discriminate C;
        repeat (first [progress prj | rewrite Est | split_if]); try congruence; discriminate.
Qed.

(** idle-timeout changes never enlarge the timeout of an armed Idle timer (false only for a
    0-RTT client whose remembered peer parameters carried a smaller max_idle_timeout than the
    real ones, see the note in Props/C08.v) *)
Definition stable (s : state) (o : op) : bool :=
  match o with
  | OpPeerParams p =>
      match t_idle s with
      | None => true
      | Some _ =>
          match idle_timeout s, negotiate (cfg_idle s) p with
          | Some i, Some i' => i' <=? i
          | _, _ => false
          end
      end
  | _ => true
  end.
Fixpoint stable_run (s : state) (h : list op) : bool :=
  match h with [] => true | o :: r => stable s o && stable_run (step' s o) r end.

Definition timed (o : op) : bool :=
  match o with OpClose _ _ _ | OpPacket _ _ _ _ _ | OpTimeout _ | OpTransmit _ _ => true | _ => false end.
(** the instants supplied by the environment never go backwards *)
Fixpoint mono (t : Z) (h : list op) : bool :=
  match h with
  | [] => true
  | o :: r => if timed o then (t <=? op_time o) && mono (op_time o) r else mono t r
  end.
(** instants of the authenticated packets accepted while not closed *)
Fixpoint rx_times (s : state) (h : list op) : list Z :=
  match h with
  | [] => []
  | o :: r => (if rx_auth s o then [op_time o] else []) ++ rx_times (step' s o) r
  end.

Definition K (s : state) (acc : list Z) : Prop :=
  forall d i, t_idle s = Some d -> idle_timeout s = Some i -> Forall (fun t => t + i <= d) acc.

Lemma K_step : forall s o acc tmax, K s acc -> Forall (fun t => t <= tmax) acc ->
  stable s o = true -> (timed o = true -> tmax <= op_time o) ->
  K (step' s o) (acc ++ (if rx_auth s o then [op_time o] else [])).
Proof.
  intros s o acc tmax HK HM ST TM d i Td Ti.
  destruct (idle_step s o) as [A B].
  destruct B as [B|[[B R]|(i0 & I0 & RS & B)]].
  - congruence.
  - rewrite B in Td.
    destruct A as [A|[p ->]].
    + rewrite A in Ti. destruct (rx_auth s o) eqn:RX; [specialize (R eq_refl); congruence|].
      rewrite app_nil_r. apply HK; assumption.
    + cbn [rx_auth]. rewrite app_nil_r. cbn [stable] in ST. rewrite Td in ST.
      unfold step', step in Ti. cbn [step_gen fst] in Ti. unfold set_peer_params in Ti.
      destruct (negotiate (cfg_idle s) p) as [i'|] eqn:N; prj; [|discriminate Ti].
      inversion Ti; subst i'. try rewrite N in ST. destruct (idle_timeout s) as [i1|] eqn:I1; [|discriminate ST].
      specialize (HK d i1 Td I1). eapply Forall_impl; [|exact HK]. cbn. intros; lia.
  - assert (TO : timed o = true) by (destruct o; cbn in RS |- *; try discriminate RS; reflexivity).
    assert (NP : idle_timeout (step' s o) = idle_timeout s).
    { destruct A as [A|[p ->]]; [exact A|discriminate TO]. }
    rewrite NP, I0 in Ti. inversion Ti; subst i0. rewrite B in Td. inversion Td; subst d.
    specialize (TM TO). apply Forall_app. split.
    + eapply Forall_impl; [|exact HM]. cbn. intros; lia.
    + destruct (rx_auth s o); constructor; [lia|constructor].
Qed.

Lemma idle_lower : forall h s acc tmax, K s acc -> Forall (fun t => t <= tmax) acc ->
  mono tmax h = true -> stable_run s h = true ->
  K (run_state s h) (acc ++ rx_times s h).
Proof.
  induction h as [|o h IH]; intros s acc tmax HK HM MO ST.
  - cbn [rx_times run_state fold_left]. now rewrite app_nil_r.
  - cbn [rx_times run_state fold_left]. cbn [stable_run] in ST. apply andb_true_iff in ST.
    destruct ST as [S1 S2]. cbn [mono] in MO. rewrite app_assoc.
    fold (step' s o). fold (run_state (step' s o) h).
    destruct (timed o) eqn:TO.
    + apply andb_true_iff in MO. destruct MO as [M1 M2].
      apply (IH _ _ (op_time o)); auto.
      * apply (K_step s o acc tmax); auto. intros _. lia.
      * apply Forall_app. split.
        -- eapply Forall_impl; [|exact HM]. cbn. intros; lia.
        -- destruct (rx_auth s o); constructor; [lia|constructor].
    + apply (IH _ _ tmax); auto.
      * apply (K_step s o acc tmax); auto. intros X; congruence.
      * assert (rx_auth s o = false) as -> by (destruct o; try reflexivity; discriminate TO).
        now rewrite app_nil_r.
Qed.

(** every ConnectionLost a closed connection reports carries the recorded reason *)
Lemma lost_is_recorded : forall h s, Inv s -> guarded s h = true -> is_closed (st s) = true ->
  Forall (fun o => forall r, o = OLost r -> error s = Some r) (outs_from s h).
Proof.
  induction h as [|o h IH]; intros s H G C; cbn [outs_from]; [constructor|].
  cbn [guarded] in G. apply andb_true_iff in G. destruct G as [G1 G2].
  pose proof (inv_step s o H G1) as H1. destruct (closed_step s o H G1 C) as [C1 Q].
  constructor.
  - intros r E. apply (lost_out s o r E).
  - fold (step' s o). specialize (IH _ H1 G2 C1). eapply Forall_impl; [|exact IH].
    cbn. intros a Ha r E. specialize (Ha r E). destruct Q as [Q|Q]; congruence.
Qed.

(** the non-closed prefix of a history never reports anything *)
Lemma open_no_error : forall s, Inv s -> is_closed (st s) = false -> error s = None.
Proof.
  intros s (I1 & _) C. destruct (error s) eqn:E; [|reflexivity].
  assert (is_closed (st s) = true) by (apply I1; discriminate). congruence.
Qed.

(** * No negotiated idle timeout, no armed Idle timer (holds since the repair of the stale idle
    timer: [set_peer_params] stops the timer when the negotiation yields "none") *)
Definition idle_armed_ok (s : state) : Prop := idle_timeout s = None -> t_idle s = None.

Lemma idle_armed_step : forall s o, idle_armed_ok s -> idle_armed_ok (step' s o).
Proof.
  intros s o H. unfold idle_armed_ok in *.
  destruct (idle_step s o) as [A B]. intros N.
  destruct A as [A|[p ->]].
  - rewrite A in N. destruct B as [B|[[B _]|(i0 & I0 & _)]].
    + exact B.
    + rewrite B. exact (H N).
    + congruence.
  - revert N. unfold step', step. cbn [step_gen fst]. unfold set_peer_params.
    destruct (negotiate (cfg_idle s) p); prj; [discriminate|reflexivity].
Qed.

Lemma idle_armed_run : forall h s, idle_armed_ok s -> idle_armed_ok (run_state s h).
Proof.
  induction h as [|o h IH]; intros s H; [exact H|].
  cbn [run_state fold_left]. apply IH. apply idle_armed_step. exact H.
Qed.

Lemma idle_armed_init : forall i k, idle_armed_ok (init i k).
Proof. intros i k _. reflexivity. Qed.
