(** Proofs about Model/TParams.v: [read (write p)] = [p] for every valid parameter set, whatever
    the order in which the parameters are written. *)
From QV Require Import Lib.Tac Lib.Bytes Lib.Corr Model.Varint Model.TParams
  Proofs.BytesProofs Proofs.VarintProofs.
Open Scope Z_scope.

(** * Primitives *)
Lemma in62_true x : in62 x = true <-> 0 <= x < 2 ^ 62.
Proof. unfold in62. lia. Qed.

Lemma get_var_venc x r : 0 <= x < 2 ^ 62 -> get_var (venc x ++ r) = POk x r.
Proof.
  intros Hx. destruct (varint_roundtrip x r Hx) as (b & Hb & Hd).
  unfold get_var, venc. now rewrite Hb, Hd.
Qed.

Lemma venc_length x : 0 <= x < 2 ^ 62 -> (1 <= length (venc x) <= 8)%nat.
Proof.
  intros Hx. unfold venc, Varint.encode.
  destruct (x <? 0) eqn:E0; [lia|].
  destruct (x <? 2 ^ 6); [rewrite be_bytes_length; lia|].
  destruct (x <? 2 ^ 14); [rewrite be_bytes_length; lia|].
  destruct (x <? 2 ^ 30); [rewrite be_bytes_length; lia|].
  destruct (x <? 2 ^ 62) eqn:E; [rewrite be_bytes_length; lia|lia].
Qed.

Lemma vsize_venc x : 0 <= x < 2 ^ 62 -> vsize x = zlen (venc x).
Proof.
  intros Hx. destruct (varint_size_encode x Hx) as (b & s & Hb & Hs & Hl).
  unfold vsize, venc. rewrite Hb, Hs. now subst.
Qed.

Lemma take_app a b : take (length a) (a ++ b) = Some (a, b).
Proof.
  unfold take. rewrite app_length.
  replace (Nat.ltb (length a + length b) (length a)) with false
    by (symmetry; apply Nat.ltb_ge; lia).
  now rewrite firstn_app_exact, skipn_app_exact.
Qed.

(** One trip through the loop on a well-formed TLV item. *)
Lemma read_loop_tlv f s id v rest :
  0 <= id < 2 ^ 62 -> 0 <= zlen v < 2 ^ 62 ->
  read_loop (S f) s (tlv id v ++ rest) =
    match read_param s id (zlen v) (v ++ rest) with
    | PErr e => PErr e
    | POk s' r3 => read_loop f s' r3
    end.
Proof.
  intros Hid Hv. unfold tlv. rewrite <- !app_assoc.
  pose proof (venc_length id Hid) as Hl.
  destruct (venc id) as [|b0 t] eqn:Ev; [cbn [length] in Hl; lia|].
  cbn [app read_loop]. change (b0 :: t ++ ?x) with ((b0 :: t) ++ x). rewrite <- Ev.
  rewrite get_var_venc by exact Hid. rewrite get_var_venc by exact Hv.
  destruct (zlen (v ++ rest) <? zlen v) eqn:E; [|reflexivity].
  unfold zlen in E. rewrite app_length in E. lia.
Qed.

Lemma tlv_length id v : 0 <= id < 2 ^ 62 -> 0 <= zlen v < 2 ^ 62 -> (2 + length v <= length (tlv id v))%nat.
Proof.
  intros Hid Hv. unfold tlv. rewrite !app_length.
  pose proof (venc_length id Hid). pose proof (venc_length (zlen v) Hv). lia.
Qed.

(** * read_param on each identifier *)
Section ReadParam.
Variables (st : tp) (got : list bool) (len : Z) (r : list Z).

Lemma rp_odcid : read_param (st, got) ID_ODCID len r =
  match decode_cid len (odcid st) r with
  | POk c r' => POk (set_odcid st c, got) r' | PErr e => PErr e end.
Proof. reflexivity. Qed.
Lemma rp_srt : read_param (st, got) ID_SRT len r =
  if negb (len =? 16) || is_some (srt st) then PErr Malformed
  else POk (set_srt st (firstn 16 r), got) (skipn 16 r).
Proof. reflexivity. Qed.
Lemma rp_dam : read_param (st, got) ID_DAM len r =
  if negb (len =? 0) || dam st then PErr Malformed else POk (set_dam st, got) r.
Proof. reflexivity. Qed.
Lemma rp_pa : read_param (st, got) ID_PA len r =
  if is_some (pa st) then PErr Malformed
  else match read_pa (firstn (Z.to_nat len) r) with
       | POk (a, used) _ => POk (set_pa st a, got) (skipn used r)
       | PErr e => PErr e
       end.
Proof. reflexivity. Qed.
Lemma rp_iscid : read_param (st, got) ID_ISCID len r =
  match decode_cid len (iscid st) r with
  | POk c r' => POk (set_iscid st c, got) r' | PErr e => PErr e end.
Proof. reflexivity. Qed.
Lemma rp_rscid : read_param (st, got) ID_RSCID len r =
  match decode_cid len (rscid st) r with
  | POk c r' => POk (set_rscid st c, got) r' | PErr e => PErr e end.
Proof. reflexivity. Qed.
Lemma rp_mdfs : read_param (st, got) ID_MDFS len r =
  if (8 <? len) || is_some (mdfs st) then PErr Malformed
  else match get_var r with
       | POk v r' => POk (set_mdfs st v, got) r' | PErr e => PErr e end.
Proof. reflexivity. Qed.
Lemma rp_gqb : read_param (st, got) ID_GQB len r =
  if len =? 0 then POk (set_gqb st, got) r else PErr Malformed.
Proof. reflexivity. Qed.
Lemma rp_mad : read_param (st, got) ID_MAD len r =
  match get_var r with
  | POk v r' => POk (set_mad st v, got) r' | PErr e => PErr e end.
Proof. reflexivity. Qed.
Lemma rp_int k : (k < 11)%nat -> read_param (st, got) (nth k int_ids 0) len r =
  match get_var r with
  | POk v r' =>
      if negb (len =? vsize v) || nth k got false then PErr Malformed
      else POk (set_ints st (upd k v (ints st)), upd k true got) r'
  | PErr e => PErr e
  end.
Proof. intros Hk. do 11 (destruct k as [|k]; [reflexivity|]). lia. Qed.

(** Reserved identifiers (31 N + 27) collide with no known identifier: ignored. *)
Lemma rp_reserved id : id mod 31 = 27 ->
  read_param (st, got) id len r = POk (st, got) (skipn (Z.to_nat len) r).
Proof.
  intros Hid.
  assert (Hn : forall c, c mod 31 <> 27 -> (id =? c) = false).
  { intros c Hc. apply Z.eqb_neq. intros ->. contradiction. }
  unfold read_param, ID_ODCID, ID_SRT, ID_DAM, ID_PA, ID_ISCID, ID_RSCID, ID_MDFS, ID_GQB, ID_MAD,
    int_ids, index_of.
  rewrite !Hn by (vm_compute; discriminate). reflexivity.
Qed.
End ReadParam.

(** * The effect of one written item on the reader's state *)
Definition item (p : tp) (g : option (Z * list Z)) (k : nat) : list Z :=
  match write_item p g k with Some b => b | None => [] end.

Definition apply_item (p : tp) (k : nat) (s : state) : state :=
  let '(st, got) := s in
  if Nat.ltb k NINT then
    let v := nth k (ints p) 0 in
    if v =? nth k int_defaults 0 then s else (set_ints st (upd k v (ints st)), upd k true got)
  else
    match k with
    | 12%nat => match srt p with Some t => (set_srt st t, got) | None => s end
    | 13%nat => if dam p then (set_dam st, got) else s
    | 14%nat => match mdfs p with Some x => (set_mdfs st x, got) | None => s end
    | 15%nat => match pa p with Some a => (set_pa st a, got) | None => s end
    | 16%nat => match odcid p with Some c => (set_odcid st c, got) | None => s end
    | 17%nat => match iscid p with Some c => (set_iscid st c, got) | None => s end
    | 18%nat => match rscid p with Some c => (set_rscid st c, got) | None => s end
    | 19%nat => if gqb p then (set_gqb st, got) else s
    | 20%nat => match mad p with Some x => (set_mad st x, got) | None => s end
    | _ => s
    end.

(** Field [k] has not been read yet. *)
Definition fresh (k : nat) (s : state) : Prop :=
  let '(st, got) := s in
  if Nat.ltb k NINT then nth k got false = false
  else
    match k with
    | 12%nat => srt st = None
    | 13%nat => dam st = false
    | 14%nat => mdfs st = None
    | 15%nat => pa st = None
    | 16%nat => odcid st = None
    | 17%nat => iscid st = None
    | 18%nat => rscid st = None
    | _ => True
    end.

Ltac wf_hyps :=
  repeat match goal with
         | H : _ && _ = true |- _ => apply andb_true_iff in H; destruct H
         end.

Lemma decode_cid_ok c rest : zlen c <= MAX_CID -> decode_cid (zlen c) None (c ++ rest) = POk c rest.
Proof.
  intros Hc. unfold decode_cid. cbn [is_some]. rewrite orb_false_r.
  destruct (MAX_CID <? zlen c) eqn:E1; [lia|]. cbn [orb].
  destruct (zlen (c ++ rest) <? zlen c) eqn:E2.
  { unfold zlen in E2. rewrite app_length in E2. lia. }
  unfold zlen. rewrite Nat2Z.id. now rewrite firstn_app_exact, skipn_app_exact.
Qed.

(** PreferredAddress *)
Lemma all_zero_zeros n : all_zero (zeros n) = true.
Proof. induction n; cbn; auto. Qed.

Lemma be2_val port : 0 <= port < 2 ^ 16 -> be_val (be_bytes 2 port) 0 = port.
Proof.
  intros Hp. rewrite be_val_be_bytes. change (256 ^ Z.of_nat 2) with (2 ^ 16).
  rewrite Z.mod_small by lia. lia.
Qed.

Lemma read_pa_ok a :
  wf_pa a = true -> read_pa (pa_bytes a) = POk (a, length (pa_bytes a)) [].
Proof.
  intros Hwf. unfold wf_pa, wf_cid, wf_tok in Hwf. wf_hyps.
  destruct a as [v4 v6 cid tok]. cbn [pa_v4 pa_v6 pa_cid pa_tok] in *.
  unfold pa_bytes. cbn [pa_v4 pa_v6 pa_cid pa_tok].
  set (A4 := match v4 with Some (ip, port) => ip ++ be_bytes 2 port | None => zeros 6 end).
  set (A6 := match v6 with Some (ip, port) => ip ++ be_bytes 2 port | None => zeros 18 end).
  assert (HA4 : length A4 = 6%nat /\ firstn 4 A4 = match v4 with Some (ip, _) => ip | None => zeros 4 end
               /\ be_val (firstn 2 (skipn 4 A4)) 0 = match v4 with Some (_, port) => port | None => 0 end).
  { subst A4. destruct v4 as [[ip port]|]; [|repeat split; reflexivity].
    cbn [wf_addr] in *. wf_hyps.
    match goal with H : Nat.eqb (length ip) 4 = true |- _ => apply Nat.eqb_eq in H; rename H into Hl end.
    rewrite app_length, be_bytes_length, Hl. split; [reflexivity|]. split.
    - now rewrite firstn_app_exact.
    - rewrite skipn_app_exact by exact Hl.
      rewrite firstn_all2 by (rewrite be_bytes_length; lia). apply be2_val. lia. }
  assert (HA6 : length A6 = 18%nat /\ firstn 16 A6 = match v6 with Some (ip, _) => ip | None => zeros 16 end
               /\ be_val (firstn 2 (skipn 16 A6)) 0 = match v6 with Some (_, port) => port | None => 0 end).
  { subst A6. destruct v6 as [[ip port]|]; [|repeat split; reflexivity].
    cbn [wf_addr] in *. wf_hyps.
    match goal with H : Nat.eqb (length ip) 16 = true |- _ => apply Nat.eqb_eq in H; rename H into Hl end.
    rewrite app_length, be_bytes_length, Hl. split; [reflexivity|]. split.
    - now rewrite firstn_app_exact.
    - rewrite skipn_app_exact by exact Hl.
      rewrite firstn_all2 by (rewrite be_bytes_length; lia). apply be2_val. lia. }
  destruct HA4 as (L4 & F4 & P4). destruct HA6 as (L6 & F6 & P6).
  clearbody A4 A6.
  do 7 (destruct A4 as [|? A4]; try discriminate L4).
  do 19 (destruct A6 as [|? A6]; try discriminate L6).
  match goal with H : Nat.eqb (length tok) 16 = true |- _ => apply Nat.eqb_eq in H; rename H into Htok end.
  do 17 (destruct tok as [|? tok]; try discriminate Htok).
  cbn [app length]. unfold read_pa, take.
  cbn [length app Nat.ltb Nat.leb firstn skipn nth].
  cbn [firstn skipn] in F4, P4, F6, P6. rewrite P4, P6, F4, F6.
  match goal with H : (zlen cid <=? MAX_CID) = true |- _ => rename H into Hcid end.
  match goal with |- context [zlen (cid ++ ?t) <? zlen cid] =>
    destruct (zlen (cid ++ t) <? zlen cid) eqn:E1 end.
  { unfold zlen in E1. rewrite app_length in E1. lia. }
  destruct (MAX_CID <? zlen cid) eqn:E2; [lia|]. cbn [orb].
  replace (Z.to_nat (zlen cid)) with (length cid) by (unfold zlen; lia).
  rewrite firstn_app_exact, skipn_app_exact by reflexivity.
  cbn [length Nat.ltb Nat.leb firstn skipn].
  assert (E4 : (if all_zero (match v4 with Some (ip, _) => ip | None => zeros 4 end)
                     && (match v4 with Some (_, port) => port | None => 0 end =? 0)
                then None
                else Some (match v4 with Some (ip, _) => ip | None => zeros 4 end,
                           match v4 with Some (_, port) => port | None => 0 end)) = v4).
  { destruct v4 as [[ip port]|]; [|reflexivity]. cbn [wf_addr] in *. wf_hyps.
    match goal with H : negb _ = true |- _ => apply negb_true_iff in H; rewrite H end. reflexivity. }
  assert (E6 : (if all_zero (match v6 with Some (ip, _) => ip | None => zeros 16 end)
                     && (match v6 with Some (_, port) => port | None => 0 end =? 0)
                then None
                else Some (match v6 with Some (ip, _) => ip | None => zeros 16 end,
                           match v6 with Some (_, port) => port | None => 0 end)) = v6).
  { destruct v6 as [[ip port]|]; [|reflexivity]. cbn [wf_addr] in *. wf_hyps.
    match goal with H : negb _ = true |- _ => apply negb_true_iff in H; rewrite H end. reflexivity. }
  rewrite E4, E6.
  match goal with H : is_some v4 || is_some v6 = true |- _ => rename H into Hsome end.
  destruct (negb (is_some v4) && negb (is_some v6)) eqn:E3.
  { destruct v4, v6; cbn in *; discriminate. }
  do 2 f_equal. f_equal. rewrite app_length. cbn [length]. unfold zlen. lia.
Qed.

(** * One written item moves the reader from [s] to [apply_item p k s]. *)
Record wf_facts (p : tp) : Prop := {
  wf_len : length (ints p) = 11%nat;
  wf_ints : forall k, (k < 11)%nat -> 0 <= nth k (ints p) 0 < 2 ^ 62;
  wf_mdfs : forall x, mdfs p = Some x -> 0 <= x < 2 ^ 62;
  wf_mad : forall x, mad p = Some x -> 0 <= x < 2 ^ 62;
  wf_iscid : forall c, iscid p = Some c -> zlen c <= MAX_CID;
  wf_odcid : forall c, odcid p = Some c -> zlen c <= MAX_CID;
  wf_rscid : forall c, rscid p = Some c -> zlen c <= MAX_CID;
  wf_srt : forall t, srt p = Some t -> length t = 16%nat;
  wf_paddr : forall a, pa p = Some a -> wf_pa a = true }.

Lemma wf_tp_facts msc server p : wf_tp msc server p = true -> wf_facts p.
Proof.
  intros H. unfold wf_tp in H. wf_hyps.
  match goal with H : Nat.eqb (length (ints p)) NINT = true |- _ =>
    apply Nat.eqb_eq in H; rename H into Hl end.
  match goal with H : forallb in62 (ints p) = true |- _ => rename H into Hall end.
  constructor.
  - exact Hl.
  - intros k Hk. rewrite forallb_forall in Hall. apply in62_true. apply Hall. apply nth_In.
    rewrite Hl. exact Hk.
  - intros x E. rewrite E in *. now apply in62_true.
  - intros x E. rewrite E in *. now apply in62_true.
  - intros c E. rewrite E in *. unfold wf_ocid, wf_cid in *. wf_hyps. lia.
  - intros c E. rewrite E in *. unfold wf_ocid, wf_cid in *. wf_hyps. lia.
  - intros c E. rewrite E in *. unfold wf_ocid, wf_cid in *. wf_hyps. lia.
  - intros t E. rewrite E in *. unfold wf_tok in *. wf_hyps. now apply Nat.eqb_eq.
  - intros a E. rewrite E in *. assumption.
Qed.

Lemma zlen_bound (l : list Z) : (length l <= 1000)%nat -> 0 <= zlen l < 2 ^ 62.
Proof. intros H. unfold zlen. lia. Qed.

Lemma pa_bytes_length a : wf_pa a = true -> (length (pa_bytes a) <= 100)%nat.
Proof.
  intros Hwf. unfold wf_pa, wf_cid, wf_tok in Hwf. wf_hyps.
  destruct a as [v4 v6 cid tok]. cbn [pa_v4 pa_v6 pa_cid pa_tok] in *. unfold pa_bytes.
  cbn [pa_v4 pa_v6 pa_cid pa_tok]. rewrite !app_length.
  assert (length (match v4 with Some (ip, port) => ip ++ be_bytes 2 port | None => zeros 6 end) = 6%nat).
  { destruct v4 as [[ip port]|]; [|reflexivity]. cbn [wf_addr] in *. wf_hyps.
    rewrite app_length, be_bytes_length.
    match goal with H : Nat.eqb (length ip) 4 = true |- _ => apply Nat.eqb_eq in H; rewrite H end. reflexivity. }
  assert (length (match v6 with Some (ip, port) => ip ++ be_bytes 2 port | None => zeros 18 end) = 18%nat).
  { destruct v6 as [[ip port]|]; [|reflexivity]. cbn [wf_addr] in *. wf_hyps.
    rewrite app_length, be_bytes_length.
    match goal with H : Nat.eqb (length ip) 16 = true |- _ => apply Nat.eqb_eq in H; rewrite H end. reflexivity. }
  match goal with H : Nat.eqb (length tok) 16 = true |- _ => apply Nat.eqb_eq in H end.
  unfold MAX_CID, zlen in *. cbn [length]. lia.
Qed.

(** The generic shape: a TLV item whose [read_param] succeeds with the expected state. *)
Lemma step_tlv s s' id v rest f :
  0 <= id < 2 ^ 62 -> (length v <= 1000)%nat ->
  read_param s id (zlen v) (v ++ rest) = POk s' rest ->
  (length (tlv id v ++ rest) <= f)%nat ->
  exists f', (length rest <= f')%nat /\ read_loop f s (tlv id v ++ rest) = read_loop f' s' rest.
Proof.
  intros Hid Hv Hrp Hf.
  pose proof (tlv_length id v Hid (zlen_bound v Hv)) as Hl. rewrite app_length in Hf.
  destruct f as [|f0]; [lia|]. exists f0. split; [lia|].
  rewrite read_loop_tlv by (try assumption; apply zlen_bound; assumption). now rewrite Hrp.
Qed.

Lemma step_nil s rest f :
  (length rest <= f)%nat ->
  exists f', (length rest <= f')%nat /\ read_loop f s rest = read_loop f' s rest.
Proof. intros H. exists f. split; [exact H|reflexivity]. Qed.

Lemma step_item msc server p g k s rest f :
  wf_tp msc server p = true -> wf_grease g = true -> (k < 21)%nat -> fresh k s ->
  (length (item p g k ++ rest) <= f)%nat ->
  exists f', (length rest <= f')%nat /\
    read_loop f s (item p g k ++ rest) = read_loop f' (apply_item p k s) rest.
Proof.
  intros Hwf Hg Hk Hfr Hf. pose proof (wf_tp_facts _ _ _ Hwf) as W.
  destruct s as [st got]. unfold item, write_item, apply_item, fresh in *.
  destruct (Nat.ltb k NINT) eqn:Ek.
  - (* integer parameter *)
    apply Nat.ltb_lt in Ek. unfold NINT in Ek.
    pose proof (wf_ints p W k Ek) as Hv.
    destruct (nth k (ints p) 0 =? nth k int_defaults 0) eqn:Ed; [now apply step_nil|].
    apply step_tlv; try assumption.
    + do 11 (destruct k as [|k]; [cbn; lia|]). lia.
    + pose proof (venc_length _ Hv). lia.
    + rewrite rp_int by exact Ek. rewrite get_var_venc by exact Hv.
      rewrite vsize_venc by exact Hv. rewrite Z.eqb_refl, Hfr. reflexivity.
  - apply Nat.ltb_ge in Ek. unfold NINT in Ek.
    do 11 (destruct k as [|k]; [lia|]).
    destruct k as [|k].
    { (* reserved *)
      destruct g as [[gid gp]|]; [|now apply step_nil].
      cbn [wf_grease] in Hg. wf_hyps.
      match goal with H : in62 gid = true |- _ => apply in62_true in H end.
      apply step_tlv; try assumption; [unfold zlen in *; lia|].
      rewrite rp_reserved by lia. unfold zlen. rewrite Nat2Z.id, skipn_app_exact by reflexivity.
      reflexivity. }
    destruct k as [|k].
    { (* stateless_reset_token *)
      destruct (srt p) as [t|] eqn:E; cbn [opt_tlv]; [|now apply step_nil].
      pose proof (wf_srt p W t E) as Ht.
      apply step_tlv; try assumption; [unfold ID_SRT; lia|lia|].
      rewrite rp_srt, Hfr. unfold zlen. rewrite Ht. cbn [is_some orb negb Z.of_nat].
      change (Z.pos (Pos.of_succ_nat 15) =? 16) with true. cbn [negb orb].
      now rewrite firstn_app_exact, skipn_app_exact. }
    destruct k as [|k].
    { (* disable_active_migration *)
      destruct (dam p); [|now apply step_nil].
      apply step_tlv; try assumption; [unfold ID_DAM; lia|cbn; lia|].
      rewrite rp_dam, Hfr. reflexivity. }
    destruct k as [|k].
    { (* max_datagram_frame_size *)
      destruct (mdfs p) as [x|] eqn:E; [|now apply step_nil].
      pose proof (wf_mdfs p W x E) as Hx. pose proof (venc_length _ Hx).
      apply step_tlv; try assumption; [unfold ID_MDFS; lia|lia|].
      rewrite rp_mdfs, Hfr. cbn [is_some]. rewrite orb_false_r.
      destruct (8 <? zlen (venc x)) eqn:E8; [unfold zlen in E8; lia|].
      now rewrite get_var_venc. }
    destruct k as [|k].
    { (* preferred_address *)
      destruct (pa p) as [a|] eqn:E; [|now apply step_nil].
      pose proof (wf_paddr p W a E) as Ha. pose proof (pa_bytes_length a Ha).
      apply step_tlv; try assumption; [unfold ID_PA; lia|lia|].
      rewrite rp_pa, Hfr. cbn [is_some]. unfold zlen. rewrite Nat2Z.id.
      rewrite firstn_app_exact by reflexivity. rewrite read_pa_ok by exact Ha.
      now rewrite skipn_app_exact. }
    destruct k as [|k].
    { destruct (odcid p) as [c|] eqn:E; cbn [opt_tlv]; [|now apply step_nil].
      pose proof (wf_odcid p W c E) as Hc.
      apply step_tlv; try assumption; [unfold ID_ODCID; lia|unfold MAX_CID, zlen in *; lia|].
      rewrite rp_odcid, Hfr, decode_cid_ok by exact Hc. reflexivity. }
    destruct k as [|k].
    { destruct (iscid p) as [c|] eqn:E; cbn [opt_tlv]; [|now apply step_nil].
      pose proof (wf_iscid p W c E) as Hc.
      apply step_tlv; try assumption; [unfold ID_ISCID; lia|unfold MAX_CID, zlen in *; lia|].
      rewrite rp_iscid, Hfr, decode_cid_ok by exact Hc. reflexivity. }
    destruct k as [|k].
    { destruct (rscid p) as [c|] eqn:E; cbn [opt_tlv]; [|now apply step_nil].
      pose proof (wf_rscid p W c E) as Hc.
      apply step_tlv; try assumption; [unfold ID_RSCID; lia|unfold MAX_CID, zlen in *; lia|].
      rewrite rp_rscid, Hfr, decode_cid_ok by exact Hc. reflexivity. }
    destruct k as [|k].
    { destruct (gqb p); [|now apply step_nil].
      apply step_tlv; try assumption; [unfold ID_GQB; lia|cbn; lia|].
      rewrite rp_gqb. reflexivity. }
    destruct k as [|k]; [|lia].
    { destruct (mad p) as [x|] eqn:E; [|now apply step_nil].
      pose proof (wf_mad p W x E) as Hx. pose proof (venc_length _ Hx).
      apply step_tlv; try assumption; [unfold ID_MAD; lia|lia|].
      rewrite rp_mad. now rewrite get_var_venc. }
Qed.

(** * Reading a whole written sequence *)
Definition apply_all (p : tp) (order : list nat) (s : state) : state :=
  fold_left (fun s k => apply_item p k s) order s.

Lemma nth_upd_neq {A} (l : list A) : forall i k v d, i <> k -> nth i (upd k v l) d = nth i l d.
Proof.
  induction l as [|x l IH]; intros i k v d Hik; [destruct k; reflexivity|].
  destruct k as [|k]; destruct i as [|i]; cbn [upd nth]; try reflexivity; try lia.
  apply IH. lia.
Qed.

Lemma nth_upd_eq {A} (l : list A) : forall k v d, (k < length l)%nat -> nth k (upd k v l) d = v.
Proof.
  induction l as [|x l IH]; intros k v d Hk; [cbn [length] in Hk; lia|].
  destruct k as [|k]; cbn [upd nth]; [reflexivity|]. apply IH. cbn [length] in Hk. lia.
Qed.

Lemma upd_length {A} (l : list A) : forall k v, length (upd k v l) = length l.
Proof.
  induction l as [|x l IH]; intros k v; [destruct k; reflexivity|].
  destruct k; cbn [upd length]; auto.
Qed.

(** Each item touches only its own field. *)
Ltac untouched_tac k :=
  unfold apply_item;
  destruct (Nat.ltb k NINT);
  [destruct (_ =? _); reflexivity|];
  do 21 (destruct k as [|k];
         [try congruence; try reflexivity;
          match goal with |- context [match ?x with _ => _ end] => destruct x; reflexivity end|]);
  reflexivity.

Lemma unt_srt p k s : k <> 12%nat -> srt (fst (apply_item p k s)) = srt (fst s).
Proof. intros Hk. destruct s as [st got]. untouched_tac k. Qed.
Lemma unt_dam p k s : k <> 13%nat -> dam (fst (apply_item p k s)) = dam (fst s).
Proof. intros Hk. destruct s as [st got]. untouched_tac k. Qed.
Lemma unt_mdfs p k s : k <> 14%nat -> mdfs (fst (apply_item p k s)) = mdfs (fst s).
Proof. intros Hk. destruct s as [st got]. untouched_tac k. Qed.
Lemma unt_pa p k s : k <> 15%nat -> pa (fst (apply_item p k s)) = pa (fst s).
Proof. intros Hk. destruct s as [st got]. untouched_tac k. Qed.
Lemma unt_odcid p k s : k <> 16%nat -> odcid (fst (apply_item p k s)) = odcid (fst s).
Proof. intros Hk. destruct s as [st got]. untouched_tac k. Qed.
Lemma unt_iscid p k s : k <> 17%nat -> iscid (fst (apply_item p k s)) = iscid (fst s).
Proof. intros Hk. destruct s as [st got]. untouched_tac k. Qed.
Lemma unt_rscid p k s : k <> 18%nat -> rscid (fst (apply_item p k s)) = rscid (fst s).
Proof. intros Hk. destruct s as [st got]. untouched_tac k. Qed.
Lemma unt_gqb p k s : k <> 19%nat -> gqb (fst (apply_item p k s)) = gqb (fst s).
Proof. intros Hk. destruct s as [st got]. untouched_tac k. Qed.
Lemma unt_mad p k s : k <> 20%nat -> mad (fst (apply_item p k s)) = mad (fst s).
Proof. intros Hk. destruct s as [st got]. untouched_tac k. Qed.

(** Items of index >= 11 leave the integer parameters and their duplicate flags alone. *)
Lemma unt_ints_ge p k s : (11 <= k)%nat ->
  ints (fst (apply_item p k s)) = ints (fst s) /\ snd (apply_item p k s) = snd s.
Proof.
  intros Hk. destruct s as [st got]. unfold apply_item.
  destruct (Nat.ltb k NINT) eqn:E; [apply Nat.ltb_lt in E; unfold NINT in E; lia|].
  do 21 (destruct k as [|k];
         [try lia; try (split; reflexivity);
          match goal with |- context [match ?x with _ => _ end] => destruct x; split; reflexivity end|]).
  split; reflexivity.
Qed.

Lemma apply_item_int p k st got : (k < 11)%nat ->
  apply_item p k (st, got) =
    if nth k (ints p) 0 =? nth k int_defaults 0 then (st, got)
    else (set_ints st (upd k (nth k (ints p) 0) (ints st)), upd k true got).
Proof.
  intros Hk. unfold apply_item.
  replace (Nat.ltb k NINT) with true by (symmetry; apply Nat.ltb_lt; unfold NINT; lia). reflexivity.
Qed.

Lemma fresh_preserved p k k' s : k <> k' -> fresh k' s -> fresh k' (apply_item p k s).
Proof.
  intros Hne Hfr.
  destruct (apply_item p k s) as [st' got'] eqn:Ea. destruct s as [st got].
  unfold fresh in *.
  destruct (Nat.ltb k' NINT) eqn:Ek'.
  - destruct (Nat.lt_ge_cases k 11) as [Hk|Hk].
    + rewrite apply_item_int in Ea by exact Hk.
      destruct (nth k (ints p) 0 =? nth k int_defaults 0); inversion Ea; subst; [exact Hfr|].
      rewrite nth_upd_neq by lia. exact Hfr.
    + destruct (unt_ints_ge p k (st, got) Hk) as [_ H2]. rewrite Ea in H2. cbn [snd] in H2.
      subst got'. exact Hfr.
  - apply Nat.ltb_ge in Ek'. unfold NINT in Ek'.
    do 12 (destruct k' as [|k']; [try lia; try exact I|]).
    destruct k' as [|k'].
    { pose proof (unt_srt p k (st, got) Hne) as H. rewrite Ea in H. cbn [fst] in H. congruence. }
    destruct k' as [|k'].
    { pose proof (unt_dam p k (st, got) Hne) as H. rewrite Ea in H. cbn [fst] in H. congruence. }
    destruct k' as [|k'].
    { pose proof (unt_mdfs p k (st, got) Hne) as H. rewrite Ea in H. cbn [fst] in H. congruence. }
    destruct k' as [|k'].
    { pose proof (unt_pa p k (st, got) Hne) as H. rewrite Ea in H. cbn [fst] in H. congruence. }
    destruct k' as [|k'].
    { pose proof (unt_odcid p k (st, got) Hne) as H. rewrite Ea in H. cbn [fst] in H. congruence. }
    destruct k' as [|k'].
    { pose proof (unt_iscid p k (st, got) Hne) as H. rewrite Ea in H. cbn [fst] in H. congruence. }
    destruct k' as [|k'].
    { pose proof (unt_rscid p k (st, got) Hne) as H. rewrite Ea in H. cbn [fst] in H. congruence. }
    exact I.
Qed.

Lemma write_items p g order :
  Forall (fun k => (k < 21)%nat) order ->
  write p g order = Some (concat (map (item p g) order)).
Proof.
  induction 1 as [|k tl Hk _ IH]; [reflexivity|].
  cbn [write map concat]. rewrite IH. unfold item.
  destruct (write_item p g k) eqn:E; [reflexivity|].
  exfalso. unfold write_item in E. destruct (Nat.ltb k NINT) eqn:El; [discriminate|].
  apply Nat.ltb_ge in El. unfold NINT in El.
  do 21 (destruct k as [|k]; [try discriminate; lia|]). lia.
Qed.

Lemma read_loop_nil f s : read_loop f s [] = POk s [].
Proof. destruct f; reflexivity. Qed.

Lemma read_all msc server p g order : forall s f,
  wf_tp msc server p = true -> wf_grease g = true ->
  Forall (fun k => (k < 21)%nat) order -> NoDup order ->
  (forall k, In k order -> fresh k s) ->
  (length (concat (map (item p g) order)) <= f)%nat ->
  read_loop f s (concat (map (item p g) order)) = POk (apply_all p order s) [].
Proof.
  induction order as [|k tl IH]; intros s f Hwf Hg Hall Hnd Hfr Hf.
  - apply read_loop_nil.
  - cbn [map concat] in *. inversion Hall as [|? ? Hk Hall']; subst. inversion Hnd as [|? ? Hnin Hnd']; subst.
    destruct (step_item msc server p g k s _ f Hwf Hg Hk (Hfr k (or_introl eq_refl)) Hf)
      as (f' & Hf' & ->).
    cbn [apply_all fold_left]. apply IH; try assumption.
    intros k' Hin. apply fresh_preserved.
    + intros ->. contradiction.
    + apply Hfr. now right.
Qed.

(** * The final state is [p] *)
Section Projection.
Variables (p : tp) (A : Type) (proj : state -> A) (a : A) (j : nat).
Hypothesis untouched : forall k s, k <> j -> proj (apply_item p k s) = proj s.
Hypothesis set : forall s, proj s = proj init_state -> proj (apply_item p j s) = a.

Lemma proj_untouched order : forall s, ~ In j order -> proj (apply_all p order s) = proj s.
Proof.
  induction order as [|k tl IH]; intros s Hn; [reflexivity|].
  cbn [apply_all fold_left]. fold (apply_all p tl (apply_item p k s)).
  rewrite IH by (intros H; apply Hn; now right).
  apply untouched. intros ->. apply Hn. now left.
Qed.

Lemma proj_set order : forall s,
  In j order -> NoDup order -> proj s = proj init_state -> proj (apply_all p order s) = a.
Proof.
  induction order as [|k tl IH]; intros s Hin Hnd Hs; [contradiction|].
  inversion Hnd as [|? ? Hnin Hnd']; subst.
  cbn [apply_all fold_left]. fold (apply_all p tl (apply_item p k s)).
  destruct (Nat.eq_dec k j) as [->|Hne].
  - rewrite proj_untouched by exact Hnin. now apply set.
  - apply IH; [destruct Hin; [contradiction|assumption]|exact Hnd'|].
    rewrite untouched by exact Hne. exact Hs.
Qed.
End Projection.

From Coq Require Import Permutation.

Lemma tp_ext a b :
  ints a = ints b -> dam a = dam b -> mdfs a = mdfs b -> iscid a = iscid b -> gqb a = gqb b ->
  mad a = mad b -> odcid a = odcid b -> rscid a = rscid b -> srt a = srt b -> pa a = pa b -> a = b.
Proof. destruct a, b; cbn; intros; subst; reflexivity. Qed.

Lemma fresh_init k : fresh k init_state.
Proof.
  unfold fresh, init_state. destruct (Nat.ltb k NINT) eqn:E.
  - apply Nat.ltb_lt in E. unfold NINT in *. do 11 (destruct k as [|k]; [reflexivity|]). lia.
  - do 21 (destruct k as [|k]; [try exact I; try reflexivity|]). exact I.
Qed.

Section Final.
Variables (p : tp) (order : list nat).
Hypothesis Hlen : length (ints p) = 11%nat.
Hypothesis Hperm : Permutation order (seq 0 21).

Let Hin : forall j, (j < 21)%nat -> In j order.
Proof. intros j Hj. eapply Permutation_in; [apply Permutation_sym; exact Hperm|]. apply in_seq. lia. Qed.
Let Hnd : NoDup order.
Proof. eapply Permutation_NoDup; [apply Permutation_sym; exact Hperm|]. apply seq_NoDup. Qed.

Let final := apply_all p order init_state.

Ltac field_tac unt j :=
  apply (proj_set p _ _ _ j); [intros k s Hk; now apply unt | | apply Hin; lia | exact Hnd | reflexivity].

Lemma final_srt : srt (fst final) = srt p.
Proof.
  unfold final. apply (proj_set p _ (fun s => srt (fst s)) (srt p) 12%nat);
    [intros k s Hk; now apply unt_srt| |apply Hin; lia|exact Hnd|reflexivity].
  intros [st got] Hs. cbn [fst init_state tp_default srt] in Hs. unfold apply_item.
  cbn [Nat.ltb Nat.leb NINT]. destruct (srt p); cbn [fst srt set_srt]; auto.
Qed.
Lemma final_dam : dam (fst final) = dam p.
Proof.
  unfold final. apply (proj_set p _ (fun s => dam (fst s)) (dam p) 13%nat);
    [intros k s Hk; now apply unt_dam| |apply Hin; lia|exact Hnd|reflexivity].
  intros [st got] Hs. cbn [fst init_state tp_default dam] in Hs. unfold apply_item.
  cbn [Nat.ltb Nat.leb NINT]. destruct (dam p); cbn [fst dam set_dam]; auto.
Qed.
Lemma final_mdfs : mdfs (fst final) = mdfs p.
Proof.
  unfold final. apply (proj_set p _ (fun s => mdfs (fst s)) (mdfs p) 14%nat);
    [intros k s Hk; now apply unt_mdfs| |apply Hin; lia|exact Hnd|reflexivity].
  intros [st got] Hs. cbn [fst init_state tp_default mdfs] in Hs. unfold apply_item.
  cbn [Nat.ltb Nat.leb NINT]. destruct (mdfs p); cbn [fst mdfs set_mdfs]; auto.
Qed.
Lemma final_pa : pa (fst final) = pa p.
Proof.
  unfold final. apply (proj_set p _ (fun s => pa (fst s)) (pa p) 15%nat);
    [intros k s Hk; now apply unt_pa| |apply Hin; lia|exact Hnd|reflexivity].
  intros [st got] Hs. cbn [fst init_state tp_default pa] in Hs. unfold apply_item.
  cbn [Nat.ltb Nat.leb NINT]. destruct (pa p); cbn [fst pa set_pa]; auto.
Qed.
Lemma final_odcid : odcid (fst final) = odcid p.
Proof.
  unfold final. apply (proj_set p _ (fun s => odcid (fst s)) (odcid p) 16%nat);
    [intros k s Hk; now apply unt_odcid| |apply Hin; lia|exact Hnd|reflexivity].
  intros [st got] Hs. cbn [fst init_state tp_default odcid] in Hs. unfold apply_item.
  cbn [Nat.ltb Nat.leb NINT]. destruct (odcid p); cbn [fst odcid set_odcid]; auto.
Qed.
Lemma final_iscid : iscid (fst final) = iscid p.
Proof.
  unfold final. apply (proj_set p _ (fun s => iscid (fst s)) (iscid p) 17%nat);
    [intros k s Hk; now apply unt_iscid| |apply Hin; lia|exact Hnd|reflexivity].
  intros [st got] Hs. cbn [fst init_state tp_default iscid] in Hs. unfold apply_item.
  cbn [Nat.ltb Nat.leb NINT]. destruct (iscid p); cbn [fst iscid set_iscid]; auto.
Qed.
Lemma final_rscid : rscid (fst final) = rscid p.
Proof.
  unfold final. apply (proj_set p _ (fun s => rscid (fst s)) (rscid p) 18%nat);
    [intros k s Hk; now apply unt_rscid| |apply Hin; lia|exact Hnd|reflexivity].
  intros [st got] Hs. cbn [fst init_state tp_default rscid] in Hs. unfold apply_item.
  cbn [Nat.ltb Nat.leb NINT]. destruct (rscid p); cbn [fst rscid set_rscid]; auto.
Qed.
Lemma final_gqb : gqb (fst final) = gqb p.
Proof.
  unfold final. apply (proj_set p _ (fun s => gqb (fst s)) (gqb p) 19%nat);
    [intros k s Hk; now apply unt_gqb| |apply Hin; lia|exact Hnd|reflexivity].
  intros [st got] Hs. cbn [fst init_state tp_default gqb] in Hs. unfold apply_item.
  cbn [Nat.ltb Nat.leb NINT]. destruct (gqb p); cbn [fst gqb set_gqb]; auto.
Qed.
Lemma final_mad : mad (fst final) = mad p.
Proof.
  unfold final. apply (proj_set p _ (fun s => mad (fst s)) (mad p) 20%nat);
    [intros k s Hk; now apply unt_mad| |apply Hin; lia|exact Hnd|reflexivity].
  intros [st got] Hs. cbn [fst init_state tp_default mad] in Hs. unfold apply_item.
  cbn [Nat.ltb Nat.leb NINT]. destruct (mad p); cbn [fst mad set_mad]; auto.
Qed.

Lemma final_int i : (i < 11)%nat ->
  (length (ints (fst final)), nth i (ints (fst final)) 0) = (11%nat, nth i (ints p) 0).
Proof.
  intros Hi. unfold final.
  apply (proj_set p _ (fun s => (length (ints (fst s)), nth i (ints (fst s)) 0))
                  (11%nat, nth i (ints p) 0) i); [| |apply Hin; lia|exact Hnd|reflexivity].
  - intros k [st got] Hk. destruct (Nat.lt_ge_cases k 11) as [Hk11|Hk11].
    + rewrite apply_item_int by exact Hk11.
      destruct (nth k (ints p) 0 =? nth k int_defaults 0); [reflexivity|].
      cbn [fst set_ints ints]. rewrite upd_length, nth_upd_neq by lia. reflexivity.
    + destruct (unt_ints_ge p k (st, got) Hk11) as [H1 _]. now rewrite H1.
  - intros [st got] Hs. cbn [fst init_state tp_default ints] in Hs.
    inversion Hs as [[Hl Hn]]. rewrite apply_item_int by exact Hi.
    destruct (nth i (ints p) 0 =? nth i int_defaults 0) eqn:E.
    + apply Z.eqb_eq in E. cbn [fst]. rewrite Hl, Hn, E. reflexivity.
    + cbn [fst set_ints ints]. rewrite upd_length, Hl. rewrite nth_upd_eq by (rewrite Hl; exact Hi).
      reflexivity.
Qed.

Lemma final_is_p : fst final = p.
Proof.
  apply tp_ext; auto using final_srt, final_dam, final_mdfs, final_pa, final_odcid, final_iscid,
    final_rscid, final_gqb, final_mad.
  assert (Hl : length (ints (fst final)) = 11%nat).
  { pose proof (final_int 0 ltac:(lia)) as H. now injection H. }
  apply (nth_ext _ _ 0 0).
  - now rewrite Hl, Hlen.
  - intros i Hi. rewrite Hl in Hi. pose proof (final_int i Hi) as H. now injection H.
Qed.
End Final.

(** [read (write p)] = [p], for every valid [p], any reserved parameter, any write order. *)
Theorem tparams_roundtrip msc server p g order :
  wf_tp msc server p = true -> wf_grease g = true -> Permutation order (seq 0 21) ->
  exists b, write p g order = Some b /\ read msc server b = ROk p.
Proof.
  intros Hwf Hg Hperm.
  assert (Hall : Forall (fun k => (k < 21)%nat) order).
  { apply Forall_forall. intros k Hk. apply (Permutation_in _ Hperm) in Hk. apply in_seq in Hk. lia. }
  assert (Hnd : NoDup order).
  { eapply Permutation_NoDup; [apply Permutation_sym; exact Hperm|]. apply seq_NoDup. }
  exists (concat (map (item p g) order)). split; [now apply write_items|].
  unfold read.
  rewrite (read_all msc server p g order init_state _ Hwf Hg Hall Hnd (fun k _ => fresh_init k) (le_n _)).
  pose proof (wf_tp_facts _ _ _ Hwf) as W.
  pose proof (final_is_p p order (wf_len p W) Hperm) as Hfin.
  destruct (apply_all p order init_state) as [st got]. cbn [fst] in Hfin. subst st.
  unfold wf_tp in Hwf. apply andb_true_iff in Hwf as [_ Hv]. now rewrite Hv.
Qed.

(** * The reader is total: fuel (a model artefact) never runs out, on arbitrary input. *)
Lemma decode_shorter bs v r : Varint.decode bs = Some (v, r) -> (length r < length bs)%nat.
Proof.
  destruct bs as [|b0 t]; cbn [Varint.decode]; [discriminate|].
  destruct (Nat.ltb (length t) (extra (b0 / 64))); [discriminate|].
  intros [= _ <-]. rewrite skipn_length. cbn [length]. lia.
Qed.

Lemma get_var_shorter bs v r : get_var bs = POk v r -> (length r < length bs)%nat.
Proof.
  unfold get_var. destruct (Varint.decode bs) as [[v' r']|] eqn:E; [|discriminate].
  intros [= _ <-]. eapply decode_shorter; eassumption.
Qed.

Lemma decode_cid_shorter len cur r c r' :
  decode_cid len cur r = POk c r' -> (length r' <= length r)%nat.
Proof.
  unfold decode_cid. destruct (_ || _); [discriminate|]. intros [= _ <-]. rewrite skipn_length. lia.
Qed.

Lemma read_param_shorter s id len r s' r' :
  read_param s id len r = POk s' r' -> (length r' <= length r)%nat.
Proof.
  destruct s as [st got]. unfold read_param.
  assert (H16 : (length (skipn 16 r) <= length r)%nat) by (rewrite skipn_length; lia).
  set (r16 := skipn 16 r) in *. clearbody r16.
  repeat match goal with
         | |- (if ?c then _ else _) = _ -> _ => destruct c
         end; try discriminate.
  all: try (intros [= _ <-]; rewrite ?skipn_length; lia).
  all: try (match goal with |- context [decode_cid ?a ?b ?c] =>
              destruct (decode_cid a b c) as [c' r1|e] eqn:E end; [|discriminate];
            intros [= _ <-]; eapply decode_cid_shorter; eassumption).
  all: try (destruct (get_var r) as [v r1|e] eqn:E; [|discriminate];
            intros [= _ <-]; apply get_var_shorter in E; lia).
  - match goal with |- context [read_pa ?x] => destruct (read_pa x) as [[a used] r1|e] end;
      [|discriminate].
    intros [= _ <-]. rewrite skipn_length. lia.
  - destruct (index_of id int_ids) as [k|].
    + destruct (get_var r) as [v r1|e] eqn:E; [|discriminate].
      destruct (_ || _); [discriminate|]. intros [= _ <-]. apply get_var_shorter in E. lia.
    + intros [= _ <-]. rewrite skipn_length. lia.
Qed.

Lemma read_loop_fuel f : forall s bs,
  (length bs <= f)%nat -> read_loop f s bs <> PErr OutOfFuel.
Proof.
  induction f as [|k IH]; intros s bs Hf.
  - destruct bs; [discriminate|cbn [length] in Hf; lia].
  - destruct bs as [|b t]; [discriminate|]. cbn [read_loop].
    destruct (get_var (b :: t)) as [id r1|e] eqn:E1.
    2:{ unfold get_var in E1. destruct (Varint.decode (b :: t)) as [[? ?]|]; inversion E1. discriminate. }
    destruct (get_var r1) as [len r2|e] eqn:E2.
    2:{ unfold get_var in E2. destruct (Varint.decode r1) as [[? ?]|]; inversion E2. discriminate. }
    destruct (zlen r2 <? len); [discriminate|].
    destruct (read_param s id len r2) as [s' r3|e] eqn:E3.
    + apply IH. apply get_var_shorter in E1. apply get_var_shorter in E2.
      apply read_param_shorter in E3. lia.
    + intros H. inversion H; subst.
      (* read_param never reports the fuel artefact *)
      clear - E3. destruct s as [st got]. unfold read_param in E3.
      repeat match type of E3 with
             | (if ?c then _ else _) = _ => destruct c
             end; try discriminate.
      all: try (match type of E3 with context [decode_cid ?a ?b ?c] =>
                  destruct (decode_cid a b c) as [c' r1|e] eqn:E end; [discriminate|];
                unfold decode_cid in E;
                match type of E with (if ?c then _ else _) = _ => destruct c end;
                inversion E; subst; discriminate).
      all: try (destruct (get_var r2) as [v r1|e] eqn:E; [discriminate|];
                unfold get_var in E; destruct (Varint.decode r2) as [[? ?]|]; inversion E; subst; discriminate).
      * match type of E3 with context [read_pa ?x] =>
          destruct (read_pa x) as [[a used] r1|e] eqn:E end; [discriminate|].
        unfold read_pa in E.
        repeat match type of E with
               | match ?x with _ => _ end = _ => destruct x
               | (if ?c then _ else _) = _ => destruct c
               end; inversion E; subst; discriminate.
      * destruct (index_of id int_ids); [|discriminate].
        destruct (get_var r2) as [v r1|e] eqn:E.
        { destruct (_ || _); discriminate. }
        unfold get_var in E. destruct (Varint.decode r2) as [[? ?]|]; inversion E; subst; discriminate.
Qed.

Theorem read_total msc server bs :
  match read msc server bs with
  | ROk _ | RErr Malformed | RErr Illegal => True
  | RErr OutOfFuel => False
  end.
Proof.
  unfold read. pose proof (read_loop_fuel (length bs) init_state bs (le_n _)) as H.
  destruct (read_loop (length bs) init_state bs) as [[st got] r|e].
  - destruct (validate msc server st); exact I.
  - destruct e; try exact I. congruence.
Qed.
