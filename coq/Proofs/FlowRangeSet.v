(** Range sets of Model/FlowSend.v ([rs_insert], [rs_add], [rs_total], [pop_acked]):
    well-formedness, pointwise meaning and additivity of the total length. *)
From QV Require Import Lib.Tac Lib.Corr Model.FlowSend.
Open Scope Z_scope.

Definition covers (l : list (Z * Z)) (x : Z) : Prop := exists s e, In (s, e) l /\ s <= x < e.

(** Sorted, non-empty, pairwise non-adjacent ranges whose first start is at least [lo]. *)
Fixpoint W (lo : Z) (l : list (Z * Z)) : Prop :=
  match l with
  | [] => True
  | (s, e) :: t => lo <= s /\ s < e /\ W (e + 1) t
  end.

Lemma W_weaken lo lo' l : lo' <= lo -> W lo l -> W lo' l.
Proof. destruct l as [|[s e] t]; cbn; [auto|]. intros H (A & B & C). repeat split; auto; lia. Qed.

Lemma W_covers_ge lo l x : W lo l -> covers l x -> lo <= x.
Proof.
  revert lo. induction l as [|[s e] t IH]; intros lo Hw (s' & e' & Hin & Hx); cbn in *; [tauto|].
  destruct Hw as (A & B & C). destruct Hin as [E|Hin].
  - injection E as <- <-. lia.
  - assert (e + 1 <= x) by (apply (IH (e + 1) C); exists s', e'; auto). lia.
Qed.

Lemma covers_nil x : ~ covers [] x.
Proof. intros (s & e & [] & _). Qed.

Lemma covers_cons s e t x : covers ((s, e) :: t) x <-> s <= x < e \/ covers t x.
Proof.
  split.
  - intros (s' & e' & [E|Hin] & Hx); [injection E as <- <-; auto|right; exists s', e'; auto].
  - intros [Hx|(s' & e' & Hin & Hx)]; [exists s, e; cbn; auto|exists s', e'; cbn; auto].
Qed.

Lemma rs_insert_W l : forall lo a b, a < b -> lo <= a -> W lo l -> W lo (rs_insert a b l).
Proof.
  induction l as [|[s e] t IH]; intros lo a b Hab Hlo Hw; cbn [rs_insert].
  - cbn. auto.
  - cbn in Hw. destruct Hw as (A & B & C).
    destruct (e <? a) eqn:E1.
    + cbn. repeat split; auto. apply IH; auto; lia.
    + destruct (b <? s) eqn:E2.
      * cbn. repeat split; auto; lia.
      * apply IH; try lia. eapply W_weaken; [|exact C]. lia.
Qed.

Lemma rs_insert_covers l : forall a b x, a < b ->
  (covers (rs_insert a b l) x <-> covers l x \/ a <= x < b).
Proof.
  induction l as [|[s e] t IH]; intros a b x Hab; cbn [rs_insert].
  - rewrite covers_cons. split; intros [H|H]; auto.
  - destruct (e <? a) eqn:E1.
    + rewrite !covers_cons, IH by lia. tauto.
    + destruct (b <? s) eqn:E2.
      * rewrite !covers_cons. tauto.
      * rewrite IH by lia. rewrite covers_cons. split.
        -- intros [H|H]; [auto|]. destruct (Z_lt_dec x a); [left; left; lia|].
           destruct (Z_le_dec b x); [left; left; lia|right; lia].
        -- intros [[H|H]|H]; auto; right; lia.
Qed.

Lemma rs_insert_total l : forall lo a b, W lo l -> a < b ->
  (forall x, a <= x < b -> ~ covers l x) ->
  rs_total (rs_insert a b l) = rs_total l + (b - a).
Proof.
  induction l as [|[s e] t IH]; intros lo a b Hw Hab Hd; cbn [rs_insert rs_total].
  - lia.
  - cbn in Hw. destruct Hw as (A & B & C).
    destruct (e <? a) eqn:E1.
    + cbn [rs_total]. rewrite (IH (e + 1)); auto; [lia|].
      intros x Hx Hc. apply (Hd x Hx). apply covers_cons. auto.
    + destruct (b <? s) eqn:E2.
      * cbn [rs_total]. lia.
      * (* overlapping or adjacent: disjointness leaves adjacency only *)
        assert (Hadj : a = e \/ s = b).
        { destruct (Z.eq_dec a e); [auto|]. destruct (Z.eq_dec s b); [auto|]. exfalso.
          apply (Hd (Z.max a s)); [lia|]. apply covers_cons. left. lia. }
        assert (Ht : forall x, covers t x -> e + 1 <= x) by (intros x; apply W_covers_ge; exact C).
        destruct Hadj as [Ha|Ha].
        -- replace (Z.min a s) with s by lia. replace (Z.max b e) with b by lia.
           rewrite (IH (e + 1)); auto; [lia|lia|].
           intros x Hx Hc. pose proof (Ht x Hc). apply (Hd x); [lia|]. apply covers_cons. auto.
        -- replace (Z.min a s) with a by lia. replace (Z.max b e) with e by lia.
           rewrite (IH (e + 1)); auto; [lia|lia|].
           intros x Hx Hc. pose proof (Ht x Hc). lia.
Qed.

(** [rs_add] = [RangeSet::insert] (empty ranges ignored). *)
Lemma rs_add_W l lo a b : lo <= a -> W lo l -> W lo (rs_add a b l).
Proof. unfold rs_add. destruct (a <? b) eqn:E; auto. intros. apply rs_insert_W; auto; lia. Qed.

Lemma rs_add_covers l a b x : covers (rs_add a b l) x <-> covers l x \/ a <= x < b.
Proof.
  unfold rs_add. destruct (a <? b) eqn:E; [apply rs_insert_covers; lia|].
  split; [auto|]. intros [H|H]; [auto|lia].
Qed.

Lemma rs_add_total l lo a b : W lo l -> a <= b -> (forall x, a <= x < b -> ~ covers l x) ->
  rs_total (rs_add a b l) = rs_total l + (b - a).
Proof.
  unfold rs_add. intros Hw Hab Hd. destruct (a <? b) eqn:E; [eapply rs_insert_total; eauto; lia|lia].
Qed.

Lemma rs_total_nonneg lo l : W lo l -> 0 <= rs_total l.
Proof.
  revert lo. induction l as [|[s e] t IH]; intros lo Hw; cbn in *; [lia|].
  destruct Hw as (A & B & C). specialize (IH _ C). lia.
Qed.

(** Total length of ranges that all lie inside [lo, hi). *)
Lemma rs_total_bound l : forall lo hi, W lo l -> (forall x, covers l x -> x < hi) -> lo <= hi ->
  rs_total l <= hi - lo.
Proof.
  induction l as [|[s e] t IH]; intros lo hi Hw Hh Hlh; cbn in *; [lia|].
  destruct Hw as (A & B & C).
  assert (e <= hi). { assert (e - 1 < hi) by (apply Hh; apply covers_cons; left; lia). lia. }
  assert (rs_total t <= hi - (e + 1) \/ t = []) as [H1|H1]; [|lia|subst t; cbn; lia].
  { destruct t as [|[s2 e2] t2]; [auto|left]. apply IH; auto.
    - intros x Hc. apply Hh. apply covers_cons. auto.
    - cbn in C. destruct C as (C1 & C2 & _).
      assert (e2 - 1 < hi) by (apply Hh; apply covers_cons; right; apply covers_cons; left; lia). lia. }
Qed.

(** [pop_acked]: at most one prefix is popped (the next range is not adjacent). *)
Lemma pop_acked_spec base ulen l :
  W base l -> (forall x, covers l x -> x < base + ulen) -> 0 <= ulen ->
  exists ulen' l',
    pop_acked base ulen l = Some (ulen', l')
    /\ 0 <= ulen' <= ulen
    /\ W (base + (ulen - ulen') + 1) l'
    /\ rs_total l' = rs_total l - (ulen - ulen')
    /\ (forall x, covers l' x <-> covers l x /\ base + (ulen - ulen') <= x)
    /\ (forall x, base <= x < base + (ulen - ulen') -> covers l x).
Proof.
  intros Hw Hh Hu. destruct l as [|[s e] t]; cbn [pop_acked].
  - exists ulen, []. split; [reflexivity|]. split; [lia|]. split; [cbn; auto|].
    split; [cbn; lia|]. split.
    + intros x. split; [intros Hc; destruct (covers_nil _ Hc)|intros [Hc _]; exact Hc].
    + intros x Hx. lia.
  - cbn in Hw. destruct Hw as (A & B & C).
    destruct (s =? base) eqn:E.
    + assert (s = base) by lia. subst s.
      assert (He : e <= base + ulen).
      { assert (e - 1 < base + ulen) by (apply Hh; apply covers_cons; left; lia). lia. }
      destruct (e - base <=? ulen) eqn:E2; [|lia].
      assert (Hstop : pop_acked e (ulen - (e - base)) t = Some (ulen - (e - base), t)).
      { destruct t as [|[s2 e2] t2]; cbn [pop_acked]; [reflexivity|].
        cbn in C. destruct (s2 =? e) eqn:E3; [lia|reflexivity]. }
      rewrite Hstop. exists (ulen - (e - base)), t.
      replace (base + (ulen - (ulen - (e - base)))) with e by lia.
      split; [reflexivity|]. split; [lia|]. split; [exact C|]. split; [cbn [rs_total]; lia|]. split.
      * intros x. split.
        -- intros Hc. split; [apply covers_cons; auto|]. pose proof (W_covers_ge _ _ _ C Hc). lia.
        -- intros [Hc Hx]. apply covers_cons in Hc. destruct Hc; [lia|auto].
      * intros x Hx. apply covers_cons. left. lia.
    + exists ulen, ((s, e) :: t).
      replace (base + (ulen - ulen)) with base by lia.
      assert (Hw' : W base ((s, e) :: t)) by (cbn; auto).
      split; [reflexivity|]. split; [lia|]. split; [cbn; repeat split; auto; lia|]. split; [lia|]. split.
      * intros x. split; [intros Hc; split; [exact Hc|exact (W_covers_ge _ _ _ Hw' Hc)]|intros [Hc _]; exact Hc].
      * intros x Hx. lia.
Qed.

Lemma W_raise lo lo' l :
  W lo l -> (forall y, lo <= y < lo' -> ~ covers l y) -> W lo' l.
Proof.
  destruct l as [|[s e] t]; cbn; [auto|]. intros (A & B & C) H. repeat split; auto.
  destruct (Z_lt_dec s lo'); [|lia]. exfalso. apply (H s); [lia|]. apply covers_cons. left. lia.
Qed.

Lemma W_hi_empty lo hi l : W lo l -> (forall y, covers l y -> y < hi) -> hi <= lo -> l = [].
Proof.
  destruct l as [|[s e] t]; [auto|]. cbn. intros (A & B & C) H Hl. exfalso.
  assert (s < hi) by (apply H; apply covers_cons; left; lia). lia.
Qed.

Lemma covers_tail s e t y : covers t y -> covers ((s, e) :: t) y.
Proof. intros H. apply covers_cons. auto. Qed.
