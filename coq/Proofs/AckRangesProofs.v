(** Set-level correctness of Model/AckRanges.v and Model/PendingAcks.v: the ranges stay
    canonical (ascending, disjoint, non-adjacent), [insert] adds exactly the new numbers,
    [remove 0 e] removes exactly the numbers below [e], [pop_min] removes exactly the lowest run,
    all of whose elements are below every remaining one. *)
From QV Require Import Lib.Tac Lib.Corr Model.AckRanges Model.PendingAcks Proofs.PendingAcksProofs.
Import AckRanges.
Open Scope Z_scope.

(** canonical form: every range non-empty, starting strictly above the end of its predecessor *)
Fixpoint wf_from (lo : Z) (l : t) : Prop :=
  match l with
  | [] => True
  | (a, b) :: r => lo < a /\ a < b /\ wf_from b r
  end.

Definition in_rng (a e x : Z) : bool := (a <=? x) && (x <? e).

Lemma mem_cons a b r x : mem ((a, b) :: r) x = in_rng a b x || mem r x.
Proof. reflexivity. Qed.

Lemma wf_weaken : forall l lo lo', wf_from lo l -> lo' <= lo -> wf_from lo' l.
Proof.
  destruct l as [|[a b] r]; intros lo lo' H Hle; cbn [wf_from] in *; [exact I|].
  destruct H as (H1 & H2 & H3). repeat split; try assumption; lia.
Qed.

Lemma mem_below : forall l lo x, wf_from lo l -> x <= lo -> mem l x = false.
Proof.
  induction l as [|[a b] r IH]; intros lo x H Hx; [reflexivity|].
  cbn [wf_from] in H. destruct H as (H1 & H2 & H3). rewrite mem_cons.
  rewrite (IH b x H3) by lia. unfold in_rng. lia.
Qed.

Lemma merge_spec : forall r a e lo,
  wf_from lo r -> a <= lo -> lo <= e -> a < e ->
  (forall x, mem (merge a e r) x = in_rng a e x || mem r x) /\
  (forall lo0, lo0 < a -> wf_from lo0 (merge a e r)).
Proof.
  induction r as [|[c d] r IH]; intros a e lo H Ha He Hae; cbn [merge].
  - split; [intros x; reflexivity|]. intros lo0 H0. cbn [wf_from]. repeat split; lia.
  - cbn [wf_from] in H. destruct H as (H1 & H2 & H3). destruct (c <=? e) eqn:E.
    + destruct (IH a (Z.max d e) d H3) as [IHm IHw]; [lia|lia|lia|]. split; [|exact IHw].
      intros x. rewrite IHm, mem_cons. unfold in_rng.
      destruct (mem r x); [rewrite !orb_true_r; reflexivity|]. rewrite !orb_false_r. lia.
    + split; [intros x; rewrite !mem_cons; reflexivity|].
      intros lo0 H0. cbn [wf_from]. repeat split; try assumption; lia.
Qed.

Lemma insert_range_spec : forall l lo s e,
  wf_from lo l -> lo < s -> s < e ->
  wf_from lo (insert_range l s e) /\
  (forall x, mem (insert_range l s e) x = mem l x || in_rng s e x).
Proof.
  induction l as [|[a b] r IH]; intros lo s e H Hs He; cbn [insert_range].
  - split; [cbn [wf_from]; repeat split; lia|]. intros x. rewrite mem_cons. cbn [mem existsb].
    rewrite orb_false_r. reflexivity.
  - cbn [wf_from] in H. destruct H as (H1 & H2 & H3).
    destruct (b <? s) eqn:E1.
    { destruct (IH b s e H3) as [IHw IHm]; [lia|lia|]. split.
      - cbn [wf_from]. repeat split; assumption.
      - intros x. rewrite !mem_cons, IHm. rewrite orb_assoc. reflexivity. }
    destruct (e <? a) eqn:E2.
    { split; [cbn [wf_from]; repeat split; try assumption; lia|].
      intros x. rewrite !mem_cons. destruct (in_rng s e x), (in_rng a b x), (mem r x); reflexivity. }
    destruct (e <=? b) eqn:E3.
    { split.
      - cbn [wf_from]. destruct (s <? a) eqn:E4; repeat split; try assumption; lia.
      - intros x. rewrite !mem_cons. unfold in_rng. destruct (mem r x);
          [rewrite !orb_true_r; reflexivity|]. rewrite !orb_false_r.
        destruct (s <? a) eqn:E4; lia. }
    destruct (merge_spec r (if s <? a then s else a) e b H3) as [Hm Hw];
      [destruct (s <? a) eqn:E4; lia|lia|destruct (s <? a) eqn:E4; lia|].
    split; [apply Hw; destruct (s <? a) eqn:E4; lia|].
    intros x. rewrite Hm, mem_cons. unfold in_rng. destruct (mem r x);
      [rewrite !orb_true_r; reflexivity|]. rewrite !orb_false_r.
    destruct (s <? a) eqn:E4; lia.
Qed.

Lemma remove_loop_spec : forall l lo e,
  wf_from lo l -> -1 <= lo ->
  wf_from lo (remove_loop l 0 e) /\
  (forall x, mem (remove_loop l 0 e) x = mem l x && (e <=? x)).
Proof.
  induction l as [|[a b] r IH]; intros lo e H Hlo; cbn [remove_loop].
  - split; [exact I|reflexivity].
  - cbn [wf_from] in H. destruct H as (H1 & H2 & H3). destruct (e <=? a) eqn:E1.
    + split; [cbn [wf_from]; repeat split; assumption|]. intros x. rewrite mem_cons.
      destruct (e <=? x) eqn:Ex; [rewrite andb_true_r; reflexivity|]. rewrite andb_false_r.
      rewrite (mem_below r b x H3) by lia. unfold in_rng. lia.
    + destruct (0 <=? a) eqn:E2; [|lia]. cbn [andb].
      destruct (IH b e H3) as [IHw IHm]; [lia|]. destruct (b <=? e) eqn:E3.
      * split; [eapply wf_weaken; [exact IHw|lia]|]. intros x. rewrite IHm, mem_cons.
        unfold in_rng. destruct (mem r x); [|rewrite !orb_false_r; lia].
        rewrite orb_true_r. reflexivity.
      * split.
        -- cbn [wf_from]. repeat split; try lia. exact IHw.
        -- intros x. rewrite !mem_cons, IHm. unfold in_rng. destruct (mem r x) eqn:Em.
           ++ rewrite !orb_true_r. cbn [andb].
              destruct (e <=? x) eqn:Ex; [rewrite orb_true_r; reflexivity|].
              exfalso. pose proof (mem_below r b x H3) as Hb. rewrite Em in Hb.
              assert (x <= b) by lia. specialize (Hb H). discriminate.
           ++ rewrite !orb_false_r. cbn [andb]. lia.
Qed.

Lemma remove_zero_spec l lo e :
  wf_from lo l -> -1 <= lo ->
  wf_from lo (AckRanges.remove l 0 e) /\
  (forall x, mem (AckRanges.remove l 0 e) x = mem l x && (e <=? x)).
Proof.
  intros H Hlo. unfold AckRanges.remove. destruct (e <=? 0) eqn:E0.
  { split; [exact H|]. intros x. destruct (mem l x) eqn:Em; [|reflexivity]. cbn [andb].
    destruct (e <=? x) eqn:Ex; [reflexivity|]. exfalso.
    rewrite (mem_below l lo x H) in Em by lia. discriminate. }
  destruct l as [|[a b] r]; cbn [remove_range]; [split; [exact I|reflexivity]|].
  pose proof H as H'. cbn [wf_from] in H'. destruct H' as (H1 & H2 & H3).
  destruct (b <=? 0) eqn:E; [lia|]. apply remove_loop_spec; assumption.
Qed.

Lemma pop_min_spec a b r lo :
  wf_from lo ((a, b) :: r) ->
  wf_from lo (pop_min ((a, b) :: r)) /\
  (forall x, mem (pop_min ((a, b) :: r)) x = mem ((a, b) :: r) x && (b <=? x)) /\
  (* the dropped numbers are below every number kept *)
  (forall x y, in_rng a b x = true -> mem r y = true -> x < y).
Proof.
  cbn [wf_from pop_min tl]. intros (H1 & H2 & H3). split; [eapply wf_weaken; [exact H3|lia]|].
  split.
  - intros x. rewrite mem_cons. destruct (b <=? x) eqn:Ex.
    + rewrite andb_true_r. unfold in_rng. destruct (mem r x); [rewrite orb_true_r; reflexivity|].
      rewrite orb_false_r. destruct (x <? b) eqn:E5; [lia|]. rewrite andb_false_r. reflexivity.
    + rewrite andb_false_r. apply (mem_below r b x H3). lia.
  - intros x y Hx Hy. destruct (Z_lt_ge_dec x y) as [Hlt|Hge]; [exact Hlt|].
    rewrite (mem_below r b y H3) in Hy; [discriminate|]. unfold in_rng in Hx. lia.
Qed.

Lemma wf_ranges_ge : forall l lo, wf_from lo l -> -1 <= lo -> ranges_ge 0 l.
Proof.
  induction l as [|[a b] r IH]; intros lo H Hlo; [constructor|].
  cbn [wf_from] in H. destruct H as (H1 & H2 & H3). constructor; [cbn [fst snd]; lia|].
  apply (IH b H3). lia.
Qed.

(** * PendingAcks: the strengthened invariant and the per-operation set semantics *)
Import PendingAcks.

Definition WInv (M : Z) (s : PendingAcks.t) : Prop :=
  Z.of_nat (length (ranges s)) <= M /\ wf_from (-1) (ranges s).

(** [insert_one p]: the set becomes [S + {p}]; if that needs more than [M] ranges, exactly the
    lowest run is dropped, and it lies below everything kept. *)
Lemma insert_one_spec M s p now s' :
  0 <= M -> WInv M s -> 0 <= p -> insert_one M s p now = Some s' ->
  WInv M s' /\
  let l1 := AckRanges.insert (ranges s) p (p + 1) in
  wf_from (-1) l1 /\ (forall x, mem l1 x = mem (ranges s) x || (x =? p)) /\
  (Z.of_nat (length l1) <= M -> ranges s' = l1) /\
  (M < Z.of_nat (length l1) ->
     exists a b r, l1 = (a, b) :: r /\ ranges s' = r /\
       (forall x, mem r x = mem l1 x && (b <=? x)) /\
       (forall x y, in_rng a b x = true -> mem r y = true -> x < y)).
Proof.
  intros HM [Hlen Hwf] Hp H. unfold insert_one in H.
  destruct (U64_MAX <=? p); [discriminate|]. inversion H; subst; clear H. cbn [ranges].
  unfold AckRanges.insert. destruct (p + 1 <=? p) eqn:E; [lia|].
  destruct (insert_range_spec (ranges s) (-1) p (p + 1) Hwf) as [Hw1 Hm1]; [lia|lia|].
  pose proof (insert_range_length (ranges s) p (p + 1)) as Hl1.
  remember (insert_range (ranges s) p (p + 1)) as l1 eqn:Hl1def.
  assert (Hmem : forall x, mem l1 x = mem (ranges s) x || (x =? p)).
  { intros x. rewrite Hm1. f_equal. unfold in_rng. lia. }
  unfold zlen. destruct (M <? Z.of_nat (length l1)) eqn:E2.
  - destruct l1 as [|[a b] r]; [cbn [length] in E2; lia|].
    destruct (pop_min_spec a b r (-1) Hw1) as (Hw2 & Hm2 & Hlow). cbn [pop_min tl] in *.
    split; [split; [cbn [length] in Hl1; apply le_S_n in Hl1; apply Nat2Z.inj_le in Hl1;
                    eapply Z.le_trans; [exact Hl1|exact Hlen]|exact Hw2]|].
    split; [exact Hw1|]. split; [exact Hmem|]. split.
    { apply Z.ltb_lt in E2. intros Hc. exfalso. eapply Z.lt_irrefl.
      eapply Z.lt_le_trans; [exact E2|exact Hc]. }
    intros _. exists a, b, r. repeat split; try reflexivity; assumption.
  - apply Z.ltb_ge in E2.
    split; [split; [exact E2|exact Hw1]|]. split; [exact Hw1|]. split; [exact Hmem|].
    split; [reflexivity|]. intros Hc. exfalso. eapply Z.lt_irrefl.
    eapply Z.lt_le_trans; [exact Hc|exact E2].
Qed.

(** [subtract_below m]: exactly the numbers [<= m] disappear. *)
Lemma subtract_below_spec M s m s' :
  WInv M s -> 0 <= m -> subtract_below s m = Some s' ->
  WInv M s' /\ (forall x, mem (ranges s') x = mem (ranges s) x && (m <? x)).
Proof.
  intros [Hlen Hwf] Hm H. unfold subtract_below in H.
  destruct (U64_MAX <=? m); [discriminate|]. inversion H; subst; clear H. cbn [ranges].
  destruct (remove_zero_spec (ranges s) (-1) (m + 1) Hwf) as [Hw Hmem]; [lia|].
  pose proof (wf_ranges_ge (ranges s) (-1) Hwf ltac:(lia)) as Hge.
  split; [|intros x; rewrite Hmem; f_equal; lia].
  split; [|exact Hw]. destruct (remove_from_zero (ranges s) (m + 1) Hge) as [Hl _].
  apply Nat2Z.inj_le in Hl. eapply Z.le_trans; [exact Hl|exact Hlen].
Qed.

Lemma step_winv M s o : 0 <= M -> WInv M s -> PendingAcksProofs.wf_op o ->
  exists s' out, step M s o = Some (s', out) /\ WInv M s'.
Proof.
  intros HM HI Hwf. destruct o as [p now|m|now|]; cbn [step PendingAcksProofs.wf_op] in *.
  - destruct (insert_one M s p now) as [s'|] eqn:E.
    + destruct (insert_one_spec M s p now s' HM HI ltac:(lia) E) as [HI' _].
      eexists _, _. split; [reflexivity|exact HI'].
    + unfold insert_one in E. destruct (U64_MAX <=? p) eqn:E1; [lia|discriminate].
  - destruct (subtract_below s m) as [s'|] eqn:E.
    + destruct (subtract_below_spec M s m s' HI ltac:(lia) E) as [HI' _].
      eexists _, _. split; [reflexivity|exact HI'].
    + unfold subtract_below in E. destruct (U64_MAX <=? m) eqn:E1; [lia|discriminate].
  - eexists _, _. split; [reflexivity|exact HI].
  - eexists _, _. split; [reflexivity|exact HI].
Qed.

(** For every sequence of operations with packet numbers in [0, 2^64 - 1): no panic, at most [M]
    ranges, and the ranges are canonical (so the per-operation set semantics above applies at
    every step). *)
Lemma pending_acks_canonical_lemma M : 0 <= M -> forall os,
  Forall PendingAcksProofs.wf_op os ->
  exists s outs, PendingAcksProofs.exec M PendingAcks.init os = Some s /\
                 run_ops M PendingAcks.init os = Some outs /\ WInv M s.
Proof.
  intros HM os. assert (H0 : WInv M PendingAcks.init) by (split; [cbn; lia|exact I]).
  revert H0. generalize PendingAcks.init as s.
  induction os as [|o os IH]; intros s HI Hwf.
  - exists s, []. split; [reflexivity|]. split; [reflexivity|exact HI].
  - inversion Hwf as [|? ? Ho Hos]; subst.
    destruct (step_winv M s o HM HI Ho) as (s1 & out & Hs & HI1).
    destruct (IH s1 HI1 Hos) as (s' & outs & He & Hr & HI').
    exists s', (out :: outs). cbn [PendingAcksProofs.exec run_ops]. rewrite Hs, Hr.
    split; [exact He|]. split; [reflexivity|exact HI'].
Qed.
