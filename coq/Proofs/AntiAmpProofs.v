(** amplification_bound: while a path is unvalidated, the bytes really sent to it stay below
    FACTOR x the bytes really received from it plus one datagram, for every history of receives
    and poll_transmit batches; no datagram starts once the budget is exhausted; the u64 counters
    (saturating updates, checked predicate) never over-credit. *)
From QV Require Import Lib.Tac Lib.Chk Lib.Corr Proofs.ChkProofs Model.AntiAmp.
Open Scope Z_scope.

(** Wanted datagram sizes: the first fits the segment size, later ones fit the first
    ([segment_size = buf.len()] after the first datagram). *)
Fixpoint ds_ok (seg : Z) (ds : list Z) (i : Z) : Prop :=
  match ds with
  | [] => True
  | d :: ds' => 0 <= d <= seg /\ ds_ok (if i =? 0 then d else seg) ds' (i + 1)
  end.

(** Histories: receives, queries, probes, batches whose segment size is at most [mtu],
    validation, and fresh paths (the implementation never un-validates a path: migration creates
    a new [PathData] with zeroed counters = op 0); NOT the raw counter writes [2], [3] of the hook. *)
Definition op_wf (mtu : Z) (op : list Z) : Prop :=
  match op with
  | c :: x :: a' =>
      if c =? 1 then 0 <= x
      else if c =? 2 then False
      else if c =? 3 then False
      else if c =? 6 then match a' with _ :: ds => 0 <= x <= mtu /\ ds_ok x ds 0 | [] => True end
      else if c =? 7 then nz x = true
      else True
  | _ => True
  end.

Definition inv (mtu : Z) (s : st) : Prop :=
  0 <= recvd s <= gr s /\ 0 <= sent s /\
  (sent s = gs s \/ (sent s = U64MAX /\ U64MAX <= gs s)) /\
  (validated s = false -> gs s < FACTOR * gr s + mtu).

Lemma fresh_inv mtu v : 0 < mtu -> inv mtu (fresh v).
Proof.
  intro Hm. unfold inv, fresh, FACTOR. cbn [recvd sent gr gs validated]. repeat split; try lia.
Qed.

Lemma blocked_false s b :
  validated s = false -> blocked s b = Some false ->
  FACTOR * recvd s >= sent s + b /\ sent s + b <= U64MAX.
Proof.
  intros Hv H. unfold blocked in H. rewrite Hv in H.
  destruct (cmul (recvd s) FACTOR) as [r3|] eqn:E1; cbn [obind] in H; [|discriminate].
  destruct (cadd (sent s) b) as [sb|] eqn:E2; cbn [obind] in H; [|discriminate].
  apply cmul_some in E1 as [-> _]. apply cadd_some in E2 as [-> Hr].
  inversion H as [Hlt]. lia.
Qed.

Lemma blocked_true_when_exhausted s b x :
  validated s = false -> 0 <= recvd s -> FACTOR * recvd s <= sent s -> 1 <= b ->
  blocked s b = Some x -> x = true.
Proof.
  intros Hv Hr He Hb H. unfold blocked in H. rewrite Hv in H.
  destruct (cmul (recvd s) FACTOR) as [r3|] eqn:E1; cbn [obind] in H; [|discriminate].
  destruct (cadd (sent s) b) as [sb|] eqn:E2; cbn [obind] in H; [|discriminate].
  apply cmul_some in E1 as [-> _]. apply cadd_some in E2 as [-> _].
  inversion H. lia.
Qed.

Lemma batch_bound mtu ds : forall s seg max i total n t,
  0 <= i -> 0 <= total <= seg * i -> 0 <= seg <= mtu -> ds_ok seg ds i ->
  validated s = false -> inv mtu s ->
  batch s seg max ds i total = Some (n, t) ->
  total <= t /\ (t = total \/ gs s + t < FACTOR * gr s + mtu).
Proof.
  induction ds as [|d ds IH]; intros s seg max i total n t Hi Ht Hseg Hok Hv Hinv H; cbn [batch] in H.
  - inversion H; subst. split; [lia|left; reflexivity].
  - destruct (max <=? i) eqn:Em; [inversion H; subst; split; [lia|left; reflexivity]|].
    destruct (cmul seg i) as [a|] eqn:Ea; cbn [obind] in H; [|discriminate].
    destruct (cadd a 1) as [a1|] eqn:Ea1; cbn [obind] in H; [|discriminate].
    destruct (blocked s a1) as [b|] eqn:Eb; cbn [obind] in H; [|discriminate].
    destruct b; [inversion H; subst; split; [lia|left; reflexivity]|].
    destruct (cadd total d) as [t1|] eqn:Et; cbn [obind] in H; [|discriminate].
    apply cmul_some in Ea as [-> _]. apply cadd_some in Ea1 as [-> _]. apply cadd_some in Et as [-> _].
    cbn [ds_ok] in Hok. destruct Hok as [Hd Hok].
    destruct (blocked_false s _ Hv Eb) as [Hb1 Hb2].
    destruct Hinv as (Hr & Hs0 & Hsat & Hbound).
    assert (sent s = gs s) as Hsg by (destruct Hsat as [?|[? ?]]; [assumption|unfold U64MAX in *; lia]).
    assert (total + d <= (if i =? 0 then d else seg) * (i + 1)) as Hnext.
    { destruct (i =? 0) eqn:E0; [assert (i = 0) by lia; subst; lia|nia]. }
    assert (0 <= (if i =? 0 then d else seg) <= mtu) as Hseg' by (destruct (i =? 0); lia).
    specialize (IH s (if i =? 0 then d else seg) max (i + 1) (total + d) n t ltac:(lia) ltac:(lia) Hseg' Hok Hv
                   (conj Hr (conj Hs0 (conj Hsat Hbound))) H).
    destruct IH as [Hle [Heq|Hlt]].
    + split; [lia|]. right. subst t. unfold FACTOR in *. nia.
    + split; [lia|]. right. exact Hlt.
Qed.

Lemma blocked_saturated s b : validated s = false -> sent s = U64MAX -> 1 <= b -> blocked s b = None.
Proof.
  intros Hv Hs Hb. unfold blocked. rewrite Hv.
  destruct (cmul (recvd s) FACTOR) as [r3|]; cbn [obind]; [|reflexivity].
  destruct (cadd (sent s) b) as [sb|] eqn:E; cbn [obind]; [|reflexivity].
  apply cadd_some in E as [_ Hr]. lia.
Qed.

Lemma batch_zero ds s seg max n t :
  validated s = false -> 0 <= recvd s -> (FACTOR * recvd s <= sent s \/ sent s = U64MAX) ->
  batch s seg max ds 0 0 = Some (n, t) -> n = 0 /\ t = 0.
Proof.
  intros Hv Hr He H. destruct ds as [|d ds]; cbn [batch] in H; [inversion H; split; reflexivity|].
  destruct (max <=? 0); [inversion H; split; reflexivity|].
  destruct (cmul seg 0) as [a|] eqn:Ea; cbn [obind] in H; [|discriminate].
  destruct (cadd a 1) as [a1|] eqn:Ea1; cbn [obind] in H; [|discriminate].
  apply cmul_some in Ea as [-> _]. apply cadd_some in Ea1 as [-> _].
  destruct He as [He|He].
  - destruct (blocked s (seg * 0 + 1)) as [b|] eqn:Eb; cbn [obind] in H; [|discriminate].
    rewrite (blocked_true_when_exhausted s (seg * 0 + 1) b Hv Hr He ltac:(lia) Eb) in H. inversion H; split; reflexivity.
  - rewrite (blocked_saturated s (seg * 0 + 1) Hv He ltac:(lia)) in H. cbn [obind] in H. discriminate.
Qed.

Lemma send_inv mtu s t :
  inv mtu s -> 0 <= t -> (validated s = false -> gs s + t < FACTOR * gr s + mtu) -> inv mtu (send s t).
Proof.
  intros (Hr & Hs0 & Hsat & Hb) Ht Hnew. unfold inv, send, sat_add. cbn [recvd sent gr gs validated].
  split; [exact Hr|]. split; [unfold U64MAX; lia|]. split; [|exact Hnew].
  destruct Hsat as [Heq|[Heq Hge]]; unfold U64MAX in *; lia.
Qed.

Lemma recv_inv mtu s n : inv mtu s -> 0 <= n -> inv mtu (recv s n).
Proof.
  intros (Hr & Hs0 & Hsat & Hb) Hn. unfold inv, recv, sat_add, FACTOR in *. cbn [recvd sent gr gs validated].
  split; [unfold U64MAX; lia|]. split; [exact Hs0|]. split; [exact Hsat|].
  intro Hv. specialize (Hb Hv). lia.
Qed.

Lemma batch_mono ds : forall s seg max i total n t,
  ds_ok seg ds i -> batch s seg max ds i total = Some (n, t) -> total <= t.
Proof.
  induction ds as [|d ds IH]; intros s seg max i total n t Hok H; cbn [batch] in H.
  - inversion H; subst. lia.
  - destruct (max <=? i); [inversion H; subst; lia|].
    destruct (cmul seg i) as [a|]; cbn [obind] in H; [|discriminate].
    destruct (cadd a 1) as [a1|]; cbn [obind] in H; [|discriminate].
    destruct (blocked s a1) as [b|]; cbn [obind] in H; [|discriminate].
    destruct b; [inversion H; subst; lia|].
    destruct (cadd total d) as [t1|] eqn:Et; cbn [obind] in H; [|discriminate].
    apply cadd_some in Et as [-> _]. cbn [ds_ok] in Hok. destruct Hok as [Hd Hok].
    specialize (IH _ _ _ _ _ _ _ Hok H). lia.
Qed.

Lemma poll_inv mtu s seg max ds s' n t :
  inv mtu s -> 0 <= seg <= mtu -> ds_ok seg ds 0 ->
  poll s seg max ds = Some (s', n, t) -> inv mtu s'.
Proof.
  intros Hinv Hseg Hok H. unfold poll in H.
  destruct (batch s seg max ds 0 0) as [[n0 t0]|] eqn:Eb; cbn [obind] in H; [|discriminate].
  cbn [fst snd] in H. inversion H; subst.
  pose proof (batch_mono _ _ _ _ _ _ _ _ Hok Eb) as Ht.
  apply send_inv; [exact Hinv|exact Ht|]. intro Hv.
  destruct (batch_bound mtu ds s seg max 0 0 n t ltac:(lia) ltac:(lia) Hseg Hok Hv Hinv Eb) as [_ [->|Hlt]];
    [|exact Hlt].
  destruct Hinv as (_ & _ & _ & Hb). specialize (Hb Hv). lia.
Qed.

Lemma step_inv mtu s op s' o :
  0 < mtu -> op_wf mtu op -> inv mtu s -> step s op = Some (s', o) -> inv mtu s'.
Proof.
  intros Hm Hwf Hinv H. unfold step in H.
  destruct op as [|c a]; [inversion H; subst; exact Hinv|].
  destruct a as [|x a'].
  { destruct (c =? 5); [|inversion H; subst; exact Hinv].
    destruct (budget s); cbn [obind] in H; [|discriminate]. inversion H; subst; exact Hinv. }
  cbn [op_wf] in Hwf.
  destruct (c =? 0). { inversion H; subst. apply fresh_inv; exact Hm. }
  destruct (c =? 1). { inversion H; subst. apply recv_inv; assumption. }
  destruct (c =? 2); [contradiction|]. destruct (c =? 3); [contradiction|].
  destruct (c =? 4).
  { destruct (blocked s x); cbn [obind] in H; [|discriminate]. inversion H; subst; exact Hinv. }
  destruct (c =? 6).
  { destruct a' as [|max ds]; [inversion H; subst; exact Hinv|]. destruct Hwf as [Hseg Hok].
    destruct (poll s x max ds) as [[[s1 n] t]|] eqn:Ep; cbn [obind] in H; [|discriminate].
    inversion H; subst. eapply poll_inv; eassumption. }
  destruct (c =? 7).
  { inversion H; subst. destruct Hinv as (Hr & Hs0 & Hsat & Hb).
    unfold inv. cbn [recvd sent gr gs validated]. repeat split; try lia; try assumption.
    cbn [op_wf] in Hwf. intro Hv. rewrite Hwf in Hv. discriminate. }
  inversion H; subst; exact Hinv.
Qed.

Lemma steps_inv mtu l : forall s s',
  0 < mtu -> Forall (op_wf mtu) l -> inv mtu s -> steps s l = Some s' -> inv mtu s'.
Proof.
  induction l as [|op l IH]; intros s s' Hm Hwf Hinv H; cbn [steps] in H; [inversion H; subst; exact Hinv|].
  inversion Hwf as [|? ? Hop Hl]; subst.
  destruct (step s op) as [[s1 o]|] eqn:E; [|discriminate].
  eapply IH; [exact Hm|exact Hl| |exact H]. eapply step_inv; eassumption.
Qed.

(** The bound, on the bytes REALLY sent and received (ghost counters), in every reachable state of
    an unvalidated path. *)
Theorem amplification_bound : forall mtu l s,
  0 < mtu -> Forall (op_wf mtu) l -> steps (fresh false) l = Some s ->
  validated s = false -> gs s < FACTOR * gr s + mtu.
Proof.
  intros mtu l s Hm Hwf H Hv.
  destruct (steps_inv mtu l _ _ Hm Hwf (fresh_inv mtu false Hm) H) as (_ & _ & _ & Hb). exact (Hb Hv).
Qed.

(** Once the bytes sent reach FACTOR x the bytes received, a batch starts no datagram. *)
Theorem no_datagram_when_exhausted : forall mtu l s seg max ds s' n t,
  0 < mtu -> Forall (op_wf mtu) l -> steps (fresh false) l = Some s ->
  validated s = false -> FACTOR * gr s <= gs s ->
  poll s seg max ds = Some (s', n, t) -> n = 0 /\ t = 0 /\ gs s' = gs s.
Proof.
  intros mtu l s seg max ds s' n t Hm Hwf H Hv He Hp.
  destruct (steps_inv mtu l _ _ Hm Hwf (fresh_inv mtu false Hm) H) as (Hr & Hs0 & Hsat & _).
  unfold poll in Hp. destruct (batch s seg max ds 0 0) as [[n0 t0]|] eqn:Eb; cbn [obind] in Hp; [|discriminate].
  cbn [fst snd] in Hp. inversion Hp; subst.
  assert (FACTOR * recvd s <= sent s \/ sent s = U64MAX) as Hex.
  { unfold FACTOR in *. destruct Hsat as [Heq|[Heq Hge]]; [left; lia|right; exact Heq]. }
  destruct (batch_zero ds s seg max n t Hv ltac:(lia) Hex Eb) as [-> ->].
  unfold send. cbn [gs]. repeat split; lia.
Qed.

(** counters_saturate_safely: in every reachable state the u64 counters never credit more than was
    really received, and the sent counter is exact unless it is pinned at u64::MAX — where the
    predicate cannot answer "not blocked" for any positive size ([blocked_saturated]). Together
    with [amplification_bound] being about the real byte totals: saturation cannot reset the
    inequality. *)
Theorem counters_saturate_safely : forall mtu l s,
  0 < mtu -> Forall (op_wf mtu) l -> steps (fresh false) l = Some s ->
  0 <= recvd s <= gr s /\ (sent s = gs s \/ (sent s = U64MAX /\ U64MAX <= gs s)) /\
  (validated s = false -> sent s = U64MAX -> forall b, 1 <= b -> blocked s b = None).
Proof.
  intros mtu l s Hm Hwf H.
  destruct (steps_inv mtu l _ _ Hm Hwf (fresh_inv mtu false Hm) H) as (Hr & Hs0 & Hsat & _).
  repeat split; try lia; try assumption. intros Hv Hs b Hb. apply blocked_saturated; assumption.
Qed.
