From QV Require Import Lib.Tac Lib.Corr gen.Constants Model.Mtud Proofs.MtudProofs.
Open Scope Z_scope.

Section Evidence.
Variable MPR BHT : Z.
Notation step := (Mtud.step MPR BHT true).

(** Every recorded suspicious burst consisted solely of packets larger than min_mtu. *)
Definition BI (b : Bhd) : Prop := Forall (fun x => bmin_mtu b < x) (bursts b).

Lemma replace_first_forall (P : Z -> Prop) l old new :
  Forall P l -> P new -> Forall P (replace_first l old new).
Proof.
  intros H Hn. induction H as [|x l Hx Hl IH]; cbn [replace_first]; [constructor|].
  destruct (x =? old); constructor; auto.
Qed.

Lemma filter_forall (P : Z -> Prop) f l : Forall P l -> Forall P (filter f l).
Proof.
  intros H. induction H as [|x l Hx Hl IH]; cbn [filter]; [constructor|].
  destruct (f x); [constructor|]; auto.
Qed.

Lemma finish_BI b : BI b -> BI (finish_loss_burst BHT b).
Proof.
  unfold BI, finish_loss_burst. intros H. destruct (cur_burst b) as [[sm latest]|]; [|exact H].
  destruct ((sm <=? bmin_mtu b) || (latest <? largest_post_loss b) && (sm <=? acked_mtu b)) eqn:E;
    cbn [bmin_mtu bursts]; [exact H|].
  assert (Hsm : bmin_mtu b < sm) by lia.
  destruct (Z.of_nat (length (bursts b)) <=? BHT).
  - apply Forall_app. split; [exact H|]. constructor; [exact Hsm|constructor].
  - destruct (bursts b) as [|x r] eqn:Eb; [exact H|].
    destruct (list_min r x <? sm); [|exact H]. apply replace_first_forall; assumption.
Qed.

Lemma lost_BI b pn len b' : BI b -> bhd_on_non_probe_lost BHT b pn len = Some b' -> BI b'.
Proof.
  unfold bhd_on_non_probe_lost. intros H. destruct (cur_burst b) as [[sm latest]|] eqn:Ec.
  - destruct (pn <? latest); [discriminate|]. destruct (pn - latest =? 1); intros E; inversion E; subst; clear E.
    + exact H.
    + pose proof (finish_BI b H) as H1. unfold BI in *. cbn [bmin_mtu bursts]. exact H1.
  - intros E; inversion E; subst. exact H.
Qed.

Lemma detect_BI b : BI b -> BI (fst (bhd_black_hole_detected BHT b)).
Proof.
  intros H. unfold bhd_black_hole_detected. pose proof (finish_BI b H) as H1.
  destruct (Z.of_nat (length (bursts (finish_loss_burst BHT b))) <=? BHT); cbn [fst]; [exact H1|].
  unfold BI. cbn [bursts]. constructor.
Qed.

Lemma acked_BI b pn len : BI b -> BI (bhd_on_non_probe_acked b pn len).
Proof.
  intros H. unfold bhd_on_non_probe_acked. destruct (len <=? acked_mtu b); [exact H|].
  unfold BI in *. cbn [bmin_mtu bursts]. apply filter_forall. exact H.
Qed.

Lemma step_BI m op m' r : BI (bhd m) -> step m op = Some (m', r) -> BI (bhd m').
Proof.
  intros HB H.
  destruct op as [i mn p en c|c mn|v|now pn|sp pn len| |pn len|now]; cbn [Mtud.step] in H.
  - destruct (mtud_new i mn p en c) as [m1|] eqn:E; [|discriminate]. inversion H; subst; clear H.
    unfold mtud_new in E. destruct en.
    + destruct (i <? mn); [discriminate|]. destruct p as [v|].
      * apply on_peer_max_spec in E. destruct E as (_ & E & _). rewrite E. cbn [bhd]. constructor.
      * inversion E; subst. constructor.
    + inversion E; subst. constructor.
  - destruct (mtud_reset m c mn) as [m1|] eqn:E; [|discriminate]. inversion H; subst; clear H.
    unfold mtud_reset in E. destruct (st m) as [e|].
    + destruct (on_peer_max _ (peer_max e)) as [m2|]; [|discriminate]. inversion E; subst. constructor.
    + inversion E; subst. constructor.
  - destruct (on_peer_max m v) as [m1|] eqn:E; [|discriminate]. inversion H; subst; clear H.
    apply on_peer_max_spec in E. destruct E as (_ & E & _). rewrite E. exact HB.
  - destruct (st m) as [e|]; [|inversion H; subst; exact HB].
    destruct (Mtud.enabled_poll MPR e now (cur m) pn) as [[e' r']|]; [|discriminate].
    inversion H; subst. exact HB.
  - destruct (negb (is_data sp)); [inversion H; subst; exact HB|].
    destruct (match st m with Some e => enabled_on_probe_acked e pn | None => None end) as [[e' new]|];
      inversion H; subst; clear H; cbn [bhd].
    + unfold BI, bhd_on_probe_acked. cbn [bursts]. constructor.
    + apply acked_BI. exact HB.
  - inversion H; subst. exact HB.
  - destruct (bhd_on_non_probe_lost BHT (bhd m) pn len) as [b|] eqn:E; [|discriminate].
    inversion H; subst; clear H. cbn [bhd]. eapply lost_BI; eauto.
  - pose proof (detect_BI (bhd m) HB) as H1.
    destruct (bhd_black_hole_detected BHT (bhd m)) as [b det]. cbn [fst] in H1.
    destruct det; inversion H; subst; exact H1.
Qed.

Lemma reach_BI m plow : reach MPR BHT m plow -> BI (bhd m).
Proof.
  induction 1 as [|m plow op m' r Hr IH Hok Hs]; [constructor|]. eapply step_BI; eauto.
Qed.

(** black_hole_needs_evidence (burst count and min_mtu part). *)
Lemma black_hole_needs_evidence m plow now m' :
  reach MPR BHT m plow -> step m (OBlackHole now) = Some (m', 1) ->
  let b := finish_loss_burst BHT (bhd m) in
  BHT < Z.of_nat (length (bursts b)) /\ Forall (fun x => bmin_mtu b < x) (bursts b).
Proof.
  intros Hr Hs. split.
  - eapply black_hole_threshold; eauto.
  - apply finish_BI. eapply reach_BI; eauto.
Qed.
End Evidence.
