(** Proofs about Model/PendingAcks.v + Model/AckRanges.v (C03: the set of packet numbers awaiting
    acknowledgement never holds more than MAX_ACK_BLOCKS ranges, whatever order the peer sends
    packet numbers in, and no operation panics for packet numbers below 2^64 - 1). *)
From QV Require Import Lib.Tac Lib.Corr Model.AckRanges Model.PendingAcks.
Import PendingAcks.
Open Scope Z_scope.

(** every range starts at or above [lo] and is non-empty *)
Definition ranges_ge (lo : Z) (l : AckRanges.t) : Prop :=
  Forall (fun r => lo <= fst r < snd r) l.

Lemma merge_length : forall l a e, (length (merge a e l) <= S (length l))%nat.
Proof.
  induction l as [|[c d] l IH]; intros a e; cbn [merge length]; [lia|].
  destruct (c <=? e); [specialize (IH a (Z.max d e)); lia|cbn [length]; lia].
Qed.

Lemma merge_ge : forall l lo a e, ranges_ge lo l -> lo <= a < e -> ranges_ge lo (merge a e l).
Proof.
  induction l as [|[c d] l IH]; intros lo a e H Ha; cbn [merge].
  - constructor; [exact Ha|constructor].
  - inversion H as [|? ? Hc Hl]; subst. cbn [fst snd] in Hc. destruct (c <=? e).
    + apply IH; [exact Hl|lia].
    + constructor; [exact Ha|exact H].
Qed.

Lemma insert_range_length : forall l s e,
  (length (insert_range l s e) <= S (length l))%nat.
Proof.
  induction l as [|[a b] l IH]; intros s e; cbn [insert_range length]; [lia|].
  destruct (b <? s); [cbn [length]; specialize (IH s e); lia|].
  destruct (e <? a); [cbn [length]; lia|].
  destruct (e <=? b); [cbn [length]; lia|].
  pose proof (merge_length l (if s <? a then s else a) e). lia.
Qed.

Lemma insert_range_ge : forall l lo s e,
  ranges_ge lo l -> lo <= s < e -> ranges_ge lo (insert_range l s e).
Proof.
  induction l as [|[a b] l IH]; intros lo s e H Hs; cbn [insert_range].
  - constructor; [exact Hs|constructor].
  - inversion H as [|? ? Ha Hl]; subst. cbn [fst snd] in Ha.
    destruct (b <? s); [constructor; [exact Ha|apply IH; assumption]|].
    destruct (e <? a); [constructor; [exact Hs|exact H]|].
    destruct (e <=? b) eqn:E.
    + constructor; [|exact Hl]. cbn [fst snd]. destruct (s <? a); lia.
    + apply merge_ge; [exact Hl|]. destruct (s <? a); lia.
Qed.

Lemma remove_loop_from_zero : forall l e,
  ranges_ge 0 l ->
  (length (remove_loop l 0 e) <= length l)%nat /\ ranges_ge 0 (remove_loop l 0 e).
Proof.
  induction l as [|[a b] l IH]; intros e H; cbn [remove_loop]; [split; [lia|constructor]|].
  inversion H as [|? ? Ha Hl]; subst. cbn [fst snd] in Ha.
  destruct (e <=? a) eqn:E1; [split; [lia|exact H]|].
  destruct (0 <=? a) eqn:E2; [|lia]. cbn [andb]. destruct (IH e Hl) as [IH1 IH2].
  destruct (b <=? e) eqn:E3.
  - split; [cbn [length]; lia|exact IH2].
  - split; [cbn [length]; lia|]. constructor; [cbn [fst snd]; lia|exact IH2].
Qed.

Lemma remove_from_zero l e :
  ranges_ge 0 l ->
  (length (AckRanges.remove l 0 e) <= length l)%nat /\ ranges_ge 0 (AckRanges.remove l 0 e).
Proof.
  intros H. unfold AckRanges.remove. destruct (e <=? 0); [split; [lia|exact H]|].
  destruct l as [|[a b] l]; cbn [remove_range]; [split; [lia|constructor]|].
  inversion H as [|? ? Ha Hl]; subst. cbn [fst snd] in Ha.
  destruct (b <=? 0) eqn:E; [lia|]. apply remove_loop_from_zero. exact H.
Qed.

(** * The invariant of [PendingAcks.ranges] *)
Definition Inv (M : Z) (s : t) : Prop :=
  Z.of_nat (length (ranges s)) <= M /\ ranges_ge 0 (ranges s).

Definition wf_op (o : op) : Prop :=
  match o with
  | InsertOne p _ => 0 <= p < U64_MAX
  | SubtractBelow m => 0 <= m < U64_MAX
  | AckDelay _ | Dump => True
  end.

Lemma step_inv M s o : 0 <= M -> Inv M s -> wf_op o ->
  exists s' out, step M s o = Some (s', out) /\ Inv M s'.
Proof.
  intros HM [Hlen Hge] Hwf. destruct o as [p now|m|now|]; cbn [step wf_op] in *.
  - unfold insert_one. destruct (U64_MAX <=? p) eqn:E; [lia|].
    eexists _, _. split; [reflexivity|]. unfold Inv. cbn [ranges].
    unfold AckRanges.insert. destruct (p + 1 <=? p) eqn:E1; [lia|].
    pose proof (insert_range_length (ranges s) p (p + 1)) as Hl.
    pose proof (insert_range_ge (ranges s) 0 p (p + 1) Hge ltac:(lia)) as Hg.
    unfold zlen. destruct (M <? Z.of_nat (length (insert_range (ranges s) p (p + 1)))) eqn:E2.
    + unfold pop_min. destruct (insert_range (ranges s) p (p + 1)) as [|r l]; cbn [tl length] in *.
      * split; [lia|constructor].
      * split; [lia|]. inversion Hg; assumption.
    + split; [lia|exact Hg].
  - unfold subtract_below. destruct (U64_MAX <=? m) eqn:E; [lia|].
    eexists _, _. split; [reflexivity|]. unfold Inv. cbn [ranges].
    destruct (remove_from_zero (ranges s) (m + 1) Hge) as [H1 H2]. split; [lia|exact H2].
  - eexists _, _. split; [reflexivity|]. split; assumption.
  - eexists _, _. split; [reflexivity|]. split; assumption.
Qed.

Fixpoint exec (M : Z) (s : t) (os : list op) : option t :=
  match os with
  | [] => Some s
  | o :: r => match step M s o with Some (s', _) => exec M s' r | None => None end
  end.

Lemma exec_inv M : 0 <= M -> forall os s, Inv M s -> Forall wf_op os ->
  exists s' outs, exec M s os = Some s' /\ run_ops M s os = Some outs /\ Inv M s' /\
                  length outs = length os.
Proof.
  intros HM. induction os as [|o os IH]; intros s HI Hwf.
  - exists s, []. split; [reflexivity|]. split; [reflexivity|]. split; [exact HI|reflexivity].
  - inversion Hwf as [|? ? Ho Hos]; subst.
    destruct (step_inv M s o HM HI Ho) as (s1 & out & Hs & HI1).
    destruct (IH s1 HI1 Hos) as (s' & outs & He & Hr & HI' & Hl).
    exists s', (out :: outs). cbn [exec run_ops]. rewrite Hs, Hr.
    split; [exact He|]. split; [reflexivity|]. split; [exact HI'|]. cbn [length]. lia.
Qed.

Lemma pending_acks_bounded_lemma M : 0 <= M -> forall os,
  Forall wf_op os ->
  exists s outs, exec M init os = Some s /\ run_ops M init os = Some outs /\
                 Z.of_nat (length (ranges s)) <= M /\ length outs = length os.
Proof.
  intros HM os Hwf.
  assert (H0 : Inv M init) by (split; [cbn; lia|constructor]).
  destruct (exec_inv M HM os init H0 Hwf) as (s & outs & He & Hr & [Hl _] & Hlen).
  exists s, outs. split; [exact He|]. split; [exact Hr|]. split; [exact Hl|exact Hlen].
Qed.

(** A just-inserted packet number is kept, unless the set had to drop its lowest range. *)
Lemma in_range a e x : a <= x < e -> (a <=? x) && (x <? e) = true.
Proof. intros H. lia. Qed.

Lemma mem_merge : forall l a e x, a <= x < e -> mem (merge a e l) x = true.
Proof.
  induction l as [|[c d] l IH]; intros a e x Hx; cbn [merge].
  - cbn [mem existsb fst snd]. rewrite in_range by lia. reflexivity.
  - destruct (c <=? e); [apply IH; lia|].
    cbn [mem existsb fst snd]. rewrite in_range by lia. reflexivity.
Qed.

Lemma mem_insert_new : forall l s e x, s <= x < e -> mem (insert_range l s e) x = true.
Proof.
  induction l as [|[a b] l IH]; intros s e x Hx; cbn [insert_range].
  - cbn [mem existsb fst snd]. rewrite in_range by lia. reflexivity.
  - destruct (b <? s).
    { cbn [mem existsb]. specialize (IH s e x Hx). unfold mem in IH. rewrite IH.
      apply orb_true_r. }
    destruct (e <? a) eqn:E0.
    { cbn [mem existsb fst snd]. rewrite in_range by lia. reflexivity. }
    destruct (e <=? b) eqn:E3.
    + cbn [mem existsb fst snd]. rewrite in_range by (destruct (s <? a) eqn:E4; lia). reflexivity.
    + apply mem_merge. destruct (s <? a) eqn:E4; lia.
Qed.

Lemma insert_one_keeps_packet M s p now s' :
  insert_one M s p now = Some s' ->
  mem (ranges s') p = true \/
  (M < Z.of_nat (length (AckRanges.insert (ranges s) p (p + 1))) /\
   ranges s' = tl (AckRanges.insert (ranges s) p (p + 1))).
Proof.
  unfold insert_one. destruct (U64_MAX <=? p); [discriminate|]. intros H. inversion H; subst.
  cbn [ranges]. unfold zlen. destruct (M <? _) eqn:E.
  - right. unfold zlen in E. split; [lia|reflexivity].
  - left. unfold AckRanges.insert. destruct (p + 1 <=? p) eqn:E1; [lia|].
    apply mem_insert_new. lia.
Qed.
