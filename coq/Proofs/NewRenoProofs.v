(** NewReno never reports a window below two datagrams — for all call histories, all arguments
    and all outcomes of the float product. *)
From QV Require Import Lib.Tac Lib.Chk Lib.Corr Proofs.ChkProofs Model.NewReno.
Open Scope Z_scope.

Definition inv (s : st) : Prop := 0 <= mtu s /\ 2 * mtu s <= window s.

Lemma build_inv w m : 0 <= m -> 2 * m <= w -> inv (build w m).
Proof. intros Hm Hw. unfold inv, build. cbn [mtu window]. lia. Qed.

Lemma on_ack_inv s sent bytes al s' :
  inv s -> 0 <= bytes -> on_ack s sent bytes al = Some s' -> inv s'.
Proof.
  intros [Hm Hw] Hb H. unfold on_ack in H.
  destruct (nz al || (sent <=? rec_start s)) eqn:E1.
  { inversion H; subst. split; assumption. }
  destruct (window s <? ssthresh s) eqn:E2.
  - destruct (cadd (window s) bytes) as [w|] eqn:Ew; cbn [obind] in H; [|discriminate].
    apply cadd_some in Ew as [-> _].
    destruct (ssthresh s <=? window s + bytes) eqn:E3; inversion H; subst;
      unfold inv; cbn [mtu window]; lia.
  - destruct (cadd (bytes_acked s) bytes) as [ba|] eqn:Eb; cbn [obind] in H; [|discriminate].
    destruct (window s <=? ba) eqn:E3.
    + destruct (cadd (window s) (mtu s)) as [w|] eqn:Ew; cbn [obind] in H; [|discriminate].
      apply cadd_some in Ew as [-> _]. inversion H; subst. unfold inv; cbn [mtu window]. lia.
    + inversion H; subst. unfold inv; cbn [mtu window]. lia.
Qed.

Lemma on_congestion_event_inv s now sent p o : inv s -> inv (on_congestion_event s now sent p o).
Proof.
  intros [Hm Hw]. unfold on_congestion_event.
  destruct (sent <=? rec_start s) eqn:E1; [split; assumption|].
  unfold inv, min_window. cbn [mtu window]. destruct (nz p); lia.
Qed.

Lemma on_mtu_update_inv s m : 0 <= m -> inv (on_mtu_update s m).
Proof. intro Hm. unfold inv, on_mtu_update, min_window. cbn [mtu window]. lia. Qed.

Lemma step_inv s op o s' : wf_op op -> inv s -> step s op o = Some s' -> inv s'.
Proof.
  intros Hwf Hi H. unfold step in H. destruct op as [|c a]; [inversion H; subst; assumption|].
  apply wf_tail in Hwf.
  destruct (c =? 2) eqn:E2.
  { eapply on_ack_inv; [exact Hi| |exact H]. apply nth_nonneg; assumption. }
  destruct (c =? 4) eqn:E4.
  { inversion H; subst. apply on_congestion_event_inv; assumption. }
  destruct (c =? 6) eqn:E6.
  { inversion H; subst. apply on_mtu_update_inv. apply nth_nonneg; assumption. }
  inversion H; subst; assumption.
Qed.

Lemma steps_inv l : forall s s',
  Forall (fun p => wf_op (fst p)) l -> inv s -> steps s l = Some s' -> inv s'.
Proof.
  induction l as [|[op o] l IH]; intros s s' Hwf Hi H; cbn [steps] in H.
  - inversion H; subst; assumption.
  - inversion Hwf as [|? ? Hop Hl]; subst. cbn [fst] in Hop.
    destruct (step s op o) as [s1|] eqn:E; [|discriminate].
    eapply IH; [exact Hl| |exact H]. eapply step_inv; eassumption.
Qed.

Theorem newreno_floor : forall w m l s',
  0 <= m -> 2 * m <= w ->
  Forall (fun p => wf_op (fst p)) l ->
  steps (build w m) l = Some s' ->
  2 * mtu s' <= window s'.
Proof.
  intros w m l s' Hm Hw Hwf H.
  apply (steps_inv l (build w m) s' Hwf (build_inv w m Hm Hw) H).
Qed.

(** The exact float product used by [run] is one of the oracle values the theorem covers;
    and it never exceeds the window it reduces (sanity of the oracle instantiation). *)
Lemma f32_half_small w : 0 <= w < 2 ^ 24 -> f32_half w = w / 2.
Proof.
  intro H. unfold f32_half, round_f32. destruct (w <? 2 ^ 24) eqn:E; [reflexivity|lia].
Qed.
