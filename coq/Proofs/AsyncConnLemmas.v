(** C18 — simplification lemmas for Model/AsyncConn.v: small maps, what every wake primitive does
    to every field of the state (as a normal form built from the setters), and the tactic [sim]. *)
From QV Require Import Lib.Tac Model.AsyncConn Proofs.AsyncConnInv.
From Coq Require Import Arith.

(** * Small maps *)
Lemma upd_same : forall A (f : nat -> A) k v, upd f k v k = v.
Proof. intros A f k v; unfold upd; now rewrite Nat.eqb_refl. Qed.
Lemma upd_other : forall A (f : nat -> A) k v x, x <> k -> upd f k v x = f x.
Proof. intros A f k v x Hne; unfold upd; apply Nat.eqb_neq in Hne; now rewrite Hne. Qed.
Lemma updb_same : forall A (f : bool -> A) k v, updb f k v k = v.
Proof. intros A f k v; unfold updb; now rewrite Bool.eqb_reflx. Qed.
Lemma updb_other : forall A (f : bool -> A) k v x, x <> k -> updb f k v x = f x.
Proof. intros A f k v x Hne; unfold updb; destruct (Bool.eqb x k) eqn:E; [apply Bool.eqb_prop in E; contradiction|reflexivity]. Qed.

Lemma aget_arem : forall m k k', aget (arem m k) k' = if Nat.eqb k k' then None else aget m k'.
Proof.
  induction m as [|[a v] m IH]; intros k k'; cbn [arem aget].
  - now destruct (Nat.eqb k k').
  - destruct (Nat.eqb a k) eqn:Eak.
    + apply Nat.eqb_eq in Eak; subst a. rewrite IH. destruct (Nat.eqb k k'); reflexivity.
    + cbn [aget]. rewrite IH. destruct (Nat.eqb a k') eqn:Eak'; [|reflexivity].
      apply Nat.eqb_eq in Eak'; subst a. rewrite Nat.eqb_sym in Eak. now rewrite Eak.
Qed.
Lemma aget_aset : forall m k v k', aget (aset m k v) k' = if Nat.eqb k k' then Some v else aget m k'.
Proof.
  intros m k v k'; unfold aset; cbn [aget]. rewrite aget_arem. now destruct (Nat.eqb k k').
Qed.
Lemma aget_aval : forall m k t, aget m k = Some t -> aval m t = true.
Proof.
  induction m as [|[a v] m IH]; intros k t Hg; cbn [aget aval] in *; [discriminate|].
  destruct (Nat.eqb a k).
  - injection Hg as ->. now rewrite Nat.eqb_refl.
  - rewrite (IH _ _ Hg). apply orb_true_r.
Qed.
Lemma arem_none : forall m k, aget m k = None -> arem m k = m.
Proof.
  induction m as [|[a v] m IH]; intros k Hg; cbn [aget arem] in *; [reflexivity|].
  destruct (Nat.eqb a k); [discriminate|]. now rewrite IH.
Qed.

Lemma memb_rem_none : forall l k, memb l k = false -> rem_key l k = l.
Proof.
  induction l as [|a l IH]; intros k Hm; [reflexivity|].
  unfold memb in Hm; cbn [existsb] in Hm. apply orb_false_iff in Hm as [Hka Hm].
  unfold rem_key; cbn [filter]. rewrite Nat.eqb_sym in Hka. rewrite Hka. cbn [negb].
  f_equal. apply IH, Hm.
Qed.
Lemma memb_rem_key : forall l k k', memb (rem_key l k) k' = memb l k' && negb (Nat.eqb k' k).
Proof.
  induction l as [|a l IH]; intros k k'; [reflexivity|].
  unfold rem_key; cbn [filter]. destruct (Nat.eqb a k) eqn:Eak; cbn [negb].
  - fold (rem_key l k). rewrite IH. unfold memb at 2; cbn [existsb]. fold (memb l k').
    apply Nat.eqb_eq in Eak; subst a. destruct (Nat.eqb k' k); cbn [negb orb]; [now rewrite !andb_false_r|reflexivity].
  - unfold memb at 1; cbn [existsb]. fold (rem_key l k). fold (memb (rem_key l k) k'). rewrite IH.
    unfold memb at 2; cbn [existsb]. fold (memb l k').
    destruct (Nat.eqb k' a) eqn:Eka; cbn [orb]; [|reflexivity].
    apply Nat.eqb_eq in Eka; subst a. rewrite Eak. reflexivity.
Qed.
Lemma memb_cons : forall l a k, memb (a :: l) k = Nat.eqb k a || memb l k.
Proof. reflexivity. Qed.

Lemma notify_eqb_refl : forall n, notify_eqb n n = true.
Proof. destruct n; cbn [notify_eqb]; auto using Bool.eqb_reflx, Nat.eqb_refl. Qed.
Lemma notify_eqb_eq : forall a b, notify_eqb a b = true <-> a = b.
Proof.
  intros a b; split; [|intros ->; apply notify_eqb_refl].
  destruct a, b; cbn [notify_eqb]; intros H; try discriminate; try reflexivity;
    try (apply Bool.eqb_prop in H; now subst); apply Nat.eqb_eq in H; now subst.
Qed.
Lemma notify_eqb_neq : forall a b, a <> b -> notify_eqb a b = false.
Proof. intros a b Hne; destruct (notify_eqb a b) eqn:E; [apply notify_eqb_eq in E; contradiction|reflexivity]. Qed.

(** whom [wake_stream] wakes *)
Definition woke (o : option nat) (t : nat) : bool :=
  match o with Some t0 => Nat.eqb t0 t | None => false end.

(** * Projections of setters reduce by [cbn] *)
Ltac cbn_st :=
  cbn [connected hsconf err budget incoming seen rx rx_end wcredit w_end stop_done dq dspace
       arrived delivered discarded d_arrived d_delivered br bw nwait skeys pend runnable rborrow
       wborrow recv_h send_h all_read refcnt nhandles inner_closed drained driver_alive drv_waker
       drv_runnable drv_work ep_entry
       set_proto set_connected set_hsconf set_err set_budget set_incoming set_seen set_rx
       set_rx_end set_wcredit set_w_end set_stop_done set_dq set_dspace
       set_ghost set_arrived set_delivered set_discarded set_d_arrived set_d_delivered
       set_reg set_br set_bw set_nwait set_skeys
       set_tasks set_pend set_runnable set_rborrow set_wborrow
       set_h set_recv_h set_send_h set_all_read set_refs set_inner_closed set_drained set_drv
       notify_of].
Ltac cbn_st_in H :=
  cbn [connected hsconf err budget incoming seen rx rx_end wcredit w_end stop_done dq dspace
       arrived delivered discarded d_arrived d_delivered br bw nwait skeys pend runnable rborrow
       wborrow recv_h send_h all_read refcnt nhandles inner_closed drained driver_alive drv_waker
       drv_runnable drv_work ep_entry
       set_proto set_connected set_hsconf set_err set_budget set_incoming set_seen set_rx
       set_rx_end set_wcredit set_w_end set_stop_done set_dq set_dspace
       set_ghost set_arrived set_delivered set_discarded set_d_arrived set_d_delivered
       set_reg set_br set_bw set_nwait set_skeys
       set_tasks set_pend set_runnable set_rborrow set_wborrow
       set_h set_recv_h set_send_h set_all_read set_refs set_inner_closed set_drained set_drv
       notify_of] in H.
Ltac cbn_st_all :=
  cbn [connected hsconf err budget incoming seen rx rx_end wcredit w_end stop_done dq dspace
       arrived delivered discarded d_arrived d_delivered br bw nwait skeys pend runnable rborrow
       wborrow recv_h send_h all_read refcnt nhandles inner_closed drained driver_alive drv_waker
       drv_runnable drv_work ep_entry
       set_proto set_connected set_hsconf set_err set_budget set_incoming set_seen set_rx
       set_rx_end set_wcredit set_w_end set_stop_done set_dq set_dspace
       set_ghost set_arrived set_delivered set_discarded set_d_arrived set_d_delivered
       set_reg set_br set_bw set_nwait set_skeys
       set_tasks set_pend set_runnable set_rborrow set_wborrow
       set_h set_recv_h set_send_h set_all_read set_refs set_inner_closed set_drained set_drv
       notify_of] in *.

(** * Normal forms of the wake primitives: which fields change, and to what *)
Lemma wake_task_nf : forall s t,
  wake_task s t = set_tasks s (pend s) (upd (runnable s) t true) (rborrow s) (wborrow s).
Proof. reflexivity. Qed.

Definition wake_run (r : nat -> bool) (o : option nat) : nat -> bool :=
  match o with Some t0 => upd r t0 true | None => r end.
Lemma wake_run_eq : forall r o t, wake_run r o t = r t || woke o t.
Proof.
  intros r o t; unfold wake_run, woke, upd; destruct o as [t0|]; [|now rewrite orb_false_r].
  rewrite Nat.eqb_sym. destruct (Nat.eqb t0 t); [now rewrite orb_true_r|now rewrite orb_false_r].
Qed.

Lemma wake_reader_nf : forall s k,
  wake_reader s k =
  set_reg (set_tasks s (pend s) (wake_run (runnable s) (aget (br s) k)) (rborrow s) (wborrow s))
          (arem (br s) k) (bw s) (nwait s) (skeys s).
Proof.
  intros s k; unfold wake_reader, wake_task, wake_run. destruct (aget (br s) k) eqn:E.
  - reflexivity.
  - rewrite (arem_none _ _ E). now destruct s.
Qed.
Lemma wake_writer_nf : forall s k,
  wake_writer s k =
  set_reg (set_tasks s (pend s) (wake_run (runnable s) (aget (bw s) k)) (rborrow s) (wborrow s))
          (br s) (arem (bw s) k) (nwait s) (skeys s).
Proof.
  intros s k; unfold wake_writer, wake_task, wake_run. destruct (aget (bw s) k) eqn:E.
  - reflexivity.
  - rewrite (arem_none _ _ E). now destruct s.
Qed.
Lemma wake_all_readers_nf : forall s,
  wake_all_readers s =
  set_reg (set_tasks s (pend s) (fun t => runnable s t || aval (br s) t) (rborrow s) (wborrow s))
          [] (bw s) (nwait s) (skeys s).
Proof. reflexivity. Qed.
Lemma wake_all_writers_nf : forall s,
  wake_all_writers s =
  set_reg (set_tasks s (pend s) (fun t => runnable s t || aval (bw s) t) (rborrow s) (wborrow s))
          (br s) [] (nwait s) (skeys s).
Proof. reflexivity. Qed.
Lemma notify_waiters_nf : forall s n,
  notify_waiters s n =
  set_reg (set_tasks s (pend s) (fun t => runnable s t || nwait s n t) (rborrow s) (wborrow s))
          (br s) (bw s) (fun n' t => if notify_eqb n' n then false else nwait s n' t) (skeys s).
Proof. reflexivity. Qed.
Lemma wake_stopped_nf : forall s k,
  wake_stopped s k =
  set_reg (set_tasks s (pend s)
             (if memb (skeys s) k then fun t => runnable s t || nwait s (NStopped k) t else runnable s)
             (rborrow s) (wborrow s))
          (br s) (bw s)
          (if memb (skeys s) k then fun n' t => if notify_eqb n' (NStopped k) then false else nwait s n' t
           else nwait s)
          (rem_key (skeys s) k).
Proof.
  intros s k; unfold wake_stopped. destruct (memb (skeys s) k) eqn:E.
  - reflexivity.
  - rewrite (memb_rem_none _ _ E). now destruct s.
Qed.
Lemma wake_all_stopped_nf : forall s,
  wake_all_stopped s =
  set_reg (set_tasks s (pend s)
             (fun t => runnable s t || existsb (fun k => nwait s (NStopped k) t) (skeys s))
             (rborrow s) (wborrow s))
          (br s) (bw s)
          (fun n t => match n with
                      | NStopped k => if memb (skeys s) k then false else nwait s n t
                      | _ => nwait s n t
                      end)
          [].
Proof. reflexivity. Qed.
Lemma wake_driver_nf : forall s,
  wake_driver s = set_drv s (driver_alive s) false (drv_waker s || drv_runnable s) (drv_work s).
Proof.
  intros s; unfold wake_driver. destruct (drv_waker s) eqn:E; [reflexivity|].
  destruct s; cbn in *; now subst.
Qed.
Lemma need_driver_nf : forall s,
  need_driver s = set_drv s (driver_alive s) false (drv_waker s || drv_runnable s) true.
Proof. intros s; unfold need_driver; rewrite wake_driver_nf; reflexivity. Qed.
Lemma add_ref_nf : forall s, add_ref s = set_refs s (refcnt s + 1)%Z (nhandles s + 1)%Z.
Proof. reflexivity. Qed.

(** [terminate]: the error is set, the three maps are emptied; who is woken and which [Notified]s
    remain is characterised pointwise *)
(* sealed (opaque) so that no conversion check ever unfolds [terminate] on an open term *)
Lemma term_sig : { f : (st -> nat -> bool) * (st -> notify -> nat -> bool) |
                   forall s, fst f s = runnable (terminate s 0%Z) /\ snd f s = nwait (terminate s 0%Z) }.
Proof. exists (fun s => runnable (terminate s 0%Z), fun s => nwait (terminate s 0%Z)). intros s; split; reflexivity. Qed.
Definition term_runnable : st -> nat -> bool := fst (proj1_sig term_sig).
Definition term_nwait : st -> notify -> nat -> bool := snd (proj1_sig term_sig).
Lemma term_runnable_def : forall s, term_runnable s = runnable (terminate s 0%Z).
Proof. intros s; exact (proj1 (proj2_sig term_sig s)). Qed.
Lemma term_nwait_def : forall s, term_nwait s = nwait (terminate s 0%Z).
Proof. intros s; exact (proj2 (proj2_sig term_sig s)). Qed.
Lemma terminate_nf : forall s c,
  terminate s c =
  set_reg (set_tasks (set_err s (Some c)) (pend s) (term_runnable s) (rborrow s) (wborrow s))
          [] [] (term_nwait s) [].
Proof. intros s c; rewrite term_runnable_def, term_nwait_def; destruct s; vm_compute; reflexivity. Qed.
Lemma term_runnable_eq : forall s t,
  term_runnable s t =
  runnable s t || aval (bw s) t || aval (br s) t
  || nwait s (NBudget false) t || nwait s (NBudget true) t
  || nwait s (NIncoming false) t || nwait s (NIncoming true) t
  || nwait s NDgramRecv t || nwait s NDgramUnblk t || nwait s NHsConf t
  || existsb (fun k => nwait s (NStopped k) t) (skeys s)
  || nwait s NClosed t || nwait s NConnected t.
Proof. intros s t; rewrite term_runnable_def; destruct s; vm_compute; reflexivity. Qed.
Lemma term_nwait_eq : forall s n t,
  term_nwait s n t =
  match n with NStopped k => if memb (skeys s) k then false else nwait s n t | _ => false end.
Proof.
  intros s n t; rewrite term_nwait_def; destruct s; destruct n as [| |[|]|[|]| | | |k]; vm_compute; reflexivity.
Qed.
Lemma close_conn_nf : forall s,
  close_conn s = need_driver (terminate (set_inner_closed s true) LOCALLY_CLOSED).
Proof. reflexivity. Qed.

(** * The tactic: rewrite every primitive to its normal form, reduce projections *)
Ltac sim_rw :=
  first [ rewrite close_conn_nf in * | rewrite need_driver_nf in * | rewrite wake_driver_nf in *
        | rewrite terminate_nf in * | rewrite wake_task_nf in * | rewrite wake_reader_nf in *
        | rewrite wake_writer_nf in * | rewrite wake_all_readers_nf in *
        | rewrite wake_all_writers_nf in * | rewrite notify_waiters_nf in *
        | rewrite wake_stopped_nf in * | rewrite wake_all_stopped_nf in * | rewrite add_ref_nf in * ].
Ltac sim := unfold closed in *; repeat sim_rw; cbn_st_all.

Ltac eqb_cases :=
  repeat match goal with
         | |- context [Nat.eqb ?a ?b] => destruct (Nat.eqb_spec a b); try subst
         | H : context [Nat.eqb ?a ?b] |- _ => destruct (Nat.eqb_spec a b); try subst
         | |- context [Bool.eqb ?a ?b] => destruct a, b; cbn [Bool.eqb] in *
         | H : context [Bool.eqb ?a ?b] |- _ => destruct a, b; cbn [Bool.eqb] in *
         end.
