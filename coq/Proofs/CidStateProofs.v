(** Proofs about Model/CidState.v (C03: local connection-ID bookkeeping driven by peer-chosen
    RETIRE_CONNECTION_ID sequence numbers never panics, [active_seq] stays a subset of the issued
    sequence numbers, un-issued retirements are rejected with PROTOCOL_VIOLATION, and the boundary
    [sequence == issued] that the guard lets through (DESIGN F11) provably changes nothing). *)
From QV Require Import Lib.Tac Lib.Corr Model.CidState.
Import CidState.
Open Scope Z_scope.

(** strictly ascending, all elements in [lo, hi) *)
Fixpoint asc_in (lo hi : Z) (l : list Z) : Prop :=
  match l with
  | [] => True
  | x :: r => lo <= x < hi /\ asc_in (x + 1) hi r
  end.

Lemma asc_in_weaken : forall l lo hi lo' hi',
  asc_in lo hi l -> lo' <= lo -> hi <= hi' -> asc_in lo' hi' l.
Proof.
  induction l as [|x l IH]; intros lo hi lo' hi' H Hl Hh; cbn [asc_in] in *; [exact I|].
  destruct H as [H1 H2]. split; [lia|]. eapply IH; [exact H2|lia|lia].
Qed.

Lemma asc_in_length : forall l lo hi, asc_in lo hi l -> lo <= hi -> Z.of_nat (length l) <= hi - lo.
Proof.
  induction l as [|x l IH]; intros lo hi H Hle; cbn [asc_in length] in *; [lia|].
  destruct H as [H1 H2]. specialize (IH (x + 1) hi H2). lia.
Qed.

Lemma asc_in_In : forall l lo hi x, asc_in lo hi l -> In x l -> lo <= x < hi.
Proof.
  induction l as [|y l IH]; intros lo hi x H Hin; cbn [asc_in In] in *; [contradiction|].
  destruct H as [H1 H2]. destruct Hin as [->|Hin]; [exact H1|].
  specialize (IH _ _ _ H2 Hin). lia.
Qed.

Lemma set_add_asc : forall l lo hi x,
  asc_in lo hi l -> lo <= x < hi -> asc_in lo hi (set_add x l).
Proof.
  induction l as [|y l IH]; intros lo hi x H Hx; cbn [set_add asc_in] in *.
  - split; [exact Hx|exact I].
  - destruct H as [H1 H2]. destruct (x <? y) eqn:E1.
    + cbn [asc_in]. split; [exact Hx|]. split; [lia|exact H2].
    + destruct (x =? y) eqn:E2; cbn [asc_in].
      * split; assumption.
      * split; [exact H1|]. apply IH; [exact H2|lia].
Qed.

Lemma set_add_In : forall l x y, In y (set_add x l) <-> y = x \/ In y l.
Proof.
  induction l as [|z l IH]; intros x y; cbn [set_add In].
  - split; intros [H|H]; auto; contradiction.
  - destruct (x <? z) eqn:E1; [cbn [In]; split; intros [H|H]; auto|].
    destruct (x =? z) eqn:E2.
    + apply Z.eqb_eq in E2. subst. cbn [In]. split; intros H; auto.
      destruct H as [H|H]; auto.
    + cbn [In]. rewrite IH. split; intros H; tauto.
Qed.

Lemma set_remove_asc : forall l lo hi x, asc_in lo hi l -> asc_in lo hi (set_remove x l).
Proof.
  induction l as [|y l IH]; intros lo hi x H; cbn [set_remove asc_in] in *; [exact I|].
  destruct H as [H1 H2]. destruct (x =? y).
  - eapply asc_in_weaken; [exact H2|lia|lia].
  - cbn [asc_in]. split; [exact H1|]. apply IH. exact H2.
Qed.

Lemma set_remove_not_in : forall l lo hi x, asc_in lo hi l -> ~ In x (set_remove x l).
Proof.
  induction l as [|y l IH]; intros lo hi x H; cbn [set_remove asc_in] in *; [intros []|].
  destruct H as [H1 H2]. destruct (x =? y) eqn:E.
  - apply Z.eqb_eq in E. subst. intros Hin. pose proof (asc_in_In _ _ _ _ H2 Hin). lia.
  - cbn [In]. intros [Hc|Hc]; [apply Z.eqb_neq in E; congruence|].
    exact (IH _ _ _ H2 Hc).
Qed.

Lemma set_remove_absent : forall l x, ~ In x l -> set_remove x l = l.
Proof.
  induction l as [|y l IH]; intros x H; cbn [set_remove]; [reflexivity|].
  destruct (x =? y) eqn:E.
  - apply Z.eqb_eq in E. subst. exfalso. apply H. left. reflexivity.
  - f_equal. apply IH. intros Hc. apply H. right. exact Hc.
Qed.

Lemma set_remove_subset : forall l x y, In y (set_remove x l) -> In y l.
Proof.
  induction l as [|z l IH]; intros x y H; cbn [set_remove] in H; [contradiction|].
  destruct (x =? z); [right; exact H|].
  destruct H as [H|H]; [left; exact H|right; eapply IH; exact H].
Qed.

Lemma seqs_asc : forall n from, asc_in from (from + Z.of_nat n) (seqs from n).
Proof.
  induction n as [|n IH]; intros from; cbn [seqs asc_in]; [exact I|].
  split; [lia|]. replace (from + Z.of_nat (S n)) with (from + 1 + Z.of_nat n) by lia. apply IH.
Qed.

Lemma fold_add_asc : forall n from a hi,
  asc_in 0 hi a -> 0 <= from -> from + Z.of_nat n <= hi ->
  asc_in 0 hi (fold_left (fun a x => set_add x a) (seqs from n) a).
Proof.
  induction n as [|n IH]; intros from a hi Ha H0 Hh; cbn [seqs fold_left]; [exact Ha|].
  apply IH; [apply set_add_asc; [exact Ha|lia]|lia|lia].
Qed.

(** * The invariant *)
Definition ts_ok (hi : Z) (q : list (Z * Z)) : Prop := Forall (fun p => 0 <= fst p < hi) q.

Record Inv (s : t) : Prop := {
  inv_issued : 0 <= issued s;
  inv_active : asc_in 0 (issued s) (active s);
  inv_ts : ts_ok (issued s) (ts s);
  inv_retire : 0 <= prev s <= issued s /\ 0 <= rseq s <= issued s
}.

Lemma ts_ok_weaken hi hi' q : ts_ok hi q -> hi <= hi' -> ts_ok hi' q.
Proof.
  unfold ts_ok. intros H Hle. eapply Forall_impl; [|exact H]. cbn. intros p Hp. lia.
Qed.

Lemma last_in : forall (q : list (Z * Z)) d, q <> [] -> In (last q d) q.
Proof.
  induction q as [|x q IH]; intros d H; [congruence|]. cbn [last].
  destruct q as [|y q]; [left; reflexivity|]. right. apply IH. discriminate.
Qed.

Lemma set_last_ok : forall q v hi, ts_ok hi q -> 0 <= fst v < hi -> ts_ok hi (set_last q v).
Proof.
  induction q as [|x q IH]; intros v hi H Hv; cbn [set_last]; [constructor|].
  inversion H as [|? ? Hx Hq]; subst. destruct q as [|y q].
  - constructor; [exact Hv|constructor].
  - constructor; [exact Hx|]. apply IH; assumption.
Qed.

(** [track_lifetime] cannot hit its debug assertion when the new sequence number is above all
    recorded ones. *)
Lemma track_ok lt q seq now :
  ts_ok seq q -> 0 <= seq ->
  exists q', track lt q seq now = Some q' /\ ts_ok (seq + 1) q'.
Proof.
  intros Hq Hs. unfold track. destruct lt as [d|].
  - destruct (last q (-1, -1)) as [lseq lts] eqn:El.
    destruct (negb (length q =? 0)%nat && (lts =? now + d)) eqn:Ec.
    + assert (Hne : q <> []).
      { destruct q; [cbn in Ec; discriminate|discriminate]. }
      pose proof (last_in q (-1, -1) Hne) as Hin. rewrite El in Hin.
      pose proof Hq as Hq0.
      unfold ts_ok in Hq0. rewrite Forall_forall in Hq0. specialize (Hq0 _ Hin). cbn [fst] in Hq0.
      destruct (lseq <? seq) eqn:E; [|lia].
      eexists. split; [reflexivity|].
      apply set_last_ok; [|cbn [fst]; lia].
      eapply ts_ok_weaken; [exact Hq|lia].
    + eexists. split; [reflexivity|]. unfold ts_ok. apply Forall_app. split.
      * eapply ts_ok_weaken; [exact Hq|lia].
      * constructor; [cbn [fst]; lia|constructor].
  - eexists. split; [reflexivity|]. eapply ts_ok_weaken; [exact Hq|lia].
Qed.

Lemma track_all_ok lt now : forall n from q,
  ts_ok from q -> 0 <= from ->
  exists q', track_all lt q (seqs from n) now = Some q' /\ ts_ok (from + Z.of_nat n) q'.
Proof.
  induction n as [|n IH]; intros from q Hq H0; cbn [seqs track_all].
  - eexists. split; [reflexivity|]. eapply ts_ok_weaken; [exact Hq|lia].
  - destruct (track_ok lt q from now Hq H0) as (q1 & H1 & Hq1). rewrite H1.
    destruct (IH (from + 1) q1 Hq1) as (q2 & H2 & Hq2); [lia|].
    exists q2. split; [exact H2|]. eapply ts_ok_weaken; [exact Hq2|lia].
Qed.

Lemma new_inv cl lt now iss :
  0 <= iss -> exists s, new cl lt now iss = Some s /\ Inv s /\ issued s = iss.
Proof.
  intros H0. unfold new.
  destruct (track_all_ok lt now (Z.to_nat iss) 0 []) as (q & Hq & Hok); [constructor|lia|].
  rewrite Hq. eexists. split; [reflexivity|]. split; [|reflexivity].
  constructor; cbn [issued active ts prev rseq].
  - exact H0.
  - pose proof (seqs_asc (Z.to_nat iss) 0) as H. rewrite Z2Nat.id in H by lia. exact H.
  - rewrite Z2Nat.id in Hok by lia. exact Hok.
  - lia.
Qed.

Lemma new_cids_inv s n now :
  Inv s -> exists s', new_cids s n now = Some s' /\ Inv s' /\
                      issued s' = issued s + Z.max 0 n /\
                      (forall x, In x (active s) -> In x (active s')).
Proof.
  intros [H0 Ha Ht Hr]. unfold new_cids. destruct (n <=? 0) eqn:En.
  - exists s. split; [reflexivity|]. split; [constructor; assumption|]. split; [lia|auto].
  - destruct (track_ok (lifetime s) (ts s) (issued s + n - 1) now) as (q & Hq & Hok).
    { eapply ts_ok_weaken; [exact Ht|lia]. } { lia. }
    rewrite Hq. eexists. split; [reflexivity|]. split; [|split].
    + constructor; cbn [issued active ts prev rseq].
      * lia.
      * apply fold_add_asc; [|lia|rewrite Z2Nat.id; lia].
        eapply asc_in_weaken; [exact Ha|lia|lia].
      * eapply ts_ok_weaken; [exact Hok|lia].
      * lia.
    + cbn [issued]. lia.
    + cbn [active]. intros x Hx. clear - Hx.
      revert Hx. generalize (active s) as a. generalize (issued s) as from.
      induction (Z.to_nat n) as [|k IH]; intros from a Hx; cbn [seqs fold_left]; [exact Hx|].
      apply IH. apply set_add_In. right. exact Hx.
Qed.

Lemma retire_inv s seq limit : Inv s -> Inv (fst (on_cid_retirement s seq limit)).
Proof.
  intros [H0 Ha Ht Hr]. unfold on_cid_retirement.
  destruct (cid_len s =? 0); [constructor; assumption|].
  destruct (issued s <? seq); [constructor; assumption|].
  cbn [fst]. constructor; cbn [issued active ts prev rseq]; try assumption.
  apply set_remove_asc. exact Ha.
Qed.

Lemma timeout_inv s : Inv s -> Inv (fst (on_cid_timeout s)).
Proof.
  intros [H0 Ha Ht Hr]. unfold on_cid_timeout. cbn [fst].
  constructor; cbn [issued active ts prev rseq]; try assumption.
  - destruct (ts s) as [|[q e] r]; [constructor|]. inversion Ht; subst. assumption.
  - destruct (any_in (prev s) (rseq s) (active s)); [lia|].
    destruct (ts s) as [|[q e] r]; [lia|].
    inversion Ht as [|? ? Hq _]; subst. cbn [fst] in Hq.
    lia.
Qed.

(** ops acceptable to the theorems: [new] is called with a non-negative count *)
Definition wf_op (o : op) : Prop :=
  match o with New _ _ _ iss => 0 <= iss | _ => True end.

Lemma step_inv s o : Inv s -> wf_op o -> exists s' out, step s o = Some (s', out) /\ Inv s'.
Proof.
  intros HI Hwf. destruct o as [cl lt now iss|n now|seq limit| |]; cbn [step].
  - destruct (new_inv cl lt now iss Hwf) as (s' & Hs & HI' & _). rewrite Hs.
    eexists _, _. split; [reflexivity|exact HI'].
  - destruct (new_cids_inv s n now HI) as (s' & Hs & HI' & _). rewrite Hs.
    eexists _, _. split; [reflexivity|exact HI'].
  - pose proof (retire_inv s seq limit HI) as HI'.
    destruct (on_cid_retirement s seq limit) as [s' [b|c]]; eexists _, _;
      (split; [reflexivity|exact HI']).
  - pose proof (timeout_inv s HI) as HI'. destruct (on_cid_timeout s) as [s' b].
    eexists _, _. split; [reflexivity|exact HI'].
  - eexists _, _. split; [reflexivity|exact HI].
Qed.

Fixpoint exec (s : t) (os : list op) : option t :=
  match os with
  | [] => Some s
  | o :: r => match step s o with Some (s', _) => exec s' r | None => None end
  end.

Lemma init_inv : Inv init.
Proof.
  constructor; cbn [init issued active ts prev rseq asc_in].
  - lia.
  - split; [lia|exact I].
  - constructor.
  - lia.
Qed.

Lemma exec_inv : forall os s, Inv s -> Forall wf_op os ->
  exists s', exec s os = Some s' /\ Inv s' /\
             exists outs, run_ops s os = Some outs /\ length outs = length os.
Proof.
  induction os as [|o os IH]; intros s HI Hwf.
  - exists s. split; [reflexivity|]. split; [exact HI|]. exists []. split; reflexivity.
  - inversion Hwf as [|? ? Ho Hos]; subst.
    destruct (step_inv s o HI Ho) as (s1 & out & Hs & HI1).
    destruct (IH s1 HI1 Hos) as (s' & He & HI' & outs & Hr & Hl).
    exists s'. cbn [exec run_ops]. rewrite Hs, Hr. split; [exact He|]. split; [exact HI'|].
    eexists. split; [reflexivity|]. cbn [length]. lia.
Qed.

(** Consequences of the invariant: [active_seq] is a subset of the issued sequence numbers and
    has at most [issued] elements. *)
Lemma inv_active_subset s : Inv s ->
  (forall x, In x (active s) -> 0 <= x < issued s) /\ Z.of_nat (length (active s)) <= issued s.
Proof.
  intros [H0 Ha _ _]. split.
  - intros x Hx. eapply asc_in_In; eassumption.
  - pose proof (asc_in_length _ _ _ Ha H0). lia.
Qed.

(** RETIRE_CONNECTION_ID for a sequence number above [issued] is rejected with
    PROTOCOL_VIOLATION and changes nothing. *)
Lemma retire_unissued_rejected s seq limit :
  issued s < seq -> on_cid_retirement s seq limit = (s, inr PROTOCOL_VIOLATION).
Proof.
  intros H. unfold on_cid_retirement. destruct (cid_len s =? 0); [reflexivity|].
  destruct (issued s <? seq) eqn:E; [reflexivity|lia].
Qed.

(** F11: the guard is [sequence > issued], so [sequence == issued] — a CID that was never
    issued — is let through.  Under the invariant this is a no-op on the whole state: the
    sequence number is not in [active_seq], nothing is removed, no counter moves. *)
Lemma retire_at_issued_is_noop s limit :
  Inv s -> cid_len s <> 0 ->
  exists b, on_cid_retirement s (issued s) limit = (s, inl b)
            /\ b = (Z.of_nat (length (active s)) <? limit).
Proof.
  intros HI Hc. unfold on_cid_retirement.
  destruct (cid_len s =? 0) eqn:E0; [apply Z.eqb_eq in E0; contradiction|].
  destruct (issued s <? issued s) eqn:E1; [lia|].
  assert (Hni : ~ In (issued s) (active s)).
  { intros Hin. destruct (inv_active_subset s HI) as [Hs _]. specialize (Hs _ Hin). lia. }
  rewrite (set_remove_absent _ _ Hni). eexists. split; [|reflexivity].
  destruct s; reflexivity.
Qed.

(** An accepted retirement removes exactly that sequence number. *)
Lemma retire_accepted s seq limit s' b :
  Inv s -> on_cid_retirement s seq limit = (s', inl b) ->
  seq <= issued s /\ ~ In seq (active s') /\ (forall x, In x (active s') -> In x (active s)) /\
  issued s' = issued s /\ (b = true <-> Z.of_nat (length (active s')) < limit).
Proof.
  intros HI. unfold on_cid_retirement.
  destruct (cid_len s =? 0); [discriminate|].
  destruct (issued s <? seq) eqn:E; [discriminate|].
  intros H. inversion H; subst; clear H. cbn [active issued].
  split; [lia|]. split; [eapply set_remove_not_in; exact (inv_active _ HI)|].
  split; [intros x; apply set_remove_subset|]. split; [reflexivity|].
  rewrite Z.ltb_lt. reflexivity.
Qed.

Lemma cidstate_safe_lemma : forall os,
  Forall wf_op os ->
  exists s outs, exec init os = Some s /\ run_ops init os = Some outs /\
    length outs = length os /\
    (forall x, In x (active s) -> 0 <= x < issued s) /\
    Z.of_nat (length (active s)) <= issued s /\
    0 <= prev s <= issued s /\ 0 <= rseq s <= issued s.
Proof.
  intros os Hwf. destruct (exec_inv os init init_inv Hwf) as (s & He & HI & outs & Hr & Hl).
  exists s, outs. destruct (inv_active_subset s HI) as [H1 H2].
  pose proof (inv_retire _ HI) as H3.
  split; [exact He|]. split; [exact Hr|]. split; [exact Hl|]. split; [exact H1|].
  split; [exact H2|exact H3].
Qed.
