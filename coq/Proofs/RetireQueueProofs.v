(** Proofs about Model/RetireQueue.v (C03: is the queue of pending RETIRE_CONNECTION_ID frames
    bounded for every sequence of NEW_CONNECTION_ID frames?).

    Result: NO for the code as found ([fixed = false]).  The [Ok(Some(retired))] path is bounded by
    [MAX_PENDING_RETIRED_CIDS = 10 * LEN], but the [Err(InsertError::Retired)] path pushes one
    entry per frame without any check, so a peer that keeps re-sending NEW_CONNECTION_ID frames
    for an already retired sequence number grows the queue by one entry per frame for as long as
    the local endpoint is not sending.  Proved: the refutation (for every n), the bound
    [10 * LEN + 4 + (number of frames answered on the Retired path)] for the code as found, and
    the unconditional bound [10 * LEN + 4] for the repaired arm ([fixed = true]). *)
From QV Require Import Lib.Tac Lib.Corr Model.CidQueue Model.RetireQueue Proofs.CidQueueProofs.
Import RetireQueue.
Open Scope Z_scope.

(** ** Refutation: unbounded growth through the Retired path *)
Fixpoint stale_frames (n : nat) : list op :=
  match n with O => [] | S k => Frame 0 0 7 :: stale_frames k end.

Lemma stale_frames_grow : forall n s,
  0 < CidQueue.offset (q s) ->
  exists s', run false 5 true false s (stale_frames n) = Continue s' /\
             pending s' = pending s + Z.of_nat n /\ q s' = q s.
Proof.
  induction n as [|n IH]; intros s Hoff; cbn [stale_frames run].
  - exists s. split; [reflexivity|]. split; [lia|reflexivity].
  - unfold new_connection_id. cbn [negb andb]. cbn [Z.ltb Z.compare].
    unfold CidQueue.insert. destruct (0 <? CidQueue.offset (q s)) eqn:E; [|lia].
    destruct (IH (mk (q s) (pending s + 1) (retired_hits s + 1))) as (s' & Hr & Hp & Hq);
      [exact Hoff|].
    exists s'. split; [exact Hr|]. cbn [pending q] in *. split; [lia|exact Hq].
Qed.

(** For every bound [n] there is a sequence of well-formed frames ([retire_prior_to <= sequence],
    CIDs in use) that the arm accepts without closing the connection and after which more than
    [n] RETIRE_CONNECTION_ID frames are queued. *)
Lemma retire_queue_unbounded : forall n : nat,
  exists os s', run false 5 true false (init 5 0) os = Continue s' /\ Z.of_nat n < pending s'.
Proof.
  intros n.
  assert (H1 : exists s1, new_connection_id false 5 true false (init 5 0) 1 1 1 = Continue s1 /\
                          0 < CidQueue.offset (q s1) /\ pending s1 = 1).
  { eexists. vm_compute. repeat split; reflexivity. }
  destruct H1 as (s1 & Hs1 & Hoff & Hp).
  destruct (stale_frames_grow n s1 Hoff) as (s' & Hr & Hp' & _).
  exists (Frame 1 1 1 :: stale_frames n), s'. cbn [run]. rewrite Hs1. split; [exact Hr|lia].
Qed.

(** ** What IS bounded *)
Definition bound (s : t) : Z :=
  max_pending 5 + retired_hits s + (if CidQueue.offset (q s) =? 0 then 0 else 4).

Record RInv (s : t) : Prop := {
  r_q : exists acc, Inv (q s) acc;
  r_p : 0 <= pending s <= bound s;
  r_h : 0 <= retired_hits s
}.

Lemma frame_inv fx cu sv s seq rpt id :
  RInv s -> 0 <= rpt ->
  match new_connection_id fx 5 cu sv s seq rpt id with
  | Continue s' => RInv s' /\ retired_hits s <= retired_hits s' <= retired_hits s + 1
  | Close c => c = PROTOCOL_VIOLATION \/ c = CONNECTION_ID_LIMIT_ERROR
  | Panic => False
  end.
Proof.
  intros [[acc HI] Hp Hh] Hr. unfold new_connection_id.
  destruct (negb cu); [left; reflexivity|].
  destruct (seq <? rpt) eqn:E; [left; reflexivity|].
  destruct (insert_inv (q s) acc seq rpt id HI ltac:(lia)) as (q' & r & Hins & Hpost).
  rewrite Hins. unfold bound in *.
  destruct r as [|lo hi tk| |]; cbn [insert_post] in Hpost.
  - (* Ok(None) *)
    destruct Hpost as (HI' & Ho & _).
    destruct (sv && (CidQueue.active_seq q' =? 0)) eqn:Es.
    + destruct (next_inv q' _ HI') as (q'' & rr & Hn & HI'' & Hpn). rewrite Hn.
      apply andb_true_iff in Es. destruct Es as [_ Es]. unfold CidQueue.active_seq in Es.
      destruct rr as [[[tk lo] hi]|].
      * split; [|cbn [retired_hits]; lia].
        constructor; cbn [q pending retired_hits]; [eexists; exact HI''| |lia].
        unfold bound. cbn [q pending retired_hits].
        destruct (CidQueue.offset q'' =? 0) eqn:E2; destruct (CidQueue.offset (q s) =? 0) eqn:E3; lia.
      * subst q''. split; [|cbn [retired_hits]; lia].
        constructor; cbn [q pending retired_hits]; [eexists; exact HI'| |lia].
        unfold bound. cbn [q pending retired_hits]. rewrite Ho. exact Hp.
    + split; [|cbn [retired_hits]; lia].
      constructor; cbn [q pending retired_hits]; [eexists; exact HI'| |lia].
      unfold bound. cbn [q pending retired_hits]. rewrite Ho. exact Hp.
  - (* Ok(Some(retired)) *)
    destruct Hpost as (HI' & Hlo & Hhi & Hle & Hrp).
    destruct (max_pending 5 <? pending s + (hi - lo)) eqn:Em; [right; reflexivity|].
    assert (Hoff' : 0 < CidQueue.offset q') by (pose proof (i_off _ _ HI); lia).
    destruct (sv && (CidQueue.active_seq q' =? 0)) eqn:Es.
    { apply andb_true_iff in Es. destruct Es as [_ Es]. unfold CidQueue.active_seq in Es. lia. }
    split; [|cbn [retired_hits]; lia].
    constructor; cbn [q pending retired_hits]; [eexists; exact HI'| |lia].
    unfold bound. cbn [q pending retired_hits].
    destruct (CidQueue.offset q' =? 0) eqn:E2; [lia|]. lia.
  - (* Err(Retired): unchecked push before the repair *)
    destruct (fx && (max_pending 5 <=? pending s)); [right; reflexivity|].
    split; [|cbn [retired_hits]; lia].
    constructor; cbn [q pending retired_hits]; [eexists; exact HI| |lia].
    unfold bound. cbn [q pending retired_hits].
    destruct (CidQueue.offset (q s) =? 0); clear - Hp Hh; lia.
  - right. reflexivity.
Qed.

Lemma drain_inv s k : RInv s -> RInv (drain s k).
Proof.
  intros [Hq Hp Hh]. constructor; cbn [drain q pending retired_hits]; try assumption.
  unfold bound in *. cbn [drain q pending retired_hits].
  destruct (CidQueue.offset (q s) =? 0); lia.
Qed.

Definition wf_op (o : op) : Prop := match o with Frame _ rpt _ => 0 <= rpt | Drain _ => True end.

Lemma run_inv fx cu sv : forall os s, RInv s -> Forall wf_op os ->
  match run fx 5 cu sv s os with
  | Continue s' => RInv s'
  | Close c => c = PROTOCOL_VIOLATION \/ c = CONNECTION_ID_LIMIT_ERROR
  | Panic => False
  end.
Proof.
  induction os as [|o os IH]; intros s HI Hwf; cbn [run]; [exact HI|].
  inversion Hwf as [|? ? Ho Hos]; subst. destruct o as [seq rpt id|k].
  - pose proof (frame_inv fx cu sv s seq rpt id HI Ho) as H.
    destruct (new_connection_id fx 5 cu sv s seq rpt id) as [s'| |]; [|exact H|exact H].
    destruct H as [HI' _]. apply IH; assumption.
  - apply IH; [apply drain_inv; exact HI|exact Hos].
Qed.

Lemma init_rinv id : RInv (init 5 id).
Proof.
  constructor; cbn [init q pending retired_hits].
  - exists []. apply new_inv.
  - vm_compute. split; discriminate.
  - lia.
Qed.

(** For every frame sequence the arm never panics, closes the connection only with
    PROTOCOL_VIOLATION or CONNECTION_ID_LIMIT_ERROR, and the queue holds at most
    [10 * LEN + 4] entries plus one per frame that was answered on the Retired path. *)
Lemma retire_queue_bound_lemma L : L = 5 -> forall fx cu sv id os,
  Forall wf_op os ->
  match run fx L cu sv (init L id) os with
  | Continue s => 0 <= pending s <= max_pending L + 4 + retired_hits s
  | Close c => c = PROTOCOL_VIOLATION \/ c = CONNECTION_ID_LIMIT_ERROR
  | Panic => False
  end.
Proof.
  intros -> fx cu sv id os Hwf.
  pose proof (run_inv fx cu sv os (init 5 id) (init_rinv id) Hwf) as H.
  destruct (run fx 5 cu sv (init 5 id) os) as [s| |]; try exact H.
  destruct H as [_ Hp Hh]. unfold bound in Hp.
  destruct (CidQueue.offset (q s) =? 0); lia.
Qed.

(** ** After the repair: an unconditional bound *)
Definition fbound (s : t) : Z :=
  max_pending 5 + (if CidQueue.offset (q s) =? 0 then 0 else 4).

Record FInv (s : t) : Prop := {
  f_q : exists acc, Inv (q s) acc;
  f_p : 0 <= pending s <= fbound s
}.

Lemma frame_finv cu sv s seq rpt id :
  FInv s -> 0 <= rpt ->
  match new_connection_id true 5 cu sv s seq rpt id with
  | Continue s' => FInv s'
  | Close c => c = PROTOCOL_VIOLATION \/ c = CONNECTION_ID_LIMIT_ERROR
  | Panic => False
  end.
Proof.
  intros [[acc HI] Hp] Hr. unfold new_connection_id.
  destruct (negb cu); [left; reflexivity|].
  destruct (seq <? rpt) eqn:E; [left; reflexivity|].
  destruct (insert_inv (q s) acc seq rpt id HI ltac:(lia)) as (q' & r & Hins & Hpost).
  rewrite Hins. unfold fbound in *.
  destruct r as [|lo hi tk| |]; cbn [insert_post] in Hpost.
  - destruct Hpost as (HI' & Ho & _).
    destruct (sv && (CidQueue.active_seq q' =? 0)) eqn:Es.
    + destruct (next_inv q' _ HI') as (q'' & rr & Hn & HI'' & Hpn). rewrite Hn.
      apply andb_true_iff in Es. destruct Es as [_ Es]. unfold CidQueue.active_seq in Es.
      destruct rr as [[[tk lo] hi]|].
      * constructor; cbn [q pending]; [eexists; exact HI''|].
        unfold fbound. cbn [q pending].
        destruct (CidQueue.offset q'' =? 0) eqn:E2; destruct (CidQueue.offset (q s) =? 0) eqn:E3;
          lia.
      * subst q''. constructor; cbn [q pending]; [eexists; exact HI'|].
        unfold fbound. cbn [q pending]. rewrite Ho. exact Hp.
    + constructor; cbn [q pending]; [eexists; exact HI'|].
      unfold fbound. cbn [q pending]. rewrite Ho. exact Hp.
  - destruct Hpost as (HI' & Hlo & Hhi & Hle & Hrp).
    destruct (max_pending 5 <? pending s + (hi - lo)) eqn:Em; [right; reflexivity|].
    assert (Hoff' : 0 < CidQueue.offset q') by (pose proof (i_off _ _ HI); lia).
    destruct (sv && (CidQueue.active_seq q' =? 0)) eqn:Es.
    { apply andb_true_iff in Es. destruct Es as [_ Es]. unfold CidQueue.active_seq in Es. lia. }
    constructor; cbn [q pending]; [eexists; exact HI'|].
    unfold fbound. cbn [q pending].
    destruct (CidQueue.offset q' =? 0) eqn:E2; [lia|]. lia.
  - cbn [andb]. destruct (max_pending 5 <=? pending s) eqn:Em; [right; reflexivity|].
    constructor; cbn [q pending]; [eexists; exact HI|].
    unfold fbound. cbn [q pending].
    destruct (CidQueue.offset (q s) =? 0); clear - Hp Em; lia.
  - right. reflexivity.
Qed.

Lemma drain_finv s k : FInv s -> FInv (drain s k).
Proof.
  intros [Hq Hp]. constructor; cbn [drain q pending]; try assumption.
  unfold fbound in *. cbn [drain q pending].
  destruct (CidQueue.offset (q s) =? 0); lia.
Qed.

Lemma run_finv cu sv : forall os s, FInv s -> Forall wf_op os ->
  match run true 5 cu sv s os with
  | Continue s' => FInv s'
  | Close c => c = PROTOCOL_VIOLATION \/ c = CONNECTION_ID_LIMIT_ERROR
  | Panic => False
  end.
Proof.
  induction os as [|o os IH]; intros s HI Hwf; cbn [run]; [exact HI|].
  inversion Hwf as [|? ? Ho Hos]; subst. destruct o as [seq rpt id|k].
  - pose proof (frame_finv cu sv s seq rpt id HI Ho) as H.
    destruct (new_connection_id true 5 cu sv s seq rpt id) as [s'| |]; [|exact H|exact H].
    apply IH; assumption.
  - apply IH; [apply drain_finv; exact HI|exact Hos].
Qed.

(** With the repaired arm: for every frame sequence no panic, only PROTOCOL_VIOLATION or
    CONNECTION_ID_LIMIT_ERROR close the connection, and never more than [10 * LEN + 4]
    RETIRE_CONNECTION_ID frames are queued. *)
Lemma retire_queue_bounded_lemma L : L = 5 -> forall cu sv id os,
  Forall wf_op os ->
  match run true L cu sv (init L id) os with
  | Continue s => 0 <= pending s <= max_pending L + 4
  | Close c => c = PROTOCOL_VIOLATION \/ c = CONNECTION_ID_LIMIT_ERROR
  | Panic => False
  end.
Proof.
  intros -> cu sv id os Hwf.
  assert (H0 : FInv (init 5 id)).
  { constructor; cbn [init q pending]; [exists []; apply new_inv|]. vm_compute.
    split; discriminate. }
  pose proof (run_finv cu sv os (init 5 id) H0 Hwf) as H.
  destruct (run true 5 cu sv (init 5 id) os) as [s| |]; try exact H.
  destruct H as [_ Hp]. unfold fbound in Hp.
  destruct (CidQueue.offset (q s) =? 0); lia.
Qed.
