(** C11: [Finished] is emitted at most once per stream and never for a stream the application
    reset — an invariant of all op sequences of Model/StreamSM.v.
    Ghost fields: [g_fin] = ids for which Finished was emitted (newest first), [g_reset] = ids on
    which [SendStream::reset] succeeded. *)
From QV Require Import Lib.Tac Lib.Corr Model.FlowRecv Model.StreamSpec Model.StreamSM
  Proofs.FlowRecvProofs.
Open Scope Z_scope.

(** ** Stream id arithmetic and association lists *)
Lemma sid_parts i d x : (i = 0 \/ i = 1) -> (d = 0 \/ d = 1) ->
  sid_init (mk_sid i d x) = i /\ sid_dir (mk_sid i d x) = d /\ sid_index (mk_sid i d x) = x.
Proof. unfold sid_init, sid_dir, sid_index, mk_sid. intros [Hi|Hi] [Hd|Hd]; subst; lia. Qed.
Lemma sid_eq a b : sid_init a = sid_init b -> sid_dir a = sid_dir b -> sid_index a = sid_index b -> a = b.
Proof. unfold sid_init, sid_dir, sid_index. lia. Qed.
Lemma sid_dir01 id : sid_dir id = 0 \/ sid_dir id = 1.
Proof. unfold sid_dir. lia. Qed.

Lemma look_aset_same {A} k (v : A) m : alookup k (aset k v m) = Some v.
Proof.
  induction m as [|[k' v'] r IH]; cbn [aset alookup]; [rewrite Z.eqb_refl; reflexivity|].
  destruct (k =? k') eqn:E; cbn [alookup]; rewrite ?Z.eqb_refl, ?E; auto.
Qed.
Lemma look_aset_other {A} k k' (v : A) m : k' <> k -> alookup k' (aset k v m) = alookup k' m.
Proof.
  intro N. induction m as [|[k2 v2] r IH]; cbn [aset alookup].
  - destruct (k' =? k) eqn:E; [lia|reflexivity].
  - destruct (k =? k2) eqn:E; cbn [alookup].
    + assert (k = k2) by lia. subst. destruct (k' =? k2) eqn:E2; [lia|reflexivity].
    + destruct (k' =? k2); [reflexivity|exact IH].
Qed.
Lemma look_remove_same {A} k (m : list (Z * A)) : alookup k (aremove_all k m) = None.
Proof.
  induction m as [|[k2 v2] r IH]; cbn [aremove_all alookup]; [reflexivity|].
  destruct (k =? k2) eqn:E; [exact IH|]. cbn [alookup]. rewrite E. exact IH.
Qed.
Lemma look_remove_other {A} k k' (m : list (Z * A)) :
  k' <> k -> alookup k' (aremove_all k m) = alookup k' m.
Proof.
  intro N. induction m as [|[k2 v2] r IH]; cbn [aremove_all alookup]; [reflexivity|].
  destruct (k =? k2) eqn:E.
  - assert (k = k2) by lia. subst. destruct (k' =? k2) eqn:E2; [lia|exact IH].
  - cbn [alookup]. destruct (k' =? k2); [reflexivity|exact IH].
Qed.
Lemma amem_look {A} k (m : list (Z * A)) : amem k m = false -> alookup k m = None.
Proof. unfold amem. destruct (alookup k m); [discriminate|reflexivity]. Qed.

Lemma pget_pset {A} d d' (v : A) p :
  pget d' (pset d v p) = if (d' =? 0) && (d =? 0) || negb (d' =? 0) && negb (d =? 0) then v else pget d' p.
Proof. unfold pget, pset. destruct (d =? 0); destruct (d' =? 0); reflexivity. Qed.
Lemma pget_pset_ge d d' v p : pget d p <= v -> pget d' p <= pget d' (pset d v p).
Proof.
  rewrite pget_pset. unfold pget. destruct (d' =? 0); destruct (d =? 0); cbn [andb orb negb]; lia.
Qed.

Lemma pget_pset_same {A} d (v : A) p : pget d (pset d v p) = v.
Proof. unfold pget, pset. destruct (d =? 0); reflexivity. Qed.
Lemma pget_pset_cases {A} d d' (v : A) p :
  pget d' (pset d v p) = v /\ pget d' p = pget d p \/ pget d' (pset d v p) = pget d' p.
Proof. unfold pget, pset. destruct (d =? 0); destruct (d' =? 0); cbn [fst snd]; auto. Qed.

(** ** The invariant *)
Definition in_range (s : st) (id : Z) : Prop :=
  if sid_init id =? side s then sid_index id < pget (sid_dir id) (nxt s)
  else sid_index id < pget (sid_dir id) (max_remote s).

Definition reset_or_gone (s : st) (id : Z) : Prop :=
  alookup id (sendm s) = None \/
  exists sd, alookup id (sendm s) = Some (TSome sd) /\ s_state sd = 3.

Record Inv11 (s : st) : Prop := mkInv11 {
  j_side : side s = 0 \/ side s = 1;
  j_keys : forall id t, alookup id (sendm s) = Some t ->
             in_range s id /\ (sid_init id <> side s -> sid_dir id = 0);
  j_fin : forall id, In id (g_fin s) -> alookup id (sendm s) = None /\ in_range s id;
  j_nodup : NoDup (g_fin s);
  j_reset : forall id, In id (g_reset s) ->
              ~ In id (g_fin s) /\ in_range s id /\ reset_or_gone s id;
  (* the window of permitted remote streams is kept full *)
  j_alloc : forall d, pget d (alloc s) = pget d (max_conc s) }.

(** ** Extension: the only change is that remotely initiated bidirectional streams beyond the old
    limit came into existence *)
Definition E (s s' : st) : Prop :=
  side s' = side s /\ nxt s' = nxt s /\ g_fin s' = g_fin s /\ g_reset s' = g_reset s /\
  (forall d, pget d (max_remote s) <= pget d (max_remote s')) /\
  (forall id, alookup id (sendm s') = alookup id (sendm s) \/
     (alookup id (sendm s) = None /\ sid_init id <> side s /\ sid_dir id = 0 /\
      pget 0 (max_remote s) <= sid_index id < pget 0 (max_remote s'))) /\
  ((forall d, pget d (alloc s) = pget d (max_conc s)) ->
   (forall d, pget d (alloc s') = pget d (max_conc s'))).

Lemma E_refl s : E s s.
Proof. unfold E. repeat split; auto; lia. Qed.
Lemma E_trans a b c : E a b -> E b c -> E a c.
Proof.
  intros (A1 & A2 & A3 & A4 & A5 & A6 & A7) (B1 & B2 & B3 & B4 & B5 & B6 & B7).
  unfold E. split; [congruence|]. split; [congruence|]. split; [congruence|]. split; [congruence|].
  split; [|split; [|auto]].
  - intro d. specialize (A5 d). specialize (B5 d). lia.
  - intro id. pose proof (A5 0) as A50. pose proof (B5 0) as B50.
    destruct (B6 id) as [H|(H1 & H2 & H3 & H4)].
    + destruct (A6 id) as [H'|(G1 & G2 & G3 & G4)]; [left; congruence|].
      right. split; [exact G1|]. split; [exact G2|]. split; [exact G3|]. lia.
    + destruct (A6 id) as [H'|(G1 & G2 & G3 & G4)].
      * right. split; [congruence|]. split; [congruence|]. split; [exact H3|]. lia.
      * right. split; [exact G1|]. split; [exact G2|]. split; [exact G3|]. lia.
Qed.

(** Equality of the six relevant fields. *)
Definition Q (s s' : st) : Prop :=
  side s' = side s /\ nxt s' = nxt s /\ g_fin s' = g_fin s /\ g_reset s' = g_reset s /\
  max_remote s' = max_remote s /\ sendm s' = sendm s /\
  alloc s' = alloc s /\ max_conc s' = max_conc s.
Lemma Q_E s s' : Q s s' -> E s s'.
Proof.
  intros (A1 & A2 & A3 & A4 & A5 & A6 & A7 & A8). unfold E. rewrite A5, A6, A7, A8.
  repeat split; auto; lia.
Qed.
Ltac qsame := apply Q_E; unfold Q; prj; repeat split; reflexivity.

Lemma in_range_E s s' id : E s s' -> in_range s id -> in_range s' id.
Proof.
  intros (A1 & A2 & A3 & A4 & A5 & A6 & A7). unfold in_range. rewrite A1, A2.
  destruct (sid_init id =? side s); [auto|]. specialize (A5 (sid_dir id)). lia.
Qed.

Lemma Inv11_E s s' : Inv11 s -> E s s' -> Inv11 s'.
Proof.
  intros [J1 J2 J3 J4 J5 J6] He. pose proof He as (A1 & A2 & A3 & A4 & A5 & A6 & A7).
  constructor.
  - rewrite A1. exact J1.
  - intros id t L. destruct (A6 id) as [H|(H1 & H2 & H3 & H4)].
    + rewrite H in L. destruct (J2 id t L) as [R1 R2]. rewrite A1.
      split; [eapply in_range_E; eassumption|exact R2].
    + rewrite A1. split; [|intros _; exact H3].
      unfold in_range. rewrite A1. destruct (sid_init id =? side s) eqn:Ei; [lia|].
      rewrite H3. lia.
  - rewrite A3. intros id Hi. destruct (J3 id Hi) as [R1 R2].
    split; [|eapply in_range_E; eassumption].
    destruct (A6 id) as [H|(H1 & H2 & H3 & H4)]; [congruence|].
    exfalso. unfold in_range in R2. destruct (sid_init id =? side s) eqn:Ei; [lia|].
    rewrite H3 in R2. lia.
  - rewrite A3. exact J4.
  - rewrite A4, A3. intros id Hi. destruct (J5 id Hi) as (R1 & R2 & R3).
    split; [exact R1|]. split; [eapply in_range_E; eassumption|].
    unfold reset_or_gone in *.
    destruct (A6 id) as [H|(H1 & H2 & H3 & H4)]; [rewrite H; exact R3|].
    exfalso. unfold in_range in R2. destruct (sid_init id =? side s) eqn:Ei; [lia|].
    rewrite H3 in R2. lia.
  - apply A7. exact J6.
Qed.

(** ** Insertion of remotely initiated streams *)
Lemma insert_remote_look id s :
  let s' := insert_stream true id s in
  side s' = side s /\ nxt s' = nxt s /\ g_fin s' = g_fin s /\ g_reset s' = g_reset s /\
  alloc s' = alloc s /\ max_conc s' = max_conc s /\
  max_remote s' = max_remote s /\
  (forall k, alookup k (sendm s') = alookup k (sendm s) \/
     (k = id /\ alookup id (sendm s) = None /\ sid_dir id = 0)).
Proof.
  unfold insert_stream. cbn [negb orb].
  rewrite orb_false_r, orb_true_r.
  destruct (sid_dir id =? 0) eqn:D.
  - destruct (amem id (sendm s)) eqn:M.
    + set (s1 := set_panic true s).
      assert (Q s s1) as (A1 & A2 & A3 & A4 & A5 & A6 & A7 & A8) by (subst s1; unfold Q; prj; repeat split; reflexivity).
      destruct (amem id (recvm s1)); [|destruct (0 <? free_recv s1)]; prj;
        repeat split; auto.
    + apply amem_look in M.
      set (s1 := set_sendm (aset id TNone (sendm s)) s).
      assert (K : forall k, alookup k (sendm s1) = alookup k (sendm s) \/
                    (k = id /\ alookup id (sendm s) = None /\ sid_dir id = 0)).
      { intro k. subst s1. prj. destruct (Z.eq_dec k id) as [->|N].
        - right. repeat split; auto. lia.
        - left. apply look_aset_other. exact N. }
      destruct (amem id (recvm s1)); [|destruct (0 <? free_recv s1)]; subst s1; prj;
        repeat split; auto.
  - destruct (amem id (recvm s)); [|destruct (0 <? free_recv s)]; prj; repeat split; auto.
Qed.

Lemma insert_range_look n d from s :
  (side s = 0 \/ side s = 1) -> (d = 0 \/ d = 1) ->
  let s' := insert_remote_range n d from s in
  side s' = side s /\ nxt s' = nxt s /\ g_fin s' = g_fin s /\ g_reset s' = g_reset s /\
  alloc s' = alloc s /\ max_conc s' = max_conc s /\
  max_remote s' = max_remote s /\
  (forall k, alookup k (sendm s') = alookup k (sendm s) \/
     (alookup k (sendm s) = None /\ sid_init k <> side s /\ sid_dir k = 0 /\ d = 0 /\
      from <= sid_index k < from + Z.of_nat n)).
Proof.
  intros Hs Hd. revert from s Hs. induction n as [|n IH]; intros from s Hs; cbn [insert_remote_range].
  - repeat split; auto.
  - set (id := mk_sid (1 - side s) d from).
    pose proof (insert_remote_look id s) as (A1 & A2 & A3 & A4 & Aa & Ac & A5 & A6). cbv zeta in *.
    set (s1 := insert_stream true id s) in *.
    assert (Hs1 : side s1 = 0 \/ side s1 = 1) by (rewrite A1; exact Hs).
    destruct (IH (from + 1) s1 Hs1) as (B1 & B2 & B3 & B4 & Ba & Bc & B5 & B6).
    assert (Hi : 1 - side s = 0 \/ 1 - side s = 1) by lia.
    destruct (sid_parts (1 - side s) d from Hi Hd) as (P1 & P2 & P3). fold id in P1, P2, P3.
    repeat split; try congruence.
    intro k. destruct (B6 k) as [H|(H1 & H2 & H3 & H3' & H4)].
    + destruct (A6 k) as [H'|(-> & G2 & G3)]; [left; congruence|].
      right. repeat split; auto; try lia. all: try (rewrite P1; lia).
    + destruct (A6 k) as [H'|(-> & G2 & G3)].
      * right. rewrite <- H'. rewrite <- A1. repeat split; auto; lia.
      * right. repeat split; auto; try lia. all: try (rewrite P1; lia).
Qed.

Lemma ensure_fields d s : (side s = 0 \/ side s = 1) -> (d = 0 \/ d = 1) ->
  let nc := Z.max 0 (pget d (max_conc s) - pget d (alloc s)) in
  alloc (ensure_remote_streams d s) = pset d (pget d (alloc s) + nc) (alloc s) /\
  max_conc (ensure_remote_streams d s) = max_conc s.
Proof.
  intros Hs Hd nc. unfold ensure_remote_streams. fold nc.
  pose proof (insert_range_look (Z.to_nat nc) d (pget d (max_remote s)) s Hs Hd)
    as (A1 & A2 & A3 & A4 & Aa & Ac & A5 & A6). cbv zeta in *.
  prj. rewrite Aa, Ac. split; reflexivity.
Qed.

Lemma ensure_E d s : (side s = 0 \/ side s = 1) -> (d = 0 \/ d = 1) -> E s (ensure_remote_streams d s).
Proof.
  intros Hs Hd.
  destruct (ensure_fields d s Hs Hd) as [FA FC]. cbv zeta in FA.
  unfold ensure_remote_streams in *.
  set (nc := Z.max 0 (pget d (max_conc s) - pget d (alloc s))) in *.
  pose proof (insert_range_look (Z.to_nat nc) d (pget d (max_remote s)) s Hs Hd)
    as (A1 & A2 & A3 & A4 & Aa & Ac & A5 & A6). cbv zeta in *.
  set (s1 := insert_remote_range _ _ _ s) in *.
  assert (Hnc : 0 <= nc) by (subst nc; lia).
  assert (Hnat : Z.of_nat (Z.to_nat nc) = nc) by lia.
  unfold E. prj. rewrite A5.
  split; [auto|]. split; [auto|]. split; [auto|]. split; [auto|]. split; [|split].
  - intro d'. apply pget_pset_ge. lia.
  - intro k. destruct (A6 k) as [H|(H1 & H2 & H3 & H3' & H4)]; [left; exact H|].
    subst d. right. split; [exact H1|]. split; [exact H2|]. split; [exact H3|].
    rewrite pget_pset. change (0 =? 0) with true. cbn [andb orb]. lia.
  - intros HA d'. prj. rewrite Aa, Ac.
    assert (nc = 0) by (subst nc; rewrite (HA d); lia).
    destruct (pget_pset_cases d d' (pget d (alloc s) + nc) (alloc s)) as [[P1 P2]|P1]; rewrite P1.
    + rewrite <- (HA d'). rewrite P2. lia.
    + apply HA.
Qed.

(** ** Functions of the receive side only extend *)
Lemma Q_refl s : Q s s.
Proof. unfold Q; repeat split; reflexivity. Qed.
Lemma Q_trans a b c : Q a b -> Q b c -> Q a c.
Proof.
  intros (A1 & A2 & A3 & A4 & A5 & A6 & A7 & A8) (B1 & B2 & B3 & B4 & B5 & B6 & B7 & B8).
  unfold Q; repeat split; congruence.
Qed.
Ltac qs := unfold Q; prj; repeat split; reflexivity.

Lemma stream_freed_E id half s : (side s = 0 \/ side s = 1) -> E s (stream_freed id half s).
Proof.
  intro Hs. unfold stream_freed.
  set (s1 := if negb (sid_init id =? side s) then _ else s).
  assert (H : E s s1).
  { subst s1. destruct (negb (sid_init id =? side s)); [|apply E_refl].
    match goal with |- E s (if ?c then _ else _) => destruct c end; [|apply E_refl].
    set (d := sid_dir id).
    assert (Hd : d = 0 \/ d = 1) by apply sid_dir01.
    set (s0 := set_panic_if (pget d (alloc s) <=? 0)
                 (set_alloc (pset d (pget d (alloc s) - 1) (alloc s)) s)).
    assert (F : side s0 = side s /\ nxt s0 = nxt s /\ g_fin s0 = g_fin s /\ g_reset s0 = g_reset s /\
                max_remote s0 = max_remote s /\ sendm s0 = sendm s /\ max_conc s0 = max_conc s /\
                alloc s0 = pset d (pget d (alloc s) - 1) (alloc s)).
    { subst s0. destruct (pget d (alloc s) <=? 0); prj; repeat split; reflexivity. }
    destruct F as (F1 & F2 & F3 & F4 & F5 & F6 & F7 & F8).
    assert (S0 : side s0 = 0 \/ side s0 = 1) by (rewrite F1; exact Hs).
    pose proof (ensure_E d s0 S0 Hd) as (B1 & B2 & B3 & B4 & B5 & B6 & _).
    destruct (ensure_fields d s0 S0 Hd) as [GA GC]. cbv zeta in GA.
    unfold E.
    split; [congruence|]. split; [congruence|]. split; [congruence|]. split; [congruence|].
    split; [|split].
    - intro d'. specialize (B5 d'). rewrite F5 in B5. exact B5.
    - intro k. specialize (B6 k). rewrite F6, F1, F5 in B6. exact B6.
    - intros HA d'. rewrite GA, GC, F7, F8.
      rewrite (pget_pset_same d). rewrite <- (HA d).
      replace (Z.max 0 (pget d (alloc s) - (pget d (alloc s) - 1))) with 1 by lia.
      destruct (pget_pset_cases d d' (pget d (alloc s) - 1 + 1)
                  (pset d (pget d (alloc s) - 1) (alloc s))) as [[P1 P2]|P1]; rewrite P1.
      + rewrite <- (HA d').
        destruct (pget_pset_cases d d' (pget d (alloc s) - 1) (alloc s)) as [[Q1 Q2]|Q1].
        * rewrite Q2. lia.
        * (* d' not in d's class contradicts P2 *)
          rewrite (pget_pset_same d) in P2. rewrite Q1 in P2.
          unfold pget, pset in *. destruct (d =? 0); destruct (d' =? 0); cbn [fst snd] in *; lia.
      + destruct (pget_pset_cases d d' (pget d (alloc s) - 1) (alloc s)) as [[Q1 Q2]|Q1].
        * unfold pget, pset in *. destruct (d =? 0); destruct (d' =? 0); cbn [fst snd] in *; lia.
        * rewrite Q1. apply HA. }
  eapply E_trans; [exact H|]. apply Q_E.
  destruct half; [|apply Q_refl]. destruct (send_streams s1 <=? 0); qs.
Qed.

Lemma E_side s s' : E s s' -> (side s = 0 \/ side s = 1) -> (side s' = 0 \/ side s' = 1).
Proof. intros (A1 & _) H. rewrite A1. exact H. Qed.

Lemma stream_recv_freed_E id e s : (side s = 0 \/ side s = 1) -> E s (stream_recv_freed id e s).
Proof.
  intro Hs. unfold stream_recv_freed.
  eapply E_trans; [|apply stream_freed_E; prj; exact Hs]. apply Q_E. qs.
Qed.

Lemma on_stream_frame_Q n id s : Q s (on_stream_frame n id s).
Proof.
  unfold on_stream_frame. destruct (sid_init id =? side s).
  - destruct n; qs.
  - destruct (pget (sid_dir id) (next_remote s) <=? sid_index id); [qs|]. destruct n; qs.
Qed.

Lemma arc_Q c s : Q s (fst (add_read_credits c s)).
Proof.
  unfold add_read_credits.
  destruct (debt (set_g_credits (g_credits s + c) s) <? c); prj;
    match goal with |- Q s (fst (if ?c then _ else _)) => destruct c end; cbn [fst];
    try match goal with |- context [set_panic_if ?b _] => destruct b end; qs.
Qed.

Lemma queue_dir_Q d s : Q s (fst (queue_dir d s)).
Proof.
  unfold queue_dir.
  destruct (pget d (max_remote s) - pget d (sent_max_remote s) <? 0);
    destruct (pget d (max_conc s) / 8 <? _); cbn [fst]; qs.
Qed.
Lemma queue_Q s : Q s (fst (queue_max_stream_id s)).
Proof.
  unfold queue_max_stream_id.
  pose proof (queue_dir_Q 0 s) as H0. destruct (queue_dir 0 s) as [s1 q0]. cbn [fst] in H0.
  pose proof (queue_dir_Q 1 s1) as H1. destruct (queue_dir 1 s1) as [s2 q1]. cbn [fst] in *.
  eapply Q_trans; eassumption.
Qed.

Lemma Q_side s s' : Q s s' -> (side s = 0 \/ side s = 1) -> (side s' = 0 \/ side s' = 1).
Proof. intros (A1 & _) H. rewrite A1. exact H. Qed.

Lemma received_E id off len fin s :
  (side s = 0 \/ side s = 1) -> E s (fst (received true id off len fin s)).
Proof.
  intro Hs. unfold received.
  destruct (validate_receive_id id s); [apply E_refl|].
  destruct (alookup id (recvm s)) as [slot|]; [|apply E_refl].
  set (s1 := set_recvm _ s). assert (Q1 : Q s s1) by (subst s1; qs).
  destruct (negb (is_receiving (rview s slot))); [apply Q_E; exact Q1|].
  destruct (ingest _ _ _ _ _ _ _) as [c|[[r' nb] closed]]; [apply Q_E; exact Q1|].
  set (s2 := set_data_recvd _ _). assert (Q2 : Q s s2) by (subst s2 s1; qs).
  destruct (negb (r_stopped r')).
  - cbn [fst]. apply Q_E. eapply Q_trans; [exact Q2|apply on_stream_frame_Q].
  - set (s3 := if closed then _ else s2).
    assert (E3 : E s s3).
    { subst s3. destruct closed; [|apply Q_E; exact Q2].
      eapply E_trans; [|apply stream_recv_freed_E; prj; exact Hs]. apply Q_E. subst s2 s1. qs. }
    pose proof (arc_Q nb s3) as Q4. destruct (add_read_credits nb s3) as [s4 t]. cbn [fst] in *.
    eapply E_trans; [exact E3|apply Q_E; exact Q4].
Qed.

Lemma received_reset_E id code final s :
  (side s = 0 \/ side s = 1) -> E s (fst (received_reset true id code final s)).
Proof.
  intro Hs. unfold received_reset.
  destruct (validate_receive_id id s); [apply E_refl|].
  destruct (alookup id (recvm s)) as [slot|]; [|apply E_refl].
  set (s1 := set_recvm _ s). assert (Q1 : Q s s1) by (subst s1; qs).
  destruct (recv_reset _ _ _ _ _) as [c|[r' [|]]]; try (apply Q_E; exact Q1).
  set (s2 := set_recvm (aset id (SOpen r') (recvm s1)) s1).
  assert (Q2 : Q s s2) by (subst s2 s1; qs).
  set (s3 := if r_stopped r' then _ else s2).
  assert (E3 : E s s3).
  { subst s3. destruct (r_stopped r'); [|apply Q_E; exact Q2].
    eapply E_trans; [|apply stream_recv_freed_E; prj; exact Hs]. apply Q_E. subst s2 s1. qs. }
  set (s4 := on_stream_frame (negb (r_stopped r')) id s3).
  assert (E4 : E s s4).
  { eapply E_trans; [exact E3|apply Q_E; apply on_stream_frame_Q]. }
  destruct (negb (_ =? final)); [|exact E4].
  match goal with |- E s (fst (let '(s6, t) := add_read_credits ?c ?x in _)) =>
    pose proof (arc_Q c x) as Q6; destruct (add_read_credits c x) as [s6 t];
    assert (E5 : E s x) end.
  { eapply E_trans; [exact E4|]. apply Q_E.
    destruct (final <? r_end r'); destruct (final <? _); qs. }
  cbn [fst] in *. eapply E_trans; [exact E5|apply Q_E; exact Q6].
Qed.

Lemma read_op_E id ordered budget s :
  (side s = 0 \/ side s = 1) -> E s (fst (read_op true id ordered budget s)).
Proof.
  intro Hs. unfold read_op.
  destruct (alookup id (recvm s)) as [slot|]; [|apply E_refl].
  set (r := rview s slot). set (s1 := set_recvm _ s). assert (Q1 : Q s s1) by (subst s1; qs).
  destruct (r_stopped r); [apply Q_E; exact Q1|].
  destruct (asm_ensure (r_asm r) ordered) as [a1|]; [|apply Q_E; exact Q1].
  destruct (asm_read a1 budget) as [[a2 total] none].
  match goal with |- context [let '(term, code) := ?e in _] => destruct e as [term code] end.
  set (r2 := mkRecv _ _ _ _ _).
  set (freed := (term =? 2) || (term =? 3)).
  set (s3 := if freed then _ else s1).
  assert (E3 : E s s3).
  { subst s3. destruct freed; [|apply Q_E; exact Q1].
    eapply E_trans; [|apply stream_recv_freed_E; prj; exact Hs]. apply Q_E. subst s1. qs. }
  set (s3' := set_panic_if _ s3).
  assert (E3' : E s s3').
  { eapply E_trans; [exact E3|]. apply Q_E. subst s3'.
    match goal with |- context [set_panic_if ?b _] => destruct b end; qs. }
  pose proof (queue_Q s3') as Q4. destruct (queue_max_stream_id s3') as [s4 q]. cbn [fst] in Q4.
  set (p5 := if freed then (s4, false) else _).
  assert (Q5 : Q s4 (fst p5)).
  { subst p5. destruct freed; [apply Q_refl|].
    destruct (max_stream_data r2 (swin s4)) as [[m tr]|]; cbn [fst]; [destruct tr|]; qs. }
  destruct p5 as [s5 t1]. cbn [fst] in Q5.
  pose proof (arc_Q total s5) as Q6. destruct (add_read_credits total s5) as [s6 t2]. cbn [fst] in *.
  eapply E_trans; [exact E3'|]. apply Q_E.
  eapply Q_trans; [exact Q4|]. eapply Q_trans; [exact Q5|]. eapply Q_trans; [exact Q6|]. qs.
Qed.

Lemma stop_op_E id code s :
  (side s = 0 \/ side s = 1) -> E s (fst (stop_op true id code s)).
Proof.
  intro Hs. unfold stop_op.
  destruct (alookup id (recvm s)) as [slot|]; [|apply E_refl].
  set (r := rview s slot). set (s1 := set_recvm _ s). assert (Q1 : Q s s1) by (subst s1; qs).
  destruct (r_stopped r); [apply Q_E; exact Q1|].
  set (s2 := set_panic_if _ _).
  assert (Q2 : Q s s2).
  { subst s2 s1. match goal with |- context [set_panic_if ?b _] => destruct b end; qs. }
  set (s3 := if is_receiving r then _ else s2).
  assert (Q3 : Q s s3) by (subst s3; destruct (is_receiving r); [eapply Q_trans; [exact Q2|qs]|exact Q2]).
  set (s4 := if negb (final_unknown r) then _ else s3).
  assert (E4 : E s s4).
  { subst s4. destruct (negb (final_unknown r)); [|apply Q_E; exact Q3].
    eapply E_trans; [apply Q_E; exact Q3|].
    eapply E_trans; [|apply stream_recv_freed_E; prj; eapply Q_side; eassumption]. apply Q_E. qs. }
  match goal with |- E s (fst (let '(s5, t) := add_read_credits ?c s4 in _)) =>
    pose proof (arc_Q c s4) as Q5; destruct (add_read_credits c s4) as [s5 t] end.
  cbn [fst] in *. eapply E_trans; [exact E4|]. apply Q_E.
  eapply Q_trans; [exact Q5|]. destruct t; qs.
Qed.

Lemma rreset_op_E id s : (side s = 0 \/ side s = 1) -> E s (fst (rreset_op id s)).
Proof.
  intro Hs. unfold rreset_op.
  destruct (alookup id (recvm s)) as [[| |r]|]; try apply E_refl.
  destruct (r_stopped r); [apply E_refl|]. destruct (reset_code r); [|apply E_refl].
  set (s1 := stream_recv_freed _ _ _).
  assert (E1 : E s s1).
  { subst s1. eapply E_trans; [|apply stream_recv_freed_E; prj; exact Hs]. apply Q_E. qs. }
  pose proof (queue_Q s1) as Q2. destruct (queue_max_stream_id s1) as [s2 q]. cbn [fst] in *.
  eapply E_trans; [exact E1|apply Q_E; exact Q2].
Qed.

Lemma emit_msd_Q ids s : Q s (fst (emit_msd ids s)).
Proof.
  revert s. induction ids as [|id rest IH]; intro s; cbn [emit_msd]; [apply Q_refl|].
  destruct (alookup id (recvm s)) as [[| |r]|]; try apply IH.
  destruct (can_send_fc r); [|apply IH].
  destruct (max_stream_data r (swin s)) as [[m tr]|].
  - match goal with |- context [emit_msd rest ?x] =>
      pose proof (IH x) as H; destruct (emit_msd rest x) as [s' fs]; assert (Q s x) end.
    { match goal with |- context [set_panic_if ?b _] => destruct b end; qs. }
    cbn [fst] in *. eapply Q_trans; eassumption.
  - eapply Q_trans; [|apply IH]. qs.
Qed.

Lemma control_op_Q a b c s : Q s (fst (fst (control_op a b c s))).
Proof.
  unfold control_op.
  set (s1 := if a then _ else s). assert (Q1 : Q s s1) by (subst s1; destruct a; qs).
  set (s2 := if b then _ else s1).
  assert (Q2 : Q s s2) by (subst s2; destruct b; [eapply Q_trans; [exact Q1|qs]|exact Q1]).
  set (s3 := if c then _ else s2).
  assert (Q3 : Q s s3) by (subst s3; destruct c; [eapply Q_trans; [exact Q2|qs]|exact Q2]).
  set (s4 := set_p_stop [] _). assert (Q4 : Q s s4) by (eapply Q_trans; [exact Q3|subst s4; qs]).
  set (p5 := if p_max_data s4 then _ else (s4, [])).
  assert (Q5 : Q s (fst p5)).
  { subst p5. destruct (p_max_data s4); cbn [fst]; [eapply Q_trans; [exact Q4|qs]|exact Q4]. }
  destruct p5 as [s5 fmd]. cbn [fst] in Q5.
  pose proof (emit_msd_Q (p_msd s5) s5) as Q6. destruct (emit_msd (p_msd s5) s5) as [s6 fmsd].
  cbn [fst] in Q6.
  set (s7 := set_p_msd [] s6). assert (Q7 : Q s s7).
  { eapply Q_trans; [exact Q5|]. eapply Q_trans; [exact Q6|]. subst s7. qs. }
  assert (EM : forall d x, Q x (fst (emit_max_streams d x))).
  { intros d x. unfold emit_max_streams. destruct (pget d (p_msid x)); cbn [fst]; qs. }
  pose proof (EM 0 s7) as Q8. destruct (emit_max_streams 0 s7) as [s8 f0]. cbn [fst] in Q8.
  pose proof (EM 1 s8) as Q9. destruct (emit_max_streams 1 s8) as [s9 f1]. cbn [fst] in *.
  eapply Q_trans; [exact Q7|]. eapply Q_trans; eassumption.
Qed.

(** ** Send-side operations *)
Lemma Inv11_Q s s' : Inv11 s -> Q s s' -> Inv11 s'.
Proof. intros I H. eapply Inv11_E; [exact I|apply Q_E; exact H]. Qed.

Lemma in_range_same s s' id :
  side s' = side s -> nxt s' = nxt s -> max_remote s' = max_remote s ->
  in_range s' id <-> in_range s id.
Proof. intros A B C. unfold in_range. rewrite A, B, C. tauto. Qed.

(** Replacing the send half of a present key, keeping a reset half reset. *)
Lemma upd_Inv11 s s' id t sd' :
  Inv11 s -> alookup id (sendm s) = Some t ->
  (s_state (sview t) = 3 -> s_state sd' = 3) ->
  sendm s' = aset id (TSome sd') (sendm s) ->
  side s' = side s -> nxt s' = nxt s -> max_remote s' = max_remote s ->
  g_fin s' = g_fin s -> g_reset s' = g_reset s ->
  alloc s' = alloc s -> max_conc s' = max_conc s -> Inv11 s'.
Proof.
  intros [J1 J2 J3 J4 J5 J6] L K Hm A1 A2 A3 A4 A5 A6 A7.
  assert (R : forall k, in_range s' k <-> in_range s k) by (intro; apply in_range_same; assumption).
  constructor.
  - rewrite A1; exact J1.
  - intros k t' L'. rewrite Hm in L'. rewrite R, A1.
    destruct (Z.eq_dec k id) as [->|N]; [apply (J2 id t L)|].
    rewrite (look_aset_other _ _ _ _ N) in L'. apply (J2 k t' L').
  - rewrite A4. intros k Hk. destruct (J3 k Hk) as [R1 R2]. rewrite R. split; [|exact R2].
    rewrite Hm. destruct (Z.eq_dec k id) as [->|N]; [congruence|].
    rewrite (look_aset_other _ _ _ _ N). exact R1.
  - rewrite A4; exact J4.
  - rewrite A5, A4. intros k Hk. destruct (J5 k Hk) as (R1 & R2 & R3).
    split; [exact R1|]. rewrite R. split; [exact R2|].
    unfold reset_or_gone in *. rewrite Hm.
    destruct (Z.eq_dec k id) as [->|N].
    + right. exists sd'. rewrite look_aset_same. split; [reflexivity|].
      destruct R3 as [R3|(sd & R3 & R4)]; [congruence|].
      apply K. rewrite L in R3. inversion R3; subst. exact R4.
    + rewrite (look_aset_other _ _ _ _ N). exact R3.
  - rewrite A6, A7. exact J6.
Qed.

Lemma with_send_Inv11 s id t sd' :
  Inv11 s -> alookup id (sendm s) = Some t -> (s_state (sview t) = 3 -> s_state sd' = 3) ->
  Inv11 (with_send id sd' s).
Proof. intros I L K. eapply upd_Inv11; try eassumption; unfold with_send; prj; reflexivity. Qed.
Lemma with_send_look id sd s : alookup id (sendm (with_send id sd s)) = Some (TSome sd).
Proof. unfold with_send. prj. apply look_aset_same. Qed.

Lemma write_op_Inv11 id len s : Inv11 s -> Inv11 (fst (write_op id len s)).
Proof.
  intro I. unfold write_op. destruct (alookup id (sendm s)) as [t|] eqn:L; [|exact I].
  set (sd := sview t).
  assert (I1 : Inv11 (with_send id sd s)) by (apply (with_send_Inv11 s id t sd I L); auto).
  destruct (negb (s_state sd =? 0)) eqn:E0; [exact I1|].
  destruct (s_stop sd); [exact I1|]. cbn [fst].
  apply negb_false_iff in E0.
  match goal with |- Inv11 (if _ then ?x else _) => assert (I2 : Inv11 x) end.
  { eapply with_send_Inv11; [exact I1|apply with_send_look|]. cbn [sview s_state]. lia. }
  destruct (is_pending sd); [exact I2|]. eapply Inv11_Q; [exact I2|]. unfold push_pending. qs.
Qed.

Lemma finish_op_Inv11 id s : Inv11 s -> Inv11 (fst (finish_op id s)).
Proof.
  intro I. unfold finish_op. destruct (alookup id (sendm s)) as [t|] eqn:L; [|exact I].
  set (sd := sview t).
  assert (I1 : Inv11 (with_send id sd s)) by (apply (with_send_Inv11 s id t sd I L); auto).
  destruct (s_stop sd); [exact I1|].
  destruct (s_state sd =? 0) eqn:E0; [|exact I1]. cbn [fst].
  match goal with |- Inv11 (if _ then ?x else _) => assert (I2 : Inv11 x) end.
  { eapply with_send_Inv11; [exact I1|apply with_send_look|]. cbn [sview s_state]. lia. }
  destruct (is_pending sd); [exact I2|]. eapply Inv11_Q; [exact I2|]. unfold push_pending. qs.
Qed.

Lemma stop_sending_op_Inv11 id code s : Inv11 s -> Inv11 (fst (stop_sending_op id code s)).
Proof.
  intro I. unfold stop_sending_op. destruct (alookup id (sendm s)) as [t|] eqn:L; [|exact I].
  set (sd := sview t).
  destruct (s_stop sd); cbn [fst].
  - apply (with_send_Inv11 s id t sd I L); auto.
  - eapply Inv11_Q; [|apply on_stream_frame_Q].
    eapply Inv11_Q; [|qs].
    apply (with_send_Inv11 s id t _ I L). cbn [s_state]. auto.
Qed.

Lemma sreset_op_Inv11 id code s : Inv11 s -> Inv11 (fst (sreset_op id code s)).
Proof.
  intro I. unfold sreset_op. destruct (alookup id (sendm s)) as [t|] eqn:L; [|exact I].
  set (sd := sview t).
  destruct (s_state sd =? 3) eqn:E3; cbn [fst].
  - apply (with_send_Inv11 s id t sd I L); auto.
  - set (s1 := with_send id (send_set_state sd 3) s).
    assert (I1 : Inv11 s1).
    { apply (with_send_Inv11 s id t _ I L). reflexivity. }
    assert (L1 : alookup id (sendm s1) = Some (TSome (send_set_state sd 3))) by apply with_send_look.
    destruct I1 as [J1 J2 J3 J4 J5 J6].
    constructor; prj; try assumption.
    intros k [<-|Hk]; [|apply J5; exact Hk].
    split; [intro Hf; destruct (J3 id Hf) as [C _]; congruence|].
    split; [apply (J2 id _ L1)|].
    right. exists (send_set_state sd 3). split; [exact L1|reflexivity].
Qed.

(** Removing a send half. *)
Lemma remove_Inv11 s id : Inv11 s -> Inv11 (set_sendm (aremove_all id (sendm s)) s).
Proof.
  intros [J1 J2 J3 J4 J5 J6]. constructor; prj; try assumption.
  - intros k t L. destruct (Z.eq_dec k id) as [->|N]; [rewrite look_remove_same in L; discriminate|].
    rewrite (look_remove_other _ _ _ N) in L.
    destruct (J2 k t L) as [R1 R2]. split; [exact R1|exact R2].
  - intros k Hk. destruct (J3 k Hk) as [R1 R2]. split; [|exact R2].
    destruct (Z.eq_dec k id) as [->|N]; [apply look_remove_same|].
    rewrite (look_remove_other _ _ _ N). exact R1.
  - intros k Hk. destruct (J5 k Hk) as (R1 & R2 & R3). split; [exact R1|]. split; [exact R2|].
    unfold reset_or_gone in *. prj.
    destruct (Z.eq_dec k id) as [->|N]; [left; apply look_remove_same|].
    rewrite (look_remove_other _ _ _ N). exact R3.
Qed.

Lemma reset_acked_op_Inv11 id s : Inv11 s -> Inv11 (fst (reset_acked_op id s)).
Proof.
  intro I. unfold reset_acked_op.
  destruct (alookup id (sendm s)) as [[|sd]|]; try exact I.
  destruct (s_state sd =? 3); [|exact I]. cbn [fst].
  eapply Inv11_E; [apply remove_Inv11; exact I|].
  apply stream_freed_E. prj. apply I.
Qed.

Lemma ack_frame_Inv11 id a b fin s : Inv11 s -> Inv11 (ack_frame id a b fin s).
Proof.
  intro I. unfold ack_frame.
  destruct (alookup id (sendm s)) as [[|sd]|] eqn:L; try exact I.
  destruct (s_state sd =? 3) eqn:E3; [exact I|].
  destruct (sbuf_ack sd a b) as [un acks].
  set (st' := if (s_state sd =? 1) && fin then 2 else s_state sd).
  destruct ((st' =? 2) && (un =? 0)) eqn:D.
  - (* Finished *)
    apply andb_true_iff in D as [D1 D2].
    assert (K : s_state sd = 1 \/ s_state sd = 2).
    { subst st'. destruct (Z.eqb_spec (s_state sd) 1); [left; assumption|]. cbn [andb] in D1. lia. }
    set (s0 := set_sendm (aremove_all id (sendm s)) s).
    assert (I0 : Inv11 s0) by (apply remove_Inv11; exact I).
    assert (E1 : E s0 (stream_freed id true s0)) by (apply stream_freed_E; subst s0; prj; apply I).
    set (s1 := stream_freed id true s0) in *.
    pose proof (Inv11_E _ _ I0 E1) as I1.
    destruct (j_keys _ I id _ L) as [Rg _].
    assert (Rg0 : in_range s0 id) by (subst s0; unfold in_range in *; prj; exact Rg).
    assert (Rg1 : in_range s1 id) by (eapply in_range_E; eassumption).
    assert (L1 : alookup id (sendm s1) = None).
    { destruct E1 as (A1 & A2 & A3 & A4 & A5 & A6 & A7).
      destruct (A6 id) as [H|(H1 & H2 & H3 & H4)].
      - rewrite H. subst s0. prj. apply look_remove_same.
      - exfalso. unfold in_range in Rg0. destruct (sid_init id =? side s0) eqn:Ei; [lia|].
        rewrite H3 in Rg0. lia. }
    assert (NF : ~ In id (g_fin s1)).
    { destruct E1 as (A1 & A2 & A3 & A4 & A5 & A6 & A7). rewrite A3. subst s0. prj.
      intro Hf. destruct (j_fin _ I id Hf) as [C _]. congruence. }
    assert (NR : ~ In id (g_reset s1)).
    { destruct E1 as (A1 & A2 & A3 & A4 & A5 & A6 & A7). rewrite A4. subst s0. prj.
      intro Hr. destruct (j_reset _ I id Hr) as (_ & _ & [C|(sd2 & C1 & C2)]); [congruence|].
      rewrite L in C1. inversion C1; subst. lia. }
    destruct I1 as [J1 J2 J3 J4 J5 J6].
    constructor; prj; try assumption.
    + intros k [<-|Hk]; [split; assumption|apply J3; exact Hk].
    + constructor; assumption.
    + intros k Hk. destruct (J5 k Hk) as (R1 & R2 & R3). split; [|split; assumption].
      intros [<-|Hf]; [apply NR; exact Hk|apply R1; exact Hf].
  - apply (with_send_Inv11 s id _ _ I L). cbn [sview s_state]. intro. lia.
Qed.

Lemma lose_frame_Inv11 id a b fin s : Inv11 s -> Inv11 (lose_frame id a b fin s).
Proof.
  intro I. unfold lose_frame.
  destruct (alookup id (sendm s)) as [[|sd]|] eqn:L; try exact I.
  set (s1 := if is_pending sd then s else push_pending id s).
  assert (Q1 : Q s s1) by (subst s1; destruct (is_pending sd); [apply Q_refl|unfold push_pending; qs]).
  pose proof (Inv11_Q _ _ I Q1) as I1.
  assert (L1 : alookup id (sendm s1) = Some (TSome sd)).
  { destruct Q1 as (_ & _ & _ & _ & _ & A6 & _). rewrite A6. exact L. }
  apply (with_send_Inv11 s1 id _ _ I1 L1). cbn [sview s_state]. auto.
Qed.

Lemma log_op_Inv11 lose k s : Inv11 s -> Inv11 (fst (log_op lose k s)).
Proof.
  intro I. unfold log_op. destruct (slog s) eqn:SL; [exact I|]. rewrite <- SL.
  destruct (nth_error (slog s) _) as [[[[[id a] b] fin] status]|]; [|exact I].
  destruct (negb (status =? 0)); [exact I|]. cbn [fst].
  match goal with |- context [set_slog ?x s] => assert (I1 : Inv11 (set_slog x s)) by (eapply Inv11_Q; [exact I|qs]) end.
  destruct lose; [apply lose_frame_Inv11|apply ack_frame_Inv11]; exact I1.
Qed.

Lemma flush_loop_Inv11 fuel q s acc : Inv11 s -> Inv11 (fst (fst (flush_loop fuel q s acc))).
Proof.
  revert q s acc. induction fuel as [|fuel IH]; intros q s acc I; destruct q as [|id rest];
    cbn [flush_loop fst]; try exact I.
  - eapply Inv11_Q; [exact I|qs].
  - destruct (alookup id (sendm s)) as [[|sd]|] eqn:L; try (apply IH; exact I).
    destruct (s_state sd =? 3); [apply IH; exact I|].
    destruct (transmit_one sd) as [sd' [[a b] fin]] eqn:T.
    apply IH. apply (with_send_Inv11 s id _ _ I L). cbn [sview].
    unfold transmit_one in T.
    destruct (s_retx sd) as [|[a0 b0] r0]; inversion T; subst; cbn [s_state]; auto.
Qed.

Lemma flush_op_Inv11 s : Inv11 s -> Inv11 (fst (fst (flush_op s))).
Proof.
  intro I. unfold flush_op.
  match goal with |- context [flush_loop ?f ?q ?x ?a] =>
    assert (I0 : Inv11 x) by (eapply Inv11_Q; [exact I|qs]);
    pose proof (flush_loop_Inv11 f q x a I0) as I1; destruct (flush_loop f q x a) as [[s1 acc] okf] end.
  cbn [fst] in I1.
  assert (I2 : Inv11 (set_slog (slog s1 ++ map (fun f => (f, 0)) (quad_sort acc)) s1))
    by (eapply Inv11_Q; [exact I1|qs]).
  destruct okf; exact I2.
Qed.

Lemma open_op_Inv11 d s : (d = 0 \/ d = 1) -> Inv11 s -> Inv11 (fst (open_op d s)).
Proof.
  intros Hd I. unfold open_op. destruct (pget d (maxl s) <=? pget d (nxt s)); [exact I|]. cbn [fst].
  set (id := mk_sid (side s) d (pget d (nxt s))).
  destruct (sid_parts (side s) d (pget d (nxt s)) (j_side _ I) Hd) as (P1 & P2 & P3).
  fold id in P1, P2, P3.
  set (s1 := set_nxt (pset d (pget d (nxt s) + 1) (nxt s)) s).
  assert (Mono : forall k, in_range s k -> in_range s1 k).
  { intros k. unfold in_range. subst s1. prj. destruct (sid_init k =? side s); [|auto].
    intro H. pose proof (pget_pset_ge d (sid_dir k) (pget d (nxt s) + 1) (nxt s) ltac:(lia)). lia. }
  assert (Fresh : alookup id (sendm s) = None).
  { destruct (alookup id (sendm s)) as [t|] eqn:L; [|reflexivity]. exfalso.
    destruct (j_keys _ I id t L) as [R _]. unfold in_range in R. rewrite P1, Z.eqb_refl, P2, P3 in R. lia. }
  (* state after insert_stream false id *)
  unfold insert_stream. cbn [negb]. rewrite orb_true_r.
  assert (Hm : amem id (sendm s1) = false) by (subst s1; prj; unfold amem; rewrite Fresh; reflexivity).
  rewrite Hm.
  set (s2 := set_sendm (aset id TNone (sendm s1)) s1).
  assert (I2 : Inv11 s2).
  { destruct I as [J1 J2 J3 J4 J5 J6]. subst s2 s1. constructor; prj.
    - exact J1.
    - intros k t L. destruct (Z.eq_dec k id) as [->|N].
      + split; [|intro C; congruence]. unfold in_range. prj. rewrite P1, Z.eqb_refl, P2, P3.
        rewrite pget_pset. destruct (d =? 0); cbn [andb orb negb]; lia.
      + rewrite (look_aset_other _ _ _ _ N) in L. destruct (J2 k t L) as [R1 R2].
        split; [apply Mono; exact R1|exact R2].
    - intros k Hk. destruct (J3 k Hk) as [R1 R2]. split; [|apply Mono; exact R2].
      destruct (Z.eq_dec k id) as [->|N].
      + exfalso. unfold in_range in R2. rewrite P1, Z.eqb_refl, P2, P3 in R2. lia.
      + rewrite (look_aset_other _ _ _ _ N). exact R1.
    - exact J4.
    - intros k Hk. destruct (J5 k Hk) as (R1 & R2 & R3). split; [exact R1|].
      split; [apply Mono; exact R2|]. unfold reset_or_gone in *. prj.
      destruct (Z.eq_dec k id) as [->|N].
      + exfalso. unfold in_range in R2. rewrite P1, Z.eqb_refl, P2, P3 in R2. lia.
      + rewrite (look_aset_other _ _ _ _ N). exact R3.
    - exact J6. }
  eapply Inv11_Q; [exact I2|].
  destruct ((sid_dir id =? 0) || false); [|qs].
  destruct (amem id (recvm s2)); [qs|]. destruct (0 <? free_recv s2); qs.
Qed.

Lemma init_Inv11 sd mru mrb rw srw pmb pmu :
  (sd = 0 \/ sd = 1) -> 0 <= mrb -> Inv11 (init sd mru mrb rw srw pmb pmu).
Proof.
  intros Hs Hb. unfold init.
  set (s0 := mkSt _ _ _ _ _ _ _ _ _ _ _ _ _ _ _ _ _ _ _ _ _ _ _ _ _ _ _ _ _ _ _ _ _ _ _).
  assert (S0 : side s0 = 0 \/ side s0 = 1) by (subst s0; prj; exact Hs).
  pose proof (insert_range_look (Z.to_nat mrb) 0 0 s0 S0 (or_introl eq_refl))
    as (A1 & A2 & A3 & A4 & Aa & Ac & A5 & A6).
  cbv zeta in *. set (s1 := insert_remote_range (Z.to_nat mrb) 0 0 s0) in *.
  assert (S1 : side s1 = 0 \/ side s1 = 1) by (rewrite A1; exact S0).
  pose proof (insert_range_look (Z.to_nat mru) 1 0 s1 S1 (or_intror eq_refl))
    as (B1 & B2 & B3 & B4 & Ba & Bc & B5 & B6).
  cbv zeta in *. set (s2 := insert_remote_range (Z.to_nat mru) 1 0 s1) in *.
  assert (MR : max_remote s2 = (mrb, mru)) by (rewrite B5, A5; subst s0; reflexivity).
  assert (F0 : g_fin s2 = []) by (rewrite B3, A3; subst s0; reflexivity).
  assert (R0 : g_reset s2 = []) by (rewrite B4, A4; subst s0; reflexivity).
  constructor.
  - rewrite B1. exact S1.
  - intros k t L.
    destruct (B6 k) as [H|(_ & _ & _ & Hd & _)]; [|lia]. rewrite H in L.
    destruct (A6 k) as [H'|(H1 & H2 & H3 & _ & H4)].
    + rewrite H' in L. subst s0. cbn in L. discriminate.
    + split; [|intros _; exact H3].
      unfold in_range. rewrite B1, A1.
      destruct (sid_init k =? side s0) eqn:Ei; [lia|].
      rewrite H3, MR. unfold pget. change (0 =? 0) with true. cbn [fst]. lia.
  - rewrite F0. intros k [].
  - rewrite F0. constructor.
  - rewrite R0. intros k [].
  - intro d. rewrite Ba, Aa, Bc, Ac. subst s0. reflexivity.
Qed.

(** ** Every op of the component preserves the invariant *)
Lemma set_window_op_Q w s : Q s (fst (set_window_op w s)).
Proof. unfold set_window_op. destruct (rwin s <? w); cbn [fst]; qs. Qed.
Lemma accept_op_Q d s : Q s (fst (accept_op d s)).
Proof.
  unfold accept_op. destruct (pget d (next_remote s) =? pget d (next_rep s)); cbn [fst]; [qs|].
  destruct (d =? 0); qs.
Qed.
Lemma poll_op_Q s : Q s (fst (poll_op s)).
Proof.
  unfold poll_op. destruct (fst (opened s)); [cbn [fst]; qs|].
  destruct (snd (opened s)); [cbn [fst]; qs|]. destruct (events s); cbn [fst]; qs.
Qed.
Lemma stopped_op_Q id s : Q s (fst (stopped_op id s)).
Proof.
  unfold stopped_op. destruct (alookup id (sendm s)) as [[|sd]|]; try apply Q_refl.
  destruct (s_stop sd); apply Q_refl.
Qed.
Lemma see_Q id s : Q s (see id s).
Proof. unfold see. qs. Qed.
Lemma note_tx_Q r s : Q s (note_tx r s).
Proof. unfold note_tx. destruct r as [c|[|]]; qs. Qed.

Lemma see_Inv11 id s : Inv11 s -> Inv11 (see id s).
Proof. intro I. eapply Inv11_Q; [exact I|apply see_Q]. Qed.

Lemma see_match_Inv11 (o : list Z) s2 :
  Inv11 s2 -> Inv11 (match o with [0; id] => see id s2 | _ => s2 end).
Proof.
  intro I2. destruct o as [|o1 [|o2 [|o3 r]]]; try destruct o1; cbv iota; try exact I2;
    apply see_Inv11; exact I2.
Qed.

Lemma flow_step_core_Inv11 s op s' o id l :
  Inv11 s -> FlowRecv.step_core true s op = Some (s', o, id, l) -> Inv11 s'.
Proof.
  intros I H. unfold FlowRecv.step_core in H.
  destruct op as [|c a]; [discriminate|].
  assert (Sd : forall x, side (see x s) = 0 \/ side (see x s) = 1) by (intro; unfold see; prj; apply I).
  destruct (c =? 1).
  { destruct a as [|x1 [|x2 [|x3 [|x4 [|]]]]]; try discriminate.
    pose proof (received_E x1 x2 x3 (negb (x4 =? 0)) (see x1 s) (Sd x1)) as He.
    destruct (received true x1 x2 x3 (negb (x4 =? 0)) (see x1 s)) as [s2 r]. cbn [fst] in He.
    inversion H; subst. eapply Inv11_Q; [|apply note_tx_Q].
    eapply Inv11_E; [apply see_Inv11; exact I|exact He]. }
  destruct (c =? 2).
  { destruct a as [|x1 [|x2 [|x3 [|]]]]; try discriminate.
    pose proof (received_reset_E x1 x2 x3 (see x1 s) (Sd x1)) as He.
    destruct (received_reset true x1 x2 x3 (see x1 s)) as [s2 r]. cbn [fst] in He.
    inversion H; subst. eapply Inv11_Q; [|apply note_tx_Q].
    eapply Inv11_E; [apply see_Inv11; exact I|exact He]. }
  destruct (c =? 3).
  { destruct a as [|x1 [|x2 [|x3 [|]]]]; try discriminate.
    pose proof (read_op_E x1 (negb (x2 =? 0)) x3 (see x1 s) (Sd x1)) as He.
    destruct (read_op true x1 (negb (x2 =? 0)) x3 (see x1 s)) as [s2 r]. cbn [fst] in He.
    inversion H; subst. eapply Inv11_E; [apply see_Inv11; exact I|exact He]. }
  destruct (c =? 4).
  { destruct a as [|x1 [|x2 [|]]]; try discriminate.
    pose proof (stop_op_E x1 x2 (see x1 s) (Sd x1)) as He.
    destruct (stop_op true x1 x2 (see x1 s)) as [s2 r]. cbn [fst] in He.
    inversion H; subst. eapply Inv11_E; [apply see_Inv11; exact I|exact He]. }
  destruct (c =? 5).
  { destruct a as [|x1 [|]]; try discriminate.
    pose proof (rreset_op_E x1 (see x1 s) (Sd x1)) as He.
    destruct (rreset_op x1 (see x1 s)) as [s2 r]. cbn [fst] in He.
    inversion H; subst. eapply Inv11_E; [apply see_Inv11; exact I|exact He]. }
  destruct (c =? 6).
  { destruct a as [|x1 [|]]; try discriminate.
    pose proof (set_window_op_Q x1 s) as He. destruct (set_window_op x1 s) as [s2 r]. cbn [fst] in He.
    inversion H; subst. eapply Inv11_Q; eassumption. }
  destruct (c =? 7).
  { destruct a as [|x1 [|x2 [|x3 [|]]]]; try discriminate.
    pose proof (control_op_Q (negb (x1 =? 0)) (negb (x2 =? 0)) (negb (x3 =? 0)) s) as He.
    destruct (control_op _ _ _ s) as [[s2 r] l2]. cbn [fst] in He.
    inversion H; subst. eapply Inv11_Q; eassumption. }
  destruct (c =? 8).
  { destruct a as [|x1 [|]]; try discriminate.
    assert (Hd : (if x1 =? 0 then 0 else 1) = 0 \/ (if x1 =? 0 then 0 else 1) = 1)
      by (destruct (x1 =? 0); auto).
    pose proof (open_op_Inv11 _ s Hd I) as I2.
    destruct (open_op (if x1 =? 0 then 0 else 1) s) as [s2 r]. cbn [fst] in I2.
    inversion H; subst. apply see_match_Inv11. exact I2. }
  destruct (c =? 9).
  { destruct a as [|x1 [|]]; try discriminate.
    pose proof (accept_op_Q (if x1 =? 0 then 0 else 1) s) as He.
    destruct (accept_op (if x1 =? 0 then 0 else 1) s) as [s2 r]. cbn [fst] in He.
    pose proof (Inv11_Q _ _ I He) as I2.
    inversion H; subst. apply see_match_Inv11. exact I2. }
  destruct (c =? 12).
  { destruct a as [|x1 [|x2 [|]]]; try discriminate.
    pose proof (sreset_op_Inv11 x1 x2 s I) as I2. destruct (sreset_op x1 x2 s) as [s2 r].
    inversion H; subst. exact I2. }
  destruct (c =? 17).
  { destruct a as [|x1 [|]]; try discriminate.
    pose proof (reset_acked_op_Inv11 x1 s I) as I2. destruct (reset_acked_op x1 s) as [s2 r].
    inversion H; subst. exact I2. }
  discriminate.
Qed.

Lemma step_Inv11 s op : Inv11 s -> Inv11 (fst (StreamSM.step s op)).
Proof.
  intro I. unfold StreamSM.step.
  destruct (StreamSM.step_core s op) as [[[[s' o] id] l]|] eqn:H; [|exact I]. cbn [fst].
  unfold StreamSM.step_core in H.
  destruct op as [|c a]; [discriminate|].
  destruct (c =? 10).
  { destruct a as [|x1 [|x2 [|]]]; try discriminate.
    pose proof (write_op_Inv11 x1 x2 s I) as I2. destruct (write_op x1 x2 s). inversion H; subst. exact I2. }
  destruct (c =? 11).
  { destruct a as [|x1 [|]]; try discriminate.
    pose proof (finish_op_Inv11 x1 s I) as I2. destruct (finish_op x1 s). inversion H; subst. exact I2. }
  destruct (c =? 13).
  { destruct a as [|x1 [|]]; try discriminate.
    pose proof (stopped_op_Q x1 s) as He. destruct (stopped_op x1 s). cbn [fst] in He.
    inversion H; subst. eapply Inv11_Q; eassumption. }
  destruct (c =? 14).
  { destruct a as [|x1 [|x2 [|]]]; try discriminate.
    pose proof (stop_sending_op_Inv11 x1 x2 s I) as I2. destruct (stop_sending_op x1 x2 s).
    inversion H; subst. exact I2. }
  destruct (c =? 15).
  { destruct a; try discriminate.
    pose proof (flush_op_Inv11 s I) as I2. destruct (flush_op s) as [[s2 r] l2]. cbn [fst] in I2.
    inversion H; subst. exact I2. }
  destruct (c =? 16).
  { destruct a as [|x1 [|]]; try discriminate.
    pose proof (log_op_Inv11 false x1 s I) as I2. destruct (log_op false x1 s). inversion H; subst. exact I2. }
  destruct (c =? 19).
  { destruct a as [|x1 [|]]; try discriminate.
    pose proof (log_op_Inv11 true x1 s I) as I2. destruct (log_op true x1 s). inversion H; subst. exact I2. }
  destruct (c =? 18).
  { destruct a; try discriminate.
    pose proof (poll_op_Q s) as He. destruct (poll_op s). cbn [fst] in He.
    inversion H; subst. eapply Inv11_Q; eassumption. }
  eapply flow_step_core_Inv11; eassumption.
Qed.

Lemma run_from_Inv11 i s : Inv11 s -> Inv11 (fst (run_from StreamSM.step s i)).
Proof.
  revert s. induction i as [|op r IH]; intros s I; cbn [run_from fst]; [exact I|].
  pose proof (step_Inv11 s op I) as I1. destruct (StreamSM.step s op) as [s1 o]. cbn [fst] in I1.
  pose proof (IH s1 I1) as I2. destruct (run_from StreamSM.step s1 r) as [s2 os]. exact I2.
Qed.

(** The theorem: Finished at most once per stream, never for (or after) a reset. *)
Theorem finished_once sd mru mrb rw srw pmb pmu i s :
  (sd = 0 \/ sd = 1) -> 0 <= mrb ->
  reach_sm [0; sd; mru; mrb; rw; srw; pmb; pmu] i = Some s ->
  NoDup (g_fin s) /\
  (forall id, In id (g_reset s) -> ~ In id (g_fin s)) /\
  (forall id, In id (g_fin s) -> alookup id (sendm s) = None).
Proof.
  intros Hs Hb H. unfold reach_sm in H. inversion H; subst; clear H.
  pose proof (run_from_Inv11 i _ (init_Inv11 sd mru mrb rw srw pmb pmu Hs Hb)) as [J1 J2 J3 J4 J5 J6].
  split; [exact J4|]. split.
  - intros id Hr. apply (J5 id Hr).
  - intros id Hf. apply (J3 id Hf).
Qed.

(** ** Concurrency accounting *)
Theorem alloc_full sd mru mrb rw srw pmb pmu i s :
  (sd = 0 \/ sd = 1) -> 0 <= mrb ->
  reach_sm [0; sd; mru; mrb; rw; srw; pmb; pmu] i = Some s ->
  forall d, pget d (alloc s) = pget d (max_conc s).
Proof.
  intros Hs Hb H. unfold reach_sm in H. inversion H; subst; clear H.
  apply (j_alloc _ (run_from_Inv11 i _ (init_Inv11 sd mru mrb rw srw pmb pmu Hs Hb))).
Qed.

Lemma ensure_max_remote d s : (side s = 0 \/ side s = 1) -> (d = 0 \/ d = 1) ->
  max_remote (ensure_remote_streams d s) =
    pset d (pget d (max_remote s) + Z.max 0 (pget d (max_conc s) - pget d (alloc s))) (max_remote s).
Proof.
  intros Hs Hd. unfold ensure_remote_streams.
  set (nc := Z.max 0 (pget d (max_conc s) - pget d (alloc s))).
  pose proof (insert_range_look (Z.to_nat nc) d (pget d (max_remote s)) s Hs Hd)
    as (A1 & A2 & A3 & A4 & Aa & Ac & A5 & A6). cbv zeta in *.
  prj. rewrite A5. reflexivity.
Qed.

(** One call of [stream_freed] in a state whose window is full: [max_remote] of the stream's
    direction grows by exactly one iff the stream is remotely initiated and its other half is
    already gone (unidirectional: always); otherwise nothing changes. *)
Lemma stream_freed_exact id (half : bool) s :
  (side s = 0 \/ side s = 1) -> (forall d, pget d (alloc s) = pget d (max_conc s)) ->
  let fully := negb (sid_init id =? side s) &&
               ((sid_dir id =? 1) || (if half then negb (amem id (recvm s)) else negb (amem id (sendm s)))) in
  max_remote (stream_freed id half s) =
    if fully then pset (sid_dir id) (pget (sid_dir id) (max_remote s) + 1) (max_remote s)
    else max_remote s.
Proof.
  intros Hs HA fully. subst fully. unfold stream_freed.
  set (s1 := if negb (sid_init id =? side s) then _ else s).
  assert (M : max_remote s1 =
              if negb (sid_init id =? side s) &&
                 ((sid_dir id =? 1) || (if half then negb (amem id (recvm s)) else negb (amem id (sendm s))))
              then pset (sid_dir id) (pget (sid_dir id) (max_remote s) + 1) (max_remote s)
              else max_remote s).
  { subst s1. destruct (negb (sid_init id =? side s)); cbn [andb]; [|reflexivity].
    match goal with |- max_remote (if ?c then _ else _) = _ => destruct c end; [|reflexivity].
    set (d := sid_dir id).
    set (s0 := set_panic_if (pget d (alloc s) <=? 0)
                 (set_alloc (pset d (pget d (alloc s) - 1) (alloc s)) s)).
    assert (F : side s0 = side s /\ max_remote s0 = max_remote s /\ max_conc s0 = max_conc s /\
                alloc s0 = pset d (pget d (alloc s) - 1) (alloc s)).
    { subst s0. destruct (pget d (alloc s) <=? 0); prj; repeat split; reflexivity. }
    destruct F as (F1 & F5 & F7 & F8).
    assert (S0 : side s0 = 0 \/ side s0 = 1) by (rewrite F1; exact Hs).
    rewrite (ensure_max_remote d s0 S0 (sid_dir01 id)).
    rewrite F5, F7, F8, (pget_pset_same d), <- (HA d).
    replace (Z.max 0 (pget d (alloc s) - (pget d (alloc s) - 1))) with 1 by lia. reflexivity. }
  destruct half; [|exact M].
  destruct (send_streams s1 <=? 0); prj; exact M.
Qed.
