(** CidQueue: the reset token reported when the active remote CID changes is the token that the
    peer issued for the CID that is NOW in use (C04: "a stateless reset carrying exactly the
    token the peer issued for the connection ID in use").  In the model a NEW_CONNECTION_ID
    frame with CID id [id] carries token id [id], so the claim reads [tk = active id]. *)
From Coq Require Import ZArith List Bool Lia.
From QV Require Import Lib.Corr Model.CidQueue Proofs.CidQueueProofs.
Import ListNotations.
Open Scope Z_scope.

Definition tok_ok (o : op) (out : list Z) : Prop :=
  match o, out with
  | Insert _ _ _, [_; a; 1; _; _; tk] => tk = a
  | Next, [_; a; 1; tk; _; _] => tk = a
  | _, _ => True
  end.

Lemma inv_active_token s acc a :
  Inv s acc -> active s = Some a ->
  forall x tk, get (buf s) (cursor s) = Some (x, Some tk) -> tk = a.
Proof.
  intros HI Ha x tk Hg. unfold active in Ha. rewrite Hg in Ha. inversion Ha; subst.
  pose proof (i_cur _ _ HI) as Hc.
  assert (Hat : at_ (buf s) (cursor s) 0 = Some (a, Some tk)).
  { unfold at_. replace ((cursor s + 0) mod 5) with (cursor s) by lia. exact Hg. }
  destruct (i_seq _ _ HI 0 a tk ltac:(lia) Hat) as [E _]. exact E.
Qed.

Lemma insert_token s seq rpt id s' lo hi tk :
  insert 5 s seq rpt id = Some (s', InsRetired lo hi tk) ->
  exists x, get (buf s') (cursor s') = Some (x, Some tk).
Proof.
  unfold insert. destruct (seq <? offset s); [discriminate|].
  destruct (5 + Z.max 0 (rpt - offset s) <=? seq - offset s); [discriminate|].
  destruct (Z.max 0 (rpt - offset s) =? 0); [discriminate|].
  unfold iter. change (Z.to_nat 5) with 5%nat.
  match goal with |- context [scan 5 ?b ?c 0 5] => set (b2 := b); set (c1 := c) end.
  destruct (scan 5 b2 c1 0 5) as [|[i [x [t|]]] rest] eqn:Es; try discriminate.
  intros H. inversion H; subst. cbn [buf cursor].
  destruct (scan_cons _ _ _ _ _ _ _ Es) as (_ & Hat & _). unfold at_ in Hat.
  exists x. exact Hat.
Qed.

Lemma observe_tok s acc o s' out :
  Inv s acc -> main_op o -> observe 5 s o = Some (s', out) -> tok_ok o out.
Proof.
  intros HI Hm Hobs. destruct o as [id|seq rpt id| |id]; cbn [main_op] in Hm; try contradiction.
  - destruct (insert_inv s acc seq rpt id HI Hm) as (s1 & r & Hins & Hpost).
    unfold observe in Hobs. cbn [step] in Hobs. rewrite Hins in Hobs.
    destruct r as [|lo hi tk| |]; cbn [insert_post] in Hpost.
    + destruct (active s1); inversion Hobs; subst; exact I.
    + destruct Hpost as (HI' & _).
      destruct (active s1) as [a|] eqn:Ha; [|discriminate]. inversion Hobs; subst.
      cbn [tok_ok]. destruct (insert_token _ _ _ _ _ _ _ _ Hins) as [x Hx].
      exact (inv_active_token _ _ _ HI' Ha _ _ Hx).
    + destruct (active s1); inversion Hobs; subst; exact I.
    + destruct (active s1); inversion Hobs; subst; exact I.
  - destruct (next_inv s acc HI) as (s1 & r & Hn & HI' & Hpost).
    unfold observe in Hobs. cbn [step] in Hobs. rewrite Hn in Hobs.
    destruct r as [[[tk lo] hi]|].
    + destruct (active s1) as [a|] eqn:Ha; [|discriminate]. inversion Hobs; subst.
      cbn [tok_ok].
      (* the new cursor slot is untouched by the store at the old cursor *)
      revert Hn. unfold next, iter. change (Z.to_nat 5) with 5%nat.
      destruct (scan 5 (buf s) (cursor s) 0 5) as [|[i0 d0] [|[i [x [t|]]] rest]] eqn:Es;
        try discriminate.
      intros H. inversion H; subst. clear H.
      destruct (scan_cons _ _ _ _ _ _ _ Es) as (Hi0 & _ & _ & Hrest).
      symmetry in Hrest. destruct (scan_cons _ _ _ _ _ _ _ Hrest) as (Hi & Hat & _).
      unfold at_ in Hat.
      pose proof (i_cur _ _ HI) as Hc. pose proof (i_len _ _ HI) as Hl.
      apply (inv_active_token _ _ _ HI' Ha x). cbn [buf cursor].
      rewrite Z2Nat.id in Hi by lia.
      rewrite get_set by lia.
      destruct (cursor s =? (cursor s + i) mod 5) eqn:E; [lia|]. exact Hat.
    + destruct (active s1); inversion Hobs; subst; exact I.
Qed.

(** every reachable state: handshake-time [update_initial_cid]s, then any [insert]/[next] *)
Lemma run_tok_main : forall os s acc s' outs,
  Inv s acc -> Forall main_op os -> run_ops 5 s os = Some (s', outs) -> Forall2 tok_ok os outs.
Proof.
  induction os as [|o os IH]; intros s acc s' outs HI Hm Hr; cbn [run_ops] in Hr.
  - inversion Hr; subst. constructor.
  - inversion Hm as [|? ? Ho Hos]; subst.
    destruct (observe_main s acc o HI Ho) as (s1 & out & Hobs & HI1 & _).
    rewrite Hobs in Hr. destruct (run_ops 5 s1 os) as [[s2 outs2]|] eqn:Hr2; [|discriminate].
    inversion Hr; subst. constructor.
    + exact (observe_tok _ _ _ _ _ HI Ho Hobs).
    + exact (IH _ _ _ _ HI1 Hos Hr2).
Qed.

Lemma run_tok : forall pre post s acc s' outs,
  Inv s acc -> offset s = 0 -> Forall upd_op pre -> Forall main_op post ->
  run_ops 5 s (pre ++ post) = Some (s', outs) -> Forall2 tok_ok (pre ++ post) outs.
Proof.
  induction pre as [|o pre IH]; intros post s acc s' outs HI H0 Hu Hm Hr.
  - cbn [app] in *. exact (run_tok_main _ _ _ _ _ HI Hm Hr).
  - inversion Hu as [|? ? Ho Hos]; subst. cbn [app run_ops] in Hr.
    destruct (observe_upd s acc o HI H0 Ho) as (s1 & out & Hobs & HI1 & H01 & _).
    rewrite Hobs in Hr. destruct (run_ops 5 s1 (pre ++ post)) as [[s2 outs2]|] eqn:Hr2; [|discriminate].
    inversion Hr; subst. cbn [app]. constructor.
    + destruct o; cbn [upd_op] in Ho; try contradiction. exact I.
    + exact (IH _ _ _ _ _ HI1 H01 Hos Hm Hr2).
Qed.

Lemma cidqueue_token_lemma L : L = 5 -> forall id0 pre post s outs,
  Forall upd_op pre -> Forall main_op post ->
  run_ops L (new L id0) (pre ++ post) = Some (s, outs) -> Forall2 tok_ok (pre ++ post) outs.
Proof.
  intros -> id0 pre post s outs Hu Hm Hr.
  exact (run_tok pre post _ _ _ _ (new_inv id0) eq_refl Hu Hm Hr).
Qed.
