(** The routing invariant and its preservation by every endpoint operation (repaired code). *)
From QV Require Import Lib.Tac Lib.Corr Model.Routing Proofs.RoutingMap.
Open Scope Z_scope.

Notation live s ch m := (lookup [ch] (s_conns s) = Some m).

(** Every entry of a routing map names a live connection that claimed the key. *)
Definition sound (conns : amap meta) (M : amap Z) (P : key -> meta -> Prop) : Prop :=
  forall k ch, lookup k M = Some ch -> exists m, lookup [ch] conns = Some m /\ P k m.
Definition soundr (conns : amap meta) (M : amap route) (P : key -> meta -> Prop) : Prop :=
  forall k ch, lookup k M = Some (RConn ch) -> exists m, lookup [ch] conns = Some m /\ P k m.

Definition P_ids (c : key) (m : meta) : Prop := exists k, lookup k (m_loc m) = Some c.
Definition P_init (x : key) (m : meta) : Prop := m_server m = true /\ m_init m = x.
Definition P_in (k : key) (m : meta) : Prop := m_server m = true /\ k = [m_remote m; m_local m].
Definition P_out (k : key) (m : meta) : Prop := m_server m = false /\ k = [m_remote m].
Definition P_tok (k : key) (m : meta) : Prop := exists r t, m_tok m = Some (r, t) /\ k = [r; t].

(** Per-connection consistency of [loc_cids] with [connection_ids]. *)
Record conn_ok (ids : amap Z) (ch : Z) (m : meta) : Prop := mkOk {
  ok_complete : forall k c, lookup k (m_loc m) = Some c -> c <> [] -> lookup c ids = Some ch;
  ok_inj : forall k1 k2 c, lookup k1 (m_loc m) = Some c -> lookup k2 (m_loc m) = Some c ->
                           c <> [] -> k1 = k2;
  ok_seq : forall q, m_issued m <= q -> lookup [q] (m_loc m) = None;
  ok_nodup : nodupk (m_loc m);
}.

Definition conn_ok_seq (m : meta) : Prop := forall q, m_issued m <= q -> lookup [q] (m_loc m) = None.

Record Inv (s : st) : Prop := mkInv {
  I_range : forall ch m, live s ch m -> 0 <= ch < s_hwm s /\ ~ In ch (s_free s);
  I_free : forall k, In k (s_free s) -> 0 <= k < s_hwm s;
  I_fnodup : NoDup (s_free s);
  I_hwm : 0 <= s_hwm s;
  I_inc : forall ch m, live s ch m -> m_inc m < s_epoch s;
  I_ok : forall ch m, live s ch m -> conn_ok (s_ids s) ch m;
  I_ids : sound (s_conns s) (s_ids s) P_ids;
  I_init : soundr (s_conns s) (s_init s) P_init;
  I_initnil : lookup [] (s_init s) = None;
  I_in : sound (s_conns s) (s_in s) P_in;
  I_out : sound (s_conns s) (s_out s) P_out;
  I_tok : sound (s_conns s) (s_tok s) P_tok;
}.

Ltac keq :=
  repeat match goal with
         | H : lz_eqb _ _ = true |- _ => apply lz_eqb_eq in H
         | H : lz_eqb _ _ = false |- _ => apply lz_eqb_neq in H
         | H : [_] = [_] |- _ => apply single_eq in H
         | H : Some _ = Some _ |- _ => inversion H; clear H
         end.

Ltac lk :=
  repeat (rewrite ?lookup_insert, ?lookup_remove, ?lookup_remove_if, ?lookup_remove_all in * ).

Ltac st_simpl :=
  cbn [set_init set_ids set_in set_out set_tok set_conns set_incs update_conn
       s_len s_pref s_init s_ids s_in s_out s_tok s_conns s_free s_hwm s_incs s_nincs s_buf s_epoch
       m_inc m_init m_issued m_loc m_remote m_local m_server m_tok
       i_dcid i_remote i_local i_bad i_bytes] in *.

(** ** Generic lemmas *)
Lemma live_upd (conns : amap meta) ch m' ch0 m0 :
  lookup [ch0] (insert [ch] m' conns) = Some m0 <->
  (ch0 = ch /\ m0 = m') \/ (ch0 <> ch /\ lookup [ch0] conns = Some m0).
Proof.
  rewrite lookup_insert, lz_single. destruct (ch0 =? ch) eqn:E.
  - assert (A : ch0 = ch) by lia. split; [intros H; inversion H; auto | intros [[_ ->]|[N _]]; [reflexivity | lia]].
  - assert (A : ch0 <> ch) by lia. split; [auto | intros [[? _]|[_ ?]]; [lia | auto]].
Qed.

Lemma live_del (conns : amap meta) ch ch0 m0 :
  lookup [ch0] (remove [ch] conns) = Some m0 <-> ch0 <> ch /\ lookup [ch0] conns = Some m0.
Proof.
  rewrite lookup_remove, lz_single. destruct (ch0 =? ch) eqn:E.
  - split; [discriminate | intros [N _]; lia].
  - split; [intros H; split; [lia | exact H] | tauto].
Qed.

Definition submap {V} (M' M : amap V) : Prop := forall k v, lookup k M' = Some v -> lookup k M = Some v.

Lemma submap_refl {V} (M : amap V) : submap M M.
Proof. intros k v H. exact H. Qed.

Lemma submap_remove {V} k (M : amap V) : submap (remove k M) M.
Proof. intros k0 v. rewrite lookup_remove. destruct (lz_eqb k0 k); [discriminate | auto]. Qed.

Lemma submap_remove_if k ch (M : amap Z) : submap (remove_if k ch M) M.
Proof.
  intros k0 v. rewrite lookup_remove_if. destruct (lz_eqb k0 k) eqn:E; [|auto].
  keq. subst. destruct (lookup k M) as [c|]; [|discriminate].
  destruct (c =? ch); [discriminate | auto].
Qed.

Lemma submap_remove_all ks (M : amap Z) : submap (remove_all ks M) M.
Proof. intros k v. rewrite lookup_remove_all. destruct (existsb (lz_eqb k) ks); [discriminate | auto]. Qed.

Lemma submap_trans {V} (A B C : amap V) : submap A B -> submap B C -> submap A C.
Proof. intros H1 H2 k v H. auto. Qed.

Section Sound.
  Variable P : key -> meta -> Prop.

  Lemma sound_sub conns M M' : submap M' M -> sound conns M P -> sound conns M' P.
  Proof. intros S H k ch L. apply H. apply S. exact L. Qed.

  Lemma sound_ins conns M k ch m :
    sound conns M P -> lookup [ch] conns = Some m -> P k m -> sound conns (insert k ch M) P.
  Proof.
    intros H L Pk k0 ch0. rewrite lookup_insert. destruct (lz_eqb k0 k) eqn:E.
    - keq. subst. intros H1. keq. subst. eauto.
    - apply H.
  Qed.

  Lemma sound_upd conns M ch m m' :
    sound conns M P -> lookup [ch] conns = Some m -> (forall k, P k m -> P k m') ->
    sound (insert [ch] m' conns) M P.
  Proof.
    intros H L Pm k ch0 L0. destruct (H _ _ L0) as [m0 [Hl Hp]].
    destruct (Z.eq_dec ch0 ch) as [->|N].
    - rewrite L in Hl. keq. subst. exists m'. split; [apply live_upd; auto | auto].
    - exists m0. split; [apply live_upd; auto | auto].
  Qed.

  Lemma sound_new conns M ch m :
    sound conns M P -> lookup [ch] conns = None -> sound (insert [ch] m conns) M P.
  Proof.
    intros H L k ch0 L0. destruct (H _ _ L0) as [m0 [Hl Hp]].
    exists m0. split; [|exact Hp]. apply live_upd. right. split; [|exact Hl].
    intros ->. congruence.
  Qed.

  Lemma sound_del conns M ch :
    sound conns M P -> (forall k, lookup k M <> Some ch) -> sound (remove [ch] conns) M P.
  Proof.
    intros H N k ch0 L0. destruct (H _ _ L0) as [m0 [Hl Hp]].
    exists m0. split; [|exact Hp]. apply live_del. split; [|exact Hl].
    intros ->. eapply N; eauto.
  Qed.

  Lemma soundr_sub conns M M' : submap M' M -> soundr conns M P -> soundr conns M' P.
  Proof. intros S H k ch L. apply H. apply S. exact L. Qed.

  Lemma soundr_ins conns M k ch m :
    soundr conns M P -> lookup [ch] conns = Some m -> P k m -> soundr conns (insert k (RConn ch) M) P.
  Proof.
    intros H L Pk k0 ch0. rewrite lookup_insert. destruct (lz_eqb k0 k) eqn:E.
    - keq. subst. intros H1. inversion H1. subst. eauto.
    - apply H.
  Qed.

  Lemma soundr_ins_inc conns M k j :
    soundr conns M P -> soundr conns (insert k (RInc j) M) P.
  Proof.
    intros H k0 ch0. rewrite lookup_insert. destruct (lz_eqb k0 k) eqn:E.
    - discriminate.
    - apply H.
  Qed.

  Lemma soundr_upd conns M ch m m' :
    soundr conns M P -> lookup [ch] conns = Some m -> (forall k, P k m -> P k m') ->
    soundr (insert [ch] m' conns) M P.
  Proof.
    intros H L Pm k ch0 L0. destruct (H _ _ L0) as [m0 [Hl Hp]].
    destruct (Z.eq_dec ch0 ch) as [->|N].
    - rewrite L in Hl. keq. subst. exists m'. split; [apply live_upd; auto | auto].
    - exists m0. split; [apply live_upd; auto | auto].
  Qed.

  Lemma soundr_new conns M ch m :
    soundr conns M P -> lookup [ch] conns = None -> soundr (insert [ch] m conns) M P.
  Proof.
    intros H L k ch0 L0. destruct (H _ _ L0) as [m0 [Hl Hp]].
    exists m0. split; [|exact Hp]. apply live_upd. right. split; [|exact Hl].
    intros ->. congruence.
  Qed.

  Lemma soundr_del conns M ch :
    soundr conns M P -> (forall k, lookup k M <> Some (RConn ch)) -> soundr (remove [ch] conns) M P.
  Proof.
    intros H N k ch0 L0. destruct (H _ _ L0) as [m0 [Hl Hp]].
    exists m0. split; [|exact Hp]. apply live_del. split; [|exact Hl].
    intros ->. eapply N; eauto.
  Qed.
End Sound.

Lemma Inv_init len pref : Inv (init_st len pref).
Proof.
  constructor; cbn [init_st s_len s_pref s_init s_ids s_in s_out s_tok s_conns s_free s_hwm s_incs
                    s_nincs s_buf s_epoch lookup]; try (intros; discriminate); try (intros; contradiction);
    try constructor; try lia; intros ? ? H; discriminate H.
Qed.

(** [conn_ok] is insensitive to [connection_ids] changes that do not touch the connection's CIDs. *)
Lemma ok_ids_change ids ids' ch m :
  conn_ok ids ch m ->
  (forall k c, lookup k (m_loc m) = Some c -> c <> [] -> lookup c ids' = Some ch) ->
  conn_ok ids' ch m.
Proof. intros [A B C D] H. constructor; auto. Qed.

(** ** [new_cid] *)
Lemma first_vacant_spec ids str c rest :
  first_vacant ids str = Some (c, rest) -> lookup c ids = None.
Proof.
  revert c rest. induction str as [|x str IH]; intros c rest; cbn [first_vacant]; [discriminate|].
  destruct (mem x ids) eqn:M; [apply IH|].
  intros H. inversion H; subst. now apply mem_false.
Qed.

(** The CID is either empty with [connection_ids] untouched, or fresh and now routed to [ch];
    nothing else changes. *)
Definition cid_added (s : st) (ch : Z) (c : key) (s1 : st) : Prop :=
  (c = [] /\ s1 = s) \/ (lookup c (s_ids s) = None /\ s1 = set_ids s (insert c ch (s_ids s))).

Lemma new_cid_spec s ch str c s1 rest :
  new_cid s ch str = Some (c, s1, rest) -> cid_added s ch c s1.
Proof.
  unfold new_cid, cid_added. destruct (s_len s =? 0) eqn:E.
  - intros H. inversion H; subst. left. auto.
  - destruct (first_vacant (s_ids s) str) as [[c0 r0]|] eqn:F; [|discriminate].
    intros H. inversion H; subst. right. split; [|reflexivity].
    eapply first_vacant_spec; eauto.
Qed.

(** A fresh CID is in nobody's [loc_cids]. *)
Lemma fresh_not_owned s c ch m k :
  Inv s -> lookup c (s_ids s) = None -> live s ch m -> lookup k (m_loc m) = Some c -> c = [].
Proof.
  intros I F L H. destruct c as [|b c]; [reflexivity|].
  destruct (I_ok _ I _ _ L) as [A _ _ _].
  rewrite (A _ _ H) in F; [discriminate | discriminate].
Qed.

(** ** Issuing one CID to a live connection *)
Definition issue_meta (m : meta) (c : key) : meta :=
  mkMeta (m_inc m) (m_init m) (m_issued m + 1) (insert [m_issued m] c (m_loc m))
         (m_remote m) (m_local m) (m_server m) (m_tok m).

Lemma ok_issue ids ids' ch m c :
  conn_ok ids ch m ->
  (forall k, lookup k (m_loc m) = Some c -> c = []) ->
  (forall c0, c0 <> c -> lookup c0 ids' = lookup c0 ids) ->
  (c <> [] -> lookup c ids' = Some ch) ->
  conn_ok ids' ch (issue_meta m c).
Proof.
  intros [A B C D] F E1 E2. unfold issue_meta. constructor; st_simpl.
  - intros k c0 H Hn. lk. destruct (lz_eqb k [m_issued m]) eqn:E.
    + keq. subst. auto.
    + destruct (key_dec c0 c) as [->|N]; [apply F in H; congruence|].
      rewrite E1; eauto.
  - intros k1 k2 c0 H1 H2 Hn. lk.
    destruct (lz_eqb k1 [m_issued m]) eqn:E3; destruct (lz_eqb k2 [m_issued m]) eqn:E4; keq; subst.
    + reflexivity.
    + apply F in H2. congruence.
    + apply F in H1. congruence.
    + eauto.
  - intros q Hq. lk. rewrite lz_single. destruct (q =? m_issued m) eqn:E3; [lia|]. apply C. lia.
  - apply nodupk_insert. exact D.
Qed.

Lemma P_ids_issue m c k0 : conn_ok_seq m -> P_ids k0 m -> P_ids k0 (issue_meta m c).
Proof.
  intros C [k Hk]. exists k. unfold issue_meta. st_simpl. lk.
  destruct (lz_eqb k [m_issued m]) eqn:E; [|exact Hk].
  keq. subst. rewrite C in Hk; [discriminate | lia].
Qed.

Lemma Inv_issue_one s ch m c s1 :
  Inv s -> live s ch m -> cid_added s ch c s1 ->
  Inv (update_conn s1 ch (issue_meta m c)).
Proof.
  intros I L Hc.
  assert (E1 : forall c0, c0 <> c -> lookup c0 (s_ids s1) = lookup c0 (s_ids s)).
  { intros c0 N. destruct Hc as [[-> ->]|[F ->]]; [reflexivity|]. st_simpl. lk.
    apply lz_eqb_neq in N. rewrite N. reflexivity. }
  assert (E2 : c <> [] -> lookup c (s_ids s1) = Some ch).
  { intros N. destruct Hc as [[-> ->]|[F ->]]; [congruence|]. st_simpl. lk.
    rewrite lz_eqb_refl. reflexivity. }
  assert (Hfresh : forall ch0 m0 k, live s ch0 m0 -> lookup k (m_loc m0) = Some c -> c = []).
  { intros ch0 m0 k L0 H. destruct Hc as [[-> _]|[F _]]; [reflexivity|].
    eapply fresh_not_owned; eauto. }
  assert (Hrest : s_conns s1 = s_conns s /\ s_free s1 = s_free s /\ s_hwm s1 = s_hwm s /\
                  s_epoch s1 = s_epoch s /\ s_init s1 = s_init s /\ s_in s1 = s_in s /\
                  s_out s1 = s_out s /\ s_tok s1 = s_tok s).
  { destruct Hc as [[_ ->]|[_ ->]]; st_simpl; repeat split; reflexivity. }
  destruct Hrest as [Ec [Ef [Eh [Ee [Ei [Ein [Eo Et]]]]]]].
  assert (Cseq : conn_ok_seq m) by (destruct (I_ok _ I _ _ L) as [_ _ C _]; exact C).
  destruct I. constructor; st_simpl; rewrite ?Ec, ?Ef, ?Eh, ?Ee, ?Ei, ?Ein, ?Eo, ?Et.
  - intros ch0 m0 H. apply live_upd in H. destruct H as [[-> ->]|[N H]]; eauto.
  - auto.
  - auto.
  - auto.
  - intros ch0 m0 H. apply live_upd in H. destruct H as [[-> ->]|[N H]]; [|eauto].
    unfold issue_meta. st_simpl. eauto.
  - intros ch0 m0 H. apply live_upd in H. destruct H as [[-> ->]|[N H]].
    + eapply ok_issue; eauto.
    + eapply ok_ids_change; [eauto|]. intros k c0 Hk Hn.
      destruct (key_dec c0 c) as [->|Nc].
      * apply (Hfresh ch0 m0) in Hk; [congruence | exact H].
      * rewrite E1 by exact Nc. destruct (I_ok0 _ _ H) as [A _ _ _]. eauto.
  - intros c0 ch0 H. destruct (key_dec c0 c) as [->|Nc].
    + destruct Hc as [[-> ->]|[F ->]].
      * eapply sound_upd; eauto. intros k. apply P_ids_issue. exact Cseq.
      * st_simpl. rewrite lookup_insert, lz_eqb_refl in H. keq. subst.
        exists (issue_meta m c). split; [apply live_upd; auto|].
        exists [m_issued m]. unfold issue_meta. st_simpl. lk. rewrite lz_eqb_refl. reflexivity.
    + rewrite E1 in H by exact Nc. revert H. eapply sound_upd; eauto.
      intros k. apply P_ids_issue. exact Cseq.
  - eapply soundr_upd; eauto.
  - auto.
  - eapply sound_upd; eauto.
  - eapply sound_upd; eauto.
  - eapply sound_upd; eauto.
Qed.

(** ** Small state changes *)
Lemma Inv_set_incs s v n b : Inv s -> Inv (set_incs s v n b).
Proof. intros []. constructor; st_simpl; auto. Qed.

Lemma Inv_init_sub s init' :
  Inv s -> submap init' (s_init s) -> lookup [] init' = None -> Inv (set_init s init').
Proof.
  intros [] S N. constructor; st_simpl; auto. eapply soundr_sub; eauto.
Qed.

Lemma Inv_init_inc s x k : Inv s -> x <> [] -> Inv (set_init s (insert x (RInc k) (s_init s))).
Proof.
  intros [] N. constructor; st_simpl; auto.
  - apply soundr_ins_inc. auto.
  - rewrite lookup_insert. destruct (lz_eqb [] x) eqn:E; [keq; congruence | auto].
Qed.

Lemma Inv_init_conn s x ch m :
  Inv s -> live s ch m -> m_server m = true -> m_init m = x -> x <> [] ->
  Inv (set_init s (insert x (RConn ch) (s_init s))).
Proof.
  intros [] L Sv E N. constructor; st_simpl; auto.
  - eapply soundr_ins; eauto. split; auto.
  - rewrite lookup_insert. destruct (lz_eqb [] x) eqn:E0; [keq; congruence | auto].
Qed.

Lemma Inv_ids_ext s ids' :
  Inv s -> (forall c, lookup c ids' = lookup c (s_ids s)) -> Inv (set_ids s ids').
Proof.
  intros [] E. constructor; st_simpl; auto.
  - intros ch m L. eapply ok_ids_change; [eauto|]. intros k c Hk Hn. rewrite E.
    destruct (I_ok0 _ _ L) as [A _ _ _]. eauto.
  - intros c ch H. rewrite E in H. eauto.
Qed.

Lemma Inv_set_in s ch m :
  Inv s -> live s ch m -> m_server m = true ->
  Inv (set_in s (insert [m_remote m; m_local m] ch (s_in s))).
Proof.
  intros [] L Sv. constructor; st_simpl; auto. eapply sound_ins; eauto. split; auto.
Qed.

Lemma Inv_set_out s ch m :
  Inv s -> live s ch m -> m_server m = false ->
  Inv (set_out s (insert [m_remote m] ch (s_out s))).
Proof.
  intros [] L Sv. constructor; st_simpl; auto. eapply sound_ins; eauto. split; auto.
Qed.

Lemma remove_initial_inv s x s' : Inv s -> remove_initial s x = Some s' -> Inv s'.
Proof.
  unfold remove_initial. intros I. destruct (is_nil x); [intros H; inversion H; subst; exact I|].
  destruct (mem x (s_init s)); [|discriminate]. intros H. inversion H; subst.
  apply Inv_init_sub; [exact I | apply submap_remove |].
  rewrite lookup_remove. destruct (lz_eqb [] x); [reflexivity | apply I].
Qed.

(** ** Retiring one CID *)
Definition retire_meta (m : meta) (seq : Z) : meta :=
  mkMeta (m_inc m) (m_init m) (m_issued m) (remove [seq] (m_loc m))
         (m_remote m) (m_local m) (m_server m) (m_tok m).

Lemma Inv_retire_one s ch m seq c :
  Inv s -> live s ch m -> lookup [seq] (m_loc m) = Some c ->
  Inv (set_ids (update_conn s ch (retire_meta m seq)) (remove c (s_ids s))).
Proof.
  intros I L Hc. pose proof (I_ok _ I _ _ L) as [A B C D].
  destruct I. constructor; st_simpl.
  - intros ch0 m0 H. apply live_upd in H. destruct H as [[-> ->]|[N H]]; eauto.
  - auto.
  - auto.
  - auto.
  - intros ch0 m0 H. apply live_upd in H. destruct H as [[-> ->]|[N H]]; [|eauto].
    unfold retire_meta. st_simpl. eauto.
  - intros ch0 m0 H. apply live_upd in H. destruct H as [[-> ->]|[N H]].
    + unfold retire_meta. constructor; st_simpl.
      * intros k c0 Hk Hn. lk. destruct (lz_eqb k [seq]) eqn:E; [discriminate|]. keq.
        destruct (lz_eqb c0 c) eqn:E2; [|eauto]. keq. subst.
        exfalso. apply E. eapply B; eauto.
      * intros k1 k2 c0 H1 H2 Hn. lk.
        destruct (lz_eqb k1 [seq]); [discriminate|]. destruct (lz_eqb k2 [seq]); [discriminate|]. eauto.
      * intros q Hq. lk. destruct (lz_eqb [q] [seq]); auto.
      * apply nodupk_remove. exact D.
    + eapply ok_ids_change; [eauto|]. intros k c0 Hk Hn. lk.
      destruct (I_ok0 _ _ H) as [A0 _ _ _]. pose proof (A0 _ _ Hk Hn) as Hc0.
      destruct (lz_eqb c0 c) eqn:E; [|exact Hc0]. keq. subst.
      rewrite (A _ _ Hc Hn) in Hc0. keq. congruence.
  - intros c0 ch0 H. rewrite lookup_remove in H. destruct (lz_eqb c0 c) eqn:E; [discriminate|]. keq.
    destruct (I_ids0 _ _ H) as [m0 [Hl [k Hk]]].
    destruct (Z.eq_dec ch0 ch) as [->|N].
    + rewrite L in Hl. keq. subst. exists (retire_meta m0 seq). split; [apply live_upd; auto|].
      exists k. unfold retire_meta. st_simpl. lk. destruct (lz_eqb k [seq]) eqn:E2; [|exact Hk].
      keq. subst. congruence.
    + exists m0. split; [apply live_upd; auto | exists k; exact Hk].
  - eapply soundr_upd; eauto.
  - auto.
  - eapply sound_upd; eauto.
  - eapply sound_upd; eauto.
  - eapply sound_upd; eauto.
Qed.

(** ** Registering a reset token *)
Definition tok_meta (m : meta) (r t : Z) : meta :=
  mkMeta (m_inc m) (m_init m) (m_issued m) (m_loc m) (m_remote m) (m_local m) (m_server m) (Some (r, t)).

Lemma Inv_token_gen s ch m r t tok1 :
  Inv s -> live s ch m -> submap tok1 (s_tok s) ->
  (forall k, lookup k tok1 = Some ch -> P_tok k m -> False) ->
  Inv (set_tok (update_conn s ch (tok_meta m r t)) (insert [r; t] ch tok1)).
Proof.
  intros I L S1 N1.
  destruct I. constructor; st_simpl.
  - intros ch0 m0 H. apply live_upd in H. destruct H as [[-> ->]|[N H]]; eauto.
  - auto.
  - auto.
  - auto.
  - intros ch0 m0 H. apply live_upd in H. destruct H as [[-> ->]|[N H]]; [|eauto].
    unfold tok_meta. st_simpl. eauto.
  - intros ch0 m0 H. apply live_upd in H. destruct H as [[-> ->]|[N H]]; [|eauto].
    destruct (I_ok0 _ _ L) as [A B C D]. unfold tok_meta. constructor; st_simpl; auto.
  - eapply sound_upd; eauto.
  - eapply soundr_upd; eauto.
  - auto.
  - eapply sound_upd; eauto.
  - eapply sound_upd; eauto.
  - intros k ch0. rewrite lookup_insert. destruct (lz_eqb k [r; t]) eqn:E.
    + intros H. keq. subst. exists (tok_meta m r t). split; [apply live_upd; auto|].
      exists r, t. auto.
    + intros H. pose proof (S1 _ _ H) as H0. destruct (I_tok0 _ _ H0) as [m0 [Hl Hp]].
      destruct (Z.eq_dec ch0 ch) as [->|N].
      * rewrite L in Hl. keq. subst. exfalso. eapply N1; eauto.
      * exists m0. split; [apply live_upd; auto | exact Hp].
Qed.

Lemma Inv_token s ch r t s' o :
  Inv s -> op_token fixed s ch r t = Some (s', o) -> Inv s'.
Proof.
  intros I. unfold op_token. destruct (lookup [ch] (s_conns s)) as [m|] eqn:L; [|discriminate].
  destruct (m_tok m) as [[r0 t0]|] eqn:Et; intros H; inversion H; subst; clear H.
  - refine (Inv_token_gen s ch m r t (remove_if [r0; t0] ch (s_tok s)) I L _ _).
    + apply submap_remove_if.
    + intros k Hk [r1 [t1 [Ht Ek]]]. rewrite Et in Ht. keq. subst.
      rewrite lookup_remove_if, lz_eqb_refl in Hk.
      destruct (lookup [r1; t1] (s_tok s)) as [c|]; [|discriminate].
      destruct (c =? ch) eqn:E; [discriminate|]. keq. lia.
  - refine (Inv_token_gen s ch m r t (s_tok s) I L _ _).
    + apply submap_refl.
    + intros k Hk [r1 [t1 [Ht Ek]]]. congruence.
Qed.

(** ** Creating a connection in the vacant slab slot *)
Lemma vacant_not_live s : Inv s -> lookup [vacant_key s] (s_conns s) = None.
Proof.
  intros I. destruct (lookup [vacant_key s] (s_conns s)) as [m|] eqn:L; [|reflexivity].
  exfalso. destruct (I_range _ I _ _ L) as [R NF]. unfold vacant_key in *.
  destruct (s_free s) as [|k f]; [lia | apply NF; left; reflexivity].
Qed.

Lemma Inv_create s ids1 m :
  Inv s ->
  (forall c0 ch0, lookup c0 (s_ids s) = Some ch0 -> lookup c0 ids1 = Some ch0) ->
  (forall c0 ch0, lookup c0 ids1 = Some ch0 ->
                  lookup c0 (s_ids s) = Some ch0 \/ (ch0 = vacant_key s /\ P_ids c0 m)) ->
  m_inc m = s_epoch s -> conn_ok ids1 (vacant_key s) m ->
  Inv (slab_insert (set_ids s ids1) m).
Proof.
  intros I Mono New Einc Ok. pose proof (vacant_not_live s I) as NL.
  assert (Hv : 0 <= vacant_key s /\
               (vacant_key s < match s_free s with _ :: _ => s_hwm s | [] => s_hwm s + 1 end) /\
               ~ In (vacant_key s) (match s_free s with _ :: f => f | [] => [] end)).
  { unfold vacant_key. destruct (s_free s) as [|k f] eqn:Ef.
    - pose proof (I_hwm _ I). simpl. lia.
    - pose proof (I_free _ I k) as R. rewrite Ef in R. specialize (R (or_introl eq_refl)).
      pose proof (I_fnodup _ I) as ND. rewrite Ef in ND. inversion ND; subst. repeat split; try lia. assumption. }
  destruct Hv as [Hv0 [Hv1 Hv2]].
  unfold slab_insert. change (vacant_key (set_ids s ids1)) with (vacant_key s).
  change (s_free (set_ids s ids1)) with (s_free s).
  set (ch := vacant_key s) in *.
  destruct I.
  destruct (s_free s) as [|k f] eqn:Ef; constructor; st_simpl.
  all: try (intros ch0 m0 H; apply live_upd in H; destruct H as [[-> ->]|[N H]];
            [ first [ split; [lia | exact Hv2] | lia | exact Ok ]
            | first [ destruct (I_range0 _ _ H) as [R NF]; split; [lia | first [ exact NF | intros Hin; apply NF; right; exact Hin ] ]
                    | pose proof (I_inc0 _ _ H); lia
                    | eapply ok_ids_change; [eauto|]; intros k0 c0 Hk Hn; apply Mono;
                      destruct (I_ok0 _ _ H) as [A _ _ _]; eauto ] ]).
  all: try (intros k0 Hin; first [ contradiction | (assert (0 <= k0 < s_hwm s) by (apply I_free0; right; exact Hin)); lia ]).
  all: try (first [ constructor | (inversion I_fnodup0; assumption) ]; fail).
  all: try lia.
  all: try (intros c0 ch0 H; destruct (New _ _ H) as [H0|[-> Hp]];
            [ revert H0; apply sound_new; assumption
            | exists m; split; [apply live_upd; auto | exact Hp] ]).
  all: try (apply soundr_new; assumption).
  all: try (apply sound_new; assumption).
  all: try assumption.
Qed.

(** ** Drained *)
Lemma In_vals_lookup (m : amap key) c : nodupk m -> In c (map snd m) -> exists k, lookup k m = Some c.
Proof.
  intros D H. apply in_map_iff in H. destruct H as [[k v] [E H]]. simpl in E. subst v.
  exists k. apply In_lookup; assumption.
Qed.

Lemma lookup_vals (m : amap key) k c : lookup k m = Some c -> In c (map snd m).
Proof. intros H. apply lookup_In in H. apply in_map_iff. exists (k, c). auto. Qed.

Lemma Inv_drained s ch s' : Inv s -> do_drained fixed s ch = Some s' -> Inv s'.
Proof.
  intros I. unfold do_drained, slab_remove.
  destruct (lookup [ch] (s_conns s)) as [m|] eqn:L; [|intros H; inversion H; subst; exact I].
  unfold index_remove. cbn [v_guard fixed].
  set (s1 := mkSt (s_len s) (s_pref s) (s_init s) (s_ids s) (s_in s) (s_out s) (s_tok s)
                  (remove [ch] (s_conns s)) (ch :: s_free s) (s_hwm s) (s_incs s) (s_nincs s)
                  (s_buf s) (s_epoch s)).
  (* the slab and per-connection part, with all maps cleaned *)
  assert (G : forall init' tok',
             submap init' (s_init s) -> (forall x, lookup x init' <> Some (RConn ch)) ->
             lookup [] init' = None ->
             submap tok' (s_tok s) -> (forall k, lookup k tok' <> Some ch) ->
             Inv (mkSt (s_len s) (s_pref s) init' (remove_all (map snd (m_loc m)) (s_ids s))
                       (remove_if [m_remote m; m_local m] ch (s_in s))
                       (remove_if [m_remote m] ch (s_out s)) tok'
                       (remove [ch] (s_conns s)) (ch :: s_free s) (s_hwm s) (s_incs s) (s_nincs s)
                       (s_buf s) (s_epoch s))).
  { intros init' tok' Si Ni Nn St Nt.
    pose proof (I_ok _ I _ _ L) as [A B C D].
    destruct I. constructor; st_simpl.
    - intros ch0 m0 H. apply live_del in H. destruct H as [N H].
      destruct (I_range0 _ _ H) as [R NF]. split; [exact R|]. intros [E|Hin]; [congruence | auto].
    - intros k [<-|Hin]; [apply (I_range0 _ _ L) | auto].
    - constructor; [apply (I_range0 _ _ L) | exact I_fnodup0].
    - auto.
    - intros ch0 m0 H. apply live_del in H. destruct H as [N H]. eauto.
    - intros ch0 m0 H. apply live_del in H. destruct H as [N H].
      eapply ok_ids_change; [eauto|]. intros k c0 Hk Hn. rewrite lookup_remove_all.
      destruct (I_ok0 _ _ H) as [A0 _ _ _]. pose proof (A0 _ _ Hk Hn) as Hc0.
      destruct (existsb (lz_eqb c0) (map snd (m_loc m))) eqn:E; [|exact Hc0].
      apply existsb_lz in E. apply In_vals_lookup in E; [|exact D]. destruct E as [k1 Hk1].
      rewrite (A _ _ Hk1 Hn) in Hc0. keq. congruence.
    - apply sound_del.
      + eapply sound_sub; [apply submap_remove_all | exact I_ids0].
      + intros c0 Hc0. rewrite lookup_remove_all in Hc0.
        destruct (existsb (lz_eqb c0) (map snd (m_loc m))) eqn:E; [discriminate|].
        destruct (I_ids0 _ _ Hc0) as [m0 [Hl [k Hk]]]. rewrite L in Hl. keq. subst.
        apply lookup_vals in Hk. apply existsb_lz in Hk. congruence.
    - apply soundr_del; [eapply soundr_sub; eauto | exact Ni].
    - exact Nn.
    - apply sound_del.
      + eapply sound_sub; [apply submap_remove_if | exact I_in0].
      + intros k Hk. rewrite lookup_remove_if in Hk.
        destruct (lz_eqb k [m_remote m; m_local m]) eqn:E.
        * destruct (lookup [m_remote m; m_local m] (s_in s)) as [c|]; [|discriminate].
          destruct (c =? ch) eqn:E2; [discriminate|]. keq. lia.
        * destruct (I_in0 _ _ Hk) as [m0 [Hl [_ Ek]]]. rewrite L in Hl. keq. subst. congruence.
    - apply sound_del.
      + eapply sound_sub; [apply submap_remove_if | exact I_out0].
      + intros k Hk. rewrite lookup_remove_if in Hk.
        destruct (lz_eqb k [m_remote m]) eqn:E.
        * destruct (lookup [m_remote m] (s_out s)) as [c|]; [|discriminate].
          destruct (c =? ch) eqn:E2; [discriminate|]. keq. lia.
        * destruct (I_out0 _ _ Hk) as [m0 [Hl [_ Ek]]]. rewrite L in Hl. keq. subst. congruence.
    - apply sound_del; [eapply sound_sub; eauto | exact Nt]. }
  (* reset tokens *)
  assert (T : exists tok', submap tok' (s_tok s) /\ (forall k, lookup k tok' <> Some ch) /\
                           forall sx, s_tok sx = s_tok s ->
                             s_tok (match m_tok m with
                                    | Some rt => set_tok sx (tok_remove fixed rt ch (s_tok sx))
                                    | None => sx
                                    end) = tok').
  { destruct (m_tok m) as [[r0 t0]|] eqn:Et.
    - exists (remove_if [r0; t0] ch (s_tok s)). split; [apply submap_remove_if|]. split.
      + intros k Hk. rewrite lookup_remove_if in Hk. destruct (lz_eqb k [r0; t0]) eqn:E.
        * destruct (lookup [r0; t0] (s_tok s)) as [c|]; [|discriminate].
          destruct (c =? ch) eqn:E2; [discriminate|]. keq. lia.
        * destruct (I_tok _ I _ _ Hk) as [m0 [Hl [r1 [t1 [Ht Ek]]]]]. rewrite L in Hl. keq. subst.
          rewrite Et in Ht. keq. subst. congruence.
      + intros sx Ex. st_simpl. unfold tok_remove, tok_key. cbn [v_guard fixed fst snd]. rewrite Ex. reflexivity.
    - exists (s_tok s). split; [apply submap_refl|]. split; [|auto].
      intros k Hk. destruct (I_tok _ I _ _ Hk) as [m0 [Hl [r1 [t1 [Ht Ek]]]]]. rewrite L in Hl. keq. subst.
      congruence. }
  destruct T as [tok' [St [Nt Et]]].
  destruct (m_server m) eqn:Sv.
  - unfold remove_initial. change (s_init s1) with (s_init s).
    destruct (is_nil (m_init m)) eqn:En.
    + intros H. inversion H; subst; clear H.
      specialize (G (s_init s) tok' (submap_refl _)).
      match goal with |- Inv ?x => assert (Ex : x = mkSt (s_len s) (s_pref s) (s_init s) (remove_all (map snd (m_loc m)) (s_ids s))
                       (remove_if [m_remote m; m_local m] ch (s_in s))
                       (remove_if [m_remote m] ch (s_out s)) tok'
                       (remove [ch] (s_conns s)) (ch :: s_free s) (s_hwm s) (s_incs s) (s_nincs s)
                       (s_buf s) (s_epoch s)) end.
      { rewrite <- (Et (set_out (set_in (set_ids s1 (remove_all (map snd (m_loc m)) (s_ids s1)))
                  (remove_if [m_remote m; m_local m] ch (s_in (set_ids s1 (remove_all (map snd (m_loc m)) (s_ids s1))))))
                  (remove_if [m_remote m] ch (s_out s)))) by reflexivity.
        destruct (m_tok m); reflexivity. }
      rewrite Ex. apply G; auto.
      * intros x Hx. destruct (I_init _ I _ _ Hx) as [m0 [Hl [_ Ei]]]. rewrite L in Hl. keq. subst.
        destruct (m_init m0); [|discriminate]. rewrite (I_initnil _ I) in Hx. discriminate.
      * apply I.
    + destruct (mem (m_init m) (s_init s)); [|discriminate].
      intros H. inversion H; subst; clear H.
      specialize (G (remove (m_init m) (s_init s)) tok' (submap_remove _ _)).
      match goal with |- Inv ?x => assert (Ex : x = mkSt (s_len s) (s_pref s) (remove (m_init m) (s_init s)) (remove_all (map snd (m_loc m)) (s_ids s))
                       (remove_if [m_remote m; m_local m] ch (s_in s))
                       (remove_if [m_remote m] ch (s_out s)) tok'
                       (remove [ch] (s_conns s)) (ch :: s_free s) (s_hwm s) (s_incs s) (s_nincs s)
                       (s_buf s) (s_epoch s)) end.
      { rewrite <- (Et (set_out (set_in (set_ids (set_init s1 (remove (m_init m) (s_init s1))) (remove_all (map snd (m_loc m)) (s_ids s1)))
                  (remove_if [m_remote m; m_local m] ch (s_in s)))
                  (remove_if [m_remote m] ch (s_out s)))) by reflexivity.
        destruct (m_tok m); reflexivity. }
      rewrite Ex. apply G; auto.
      * intros x Hx. rewrite lookup_remove in Hx. destruct (lz_eqb x (m_init m)) eqn:E; [discriminate|].
        destruct (I_init _ I _ _ Hx) as [m0 [Hl [_ Ei]]]. rewrite L in Hl. keq. subst. congruence.
      * rewrite lookup_remove. destruct (lz_eqb [] (m_init m)); [reflexivity | apply I].
  - intros H. inversion H; subst; clear H.
    specialize (G (s_init s) tok' (submap_refl _)).
    match goal with |- Inv ?x => assert (Ex : x = mkSt (s_len s) (s_pref s) (s_init s) (remove_all (map snd (m_loc m)) (s_ids s))
                     (remove_if [m_remote m; m_local m] ch (s_in s))
                     (remove_if [m_remote m] ch (s_out s)) tok'
                     (remove [ch] (s_conns s)) (ch :: s_free s) (s_hwm s) (s_incs s) (s_nincs s)
                     (s_buf s) (s_epoch s)) end.
    { rewrite <- (Et (set_out (set_in (set_ids s1 (remove_all (map snd (m_loc m)) (s_ids s1)))
                (remove_if [m_remote m; m_local m] ch (s_in s)))
                (remove_if [m_remote m] ch (s_out s)))) by reflexivity.
      destruct (m_tok m); reflexivity. }
    rewrite Ex. apply G; auto.
    + intros x Hx. destruct (I_init _ I _ _ Hx) as [m0 [Hl [Sv0 _]]]. rewrite L in Hl. keq. subst. congruence.
    + apply I.
Qed.

(** ** connect / accept *)
Lemma set_ids_id s : set_ids s (s_ids s) = s.
Proof. destruct s; reflexivity. Qed.

Lemma cid_added_form s ch c s1 :
  cid_added s ch c s1 ->
  exists ids1, s1 = set_ids s ids1 /\
    (forall c0 ch0, lookup c0 (s_ids s) = Some ch0 -> lookup c0 ids1 = Some ch0) /\
    (forall c0 ch0, lookup c0 ids1 = Some ch0 -> lookup c0 (s_ids s) = Some ch0 \/ (ch0 = ch /\ c0 = c)) /\
    (c <> [] -> lookup c ids1 = Some ch) /\
    (c <> [] -> lookup c (s_ids s) = None).
Proof.
  intros [[-> ->]|[F ->]].
  - exists (s_ids s). rewrite set_ids_id. repeat split; auto; congruence.
  - exists (insert c ch (s_ids s)). split; [reflexivity|]. repeat split.
    + intros c0 ch0 H. rewrite lookup_insert. destruct (lz_eqb c0 c) eqn:E; [|exact H]. keq. congruence.
    + intros c0 ch0. rewrite lookup_insert. destruct (lz_eqb c0 c) eqn:E; [|auto].
      intros H. keq. subst. auto.
    + intros _. rewrite lookup_insert, lz_eqb_refl. reflexivity.
    + auto.
Qed.

Lemma live_slab_insert s m : lookup [vacant_key s] (s_conns (slab_insert s m)) = Some m.
Proof.
  unfold slab_insert. destruct (s_free s); st_simpl; rewrite lookup_insert, lz_eqb_refl; reflexivity.
Qed.

Lemma slab_insert_fields s m :
  s_ids (slab_insert s m) = s_ids s /\ s_in (slab_insert s m) = s_in s /\ s_out (slab_insert s m) = s_out s.
Proof. unfold slab_insert. destruct (s_free s); st_simpl; auto. Qed.

Lemma Inv_add_connection s ids1 init locs issued loc r l server :
  let ch := vacant_key s in
  let m := mkMeta (s_epoch s) init issued locs r l server None in
  Inv s ->
  (forall c0 ch0, lookup c0 (s_ids s) = Some ch0 -> lookup c0 ids1 = Some ch0) ->
  (forall c0 ch0, lookup c0 ids1 = Some ch0 -> lookup c0 (s_ids s) = Some ch0 \/ (ch0 = ch /\ P_ids c0 m)) ->
  conn_ok ids1 ch m ->
  (loc <> [] -> lookup loc ids1 = Some ch) ->
  let s' := add_connection (set_ids s ids1) ch init locs issued loc r l server in
  Inv s' /\ live s' ch m.
Proof.
  intros ch m I Mono New Ok Hloc. cbv zeta.
  pose proof (Inv_create s ids1 m I Mono New eq_refl Ok) as I1.
  unfold add_connection. change (s_epoch (set_ids s ids1)) with (s_epoch s). fold m.
  pose proof (live_slab_insert (set_ids s ids1) m) as L1.
  change (vacant_key (set_ids s ids1)) with ch in L1.
  destruct (slab_insert_fields (set_ids s ids1) m) as [Ei [Ein Eo]].
  set (s1 := slab_insert (set_ids s ids1) m) in *.
  unfold insert_conn. destruct (is_nil loc) eqn:En.
  - destruct server.
    + split; [exact (Inv_set_in s1 ch m I1 L1 eq_refl) | exact L1].
    + split; [exact (Inv_set_out s1 ch m I1 L1 eq_refl) | exact L1].
  - split; [|exact L1]. apply Inv_ids_ext; [exact I1|].
    intros c. rewrite lookup_insert. destruct (lz_eqb c loc) eqn:E; [|reflexivity].
    keq. subst. rewrite Ei. st_simpl. symmetry. apply Hloc. destruct loc; [discriminate | congruence].
Qed.

Lemma ok_single ids ch inc init c r l sv :
  (c <> [] -> lookup c ids = Some ch) ->
  conn_ok ids ch (mkMeta inc init 1 [([0], c)] r l sv None).
Proof.
  intros H. constructor; st_simpl.
  - intros k c0. cbn [lookup]. destruct (lz_eqb k [0]); [|discriminate]. intros E N. keq. subst. auto.
  - intros k1 k2 c0. cbn [lookup]. destruct (lz_eqb k1 [0]) eqn:E1; [|discriminate].
    destruct (lz_eqb k2 [0]) eqn:E2; [|discriminate]. keq. congruence.
  - intros q Hq. cbn [lookup]. rewrite lz_single. destruct (q =? 0) eqn:E; [lia | reflexivity].
  - unfold nodupk. cbn [map fst]. repeat constructor. simpl. tauto.
Qed.

Lemma ok_pair ids ch inc init c1 c2 r l sv :
  (c1 <> [] -> lookup c1 ids = Some ch) -> (c2 <> [] -> lookup c2 ids = Some ch) ->
  (c1 <> [] -> c1 <> c2) ->
  conn_ok ids ch (mkMeta inc init 2 [([1], c2); ([0], c1)] r l sv None).
Proof.
  intros H1 H2 Hd. constructor; st_simpl.
  - intros k c0. cbn [lookup]. destruct (lz_eqb k [1]).
    + intros E N. keq. subst. auto.
    + destruct (lz_eqb k [0]); [|discriminate]. intros E N. keq. subst. auto.
  - intros k1 k2 c0. cbn [lookup].
    destruct (lz_eqb k1 [1]) eqn:E1; destruct (lz_eqb k2 [1]) eqn:E2; keq; subst.
    + reflexivity.
    + destruct (lz_eqb k2 [0]) eqn:E3; [|discriminate]. intros A B N. keq. subst. exfalso. apply (Hd N). reflexivity.
    + destruct (lz_eqb k1 [0]) eqn:E3; [|discriminate]. intros A B N. keq. subst. exfalso. apply (Hd N). reflexivity.
    + destruct (lz_eqb k1 [0]) eqn:E3; [|discriminate]. destruct (lz_eqb k2 [0]) eqn:E4; [|discriminate].
      keq. congruence.
  - intros q Hq. cbn [lookup]. rewrite !lz_single.
    destruct (q =? 1) eqn:E; [lia|]. destruct (q =? 0) eqn:E0; [lia | reflexivity].
  - unfold nodupk. cbn [map fst]. repeat constructor; simpl; intuition discriminate.
Qed.

Lemma Inv_remove_nil_id s : Inv s -> Inv (set_ids s (remove [] (s_ids s))).
Proof.
  intros []. constructor; st_simpl; auto.
  - intros ch m L. eapply ok_ids_change; [eauto|]. intros k c Hk Hn. rewrite lookup_remove.
    destruct (lz_eqb c []) eqn:E; [keq; congruence|]. destruct (I_ok0 _ _ L) as [A _ _ _]. eauto.
  - eapply sound_sub; [apply submap_remove | assumption].
Qed.

Lemma Inv_connect s r fail cands s' o :
  Inv s -> op_connect fixed s r fail cands = Some (s', o) -> Inv s'.
Proof.
  intros I. unfold op_connect.
  destruct (cids_exhausted s); [intros H; inversion H; subst; exact I|].
  destruct (r =? 0); [intros H; inversion H; subst; exact I|].
  destruct (new_cid s (vacant_key s) (stream (s_len s) cands)) as [[[loc s1] rest]|] eqn:N; [|discriminate].
  apply new_cid_spec in N.
  destruct (negb (fail =? 0)).
  - cbn [v_cleanup fixed]. intros H. inversion H; subst; clear H.
    destruct N as [[-> ->]|[F ->]].
    + apply Inv_remove_nil_id. exact I.
    + st_simpl.
      change (set_ids (set_ids s (insert loc (vacant_key s) (s_ids s))) (remove loc (insert loc (vacant_key s) (s_ids s))))
        with (set_ids s (remove loc (insert loc (vacant_key s) (s_ids s)))).
      apply Inv_ids_ext; [exact I|]. intros c. rewrite lookup_remove, lookup_insert.
      destruct (lz_eqb c loc) eqn:E; [|reflexivity]. keq. subst. symmetry. exact F.
  - intros H. inversion H; subst; clear H.
    apply cid_added_form in N. destruct N as [ids1 [-> [Mono [New [Hl _]]]]].
    refine (proj1 (Inv_add_connection s ids1 _ _ _ _ _ _ _ I Mono _ _ Hl)).
    + intros c0 ch0 H. destruct (New _ _ H) as [H0|[-> ->]]; [auto|]. right. split; [reflexivity|].
      exists [0]. st_simpl. cbn [lookup]. rewrite lz_eqb_refl. reflexivity.
    + apply ok_single. exact Hl.
Qed.

Lemma Inv_insert_initial_conn s x ch m :
  Inv s -> live s ch m -> m_server m = true -> m_init m = x -> Inv (insert_initial s x (RConn ch)).
Proof.
  intros I L Sv E. unfold insert_initial. destruct (is_nil x) eqn:En; [exact I|].
  eapply Inv_init_conn; eauto. destruct x; [discriminate | congruence].
Qed.

Lemma Inv_accept s k stale cands s' o :
  Inv s -> op_accept fixed s k stale cands = Some (s', o) -> Inv s'.
Proof.
  intros I. unfold op_accept.
  destruct (lookup [k] (s_incs s)) as [i|]; [|intros H; inversion H; subst; exact I].
  set (s0 := set_incs s (remove [k] (s_incs s)) (s_nincs s) (s_buf s - i_bytes i)).
  assert (I0 : Inv s0) by (apply Inv_set_incs; exact I).
  destruct (negb (stale =? 0)).
  { destruct (remove_initial s0 (i_dcid i)) as [s1|] eqn:R; [|discriminate].
    intros H. inversion H; subst. eapply remove_initial_inv; eauto. }
  destruct (cids_exhausted s0).
  { destruct (remove_initial s0 (i_dcid i)) as [s1|] eqn:R; [|discriminate].
    intros H. inversion H; subst. eapply remove_initial_inv; eauto. }
  destruct (new_cid s0 (vacant_key s0) (stream (s_len s) cands)) as [[[loc s1] str1]|] eqn:N1; [|discriminate].
  apply new_cid_spec in N1. apply cid_added_form in N1.
  destruct N1 as [ids1 [-> [Mono1 [New1 [Hl1 _]]]]].
  assert (Fin : forall s3 m, Inv s3 -> live s3 (vacant_key s0) m -> m_server m = true -> m_init m = i_dcid i ->
                  (if i_bad i =? 1
                   then match do_drained fixed (insert_initial s3 (i_dcid i) (RConn (vacant_key s0))) (vacant_key s0) with
                        | Some s5 => Some (s5, [1; 3])
                        | None => None
                        end
                   else Some (insert_initial s3 (i_dcid i) (RConn (vacant_key s0)), [0; vacant_key s0])) = Some (s', o) ->
                  Inv s').
  { intros s3 m I3 L3 Sv Ei.
    pose proof (Inv_insert_initial_conn s3 (i_dcid i) (vacant_key s0) m I3 L3 Sv Ei) as I4.
    destruct (i_bad i =? 1).
    - destruct (do_drained fixed (insert_initial s3 (i_dcid i) (RConn (vacant_key s0))) (vacant_key s0)) as [s5|] eqn:D; [|discriminate].
      intros H. inversion H; subst. eapply Inv_drained; eauto.
    - intros H. inversion H; subst. exact I4. }
  destruct (s_pref s).
  - destruct (new_cid (set_ids s0 ids1) (vacant_key s0) str1) as [[[c2 s2] str2]|] eqn:N2; [|discriminate].
    apply new_cid_spec in N2. apply cid_added_form in N2.
    destruct N2 as [ids2 [-> [Mono2 [New2 [Hl2 Hf2]]]]].
    change (s_ids (set_ids s0 ids1)) with ids1 in *.
    change (set_ids (set_ids s0 ids1) ids2) with (set_ids s0 ids2).
    pose proof (Inv_add_connection s0 ids2 (i_dcid i) [([1], c2); ([0], loc)] 2 loc (i_remote i) (i_local i) true I0) as A.
    cbv zeta in A. destruct A as [I3 L3].
    + intros c0 ch0 H. auto.
    + intros c0 ch0 H. destruct (New2 _ _ H) as [H0|[-> ->]].
      * destruct (New1 _ _ H0) as [H1|[-> ->]]; [auto|]. right. split; [reflexivity|].
        exists [0]. st_simpl. cbn [lookup]. destruct (lz_eqb [0] [1]) eqn:E; [keq; lia|]. rewrite lz_eqb_refl. reflexivity.
      * right. split; [reflexivity|]. exists [1]. st_simpl. cbn [lookup]. rewrite lz_eqb_refl. reflexivity.
    + apply ok_pair; auto.
      intros Nl E. subst c2. rewrite (Hf2 Nl) in Hl1. specialize (Hl1 Nl). discriminate.
    + auto.
    + eapply Fin; eauto.
  - pose proof (Inv_add_connection s0 ids1 (i_dcid i) [([0], loc)] 1 loc (i_remote i) (i_local i) true I0) as A.
    cbv zeta in A. destruct A as [I3 L3].
    + auto.
    + intros c0 ch0 H. destruct (New1 _ _ H) as [H1|[-> ->]]; [auto|]. right. split; [reflexivity|].
      exists [0]. st_simpl. cbn [lookup]. rewrite lz_eqb_refl. reflexivity.
    + apply ok_single. exact Hl1.
    + exact Hl1.
    + eapply Fin; eauto.
Qed.

Lemma Inv_datagram s kind r l t b dcid s' o :
  Inv s -> op_datagram s kind r l t b dcid = Some (s', o) -> Inv s'.
Proof.
  intros I. unfold op_datagram.
  destruct (get s kind r l t dcid) as [[k|ch]|].
  - destruct (lookup [k] (s_incs s)) as [i|]; [|discriminate].
    destruct ((i_bytes i + datagram_len kind b <=? INC_BUF) && (s_buf s + datagram_len kind b <=? INC_BUF_TOTAL));
      intros H; inversion H; subst; [apply Inv_set_incs|]; exact I.
  - intros H; inversion H; subst; exact I.
  - destruct (kind =? 1).
    + destruct (datagram_len kind b <? MIN_INITIAL); [intros H; inversion H; subst; exact I|].
      destruct (cids_exhausted s); [intros H; inversion H; subst; exact I|].
      destruct (Z.of_nat (length dcid) <? 8) eqn:E8; [intros H; inversion H; subst; exact I|].
      intros H; inversion H; subst. unfold insert_initial.
      destruct (is_nil dcid) eqn:En; [apply Inv_set_incs; exact I|].
      apply Inv_init_inc with (s := set_incs s _ _ _); [apply Inv_set_incs; exact I|].
      destruct dcid; [discriminate | congruence].
    + destruct (negb (kind =? 0)); [intros H; inversion H; subst; exact I|].
      destruct (is_nil dcid); intros H; inversion H; subst; exact I.
Qed.

Lemma Inv_reject s k s' o : Inv s -> op_reject s k = Some (s', o) -> Inv s'.
Proof.
  intros I. unfold op_reject.
  destruct (lookup [k] (s_incs s)) as [i|]; [|intros H; inversion H; subst; exact I].
  destruct (remove_initial s (i_dcid i)) as [s1|] eqn:R; [|discriminate].
  intros H; inversion H; subst. apply Inv_set_incs. eapply remove_initial_inv; eauto.
Qed.

Lemma Inv_issue n : forall s ch str s' o, Inv s -> issue s ch n str = Some (s', o) -> Inv s'.
Proof.
  induction n as [|n IH]; intros s ch str s' o I; cbn [issue].
  - intros H; inversion H; subst; exact I.
  - destruct (new_cid s ch str) as [[[c s1] str1]|] eqn:N; [|discriminate].
    apply new_cid_spec in N.
    assert (Ec : s_conns s1 = s_conns s) by (destruct N as [[_ ->]|[_ ->]]; reflexivity).
    rewrite Ec. destruct (lookup [ch] (s_conns s)) as [m|] eqn:L; [|discriminate].
    pose proof (Inv_issue_one s ch m c s1 I L N) as I1. unfold issue_meta in I1.
    destruct (issue _ ch n str1) as [[s2 o2]|] eqn:R; [|discriminate].
    intros H; inversion H; subst. eapply IH; eauto.
Qed.

Lemma Inv_retire s ch seq allow cands s' o :
  Inv s -> op_retire s ch seq allow cands = Some (s', o) -> Inv s'.
Proof.
  intros I. unfold op_retire.
  destruct (lookup [ch] (s_conns s)) as [m|] eqn:L; [|discriminate].
  destruct (lookup [seq] (m_loc m)) as [c|] eqn:Hc; [|intros H; inversion H; subst; exact I].
  pose proof (Inv_retire_one s ch m seq c I L Hc) as I1. unfold retire_meta in I1.
  destruct (negb (allow =? 0)).
  - match goal with |- match ?x with _ => _ end = _ -> _ => destruct x as [[s3 o3]|] eqn:R; [|discriminate] end.
    intros H; inversion H; subst. eapply Inv_issue; eauto.
  - intros H; inversion H; subst. exact I1.
Qed.

Theorem step_inv s op s' o : Inv s -> step s op = Some (s', o) -> Inv s'.
Proof.
  intros I. unfold step, step_v.
  assert (B : Some (s, [-1]) = Some (s', o) -> Inv s') by (intros H; inversion H; subst; exact I).
  destruct op as [|opc args]; [exact B|].
  destruct (opc =? 1).
  { destruct args as [|r [|fail rest]]; try exact B.
    destruct (parse_cands (s_len s) rest) as [cands|]; [|exact B]. apply Inv_connect. exact I. }
  destruct (opc =? 2).
  { destruct args as [|kind [|r [|l [|t [|b [|dlen dcid]]]]]]; try exact B.
    match goal with |- (if ?c then _ else _) = _ -> _ => destruct c; [|exact B] end.
    apply Inv_datagram. exact I. }
  destruct (opc =? 3).
  { destruct args as [|k [|stale rest]]; try exact B.
    destruct (parse_cands (s_len s) rest) as [cands|]; [|exact B]. apply Inv_accept. exact I. }
  destruct (opc =? 4).
  { destruct args as [|k [|md [|? ?]]]; try exact B. apply Inv_reject. exact I. }
  destruct (opc =? 5).
  { destruct args as [|ch [|n rest]]; try exact B.
    destruct (parse_cands (s_len s) rest) as [cands|]; [|exact B].
    destruct ((0 <=? ch) && in_range 0 64 n); [|exact B].
    unfold op_issue. destruct (issue s ch (Z.to_nat n) (stream (s_len s) cands)) as [[s1 o1]|] eqn:R; [|discriminate].
    intros H; inversion H; subst. eapply Inv_issue; eauto. }
  destruct (opc =? 6).
  { destruct args as [|ch [|seq [|allow rest]]]; try exact B.
    destruct (parse_cands (s_len s) rest) as [cands|]; [|exact B].
    destruct ((0 <=? ch) && (0 <=? seq)); [|exact B]. apply Inv_retire. exact I. }
  destruct (opc =? 7).
  { destruct args as [|ch [|r [|t [|? ?]]]]; try exact B.
    destruct (0 <=? ch); [|exact B]. apply Inv_token. exact I. }
  destruct (opc =? 8).
  { destruct args as [|ch [|? ?]]; try exact B.
    destruct (0 <=? ch); [|exact B]. unfold op_drained.
    destruct (do_drained fixed s ch) as [s1|] eqn:D; [|discriminate].
    intros H; inversion H; subst. eapply Inv_drained; eauto. }
  exact B.
Qed.
