(** BBR: the window floor. As found ([fx = false]) the faithful model REFUTES it (DESIGN §7 F7):
    an MTU increase during recovery leaves [recovery_window] at the old floor. With the repair
    ([fx = true]) the floor holds for all call histories, all arguments and ALL outcomes of the
    float target computations (every oracle value). *)
From QV Require Import Lib.Tac Lib.Chk Lib.Corr Proofs.ChkProofs Model.Bbr.
Open Scope Z_scope.

Definition inv (s : st) : Prop :=
  0 <= mtu s /\ min_cwnd s = 4 * mtu s /\ 2 * mtu s <= init_cwnd s /\ 2 * mtu s <= cwnd s /\
  (rec s <> 0 -> 2 * mtu s <= rwin s).

Lemma build_inv w m : 0 <= m -> 2 * m <= w -> inv (build w m).
Proof.
  intros Hm Hw. unfold inv, build. cbn [mtu min_cwnd init_cwnd cwnd rec rwin].
  repeat split; try lia.
Qed.

Lemma target_floor s raw : inv s -> 2 * mtu s <= target s raw.
Proof.
  intros (Hm & Hmin & Hinit & _). unfold target. destruct (raw =? 0); lia.
Qed.

Lemma window_floor s r : inv s -> 2 * mtu s <= window s r.
Proof.
  intros Hi. pose proof (target_floor s r Hi) as Ht. destruct Hi as (Hm & Hmin & Hinit & Hc & Hr).
  unfold window. destruct (mode s =? 3); [exact Ht|].
  destruct (negb (rec s =? 0) && negb (mode s =? 0)) eqn:E; [|exact Hc].
  assert (rec s <> 0) as Hne by lia. specialize (Hr Hne). lia.
Qed.

Lemma on_sent_inv s now bytes pn s' : inv s -> on_sent s now bytes pn = Some s' -> inv s'.
Proof.
  intros Hi H. unfold on_sent in H.
  destruct (cadd (total_sent s) bytes); cbn [obind] in H; [|discriminate].
  inversion H; subst. exact Hi.
Qed.

Lemma on_ack_inv s now bytes al rtt s' : inv s -> on_ack s now bytes al rtt = Some s' -> inv s'.
Proof.
  intros Hi H. unfold on_ack in H.
  destruct (cadd (total_acked s) bytes); cbn [obind] in H; [|discriminate].
  match type of H with obind ?o _ = _ => destruct o end; cbn [obind] in H; [|discriminate].
  destruct (cadd (acked_bytes s) bytes); cbn [obind] in H; [|discriminate].
  inversion H; subst. exact Hi.
Qed.

Lemma on_congestion_event_inv s lost s' : inv s -> on_congestion_event s lost = Some s' -> inv s'.
Proof.
  intros Hi H. unfold on_congestion_event in H.
  destruct (cadd (lost_bytes s) lost); cbn [obind] in H; [|discriminate].
  inversion H; subst. exact Hi.
Qed.

Lemma calc_cwnd_floor s p rg c :
  calc_cwnd s p rg = Some c -> c = cwnd s \/ min_cwnd s <= c.
Proof.
  unfold calc_cwnd. destruct (p_mode p =? 3); intro H; [inversion H; left; reflexivity|].
  match type of H with obind ?o _ = _ => destruct o end; cbn [obind] in H; [|discriminate].
  match type of H with obind ?o _ = _ => destruct o as [c0|] end; cbn [obind] in H; [|discriminate].
  inversion H; subst. right. destruct (c0 <? min_cwnd s) eqn:E; lia.
Qed.

Lemma calc_rwin_floor s p infl r :
  calc_rwin s p infl = Some r -> p_rec p <> 0 -> min_cwnd s <= r.
Proof.
  unfold calc_rwin. intros H Hne. destruct (p_rec p =? 0) eqn:E0; [lia|].
  destruct (cadd infl (p_bytes_acked p)) as [fa|]; cbn [obind] in H; [|discriminate].
  destruct (p_rwin p =? 0); [inversion H; lia|].
  match type of H with obind ?o _ = _ => destruct o end; cbn [obind] in H; [|discriminate].
  inversion H; lia.
Qed.

Lemma on_end_acks_inv s now infl al la r075 r1 rg s' :
  inv s -> on_end_acks s now infl al la r075 r1 rg = Some s' -> inv s'.
Proof.
  intros (Hm & Hmin & Hinit & Hc & Hr) H. unfold on_end_acks in H.
  destruct (end_acks_pre s now infl al la r075 r1) as [p|]; cbn [obind] in H; [|discriminate].
  destruct (calc_cwnd s p rg) as [c|] eqn:Ec; cbn [obind] in H; [|discriminate].
  destruct (calc_rwin s p infl) as [r|] eqn:Er; cbn [obind] in H; [|discriminate].
  inversion H; subst. unfold inv. cbn [mtu min_cwnd init_cwnd cwnd rec rwin].
  apply calc_cwnd_floor in Ec. pose proof (calc_rwin_floor s p infl r Er) as Hrw.
  repeat split; try lia.
Qed.

Lemma on_mtu_update_inv s m : 0 <= m -> inv (on_mtu_update true s m).
Proof.
  intro Hm. unfold inv, on_mtu_update. cbn [mtu min_cwnd init_cwnd cwnd rec rwin].
  repeat split; try lia.
Qed.

Lemma step_inv s op r075 r1 rg s' :
  wf_op op -> inv s -> step true s op r075 r1 rg = Some s' -> inv s'.
Proof.
  intros Hwf Hi H. unfold step in H. destruct op as [|c a]; [inversion H; subst; assumption|].
  apply wf_tail in Hwf.
  destruct (c =? 1); [eapply on_sent_inv; eassumption|].
  destruct (c =? 2); [eapply on_ack_inv; eassumption|].
  destruct (c =? 3); [eapply on_end_acks_inv; eassumption|].
  destruct (c =? 4); [eapply on_congestion_event_inv; eassumption|].
  destruct (c =? 6).
  { inversion H; subst. apply on_mtu_update_inv. apply nth_nonneg; assumption. }
  inversion H; subst; assumption.
Qed.

Lemma steps_inv l : forall s s',
  Forall (fun p => wf_op (fst p)) l -> inv s -> steps true s l = Some s' -> inv s'.
Proof.
  induction l as [|[op [[r075 r1] rg]] l IH]; intros s s' Hwf Hi H; cbn [steps] in H.
  - inversion H; subst; assumption.
  - inversion Hwf as [|? ? Hop Hl]; subst. cbn [fst] in Hop.
    destruct (step true s op r075 r1 rg) as [s1|] eqn:E; [|discriminate].
    eapply IH; [exact Hl| |exact H]. eapply step_inv; eassumption.
Qed.

Theorem bbr_floor_fixed : forall w m l s' r,
  0 <= m -> 2 * m <= w ->
  Forall (fun p => wf_op (fst p)) l ->
  steps true (build w m) l = Some s' ->
  2 * mtu s' <= window s' r.
Proof.
  intros w m l s' r Hm Hw Hwf H. apply window_floor.
  apply (steps_inv l (build w m) s' Hwf (build_inv w m Hm Hw) H).
Qed.

(** F7 witness: two bandwidth samples, a first round (ProbeRtt), a lossy round without bandwidth
    growth (full bandwidth reached while in recovery), after the 200 ms dwell a lossy round start
    (ProbeBw, still in recovery, recovery window = 4 * 1200), then MTU 1200 -> 3000. *)
Definition f7_history : list (list Z * (Z * Z * Z)) :=
  map (fun op => (op, (900, 1200, 3461)))
    [[1; 0; 1200; 1]; [1; 1000; 1200; 2]; [2; 2000; 0; 1200; 0; 1000]; [2; 3000; 1000; 1200; 0; 1000];
     [3; 3000; 0; 0; 1; 1]; [1; 4000; 1200; 3]; [2; 5000; 4000; 1200; 0; 1000]; [4; 5000; 4000; 0; 0; 1200];
     [3; 5000; 0; 0; 1; 3]; [1; 204000; 1200; 4]; [2; 205000; 204000; 1200; 0; 1000];
     [4; 205000; 204000; 0; 0; 1200]; [3; 205000; 0; 0; 1; 4]; [6; 3000]].

Lemma f7_wf : Forall (fun p => wf_op (fst p)) f7_history.
Proof. unfold f7_history. cbn [map]. repeat constructor; cbn [fst]; unfold wf_op; repeat constructor; lia. Qed.

Theorem bbr_floor_refuted_before_fix :
  exists w m l s' r,
    0 <= m /\ 2 * m <= w /\ Forall (fun p => wf_op (fst p)) l /\
    steps false (build w m) l = Some s' /\ window s' r < 2 * mtu s'.
Proof.
  exists 12000, 1200, f7_history.
  destruct (steps false (build 12000 1200) f7_history) as [s'|] eqn:E.
  - exists s', 900. repeat split; try lia; try exact f7_wf.
    revert E. vm_compute. intro E. inversion E; subst. vm_compute. reflexivity.
  - exfalso. revert E. vm_compute. discriminate.
Qed.

(** The same history on the repaired controller ends at the new floor. *)
Example f7_history_fixed :
  match steps true (build 12000 1200) f7_history with
  | Some s' => (window s' 900, mtu s', mode s', rec s') = (12000, 3000, 2, 2)
  | None => False
  end.
Proof. vm_compute. reflexivity. Qed.
