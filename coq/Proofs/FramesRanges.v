(** [wf_ranges] (stated on the descending list [Ack::encode] walks) is what an ascending, sorted,
    separated range list — the content of an [ArrayRangeSet] — satisfies. *)
From QV Require Import Lib.Tac Lib.Bytes Lib.Corr Model.Varint Model.Frames.
Open Scope Z_scope.

Definition top_ok (l : list (Z * Z)) : bool :=
  match l with
  | [] => true
  | (s, e) :: tl => (0 <=? s) && (s <? e) && wf_desc s tl
  end.

Definition acc_ok (lo : Z) (acc : list (Z * Z)) : bool :=
  match acc with
  | [] => true
  | (s, e) :: tl => (0 <=? s) && (s <? e) && (e <? lo) && wf_desc s tl
  end.

Lemma sorted_rev_append rs : forall lo acc,
  sorted_asc lo rs = true -> 0 <= lo -> acc_ok lo acc = true ->
  top_ok (rev_append rs acc) = true.
Proof.
  induction rs as [|[s e] tl IH]; intros lo acc Hs Hlo Hacc; cbn [rev_append].
  - destruct acc as [|[s0 e0] t0]; [reflexivity|]. cbn [acc_ok top_ok] in *.
    apply andb_true_iff in Hacc as [Ha Hw]. rewrite Hw, andb_true_r. lia.
  - cbn [sorted_asc] in Hs.
    apply andb_true_iff in Hs as [Hs1 Hs3]. apply andb_true_iff in Hs1 as [Hs1 Hs2].
    apply (IH (e + 1)); [exact Hs3|lia|].
    cbn [acc_ok]. destruct acc as [|[s0 e0] t0]; cbn [wf_desc acc_ok] in *; [lia|].
    apply andb_true_iff in Hacc as [Ha Hw]. rewrite Hw, !andb_true_r. lia.
Qed.

Lemma sorted_asc_wf_ranges rs :
  rs <> [] -> sorted_asc 0 rs = true ->
  (forall s e, hd_error (rev rs) = Some (s, e) -> e <= 2 ^ 62) ->
  wf_ranges rs = true.
Proof.
  intros Hne Hs Htop. unfold wf_ranges.
  pose proof (sorted_rev_append rs 0 [] Hs ltac:(lia) eq_refl) as H.
  rewrite <- rev_alt in H.
  destruct (rev rs) as [|[s e] rest] eqn:Er.
  - apply (f_equal (@rev _)) in Er. rewrite rev_involutive in Er. cbn in Er. congruence.
  - cbn [top_ok] in H. specialize (Htop s e eq_refl).
    apply andb_true_iff in H as [Ha Hw]. rewrite Hw, andb_true_r. lia.
Qed.
