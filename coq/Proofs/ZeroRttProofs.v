(** Proofs about Model/ZeroRtt.v (C17): a rejected 0-RTT state equals a brand-new state. *)
From QV Require Import Lib.Tac Lib.Corr Model.FlowSend Model.ZeroRtt Proofs.FlowSendProofs.
Open Scope Z_scope.

(** The shape of a client state at the end of a 0-RTT phase: nothing was received from the peer
    (no events, no remote stream opened or accepted), every locally opened stream is still in
    the map, and apart from them the map holds exactly the untouched remote streams. *)
Definition EarlyShape (s : State) : Prop :=
  s.(events) = [] /\ s.(opened_bi) = false /\ s.(next_remote_bi) = 0 /\ s.(next_reported_bi) = 0
  /\ exists m1,
       remove_locals s.(side) 0 (Z.to_nat s.(next_bi)) s.(send) = Some m1
       /\ remove_locals s.(side) 1 (Z.to_nat s.(next_uni)) m1
          = Some (remote_bi s.(side) (Z.to_nat s.(max_remote_bi)) []).

(** Field-by-field (whole-record) equality, for ANY new parameters. *)
Theorem rejected_is_fresh_shape s p :
  EarlyShape s -> reject_and_params p s = Some (fresh_with p s).
Proof.
  intros (He & Ho & Hr & Hp & m1 & R1 & R2).
  unfold reject_and_params, do_reject, reject_with, CODE_FIXED. rewrite R1, R2.
  unfold fresh_with. rewrite start_state. f_equal.
  pose proof (remote_bi_allnone s.(side) (Z.to_nat s.(max_remote_bi))) as An.
  destruct s. cbn in *. subst.
  unfold do_set_params. cbn -[set_remote_limits].
  rewrite !(set_remote_limits_none _ _ _ An). reflexivity.
Qed.

(** The brand-new state itself has the early shape (base case of [C17_rejected_is_fresh_full]). *)
Lemma early_shape_start sd mrb sw p0 :
  0 <= sd <= 1 -> EarlyShape (do_set_params p0 (init sd mrb sw)).
Proof.
  intros Hs. rewrite start_state. unfold EarlyShape. cbn.
  repeat split. eexists. split; [reflexivity|].
  rewrite (set_remote_limits_none _ _ _ (remote_bi_allnone sd (Z.to_nat mrb))). reflexivity.
Qed.

(** Before the repair ([reject_with false] = the code as found) the equality fails: F3. *)
Definition case_f3 : ops :=
  [[0; 0; 0; 0; 100]; [1; 5000; 1; 0; 500; 500; 500]; [2; 0]; [3; 0; 100]].
Definition state_after (i : ops) : State :=
  fold_left (fun s op => match step op s with Some (s', _) => s' | None => s end) i init0.
Definition p_f3 : Params := mkParams 5000 1 0 500 500 500.

Lemma rejected_is_fresh_refuted_before_fix :
  exists s p, EarlyShape s /\
    match reject_with false s with
    | Some s' => unacked_data (do_set_params p s') <> unacked_data (fresh_with p s)
    | None => False
    end.
Proof.
  exists (state_after case_f3), p_f3. split.
  - unfold EarlyShape. vm_compute. repeat split. eexists. split; reflexivity.
  - vm_compute. discriminate.
Qed.

Lemma rejected_max_data_refuted_before_fix :
  exists s p,
    match reject_with false s with
    | Some s' => max_data (do_set_params p s') <> max_data (fresh_with p s)
    | None => False
    end.
Proof.
  exists (state_after [[0; 0; 0; 0; 1048576]; [1; 5000; 1; 0; 5000; 5000; 5000]]),
         (mkParams 1000 1 0 5000 5000 5000).
  vm_compute. discriminate.
Qed.

(** Non-vacuity: a non-trivial early state (two streams, one blocked by the window, data sent). *)
Definition case_early : ops :=
  [[0; 0; 0; 2; 100]; [1; 5000; 2; 1; 500; 80; 500]; [2; 0]; [2; 1]; [3; 0; 100]; [3; 2; 50];
   [9; 1200]; [4; 0]; [2; 0]; [5; 4]].

Example early_shape_example :
  EarlyShape (state_after case_early) /\ next_bi (state_after case_early) = 2
  /\ data_sent (state_after case_early) = 100 /\ unacked_data (state_after case_early) = 100.
Proof.
  split; [|vm_compute; repeat split].
  unfold EarlyShape. vm_compute. repeat split. eexists. split; reflexivity.
Qed.

(** ** Retry ([retransmit_all_for_0rtt]) *)
Definition case_lone_fin : ops :=
  [[0; 0; 0; 0; 1048576]; [1; 5000; 2; 1; 500; 500; 500]; [2; 0]; [4; 0]; [9; 1200]].

(** Before 'fix: resend the FIN of an early stream finished without data after a Retry'
    ([retry_with false]) the stream is neither [fin_pending] nor queued after the Retry. *)
Lemma retry_lone_fin_refuted_before_fix :
  match retry_with false (state_after case_lone_fin) with
  | Some s' =>
      match lookup 0 s'.(send) with
      | Some (Some x) => is_pending x = false /\ s'.(pendq) = [] /\ x.(s_state) = 1
      | _ => False
      end
  | None => False
  end.
Proof. vm_compute. repeat split. Qed.

(** With the repaired code it is pending again. *)
Lemma retry_lone_fin_fixed :
  match do_retry (state_after case_lone_fin) with
  | Some s' =>
      match lookup 0 s'.(send) with
      | Some (Some x) => x.(s_fin_pending) = true /\ s'.(pendq) = [0] /\ x.(s_unsent) = 0
      | _ => False
      end
  | None => False
  end.
Proof. vm_compute. repeat split. Qed.
