From QV Require Import Lib.Tac Lib.Bytes Lib.Corr Model.Varint Proofs.BytesProofs.
Open Scope Z_scope.

Lemma decode_be_bytes_succ k X r :
  0 <= X < 256 ^ Z.of_nat (S k) ->
  extra (X / 256 ^ Z.of_nat k / 64) = k ->
  decode (be_bytes (S k) X ++ r) =
    Some ((X / 256 ^ Z.of_nat k) mod 64 * 256 ^ Z.of_nat k + X mod 256 ^ Z.of_nat k, r).
Proof.
  intros HX Hk.
  assert (Hp : 0 < 256 ^ Z.of_nat k) by (apply Z.pow_pos_nonneg; lia).
  assert (Hb0 : (X / 256 ^ Z.of_nat k) mod 256 = X / 256 ^ Z.of_nat k).
  { apply Z.mod_small. rewrite Nat2Z.inj_succ, Z.pow_succ_r in HX by lia.
    split; [apply Z.div_pos; lia|]. apply Z.div_lt_upper_bound; lia. }
  cbn [be_bytes app]. unfold decode. rewrite Hb0, Hk.
  rewrite app_length, be_bytes_length.
  replace (Nat.ltb (k + length r) k) with false by (symmetry; apply Nat.ltb_ge; lia).
  rewrite firstn_app_exact, skipn_app_exact by apply be_bytes_length.
  rewrite be_val_be_bytes. reflexivity.
Qed.

Lemma varint_roundtrip x r :
  0 <= x < 2 ^ 62 ->
  exists b, encode x = Some b /\ decode (b ++ r) = Some (x, r).
Proof.
  intros Hx. unfold encode.
  destruct (x <? 0) eqn:E0; [lia|].
  destruct (x <? 2 ^ 6) eqn:E1.
  { eexists; split; [reflexivity|].
    rewrite (decode_be_bytes_succ 0 x r).
    - f_equal. f_equal. change (Z.of_nat 0) with 0. rewrite Z.pow_0_r, Z.mod_1_r, Z.div_1_r.
      rewrite Z.mod_small by lia. lia.
    - change (Z.of_nat 1) with 1. lia.
    - change (Z.of_nat 0) with 0. rewrite Z.pow_0_r, Z.div_1_r.
      replace (x / 64) with 0 by lia. reflexivity. }
  destruct (x <? 2 ^ 14) eqn:E2.
  { eexists; split; [reflexivity|].
    rewrite (decode_be_bytes_succ 1 (2 ^ 14 + x) r).
    - f_equal. f_equal. change (256 ^ Z.of_nat 1) with 256. lia.
    - change (256 ^ Z.of_nat 2) with 65536. lia.
    - change (256 ^ Z.of_nat 1) with 256.
      replace ((2 ^ 14 + x) / 256 / 64) with 1 by lia. reflexivity. }
  destruct (x <? 2 ^ 30) eqn:E3.
  { eexists; split; [reflexivity|].
    rewrite (decode_be_bytes_succ 3 (2 ^ 31 + x) r).
    - f_equal. f_equal. change (256 ^ Z.of_nat 3) with 16777216. lia.
    - change (256 ^ Z.of_nat 4) with 4294967296. lia.
    - change (256 ^ Z.of_nat 3) with 16777216.
      replace ((2 ^ 31 + x) / 16777216 / 64) with 2 by lia. reflexivity. }
  destruct (x <? 2 ^ 62) eqn:E4; [|lia].
  eexists; split; [reflexivity|].
  rewrite (decode_be_bytes_succ 7 (3 * 2 ^ 62 + x) r).
  - f_equal. f_equal. change (256 ^ Z.of_nat 7) with 72057594037927936. lia.
  - change (256 ^ Z.of_nat 8) with 18446744073709551616. lia.
  - change (256 ^ Z.of_nat 7) with 72057594037927936.
    replace ((3 * 2 ^ 62 + x) / 72057594037927936 / 64) with 3 by lia. reflexivity.
Qed.

Lemma varint_size_encode x :
  0 <= x < 2 ^ 62 ->
  exists b s, encode x = Some b /\ size x = Some s /\ zlen b = s.
Proof.
  intros Hx. unfold encode, size.
  destruct (x <? 0) eqn:E0; [lia|].
  destruct (x <? 2 ^ 6); [do 2 eexists; repeat split|].
  destruct (x <? 2 ^ 14); [do 2 eexists; repeat split|].
  destruct (x <? 2 ^ 30); [do 2 eexists; repeat split|].
  destruct (x <? 2 ^ 62) eqn:E; [do 2 eexists; repeat split|lia].
Qed.

Lemma varint_encode_none x : ~ (0 <= x < 2 ^ 62) -> encode x = None.
Proof.
  intros H. unfold encode.
  destruct (x <? 0) eqn:E0; [reflexivity|].
  destruct (x <? 2 ^ 6) eqn:E1; [lia|].
  destruct (x <? 2 ^ 14) eqn:E2; [lia|].
  destruct (x <? 2 ^ 30) eqn:E3; [lia|].
  destruct (x <? 2 ^ 62) eqn:E4; [lia|reflexivity].
Qed.

Lemma be_val_bound bs acc :
  all_bytes bs = true -> 0 <= acc ->
  acc * 256 ^ zlen bs <= be_val bs acc < (acc + 1) * 256 ^ zlen bs.
Proof.
  revert acc; induction bs as [|b bs IH]; intros acc Hb Ha.
  - cbn [be_val]. unfold zlen; cbn [length]. change (Z.of_nat 0) with 0. rewrite Z.pow_0_r. lia.
  - cbn [all_bytes forallb] in Hb. apply andb_true_iff in Hb as [Hb1 Hb2].
    unfold is_byte in Hb1.
    cbn [be_val]. specialize (IH (acc * 256 + b) Hb2 ltac:(lia)).
    unfold zlen in *; cbn [length]. rewrite Nat2Z.inj_succ, Z.pow_succ_r by lia.
    assert (Hp : 0 < 256 ^ Z.of_nat (length bs)) by (apply Z.pow_pos_nonneg; lia).
    nia.
Qed.

Lemma all_bytes_firstn n bs : all_bytes bs = true -> all_bytes (firstn n bs) = true.
Proof.
  revert bs; induction n as [|n IH]; intros [|b bs] H; cbn [firstn all_bytes forallb] in *; auto.
  apply andb_true_iff in H as [H1 H2]. apply andb_true_iff; split; auto.
Qed.

(** Totality with bounds: any byte string either fails or yields a value in range and a suffix
    of the input (never reads past the buffer). *)
Lemma varint_decode_total bs :
  all_bytes bs = true ->
  match decode bs with
  | None => True
  | Some (v, r) => 0 <= v < 2 ^ 62 /\ exists p, bs = p ++ r /\ (1 <= length p <= 8)%nat
  end.
Proof.
  intros Hb. destruct bs as [|b0 r]; cbn [decode]; [exact I|].
  cbn [all_bytes forallb] in Hb. apply andb_true_iff in Hb as [Hb0 Hr].
  unfold is_byte in Hb0.
  destruct (Nat.ltb (length r) (extra (b0 / 64))) eqn:El; [exact I|].
  apply Nat.ltb_ge in El.
  split.
  - pose proof (be_val_bound (firstn (extra (b0 / 64)) r) (b0 mod 64)
                  (all_bytes_firstn _ _ Hr) ltac:(lia)) as Hbd.
    unfold zlen in Hbd. rewrite firstn_length_le in Hbd by exact El.
    unfold extra in *.
    destruct (b0 / 64 =? 0) eqn:T0.
    { change (256 ^ Z.of_nat 0) with 1 in Hbd. lia. }
    destruct (b0 / 64 =? 1) eqn:T1.
    { change (256 ^ Z.of_nat 1) with 256 in Hbd. lia. }
    destruct (b0 / 64 =? 2) eqn:T2.
    { change (256 ^ Z.of_nat 3) with 16777216 in Hbd. lia. }
    change (256 ^ Z.of_nat 7) with 72057594037927936 in Hbd. lia.
  - exists (b0 :: firstn (extra (b0 / 64)) r). split.
    + cbn [app]. now rewrite firstn_skipn.
    + cbn [length]. rewrite firstn_length_le by exact El.
      unfold extra. destruct (b0 / 64 =? 0); [lia|]. destruct (b0 / 64 =? 1); [lia|].
      destruct (b0 / 64 =? 2); lia.
Qed.
