(** Proofs about Model/AckFrequency.v (C03: [candidate_max_ack_delay] and the ACK_FREQUENCY state
    never panic; defect F4 as a refutation of the pre-fix code). *)
From QV Require Import Lib.Tac Lib.Corr gen.Constants Model.AckFrequency.
Import AckFrequency.
Open Scope Z_scope.

(** What transport-parameter validation imposes on the peer's ack-delay parameters
    (transport_parameters.rs): [max_ack_delay < 2^14] ms and [min_ack_delay <= max_ack_delay * 1000]. *)
Definition validated (max_ack_delay_ms min_ack_delay_us : Z) : Prop :=
  0 <= max_ack_delay_ms < 2 ^ 14 /\ 0 <= min_ack_delay_us <= max_ack_delay_ms * 1000.

(** F4: the pre-fix code panics for a validated parameter set. *)
Lemma candidate_pre_fix_refuted :
  exists max_ms min_us rtt,
    validated max_ms min_us /\ 0 <= rtt /\
    candidate_pre_fix (new (max_ms * 1000)) rtt None (Some min_us) = None /\
    run_pre_fix [[0; max_ms * 1000]; [2]; [1; rtt; -1; min_us]] = [PANIC].
Proof.
  exists 30, 26000, 10000. unfold validated. vm_compute. repeat split; congruence.
Qed.

(** Exactly the class: the pre-fix code panics iff [min_ack_delay > max(rtt, 25 ms)]. *)
Lemma candidate_pre_fix_panics_iff s rtt cfg minad :
  candidate_pre_fix s rtt cfg minad = None <->
  Z.max rtt MIN_AUTOMATIC_ACK_DELAY < opt_default minad 0.
Proof.
  unfold candidate_pre_fix, clamp.
  destruct (Z.max rtt MIN_AUTOMATIC_ACK_DELAY <? opt_default minad 0) eqn:E; split; intro H;
    try discriminate; try reflexivity; lia.
Qed.

(** The repaired code is total, for ALL inputs, and keeps the documented bounds. *)
Lemma candidate_total s rtt cfg minad :
  exists d, candidate s rtt cfg minad = Some d /\
    opt_default minad 0 <= d /\
    d <= Z.max (Z.max rtt MIN_AUTOMATIC_ACK_DELAY) (opt_default minad 0) /\
    (opt_default minad 0 <= opt_default cfg (peer_max_ack_delay s)
       <= Z.max rtt MIN_AUTOMATIC_ACK_DELAY -> d = opt_default cfg (peer_max_ack_delay s)).
Proof.
  unfold candidate, clamp.
  set (lo := opt_default minad 0). set (x := opt_default cfg (peer_max_ack_delay s)).
  set (hi := Z.max (Z.max rtt MIN_AUTOMATIC_ACK_DELAY) lo).
  destruct (hi <? lo) eqn:E1; [lia|].
  destruct (x <? lo) eqn:E2; [eexists; split; [reflexivity|lia]|].
  destruct (hi <? x) eqn:E3; eexists; (split; [reflexivity|lia]).
Qed.

(** Outside the defect class the repair changes nothing. *)
Lemma candidate_agrees_pre_fix s rtt cfg minad d :
  candidate_pre_fix s rtt cfg minad = Some d -> candidate s rtt cfg minad = Some d.
Proof.
  unfold candidate_pre_fix, candidate, clamp.
  set (lo := opt_default minad 0). set (x := opt_default cfg (peer_max_ack_delay s)).
  destruct (Z.max rtt MIN_AUTOMATIC_ACK_DELAY <? lo) eqn:E1; [discriminate|].
  replace (Z.max (Z.max rtt MIN_AUTOMATIC_ACK_DELAY) lo)
    with (Z.max rtt MIN_AUTOMATIC_ACK_DELAY) by lia.
  rewrite E1. auto.
Qed.

(** No op sequence makes the (repaired) state machine panic, as long as fewer than 2^62
    ACK_FREQUENCY sequence numbers have been drawn. *)
Lemma step_total s o :
  0 <= next_seq s <= VARINT_MAX ->
  exists s' out, step candidate s o = Some (s', out) /\ 0 <= next_seq s' <= next_seq s + 1.
Proof.
  intros Hn. destruct o as [d|rtt cfg minad| |pn req|pn|seq thr req reord|rtt cfg minad];
    cbn [step].
  - eexists _, _. split; [reflexivity|]. cbn [new next_seq]. lia.
  - destruct (candidate_total s rtt cfg minad) as (d & Hd & _). rewrite Hd.
    eexists _, _. split; [reflexivity|]. lia.
  - destruct (VARINT_MAX <? next_seq s) eqn:E; [lia|].
    eexists _, _. split; [reflexivity|]. cbn [next_seq]. lia.
  - eexists _, _. split; [reflexivity|]. cbn [next_seq]. lia.
  - eexists _, _. split; [reflexivity|].
    destruct (in_flight s) as [[n r]|]; [destruct (n =? pn)|]; cbn [next_seq]; lia.
  - destruct (match last_frame s with Some h => seq <=? h | None => false end).
    + eexists _, _. split; [reflexivity|]. lia.
    + destruct (req <? TIMER_GRANULARITY_US); eexists _, _;
        (split; [reflexivity|]); cbn [next_seq]; lia.
  - destruct (next_seq s =? 0).
    + eexists _, _. split; [reflexivity|]. lia.
    + destruct (candidate_total s rtt cfg minad) as (d & Hd & _). rewrite Hd.
      eexists _, _. split; [reflexivity|]. lia.
Qed.

Lemma run_ops_total : forall os s,
  0 <= next_seq s -> next_seq s + Z.of_nat (length os) <= VARINT_MAX + 1 ->
  exists outs, run_ops candidate s os = Some outs /\ length outs = length os.
Proof.
  induction os as [|o os IH]; intros s H0 Hlen.
  - exists []. split; reflexivity.
  - cbn [length] in Hlen. cbn [run_ops].
    destruct (step_total s o) as (s' & out & Hs & Hn); [lia|]. rewrite Hs.
    destruct (IH s') as (outs & Hr & Hl); [lia|lia|].
    rewrite Hr. eexists. split; [reflexivity|]. cbn [length]. lia.
Qed.

Lemma ack_frequency_never_panics_lemma : forall d os,
  Z.of_nat (length os) <= VARINT_MAX + 1 ->
  exists outs, run_ops candidate (new d) os = Some outs /\ length outs = length os.
Proof.
  intros d os H. apply run_ops_total; cbn [new next_seq]; lia.
Qed.

(** A requested max_ack_delay below the timer granularity is rejected with PROTOCOL_VIOLATION and
    never becomes the local [max_ack_delay]. *)
Lemma received_small_rejected s seq thr req reord s' out :
  step candidate s (Received seq thr req reord) = Some (s', out) ->
  req < TIMER_GRANULARITY_US ->
  max_ack_delay s' = max_ack_delay s /\
  (hd 0 out = 1 -> nth 1 out 0 = PROTOCOL_VIOLATION).
Proof.
  cbn [step]. intros H Hr.
  destruct (match last_frame s with Some h => seq <=? h | None => false end).
  - inversion H; subst. split; [reflexivity|]. cbn. discriminate.
  - destruct (req <? TIMER_GRANULARITY_US) eqn:E; [|lia].
    inversion H; subst. split; reflexivity.
Qed.
