From QV Require Import Lib.Tac Lib.Bytes Lib.Corr Model.PacketNumber Proofs.BytesProofs.
Open Scope Z_scope.

Lemma decode_encode_trunc len n :
  decode len (be_bytes len (n mod win len)) = Some (n mod win len).
Proof.
  unfold decode. rewrite be_bytes_length, Nat.ltb_irrefl.
  rewrite <- (be_bytes_length len (n mod win len)) at 1. rewrite firstn_all.
  rewrite be_val_be_bytes. unfold win. rewrite Z.mod_mod; [f_equal; lia|].
  apply Z.pow_nonzero; lia.
Qed.

(** The window argument, for each of the four concrete window sizes. *)
Lemma expand_in_window len n e :
  (1 <= len <= 4)%nat -> 0 <= n -> 0 <= e ->
  e - win len / 2 < n <= e + win len / 2 ->
  expand len (n mod win len) e = n.
Proof.
  intros Hlen Hn He. unfold expand.
  assert (Hc : len = 1%nat \/ len = 2%nat \/ len = 3%nat \/ len = 4%nat) by lia.
  destruct Hc as [-> | [-> | [-> | ->]]]; unfold win.
  - change (256 ^ Z.of_nat 1) with 256. intros Hw.
    destruct ((256 / 2 <=? e) && (e / 256 * 256 + n mod 256 <=? e - 256 / 2)) eqn:A;
      [lia|].
    destruct ((e + 256 / 2 <? e / 256 * 256 + n mod 256)
              && (256 <? e / 256 * 256 + n mod 256)) eqn:B; lia.
  - change (256 ^ Z.of_nat 2) with 65536. intros Hw.
    destruct ((65536 / 2 <=? e) && (e / 65536 * 65536 + n mod 65536 <=? e - 65536 / 2)) eqn:A;
      [lia|].
    destruct ((e + 65536 / 2 <? e / 65536 * 65536 + n mod 65536)
              && (65536 <? e / 65536 * 65536 + n mod 65536)) eqn:B; lia.
  - change (256 ^ Z.of_nat 3) with 16777216. intros Hw.
    destruct ((16777216 / 2 <=? e)
              && (e / 16777216 * 16777216 + n mod 16777216 <=? e - 16777216 / 2)) eqn:A;
      [lia|].
    destruct ((e + 16777216 / 2 <? e / 16777216 * 16777216 + n mod 16777216)
              && (16777216 <? e / 16777216 * 16777216 + n mod 16777216)) eqn:B; lia.
  - change (256 ^ Z.of_nat 4) with 4294967296. intros Hw.
    destruct ((4294967296 / 2 <=? e)
              && (e / 4294967296 * 4294967296 + n mod 4294967296 <=? e - 4294967296 / 2)) eqn:A;
      [lia|].
    destruct ((e + 4294967296 / 2 <? e / 4294967296 * 4294967296 + n mod 4294967296)
              && (4294967296 <? e / 4294967296 * 4294967296 + n mod 4294967296)) eqn:B; lia.
Qed.

Lemma pn_len_range n la len : pn_len n la = Some len -> (1 <= len <= 4)%nat /\ la <= n /\ 2 * (n - la) < win len.
Proof.
  unfold pn_len, win. intros H.
  destruct (n <? la) eqn:E; [discriminate|].
  destruct ((n - la) * 2 <? 2 ^ 8) eqn:E1; [inversion H; subst; change (256 ^ Z.of_nat 1) with 256; lia|].
  destruct ((n - la) * 2 <? 2 ^ 16) eqn:E2; [inversion H; subst; change (256 ^ Z.of_nat 2) with 65536; lia|].
  destruct ((n - la) * 2 <? 2 ^ 24) eqn:E3; [inversion H; subst; change (256 ^ Z.of_nat 3) with 16777216; lia|].
  destruct ((n - la) * 2 <? 2 ^ 32) eqn:E4; [inversion H; subst; change (256 ^ Z.of_nat 4) with 4294967296; lia|].
  discriminate.
Qed.

Lemma pn_len_defined n la : 0 <= la <= n -> 2 * (n - la) < 2 ^ 32 -> exists len, pn_len n la = Some len.
Proof.
  intros H1 H2. unfold pn_len.
  destruct (n <? la) eqn:E; [lia|].
  destruct ((n - la) * 2 <? 2 ^ 8); [eauto|].
  destruct ((n - la) * 2 <? 2 ^ 16); [eauto|].
  destruct ((n - la) * 2 <? 2 ^ 24); [eauto|].
  destruct ((n - la) * 2 <? 2 ^ 32) eqn:E4; [eauto|lia].
Qed.

(** Full round trip: for every sender state [(n, la)] the encoder accepts and every receiver
    expectation [e] inside the RFC 9000 A.3 window of the chosen length, decoding the encoded
    truncated number and expanding it yields [n]. *)
Lemma pn_roundtrip n la e :
  0 <= la <= n -> 2 * (n - la) < 2 ^ 32 -> 0 <= e ->
  exists len b,
    encode n la = Some (len, b) /\ length b = len /\
    (e - win len / 2 < n <= e + win len / 2 ->
     exists t, decode len b = Some t /\ expand len t e = n).
Proof.
  intros H1 H2 He. destruct (pn_len_defined n la H1 H2) as [len Hl].
  unfold encode. rewrite Hl. do 2 eexists. split; [reflexivity|]. split; [apply be_bytes_length|].
  intros Hw. eexists. split; [apply decode_encode_trunc|].
  apply pn_len_range in Hl as [Hr _].
  apply expand_in_window; lia.
Qed.

(** Corollary in protocol terms: the receiver expects [largest_received + 1]; it has received
    everything the sender saw acknowledged ([la < e]) and packets ahead of [n] by less than half
    the window may already have arrived ([e < n + hwin]). *)
Lemma pn_roundtrip_protocol n la e :
  0 <= la <= n -> 2 * (n - la) < 2 ^ 32 ->
  exists len b,
    encode n la = Some (len, b) /\
    (la < e -> e < n + win len / 2 ->
     exists t, decode len b = Some t /\ expand len t e = n).
Proof.
  intros H1 H2. destruct (pn_len_defined n la H1 H2) as [len Hl].
  pose proof (pn_len_range _ _ _ Hl) as [Hr [_ Hlt]].
  unfold encode. rewrite Hl. do 2 eexists. split; [reflexivity|].
  intros Ha Hb. eexists. split; [apply decode_encode_trunc|].
  assert (Heven : win len = 2 * (win len / 2)).
  { unfold win. assert (Hc : len = 1%nat \/ len = 2%nat \/ len = 3%nat \/ len = 4%nat) by lia.
    destruct Hc as [-> | [-> | [-> | ->]]]; reflexivity. }
  apply expand_in_window; lia.
Qed.

(** The deviation from RFC 9000 A.3 ([candidate > win] where the RFC has [>=]) is unreachable:
    [candidate = win] never coincides with [candidate > expected + hwin]. *)
Lemma expand_rfc_deviation_unreachable len t e :
  (1 <= len <= 4)%nat -> 0 <= e -> 0 <= t < win len ->
  let candidate := (e / win len) * win len + t in
  candidate = win len -> ~ (e + win len / 2 < candidate).
Proof.
  intros Hlen He Ht. cbv zeta. unfold win in *.
  assert (Hc : len = 1%nat \/ len = 2%nat \/ len = 3%nat \/ len = 4%nat) by lia.
  destruct Hc as [-> | [-> | [-> | ->]]].
  - change (256 ^ Z.of_nat 1) with 256 in *. lia.
  - change (256 ^ Z.of_nat 2) with 65536 in *. lia.
  - change (256 ^ Z.of_nat 3) with 16777216 in *. lia.
  - change (256 ^ Z.of_nat 4) with 4294967296 in *. lia.
Qed.
