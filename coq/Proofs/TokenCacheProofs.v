From QV Require Import Lib.Tac Lib.Corr Model.TokenCache.
Open Scope Z_scope.

(** * Proofs about the [TokenMemoryCache] model (quinn-proto/src/token_memory_cache.rs).

    Main result: [cache_hands_out_once] — for every capacity pair (including 0) and every history
    of [insert]/[take] calls, the implementation never hits [pop_front().unwrap()] on an empty
    queue, the structural invariant [Inv] holds, and the multiset of (server, token) pairs handed
    out by [take] is included in the multiset of inserted pairs (a token is handed out at most as
    many times as it was inserted).  Further: FIFO order inside a server queue, drop-oldest on
    queue overflow, eviction of exactly the least recently used entry, freshening. *)

Inductive cop := Ins (name tok : Z) | Take (name : Z).

(** run a history; [None] = the implementation would panic ([pop_front().unwrap()] on an empty
    queue); otherwise the final state and the list of (server, token) pairs handed out by [take],
    oldest first *)
Fixpoint exec (s : TokenCache.t) (h : list cop) : option (TokenCache.t * list (Z * Z)) :=
  match h with
  | [] => Some (s, [])
  | Ins n k :: h' => exec (store s n k) h'
  | Take n :: h' =>
      match take s n with
      | None => None
      | Some (s', r) =>
          match exec s' h' with
          | None => None
          | Some (s'', out) => Some (s'', match r with Some k => (n, k) :: out | None => out end)
          end
      end
  end.

Fixpoint inserted (h : list cop) : list (Z * Z) :=
  match h with [] => [] | Ins n k :: h' => (n, k) :: inserted h' | Take _ :: h' => inserted h' end.

Definition pair_eqb (x y : Z * Z) : bool := (fst x =? fst y) && (snd x =? snd y).

(** number of occurrences of [x] in [l] *)
Definition count (x : Z * Z) (l : list (Z * Z)) : nat := length (filter (pair_eqb x) l).

Definition Inv (s : TokenCache.t) : Prop :=
  zlen (lru s) <= max_names s /\
  NoDup (map fst (lru s)) /\
  Forall (fun e => snd e <> [] /\ zlen (snd e) <= max_tokens s) (lru s).

(** ghost: the multiset of (server, token) pairs currently stored *)
Definition flat (l : list entry) : list (Z * Z) :=
  concat (map (fun e => map (pair (fst e)) (snd e)) l).

(** ** [count] and [flat] *)

Lemma pair_eqb_eq x y : pair_eqb x y = true <-> x = y.
Proof.
  destruct x as [a b], y as [c d]. unfold pair_eqb. cbn [fst snd].
  rewrite andb_true_iff, !Z.eqb_eq. split.
  - intros [-> ->]. reflexivity.
  - intros H. inversion H. auto.
Qed.

Lemma count_app x l1 l2 : count x (l1 ++ l2) = (count x l1 + count x l2)%nat.
Proof. unfold count. rewrite filter_app, app_length. reflexivity. Qed.

Lemma count_cons x y l : count x (y :: l) = (count x [y] + count x l)%nat.
Proof. apply (count_app x [y] l). Qed.

Lemma count_nil x : count x [] = 0%nat.
Proof. reflexivity. Qed.

Lemma count_in x l : (0 < count x l)%nat <-> In x l.
Proof.
  unfold count. split.
  - intros H. destruct (filter (pair_eqb x) l) as [|y f] eqn:E; [cbn [length] in H; lia|].
    assert (Hy : In y (filter (pair_eqb x) l)) by (rewrite E; left; reflexivity).
    apply filter_In in Hy. destruct Hy as [Hy1 Hy2]. apply pair_eqb_eq in Hy2. subst y. exact Hy1.
  - intros H. assert (Hx : In x (filter (pair_eqb x) l)).
    { apply filter_In. split; [exact H | apply pair_eqb_eq; reflexivity]. }
    destruct (filter (pair_eqb x) l); [destruct Hx | cbn [length]; lia].
Qed.

Lemma flat_app l1 l2 : flat (l1 ++ l2) = flat l1 ++ flat l2.
Proof. unfold flat. rewrite map_app, concat_app. reflexivity. Qed.

Lemma flat_cons n q l : flat ((n, q) :: l) = map (pair n) q ++ flat l.
Proof. reflexivity. Qed.

Lemma flat_nil : flat [] = [].
Proof. reflexivity. Qed.

Lemma count_tl x (q : list (Z * Z)) : (count x (tl q) <= count x q)%nat.
Proof. destruct q as [|a q]; cbn [tl]; [lia|]. rewrite (count_cons x a q). lia. Qed.

Lemma map_tl {A B} (f : A -> B) l : map f (tl l) = tl (map f l).
Proof. destruct l; reflexivity. Qed.

(** ** [extract] *)

Lemma extract_some n l q r :
  extract n l = Some (q, r) ->
  exists l1 l2, l = l1 ++ (n, q) :: l2 /\ r = l1 ++ l2 /\ ~ In n (map fst l1).
Proof.
  revert q r. induction l as [|[m p] l IH]; intros q r H; cbn [extract] in H.
  - discriminate.
  - destruct (m =? n) eqn:E.
    + apply Z.eqb_eq in E. subst m. inversion H; subst. exists [], r.
      repeat split; auto.
    + destruct (extract n l) as [[q' r']|] eqn:E2; [|discriminate].
      inversion H; subst. destruct (IH _ _ eq_refl) as (l1 & l2 & -> & -> & Hn).
      exists ((m, p) :: l1), l2. repeat split; auto.
      cbn [map fst In]. intros [A|A]; [lia | auto].
Qed.

Lemma extract_none n l : extract n l = None -> ~ In n (map fst l).
Proof.
  induction l as [|[m p] l IH]; intros H; cbn [extract] in H.
  - intros [].
  - destruct (m =? n) eqn:E; [discriminate|].
    destruct (extract n l) as [[q' r']|] eqn:E2; [discriminate|].
    cbn [map fst In]. intros [A|A]; [lia | exact (IH eq_refl A)].
Qed.

Lemma extract_present n l : In n (map fst l) -> exists q r, extract n l = Some (q, r).
Proof.
  intros H. destruct (extract n l) as [[q r]|] eqn:E; [eauto|].
  exfalso. exact (extract_none _ _ E H).
Qed.

Lemma extract_app n l1 q l2 :
  ~ In n (map fst l1) -> extract n (l1 ++ (n, q) :: l2) = Some (q, l1 ++ l2).
Proof.
  induction l1 as [|[m p] l1 IH]; intros H.
  - cbn [app extract]. rewrite Z.eqb_refl. reflexivity.
  - cbn [map fst In] in H. cbn [app extract].
    destruct (m =? n) eqn:E; [exfalso; apply H; left; lia|].
    rewrite IH by tauto. reflexivity.
Qed.

(** with one entry per name, [extract] finds exactly the queue stored for that name *)
Lemma extract_of_in n q l :
  NoDup (map fst l) -> In (n, q) l -> exists r, extract n l = Some (q, r).
Proof.
  intros Hnd Hin. apply in_split in Hin. destruct Hin as (l1 & l2 & ->).
  exists (l1 ++ l2). apply extract_app.
  rewrite map_app in Hnd. cbn [map fst] in Hnd. apply NoDup_remove_2 in Hnd.
  intros A. apply Hnd. apply in_or_app. left. exact A.
Qed.

(** ** consequences of the invariant for a split cache *)

(** [entry] and its unfolding are different atoms for [lia]: normalise first *)
Ltac zlia := unfold entry in *; lia.


Lemma zlen_app {A} (l1 l2 : list A) : zlen (l1 ++ l2) = zlen l1 + zlen l2.
Proof. unfold zlen. rewrite app_length. zlia. Qed.

Lemma zlen_cons {A} (a : A) l : zlen (a :: l) = 1 + zlen l.
Proof. unfold zlen. cbn [length]. zlia. Qed.

Lemma zlen_nonneg {A} (l : list A) : 0 <= zlen l.
Proof. unfold zlen. zlia. Qed.

Lemma inv_split mn mt l1 n q l2 :
  Inv (mk mn mt (l1 ++ (n, q) :: l2)) ->
  zlen (l1 ++ l2) + 1 <= mn /\
  NoDup (map fst (l1 ++ l2)) /\ ~ In n (map fst (l1 ++ l2)) /\
  Forall (fun e => snd e <> [] /\ zlen (snd e) <= mt) (l1 ++ l2) /\
  q <> [] /\ zlen q <= mt.
Proof.
  unfold Inv. cbn [lru max_names max_tokens]. intros (Hlen & Hnd & Hall).
  rewrite zlen_app, zlen_cons in Hlen. rewrite zlen_app.
  rewrite map_app in Hnd. cbn [map fst] in Hnd.
  apply Forall_app in Hall. destruct Hall as [Hall1 Hall2].
  inversion Hall2 as [|e l' He Hall3]; subst. cbn [snd] in He.
  split; [zlia|]. split; [|split; [|split; [|exact He]]].
  - rewrite map_app. exact (NoDup_remove_1 _ _ _ Hnd).
  - rewrite map_app. exact (NoDup_remove_2 _ _ _ Hnd).
  - apply Forall_app. split; assumption.
Qed.

Lemma removelast_split {A} (l : list A) :
  l = [] \/ exists e, l = removelast l ++ [e].
Proof.
  destruct l as [|a l]; [left; reflexivity|right].
  exists (last (a :: l) a). apply app_removelast_last. discriminate.
Qed.

Lemma NoDup_app_l {A} (l1 l2 : list A) : NoDup (l1 ++ l2) -> NoDup l1.
Proof.
  induction l1 as [|a l1 IH]; intros H; [constructor|].
  cbn [app] in H. inversion H as [|a' l' Ha Hl]; subst. constructor.
  - intros A1. apply Ha. apply in_or_app. left. exact A1.
  - exact (IH Hl).
Qed.

(** ** [store] *)

Lemma store_spec s n k :
  Inv s -> 0 <= max_tokens s ->
  Inv (store s n k) /\ max_names (store s n k) = max_names s /\
  max_tokens (store s n k) = max_tokens s /\
  forall x, (count x (flat (lru (store s n k))) <= count x (flat (lru s)) + count x [(n, k)])%nat.
Proof.
  destruct s as [mn mt l]. cbn [max_tokens]. intros HI Hmt. unfold store.
  cbn [lru max_names max_tokens].
  destruct (mn =? 0) eqn:E1; [split; [exact HI|split; [reflexivity|split; [reflexivity|intros; cbn [lru]; zlia]]]|].
  destruct (mt =? 0) eqn:E2; [split; [exact HI|split; [reflexivity|split; [reflexivity|intros; cbn [lru]; zlia]]]|].
  destruct (extract n l) as [[q rest]|] eqn:Ex.
  - apply extract_some in Ex. destruct Ex as (l1 & l2 & -> & -> & Hn1).
    destruct (inv_split _ _ _ _ _ _ HI) as (Hlen & Hnd & Hnin & Hall & Hq & Hql).
    split; [|split; [reflexivity|split; [reflexivity|]]].
    + unfold Inv. cbn [lru max_names max_tokens]. split; [|split].
      * rewrite zlen_cons. zlia.
      * cbn [map fst]. constructor; assumption.
      * constructor; [|exact Hall]. cbn [snd]. split.
        -- destruct (if mt <=? zlen q then tl q else q); discriminate.
        -- rewrite zlen_app. change (zlen [k]) with 1.
           destruct (mt <=? zlen q) eqn:E3; [|zlia].
           destruct q as [|a q]; [congruence|]. cbn [tl]. rewrite zlen_cons in Hql. zlia.
    + intros x. cbn [lru]. rewrite flat_cons, !flat_app, flat_cons, map_app.
      rewrite !count_app. cbn [map].
      assert (Hc : (count x (map (pair n) (if (mt <=? zlen q)%Z then tl q else q))
                    <= count x (map (pair n) q))%nat).
      { destruct (mt <=? zlen q); [|zlia]. rewrite map_tl. apply count_tl. }
      zlia.
  - apply extract_none in Ex.
    assert (Hbase : exists t, l = (if mn <=? zlen l then removelast l else l) ++ t /\
                              zlen (if mn <=? zlen l then removelast l else l) + 1 <= mn).
    { destruct HI as (Hlen & _). cbn [lru max_names] in Hlen.
      destruct (mn <=? zlen l) eqn:E3.
      - destruct (removelast_split l) as [->|[e He]].
        + exists []. cbn [removelast app]. split; [reflexivity|]. change (zlen (@nil entry)) with 0 in *. zlia.
        + exists [e]. split; [exact He|]. rewrite He in Hlen at 1. rewrite zlen_app in Hlen.
          change (zlen [e]) with 1 in Hlen. zlia.
      - exists []. rewrite app_nil_r. split; [reflexivity|zlia]. }
    destruct Hbase as (t & Hl & Hlen').
    set (base := if mn <=? zlen l then removelast l else l) in *.
    destruct HI as (_ & Hnd & Hall). cbn [lru max_names max_tokens] in Hnd, Hall.
    rewrite Hl in Hnd, Hall, Ex. rewrite map_app in Hnd, Ex.
    apply Forall_app in Hall. destruct Hall as [Hall _].
    split; [|split; [reflexivity|split; [reflexivity|]]].
    + unfold Inv. cbn [lru max_names max_tokens]. split; [|split].
      * rewrite zlen_cons. zlia.
      * cbn [map fst]. constructor.
        -- intros A. apply Ex. apply in_or_app. left. exact A.
        -- exact (NoDup_app_l _ _ Hnd).
      * constructor; [|exact Hall]. cbn [snd]. split; [discriminate|].
        change (zlen [k]) with 1. zlia.
    + intros x. cbn [lru]. rewrite flat_cons. cbn [map]. rewrite count_app.
      replace (flat l) with (flat base ++ flat t) by (rewrite <- flat_app, <- Hl; reflexivity).
      rewrite count_app. cbn [app]. zlia.
Qed.

Lemma store_inv s n k : Inv s -> 0 <= max_tokens s -> Inv (store s n k).
Proof. intros H1 H2. exact (proj1 (store_spec s n k H1 H2)). Qed.

(** ** [take] *)

Lemma take_spec s n :
  Inv s ->
  exists s' r, take s n = Some (s', r) /\
    Inv s' /\ max_names s' = max_names s /\ max_tokens s' = max_tokens s /\
    forall x, (count x (match r with Some k => [(n, k)] | None => [] end)
               + count x (flat (lru s')) = count x (flat (lru s)))%nat.
Proof.
  destruct s as [mn mt l]. intros HI. unfold take. cbn [lru max_names max_tokens].
  destruct (extract n l) as [[q rest]|] eqn:Ex.
  - apply extract_some in Ex. destruct Ex as (l1 & l2 & -> & -> & Hn1).
    destruct (inv_split _ _ _ _ _ _ HI) as (Hlen & Hnd & Hnin & Hall & Hq & Hql).
    destruct q as [|tok q']; [congruence|].
    destruct q' as [|t2 q''].
    + eexists _, _. split; [reflexivity|]. split; [|split; [reflexivity|split; [reflexivity|]]].
      * unfold Inv. cbn [lru max_names max_tokens]. split; [zlia|]. split; assumption.
      * intros x. cbn [lru]. rewrite !flat_app, flat_cons, !count_app. cbn [map].
        rewrite ?count_app, ?count_nil. zlia.
    + eexists _, _. split; [reflexivity|]. split; [|split; [reflexivity|split; [reflexivity|]]].
      * unfold Inv. cbn [lru max_names max_tokens]. split; [|split].
        -- rewrite zlen_cons. zlia.
        -- cbn [map fst]. constructor; assumption.
        -- constructor; [|exact Hall]. cbn [snd]. split; [discriminate|].
           rewrite zlen_cons in Hql. zlia.
      * intros x. cbn [lru]. rewrite flat_cons, !flat_app, flat_cons, !count_app.
        cbn [map]. rewrite (count_cons x (n, tok) (_ :: _)). zlia.
  - eexists _, _. split; [reflexivity|]. split; [exact HI|].
    split; [reflexivity|split; [reflexivity|]]. intros x. cbn [lru]. rewrite count_nil. zlia.
Qed.

(** the [unwrap] in [take] is safe in every state satisfying the invariant *)
Lemma take_never_panics s n : Inv s -> take s n <> None.
Proof. intros HI. destruct (take_spec s n HI) as (s' & r & -> & _). discriminate. Qed.

Lemma take_inv s n s' r : Inv s -> take s n = Some (s', r) -> Inv s'.
Proof.
  intros HI H. destruct (take_spec s n HI) as (s1 & r1 & H1 & HI1 & _).
  rewrite H1 in H. inversion H; subst. exact HI1.
Qed.

(** ** histories *)

Lemma exec_gen h : forall s,
  Inv s -> 0 <= max_tokens s ->
  exists s' out, exec s h = Some (s', out) /\
    Inv s' /\ max_names s' = max_names s /\ max_tokens s' = max_tokens s /\
    forall x, (count x out + count x (flat (lru s'))
               <= count x (flat (lru s)) + count x (inserted h))%nat.
Proof.
  induction h as [|[n k|n] h IH]; intros s HI Hmt.
  - exists s, []. cbn [exec inserted]. split; [reflexivity|]. split; [exact HI|].
    split; [reflexivity|]. split; [reflexivity|]. intros x. rewrite !count_nil. zlia.
  - destruct (store_spec s n k HI Hmt) as (HI1 & Hmn1 & Hmt1 & Hc1).
    destruct (IH (store s n k) HI1 ltac:(zlia)) as (s' & out & He & HI' & Hmn' & Hmt' & Hc').
    exists s', out. cbn [exec inserted]. split; [exact He|]. split; [exact HI'|].
    split; [congruence|]. split; [congruence|].
    intros x. rewrite (count_cons x (n, k)). specialize (Hc1 x). specialize (Hc' x). zlia.
  - destruct (take_spec s n HI) as (s1 & r & Ht & HI1 & Hmn1 & Hmt1 & Hc1).
    destruct (IH s1 HI1 ltac:(zlia)) as (s' & out & He & HI' & Hmn' & Hmt' & Hc').
    exists s', (match r with Some k => (n, k) :: out | None => out end).
    cbn [exec inserted]. rewrite Ht, He. split; [reflexivity|]. split; [exact HI'|].
    split; [congruence|]. split; [congruence|].
    intros x. specialize (Hc1 x). specialize (Hc' x).
    destruct r as [k|]; [rewrite (count_cons x (n, k))|]; rewrite ?count_nil in Hc1; zlia.
Qed.

Lemma init_inv mn mt : 0 <= mn -> Inv (init mn mt).
Proof.
  intros H. unfold Inv, init. cbn [lru max_names max_tokens map]. split; [exact H|].
  split; constructor.
Qed.

Theorem cache_hands_out_once : forall mn mt h,
  0 <= mn -> 0 <= mt ->
  exists s out,
    exec (init mn mt) h = Some (s, out) /\
    Inv s /\ max_names s = mn /\ max_tokens s = mt /\
    (forall x, (count x out <= count x (inserted h))%nat).
Proof.
  intros mn mt h Hmn Hmt.
  destruct (exec_gen h (init mn mt) (init_inv mn mt Hmn) Hmt)
    as (s & out & He & HI & Hmn' & Hmt' & Hc).
  exists s, out. split; [exact He|]. split; [exact HI|]. split; [exact Hmn'|]. split; [exact Hmt'|].
  intros x. specialize (Hc x). unfold init in Hc. cbn [lru] in Hc. rewrite flat_nil, count_nil in Hc. zlia.
Qed.

(** every handed-out pair was inserted (set-level corollary) *)
Corollary cache_out_was_inserted mn mt h s out :
  0 <= mn -> 0 <= mt -> exec (init mn mt) h = Some (s, out) ->
  forall x, In x out -> In x (inserted h).
Proof.
  intros Hmn Hmt He x Hx.
  destruct (cache_hands_out_once mn mt h Hmn Hmt) as (s1 & out1 & He1 & _ & _ & _ & Hc).
  rewrite He in He1. inversion He1; subst. apply count_in. apply count_in in Hx.
  specialize (Hc x). zlia.
Qed.

(** ** zero capacities: nothing is stored, nothing is returned *)

Lemma exec_zero h : forall s,
  lru s = [] -> (max_names s = 0 \/ max_tokens s = 0) -> exec s h = Some (s, []).
Proof.
  induction h as [|[n k|n] h IH]; intros s Hl Hz.
  - reflexivity.
  - cbn [exec]. assert (Hs : store s n k = s).
    { unfold store. destruct (max_names s =? 0) eqn:E1; [reflexivity|].
      destruct (max_tokens s =? 0) eqn:E2; [reflexivity|]. zlia. }
    rewrite Hs. apply IH; assumption.
  - cbn [exec]. unfold take. rewrite Hl. cbn [extract]. rewrite (IH s Hl Hz). reflexivity.
Qed.

Theorem cache_zero_capacity : forall mn mt h,
  (mn = 0 \/ mt = 0) -> exists s, exec (init mn mt) h = Some (s, []).
Proof.
  intros mn mt h Hz. exists (init mn mt). apply exec_zero; [reflexivity|exact Hz].
Qed.

(** ** FIFO inside one server's queue *)

(** [take] hands out the OLDEST stored token of that server *)
Theorem take_is_fifo s n k q rest :
  Inv s -> extract n (lru s) = Some (k :: q, rest) ->
  exists s', take s n = Some (s', Some k).
Proof.
  intros _ Hex. unfold take. rewrite Hex. destruct q; eauto.
Qed.

(** ... and leaves the rest of the queue (the entry disappears when the queue becomes empty) *)
Theorem take_is_fifo_state s n k q rest :
  extract n (lru s) = Some (k :: q, rest) ->
  take s n = Some (mk (max_names s) (max_tokens s)
                      (match q with [] => rest | _ => (n, q) :: rest end), Some k).
Proof.
  intros Hex. unfold take. rewrite Hex. destruct q; reflexivity.
Qed.

(** a full queue drops its oldest token when a new one is stored *)
Theorem store_drops_oldest s n k q rest :
  extract n (lru s) = Some (q, rest) ->
  max_tokens s <= zlen q -> 0 < max_tokens s -> 0 < max_names s ->
  lru (store s n k) = (n, tl q ++ [k]) :: rest.
Proof.
  intros Hex Hfull Hmt Hmn. unfold store.
  destruct (max_names s =? 0) eqn:E1; [zlia|].
  destruct (max_tokens s =? 0) eqn:E2; [zlia|].
  rewrite Hex. destruct (max_tokens s <=? zlen q) eqn:E3; [reflexivity|zlia].
Qed.

(** a queue that is not full just gets the token appended *)
Theorem store_appends s n k q rest :
  extract n (lru s) = Some (q, rest) ->
  zlen q < max_tokens s -> 0 < max_names s ->
  lru (store s n k) = (n, q ++ [k]) :: rest.
Proof.
  intros Hex Hfull Hmn. unfold store.
  destruct (max_names s =? 0) eqn:E1; [zlia|].
  destruct (max_tokens s =? 0) eqn:E2; [pose proof (zlen_nonneg q); zlia|].
  rewrite Hex. destruct (max_tokens s <=? zlen q) eqn:E3; [zlia|reflexivity].
Qed.

(** ** LRU order: eviction of the last entry, freshening *)

(** storing under an absent name in a full cache evicts exactly the LAST (least recently used) entry *)
Theorem store_evicts_last s n k :
  extract n (lru s) = None -> max_names s <= zlen (lru s) ->
  0 < max_names s -> 0 < max_tokens s ->
  lru (store s n k) = (n, [k]) :: removelast (lru s).
Proof.
  intros Hex Hfull Hmn Hmt. unfold store.
  destruct (max_names s =? 0) eqn:E1; [zlia|].
  destruct (max_tokens s =? 0) eqn:E2; [zlia|].
  rewrite Hex. destruct (max_names s <=? zlen (lru s)) eqn:E3; [reflexivity|zlia].
Qed.

(** storing under an absent name in a cache that is not full evicts nothing *)
Theorem store_no_eviction s n k :
  extract n (lru s) = None -> zlen (lru s) < max_names s -> 0 < max_tokens s ->
  lru (store s n k) = (n, [k]) :: lru s.
Proof.
  intros Hex Hfull Hmt. unfold store.
  destruct (max_names s =? 0) eqn:E1; [pose proof (zlen_nonneg (lru s)); zlia|].
  destruct (max_tokens s =? 0) eqn:E2; [zlia|].
  rewrite Hex. destruct (max_names s <=? zlen (lru s)) eqn:E3; [zlia|reflexivity].
Qed.

Lemma remove_notin (n : Z) l : ~ In n l -> remove Z.eq_dec n l = l.
Proof.
  induction l as [|a l IH]; intros H; cbn [remove]; [reflexivity|].
  destruct (Z.eq_dec n a) as [->|Hne]; [exfalso; apply H; left; reflexivity|].
  rewrite IH; [reflexivity|]. intros A. apply H. right. exact A.
Qed.

(** names of a split cache with [n] removed: all other entries in their original order *)
Lemma names_remove_split n (q : list Z) (l1 l2 : list entry) :
  NoDup (map fst (l1 ++ (n, q) :: l2)) ->
  remove Z.eq_dec n (map fst (l1 ++ (n, q) :: l2)) = map fst (l1 ++ l2).
Proof.
  intros Hnd. rewrite map_app in Hnd. cbn [map fst] in Hnd.
  pose proof (NoDup_remove_2 _ _ _ Hnd) as Hn.
  rewrite !map_app. cbn [map fst]. rewrite remove_app. cbn [remove].
  destruct (Z.eq_dec n n) as [_|Hne]; [|congruence].
  rewrite !remove_notin; [reflexivity| |]; intros A; apply Hn; apply in_or_app; auto.
Qed.

(** [store] for a present name moves that entry to the head; all other entries keep their
    relative order (nothing is evicted) *)
Theorem store_freshens s n k :
  Inv s -> 0 < max_names s -> 0 < max_tokens s -> In n (map fst (lru s)) ->
  map fst (lru (store s n k)) = n :: remove Z.eq_dec n (map fst (lru s)).
Proof.
  intros HI Hmn Hmt Hin. destruct (extract_present _ _ Hin) as (q & rest & Hex).
  unfold store.
  destruct (max_names s =? 0) eqn:E1; [zlia|].
  destruct (max_tokens s =? 0) eqn:E2; [zlia|].
  rewrite Hex. cbn [lru map fst]. f_equal.
  apply extract_some in Hex. destruct Hex as (l1 & l2 & Hl & -> & _).
  destruct HI as (_ & Hnd & _). rewrite Hl in *. symmetry. apply names_remove_split. exact Hnd.
Qed.

(** a [take] that does not empty the queue moves that entry to the head, the others keep
    their relative order *)
Theorem take_freshens s n k k2 q rest :
  Inv s -> extract n (lru s) = Some (k :: k2 :: q, rest) ->
  exists s', take s n = Some (s', Some k) /\
    lru s' = (n, k2 :: q) :: rest /\
    map fst (lru s') = n :: remove Z.eq_dec n (map fst (lru s)).
Proof.
  intros HI Hex. unfold take. rewrite Hex. eexists. split; [reflexivity|].
  cbn [lru]. split; [reflexivity|]. cbn [map fst]. f_equal.
  apply extract_some in Hex. destruct Hex as (l1 & l2 & Hl & -> & _).
  destruct HI as (_ & Hnd & _). rewrite Hl in *. symmetry. apply names_remove_split. exact Hnd.
Qed.

(** a [take] that empties the queue removes the entry, the others keep their relative order *)
Theorem take_last_removes s n k rest :
  Inv s -> extract n (lru s) = Some ([k], rest) ->
  exists s', take s n = Some (s', Some k) /\
    lru s' = rest /\
    map fst (lru s') = remove Z.eq_dec n (map fst (lru s)).
Proof.
  intros HI Hex. unfold take. rewrite Hex. eexists. split; [reflexivity|].
  cbn [lru]. split; [reflexivity|].
  apply extract_some in Hex. destruct Hex as (l1 & l2 & Hl & -> & _).
  destruct HI as (_ & Hnd & _). rewrite Hl in *. symmetry. apply names_remove_split. exact Hnd.
Qed.

(** a [take] for an absent name changes nothing (in particular it does not reorder) *)
Theorem take_absent s n : extract n (lru s) = None -> take s n = Some (s, None).
Proof. intros Hex. unfold take. rewrite Hex. reflexivity. Qed.

(** Summary: the list order is recency of use, and eviction removes the least recently used. *)
Theorem cache_eviction_is_lru s n k :
  Inv s -> 0 < max_names s -> 0 < max_tokens s ->
  (* (a) absent name, full cache: exactly the last entry is evicted, the new one is the head *)
  (extract n (lru s) = None -> max_names s <= zlen (lru s) ->
   lru (store s n k) = (n, [k]) :: removelast (lru s)) /\
  (* absent name, room left: nothing is evicted *)
  (extract n (lru s) = None -> zlen (lru s) < max_names s ->
   lru (store s n k) = (n, [k]) :: lru s) /\
  (* (b) present name: [store] freshens, the others keep their order *)
  (In n (map fst (lru s)) ->
   map fst (lru (store s n k)) = n :: remove Z.eq_dec n (map fst (lru s))) /\
  (* (b) a [take] that leaves tokens freshens, the others keep their order *)
  (forall t t2 q rest, extract n (lru s) = Some (t :: t2 :: q, rest) ->
   exists s', take s n = Some (s', Some t) /\
     map fst (lru s') = n :: remove Z.eq_dec n (map fst (lru s))) /\
  (* a [take] that empties the queue removes the entry, the others keep their order *)
  (forall t rest, extract n (lru s) = Some ([t], rest) ->
   exists s', take s n = Some (s', Some t) /\
     map fst (lru s') = remove Z.eq_dec n (map fst (lru s))).
Proof.
  intros HI Hmn Hmt. split; [|split; [|split; [|split]]].
  - intros Hex Hfull. apply store_evicts_last; assumption.
  - intros Hex Hroom. apply store_no_eviction; assumption.
  - intros Hin. apply store_freshens; assumption.
  - intros t t2 q rest Hex. destruct (take_freshens s n t t2 q rest HI Hex) as (s' & H1 & _ & H2).
    exists s'. split; assumption.
  - intros t rest Hex. destruct (take_last_removes s n t rest HI Hex) as (s' & H1 & _ & H2).
    exists s'. split; assumption.
Qed.

(** ** Non-vacuity: capacities (2, 2), three server names.
    [Ins 1 12] overflows server 1's queue (token 10 is dropped, so the first [Take 1] yields 11);
    [Ins 1 13] freshens server 1, so [Ins 3 30] on the full cache evicts server 2 (the least
    recently USED, although it was created after server 1) and token 20 is lost: [Take 2] yields
    nothing; the first [Take 3] empties server 3's queue and removes the entry (second [Take 3]
    yields nothing); finally [Ins 2 21; Ins 3 31] evicts server 1 with token 13 still stored. *)
Definition cache_example_history : list cop :=
  [Ins 1 10; Ins 1 11; Ins 1 12; Take 1; Ins 2 20; Ins 1 13; Ins 3 30;
   Take 2; Take 3; Take 3; Take 1; Ins 2 21; Ins 3 31; Take 1].

Example cache_example :
  exec (init 2 2) cache_example_history
  = Some (mk 2 2 [(3, [31]); (2, [21])], [(1, 11); (3, 30); (1, 12)]).
Proof. vm_compute. reflexivity. Qed.

(** the state just before and just after the eviction *)
Example cache_example_before_eviction :
  exec (init 2 2) (firstn 6 cache_example_history)
  = Some (mk 2 2 [(1, [12; 13]); (2, [20])], [(1, 11)]).
Proof. vm_compute. reflexivity. Qed.

Example cache_example_after_eviction :
  exec (init 2 2) (firstn 7 cache_example_history)
  = Some (mk 2 2 [(3, [30]); (1, [12; 13])], [(1, 11)]).
Proof. vm_compute. reflexivity. Qed.

(** the hypotheses of the eviction / overflow / freshening theorems are satisfiable together *)
Example cache_example_hyps :
  let s := mk 2 2 [(1, [12; 13]); (2, [20])] in
  Inv s /\ extract 3 (lru s) = None /\ max_names s <= zlen (lru s) /\
  extract 1 (lru s) = Some ([12; 13], [(2, [20])]) /\ max_tokens s <= zlen [12; 13].
Proof.
  cbv zeta. split; [|split; [reflexivity|split; [vm_compute; discriminate|split; [reflexivity|vm_compute; discriminate]]]].
  unfold Inv. cbn [lru max_names max_tokens map fst]. split; [vm_compute; discriminate|]. split.
  - constructor; [intros [A|[]]; discriminate|]. constructor; [intros []|constructor].
  - repeat constructor; cbn [snd]; try discriminate; vm_compute; discriminate.
Qed.

Print Assumptions cache_hands_out_once.
