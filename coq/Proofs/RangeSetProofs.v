(** ArrayRangeSet model: representation invariant (ascending, non-empty, disjoint and
    NON-ADJACENT ranges) and abstract-set semantics of [insert]. *)
From QV Require Import Lib.Tac Lib.Corr Lib.RangeSpec Model.ArrayRangeSet.
Open Scope Z_scope.

(** [wfb lo l]: every range is non-empty, starts strictly after [lo] and strictly after the end
    of its predecessor (so neighbouring ranges are neither overlapping nor adjacent) *)
Fixpoint wfb (lo : Z) (l : aset) : Prop :=
  match l with
  | [] => True
  | (s, e) :: r => lo < s /\ s < e /\ wfb e r
  end.

Definition wf (l : aset) : Prop := exists lo, wfb lo l.

(** the abstract set of integers *)
Definition mem (x : Z) (l : aset) : Prop := exists s e, In (s, e) l /\ s <= x < e.

Lemma wfb_weaken lo lo' l : lo' <= lo -> wfb lo l -> wfb lo' l.
Proof. destruct l as [|[s e] r]; cbn [wfb]; intros; auto. intuition lia. Qed.

Lemma mem_nil x : ~ mem x [].
Proof. intros (s & e & [] & _). Qed.

Lemma mem_cons x s e l : mem x ((s, e) :: l) <-> (s <= x < e) \/ mem x l.
Proof.
  split.
  - intros (s' & e' & [E|I] & H); [inversion E; subst; now left | right; now exists s', e'].
  - intros [H|(s' & e' & I & H)]; [exists s, e; split; [now left|exact H] | exists s', e'; split; [now right|exact H]].
Qed.

Lemma wfb_mem_gt lo l x : wfb lo l -> mem x l -> lo < x.
Proof.
  revert lo; induction l as [|[s e] r IH]; intros lo W M; [now apply mem_nil in M|].
  cbn [wfb] in W. destruct W as (W1 & W2 & W3). apply mem_cons in M as [M|M]; [lia|].
  specialize (IH e W3 M). lia.
Qed.

Lemma merge_next_spec t : forall b lo cs ce,
  wfb b t -> b <= ce -> cs <= b -> cs < ce -> lo < cs ->
  wfb lo (merge_next cs ce t) /\
  (forall x, mem x (merge_next cs ce t) <-> (cs <= x < ce) \/ mem x t).
Proof.
  induction t as [|[ns ne] t' IH]; intros b lo cs ce W Hb Hc Hlt Hlo; cbn [merge_next].
  - split; [cbn [wfb]; auto|]. intros x. rewrite mem_cons. reflexivity.
  - cbn [wfb] in W. destruct W as (W1 & W2 & W3).
    destruct (ns <=? ce) eqn:E.
    + destruct (IH ne lo cs (Z.max ne ce) W3) as [I1 I2]; try lia.
      split; [exact I1|]. intros x. rewrite I2, mem_cons. split.
      * intros [H|H]; [|now (right; right)].
        destruct (Z.lt_ge_cases x ce); [left; lia | right; left; lia].
      * intros [H|[H|H]]; [left; lia | left; lia | now right].
    + split; [cbn [wfb]; repeat split; auto; lia|]. intros x. rewrite !mem_cons. reflexivity.
Qed.

Lemma insert_at_spec l : forall lo xs xe,
  wfb lo l -> lo < xs -> xs < xe ->
  let '(b, l') := insert_at xs xe l in
  wfb lo l' /\ (forall x, mem x l' <-> mem x l \/ xs <= x < xe) /\
  (b = true <-> exists x, xs <= x < xe /\ ~ mem x l).
Proof.
  induction l as [|[rs re] t IH]; intros lo xs xe W Hlo Hlt; cbn [insert_at].
  - split; [cbn [wfb]; auto|]. split.
    + intros x. rewrite mem_cons. tauto.
    + split; [intros _; exists xs; split; [lia | apply mem_nil] | auto].
  - cbn [wfb] in W. destruct W as (W1 & W2 & W3).
    destruct (re <? xs) eqn:E1.
    + specialize (IH re xs xe W3 ltac:(lia) Hlt). destruct (insert_at xs xe t) as [b t'].
      destruct IH as (I1 & I2 & I3). split; [cbn [wfb]; auto|]. split.
      * intros x. rewrite !mem_cons, I2. tauto.
      * rewrite I3. split; intros (x & Hx & Hn); exists x; (split; [exact Hx|]); rewrite mem_cons in *; intuition lia.
    + destruct (xe <? rs) eqn:E2.
      * split; [cbn [wfb]; repeat split; auto; lia|]. split.
        { intros x. rewrite !mem_cons. tauto. }
        { split; [intros _|auto]. exists xs. split; [lia|]. rewrite mem_cons. intros [H|H]; [lia|].
          apply (wfb_mem_gt _ _ _ W3) in H. lia. }
      * destruct (xe <=? re) eqn:E3.
        { split; [cbn [wfb]; repeat split; auto; destruct (xs <? rs) eqn:E4; lia|]. split.
          - intros x. rewrite !mem_cons. destruct (xs <? rs) eqn:E4; intuition lia.
          - destruct (xs <? rs) eqn:E4.
            + split; [intros _|auto]. exists xs. split; [lia|]. rewrite mem_cons. intros [H|H]; [lia|].
              apply (wfb_mem_gt _ _ _ W3) in H. lia.
            + split; [discriminate|]. intros (x & Hx & Hn). exfalso. apply Hn. rewrite mem_cons. left. lia. }
        { set (rs' := if xs <? rs then xs else rs).
          assert (Hrs' : rs' = Z.min xs rs) by (unfold rs'; destruct (xs <? rs) eqn:E4; lia).
          destruct (merge_next_spec t re lo rs' xe W3) as [M1 M2]; try lia.
          split; [exact M1|]. split.
          - intros x. rewrite M2, mem_cons. intuition lia.
          - split; [intros _|auto]. exists re. split; [lia|]. rewrite mem_cons. intros [H|H]; [lia|].
            apply (wfb_mem_gt _ _ _ W3) in H. lia. }
Qed.

(** [insert] on a well-formed set: the result is well-formed, denotes the union, and the
    returned flag is true iff some integer of the range was not yet in the set. *)
Theorem array_insert_correct l xs xe : wf l -> 0 <= xs ->
  let '(b, l') := ArrayRangeSet.insert xs xe l in
  wf l' /\ (forall x, mem x l' <-> mem x l \/ xs <= x < xe) /\
  (b = true <-> exists x, xs <= x < xe /\ ~ mem x l).
Proof.
  intros [lo W] Hxs. unfold ArrayRangeSet.insert.
  destruct (xe <=? xs) eqn:E.
  - split; [now exists lo|]. split; [intros x; intuition lia|].
    split; [discriminate | intros (x & Hx & _); lia].
  - pose proof (insert_at_spec l (Z.min lo (xs - 1)) xs xe) as S.
    destruct (insert_at xs xe l) as [b l'].
    destruct S as (S1 & S2 & S3); [apply (wfb_weaken lo); [lia | exact W] | lia | lia |].
    split; [now exists (Z.min lo (xs - 1)) | auto].
Qed.
