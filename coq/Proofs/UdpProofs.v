(** Proofs about Model/UdpModel.v: segmentation, GRO coalescing and the receive-side split. *)
From QV Require Import Lib.Tac Lib.Bytes Model.UdpModel.
From Coq Require Import Arith.
Open Scope nat_scope.

Lemma segments_fuel_cons f seg a l :
  segments_fuel (S f) seg (a :: l) =
  option_map (cons (firstn seg (a :: l))) (segments_fuel f seg (skipn seg (a :: l))).
Proof. reflexivity. Qed.

Lemma segments_fuel_nil f seg : segments_fuel f seg [] = Some [].
Proof. destruct f; reflexivity. Qed.

Lemma split_fuel_nil f s : split_fuel f s [] = Some [].
Proof. destruct f; reflexivity. Qed.

Lemma firstn_min_length {A} n (l : list A) : firstn (Nat.min n (length l)) l = firstn n l.
Proof.
  destruct (Nat.le_gt_cases n (length l)) as [H|H].
  - now rewrite Nat.min_l.
  - rewrite Nat.min_r by lia. rewrite firstn_all. symmetry. apply firstn_all2. lia.
Qed.

Lemma skipn_min_length {A} n (l : list A) : skipn (Nat.min n (length l)) l = skipn n l.
Proof.
  destruct (Nat.le_gt_cases n (length l)) as [H|H].
  - now rewrite Nat.min_l.
  - rewrite Nat.min_r by lia. rewrite skipn_all. symmetry. apply skipn_all2. lia.
Qed.

(** The receive loop computes exactly the chunking that segmentation offload performs. *)
Lemma split_fuel_eq_segments_fuel fuel stride l :
  split_fuel fuel stride l = segments_fuel fuel stride l.
Proof.
  revert l; induction fuel as [|f IH]; intro l; destruct l as [|a l]; try reflexivity.
  cbn [split_fuel]. rewrite segments_fuel_cons.
  rewrite firstn_min_length, skipn_min_length, IH. reflexivity.
Qed.

Lemma split_eq_segments stride l : split_by_stride stride l = segments stride l.
Proof. apply split_fuel_eq_segments_fuel. Qed.

(** Chunks of a [run_shape] concatenation are recovered exactly. *)
Lemma segments_fuel_run_shape s b :
  0 < s -> run_shape s b ->
  forall fuel, length (concat b) <= fuel -> segments_fuel fuel s (concat b) = Some b.
Proof.
  intro Hs. induction b as [|x r IH]; intros Hsh fuel Hf.
  - cbn [concat]. apply segments_fuel_nil.
  - destruct r as [|y r'].
    + cbn [run_shape] in Hsh. cbn [concat] in *. rewrite app_nil_r in *.
      destruct x as [|a x]; [cbn [length] in Hsh; lia|].
      destruct fuel as [|f]; [cbn [length] in Hf; lia|].
      rewrite segments_fuel_cons.
      rewrite firstn_all2 by lia. rewrite skipn_all2 by lia.
      rewrite segments_fuel_nil. reflexivity.
    + destruct Hsh as [Hx Hr].
      change (concat (x :: y :: r')) with (x ++ concat (y :: r')) in *.
      destruct x as [|a x]; [cbn [length] in Hx; lia|].
      destruct fuel as [|f]; [cbn [length app] in Hf; lia|].
      change ((a :: x) ++ concat (y :: r')) with (a :: (x ++ concat (y :: r'))).
      rewrite segments_fuel_cons.
      change (a :: (x ++ concat (y :: r'))) with ((a :: x) ++ concat (y :: r')).
      rewrite firstn_app, skipn_app.
      replace (s - length (a :: x)) with 0 by lia.
      rewrite firstn_all2 by lia. rewrite skipn_all2 by lia.
      cbn [firstn skipn app]. rewrite app_nil_r.
      rewrite IH; [reflexivity|exact Hr|].
      rewrite app_length in Hf. cbn [length] in Hf |- *. lia.
Qed.

(** Existence (fuel is enough) and the shape of the chunks. *)
Lemma segments_fuel_spec seg :
  0 < seg ->
  forall fuel l, length l <= fuel ->
  exists segs, segments_fuel fuel seg l = Some segs /\ concat segs = l /\ run_shape seg segs.
Proof.
  intros Hs. induction fuel as [|f IH]; intros l Hf.
  - destruct l; [|cbn [length] in Hf; lia]. exists []. repeat split.
  - destruct l as [|a l].
    + exists []. repeat split.
    + rewrite segments_fuel_cons.
      destruct (IH (skipn seg (a :: l))) as [segs' [E [C Sh]]].
      { rewrite skipn_length. cbn [length] in Hf |- *. lia. }
      rewrite E. cbn [option_map]. exists (firstn seg (a :: l) :: segs').
      split; [reflexivity|]. split.
      * cbn [concat]. rewrite C. apply firstn_skipn.
      * destruct segs' as [|y r].
        -- cbn [run_shape]. rewrite firstn_length. cbn [length]. lia.
        -- split; [|exact Sh].
           assert (Hne : skipn seg (a :: l) <> []).
           { intro H0. rewrite H0 in C. cbn [concat] in C.
             cbn [run_shape] in Sh.
             assert (0 < length y) by (destruct r; [lia|destruct Sh; lia]).
             destruct y; [cbn [length] in *; lia|discriminate]. }
           assert (seg < length (a :: l)).
           { destruct (Nat.le_gt_cases (length (a :: l)) seg) as [H|H]; [|exact H].
             exfalso. apply Hne. apply skipn_all2. exact H. }
           rewrite firstn_length. lia.
Qed.

Lemma run_shape_nonempty seg b : 0 < seg -> run_shape seg b -> Forall (fun d => d <> []) b.
Proof.
  intro Hs. induction b as [|x r IH]; intro Sh; constructor.
  - destruct r; cbn [run_shape] in Sh; intro E; subst x; cbn [length] in Sh; lia.
  - apply IH. destruct r; [exact I|]. destruct Sh; assumption.
Qed.

Lemma run_shape_bounds seg b : run_shape seg b -> Forall (fun d => 0 < length d <= seg) b \/ seg = 0.
Proof.
  destruct seg as [|k]; [right; reflexivity|left].
  induction b as [|x r IH]; constructor.
  - destruct r; cbn [run_shape] in H; lia.
  - apply IH. destruct r; [exact I|]. destruct H; assumption.
Qed.

(** * GRO *)
Lemma take_run_spec s : 0 < s ->
  forall k l b rest, take_run s k l = (b, rest) -> l = b ++ rest /\ run_shape s b.
Proof.
  intro Hs. induction k as [|k IH]; intros l b rest E.
  - cbn [take_run] in E. inversion E; subst. split; [reflexivity|exact I].
  - destruct l as [|d r].
    + cbn [take_run] in E. inversion E; subst. split; [reflexivity|exact I].
    + cbn [take_run] in E.
      destruct (length d =? s) eqn:Ed.
      * destruct (take_run s k r) as [a b0] eqn:Et. inversion E; subst.
        destruct (IH _ _ _ Et) as [Hr Sh]. apply Nat.eqb_eq in Ed.
        split; [cbn [app]; congruence|].
        destruct a as [|y a']; [cbn [run_shape]; lia|]. split; assumption.
      * destruct ((0 <? length d) && (length d <? s)) eqn:Es.
        -- inversion E; subst. apply andb_true_iff in Es as [E1 E2].
           apply Nat.ltb_lt in E1. apply Nat.ltb_lt in E2.
           split; [reflexivity|]. cbn [run_shape]. lia.
        -- inversion E; subst. split; [reflexivity|exact I].
Qed.

Lemma split_all_gro_fuel fuel : forall choice dgs,
  length dgs <= fuel -> Forall (fun d => d <> []) dgs ->
  split_all (gro_fuel fuel choice dgs) = Some dgs.
Proof.
  induction fuel as [|f IH]; intros choice dgs Hf Hne.
  - destruct dgs; [reflexivity|cbn [length] in Hf; lia].
  - destruct dgs as [|d r]; [reflexivity|].
    cbn [gro_fuel].
    destruct (take_run (length d) (hd 0 choice) r) as [batch rest] eqn:Et.
    inversion Hne as [|? ? Hd Hr]; subst.
    assert (Hs : 0 < length d) by (destruct d; [congruence|cbn [length]; lia]).
    destruct (take_run_spec _ Hs _ _ _ _ Et) as [Hsplit Sh].
    cbn [split_all].
    rewrite split_eq_segments. unfold segments.
    change (d ++ concat batch) with (concat (d :: batch)).
    rewrite (segments_fuel_run_shape (length d) (d :: batch) Hs).
    + rewrite IH.
      * rewrite Hsplit. reflexivity.
      * subst r. cbn [length] in Hf. rewrite app_length in Hf. lia.
      * subst r. apply Forall_app in Hr. tauto.
    + destruct batch as [|y b']; [cbn [run_shape]; lia|]. split; [reflexivity|exact Sh].
    + lia.
Qed.

(** Whatever the kernel chooses to merge, splitting by the reported stride gives the datagrams back. *)
Lemma gro_split_roundtrip choice dgs :
  Forall (fun d => d <> []) dgs -> split_all (gro_coalesce choice dgs) = Some dgs.
Proof. intro H. apply split_all_gro_fuel; [lia|exact H]. Qed.

Lemma split_coalesce_segments seg contents :
  0 < seg ->
  exists segs,
    segments seg contents = Some segs /\
    concat segs = contents /\
    run_shape seg segs /\
    Forall (fun d => 0 < length d <= seg) segs /\
    forall choice, split_all (gro_coalesce choice segs) = Some segs.
Proof.
  intro Hs. destruct (segments_fuel_spec seg Hs (length contents) contents (le_n _)) as [segs [E [C Sh]]].
  exists segs. split; [exact E|]. split; [exact C|]. split; [exact Sh|]. split.
  - destruct (run_shape_bounds _ _ Sh) as [H|H]; [exact H|lia].
  - intro choice. apply gro_split_roundtrip. apply (run_shape_nonempty seg); assumption.
Qed.

(** * Termination of the receive loop *)
Lemma split_terminates stride data :
  0 < stride -> exists l, split_by_stride stride data = Some l /\ concat l = data.
Proof.
  intro Hs. rewrite split_eq_segments.
  destruct (segments_fuel_spec stride Hs (length data) data (le_n _)) as [segs [E [C _]]].
  exists segs. split; assumption.
Qed.

Lemma split_fuel_stride_zero fuel data : data <> [] -> split_fuel fuel 0 data = None.
Proof.
  intro Hne. induction fuel as [|f IH]; destruct data as [|a l]; try congruence; try reflexivity.
  cbn [split_fuel Nat.min firstn skipn]. rewrite IH. reflexivity.
Qed.

(** With a zero stride on a non-empty message the loop makes no progress (kernel assumption:
    UDP_GRO never reports 0). *)
Lemma split_stride_zero_hangs data : data <> [] -> split_by_stride 0 data = None.
Proof. apply split_fuel_stride_zero. Qed.

(** * effective_segment_size *)
Lemma segments_single seg contents :
  0 < seg -> contents <> [] -> length contents <= seg -> segments seg contents = Some [contents].
Proof.
  intros Hs Hne Hl. unfold segments. destruct contents as [|a l]; [congruence|].
  cbn [length]. rewrite segments_fuel_cons.
  rewrite firstn_all2 by exact Hl. rewrite skipn_all2 by exact Hl.
  rewrite segments_fuel_nil. reflexivity.
Qed.

Lemma effective_none_iff_single seg contents segs :
  0 < seg -> contents <> [] -> segments seg contents = Some segs ->
  (effective_segment_size (Some seg) (length contents) = None <-> length segs = 1).
Proof.
  intros Hs Hne E. unfold effective_segment_size.
  destruct (length contents <=? seg) eqn:El.
  - apply Nat.leb_le in El. rewrite (segments_single _ _ Hs Hne El) in E. inversion E; subst.
    split; reflexivity.
  - apply Nat.leb_gt in El. split; [discriminate|]. intro H1. exfalso.
    destruct (segments_fuel_spec seg Hs (length contents) contents (le_n _)) as [segs' [E' [C Sh]]].
    unfold segments in E. rewrite E in E'. inversion E'; subst segs'.
    destruct segs as [|x [|y r]]; cbn [length] in H1; try lia.
    cbn [concat run_shape] in *. rewrite app_nil_r in C. subst x. lia.
Qed.

(** The shortcut of [effective_segment_size] never changes the datagrams that are sent. *)
Lemma transmit_datagrams_eq_segments seg contents :
  0 < seg -> contents <> [] ->
  transmit_datagrams (Some seg) contents = segments seg contents.
Proof.
  intros Hs Hne. unfold transmit_datagrams, effective_segment_size.
  destruct (length contents <=? seg) eqn:El; [|reflexivity].
  apply Nat.leb_le in El. symmetry. apply segments_single; assumption.
Qed.

Lemma transmit_datagrams_none contents : transmit_datagrams None contents = Some [contents].
Proof. reflexivity. Qed.
