From QV Require Import Lib.Tac Lib.Corr Model.TokenDecision.
Open Scope Z_scope.
