(** Proofs about Model/TokenDecision.v.  Cryptography is a Section oracle: [open k b] is
    [Token::decode] under the server's key; the AEAD assumptions stay visible as premises. *)
From QV Require Import Lib.Tac Lib.Corr Model.BloomLog Model.TokenDecision Proofs.BloomLogProofs.
Open Scope Z_scope.

Section AEAD.
  Variables (key bytes : Type).
  Variable seal : key -> token -> bytes.            (* Token::encode under a key *)
  Variable open : key -> bytes -> option token.     (* Token::decode under a key *)
  Variable is_empty : bytes -> bool.
  Variable k : key.                                  (* this server's token key *)
  Variable issued_by_server : token -> Prop.         (* the tokens this server sealed under [k] *)

  (** AEAD unforgeability (INT-CTXT): whatever decodes under [k] is the unmodified encoding of a
      token this server sealed; in particular nothing sealed under another key decodes. *)
  Hypothesis unforgeable : forall b t, open k b = Some t -> issued_by_server t /\ b = seal k t.
  Hypothesis open_seal : forall t, open k (seal k t) = Some t.
  Hypothesis other_key : forall k' t, k' <> k -> open k (seal k' t) = None.

  Definition from_header (c : config) (log : BloomLog.t) (now raddr rport : Z) (dcid : list Z)
             (b : bytes) : BloomLog.t * outcome :=
    decide c log now raddr rport dcid (is_empty b) (open k b).

  Theorem validated_implies_genuine : forall c log now raddr rport dcid b log' rsc od,
    from_header c log now raddr rport dcid b = (log', Incoming rsc od true) ->
    exists t, issued_by_server t /\ b = seal k t /\ is_empty b = false /\
      match pl t with
      | Retry addr port odcid iss =>
          addr = raddr /\ port = rport /\ now <= iss + retry_lt c /\
          rsc = Some dcid /\ od = odcid /\ log' = log
      | Validation ip iss =>
          ip = raddr /\ now <= iss + val_lt c /\ rsc = None /\ od = dcid /\
          BloomLog.check (log_fmb c) log (nonce t) iss (val_lt c) false = (log', true)
      end.
  Proof using unforgeable. clear open_seal other_key.
    intros c log now raddr rport dcid b log' rsc od. unfold from_header, decide, unvalidated.
    destruct (is_empty b) eqn:E; [discriminate|].
    destruct (open k b) as [t|] eqn:O; [|discriminate].
    destruct (unforgeable _ _ O) as [Hi Hb].
    intros H. exists t. split; [exact Hi|]. split; [exact Hb|]. split; [reflexivity|].
    destruct (pl t) as [addr port odcid iss|ip iss].
    - destruct ((addr =? raddr) && (port =? rport)) eqn:A; cbn [negb] in H; [|discriminate].
      destruct (iss + retry_lt c <? now) eqn:B; [discriminate|].
      injection H as <- <- <-. apply andb_true_iff in A. repeat split; try reflexivity; lia.
    - destruct (ip =? raddr) eqn:A; cbn [negb] in H; [|discriminate].
      destruct (iss + val_lt c <? now) eqn:B; [discriminate|].
      destruct (check (log_fmb c) log (nonce t) iss (val_lt c) false) as [l2 ok] eqn:C.
      destruct ok; [|discriminate]. injection H as <- <- <-.
      repeat split; try reflexivity; lia.
  Qed.

  (** Any altered or foreign token is treated exactly like an absent token. *)
  Theorem altered_token_is_absent : forall c log now raddr rport dcid b,
    open k b = None ->
    from_header c log now raddr rport dcid b = (log, unvalidated dcid).
  Proof using. clear unforgeable open_seal other_key. clear seal issued_by_server.
    intros. unfold from_header, decide. rewrite H. destruct (is_empty b); reflexivity.
  Qed.

  Corollary not_issued_is_absent : forall c log now raddr rport dcid b,
    (forall t, issued_by_server t -> b <> seal k t) ->
    from_header c log now raddr rport dcid b = (log, unvalidated dcid).
  Proof using unforgeable. clear open_seal other_key.
    intros c log now raddr rport dcid b H. apply altered_token_is_absent.
    destruct (open k b) as [t|] eqn:O; [|reflexivity].
    destruct (unforgeable _ _ O) as [Hi Hb]. exfalso. exact (H t Hi Hb).
  Qed.

  Corollary foreign_key_token_is_absent : forall c log now raddr rport dcid k' t,
    k' <> k ->
    from_header c log now raddr rport dcid (seal k' t) = (log, unvalidated dcid).
  Proof using other_key. clear unforgeable open_seal. clear issued_by_server. intros. apply altered_token_is_absent. apply other_key. assumption. Qed.

  (** A Retry token of this server that is stale or presented from another address or port
      ends the attempt (the caller answers INVALID_TOKEN). *)
  Theorem stale_or_misplaced_retry_is_invalid : forall c log now raddr rport dcid b t addr port od iss,
    is_empty b = false -> open k b = Some t -> pl t = Retry addr port od iss ->
    (addr <> raddr \/ port <> rport \/ iss + retry_lt c < now) ->
    from_header c log now raddr rport dcid b = (log, InvalidRetryToken).
  Proof using. clear unforgeable open_seal other_key. clear seal issued_by_server.
    intros c log now raddr rport dcid b t addr port od iss E O P H.
    unfold from_header, decide. rewrite E, O, P.
    destruct ((addr =? raddr) && (port =? rport)) eqn:A; cbn [negb]; [|reflexivity].
    apply andb_true_iff in A. destruct (iss + retry_lt c <? now) eqn:B; [reflexivity|lia].
  Qed.

  (** Completeness (non-vacuity of the acceptance branch): a genuine Retry token presented from
      its address within its lifetime is accepted and carries the original destination CID. *)
  Theorem genuine_retry_accepted : forall c log now raddr rport dcid t od iss,
    is_empty (seal k t) = false -> pl t = Retry raddr rport od iss -> now <= iss + retry_lt c ->
    from_header c log now raddr rport dcid (seal k t) = (log, Incoming (Some dcid) od true).
  Proof using open_seal. clear unforgeable other_key. clear issued_by_server.
    intros c log now raddr rport dcid t od iss E P H.
    unfold from_header, decide. rewrite E, open_seal, P, !Z.eqb_refl. cbn [andb negb].
    destruct (iss + retry_lt c <? now) eqn:B; [lia|reflexivity].
  Qed.

  (** A validation token is moved to another IP or is stale: treated as absent, log untouched. *)
  Theorem stale_or_misplaced_validation_is_absent : forall c log now raddr rport dcid b t ip iss,
    open k b = Some t -> pl t = Validation ip iss ->
    (ip <> raddr \/ iss + val_lt c < now) ->
    from_header c log now raddr rport dcid b = (log, unvalidated dcid).
  Proof using. clear unforgeable open_seal other_key. clear seal issued_by_server.
    intros c log now raddr rport dcid b t ip iss O P H.
    unfold from_header, decide. rewrite O, P. destruct (is_empty b); [reflexivity|].
    destruct (ip =? raddr) eqn:A; cbn [negb]; [|reflexivity].
    destruct (iss + val_lt c <? now) eqn:B; [reflexivity|lia].
  Qed.

  (** ---- histories of presentations: NEW_TOKEN tokens validate at most once ---- *)
  Definition presentation := (Z * Z * Z * list Z * bytes)%type.   (* now, remote ip, port, dcid, token bytes *)

  Fixpoint serve (c : config) (log : BloomLog.t) (h : list presentation) : list outcome :=
    match h with
    | [] => []
    | (now, raddr, rport, dcid, b) :: h' =>
        let '(log', o) := from_header c log now raddr rport dcid b in o :: serve c log' h'
    end.

  Definition is_validated (o : outcome) : bool :=
    match o with Incoming _ _ v => v | InvalidRetryToken => false end.

  Lemma from_header_inv c log now raddr rport dcid b log' o A :
    0 < val_lt c -> BloomLogProofs.Inv (val_lt c) log A ->
    from_header c log now raddr rport dcid b = (log', o) ->
    exists A', BloomLogProofs.Inv (val_lt c) log' A' /\ (forall x, In x A -> In x A') /\
      (forall t ip iss, open k b = Some t -> pl t = Validation ip iss -> is_validated o = true ->
                        In (nonce t mod 2 ^ 64, iss + val_lt c) A').
  Proof using. clear unforgeable open_seal other_key. clear seal issued_by_server.
    intros HL HI. unfold from_header, decide, unvalidated.
    destruct (is_empty b).
    { intros H; injection H as <- <-. exists A. repeat split; auto. intros; discriminate. }
    destruct (open k b) as [t|] eqn:O.
    2:{ intros H; injection H as <- <-. exists A. repeat split; auto. intros; discriminate. }
    destruct (pl t) as [addr port odcid iss|ip iss] eqn:P.
    - intros H. exists A.
      assert (log' = log) as ->.
      { destruct (negb ((addr =? raddr) && (port =? rport))); [injection H as <- _; reflexivity|].
        destruct (iss + retry_lt c <? now); injection H as <- _; reflexivity. }
      repeat split; auto. intros t0 ip0 iss0 E0 P0. injection E0 as <-. congruence.
    - destruct (negb (ip =? raddr)).
      { intros H; injection H as <- <-. exists A. repeat split; auto. intros; discriminate. }
      destruct (iss + val_lt c <? now).
      { intros H; injection H as <- <-. exists A. repeat split; auto. intros; discriminate. }
      destruct (check (log_fmb c) log (nonce t) iss (val_lt c) false) as [l2 ok] eqn:C.
      pose proof (check_preserves_inv _ _ _ _ _ _ _ _ _ HL HI C) as HI2.
      destruct ok; intros H; injection H as <- <-.
      + eexists. split; [exact HI2|]. split; [intros x Hx; right; exact Hx|].
        intros t0 ip0 iss0 E0 P0 _. injection E0 as <-. rewrite P in P0. injection P0 as <- <-.
        left. reflexivity.
      + exists A. repeat split; auto. intros; discriminate.
  Qed.

  Lemma from_header_rejects_known c log now raddr rport dcid b A t ip iss :
    0 < val_lt c -> BloomLogProofs.Inv (val_lt c) log A ->
    open k b = Some t -> pl t = Validation ip iss ->
    In (nonce t mod 2 ^ 64, iss + val_lt c) A ->
    is_validated (snd (from_header c log now raddr rport dcid b)) = false.
  Proof using. clear unforgeable open_seal other_key. clear seal issued_by_server.
    intros HL HI O P HA. unfold from_header, decide, unvalidated. rewrite O, P.
    destruct (is_empty b); [reflexivity|].
    destruct (negb (ip =? raddr)); [reflexivity|].
    destruct (iss + val_lt c <? now); [reflexivity|].
    pose proof (inv_rejects_replay (log_fmb c) _ _ _ _ _ false HL HI HA) as R.
    destruct (check (log_fmb c) log (nonce t) iss (val_lt c) false) as [l2 ok].
    cbn [snd] in R. subst ok. reflexivity.
  Qed.

  Lemma serve_rejects_known c : 0 < val_lt c -> forall h log A,
    BloomLogProofs.Inv (val_lt c) log A ->
    forall j now raddr rport dcid b t ip iss,
      nth_error h j = Some (now, raddr, rport, dcid, b) ->
      open k b = Some t -> pl t = Validation ip iss ->
      In (nonce t mod 2 ^ 64, iss + val_lt c) A ->
      exists o, nth_error (serve c log h) j = Some o /\ is_validated o = false.
  Proof using. clear unforgeable open_seal other_key. clear seal issued_by_server.
    intros HL. induction h as [|[[[[now0 ra0] rp0] dc0] b0] h IH]; intros log A HI j now raddr rport dcid b t ip iss Hj O P HA.
    - destruct j; discriminate.
    - cbn [serve]. destruct (from_header c log now0 ra0 rp0 dc0 b0) as [log' o0] eqn:F.
      destruct j as [|j].
      + cbn [nth_error] in Hj. injection Hj as -> -> -> -> ->. exists o0. split; [reflexivity|].
        pose proof (from_header_rejects_known c log now raddr rport dcid b A t ip iss HL HI O P HA) as R.
        rewrite F in R. exact R.
      + cbn [nth_error] in Hj |- *.
        destruct (from_header_inv _ _ _ _ _ _ _ _ _ _ HL HI F) as (A' & HI' & Hsub & _).
        eapply IH; eauto.
  Qed.

  (** Over any history of Initial packets (any clock readings, addresses, interleaved with any
      other tokens): two presentations whose bytes decode to NEW_TOKEN tokens with the same nonce
      (64-bit fingerprint) and issue time — in particular two presentations of the same token —
      are never both validated. *)
  Theorem validation_token_single_use : forall c h,
    0 <= val_lt c ->
    forall i j p q t t' ip ip' iss,
      (i < j)%nat -> nth_error h i = Some p -> nth_error h j = Some q ->
      open k (snd p) = Some t -> pl t = Validation ip iss ->
      open k (snd q) = Some t' -> pl t' = Validation ip' iss ->
      nonce t mod 2 ^ 64 = nonce t' mod 2 ^ 64 ->
      forall oi oj, nth_error (serve c BloomLog.init h) i = Some oi ->
                    nth_error (serve c BloomLog.init h) j = Some oj ->
                    is_validated oi = true -> is_validated oj = false.
  Proof using. clear unforgeable open_seal other_key. clear seal issued_by_server.
    intros c h HL0.
    destruct (Z.eq_dec (val_lt c) 0) as [Z0|NZ].
    { (* zero lifetime: the log rejects everything *)
      intros i j p q t t' ip ip' iss _ Hi _ Oi Pi _ _ _ oi oj Hoi _ V. exfalso.
      revert i Hi Hoi. generalize BloomLog.init as log.
      induction h as [|[[[[now0 ra0] rp0] dc0] b0] h IH]; intros log i Hi Hoi; [destruct i; discriminate|].
      cbn [serve] in Hoi. destruct (from_header c log now0 ra0 rp0 dc0 b0) as [log' o0] eqn:F.
      destruct i as [|i].
      - cbn [nth_error] in Hi, Hoi. injection Hi as <-. injection Hoi as <-. cbn [snd] in Oi.
        unfold from_header, decide, unvalidated in F. rewrite Oi, Pi, Z0 in F.
        rewrite bloom_zero_lifetime_rejects in F.
        destruct (is_empty b0); [injection F as _ <-; discriminate|].
        destruct (negb (ip =? ra0)); [injection F as _ <-; discriminate|].
        destruct (iss + 0 <? now0); injection F as _ <-; discriminate.
      - cbn [nth_error] in Hi, Hoi. eapply IH; eauto. }
    assert (HL : 0 < val_lt c) by lia. clear HL0 NZ.
    assert (G : forall h log A, BloomLogProofs.Inv (val_lt c) log A ->
      forall i j p q t t' ip ip' iss,
      (i < j)%nat -> nth_error h i = Some p -> nth_error h j = Some q ->
      open k (snd p) = Some t -> pl t = Validation ip iss ->
      open k (snd q) = Some t' -> pl t' = Validation ip' iss ->
      nonce t mod 2 ^ 64 = nonce t' mod 2 ^ 64 ->
      forall oi oj, nth_error (serve c log h) i = Some oi ->
                    nth_error (serve c log h) j = Some oj ->
                    is_validated oi = true -> is_validated oj = false).
    { clear h. induction h as [|[[[[now0 ra0] rp0] dc0] b0] h IH];
        intros log A HI i j p q t t' ip ip' iss Hij Hi Hj Oi Pi Oj Pj Hn oi oj Hoi Hoj V.
      - destruct i; discriminate.
      - cbn [serve] in Hoi, Hoj. destruct (from_header c log now0 ra0 rp0 dc0 b0) as [log' o0] eqn:F.
        destruct (from_header_inv _ _ _ _ _ _ _ _ _ _ HL HI F) as (A' & HI' & Hsub & Hacc).
        destruct j as [|j]; [lia|]. cbn [nth_error] in Hj, Hoj.
        destruct i as [|i].
        + cbn [nth_error] in Hi, Hoi. injection Hi as <-. injection Hoi as <-. cbn [snd] in Oi.
          pose proof (Hacc _ _ _ Oi Pi V) as HA. rewrite Hn in HA.
          destruct q as [[[[nowq raq] rpq] dcq] bq]. cbn [snd] in Oj.
          destruct (serve_rejects_known c HL h log' A' HI' j _ _ _ _ _ _ _ _ Hj Oj Pj HA) as (o & Ho & Vo).
          rewrite Hoj in Ho. injection Ho as <-. exact Vo.
        + cbn [nth_error] in Hi, Hoi. eapply (IH log' A' HI' i j); eauto. lia. }
    intros. eapply (G h BloomLog.init [] (inv_init _)); eauto.
  Qed.
End AEAD.

(** Consistency of the AEAD assumptions: the ideal scheme (bytes = key and token in the clear,
    [open] compares keys) satisfies them, with every token counted as issued. *)
Definition ideal_seal (k : Z) (t : token) : Z * token := (k, t).
Definition ideal_open (k : Z) (b : Z * token) : option token := if fst b =? k then Some (snd b) else None.

Lemma ideal_unforgeable k b t : ideal_open k b = Some t -> True /\ b = ideal_seal k t.
Proof.
  unfold ideal_open, ideal_seal. destruct b as [k' t']. cbn [fst snd].
  destruct (k' =? k) eqn:E; [|discriminate]. intros H; injection H as <-.
  apply Z.eqb_eq in E. subst. split; [exact I|reflexivity].
Qed.

Lemma ideal_open_seal k t : ideal_open k (ideal_seal k t) = Some t.
Proof. unfold ideal_open, ideal_seal. cbn [fst snd]. rewrite Z.eqb_refl. reflexivity. Qed.

Lemma ideal_other_key k k' t : k' <> k -> ideal_open k (ideal_seal k' t) = None.
Proof.
  intros H. unfold ideal_open, ideal_seal. cbn [fst snd]. destruct (k' =? k) eqn:E; [|reflexivity].
  apply Z.eqb_eq in E. contradiction.
Qed.

(** Non-vacuity: a Retry token issued to 10.0.0.1:4433 at second 5 with a 15 s lifetime is
    accepted at the last admissible microsecond, fails one microsecond later and from another
    port; a NEW_TOKEN token validates once and is absent the second time. *)
Example token_decision_example :
  let c := mkCfg 15000000 60000000 (2 ^ 19) in
  let r := mkTok 77 (Retry 1 4433 [9; 9] 5000000) in
  let v := mkTok 78 (Validation 1 5000000) in
  snd (decide c BloomLog.init 20000000 1 4433 [1; 2] false (Some r)) = Incoming (Some [1; 2]) [9; 9] true /\
  snd (decide c BloomLog.init 20000001 1 4433 [1; 2] false (Some r)) = InvalidRetryToken /\
  snd (decide c BloomLog.init 20000000 1 4434 [1; 2] false (Some r)) = InvalidRetryToken /\
  snd (decide c BloomLog.init 20000000 1 4433 [1; 2] false None) = Incoming None [1; 2] false /\
  (let '(log1, o1) := decide c BloomLog.init 6000000 1 999 [1; 2] false (Some v) in
   o1 = Incoming None [1; 2] true /\
   snd (decide c log1 6000001 1 999 [1; 2] false (Some v)) = Incoming None [1; 2] false).
Proof. vm_compute. repeat split; reflexivity. Qed.
