(** C09 at component level: consequences of the routing invariant for all histories. *)
From QV Require Import Lib.Tac Lib.Corr Model.Routing Proofs.RoutingMap Proofs.RoutingInv.
Open Scope Z_scope.

(** The endpoint state after a history of hook operations (None: no endpoint yet, or a panic). *)
Definition state_after (i : ops) : option st :=
  match fst (sim_run fixed NoEp i) with Ep s => Some s | _ => None end.

Definition sim_inv (x : sim) : Prop := match x with Ep s => Inv s | _ => True end.

Lemma sim_step_inv x op : sim_inv x -> sim_inv (fst (sim_step fixed x op)).
Proof.
  intros I. unfold sim_step. destruct x as [|s|]; cbn [fst sim_inv]; auto.
  - destruct op as [|opc args]; cbn [fst sim_inv]; auto.
    destruct opc; cbn [fst sim_inv]; auto.
    destruct args as [|len [|pref [|? ?]]]; cbn [fst sim_inv]; auto.
    destruct (in_range 0 20 len); cbn [fst sim_inv]; auto. apply Inv_init.
  - destruct op as [|opc args]; cbn [fst sim_inv]; auto.
    assert (G : sim_inv (fst (match step_v fixed s (opc :: args) with
                              | Some (s', o) => (Ep s', o)
                              | None => (Panicked, [])
                              end))).
    { destruct (step_v fixed s (opc :: args)) as [[s' o]|] eqn:E; cbn [fst sim_inv]; auto.
      eapply step_inv; eauto. }
    destruct opc; auto.
    destruct args as [|len [|pref [|? ?]]]; cbn [fst sim_inv]; auto.
    destruct (in_range 0 20 len); cbn [fst sim_inv]; auto. apply Inv_init.
Qed.

Lemma sim_run_inv i : forall x, sim_inv x -> sim_inv (fst (sim_run fixed x i)).
Proof.
  induction i as [|op i IH]; intros x I; cbn [sim_run fst]; auto.
  pose proof (sim_step_inv x op I) as I1.
  destruct (sim_step fixed x op) as [x1 o]. cbn [fst] in I1.
  specialize (IH x1 I1). destruct (sim_run fixed x1 i) as [x2 os]. exact IH.
Qed.

(** The invariant holds in every reachable state: any number of connects, accepts, issuances,
    retirements in any order, drains, slot reuse, for every CID length. *)
Theorem reachable_inv i s : state_after i = Some s -> Inv s.
Proof.
  unfold state_after. intros H. pose proof (sim_run_inv i NoEp I) as R.
  destruct (fst (sim_run fixed NoEp i)); inversion H; subst. exact R.
Qed.

(** [index_sound]: an entry of [connection_ids] names a live connection -- the current occupant
    (incarnation) of the slot -- that holds the CID in its [loc_cids], i.e. issued and not retired. *)
Theorem index_sound i s c ch :
  state_after i = Some s -> lookup c (s_ids s) = Some ch ->
  exists m seq, live s ch m /\ lookup seq (m_loc m) = Some c /\ m_inc m < s_epoch s.
Proof.
  intros R H. apply reachable_inv in R. destruct (I_ids _ R _ _ H) as [m [L [k Hk]]].
  exists m, k. repeat split; auto. eapply I_inc; eauto.
Qed.

(** [index_complete]: every issued, unretired, non-empty CID of a live connection routes to it. *)
Theorem index_complete i s ch m seq c :
  state_after i = Some s -> live s ch m -> lookup seq (m_loc m) = Some c -> c <> [] ->
  lookup c (s_ids s) = Some ch.
Proof.
  intros R L H N. apply reachable_inv in R. destruct (I_ok _ R _ _ L) as [A _ _ _]. eauto.
Qed.

(** No two live connections, and no two sequence numbers of one connection, share a CID. *)
Theorem cids_disjoint i s ch1 m1 k1 ch2 m2 k2 c :
  state_after i = Some s -> live s ch1 m1 -> live s ch2 m2 ->
  lookup k1 (m_loc m1) = Some c -> lookup k2 (m_loc m2) = Some c -> c <> [] ->
  ch1 = ch2 /\ k1 = k2.
Proof.
  intros R L1 L2 H1 H2 N. apply reachable_inv in R.
  destruct (I_ok _ R _ _ L1) as [A1 B1 _ _]. destruct (I_ok _ R _ _ L2) as [A2 _ _ _].
  pose proof (A1 _ _ H1 N) as E1. pose proof (A2 _ _ H2 N) as E2. rewrite E1 in E2. keq. subst.
  split; [reflexivity|]. rewrite L1 in L2. keq. subst. eauto.
Qed.

(** A handle occurs in no routing map unless it is live. *)
Definition mentions (s : st) (ch : Z) : Prop :=
  (exists k, lookup k (s_ids s) = Some ch) \/ (exists k, lookup k (s_init s) = Some (RConn ch)) \/
  (exists k, lookup k (s_in s) = Some ch) \/ (exists k, lookup k (s_out s) = Some ch) \/
  (exists k, lookup k (s_tok s) = Some ch).

Lemma mentions_live s ch : Inv s -> mentions s ch -> exists m, live s ch m.
Proof.
  intros I [[k H]|[[k H]|[[k H]|[[k H]|[k H]]]]].
  - destruct (I_ids _ I _ _ H) as [m [L _]]. eauto.
  - destruct (I_init _ I _ _ H) as [m [L _]]. eauto.
  - destruct (I_in _ I _ _ H) as [m [L _]]. eauto.
  - destruct (I_out _ I _ _ H) as [m [L _]]. eauto.
  - destruct (I_tok _ I _ _ H) as [m [L _]]. eauto.
Qed.

Lemma drained_not_live s ch s' : Inv s -> do_drained fixed s ch = Some s' -> lookup [ch] (s_conns s') = None.
Proof.
  intros I. unfold do_drained, slab_remove.
  destruct (lookup [ch] (s_conns s)) as [m|] eqn:L; [|intros H; inversion H; subst; exact L].
  unfold index_remove.
  assert (E : forall sx sy, index_remove fixed sx ch m = Some sy -> s_conns sy = s_conns sx).
  { intros sx sy. unfold index_remove, remove_initial.
    destruct (m_server m); [destruct (is_nil (m_init m)); [|destruct (mem (m_init m) (s_init sx)); [|discriminate]]|];
      intros H; inversion H; subst; destruct (m_tok m); reflexivity. }
  intros H. apply E in H. rewrite H. st_simpl. rewrite lookup_remove, lz_eqb_refl. reflexivity.
Qed.

(** [no_stale_after_drain]: after [Drained(ch)] no map contains [ch], so the next occupant of the
    slot starts with no routes at all. *)
Theorem no_stale_after_drain i s ch s' o :
  state_after i = Some s -> step s [8; ch] = Some (s', o) -> ~ mentions s' ch.
Proof.
  intros R H. apply reachable_inv in R. pose proof (step_inv _ _ _ _ R H) as I'.
  unfold step, step_v in H. cbn [Z.eqb Pos.eqb] in H.
  destruct (0 <=? ch) eqn:Ech.
  - unfold op_drained in H. destruct (do_drained fixed s ch) as [s1|] eqn:D; [|discriminate].
    inversion H; subst. intros M. destruct (mentions_live _ _ I' M) as [m L].
    rewrite (drained_not_live _ _ _ R D) in L. discriminate.
  - inversion H; subst. intros M. destruct (mentions_live _ _ R M) as [m L].
    destruct (I_range _ R _ _ L) as [Rg _]. lia.
Qed.

(** A connection created in a (possibly reused) slot owns exactly the routes it was given:
    every route to the new handle was claimed by the new record. *)
Theorem new_handle_fresh i s : state_after i = Some s -> ~ mentions s (vacant_key s).
Proof.
  intros R M. apply reachable_inv in R. destruct (mentions_live _ _ R M) as [m L].
  rewrite (vacant_not_live _ R) in L. discriminate.
Qed.

(** [route_unique]: what [ConnectionIndex::get] can return.  A datagram is handed to [ch] only if
    [ch] is live and (1) it holds the non-empty destination CID, or (2) the packet is Initial/0-RTT
    and the DCID is the one that created [ch] (a server connection), or (3) the DCID is empty and
    [ch] claimed the packet's address tuple, or (4) the trailing bytes are the reset token that
    [ch] registered for the packet's remote. *)
Theorem route_unique i s kind r l t dcid ch :
  state_after i = Some s -> get s kind r l t dcid = Some (RConn ch) ->
  exists m, live s ch m /\
    ((dcid <> [] /\ exists seq, lookup seq (m_loc m) = Some dcid) \/
     ((kind = 1 \/ kind = 2) /\ m_server m = true /\ m_init m = dcid) \/
     (dcid = [] /\ m_server m = true /\ m_remote m = r /\ m_local m = l) \/
     (dcid = [] /\ m_server m = false /\ m_remote m = r) \/
     m_tok m = Some (r, t)).
Proof.
  intros R. apply reachable_inv in R. unfold get.
  destruct (if is_nil dcid then None else lookup dcid (s_ids s)) as [c0|] eqn:E1.
  { intros H. inversion H; subst. destruct dcid; [discriminate|]. cbn [is_nil] in E1.
    destruct (I_ids _ R _ _ E1) as [m [L [k Hk]]]. exists m. split; [exact L|]. left. split; [discriminate | eauto]. }
  destruct (if (kind =? 1) || (kind =? 2) then lookup dcid (s_init s) else None) as [rt|] eqn:E2.
  { intros H. inversion H; subst. destruct ((kind =? 1) || (kind =? 2)) eqn:K; [|discriminate].
    destruct (I_init _ R _ _ E2) as [m [L [Sv Ei]]]. exists m. split; [exact L|]. right. left.
    repeat split; auto. lia. }
  destruct (if is_nil dcid then match lookup [r; l] (s_in s) with Some c => Some c | None => lookup [r] (s_out s) end else None) as [c0|] eqn:E3.
  { intros H. inversion H; subst. destruct dcid; [|discriminate]. cbn [is_nil] in E3.
    destruct (lookup [r; l] (s_in s)) as [c1|] eqn:E4.
    - inversion E3; subst. destruct (I_in _ R _ _ E4) as [m [L [Sv Ek]]]. inversion Ek; subst.
      exists m. split; [exact L|]. right. right. left. auto.
    - destruct (I_out _ R _ _ E3) as [m [L [Sv Ek]]]. inversion Ek; subst.
      exists m. split; [exact L|]. right. right. right. left. auto. }
  destruct (lookup [r; t] (s_tok s)) as [c0|] eqn:E5; [|discriminate].
  intros H. inversion H; subst. destruct (I_tok _ R _ _ E5) as [m [L [r0 [t0 [Ht Ek]]]]]. inversion Ek; subst.
  exists m. split; [exact L|]. right. right. right. right. exact Ht.
Qed.

(** Short-header packets with a non-empty CID known to the index go to its one owner, whatever
    the address and trailing bytes. *)
Theorem route_owner i s ch m seq c r l t :
  state_after i = Some s -> live s ch m -> lookup seq (m_loc m) = Some c -> c <> [] ->
  get s 0 r l t c = Some (RConn ch).
Proof.
  intros R L H N. unfold get. destruct c as [|b c]; [congruence|]. cbn [is_nil].
  rewrite (index_complete i s ch m seq (b :: c) R L H N). reflexivity.
Qed.

(** Fresh incarnation numbers: the occupant of a reused slot is a different incarnation. *)
Theorem incarnation_fresh i s ch m :
  state_after i = Some s -> live s ch m -> m_inc m < s_epoch s.
Proof. intros R L. apply reachable_inv in R. eapply I_inc; eauto. Qed.

(** * The defects of the code as it was (variant [original]), by computation *)

(** F10: two zero-length-CID client connections to one remote; draining the first one un-routes
    the second (which owns the tuple). *)
Definition f10_history : ops :=
  [[0; 0; 0]; [1; 5; 0; 0]; [1; 5; 0; 0]; [2; 0; 5; 0; 0; 0; 0]; [8; 0]; [2; 0; 5; 0; 0; 0; 0]].

Lemma f10_refuted :
  run_v original f10_history = [[0]; [0; 0]; [0; 1]; [1; 1]; [0; 1]; [0; 0]] /\
  oracle f10_history (run_v original f10_history) = false.
Proof. vm_compute. split; reflexivity. Qed.

Lemma f10_fixed :
  run f10_history = [[0]; [0; 0]; [0; 1]; [1; 1]; [0; 1]; [1; 1]] /\
  oracle f10_history (run f10_history) = true.
Proof. vm_compute. split; reflexivity. Qed.

(** The same unconditional removal, for reset tokens: the peer hands one token to two connections. *)
Definition tok_history : ops :=
  [[0; 4; 0]; [1; 5; 0; 1; 1; 1; 1; 1]; [1; 5; 0; 1; 2; 2; 2; 2]; [7; 0; 5; 9]; [7; 1; 5; 9];
   [8; 0]; [2; 0; 5; 0; 9; 0; 4; 7; 7; 7; 7]].

Lemma tok_refuted :
  oracle tok_history (run_v original tok_history) = false /\
  oracle tok_history (run tok_history) = true.
Proof. vm_compute. split; reflexivity. Qed.

(** connect() leaking a CID when the crypto session cannot be started: the index then routes
    the CID to a handle that is not live ([index_sound] fails), and to whoever takes the slot next. *)
Definition leak_history : ops :=
  [[0; 4; 0]; [1; 5; 1; 1; 1; 2; 3; 4]; [2; 0; 5; 0; 0; 0; 4; 1; 2; 3; 4];
   [1; 6; 0; 1; 9; 9; 9; 9]; [2; 0; 5; 0; 0; 0; 4; 1; 2; 3; 4]].

Lemma leak_refuted :
  run_v original leak_history = [[0]; [1; 4]; [1; 0]; [0; 0]; [1; 0]] /\
  oracle leak_history (run_v original leak_history) = false.
Proof. vm_compute. split; reflexivity. Qed.

Lemma leak_fixed :
  run leak_history = [[0]; [1; 4]; [3; 0]; [0; 0]; [3; 0]] /\
  oracle leak_history (run leak_history) = true.
Proof. vm_compute. split; reflexivity. Qed.

(** Non-vacuity: a reachable state with three live connections of both roles, a retired CID,
    a reused slot and a registered token. *)
Definition example_history : ops :=
  [[0; 4; 1];
   [1; 5; 0; 1; 1; 1; 1; 1];
   [2; 1; 6; 1; 0; 0; 8; 8; 8; 8; 8; 8; 8; 8; 8];
   [3; 0; 0; 2; 2; 2; 2; 2; 3; 3; 3; 3];
   [5; 0; 2; 3; 1; 1; 1; 1; 4; 4; 4; 4; 5; 5; 5; 5];
   [6; 0; 1; 0; 0];
   [8; 1];
   [1; 7; 0; 1; 4; 4; 4; 4];
   [7; 1; 7; 3];
   [2; 0; 9; 0; 0; 0; 4; 5; 5; 5; 5];
   [2; 0; 9; 0; 0; 0; 4; 4; 4; 4; 4];
   [2; 0; 9; 0; 0; 0; 4; 2; 2; 2; 2];
   [2; 0; 7; 0; 3; 0; 4; 6; 6; 6; 6]].

Lemma example_run :
  run example_history =
  [[0]; [0; 0]; [2; 0]; [0; 1]; [0; 2; 1; 4; 4; 4; 4; 2; 5; 5; 5; 5]; [0]; [0; 1]; [0; 1]; [0];
   [1; 0]; [1; 1]; [3; 0]; [1; 1]] /\
  oracle example_history (run example_history) = true /\
  (exists s, state_after example_history = Some s /\ size (s_conns s) = 2 /\ size (s_ids s) = 3).
Proof. vm_compute. repeat split; try reflexivity. eexists. repeat split; reflexivity. Qed.

(** Regression (seed sweep): with zero-length CIDs an Incoming from a tuple that a live server
    connection owns takes the tuple over when accepted; if its first packet is then rejected the
    short-lived connection is drained and the tuple is unowned -- the older connection does not get
    it back ("last claimant keeps the tuple").  The ledger records the short-lived claimant. *)
Definition takeover_history : ops :=
  [[0; 0; 0]; [2; 1; 4; 0; 0; 0; 8; 1; 1; 1; 1; 1; 1; 1; 1]; [3; 0; 0; 0];
   [2; 0; 4; 0; 0; 0; 0];
   [2; 1; 4; 0; 0; 1; 8; 2; 2; 2; 2; 2; 2; 2; 2]; [3; 1; 0; 0];
   [2; 0; 4; 0; 0; 0; 0]].

Lemma takeover_run :
  run takeover_history = [[0]; [2; 0]; [0; 0]; [1; 0]; [2; 1]; [1; 3]; [0; 0]] /\
  oracle takeover_history (run takeover_history) = true.
Proof. vm_compute. split; reflexivity. Qed.
