(** Association-list lemmas for Model/Routing.v. *)
From QV Require Import Lib.Tac Lib.Corr Model.Routing.
Open Scope Z_scope.

Lemma lz_eqb_refl k : lz_eqb k k = true.
Proof. apply lz_eqb_eq. reflexivity. Qed.

Lemma lz_eqb_neq a b : lz_eqb a b = false <-> a <> b.
Proof.
  split.
  - intros H E. apply lz_eqb_eq in E. congruence.
  - intros H. destruct (lz_eqb a b) eqn:E; [apply lz_eqb_eq in E; contradiction | reflexivity].
Qed.

Lemma lz_eqb_sym a b : lz_eqb a b = lz_eqb b a.
Proof.
  destruct (lz_eqb a b) eqn:E; symmetry.
  - apply lz_eqb_eq in E. subst. apply lz_eqb_refl.
  - apply lz_eqb_neq in E. apply lz_eqb_neq. congruence.
Qed.

Lemma key_dec (a b : key) : a = b \/ a <> b.
Proof. destruct (lz_eqb a b) eqn:E; [left; now apply lz_eqb_eq | right; now apply lz_eqb_neq]. Qed.

Section Maps.
  Context {V : Type}.
  Implicit Types (m : amap V) (k : key) (v : V).

  Lemma lookup_remove k k' m :
    lookup k (remove k' m) = if lz_eqb k k' then None else lookup k m.
  Proof.
    induction m as [|[k0 v0] m IH]; cbn [lookup remove].
    - destruct (lz_eqb k k'); reflexivity.
    - destruct (lz_eqb k' k0) eqn:E0.
      + apply lz_eqb_eq in E0. subst k0. rewrite IH.
        destruct (lz_eqb k k'); reflexivity.
      + cbn [lookup]. rewrite IH. destruct (lz_eqb k k0) eqn:E1; [|reflexivity].
        apply lz_eqb_eq in E1. subst k0. rewrite lz_eqb_sym, E0. reflexivity.
  Qed.

  Lemma lookup_insert k k' v m :
    lookup k (insert k' v m) = if lz_eqb k k' then Some v else lookup k m.
  Proof.
    unfold insert. cbn [lookup]. rewrite lookup_remove.
    destruct (lz_eqb k k'); reflexivity.
  Qed.

  Lemma lookup_In k v m : lookup k m = Some v -> In (k, v) m.
  Proof.
    induction m as [|[k0 v0] m IH]; cbn [lookup]; [discriminate|].
    destruct (lz_eqb k k0) eqn:E; intros H.
    - apply lz_eqb_eq in E. inversion H. subst. left. reflexivity.
    - right. auto.
  Qed.

  Lemma In_remove k v k' m : In (k, v) (remove k' m) <-> In (k, v) m /\ k <> k'.
  Proof.
    induction m as [|[k0 v0] m IH]; cbn [remove].
    - simpl. tauto.
    - destruct (lz_eqb k' k0) eqn:E.
      + apply lz_eqb_eq in E. subst k0. rewrite IH. simpl. split.
        * tauto.
        * intros [[H|H] N]; [inversion H; congruence | tauto].
      + apply lz_eqb_neq in E. simpl. rewrite IH. split.
        * intros [H|H]; [inversion H; subst; split; [tauto | congruence] | tauto].
        * tauto.
  Qed.

  Definition nodupk m := NoDup (map fst m).

  Lemma keys_remove k k' m : In k (map fst (remove k' m)) -> In k (map fst m) /\ k <> k'.
  Proof.
    rewrite !in_map_iff. intros [[k0 v0] [E H]]. simpl in E. subst k0.
    apply In_remove in H. destruct H as [H N]. split; [|exact N].
    exists (k, v0). auto.
  Qed.

  Lemma nodupk_remove k m : nodupk m -> nodupk (remove k m).
  Proof.
    unfold nodupk. induction m as [|[k0 v0] m IH]; cbn [remove map fst]; intros H; [constructor|].
    inversion H as [|? ? Hn Hd]; subst.
    destruct (lz_eqb k k0); [auto|]. cbn [map fst]. constructor; [|auto].
    intros Hin. apply keys_remove in Hin. tauto.
  Qed.

  Lemma nodupk_insert k v m : nodupk m -> nodupk (insert k v m).
  Proof.
    intros H. unfold insert, nodupk. cbn [map fst]. constructor.
    - intros Hin. apply keys_remove in Hin. tauto.
    - apply nodupk_remove. exact H.
  Qed.

  Lemma In_lookup k v m : nodupk m -> In (k, v) m -> lookup k m = Some v.
  Proof.
    unfold nodupk. induction m as [|[k0 v0] m IH]; cbn [map fst lookup]; intros Hd Hin; [contradiction|].
    inversion Hd as [|? ? Hn Hd']; subst. destruct Hin as [H|H].
    - inversion H; subst. rewrite lz_eqb_refl. reflexivity.
    - destruct (lz_eqb k k0) eqn:E; [|auto].
      apply lz_eqb_eq in E. subst k0. exfalso. apply Hn. apply in_map_iff. exists (k, v). auto.
  Qed.

  Lemma lookup_none_notin k m : lookup k m = None -> ~ In k (map fst m).
  Proof.
    induction m as [|[k0 v0] m IH]; cbn [lookup map fst]; intros H; [tauto|].
    destruct (lz_eqb k k0) eqn:E; [discriminate|]. apply lz_eqb_neq in E.
    intros [Hk|Hk]; [congruence | now apply IH].
  Qed.

  Lemma size_remove_le k m : (length (remove k m) <= length m)%nat.
  Proof.
    induction m as [|[k0 v0] m IH]; cbn [remove length]; [lia|].
    destruct (lz_eqb k k0); cbn [length]; lia.
  Qed.
End Maps.

Lemma mem_true {V} k (m : amap V) : mem k m = true <-> exists v, lookup k m = Some v.
Proof. unfold mem. destruct (lookup k m); split; intros H; eauto; try discriminate. destruct H; discriminate. Qed.

Lemma mem_false {V} k (m : amap V) : mem k m = false <-> lookup k m = None.
Proof. unfold mem. destruct (lookup k m); split; intros H; auto; discriminate. Qed.

Lemma lookup_remove_if k k' ch (m : amap Z) :
  lookup k (remove_if k' ch m) =
  if lz_eqb k k' then (match lookup k' m with
                       | Some c => if c =? ch then None else Some c
                       | None => None
                       end)
  else lookup k m.
Proof.
  unfold remove_if. destruct (lookup k' m) as [c|] eqn:L.
  - destruct (c =? ch) eqn:E.
    + rewrite lookup_remove. reflexivity.
    + destruct (lz_eqb k k') eqn:E2; [|reflexivity]. apply lz_eqb_eq in E2. subst. exact L.
  - destruct (lz_eqb k k') eqn:E2; [|reflexivity]. apply lz_eqb_eq in E2. subst. exact L.
Qed.

Lemma lookup_remove_all c ks (m : amap Z) :
  lookup c (remove_all ks m) = if existsb (lz_eqb c) ks then None else lookup c m.
Proof.
  revert m. induction ks as [|k ks IH]; intros m; cbn [remove_all existsb]; [reflexivity|].
  rewrite IH, lookup_remove. destruct (lz_eqb c k); cbn [orb]; [|reflexivity].
  destruct (existsb (lz_eqb c) ks); reflexivity.
Qed.

Lemma existsb_lz c ks : existsb (lz_eqb c) ks = true <-> In c ks.
Proof.
  rewrite existsb_exists. split.
  - intros [x [H E]]. apply lz_eqb_eq in E. subst. exact H.
  - intros H. exists c. split; [exact H | apply lz_eqb_refl].
Qed.

Lemma single_eq (a b : Z) : [a] = [b] <-> a = b.
Proof. split; intros H; [inversion H | subst]; reflexivity. Qed.

Lemma lz_single a b : lz_eqb [a] [b] = (a =? b).
Proof.
  destruct (a =? b) eqn:E.
  - apply lz_eqb_eq. f_equal. lia.
  - apply lz_eqb_neq. intros H. inversion H. lia.
Qed.
