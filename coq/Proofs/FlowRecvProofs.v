(** Proofs about Model/FlowRecv.v (C06). *)
From QV Require Import Lib.Tac Lib.Corr Model.FlowRecv.
Open Scope Z_scope.

Ltac prj := cbn [side recvm sendm free_recv nxt maxl max_remote sent_max_remote alloc max_conc
  next_remote opened next_rep send_streams events pendq local_max rwin sent_max_data data_recvd swin
  debt p_max_data p_msid p_msd p_stop p_reset seen slog panic g_closed g_credits g_expand g_fin g_reset
  set_side set_recvm set_sendm set_free_recv set_nxt set_maxl set_max_remote set_sent_max_remote
  set_alloc set_max_conc set_next_remote set_opened set_next_rep set_send_streams set_events
  set_pendq set_local_max set_rwin set_sent_max_data set_data_recvd set_swin set_debt
  set_p_max_data set_p_msid set_p_msd set_p_stop set_p_reset set_seen set_slog set_panic
  set_g_closed set_g_credits set_g_expand set_g_fin set_g_reset set_panic_if] in *.

(** * Part A: over-limit frames are rejected and change nothing *)

(** The state after a rejected frame: the slot is replaced by its own view (None / Free slots
    become an open fresh [Recv]); nothing else changes. *)
Definition quiesce (id : Z) (s : st) : st :=
  match alookup id (recvm s) with
  | Some slot => set_recvm (aset id (SOpen (rview s slot)) (recvm s)) s
  | None => s
  end.

Lemma stream_limit_rejected fx id off len fin s :
  sid_init id <> side s -> pget (sid_dir id) (max_remote s) <= sid_index id ->
  received fx id off len fin s = (s, Err STREAM_LIMIT_ERROR).
Proof.
  intros Hi Hm. unfold received, validate_receive_id.
  destruct (sid_init id =? side s) eqn:E; [apply Z.eqb_eq in E; contradiction|].
  destruct (pget (sid_dir id) (max_remote s) <=? sid_index id) eqn:E2; [reflexivity|lia].
Qed.

Lemma reset_limit_rejected fx id code final s :
  sid_init id <> side s -> pget (sid_dir id) (max_remote s) <= sid_index id ->
  received_reset fx id code final s = (s, Err STREAM_LIMIT_ERROR).
Proof.
  intros Hi Hm. unfold received_reset, validate_receive_id.
  destruct (sid_init id =? side s) eqn:E; [apply Z.eqb_eq in E; contradiction|].
  destruct (pget (sid_dir id) (max_remote s) <=? sid_index id) eqn:E2; [reflexivity|lia].
Qed.

(** The verdict of [ingest], as a table. *)
Lemma ingest_verdict r off len fin received max_data :
  let e := off + len in
  (2 ^ 62 <= e -> ingest true r off len fin received max_data = Err FLOW_CONTROL_ERROR) /\
  (e < 2 ^ 62 -> forall f, final_offset r = Some f -> (f < e \/ (fin = true /\ e <> f)) ->
     ingest true r off len fin received max_data = Err FINAL_SIZE_ERROR) /\
  (e < 2 ^ 62 -> final_offset r = None -> fin = true -> e < r_end r ->
     ingest true r off len fin received max_data = Err FINAL_SIZE_ERROR) /\
  (e < 2 ^ 62 ->
     (forall f, final_offset r = Some f -> e <= f /\ (fin = true -> e = f)) ->
     (final_offset r = None -> fin = true -> r_end r <= e) ->
     (r_sent_msd r < e \/ max_data < received + Z.max 0 (e - r_end r)) ->
     ingest true r off len fin received max_data = Err FLOW_CONTROL_ERROR).
Proof.
  intro e. subst e. unfold ingest. repeat split.
  - intro H. destruct (2 ^ 62 <=? off + len) eqn:E; [reflexivity|lia].
  - intros H f Hf Hv. destruct (2 ^ 62 <=? off + len) eqn:E; [lia|]. rewrite Hf.
    destruct ((f <? off + len) || (fin && negb (off + len =? f))) eqn:E2; [reflexivity|].
    exfalso. apply orb_false_iff in E2 as [E3 E4].
    destruct Hv as [Hv|[Hv1 Hv2]]; [lia|]. subst fin. cbn in E4.
    apply negb_false_iff in E4. lia.
  - intros H Hf Hfin Hlt. destruct (2 ^ 62 <=? off + len) eqn:E; [lia|]. rewrite Hf. subst fin.
    destruct (off + len <? r_end r) eqn:E2; [reflexivity|lia].
  - intros H Hk Hu Hfc. destruct (2 ^ 62 <=? off + len) eqn:E; [lia|].
    destruct (final_offset r) as [f|] eqn:Hf.
    + destruct (Hk f eq_refl) as [Hk1 Hk2].
      destruct ((f <? off + len) || (fin && negb (off + len =? f))) eqn:E2.
      * exfalso. apply orb_true_iff in E2 as [E2|E2]; [lia|].
        apply andb_true_iff in E2 as [E3 E4]. apply negb_true_iff in E4.
        specialize (Hk2 E3). lia.
      * unfold credit_consumed_by.
        destruct ((r_sent_msd r <? off + len)
                  || (max_data <? received + Z.max 0 (off + len - r_end r))) eqn:E3; [reflexivity|].
        apply orb_false_iff in E3 as [E4 E5]. lia.
    + destruct (true && fin && (off + len <? r_end r)) eqn:E2.
      * exfalso. cbn in E2. apply andb_true_iff in E2 as [E3 E4]. specialize (Hu eq_refl E3). lia.
      * unfold credit_consumed_by.
        destruct ((r_sent_msd r <? off + len)
                  || (max_data <? received + Z.max 0 (off + len - r_end r))) eqn:E3; [reflexivity|].
        apply orb_false_iff in E3 as [E4 E5]. lia.
Qed.

(** With [received] the state is returned unchanged ([s]) for an invalid id and quiesced for a
    frame rejected by [ingest]. *)
Lemma received_error_cases id off len fin s s' c :
  received true id off len fin s = (s', Err c) ->
  (validate_receive_id id s = Some c /\ s' = s) \/
  (validate_receive_id id s = None /\ s' = quiesce id s /\
   exists slot, alookup id (recvm s) = Some slot /\ is_receiving (rview s slot) = true /\
     ingest true (rview s slot) off len fin (data_recvd s) (local_max s) = Err c).
Proof.
  unfold received, quiesce. intro H.
  destruct (validate_receive_id id s) as [c'|] eqn:V.
  - inversion H; subst. left. split; reflexivity.
  - right. split; [reflexivity|].
    destruct (alookup id (recvm s)) as [slot|] eqn:L; [|discriminate].
    destruct (negb (is_receiving (rview s slot))) eqn:R; [discriminate|].
    apply negb_false_iff in R.
    destruct (ingest true (rview s slot) off len fin (data_recvd s) (local_max s))
      as [c2|[[r' nb] closed]] eqn:I.
    + inversion H; subst. split; [reflexivity|]. exists slot. repeat split; assumption.
    + exfalso. destruct (negb (r_stopped r')); [discriminate|].
      destruct (add_read_credits nb _) as [s4 t]. discriminate.
Qed.

(** The frame of a live receiving stream that violates a limit is rejected with the tabled code
    and the state is quiescent. *)
Lemma received_over_limit id off len fin s slot :
  validate_receive_id id s = None ->
  alookup id (recvm s) = Some slot -> is_receiving (rview s slot) = true ->
  forall c, ingest true (rview s slot) off len fin (data_recvd s) (local_max s) = Err c ->
  received true id off len fin s = (quiesce id s, Err c).
Proof.
  intros V L R c I. unfold received, quiesce. rewrite V, L, R. cbn [negb]. rewrite I. reflexivity.
Qed.

(** [recv_reset] verdict table. *)
Lemma reset_verdict r code final received max_data :
  (forall f, final_offset r = Some f -> f <> final ->
     recv_reset r code final received max_data = Err FINAL_SIZE_ERROR) /\
  (final_offset r = None -> final < r_end r ->
     recv_reset r code final received max_data = Err FINAL_SIZE_ERROR) /\
  ((forall f, final_offset r = Some f -> f = final) -> (final_offset r = None -> r_end r <= final) ->
   (r_sent_msd r < final \/ max_data < received + Z.max 0 (final - r_end r)) ->
     recv_reset r code final received max_data = Err FLOW_CONTROL_ERROR).
Proof.
  unfold recv_reset. repeat split.
  - intros f Hf Hne. rewrite Hf. destruct (f =? final) eqn:E; [lia|reflexivity].
  - intros Hf Hlt. rewrite Hf. destruct (final <? r_end r) eqn:E; [reflexivity|lia].
  - intros Hk Hu Hfc. destruct (final_offset r) as [f|] eqn:Hf.
    + rewrite (Hk f eq_refl), Z.eqb_refl. cbn [negb]. unfold credit_consumed_by.
      destruct ((r_sent_msd r <? final) || (max_data <? received + Z.max 0 (final - r_end r))) eqn:E;
        [reflexivity|]. apply orb_false_iff in E as [E1 E2]. lia.
    + specialize (Hu eq_refl). destruct (final <? r_end r) eqn:E; [lia|]. unfold credit_consumed_by.
      destruct ((r_sent_msd r <? final) || (max_data <? received + Z.max 0 (final - r_end r))) eqn:E2;
        [reflexivity|]. apply orb_false_iff in E2 as [E3 E4]. lia.
Qed.

Lemma received_reset_error_cases id code final s s' c :
  received_reset true id code final s = (s', Err c) ->
  (validate_receive_id id s = Some c /\ s' = s) \/
  (validate_receive_id id s = None /\ s' = quiesce id s /\
   exists slot, alookup id (recvm s) = Some slot /\
     recv_reset (rview s slot) code final (data_recvd s) (local_max s) = Err c).
Proof.
  unfold received_reset, quiesce. intro H.
  destruct (validate_receive_id id s) as [c'|] eqn:V.
  - inversion H; subst. left. split; reflexivity.
  - right. split; [reflexivity|].
    destruct (alookup id (recvm s)) as [slot|] eqn:L; [|discriminate].
    destruct (recv_reset (rview s slot) code final (data_recvd s) (local_max s))
      as [c2|[r' [|]]] eqn:I.
    + inversion H; subst. split; [reflexivity|]. exists slot. split; try reflexivity; try assumption.
    + exfalso.
      destruct (negb ((if true && r_stopped r' then r_end r' else bytes_read r') =? final)).
      * destruct (add_read_credits _ _) as [s6 t]. discriminate.
      * discriminate.
    + discriminate.
Qed.

Lemma received_reset_over_limit id code final s slot :
  validate_receive_id id s = None -> alookup id (recvm s) = Some slot ->
  forall c, recv_reset (rview s slot) code final (data_recvd s) (local_max s) = Err c ->
  received_reset true id code final s = (quiesce id s, Err c).
Proof.
  intros V L c I. unfold received_reset, quiesce. rewrite V, L, I. reflexivity.
Qed.
