(** Proofs about Model/PktAccept.v. *)
From QV Require Import Lib.Tac Lib.Corr Model.PacketNumber Model.PktAccept.
Open Scope Z_scope.

(** A packet is reported decrypted only under a key that is legitimate for its header
    (kinds: 0 Initial, 1 Handshake, 2 0-RTT, 3 1-RTT, 4 Retry/Version Negotiation). *)
Theorem decrypt_only_under_legitimate_key :
  forall kind kp pn rx ckp prev np zp sealed rok n a u,
  0 <= kind <= 4 ->
  decrypt kind kp pn rx ckp prev np zp sealed rok = Some (Decrypted n a u) ->
  n = expand 4 pn (rx + 1) /\ kind <> 4 /\
  ((kind = 2 /\ sealed = 30 /\ zp = true /\ u = false) \/
   (kind <> 2 /\ sealed = 10 + space_of kind /\ u = false /\ (kind = 3 -> kp = ckp)) \/
   (kind = 3 /\ kp <> ckp /\ sealed = 20 /\ u = false /\
    exists p, prev = Some p /\ match end_packet p with None => True | Some e => n < e end) \/
   (kind = 3 /\ kp <> ckp /\ sealed = 21 /\ u = true /\ np = true /\ rx < n /\
    match prev with Some p => update_unacked p = false | None => True end)).
Proof.
  intros kind kp pn rx ckp prev np zp sealed rok n a u Hk. unfold decrypt.
  destruct (kind =? 4) eqn:K4; [discriminate|].
  set (num := expand 4 pn (rx + 1)).
  destruct (select_key kind ((kind =? 3) && kp) ckp num prev np zp) as [[key upd]|] eqn:S; [|discriminate].
  destruct (sealed =? key) eqn:SK; cbn [negb]; [|discriminate]. apply Z.eqb_eq in SK. subst key.
  destruct rok; cbn [negb]; [|discriminate].
  destruct (upd && ((num <=? rx) || match prev with Some p => update_unacked p | None => false end)) eqn:U;
    [discriminate|].
  intros H; injection H as <- _ <-. split; [reflexivity|]. split; [lia|].
  revert S. unfold select_key.
  destruct (kind =? 2) eqn:K2.
  { destruct zp; [|discriminate]. intros S; injection S as <- <-. left. repeat split; lia. }
  destruct (Bool.eqb ((kind =? 3) && kp) ckp || negb (space_of kind =? 2)) eqn:B.
  { intros S; injection S as <- <-. right; left. repeat split; try lia.
    intros K3. apply orb_true_iff in B. destruct B as [B|B].
    - apply Bool.eqb_prop in B. rewrite <- B. subst kind. reflexivity.
    - subst kind. discriminate. }
  apply orb_false_iff in B as [B1 B2].
  assert (K3 : kind = 3).
  { unfold space_of in B2. destruct (kind =? 0) eqn:A0; [discriminate|]. destruct (kind =? 1) eqn:A1; [discriminate|]. lia. }
  subst kind. cbn [Z.eqb andb] in B1. change (3 =? 3) with true in B1. cbn [andb] in B1.
  assert (Hne : kp <> ckp) by (intros ->; rewrite Bool.eqb_reflx in B1; discriminate).
  destruct prev as [p|].
  - destruct (match end_packet p with None => true | Some pn0 => num <? pn0 end) eqn:E.
    + intros S; injection S as <- <-. right; right; left. repeat split; try assumption; try reflexivity.
      exists p. split; [reflexivity|]. destruct (end_packet p); [lia|exact I].
    + destruct np; [|discriminate]. intros S; injection S as <- <-. cbn [andb] in U.
      apply orb_false_iff in U as [U1 U2]. right; right; right. repeat split; try assumption; try reflexivity. lia.
  - destruct np; [|discriminate]. intros S; injection S as <- <-. cbn [andb] in U.
    apply orb_false_iff in U as [U1 U2]. right; right; right. repeat split; try assumption; try reflexivity. lia.
Qed.

(** Nothing but an exactly matching 16-byte tail on a datagram of at least 21 bytes is a
    stateless reset. *)
Theorem reset_only_on_exact_token : forall token pkt,
  reset_detect token pkt = true <->
  exists t, token = Some t /\ RESET_TOKEN_SIZE + 5 <= Z.of_nat (length pkt) /\ lastn 16 pkt = t.
Proof.
  intros token pkt. unfold reset_detect. rewrite andb_true_iff, Z.leb_le. split.
  - intros [L H]. destruct token as [t|]; [|discriminate]. exists t. apply lz_eqb_eq in H. auto.
  - intros (t & -> & L & E). split; [exact L|]. apply lz_eqb_eq. symmetry. exact E.
Qed.

Theorem unprotect_reset_flag : forall token cid_len pkt p r,
  unprotect token cid_len pkt = Some (Some (p, r)) -> r = reset_detect token pkt.
Proof.
  intros token cid_len pkt p r. unfold unprotect. destruct pkt as [|b0 rest]; [discriminate|].
  destruct ((b0 / 64) mod 2 =? 0); [discriminate|]. destruct (128 <=? b0); [discriminate|].
  destruct (Z.of_nat (length rest) <? cid_len); [discriminate|].
  destruct (1 + cid_len + 4 + 16 <=? Z.of_nat (length (b0 :: rest))).
  - intros H; injection H as _ <-. reflexivity.
  - destruct (reset_detect token (b0 :: rest)); [|discriminate]. intros H; injection H as _ <-. reflexivity.
Qed.

Theorem unprotect_dropped_is_not_reset : forall token cid_len pkt,
  unprotect token cid_len pkt = Some None -> reset_detect token pkt = false.
Proof.
  intros token cid_len pkt. unfold unprotect. destruct pkt as [|b0 rest]; [discriminate|].
  destruct ((b0 / 64) mod 2 =? 0); [discriminate|]. destruct (128 <=? b0); [discriminate|].
  destruct (Z.of_nat (length rest) <? cid_len); [discriminate|].
  destruct (1 + cid_len + 4 + 16 <=? Z.of_nat (length (b0 :: rest))); [discriminate|].
  destruct (reset_detect token (b0 :: rest)); [discriminate|reflexivity].
Qed.

Example pkt_accept_example :
  decrypt 3 true 7 5 false (Some (mkPrev (Some 6) false)) true false 21 true = Some (Decrypted 7 false true) /\
  decrypt 3 true 5 5 false (Some (mkPrev (Some 6) false)) true false 20 true = Some (Decrypted 5 false false) /\
  decrypt 3 true 5 5 false None true false 21 true = Some (Illegal KEY_UPDATE_ERROR) /\
  decrypt 3 true 7 5 false None true false 12 true = Some AuthFailed /\
  reset_detect (Some [1;2;3;4;5;6;7;8;9;10;11;12;13;14;15;16])
               [64;0;0;0;0;1;2;3;4;5;6;7;8;9;10;11;12;13;14;15;16] = true /\
  reset_detect (Some [1;2;3;4;5;6;7;8;9;10;11;12;13;14;15;16])
               [64;0;0;0;1;2;3;4;5;6;7;8;9;10;11;12;13;14;15;16] = false.
Proof. vm_compute. repeat split; reflexivity. Qed.
