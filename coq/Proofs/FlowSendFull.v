(** C05, second part: buffer / in-flight accounting ([HInv]), [send_streams] accounting ([SInv]),
    [unacked_data = sum of the per-stream unacknowledged bytes], and absence of panics for every
    admissible operation of [FlowSend.apply]. *)
From QV Require Import Lib.Tac Lib.Corr Model.FlowSend Proofs.FlowSendAcc Proofs.FlowRangeSet
  Proofs.FlowSendProofs.
Open Scope Z_scope.

(* ------------------------------------------------------------------------------------------ *)
(** * The sent-frame log *)

Definition live (L : list (option Frame)) (k : nat) (f : Frame) : Prop :=
  nth_error L k = Some (Some f).

Definition fcontrib (id : Z) (e : option Frame) : Z :=
  match e with
  | Some (i, a, b, _) => if i =? id then b - a else 0
  | None => 0
  end.

Fixpoint flen (id : Z) (L : list (option Frame)) : Z :=
  match L with [] => 0 | e :: t => fcontrib id e + flen id t end.

Lemma log_get_spec : forall k L f L',
  log_get k L = Some (f, L') ->
  live L k f
  /\ (forall j f', live L' j f' <-> live L j f' /\ j <> k)
  /\ (forall id, flen id L' = flen id L - fcontrib id (Some f)).
Proof.
  induction k as [|k IH]; intros L f L' G; destruct L as [|e t]; cbn [log_get] in G; try discriminate.
  - destruct e as [f0|]; [|discriminate]. injection G as <- <-.
    split; [reflexivity|]. split.
    + intros j f'. unfold live. destruct j as [|j]; cbn [nth_error].
      * split; [discriminate|]. intros [_ H]. congruence.
      * split; [intros H; split; [exact H|discriminate]|intros [H _]; exact H].
    + intros id. cbn [flen fcontrib]. lia.
  - destruct (log_get k t) as [[f1 t1]|] eqn:G1; [|destruct e; discriminate].
    assert (E : (f, L') = (f1, e :: t1)) by (destruct e; injection G as <- <-; reflexivity).
    injection E as -> ->.
    destruct (IH _ _ _ G1) as (A & B & C). split; [exact A|]. split.
    + intros j f'. unfold live in *. destruct j as [|j]; cbn [nth_error].
      * split; [intros H; split; [exact H|discriminate]|intros [H _]; exact H].
      * rewrite (B j f'). split; intros [H1 H2]; split; auto.
    + intros id. cbn [flen]. rewrite C. lia.
Qed.

Lemma log_get_none_dead k L : log_get k L = None -> forall f, ~ live L k f.
Proof.
  revert L. induction k as [|k IH]; intros L G f Hl; destruct L as [|e t]; unfold live in Hl; cbn in *;
    try discriminate.
  - destruct e; [discriminate|]. discriminate.
  - destruct (log_get k t) as [[f1 t1]|] eqn:G1; [destruct e; discriminate|].
    eapply IH; eauto.
Qed.

Lemma live_snoc L f k f' :
  live (L ++ [Some f]) k f' <-> live L k f' \/ (k = length L /\ f' = f).
Proof.
  unfold live. destruct (Nat.lt_ge_cases k (length L)) as [H|H].
  - rewrite nth_error_app1 by exact H. split; [auto|]. intros [H1|[H1 _]]; [exact H1|lia].
  - rewrite nth_error_app2 by exact H. split.
    + intros H1. right. destruct (k - length L)%nat eqn:E; cbn in H1.
      * injection H1 as <-. split; [lia|reflexivity].
      * destruct n; discriminate.
    + intros [H1|[H1 ->]].
      * apply nth_error_None in H. congruence.
      * subst k. rewrite Nat.sub_diag. reflexivity.
Qed.

Lemma flen_snoc id L e : flen id (L ++ [e]) = flen id L + fcontrib id e.
Proof. induction L as [|a t IH]; cbn [app flen]; lia. Qed.

Lemma live_dead L k f : ~ live (map (fun _ : option Frame => None) L) k f.
Proof.
  unfold live. revert k. induction L as [|a t IH]; intros k; destruct k; cbn; try discriminate.
  apply IH.
Qed.

Lemma flen_dead id L : flen id (map (fun _ : option Frame => None) L) = 0.
Proof. induction L as [|a t IH]; cbn [map flen fcontrib]; lia. Qed.

Lemma flen_nonneg id L :
  (forall k a b fin, live L k (id, a, b, fin) -> a <= b) -> 0 <= flen id L.
Proof.
  induction L as [|e t IH]; intros H; cbn [flen]; [lia|].
  assert (0 <= flen id t).
  { apply IH. intros k a b fin Hl. apply (H (S k) a b fin). exact Hl. }
  destruct e as [[[[i a] b] fin]|]; cbn [fcontrib]; [|lia].
  destruct (i =? id) eqn:E; [|lia].
  assert (i = id) by lia. subst i. specialize (H O a b fin eq_refl). lia.
Qed.

Lemma flen_live_le id L k a b fin :
  (forall k a b fin, live L k (id, a, b, fin) -> a <= b) ->
  live L k (id, a, b, fin) -> b - a <= flen id L.
Proof.
  revert k. induction L as [|e t IH]; intros k H Hl; [destruct k; discriminate|].
  cbn [flen]. destruct k as [|k].
  - unfold live in Hl. cbn in Hl. injection Hl as ->. cbn [fcontrib]. rewrite Z.eqb_refl.
    assert (0 <= flen id t) by (apply flen_nonneg; intros k' a' b' f' Hl'; apply (H (S k') a' b' f'); exact Hl').
    lia.
  - assert (b - a <= flen id t).
    { apply (IH k); [|exact Hl]. intros k' a' b' f' Hl'. apply (H (S k') a' b' f'). exact Hl'. }
    destruct e as [[[[i a0] b0] fin0]|]; cbn [fcontrib]; [|lia].
    destruct (i =? id) eqn:E; [|lia].
    assert (i = id) by lia. subst i. specialize (H O a0 b0 fin0 eq_refl). lia.
Qed.

(* ------------------------------------------------------------------------------------------ *)
(** * Sums over the stream map *)

Fixpoint msum (f : option Send -> Z) (m : SMap) : Z :=
  match m with [] => 0 | (_, v) :: t => f v + msum f t end.

Lemma msum_update f id v m :
  msum f (update id v m) =
  match lookup id m with Some old => msum f m - f old + f v | None => msum f m end.
Proof.
  induction m as [|[a w] t IH]; cbn [update lookup msum]; [reflexivity|].
  destruct (a =? id) eqn:Ea; cbn [msum]; [lia|]. rewrite IH. destruct (lookup id t); lia.
Qed.

Lemma msum_remove f id m :
  msum f (remove id m) = match lookup id m with Some old => msum f m - f old | None => msum f m end.
Proof.
  induction m as [|[a w] t IH]; cbn [remove lookup msum]; [reflexivity|].
  destruct (a =? id) eqn:Ea; cbn [msum]; [lia|]. rewrite IH. destruct (lookup id t); lia.
Qed.

Lemma msum_insert f id v m : msum f (insert id v m) = msum f m + f v.
Proof.
  induction m as [|[a w] t IH]; cbn [insert msum]; [lia|].
  destruct (id <? a); cbn [msum]; lia.
Qed.

Lemma msum_zero f m : (forall k v, In (k, v) m -> f v = 0) -> msum f m = 0.
Proof.
  induction m as [|[k v] t IH]; intros H; cbn [msum]; [reflexivity|].
  rewrite (H k v) by (left; reflexivity). rewrite IH; [reflexivity|].
  intros k' v' Hin. apply (H k'). right. exact Hin.
Qed.

(** Unacknowledged bytes of one stream (reset streams were settled at reset time). *)
Definition ucontrib (v : option Send) : Z :=
  match v with
  | Some x => if x.(s_state) =? 3 then 0 else x.(s_ulen) - rs_total x.(s_acks)
  | None => 0
  end.
Definition usum (m : SMap) : Z := msum ucontrib m.

(* ------------------------------------------------------------------------------------------ *)
(** * The buffer invariant *)

Definition base (x : Send) : Z := x.(s_offset) - x.(s_ulen).

(** For a stream that was not reset: acknowledged ranges, ranges queued for retransmission and
    frames in flight are pairwise disjoint pieces of [base, unsent) whose lengths add up to it. *)
Record LiveOK (L : list (option Frame)) (id : Z) (x : Send) : Prop := mkLiveOK {
  l_acksW : W (base x + 1) x.(s_acks);
  l_acks_hi : forall y, covers x.(s_acks) y -> y < x.(s_unsent);
  l_retxW : W (base x) x.(s_retx);
  l_retx_hi : forall y, covers x.(s_retx) y -> y < x.(s_unsent);
  l_lo : forall k a b fin, live L k (id, a, b, fin) -> a < b -> base x <= a;
  l_ar : forall y, covers x.(s_acks) y -> covers x.(s_retx) y -> False;
  l_fa : forall k a b fin y, live L k (id, a, b, fin) -> a <= y < b -> covers x.(s_acks) y -> False;
  l_fr : forall k a b fin y, live L k (id, a, b, fin) -> a <= y < b -> covers x.(s_retx) y -> False;
  l_ff : forall k k' a b fin a' b' fin' y,
           live L k (id, a, b, fin) -> live L k' (id, a', b', fin') -> k <> k' ->
           a <= y < b -> a' <= y < b' -> False;
  l_num : flen id L + rs_total x.(s_acks) + rs_total x.(s_retx) = x.(s_unsent) - base x
}.

Record BufOK (L : list (option Frame)) (id : Z) (x : Send) : Prop := mkBufOK {
  b_ulen : 0 <= x.(s_ulen) <= x.(s_offset);
  b_unsent : base x <= x.(s_unsent) <= x.(s_offset);
  b_state : 0 <= x.(s_state) <= 3;
  b_frames : forall k a b fin, live L k (id, a, b, fin) -> 0 <= a <= b /\ b <= x.(s_unsent);
  b_live : x.(s_state) <> 3 -> LiveOK L id x
}.

Record HInvL (L : list (option Frame)) (s : State) (g : Ghost) : Prop := mkHInv {
  h_buf : forall id x, lookup id s.(send) = Some (Some x) -> BufOK L id x;
  h_frames : forall k id a b fin, live L k (id, a, b, fin) ->
               0 <= id /\ lookup id s.(send) <> Some None
               /\ (id_init id = s.(side) -> id_index id < get_next (id_dir id) s);
  h_usum : s.(unacked_data) = usum s.(send);
  h_early : g.(g_phase) <> 2 ->
            forall id x, lookup id s.(send) = Some (Some x) ->
              x.(s_acks) = [] /\ x.(s_retx) = [] /\ x.(s_ulen) = x.(s_offset)
}.

Definition HInv (s : State) (g : Ghost) : Prop := HInvL s.(log) s g.

(** [send_streams] counts at least the streams of the map that the application holds:
    the locally opened ones and the peer-initiated bidirectional ones that were accepted. *)
Definition counted (s : State) (k : Z) : bool :=
  (id_init k =? s.(side)) || ((id_dir k =? 0) && (id_index k <? s.(next_reported_bi))).
Definition cnt (s : State) : Z := Z.of_nat (length (filter (counted s) (keys s.(send)))).

Record SInv (s : State) (g : Ghost) : Prop := mkSInv {
  c_cnt : cnt s <= s.(send_streams);
  c_rep : 0 <= s.(next_reported_bi);
  c_rbi : forall k, In k (keys s.(send)) -> id_init k <> s.(side) -> id_dir k = 0;
  c_app : forall id x, lookup id s.(send) = Some (Some x) -> id_init id <> s.(side) ->
            x.(s_state) <> 0 -> id_index id < s.(next_reported_bi);
  c_early : g.(g_phase) <> 2 -> s.(next_reported_bi) = 0
}.

(** Fields read by [HInvL]. *)
Definition hcore (s : State) := (s.(side), s.(send), s.(unacked_data), s.(next_bi), s.(next_uni)).

Lemma HInvL_ext L s s' g : hcore s = hcore s' -> HInvL L s g -> HInvL L s' g.
Proof.
  unfold hcore. intros H. injection H as H1 H2 H3 H4 H5. intros [A B C D].
  constructor; unfold get_next in *; rewrite <- ?H1, <- ?H2, <- ?H3, <- ?H4, <- ?H5; auto.
Qed.

Ltac hcore_eq :=
  unfold hcore, put, push_pending, set_next, set_max, set_blocked;
  repeat match goal with |- context [if ?c then _ else _] => destruct c end;
  autorewrite with st; reflexivity.

(* ------------------------------------------------------------------------------------------ *)
(** * Tools *)

Definition feq (id : Z) (L L' : list (option Frame)) : Prop :=
  (forall k a b fin, live L' k (id, a, b, fin) <-> live L k (id, a, b, fin))
  /\ flen id L' = flen id L.

Lemma liveok_feq id L L' x : feq id L L' -> LiveOK L id x -> LiveOK L' id x.
Proof.
  intros (E & F) [A1 A2 A3 A4 A5 A6 A7 A8 A9 A10].
  constructor; auto.
  - intros k a b fin Hl. apply (A5 k a b fin). apply E. exact Hl.
  - intros k a b fin y Hl. apply (A7 k a b fin y). apply E. exact Hl.
  - intros k a b fin y Hl. apply (A8 k a b fin y). apply E. exact Hl.
  - intros k k' a b fin a' b' fin' y H1 H2. apply (A9 k k' a b fin a' b' fin' y); apply E; assumption.
  - rewrite F. exact A10.
Qed.

Lemma bufok_feq id L L' x : feq id L L' -> BufOK L id x -> BufOK L' id x.
Proof.
  intros E [A B C D F]. constructor; auto.
  - intros k a b fin Hl. apply (D k a b fin). apply (proj1 E). exact Hl.
  - intros Hs. eapply liveok_feq; eauto.
Qed.

Lemma feq_snoc_other id L fid a b fin : fid <> id -> feq id L (L ++ [Some (fid, a, b, fin)]).
Proof.
  intros Hn. split.
  - intros k a' b' fin'. rewrite live_snoc. split; [|auto].
    intros [H|[_ H]]; [exact H|]. injection H as H _ _ _. congruence.
  - rewrite flen_snoc. cbn [fcontrib]. destruct (fid =? id) eqn:E; lia.
Qed.

Lemma feq_take_other id L L' k fid a b fin :
  log_get k L = Some ((fid, a, b, fin), L') -> fid <> id -> feq id L L'.
Proof.
  intros G Hn. destruct (log_get_spec _ _ _ _ G) as (Hl & B & C). split.
  - intros j a' b' fin'. rewrite B. split; [intros [H _]; exact H|].
    intros H. split; [exact H|]. intros ->. unfold live in *. congruence.
  - rewrite C. cbn [fcontrib]. destruct (fid =? id) eqn:E; lia.
Qed.

(** Replacing the entry of one stream. *)
Lemma usum_put id old x' s :
  lookup id s.(send) = Some old ->
  usum (send (put id x' s)) = usum s.(send) - ucontrib old + ucontrib (Some x').
Proof.
  intros L. unfold put, usum. autorewrite with st. rewrite msum_update, L. reflexivity.
Qed.

Lemma hinv_put L s g id old x' du :
  HInvL L s g -> lookup id s.(send) = Some old -> BufOK L id x' ->
  ucontrib (Some x') = ucontrib old + du ->
  (g.(g_phase) <> 2 -> x'.(s_acks) = [] /\ x'.(s_retx) = [] /\ x'.(s_ulen) = x'.(s_offset)) ->
  HInvL L (set_unacked_data (s.(unacked_data) + du) (put id x' s)) g.
Proof.
  intros [A B C D] Lk Hb Hu He. constructor.
  - intros k y Ly. autorewrite with st in Ly. rewrite lookup_put in Ly.
    destruct (k =? id) eqn:E.
    + assert (k = id) by lia. subst k. rewrite Lk in Ly. injection Ly as <-. exact Hb.
    + apply A. exact Ly.
  - intros k i a b fin Hl. destruct (B k i a b fin Hl) as (B1 & B2 & B3).
    split; [exact B1|]. split.
    + autorewrite with st. rewrite lookup_put. destruct (i =? id); [rewrite Lk; discriminate|exact B2].
    + unfold get_next in *. unfold put. autorewrite with st. exact B3.
  - autorewrite with st. rewrite (usum_put id old x' s Lk). lia.
  - intros Hp k y Ly. autorewrite with st in Ly. rewrite lookup_put in Ly.
    destruct (k =? id) eqn:E.
    + rewrite Lk in Ly. injection Ly as <-. apply He. exact Hp.
    + apply (D Hp k). exact Ly.
Qed.

Lemma hinv_put0 L s g id old x' :
  HInvL L s g -> lookup id s.(send) = Some old -> BufOK L id x' ->
  ucontrib (Some x') = ucontrib old ->
  (g.(g_phase) <> 2 -> x'.(s_acks) = [] /\ x'.(s_retx) = [] /\ x'.(s_ulen) = x'.(s_offset)) ->
  HInvL L (put id x' s) g.
Proof.
  intros H Lk Hb Hu He.
  eapply HInvL_ext; [|apply (hinv_put L s g id old x' 0 H Lk Hb); [lia|exact He]].
  unfold hcore, put. autorewrite with st. rewrite Z.add_0_r. reflexivity.
Qed.

(** Entries that differ only in fields the buffer invariant does not read. *)
Definition same_buf (x y : Send) : Prop :=
  y.(s_offset) = x.(s_offset) /\ y.(s_ulen) = x.(s_ulen) /\ y.(s_unsent) = x.(s_unsent)
  /\ y.(s_acks) = x.(s_acks) /\ y.(s_retx) = x.(s_retx) /\ y.(s_state) = x.(s_state).

Lemma bufok_same L id x y : same_buf x y -> BufOK L id x -> BufOK L id y.
Proof.
  intros (E1 & E2 & E3 & E4 & E5 & E6) [A B C D F].
  constructor; unfold base in *; rewrite ?E1, ?E2, ?E3, ?E6; auto.
  intros Hs. destruct (F Hs) as [A1 A2 A3 A4 A5 A6 A7 A8 A9 A10].
  constructor; unfold base in *; rewrite ?E1, ?E2, ?E3, ?E4, ?E5; auto.
Qed.

Lemma hinv_put_same L s g id x y :
  HInvL L s g -> lookup id s.(send) = Some (Some x) -> same_buf x y -> HInvL L (put id y s) g.
Proof.
  intros H Lk Hs. pose proof Hs as (E1 & E2 & E3 & E4 & E5 & E6).
  eapply (hinv_put0 L s g id (Some x) y H Lk).
  - eapply bufok_same; [exact Hs|]. exact (h_buf _ _ _ H id x Lk).
  - cbn [ucontrib]. rewrite E2, E4, E6. reflexivity.
  - intros Hp. destruct (h_early _ _ _ H Hp id x Lk) as (X1 & X2 & X3). rewrite E4, E5, E2, E1. auto.
Qed.

(** [touch] *)
Lemma bufok_new L id md :
  (forall k a b fin, ~ live L k (id, a, b, fin)) -> BufOK L id (new_send md).
Proof.
  intros Hn. assert (Hf : flen id L = 0).
  { clear -Hn. induction L as [|e t IH]; [reflexivity|]. cbn [flen].
    rewrite IH by (intros k a b fin Hl; apply (Hn (S k) a b fin); exact Hl).
    destruct e as [[[[i a] b] fin]|]; cbn [fcontrib]; [|lia].
    destruct (i =? id) eqn:E; [|lia]. exfalso. assert (i = id) by lia. subst i.
    apply (Hn O a b fin). reflexivity. }
  constructor; unfold base; cbn; try lia.
  - intros k a b fin Hl. destruct (Hn _ _ _ _ Hl).
  - intros _. constructor; unfold base;
      cbn [s_acks s_retx s_offset s_ulen s_unsent new_send rs_total W].
    + exact I.
    + intros y Hc. destruct (covers_nil _ Hc).
    + exact I.
    + intros y Hc. destruct (covers_nil _ Hc).
    + intros k a b fin Hl. destruct (Hn _ _ _ _ Hl).
    + intros y Hc. destruct (covers_nil _ Hc).
    + intros k a b fin y Hl. destruct (Hn _ _ _ _ Hl).
    + intros k a b fin y Hl. destruct (Hn _ _ _ _ Hl).
    + intros k k' a b fin a' b' fin' y Hl. destruct (Hn _ _ _ _ Hl).
    + rewrite Hf. lia.
Qed.

Lemma touch_hinv L s g id x s1 :
  HInvL L s g -> touch id s = Some (x, s1) ->
  HInvL L s1 g /\ lookup id s1.(send) = Some (Some x)
  /\ side s1 = side s /\ unacked_data s1 = unacked_data s /\ log s1 = log s
  /\ next_reported_bi s1 = next_reported_bi s /\ send_streams s1 = send_streams s
  /\ keys (send s1) = keys (send s).
Proof.
  intros H T. unfold touch in T.
  destruct (lookup id (send s)) as [[y|]|] eqn:Lk; [| |discriminate].
  - injection T as <- <-. split; [exact H|]. repeat split; auto.
  - injection T as <- <-.
    assert (Hn : forall k a b fin, ~ live L k (id, a, b, fin)).
    { intros k a b fin Hl. destruct (h_frames _ _ _ H k id a b fin Hl) as (_ & B2 & _). contradiction. }
    split.
    + apply (hinv_put0 L s g id None (new_send (max_send_data s id)) H Lk).
      * apply bufok_new. exact Hn.
      * reflexivity.
      * intros _. cbn. auto.
    + unfold put. autorewrite with st. rewrite lookup_update, Z.eqb_refl, Lk.
      repeat split; auto. apply keys_update.
Qed.

(* ------------------------------------------------------------------------------------------ *)
(** * Per-operation preservation of [HInvL] *)

Lemma bufok_write L id x w :
  BufOK L id x -> 0 <= w -> x.(s_state) <> 3 ->
  BufOK L id (set_s_ulen (s_ulen x + w) (set_s_offset (s_offset x + w) x)).
Proof.
  intros [A B C D F] Hw Hs.
  constructor; unfold base in *; autorewrite with st; auto; try lia.
  intros _. destruct (F Hs) as [A1 A2 A3 A4 A5 A6 A7 A8 A9 A10].
  constructor; unfold base in *; autorewrite with st; auto;
    try (replace (s_offset x + w - (s_ulen x + w)) with (s_offset x - s_ulen x) by lia; auto).
Qed.

Lemma write_hinv L s g id n s' r :
  HInvL L s g -> Inv s g -> do_write id n s = Some (s', r) -> 0 <= n ->
  HInvL L s' g /\ log s' = log s.
Proof.
  intros H I W Hn. unfold do_write in W. rewrite (write_limit_some _ _ I) in W.
  destruct (touch id s) as [[x s1]|] eqn:T.
  2:{ injection W as <- _. auto. }
  destruct (touch_hinv _ _ _ _ _ _ H T) as (H1 & L1 & Rs & Ru & Rl & _).
  set (limit := Z.min (max_data s - data_sent s) (Z.max 0 (send_window s - unacked_data s))) in *.
  destruct (limit =? 0) eqn:El.
  { destruct (s_cb x).
    - injection W as <- _. auto.
    - injection W as <- _. split; [|unfold put; autorewrite with st; exact Rl].
      eapply HInvL_ext; [|apply (hinv_put_same L s1 g id x (set_s_cb true x) H1 L1)].
      + hcore_eq.
      + unfold same_buf. autorewrite with st. repeat split. }
  destruct (negb (s_state x =? 0)) eqn:Est; [injection W as <- _; auto|].
  destruct (s_stop x); [injection W as <- _; auto|].
  destruct (s_max_data x <? s_offset x) eqn:Eb; [discriminate|].
  destruct (s_max_data x - s_offset x =? 0) eqn:Eb0; [injection W as <- _; auto|].
  set (w := Z.min n (Z.min limit (s_max_data x - s_offset x))) in *.
  assert (Hw : 0 <= w) by (pose proof (i_ds _ _ I); subst w limit; lia).
  assert (Hst : s_state x <> 3) by lia.
  set (x' := set_s_ulen (s_ulen x + w) (set_s_offset (s_offset x + w) x)) in *.
  assert (Hcore : HInvL L (set_unacked_data (unacked_data s1 + w) (put id x' s1)) g).
  { apply (hinv_put L s1 g id (Some x) x' w H1 L1).
    - apply bufok_write; auto. exact (h_buf _ _ _ H1 id x L1).
    - subst x'. cbn [ucontrib]. autorewrite with st. destruct (s_state x =? 3) eqn:E3; lia.
    - intros Hp. destruct (h_early _ _ _ H1 Hp id x L1) as (X1 & X2 & X3).
      subst x'. autorewrite with st. repeat split; auto. lia. }
  unfold ok in W. injection W as <- _. split.
  - eapply HInvL_ext; [|exact Hcore]. destruct (is_pending x); hcore_eq.
  - destruct (is_pending x); unfold put, push_pending; autorewrite with st; exact Rl.
Qed.

Definition buf_eq (x y : Send) : Prop :=
  y.(s_offset) = x.(s_offset) /\ y.(s_ulen) = x.(s_ulen) /\ y.(s_unsent) = x.(s_unsent)
  /\ y.(s_acks) = x.(s_acks) /\ y.(s_retx) = x.(s_retx).

Lemma bufok_eq L id x y :
  buf_eq x y -> 0 <= y.(s_state) <= 3 -> (y.(s_state) <> 3 -> x.(s_state) <> 3) ->
  BufOK L id x -> BufOK L id y.
Proof.
  intros (E1 & E2 & E3 & E4 & E5) Hr Hs [A B C D F].
  constructor; unfold base in *; rewrite ?E1, ?E2, ?E3; auto.
  intros Hy. destruct (F (Hs Hy)) as [A1 A2 A3 A4 A5 A6 A7 A8 A9 A10].
  constructor; unfold base in *; rewrite ?E1, ?E2, ?E3, ?E4, ?E5; auto.
Qed.

Ltac sb := unfold same_buf, buf_eq; autorewrite with st; repeat split; auto.

Lemma finish_hinv L s g id s' r :
  HInvL L s g -> do_finish id s = Some (s', r) -> HInvL L s' g /\ log s' = log s.
Proof.
  intros H F. unfold do_finish in F.
  destruct (touch id s) as [[x s1]|] eqn:T; [|injection F as <- _; auto].
  destruct (touch_hinv _ _ _ _ _ _ H T) as (H1 & L1 & Rs & Ru & Rl & _).
  destruct (s_stop x); [injection F as <- _; auto|].
  destruct (s_state x =? 0) eqn:E0; [|injection F as <- _; auto].
  injection F as <- _.
  set (y := set_s_fin_pending true (set_s_state 1 x)).
  assert (Hy : HInvL L (put id y s1) g).
  { apply (hinv_put0 L s1 g id (Some x) y H1 L1).
    - apply (bufok_eq L id x y); [subst y; sb|subst y; autorewrite with st; lia|subst y; autorewrite with st; lia|exact (h_buf _ _ _ H1 id x L1)].
    - subst y. cbn [ucontrib]. autorewrite with st. red_eqb. assert (s_state x =? 3 = false) as -> by lia. reflexivity.
    - intros Hp. destruct (h_early _ _ _ H1 Hp id x L1) as (X1 & X2 & X3). subst y. autorewrite with st. auto. }
  split.
  - destruct (is_pending x); [exact Hy|]. eapply HInvL_ext; [|exact Hy]. hcore_eq.
  - destruct (is_pending x); unfold put, push_pending; autorewrite with st; exact Rl.
Qed.

Lemma sb_unacked_spec x u : sb_unacked x = Some u -> u = x.(s_ulen) - rs_total x.(s_acks) /\ 0 <= u.
Proof.
  unfold sb_unacked. destruct (s_ulen x <? rs_total (s_acks x)) eqn:E; [discriminate|].
  intros H. injection H as <-. lia.
Qed.

Lemma reset_hinv L s g id s' r :
  HInvL L s g -> do_reset id s = Some (s', r) -> HInvL L s' g /\ log s' = log s.
Proof.
  intros H F. unfold do_reset in F.
  destruct (touch id s) as [[x s1]|] eqn:T; [|injection F as <- _; auto].
  destruct (touch_hinv _ _ _ _ _ _ H T) as (H1 & L1 & Rs & Ru & Rl & _).
  destruct (s_state x =? 3) eqn:E3; [injection F as <- _; auto|].
  destruct (sb_unacked x) as [u|] eqn:SU; [|discriminate].
  destruct (unacked_data s1 <? u) eqn:E; [discriminate|].
  injection F as <- _. destruct (sb_unacked_spec _ _ SU) as (Hu & Hu0).
  split; [|unfold put; autorewrite with st; exact Rl].
  eapply HInvL_ext; [|apply (hinv_put L s1 g id (Some x) (set_s_state 3 x) (- u) H1 L1)].
  - unfold hcore, put. autorewrite with st. replace (unacked_data s1 + - u) with (unacked_data s1 - u) by lia. reflexivity.
  - apply (bufok_eq L id x (set_s_state 3 x)); [sb|autorewrite with st; lia|autorewrite with st; lia|exact (h_buf _ _ _ H1 id x L1)].
  - cbn [ucontrib]. autorewrite with st. red_eqb. rewrite E3. lia.
  - intros Hp. destruct (h_early _ _ _ H1 Hp id x L1) as (X1 & X2 & X3). autorewrite with st. auto.
Qed.

Lemma cb_loop_hinv L g st : forall s, HInvL L s g ->
  HInvL L (fst (cb_loop st s)) g /\ log (fst (cb_loop st s)) = log s.
Proof.
  induction st as [|id t IH]; intros s H; cbn [cb_loop].
  - cbn [fst]. split; [eapply HInvL_ext; [|exact H]; hcore_eq|autorewrite with st; reflexivity].
  - destruct (lookup id (send s)) as [[x|]|] eqn:Lk; try (apply IH; exact H).
    assert (H1 : HInvL L (put id (set_s_cb false x) s) g) by (eapply hinv_put_same; [exact H|exact Lk|sb]).
    destruct ((s_state x =? 0) && (s_offset x <? s_max_data x)).
    + cbn [fst]. split; [eapply HInvL_ext; [|exact H1]; hcore_eq|unfold put; autorewrite with st; reflexivity].
    + destruct (IH _ H1) as (A & B). split; [exact A|]. rewrite B. unfold put. autorewrite with st. reflexivity.
Qed.

Lemma poll_hinv L s g s' r :
  HInvL L s g -> Inv s g -> do_poll s = Some (s', r) -> HInvL L s' g /\ log s' = log s.
Proof.
  intros H I F. unfold do_poll, pop_event in F.
  destruct (opened_bi s); [injection F as <- _; split; [eapply HInvL_ext; [|exact H]; hcore_eq|autorewrite with st; reflexivity]|].
  rewrite (write_limit_some _ _ I) in F.
  destruct (0 <? _).
  - destruct (cb_loop_hinv L g (conn_blocked s) s H) as (A & B).
    destruct (cb_loop (conn_blocked s) s) as [s1 [id|]]; cbn [fst] in *.
    + injection F as <- _. auto.
    + destruct (events s1); injection F as <- _; [auto|].
      split; [eapply HInvL_ext; [|exact A]; hcore_eq|autorewrite with st; exact B].
  - destruct (events s); injection F as <- _; [auto|].
    split; [eapply HInvL_ext; [|exact H]; hcore_eq|autorewrite with st; reflexivity].
Qed.

Lemma on_stream_frame_hcore id s : hcore (on_stream_frame id s) = hcore s /\ log (on_stream_frame id s) = log s.
Proof. unfold on_stream_frame. destr_if; split; try hcore_eq; autorewrite with st; reflexivity. Qed.

Lemma stop_sending_hinv L s g id code :
  HInvL L s g -> HInvL L (do_stop_sending id code s) g /\ log (do_stop_sending id code s) = log s.
Proof.
  intros H. unfold do_stop_sending.
  destruct (touch id s) as [[x s1]|] eqn:T; [|auto].
  destruct (touch_hinv _ _ _ _ _ _ H T) as (H1 & L1 & Rs & Ru & Rl & _).
  destruct (s_stop x); [auto|].
  destruct (on_stream_frame_hcore id (set_events (events s1 ++ [[4; id; code]]) (put id (set_s_stop (Some code) x) s1))) as (C1 & C2).
  split; [|rewrite C2; unfold put; autorewrite with st; exact Rl].
  eapply HInvL_ext; [symmetry; exact C1|].
  eapply HInvL_ext; [|apply (hinv_put_same L s1 g id x (set_s_stop (Some code) x) H1 L1); sb]. hcore_eq.
Qed.

Lemma max_stream_data_hinv L s g id v s' r :
  HInvL L s g -> Inv s g -> do_max_stream_data id v s = Some (s', r) ->
  HInvL L s' g /\ log s' = log s.
Proof.
  intros H I F. unfold do_max_stream_data in F.
  destruct (negb (id_init id =? side s) && (id_dir id =? 1)); [injection F as <- _; auto|].
  rewrite (write_limit_some _ _ I) in F.
  destruct (touch id s) as [[x s1]|] eqn:T.
  2:{ destruct ((id_init id =? side s) && (get_next (id_dir id) s <=? id_index id)); injection F as <- _; [auto|].
      destruct (on_stream_frame_hcore id s) as (C1 & C2). split; [|exact C2].
      eapply HInvL_ext; [symmetry; exact C1|exact H]. }
  destruct (touch_hinv _ _ _ _ _ _ H T) as (H1 & L1 & Rs & Ru & Rl & _).
  injection F as <- _.
  match goal with |- HInvL L (on_stream_frame id ?t) g /\ _ =>
    destruct (on_stream_frame_hcore id t) as (C1 & C2);
    assert (Ht : HInvL L t g /\ log t = log s) end.
  { destruct ((s_max_data x <? v) && (s_state x =? 0)); [|auto].
    assert (Hr : forall y, same_buf x y -> HInvL L (put id y s1) g /\ log (put id y s1) = log s).
    { intros y Hy. split; [eapply hinv_put_same; eauto|unfold put; autorewrite with st; exact Rl]. }
    destruct (s_offset x =? s_max_data x); [|apply Hr; sb].
    destruct (0 <? _).
    - destruct (Hr (set_s_max_data v x)) as (A & B); [sb|].
      split; [eapply HInvL_ext; [|exact A]; hcore_eq|autorewrite with st; exact B].
    - autorewrite with st. destruct (s_cb x); [apply Hr; sb|].
      destruct (Hr (set_s_cb true (set_s_max_data v x))) as (A & B); [sb|].
      split; [eapply HInvL_ext; [|exact A]; hcore_eq|autorewrite with st; exact B]. }
  destruct Ht as (A & B). split; [|rewrite C2; exact B].
  eapply HInvL_ext; [symmetry; exact C1|exact A].
Qed.

(** [open] *)
Lemma open_hinv L s g d :
  HInvL L s g -> Inv s g -> 0 <= d <= 1 ->
  lookup (sid s.(side) d (get_next d s)) s.(send) = None ->
  HInvL L (set_send (insert (sid s.(side) d (get_next d s)) None s.(send))
             (set_next d (get_next d s + 1) s)) g.
Proof.
  intros [A B C D] I Hd Ln.
  pose proof (i_side _ _ I) as Hs. destruct (i_cnt _ _ I d Hd) as (Hn & _).
  remember (sid (side s) d (get_next d s)) as id eqn:Eid.
  assert (Hii : id_init id = side s) by (subst id; apply id_init_sid; lia).
  assert (Hid : id_dir id = d) by (subst id; apply id_dir_sid; lia).
  assert (Hix : id_index id = get_next d s) by (subst id; apply id_index_sid; lia).
  assert (Hsd : side (set_send (insert id None (send s)) (set_next d (get_next d s + 1) s)) = side s)
    by (unfold set_next; destr_if; autorewrite with st; reflexivity).
  assert (Hsn : send (set_send (insert id None (send s)) (set_next d (get_next d s + 1) s)) = insert id None (send s))
    by (autorewrite with st; reflexivity).
  assert (Hun : unacked_data (set_send (insert id None (send s)) (set_next d (get_next d s + 1) s)) = unacked_data s)
    by (unfold set_next; destr_if; autorewrite with st; reflexivity).
  assert (Hnx : forall d0, get_next d0 s <= get_next d0 (set_send (insert id None (send s)) (set_next d (get_next d s + 1) s))).
  { intros d0. unfold get_next, set_next. destr_if; autorewrite with st; lia. }
  constructor; rewrite ?Hsd, ?Hsn, ?Hun.
  - intros k x Lk. rewrite lookup_insert in Lk by assumption. destruct (k =? id); [discriminate|].
    apply A. exact Lk.
  - intros k i a b fin Hl. destruct (B k i a b fin Hl) as (B1 & B2 & B3).
    split; [exact B1|]. split.
    + rewrite lookup_insert by assumption. destruct (i =? id) eqn:E; [|exact B2].
      exfalso. assert (i = id) by lia. subst i. specialize (B3 Hii). rewrite Hid, Hix in B3. lia.
    + intros Hi. specialize (B3 Hi). pose proof (Hnx (id_dir i)). lia.
  - unfold usum. rewrite msum_insert. cbn [ucontrib]. unfold usum in C. lia.
  - intros Hp k x Lk. rewrite lookup_insert in Lk by assumption. destruct (k =? id); [discriminate|].
    apply (D Hp k). exact Lk.
Qed.

(** Taking a frame out of the log (acknowledged or lost). *)
Lemma hinv_take L L' k fid a b fin s g :
  log_get k L = Some ((fid, a, b, fin), L') -> HInvL L s g ->
  (forall x, lookup fid s.(send) = Some (Some x) -> BufOK L' fid x) ->
  HInvL L' s g.
Proof.
  intros G [A B C D] Hf. destruct (log_get_spec _ _ _ _ G) as (Hl & Bl & Cl).
  constructor; auto.
  - intros id x Lk. destruct (Z.eq_dec id fid) as [->|Hn]; [apply Hf; exact Lk|].
    eapply bufok_feq; [eapply feq_take_other; [exact G|congruence]|]. apply A. exact Lk.
  - intros j i a' b' fin' Hl'. apply (B j i a' b' fin'). apply Bl in Hl'. tauto.
Qed.

Lemma bufok_take_reset L L' k fid a b fin x :
  log_get k L = Some ((fid, a, b, fin), L') -> BufOK L fid x -> x.(s_state) = 3 -> BufOK L' fid x.
Proof.
  intros G [A B C D F] Hs. destruct (log_get_spec _ _ _ _ G) as (Hl & Bl & Cl).
  constructor; auto; [|congruence].
  intros j a' b' fin' Hl'. apply (D j a' b' fin'). apply Bl in Hl'. tauto.
Qed.

Lemma bufok_lost L L' k id a b fin fp x :
  log_get k L = Some ((id, a, b, fin), L') -> BufOK L id x ->
  BufOK L' id (set_s_retx (rs_add a b (s_retx x)) (set_s_fin_pending fp x)).
Proof.
  intros G [A B C D F]. destruct (log_get_spec _ _ _ _ G) as (Hl & Bl & Cl).
  destruct (D _ _ _ _ Hl) as (Fa & Fb).
  constructor; unfold base in *; autorewrite with st; auto.
  - intros j a' b' fin' Hl'. apply (D j a' b' fin'). apply Bl in Hl'. tauto.
  - intros Hs. destruct (F Hs) as [A1 A2 A3 A4 A5 A6 A7 A8 A9 A10].
    assert (Hdis : forall y, a <= y < b -> ~ covers (s_retx x) y)
      by (intros y Hy Hc; exact (A8 _ _ _ _ y Hl Hy Hc)).
    constructor; unfold base in *; autorewrite with st; auto.
    + unfold rs_add. destruct (a <? b) eqn:E; [|exact A3].
      apply rs_insert_W; [lia| |exact A3]. apply (A5 _ _ _ _ Hl). lia.
    + intros y Hc. apply rs_add_covers in Hc. destruct Hc as [Hc|Hc]; [auto|lia].
    + intros j a' b' fin' Hl'. apply (A5 j a' b' fin'). apply Bl in Hl'. tauto.
    + intros y Ha Hc. apply rs_add_covers in Hc. destruct Hc as [Hc|Hc]; [eauto|].
      exact (A7 _ _ _ _ y Hl Hc Ha).
    + intros j a' b' fin' y Hl' Hy Hc. apply Bl in Hl'. destruct Hl' as (Hl' & Hj).
      eapply A7; eauto.
    + intros j a' b' fin' y Hl' Hy Hc. apply Bl in Hl'. destruct Hl' as (Hl' & Hj).
      apply rs_add_covers in Hc. destruct Hc as [Hc|Hc]; [eapply A8; eauto|].
      exact (A9 _ _ _ _ _ _ _ _ y Hl' Hl Hj Hy Hc).
    + intros j j' a1 b1 f1 a2 b2 f2 y H1 H2. apply Bl in H1. apply Bl in H2.
      destruct H1 as (H1 & _). destruct H2 as (H2 & _). eapply A9; eauto.
    + rewrite Cl. cbn [fcontrib]. rewrite Z.eqb_refl.
      assert (Hab : a <= b) by lia.
      rewrite (rs_add_total (s_retx x) _ a b A3 Hab Hdis). lia.
Qed.

(** An acknowledged frame of a stream that was not reset. *)
Lemma bufok_ack L L' k id a b fin x :
  log_get k L = Some ((id, a, b, fin), L') -> BufOK L id x -> x.(s_state) <> 3 ->
  exists x1, sb_ack a b x = Some x1
    /\ BufOK L' id x1
    /\ ucontrib (Some x1) = ucontrib (Some x) - (b - a)
    /\ b - a <= ucontrib (Some x)
    /\ (x1.(s_ulen) = 0 -> x1.(s_acks) = []).
Proof.
  intros G [A B C D F] Hs. destruct (log_get_spec _ _ _ _ G) as (Hl & Bl & Cl).
  destruct (D _ _ _ _ Hl) as (Fa & Fb).
  destruct (F Hs) as [A1 A2 A3 A4 A5 A6 A7 A8 A9 A10].
  unfold base in *. set (bs := s_offset x - s_ulen x) in *.
  set (acks1 := rs_add a b (s_acks x)).
  assert (Hdis : forall y, a <= y < b -> ~ covers (s_acks x) y)
    by (intros y Hy Hc; exact (A7 _ _ _ _ y Hl Hy Hc)).
  assert (Hab : a <= b) by lia.
  assert (Hcov : forall y, covers acks1 y <-> covers (s_acks x) y \/ a <= y < b)
    by (intros y; apply rs_add_covers).
  assert (Htot : rs_total acks1 = rs_total (s_acks x) + (b - a)).
  { unfold acks1. eapply rs_add_total; [exact A1|exact Hab|exact Hdis]. }
  assert (W0 : W bs (s_acks x)) by (eapply W_weaken; [|exact A1]; lia).
  assert (W1 : W bs acks1).
  { unfold acks1, rs_add. destruct (a <? b) eqn:E; [|exact W0].
    apply rs_insert_W; [lia| |exact W0]. apply (A5 _ _ _ _ Hl). lia. }
  assert (Hsame : rs_add (Z.max bs a) (Z.max bs b) (s_acks x) = acks1).
  { unfold acks1. destruct (a <? b) eqn:E.
    - assert (bs <= a) by (apply (A5 _ _ _ _ Hl); lia).
      replace (Z.max bs a) with a by lia. replace (Z.max bs b) with b by lia. reflexivity.
    - unfold rs_add. rewrite E. destruct (Z.max bs a <? Z.max bs b) eqn:E2; [lia|reflexivity]. }
  assert (Hhi1 : forall y, covers acks1 y -> y < s_unsent x).
  { intros y Hc. apply Hcov in Hc. destruct Hc as [Hc|Hc]; [auto|lia]. }
  destruct (pop_acked_spec bs (s_ulen x) acks1 W1) as (ulen' & acks' & P & Pr & PW & Pt & Pc & Pp).
  { intros y Hc. specialize (Hhi1 y Hc). lia. }
  { lia. }
  set (d := s_ulen x - ulen') in *.
  exists (set_s_acks acks' (set_s_ulen ulen' x)).
  split; [unfold sb_ack; fold bs; rewrite Hsame, P; reflexivity|].
  assert (Hbu : bs + d <= s_unsent x).
  { destruct (Z.eq_dec d 0); [lia|].
    assert (covers acks1 (bs + d - 1)) by (apply Pp; lia). specialize (Hhi1 _ H). lia. }
  assert (Hfl : 0 <= flen id L').
  { apply flen_nonneg. intros j a' b' f' Hl'. apply Bl in Hl'. destruct Hl' as (Hl' & _).
    destruct (D _ _ _ _ Hl'). lia. }
  assert (Hrt : 0 <= rs_total (s_retx x)) by (eapply rs_total_nonneg; exact A3).
  split; [|split; [|split]].
  - constructor; unfold base; autorewrite with st; fold bs; try lia.
    + intros j a' b' fin' Hl'. apply (D j a' b' fin'). apply Bl in Hl'. tauto.
    + intros _.
      constructor; unfold base; autorewrite with st;
        replace (s_offset x - ulen') with (bs + d) by (unfold bs, d; lia).
      * exact PW.
      * intros y Hc. apply Pc in Hc. apply Hhi1. tauto.
      * apply (W_raise bs); [exact A3|].
        intros y Hy Hc. assert (Hc1 : covers acks1 y) by (apply Pp; lia).
        apply Hcov in Hc1. destruct Hc1 as [Hc1|Hc1]; [exact (A6 y Hc1 Hc)|exact (A8 _ _ _ _ y Hl Hc1 Hc)].
      * exact A4.
      * intros j a' b' fin' Hl' Hlt. apply Bl in Hl'. destruct Hl' as (Hl' & Hj).
        pose proof (A5 _ _ _ _ Hl' Hlt) as Hge.
        destruct (Z_lt_dec a' (bs + d)); [|lia]. exfalso.
        assert (Hc1 : covers acks1 a') by (apply Pp; lia).
        apply Hcov in Hc1. destruct Hc1 as [Hc1|Hc1].
        -- exact (A7 _ _ _ _ a' Hl' ltac:(lia) Hc1).
        -- exact (A9 _ _ _ _ _ _ _ _ a' Hl' Hl Hj ltac:(lia) Hc1).
      * intros y Hc Hr. apply Pc in Hc. destruct Hc as (Hc & _). apply Hcov in Hc.
        destruct Hc as [Hc|Hc]; [exact (A6 y Hc Hr)|exact (A8 _ _ _ _ y Hl Hc Hr)].
      * intros j a' b' fin' y Hl' Hy Hc. apply Bl in Hl'. destruct Hl' as (Hl' & Hj).
        apply Pc in Hc. destruct Hc as (Hc & _). apply Hcov in Hc.
        destruct Hc as [Hc|Hc]; [exact (A7 _ _ _ _ y Hl' Hy Hc)|exact (A9 _ _ _ _ _ _ _ _ y Hl' Hl Hj Hy Hc)].
      * intros j a' b' fin' y Hl' Hy Hc. apply Bl in Hl'. destruct Hl' as (Hl' & Hj).
        exact (A8 _ _ _ _ y Hl' Hy Hc).
      * intros j j' a1 b1 f1 a2 b2 f2 y H1 H2. apply Bl in H1. apply Bl in H2.
        destruct H1 as (H1 & _). destruct H2 as (H2 & _). eapply A9; eauto.
      * rewrite Cl. cbn [fcontrib]. rewrite Z.eqb_refl. rewrite Pt, Htot. fold d. lia.
  - cbn [ucontrib]. autorewrite with st. destruct (s_state x =? 3) eqn:E3; [lia|].
    rewrite Pt, Htot. fold d. lia.
  - cbn [ucontrib]. destruct (s_state x =? 3) eqn:E3; [lia|].
    pose proof (flen_live_le id L k a b fin (fun k' a' b' f' Hl' => proj2 (proj1 (D k' a' b' f' Hl'))) Hl).
    lia.
  - autorewrite with st. intros Hz. eapply (W_hi_empty (bs + d + 1) (s_unsent x)); [exact PW| |].
    + intros y Hc. apply Pc in Hc. apply Hhi1. tauto.
    + subst. unfold d, bs in *. lia.
Qed.

Lemma hinv_remove L s g id x :
  HInvL L s g -> NoDup (keys s.(send)) -> lookup id s.(send) = Some (Some x) ->
  ucontrib (Some x) = 0 ->
  HInvL L (set_send (remove id s.(send)) s) g.
Proof.
  intros [A B C D] N Lk Hu. constructor; unfold get_next in *; autorewrite with st.
  - intros k y Ly. destruct (Z.eq_dec k id) as [->|Hn].
    + rewrite lookup_remove_eq in Ly by exact N. discriminate.
    + rewrite lookup_remove_neq in Ly by exact Hn. apply A. exact Ly.
  - intros k i a b fin Hl. destruct (B k i a b fin Hl) as (B1 & B2 & B3).
    split; [exact B1|]. split; [|exact B3].
    destruct (Z.eq_dec i id) as [->|Hn].
    + rewrite lookup_remove_eq by exact N. discriminate.
    + rewrite lookup_remove_neq by exact Hn. exact B2.
  - unfold usum in *. rewrite msum_remove, Lk. lia.
  - intros Hp k y Ly. destruct (Z.eq_dec k id) as [->|Hn].
    + rewrite lookup_remove_eq in Ly by exact N. discriminate.
    + rewrite lookup_remove_neq in Ly by exact Hn. apply (D Hp k). exact Ly.
Qed.

Lemma hinv_phase2 L s g :
  HInvL L s g -> HInvL L s (mkGhost 2 g.(g_par) g.(g_md) g.(g_msd) g.(g_ms) g.(g_closed)).
Proof. intros [A B C D]. constructor; auto. cbn. intros Hc. exfalso. apply Hc. reflexivity. Qed.

Lemma hinv_ghost L s g g' : g_phase g' = 2 -> HInvL L s g -> HInvL L s g'.
Proof. intros Hp [A B C D]. constructor; auto. intros Hc. contradiction. Qed.

(** Changing the log and the entry of the stream concerned at once. *)
Lemma hinv_relog L L' s g id x y du :
  HInvL L s g -> lookup id s.(send) = Some (Some x) ->
  (forall i, i <> id -> feq i L L') ->
  (forall k i a b fin, live L' k (i, a, b, fin) -> live L k (i, a, b, fin) \/ i = id) ->
  (0 <= id /\ (id_init id = s.(side) -> id_index id < get_next (id_dir id) s)) ->
  BufOK L' id y -> ucontrib (Some y) = ucontrib (Some x) + du ->
  (g.(g_phase) <> 2 -> y.(s_acks) = [] /\ y.(s_retx) = [] /\ y.(s_ulen) = y.(s_offset)) ->
  HInvL L' (set_unacked_data (s.(unacked_data) + du) (put id y s)) g.
Proof.
  intros [A B C D] Lk Hfe Hsub Hid Hb Hu He. constructor.
  - intros k z Lz. autorewrite with st in Lz. rewrite lookup_put in Lz.
    destruct (k =? id) eqn:E.
    + assert (k = id) by lia. subst k. rewrite Lk in Lz. injection Lz as <-. exact Hb.
    + eapply bufok_feq; [apply Hfe; lia|]. apply A. exact Lz.
  - intros k i a b fin Hl. autorewrite with st. rewrite lookup_put.
    unfold get_next, put. autorewrite with st. fold (get_next (id_dir i) s).
    destruct (Hsub _ _ _ _ _ Hl) as [Hl0|Hi].
    + destruct (B k i a b fin Hl0) as (B1 & B2 & B3). split; [exact B1|]. split; [|exact B3].
      destruct (i =? id); [rewrite Lk; discriminate|exact B2].
    + subst i. rewrite Z.eqb_refl, Lk. split; [tauto|]. split; [discriminate|tauto].
  - autorewrite with st. rewrite (usum_put id (Some x) y s Lk). lia.
  - intros Hp k z Lz. autorewrite with st in Lz. rewrite lookup_put in Lz.
    destruct (k =? id) eqn:E.
    + rewrite Lk in Lz. injection Lz as <-. apply He. exact Hp.
    + apply (D Hp k). exact Lz.
Qed.

Lemma take_sub L L' k f :
  log_get k L = Some (f, L') ->
  forall j i a b fin, live L' j (i, a, b, fin) -> live L j (i, a, b, fin) \/ i = fst (fst (fst f)).
Proof.
  intros G j i a b fin Hl. destruct (log_get_spec _ _ _ _ G) as (_ & Bl & _).
  left. apply Bl in Hl. tauto.
Qed.

Lemma live_id_facts L s g k id a b fin :
  HInvL L s g -> live L k (id, a, b, fin) ->
  0 <= id /\ (id_init id = s.(side) -> id_index id < get_next (id_dir id) s).
Proof. intros H Hl. destruct (h_frames _ _ _ H _ _ _ _ _ Hl) as (B1 & _ & B3). auto. Qed.

(** [received_ack_of] after the frame was taken out of the log. *)
Lemma ack_hinv L L' k id a b fin s g s' r :
  log_get k L = Some ((id, a, b, fin), L') -> HInvL L s g -> NoDup (keys s.(send)) ->
  g.(g_phase) = 2 ->
  do_ack (id, a, b, fin) (set_log L' s) = Some (s', r) ->
  HInvL L' s' g /\ log s' = L'.
Proof.
  intros G H N Hp F. unfold do_ack, ok in F. autorewrite with st in F.
  destruct (log_get_spec _ _ _ _ G) as (Hl & _ & _).
  assert (H0 : forall t, hcore t = hcore s -> (forall x, lookup id (send s) = Some (Some x) -> BufOK L' id x) -> HInvL L' t g).
  { intros t Ht Hb. eapply HInvL_ext; [symmetry; exact Ht|]. eapply hinv_take; eauto. }
  destruct (lookup id (send s)) as [[x|]|] eqn:Lk.
  2:{ injection F as <- _. split; [apply H0; [hcore_eq|intros x Hx; discriminate]|autorewrite with st; reflexivity]. }
  2:{ injection F as <- _. split; [apply H0; [hcore_eq|intros x Hx; discriminate]|autorewrite with st; reflexivity]. }
  pose proof (h_buf _ _ _ H id x Lk) as Hb.
  destruct (s_state x =? 3) eqn:E3.
  { injection F as <- _. split; [|autorewrite with st; reflexivity].
    apply H0; [hcore_eq|]. intros y Hy. injection Hy as <-. eapply bufok_take_reset; eauto. lia. }
  destruct (bufok_ack _ _ _ _ _ _ _ _ G Hb ltac:(lia)) as (x1 & SA & Hb1 & Hu1 & Hle & Hz).
  destruct (b <? a); [discriminate|]. destruct (unacked_data s <? b - a) eqn:Eu; [discriminate|].
  rewrite SA in F.
  destruct (sb_ack_credit _ _ _ _ SA) as (_ & _ & Est).
  pose proof (b_state _ _ _ Hb) as Hsr.
  (* the stream with its buffer updated (any non-reset state) *)
  assert (Hput : forall y, buf_eq x1 y -> 0 <= s_state y <= 3 -> s_state y <> 3 ->
            HInvL L' (put id y (set_unacked_data (unacked_data s - (b - a)) (set_log L' s))) g
            /\ lookup id (send (put id y (set_unacked_data (unacked_data s - (b - a)) (set_log L' s)))) = Some (Some y)).
  { intros y Hy Hr Hn3. split.
    - eapply HInvL_ext; [|apply (hinv_relog L L' s g id x y (- (b - a)) H Lk)].
      + unfold hcore, put. autorewrite with st.
        replace (unacked_data s + - (b - a)) with (unacked_data s - (b - a)) by lia. reflexivity.
      + intros i Hi. eapply feq_take_other; [exact G|congruence].
      + intros j i a' b' fin' Hl'. left. destruct (log_get_spec _ _ _ _ G) as (_ & Bl & _). apply Bl in Hl'. tauto.
      + eapply live_id_facts; eauto.
      + eapply bufok_eq; [exact Hy|exact Hr| |exact Hb1]. intros _. rewrite Est. lia.
      + destruct Hy as (Y1 & Y2 & Y3 & Y4 & Y5). cbn [ucontrib] in *.
        rewrite Y2, Y4. rewrite Est in Hu1. rewrite E3 in *.
        destruct (s_state y =? 3) eqn:Ey; [lia|]. lia.
      + intros Hc. lia.
    - rewrite lookup_put. autorewrite with st. rewrite Z.eqb_refl, Lk. reflexivity. }
  set (s0 := set_unacked_data (unacked_data s - (b - a)) (set_log L' s)) in *.
  assert (Hlog : forall y, log (put id y s0) = L') by (intros y; unfold put, s0; autorewrite with st; reflexivity).
  destruct ((s_state x1 =? 1) || (s_state x1 =? 2)) eqn:Eds.
  - set (y := set_s_state (if (s_state x1 =? 2) || fin then 2 else 1) x1) in *.
    assert (Hy : buf_eq x1 y) by (subst y; sb).
    assert (Hyr : 0 <= s_state y <= 3 /\ s_state y <> 3) by (subst y; autorewrite with st; destr_if; lia).
    destruct (Hput y Hy (proj1 Hyr) (proj2 Hyr)) as (Hp1 & Lp1).
    destruct (((s_state x1 =? 2) || fin) && (s_ulen y =? 0)) eqn:Efin.
    + (* finished and fully acknowledged: the stream is removed *)
      destruct (stream_freed _) as [s2|] eqn:SF; [|discriminate].
      injection F as <- _.
      assert (Hrem : HInvL L' (set_send (remove id (send (put id y s0))) (put id y s0)) g).
      { apply (hinv_remove L' (put id y s0) g id y Hp1).
        - unfold put. autorewrite with st. rewrite keys_update. unfold s0. autorewrite with st. exact N.
        - exact Lp1.
        - cbn [ucontrib]. destruct (s_state y =? 3); [reflexivity|].
          assert (s_ulen y = 0) by lia. destruct Hy as (_ & Y2 & _ & Y4 & _).
          rewrite Y4, Hz by lia. cbn. lia. }
      unfold stream_freed in SF. destruct (send_streams _ <? 1); [discriminate|]. injection SF as <-.
      split; [|unfold s0; autorewrite with st; reflexivity].
      eapply HInvL_ext; [|exact Hrem].
      unfold hcore, put, s0. autorewrite with st.
      assert (remove id (update id (Some y) (send s)) = remove id (send s)) as ->.
      { clear. induction (send s) as [|[q w] t IH]; cbn [update remove]; [reflexivity|].
        destruct (q =? id) eqn:E; cbn [remove]; rewrite E; [reflexivity|]. f_equal. exact IH. }
      reflexivity.
    + injection F as <- _. split; [exact Hp1|apply Hlog].
  - injection F as <- _.
    destruct (Hput x1 ltac:(sb) ltac:(lia) ltac:(lia)) as (Hp1 & _). split; [exact Hp1|apply Hlog].
Qed.

(** [retransmit] (a frame was lost) after the frame was taken out of the log. *)
Lemma lost_hinv L L' k id a b fin s g s' r :
  log_get k L = Some ((id, a, b, fin), L') -> HInvL L s g -> g.(g_phase) = 2 ->
  do_lost (id, a, b, fin) (set_log L' s) = Some (s', r) ->
  HInvL L' s' g /\ log s' = L'.
Proof.
  intros G H Hp F. unfold do_lost, ok in F. autorewrite with st in F.
  destruct (log_get_spec _ _ _ _ G) as (Hl & Bl & _).
  destruct (lookup id (send s)) as [[x|]|] eqn:Lk.
  2:{ injection F as <- _. split; [|autorewrite with st; reflexivity].
      eapply HInvL_ext; [|eapply hinv_take; eauto; intros z Hz; congruence]. hcore_eq. }
  2:{ injection F as <- _. split; [|autorewrite with st; reflexivity].
      eapply HInvL_ext; [|eapply hinv_take; eauto; intros z Hz; congruence]. hcore_eq. }
  destruct (s_unsent x <? b); [discriminate|]. cbv zeta in F. injection F as <- _.
  pose proof (h_buf _ _ _ H id x Lk) as Hb.
  set (y := set_s_retx (rs_add a b (s_retx x)) (set_s_fin_pending (s_fin_pending x || fin) x)) in *.
  assert (Hy : HInvL L' (put id y s) g).
  { eapply HInvL_ext; [|apply (hinv_relog L L' s g id x y 0 H Lk)].
    - unfold hcore, put. autorewrite with st. rewrite Z.add_0_r. reflexivity.
    - intros i Hi. eapply feq_take_other; [exact G|congruence].
    - intros j i a' b' fin' Hl'. left. apply Bl in Hl'. tauto.
    - eapply live_id_facts; eauto.
    - subst y. eapply bufok_lost; eauto.
    - subst y. cbn [ucontrib]. autorewrite with st. lia.
    - intros Hc. lia. }
  split.
  - destruct (is_pending x).
    + eapply HInvL_ext; [|exact Hy]. hcore_eq.
    + eapply HInvL_ext; [|exact Hy]. hcore_eq.
  - destruct (is_pending x); unfold put, push_pending; autorewrite with st; reflexivity.
Qed.

Lemma reset_acked_hinv L s g id s' r :
  HInvL L s g -> NoDup (keys s.(send)) -> do_reset_acked id s = Some (s', r) ->
  HInvL L s' g /\ log s' = log s.
Proof.
  intros H N F. unfold do_reset_acked, ok in F.
  destruct (lookup id (send s)) as [[x|]|] eqn:Lk; try (injection F as <- _; auto).
  destruct (s_state x =? 3) eqn:E3; [|injection F as <- _; auto].
  destruct (stream_freed _) as [s2|] eqn:SF; [|discriminate]. injection F as <- _.
  unfold stream_freed in SF. destruct (send_streams _ <? 1); [discriminate|]. injection SF as <-.
  split; [|autorewrite with st; reflexivity].
  eapply HInvL_ext; [|apply (hinv_remove L s g id x H N Lk)].
  - hcore_eq.
  - cbn [ucontrib]. rewrite E3. reflexivity.
Qed.

(** One STREAM frame leaves: [poll_transmit]. *)
Lemma vsize_bound x : 1 <= vsize x <= 8.
Proof. unfold vsize. destr_if; lia. Qed.

Lemma bufok_tx L id x m a b enc x1 fin :
  BufOK L id x -> x.(s_state) <> 3 -> 17 <= m -> poll_transmit m x = (a, b, enc, x1) ->
  BufOK (L ++ [Some (id, a, b, fin)]) id x1
  /\ ucontrib (Some x1) = ucontrib (Some x)
  /\ s_acks x1 = s_acks x /\ s_ulen x1 = s_ulen x /\ s_offset x1 = s_offset x
  /\ s_state x1 = s_state x /\ (s_retx x = [] -> s_retx x1 = []).
Proof.
  intros [A B C D F] Hs Hm P. destruct (F Hs) as [A1 A2 A3 A4 A5 A6 A7 A8 A9 A10].
  unfold base in *. set (bs := s_offset x - s_ulen x) in *.
  unfold poll_transmit in P.
  destruct (s_retx x) as [|[rs re] t] eqn:Rx.
  - (* new data *)
    set (u := s_unsent x) in *.
    pose proof (vsize_bound u) as Hv.
    set (m1 := if u =? 0 then m else m - vsize u) in *.
    assert (Hm1 : 9 <= m1) by (subst m1; destr_if; lia).
    set (enc0 := s_offset x - u <? m1) in *.
    set (m2 := if enc0 then m1 - 8 else m1) in *.
    assert (Hm2 : 1 <= m2) by (subst m2; destr_if; lia).
    set (e := Z.min (s_offset x) (m2 + u)) in *.
    injection P; intros Q1 Q2 Q3 Q4; clear P; subst a b x1; clear Q2.
    assert (He : u <= e <= s_offset x) by (subst e; lia).
    split; [|autorewrite with st; cbn [ucontrib]; autorewrite with st; repeat split; auto].
    constructor; unfold base; autorewrite with st; fold bs; try lia.
    + intros k a' b' fin' Hl. apply live_snoc in Hl. destruct Hl as [Hl|(_ & Hl)].
      * destruct (D _ _ _ _ Hl). lia.
      * injection Hl as -> ->. lia.
    + intros _. constructor; unfold base; autorewrite with st; fold bs; rewrite ?Rx; auto.
      * intros y Hc. specialize (A2 y Hc). lia.
      * intros y Hc. destruct (covers_nil _ Hc).
      * intros k a' b' fin' Hl Hlt. apply live_snoc in Hl. destruct Hl as [Hl|(_ & Hl)].
        -- eapply A5; eauto.
        -- injection Hl as -> ->. fold u. lia.
      * intros k a' b' fin' y Hl Hy Hc. apply live_snoc in Hl. destruct Hl as [Hl|(_ & Hl)].
        -- eapply A7; eauto.
        -- injection Hl as -> ->. specialize (A2 y Hc). fold u in A2. lia.
      * intros k a' b' fin' y Hl Hy Hc. destruct (covers_nil _ Hc).
      * intros k k' a1 b1 f1 a2 b2 f2 y H1 H2 Hk Hy1 Hy2.
        apply live_snoc in H1. apply live_snoc in H2.
        destruct H1 as [H1|(K1 & H1)]; destruct H2 as [H2|(K2 & H2)].
        -- eapply A9; eauto.
        -- injection H2 as -> ->. destruct (D _ _ _ _ H1). fold u in H0. lia.
        -- injection H1 as -> ->. destruct (D _ _ _ _ H2). fold u in H0. lia.
        -- lia.
      * rewrite flen_snoc. cbn [fcontrib rs_total]. rewrite Z.eqb_refl.
        cbn [rs_total] in A10. fold u in A10. lia.
  - (* retransmission of a lost range *)
    pose proof (vsize_bound rs) as Hv.
    set (m1 := if rs =? 0 then m else m - vsize rs) in *.
    assert (Hm1 : 9 <= m1) by (subst m1; destr_if; lia).
    set (enc0 := re - rs <? m1) in *.
    set (m2 := if enc0 then m1 - 8 else m1) in *.
    assert (Hm2 : 1 <= m2) by (subst m2; destr_if; lia).
    set (e := Z.min re (m2 + rs)) in *.
    cbn [W] in A3. destruct A3 as (R1 & R2 & R3).
    assert (He : rs < e <= re) by (subst e; lia).
    assert (Hre : re <= s_unsent x).
    { assert (re - 1 < s_unsent x) by (apply A4; apply covers_cons; left; lia). lia. }
    assert (Ht : forall y, covers t y -> re + 1 <= y) by (intros y; apply W_covers_ge; exact R3).
    set (retx' := if e =? re then t else rs_add e re t) in *.
    assert (Hc' : forall y, covers retx' y <-> covers t y \/ e <= y < re).
    { intros y. subst retx'. destruct (e =? re) eqn:Ee.
      - split; [auto|]. intros [H|H]; [exact H|lia].
      - apply rs_add_covers. }
    assert (Hsub : forall y, covers retx' y -> covers ((rs, re) :: t) y).
    { intros y Hc. apply Hc' in Hc. apply covers_cons. destruct Hc; [auto|left; lia]. }
    assert (Hw' : W bs retx').
    { subst retx'. destruct (e =? re); [eapply W_weaken; [|exact R3]; lia|].
      apply rs_add_W; [lia|]. eapply W_weaken; [|exact R3]. lia. }
    assert (Htot : rs_total retx' = rs_total t + (re - e)).
    { subst retx'. destruct (e =? re) eqn:Ee; [lia|].
      eapply rs_add_total; [exact R3|lia|]. intros y Hy Hc. specialize (Ht y Hc). lia. }
    injection P; intros Q1 Q2 Q3 Q4; clear P; subst a b x1; clear Q2.
    split; [|autorewrite with st; cbn [ucontrib]; autorewrite with st; repeat split; auto; discriminate].
    constructor; unfold base; autorewrite with st; fold bs; try lia.
    + intros k a' b' fin' Hl. apply live_snoc in Hl. destruct Hl as [Hl|(_ & Hl)].
      * apply (D _ _ _ _ Hl).
      * injection Hl as -> ->. lia.
    + intros _. constructor; unfold base; autorewrite with st; fold bs; fold retx'; auto.
      * intros k a' b' fin' Hl Hlt. apply live_snoc in Hl. destruct Hl as [Hl|(_ & Hl)].
        -- eapply A5; eauto.
        -- injection Hl as -> ->. lia.
      * intros y Ha Hc. apply (A6 y Ha). apply Hsub. exact Hc.
      * intros k a' b' fin' y Hl Hy Hc. apply live_snoc in Hl. destruct Hl as [Hl|(_ & Hl)].
        -- eapply A7; eauto.
        -- injection Hl as -> ->. apply (A6 y Hc). apply covers_cons. left. lia.
      * intros k a' b' fin' y Hl Hy Hc. apply live_snoc in Hl. destruct Hl as [Hl|(_ & Hl)].
        -- eapply A8; [exact Hl|exact Hy|]. apply Hsub. exact Hc.
        -- injection Hl as -> ->. apply Hc' in Hc. destruct Hc as [Hc|Hc]; [specialize (Ht y Hc)|]; lia.
      * intros k k' a1 b1 f1 a2 b2 f2 y H1 H2 Hk Hy1 Hy2.
        apply live_snoc in H1. apply live_snoc in H2.
        destruct H1 as [H1|(K1 & H1)]; destruct H2 as [H2|(K2 & H2)].
        -- eapply A9; eauto.
        -- injection H2 as -> ->. eapply (A8 _ _ _ _ y H1 Hy1). apply covers_cons. left. lia.
        -- injection H1 as -> ->. eapply (A8 _ _ _ _ y H2 Hy2). apply covers_cons. left. lia.
        -- lia.
      * rewrite flen_snoc. cbn [fcontrib]. rewrite Z.eqb_refl. rewrite Htot.
        cbn [rs_total] in A10. lia.
Qed.

Definition KeysOK (s : State) : Prop :=
  forall id, In id (keys s.(send)) ->
    0 <= id /\ (id_init id = s.(side) -> id_index id < get_next (id_dir id) s).

Lemma keysok_ext s s' :
  side s' = side s -> keys (send s') = keys (send s) -> next_bi s' = next_bi s -> next_uni s' = next_uni s ->
  KeysOK s -> KeysOK s'.
Proof. intros E1 E2 E3 E4 K id. unfold get_next. rewrite E1, E2, E3, E4. apply K. Qed.

Lemma tx_loop_hinv g L0 fuel : forall maxb buf s acc s' buf' fs okf,
  HInvL (L0 ++ map (@Some Frame) acc) s g -> KeysOK s ->
  tx_loop fuel maxb buf s acc = (s', buf', fs, okf) ->
  HInvL (L0 ++ map (@Some Frame) fs) s' g /\ log s' = log s.
Proof.
  induction fuel as [|fuel IH]; intros maxb buf s acc s' buf' fs okf H K T; cbn [tx_loop] in T.
  - injection T as <- _ <- _. auto.
  - destruct (buf + 25 <? maxb) eqn:Eb; [|injection T as <- _ <- _; auto].
    destruct (pendq s) as [|id q] eqn:Pq; [injection T as <- _ <- _; auto|].
    assert (H1 : HInvL (L0 ++ map (@Some Frame) acc) (set_pendq q s) g)
      by (eapply HInvL_ext; [|exact H]; hcore_eq).
    assert (K1 : KeysOK (set_pendq q s))
      by (eapply keysok_ext; [| | | |exact K]; autorewrite with st; reflexivity).
    assert (Lg1 : log (set_pendq q s) = log s) by (autorewrite with st; reflexivity).
    destruct (lookup id (send (set_pendq q s))) as [[x|]|] eqn:Lk.
    2:{ destruct (IH _ _ _ _ _ _ _ _ H1 K1 T) as (A & B). split; [exact A|congruence]. }
    2:{ destruct (IH _ _ _ _ _ _ _ _ H1 K1 T) as (A & B). split; [exact A|congruence]. }
    destruct (s_state x =? 3) eqn:E3.
    { destruct (IH _ _ _ _ _ _ _ _ H1 K1 T) as (A & B). split; [exact A|congruence]. }
    destruct (poll_transmit (maxb - buf - 1 - vsize id) x) as [[[a b] enc] x1] eqn:P.
    set (fin := (b =? s_offset x1) && ((s_state x1 =? 1) || (s_state x1 =? 2))) in *.
    set (x2 := if fin then set_s_fin_pending false x1 else x1) in *.
    pose proof (vsize_bound id) as Hv.
    destruct (bufok_tx (L0 ++ map (@Some Frame) acc) id x (maxb - buf - 1 - vsize id) a b enc x1 fin
                (h_buf _ _ _ H1 id x Lk) ltac:(lia) ltac:(lia) P)
      as (Bx1 & Ux1 & Ea & Eu & Eo & Es & Er).
    assert (Hsb : same_buf x1 x2) by (subst x2; destruct fin; sb).
    set (L' := L0 ++ map (@Some Frame) (acc ++ [(id, a, b, fin)])).
    assert (EL : L' = (L0 ++ map (@Some Frame) acc) ++ [Some (id, a, b, fin)])
      by (subst L'; rewrite map_app, app_assoc; reflexivity).
    assert (H2 : HInvL L' (put id x2 (set_pendq q s)) g).
    { eapply HInvL_ext; [|apply (hinv_relog (L0 ++ map (@Some Frame) acc) L' (set_pendq q s) g id x x2 0 H1 Lk)].
      - unfold hcore, put. autorewrite with st. rewrite Z.add_0_r. reflexivity.
      - intros i Hi. rewrite EL. apply feq_snoc_other. congruence.
      - intros k i a' b' fin' Hl. rewrite EL in Hl. apply live_snoc in Hl.
        destruct Hl as [Hl|(_ & Hl)]; [auto|]. right. congruence.
      - apply K1. eapply lookup_in_keys. exact Lk.
      - rewrite EL. eapply bufok_same; [exact Hsb|exact Bx1].
      - destruct Hsb as (S1 & S2 & S3 & S4 & S5 & S6). cbn [ucontrib] in *.
        rewrite S2, S4, S6. lia.
      - intros Hp. destruct (h_early _ _ _ H1 Hp id x Lk) as (X1 & X2 & X3).
        destruct Hsb as (S1 & S2 & S3 & S4 & S5 & S6). rewrite S4, S5, S2, S1, Ea, Eu, Eo.
        auto. }
    match type of T with tx_loop _ _ _ ?st _ = _ =>
      assert (H3 : HInvL L' st g /\ KeysOK st /\ log st = log s) end.
    { destruct (is_pending x2).
      - split; [eapply HInvL_ext; [|exact H2]; hcore_eq|]. split.
        + eapply keysok_ext; [| | | |exact K1]; unfold put, push_pending; autorewrite with st;
            try reflexivity. apply keys_update.
        + unfold put, push_pending. autorewrite with st. reflexivity.
      - split; [exact H2|]. split.
        + eapply keysok_ext; [| | | |exact K1]; unfold put; autorewrite with st; try reflexivity.
          apply keys_update.
        + unfold put. autorewrite with st. reflexivity. }
    destruct H3 as (H3 & K3 & Lg3).
    destruct (IH _ _ _ _ _ _ _ _ H3 K3 T) as (A & B). split; [exact A|congruence].
Qed.

Lemma transmit_hinv s g maxb s' r :
  HInv s g -> Inv s g -> do_transmit maxb s = Some (s', r) -> HInv s' g.
Proof.
  intros H I F. unfold do_transmit, ok in F. unfold HInv in *.
  destruct (tx_loop _ maxb 0 s []) as [[[s1 buf] fs] okf] eqn:T.
  assert (H0 : HInvL (log s ++ map (@Some Frame) []) s g) by (cbn [map]; rewrite app_nil_r; exact H).
  destruct (tx_loop_hinv g (log s) _ _ _ _ _ _ _ _ _ H0 (i_keys _ _ I) T) as (A & B).
  injection F as <- _. autorewrite with st. rewrite B. eapply HInvL_ext; [|exact A]. hcore_eq.
Qed.

(** After a rejection (phase 1) the map holds no stream state at all. *)
Lemma phase1_no_streams s g k x :
  Inv s g -> g.(g_phase) = 1 -> lookup k s.(send) = Some (Some x) -> False.
Proof.
  intros I Hp Lk.
  destruct (i_early _ _ I ltac:(lia)) as (M1 & _ & _ & M4).
  destruct (M4 Hp) as (N1 & N2 & _).
  destruct (i_keys _ _ I k (lookup_in_keys _ _ _ Lk)) as (K2 & K3).
  destruct (Z.eq_dec (id_init k) (side s)) as [El|El].
  - specialize (K3 El). unfold get_next, id_index in K3. destr_if; lia.
  - specialize (M1 _ _ Lk El). discriminate.
Qed.

Lemma reject_hinv s s' g' :
  do_reject s = Some s' -> Inv s' g' -> g'.(g_phase) = 1 -> HInv s' g'.
Proof.
  intros R I Hp. unfold HInv.
  assert (Hlog : forall k f, ~ live (log s') k f).
  { unfold do_reject, reject_with in R.
    destruct (remove_locals _ _ _ _) as [m1|]; [|discriminate].
    destruct (remove_locals _ _ _ m1) as [m2|]; [|discriminate].
    injection R as <-. autorewrite with st. intros k f. apply live_dead. }
  constructor.
  - intros id x Lk. destruct (phase1_no_streams _ _ _ _ I Hp Lk).
  - intros k id a b fin Hl. destruct (Hlog _ _ Hl).
  - destruct (i_early _ _ I ltac:(lia)) as (_ & _ & _ & M4). destruct (M4 Hp) as (_ & _ & _ & _ & N5 & _).
    rewrite N5. unfold usum. symmetry. apply msum_zero. intros k v Hin.
    destruct v as [x|]; [|reflexivity]. exfalso.
    eapply (phase1_no_streams s' g' k x I Hp). apply In_lookup; [exact (i_nodup _ _ I)|exact Hin].
  - intros _ id x Lk. destruct (phase1_no_streams _ _ _ _ I Hp Lk).
Qed.

(** [set_params] in the early phases does not touch the stream map. *)
Lemma params_hinv s g p g' :
  HInv s g -> Inv s g -> g.(g_phase) <> 2 -> g'.(g_phase) = 2 -> HInv (do_set_params p s) g'.
Proof.
  intros H I Hp Hp'. unfold HInv in *.
  destruct (i_early _ _ I Hp) as (M1 & _).
  pose proof (set_remote_limits_id (side s) (p_sd_bidi_local p) _ (i_nodup _ _ I) M1) as Hrl.
  assert (Hl : log (do_set_params p s) = log s) by reflexivity.
  rewrite Hl. eapply hinv_ghost; [exact Hp'|].
  eapply HInvL_ext; [|exact H]. unfold hcore. autorewrite with sp. rewrite Hrl. reflexivity.
Qed.

(** [retransmit_all_for_0rtt] in the 0-RTT phase. *)
Definition EarlyBuf (y : Send) : Prop :=
  y.(s_acks) = [] /\ y.(s_retx) = [] /\ y.(s_ulen) = y.(s_offset) /\ 0 <= y.(s_ulen)
  /\ 0 <= y.(s_unsent) <= y.(s_offset) /\ 0 <= y.(s_state) <= 3.

Definition AllEarly (s : State) : Prop :=
  forall k y, lookup k s.(send) = Some (Some y) -> EarlyBuf y.

Lemma retry_stream_spec fixed id s s' :
  retry_stream fixed id s = Some s' -> AllEarly s ->
  AllEarly s'
  /\ (forall k, k <> id -> lookup k s'.(send) = lookup k s.(send))
  /\ (forall y, lookup id s'.(send) = Some (Some y) -> s_unsent y = 0)
  /\ (lookup id s'.(send) = None <-> lookup id s.(send) = None)
  /\ usum s'.(send) = usum s.(send)
  /\ hcore s' = (side s, send s', unacked_data s, next_bi s, next_uni s)
  /\ log s' = log s /\ keys (send s') = keys (send s).
Proof.
  intros R P. unfold retry_stream in R.
  destruct (lookup id (send s)) as [[x|]|] eqn:Lk.
  2:{ injection R as <-. split; [exact P|]. rewrite Lk. repeat split; auto; try tauto; try (intros; discriminate); try reflexivity. }
  2:{ injection R as <-. split; [exact P|]. rewrite Lk. repeat split; auto; try tauto; try (intros; discriminate); try reflexivity. }
  destruct (P id x Lk) as (X1 & X2 & X3 & X4 & X5 & X6).
  set (quiet := (s_ulen x =? 0) && negb (s_fin_pending x)) in *.
  destruct (quiet && negb (fixed && ((s_state x =? 1) || (s_state x =? 2)))) eqn:Q.
  { injection R as <-. split; [exact P|]. split; [auto|]. split.
    - intros y Ly. rewrite Lk in Ly. injection Ly as <-.
      assert (quiet = true) by (destruct quiet; [reflexivity|discriminate]). subst quiet. lia.
    - rewrite Lk. repeat split; auto; try tauto; try (intros; discriminate); try reflexivity. }
  set (x1 := if quiet then set_s_fin_pending true x else x) in *.
  assert (E1 : buf_eq x x1 /\ s_state x1 = s_state x) by (subst x1; destruct quiet; split; sb).
  destruct E1 as ((Y1 & Y2 & Y3 & Y4 & Y5) & Y6).
  destruct (s_offset x1 =? s_ulen x1); [|discriminate]. injection R as <-.
  set (y := set_s_unsent 0 x1) in *.
  match goal with |- AllEarly (put id y ?t) /\ _ => set (s0 := t) in * end.
  assert (L0 : lookup id (send s0) = Some (Some x)) by (subst s0; destr_if; unfold push_pending; autorewrite with st; exact Lk).
  assert (Ls : send s0 = send s) by (subst s0; destr_if; unfold push_pending; autorewrite with st; reflexivity).
  assert (Ey : EarlyBuf y).
  { subst y. unfold EarlyBuf. autorewrite with st. rewrite Y4, Y5, Y2, Y1, Y6. repeat split; auto; lia. }
  split.
  { intros k z Lz. rewrite lookup_put in Lz. destruct (k =? id).
    - rewrite L0 in Lz. injection Lz as <-. exact Ey.
    - rewrite Ls in Lz. eapply P; eauto. }
  split. { intros k Hk. rewrite lookup_put. destruct (k =? id) eqn:E; [lia|]. rewrite Ls. reflexivity. }
  split. { intros z Lz. rewrite lookup_put, Z.eqb_refl, L0 in Lz. injection Lz as <-. subst y. autorewrite with st. reflexivity. }
  split. { rewrite lookup_put, Z.eqb_refl, L0. split; discriminate. }
  split.
  { rewrite (usum_put id (Some x) y s0 L0). rewrite Ls. cbn [ucontrib]. subst y. autorewrite with st.
    rewrite Y6, Y2, Y4. lia. }
  split. { subst s0. unfold hcore, put. destr_if; unfold push_pending; autorewrite with st; reflexivity. }
  split. { subst s0. unfold put. destr_if; unfold push_pending; autorewrite with st; reflexivity. }
  unfold put. autorewrite with st. rewrite keys_update, Ls. reflexivity.
Qed.

Lemma retry_dir_spec fixed d n : forall s s',
  retry_dir fixed d n s = Some s' -> AllEarly s -> 0 <= d <= 1 ->
  AllEarly s'
  /\ (forall k, (forall i, 0 <= i < Z.of_nat n -> k <> sid 0 d i) -> lookup k s'.(send) = lookup k s.(send))
  /\ (forall i y, 0 <= i < Z.of_nat n -> lookup (sid 0 d i) s'.(send) = Some (Some y) -> s_unsent y = 0)
  /\ usum s'.(send) = usum s.(send)
  /\ side s' = side s /\ unacked_data s' = unacked_data s /\ next_bi s' = next_bi s
  /\ next_uni s' = next_uni s /\ log s' = log s /\ keys (send s') = keys (send s).
Proof.
  induction n as [|n IH]; intros s s' R P Hd; cbn [retry_dir] in R.
  - injection R as <-. split; [exact P|]. repeat split; auto. intros i y Hi. lia.
  - destruct (retry_dir fixed d n s) as [s1|] eqn:R1; [|discriminate].
    destruct (IH _ _ R1 P Hd) as (P1 & A1 & B1 & U1 & E1 & E2 & E3 & E4 & E5 & E6).
    destruct (retry_stream_spec _ _ _ _ R P1) as (P2 & A2 & B2 & _ & U2 & Hc & E7 & E8).
    unfold hcore in Hc. injection Hc as C1 C3 C4 C5.
    split; [exact P2|]. split; [|split; [|repeat split; congruence]].
    + intros k Hk. rewrite A2 by (apply Hk; lia). apply A1. intros i Hi. apply Hk. lia.
    + intros i y Hi Ly. destruct (Z.eq_dec i (Z.of_nat n)) as [->|Hn].
      * apply B2. exact Ly.
      * rewrite A2 in Ly by (unfold sid; lia). apply (B1 i y); [lia|exact Ly].
Qed.

Lemma hinv_allearly s g : HInv s g -> g.(g_phase) <> 2 -> AllEarly s.
Proof.
  intros H Hp k y Lk. destruct (h_early _ _ _ H Hp k y Lk) as (X1 & X2 & X3).
  destruct (h_buf _ _ _ H k y Lk) as [A B C D F]. unfold base in *.
  unfold EarlyBuf. repeat split; auto; lia.
Qed.

Lemma bufok_dead_early L id y :
  EarlyBuf y -> s_unsent y = 0 -> BufOK (map (fun _ : option Frame => None) L) id y.
Proof.
  intros (X1 & X2 & X3 & X4 & X5 & X6) Hu.
  constructor; unfold base; try lia.
  - intros k a b fin Hl. destruct (live_dead _ _ _ Hl).
  - intros _. constructor; unfold base; rewrite ?X1, ?X2; cbn [W rs_total]; auto.
    + intros y0 Hc. destruct (covers_nil _ Hc).
    + intros y0 Hc. destruct (covers_nil _ Hc).
    + intros k a b fin Hl. destruct (live_dead _ _ _ Hl).
    + intros y0 Hc. destruct (covers_nil _ Hc).
    + intros k a b fin y0 Hl. destruct (live_dead _ _ _ Hl).
    + intros k a b fin y0 Hl. destruct (live_dead _ _ _ Hl).
    + intros k k' a b fin a' b' fin' y0 Hl. destruct (live_dead _ _ _ Hl).
    + rewrite flen_dead. lia.
Qed.

Lemma retry_hinv s g s' :
  HInv s g -> Inv s g -> g.(g_phase) = 0 -> s.(side) = 0 -> do_retry s = Some s' -> HInv s' g.
Proof.
  intros H I Hp Hsd R. unfold do_retry, retry_with in R.
  destruct (retry_dir RETRY_FIXED 0 (Z.to_nat (next_bi s)) s) as [s1|] eqn:R1; [|discriminate].
  destruct (retry_dir RETRY_FIXED 1 (Z.to_nat (next_uni s1)) s1) as [s2|] eqn:R2; [|discriminate].
  injection R as <-.
  pose proof (hinv_allearly _ _ H ltac:(lia)) as P0.
  destruct (retry_dir_spec _ _ _ _ _ R1 P0 ltac:(lia)) as (P1 & A1 & B1 & U1 & E1 & E2 & E3 & E4 & E5 & E6).
  destruct (retry_dir_spec _ _ _ _ _ R2 P1 ltac:(lia)) as (P2 & A2 & B2 & U2 & F1 & F2 & F3 & F4 & F5 & F6).
  destruct (i_early _ _ I ltac:(lia)) as (M1 & _).
  destruct (i_cnt _ _ I 0 ltac:(lia)) as (N0 & _). destruct (i_cnt _ _ I 1 ltac:(lia)) as (N1 & _).
  unfold get_next in N0, N1. red_eqb_in N0. red_eqb_in N1. cbv iota in N0, N1.
  (* every stream state of the result belongs to a visited local stream *)
  assert (Hz : forall k y, lookup k (send s2) = Some (Some y) -> EarlyBuf y /\ s_unsent y = 0).
  { intros k y Lk. split; [eapply P2; eauto|].
    assert (Hin : In k (keys (send s))) by (rewrite <- E6, <- F6; eapply lookup_in_keys; eauto).
    destruct (i_keys _ _ I k Hin) as (K2 & K3).
    destruct (Z.eq_dec (id_init k) (side s)) as [El|El].
    - specialize (K3 El). pose proof (sid_decompose k K2) as Hd. rewrite El, Hsd in Hd.
      assert (0 <= id_index k) by (unfold id_index; lia).
      unfold get_next in K3.
      assert (id_dir k = 0 \/ id_dir k = 1) as [Ed|Ed] by (unfold id_dir; lia); rewrite Ed in *;
        red_eqb_in K3; cbv iota in K3.
      + (* bidirectional: visited by the first pass, untouched by the second *)
        rewrite A2 in Lk by (intros i Hi E; rewrite Hd in E; unfold sid in E; lia).
        rewrite Hd in Lk. apply (B1 (id_index k) y); [lia|exact Lk].
      + rewrite Hd in Lk. apply (B2 (id_index k) y); [rewrite E4; lia|exact Lk].
    - exfalso.
      rewrite A2 in Lk by (intros i Hi E; subst k; rewrite id_init_sid in El; lia).
      rewrite A1 in Lk by (intros i Hi E; subst k; rewrite id_init_sid in El; lia).
      specialize (M1 _ _ Lk El). discriminate. }
  unfold HInv. autorewrite with st.
  constructor; unfold get_next; autorewrite with st.
  - intros k y Lk. destruct (Hz k y Lk). apply bufok_dead_early; assumption.
  - intros k i a b fin Hl. destruct (live_dead _ _ _ Hl).
  - rewrite F2, E2, U2, U1. exact (h_usum _ _ _ H).
  - intros _ k y Lk. destruct (Hz k y Lk) as ((X1 & X2 & X3 & _) & _). auto.
Qed.

(* ------------------------------------------------------------------------------------------ *)
(** * [send_streams] accounting *)

(** [kq s s']: same keys, side, accept counter and [send_streams]; no stream left the Ready state. *)
Definition kq (s s' : State) : Prop :=
  side s' = side s /\ keys (send s') = keys (send s)
  /\ next_reported_bi s' = next_reported_bi s /\ send_streams s' = send_streams s
  /\ forall id y, lookup id (send s') = Some (Some y) -> s_state y <> 0 ->
       exists x, lookup id (send s) = Some (Some x) /\ s_state x <> 0.

Lemma kq_refl s : kq s s.
Proof. repeat split; auto. intros id y L H. exists y. auto. Qed.

Lemma kq_trans a b c : kq a b -> kq b c -> kq a c.
Proof.
  intros (A1 & A2 & A3 & A4 & A5) (B1 & B2 & B3 & B4 & B5). repeat split; try congruence.
  intros id y L H. destruct (B5 id y L H) as (x & Lx & Hx). apply (A5 id x Lx Hx).
Qed.

Definition kcore (s : State) := (s.(side), s.(send), s.(next_reported_bi), s.(send_streams)).

Lemma kq_core s s' : kcore s = kcore s' -> kq s s'.
Proof.
  unfold kcore. intros H. injection H as H1 H2 H3 H4. unfold kq. rewrite <- H1, <- H2, <- H3, <- H4.
  apply kq_refl.
Qed.

Ltac kcore_eq :=
  apply kq_core; unfold kcore, put, push_pending, set_next, set_max, set_blocked;
  repeat match goal with |- context [if ?c then _ else _] => destruct c end;
  autorewrite with st; reflexivity.

Lemma kq_put s id x y :
  lookup id (send s) = Some (Some x) -> (s_state y <> 0 -> s_state x <> 0) -> kq s (put id y s).
Proof.
  intros L H. unfold kq, put. autorewrite with st. rewrite keys_update.
  repeat split; auto. intros k z Lz Hz. rewrite lookup_update in Lz. destruct (k =? id) eqn:E.
  - assert (k = id) by lia. subst k. rewrite L in Lz. injection Lz as <-. exists x. auto.
  - exists z. auto.
Qed.

Lemma kq_touch id s x s1 : touch id s = Some (x, s1) ->
  kq s s1 /\ lookup id (send s1) = Some (Some x)
  /\ (lookup id (send s) = Some (Some x) \/ s_state x = 0).
Proof.
  unfold touch. destruct (lookup id (send s)) as [[y|]|] eqn:L; [| |discriminate]; intros E; injection E as <- <-.
  - split; [apply kq_refl|]. auto.
  - split; [|split; [autorewrite with st; rewrite lookup_update, Z.eqb_refl, L; reflexivity|right; reflexivity]].
    unfold kq. autorewrite with st. rewrite keys_update. repeat split; auto.
    intros k z Lz Hz. rewrite lookup_update in Lz. destruct (k =? id) eqn:E.
    + rewrite L in Lz. injection Lz as <-. cbn in Hz. lia.
    + exists z. auto.
Qed.

Lemma sinv_kq s s' g : SInv s g -> kq s s' -> SInv s' g.
Proof.
  intros [A B C D E] (K1 & K2 & K3 & K4 & K5).
  constructor; unfold cnt, counted in *; rewrite ?K1, ?K2, ?K3, ?K4; auto.
  intros id y L Hr Hs. destruct (K5 id y L Hs) as (x & Lx & Hx). eapply D; eauto.
Qed.

Lemma sinv_phase2 s g : SInv s g -> SInv s (mkGhost 2 g.(g_par) g.(g_md) g.(g_msd) g.(g_ms) g.(g_closed)).
Proof. intros [A B C D E]. constructor; auto; cbn; intros Hc; exfalso; apply Hc; reflexivity. Qed.

Lemma sinv_ghost s g g' : (g_phase g' <> 2 -> g_phase g <> 2) -> SInv s g -> SInv s g'.
Proof. intros Hp [A B C D E]. constructor; auto. Qed.

(** The loops *)
Lemma tx_loop_kq fuel : forall maxb buf s acc s' buf' fs okf,
  tx_loop fuel maxb buf s acc = (s', buf', fs, okf) -> kq s s'.
Proof.
  induction fuel as [|fuel IH]; intros maxb buf s acc s' buf' fs okf T; cbn [tx_loop] in T.
  - injection T as <- _ _ _. apply kq_refl.
  - destruct (buf + 25 <? maxb); [|injection T as <- _ _ _; apply kq_refl].
    destruct (pendq s) as [|id q] eqn:Pq; [injection T as <- _ _ _; apply kq_refl|].
    assert (S1 : kq s (set_pendq q s)) by kcore_eq.
    destruct (lookup id (send (set_pendq q s))) as [[x|]|] eqn:L.
    + destruct (s_state x =? 3).
      * eapply kq_trans; [exact S1|eapply IH; exact T].
      * destruct (poll_transmit (maxb - buf - 1 - vsize id) x) as [[[a b] enc] x1] eqn:P.
        destruct (poll_transmit_credit _ _ _ _ _ _ P) as (_ & _ & Ps).
        eapply kq_trans; [exact S1|]. eapply kq_trans; [|eapply IH; exact T].
        match goal with |- kq _ (if ?c then push_pending _ ?t else _) =>
          assert (S2 : kq (set_pendq q s) t) end.
        { eapply kq_put; [exact L|]. destruct ((b =? s_offset x1) && ((s_state x1 =? 1) || (s_state x1 =? 2)));
            autorewrite with st; congruence. }
        destruct (is_pending _); [|exact S2].
        eapply kq_trans; [exact S2|]. kcore_eq.
    + eapply kq_trans; [exact S1|eapply IH; exact T].
    + eapply kq_trans; [exact S1|eapply IH; exact T].
Qed.

Lemma cb_loop_kq st : forall s, kq s (fst (cb_loop st s)).
Proof.
  induction st as [|id t IH]; intros s; cbn [cb_loop].
  - cbn [fst]. kcore_eq.
  - destruct (lookup id (send s)) as [[x|]|] eqn:L; try apply IH.
    assert (S1 : kq s (put id (set_s_cb false x) s))
      by (eapply kq_put; [exact L|]; autorewrite with st; auto).
    destruct ((s_state x =? 0) && (s_offset x <? s_max_data x)).
    + cbn [fst]. eapply kq_trans; [exact S1|]. kcore_eq.
    + eapply kq_trans; [exact S1|apply IH].
Qed.

Lemma retry_stream_kq fixed id s s' : retry_stream fixed id s = Some s' -> kq s s'.
Proof.
  unfold retry_stream. destruct (lookup id (send s)) as [[x|]|] eqn:L;
    try (intros E; injection E as <-; apply kq_refl).
  destruct ((s_ulen x =? 0) && negb (s_fin_pending x) && negb (fixed && ((s_state x =? 1) || (s_state x =? 2))));
    [intros E; injection E as <-; apply kq_refl|].
  match goal with |- context [if ?c then Some ?t else None] => destruct c; [|discriminate] end.
  intros E; injection E as <-.
  match goal with |- kq s (put id ?y ?t) =>
    assert (S0 : kq s t) by (destr_if; try apply kq_refl; kcore_eq);
    assert (L0 : lookup id (send t) = Some (Some x)) by (destr_if; unfold push_pending; autorewrite with st; exact L)
  end.
  eapply kq_trans; [exact S0|]. eapply kq_put; [exact L0|]. destr_if; autorewrite with st; auto.
Qed.

Lemma retry_dir_kq fixed d n : forall s s', retry_dir fixed d n s = Some s' -> kq s s'.
Proof.
  induction n as [|n IH]; intros s s' R; cbn [retry_dir] in R.
  - injection R as <-. apply kq_refl.
  - destruct (retry_dir fixed d n s) as [s1|] eqn:R1; [|discriminate].
    eapply kq_trans; [apply IH; exact R1|eapply retry_stream_kq; exact R].
Qed.

Lemma retry_kq s s' : do_retry s = Some s' -> kq s s'.
Proof.
  unfold do_retry, retry_with.
  destruct (retry_dir RETRY_FIXED 0 (Z.to_nat (next_bi s)) s) as [s1|] eqn:R1; [|discriminate].
  destruct (retry_dir RETRY_FIXED 1 (Z.to_nat (next_uni s1)) s1) as [s2|] eqn:R2; [|discriminate].
  intros E; injection E as <-.
  eapply kq_trans; [eapply retry_dir_kq; exact R1|].
  eapply kq_trans; [eapply retry_dir_kq; exact R2|]. kcore_eq.
Qed.

(** Operations that are [kq] *)
Lemma write_kq id n s s' r : do_write id n s = Some (s', r) -> kq s s'.
Proof.
  unfold do_write. destruct (write_limit s) as [limit|]; [|discriminate].
  destruct (touch id s) as [[x s1]|] eqn:T; [|intros E; injection E as <- _; apply kq_refl].
  destruct (kq_touch _ _ _ _ T) as (K1 & L1 & _).
  intros W. eapply kq_trans; [exact K1|]. unfold ok in W.
  destruct (limit =? 0).
  { destruct (s_cb x); injection W as <- _; [apply kq_refl|].
    eapply kq_trans; [eapply (kq_put s1 id x (set_s_cb true x) L1); autorewrite with st; auto|kcore_eq]. }
  destruct (negb (s_state x =? 0)); [injection W as <- _; apply kq_refl|].
  destruct (s_stop x); [injection W as <- _; apply kq_refl|].
  destruct (s_max_data x <? s_offset x); [discriminate|].
  destruct (s_max_data x - s_offset x =? 0); [injection W as <- _; apply kq_refl|].
  injection W as <- _.
  match goal with |- kq s1 (if _ then ?t else push_pending id ?t) =>
    assert (S2 : kq s1 t) end.
  { eapply kq_trans; [eapply (kq_put s1 id x _ L1)|kcore_eq]. autorewrite with st. auto. }
  destruct (is_pending x); [exact S2|]. eapply kq_trans; [exact S2|kcore_eq].
Qed.

Lemma on_stream_frame_kq id s : kq s (on_stream_frame id s).
Proof. unfold on_stream_frame. destr_if; try apply kq_refl; kcore_eq. Qed.

Lemma stop_sending_kq id code s : kq s (do_stop_sending id code s).
Proof.
  unfold do_stop_sending. destruct (touch id s) as [[x s1]|] eqn:T; [|apply kq_refl].
  destruct (kq_touch _ _ _ _ T) as (K1 & L1 & _). eapply kq_trans; [exact K1|].
  destruct (s_stop x); [apply kq_refl|].
  eapply kq_trans; [|apply on_stream_frame_kq].
  eapply kq_trans; [eapply (kq_put s1 id x (set_s_stop (Some code) x) L1); autorewrite with st; auto|kcore_eq].
Qed.

Lemma max_stream_data_kq id v s s' r : do_max_stream_data id v s = Some (s', r) -> kq s s'.
Proof.
  unfold do_max_stream_data, ok.
  destruct (negb (id_init id =? side s) && (id_dir id =? 1)); [intros E; injection E as <- _; apply kq_refl|].
  destruct (write_limit s) as [wl|]; [|discriminate].
  destruct (touch id s) as [[x s1]|] eqn:T.
  2:{ destr_if; intros E; injection E as <- _; [apply kq_refl|apply on_stream_frame_kq]. }
  destruct (kq_touch _ _ _ _ T) as (K1 & L1 & _).
  intros E; injection E as <- _. eapply kq_trans; [exact K1|]. eapply kq_trans; [|apply on_stream_frame_kq].
  destruct ((s_max_data x <? v) && (s_state x =? 0)); [|apply kq_refl].
  assert (Hp : forall y, s_state y = s_state x -> kq s1 (put id y s1))
    by (intros y Hy; eapply kq_put; [exact L1|]; congruence).
  destruct (s_offset x =? s_max_data x); [|apply Hp; autorewrite with st; reflexivity].
  destruct (0 <? wl).
  - eapply kq_trans; [apply (Hp (set_s_max_data v x)); autorewrite with st; reflexivity|kcore_eq].
  - autorewrite with st. destruct (s_cb x); [apply Hp; autorewrite with st; reflexivity|].
    eapply kq_trans; [apply (Hp (set_s_cb true (set_s_max_data v x))); autorewrite with st; reflexivity|kcore_eq].
Qed.

Lemma poll_kq s s' r : do_poll s = Some (s', r) -> kq s s'.
Proof.
  unfold do_poll, pop_event, ok.
  destruct (opened_bi s); [intros E; injection E as <- _; kcore_eq|].
  destruct (write_limit s) as [wl|]; [|discriminate].
  destruct (0 <? wl).
  - pose proof (cb_loop_kq (conn_blocked s) s) as S1.
    destruct (cb_loop (conn_blocked s) s) as [s1 [id|]]; cbn [fst] in S1.
    + intros E; injection E as <- _. exact S1.
    + destruct (events s1); intros E; injection E as <- _; [exact S1|].
      eapply kq_trans; [exact S1|kcore_eq].
  - destruct (events s); intros E; injection E as <- _; [apply kq_refl|kcore_eq].
Qed.

Lemma transmit_kq maxb s s' r : do_transmit maxb s = Some (s', r) -> kq s s'.
Proof.
  unfold do_transmit, ok. destruct (tx_loop _ maxb 0 s []) as [[[s1 buf] fs] okf] eqn:T.
  intros E; injection E as <- _. eapply kq_trans; [eapply tx_loop_kq; exact T|kcore_eq].
Qed.

Lemma lost_kq f s s' r : do_lost f s = Some (s', r) -> kq s s'.
Proof.
  unfold do_lost, ok. destruct f as [[[id a] b] fin].
  destruct (lookup id (send s)) as [[x|]|] eqn:L; try (intros E; injection E as <- _; apply kq_refl).
  destruct (s_unsent x <? b); [discriminate|]. cbv zeta. intros E; injection E as <- _.
  destruct (is_pending x).
  - eapply kq_put; [exact L|]. autorewrite with st. auto.
  - eapply kq_trans; [|eapply kq_put; [unfold push_pending; autorewrite with st; exact L|]; autorewrite with st; auto].
    kcore_eq.
Qed.

(** Counting *)
Lemma cnt_filter_insert f id v m :
  length (filter f (keys (insert id v m))) = (length (filter f (keys m)) + (if f id then 1 else 0))%nat.
Proof.
  induction m as [|[a w] t IH]; cbn [insert keys map fst filter].
  - destruct (f id); cbn; lia.
  - destruct (id <? a); cbn [map fst filter].
    + destruct (f id), (f a); cbn [length]; fold (keys t); lia.
    + fold (keys (insert id v t)). fold (keys t). destruct (f a); cbn [length]; rewrite IH; lia.
Qed.

Lemma cnt_filter_remove f id m :
  NoDup (keys m) -> In id (keys m) ->
  (length (filter f (keys (remove id m))) + (if f id then 1 else 0))%nat = length (filter f (keys m)).
Proof.
  induction m as [|[a w] t IH]; cbn [remove keys map fst filter In]; intros N Hin; [tauto|].
  inversion N as [|? ? Hn Hd]; subst.
  destruct (a =? id) eqn:E.
  - assert (a = id) by lia. subst a. fold (keys t). destruct (f id); cbn [length]; lia.
  - destruct Hin as [Hin|Hin]; [lia|]. cbn [map fst filter]. fold (keys (remove id t)). fold (keys t).
    specialize (IH Hd Hin). destruct (f a); cbn [length]; lia.
Qed.

Lemma filter_le (f f' : Z -> bool) l :
  (forall k, In k l -> f' k = true -> f k = true) ->
  (length (filter f' l) <= length (filter f l))%nat.
Proof.
  induction l as [|a t IH]; intros H; cbn [filter length]; [lia|].
  assert (IH' : (length (filter f' t) <= length (filter f t))%nat)
    by (apply IH; intros k Hk; apply H; right; exact Hk).
  destruct (f' a) eqn:Ea.
  - rewrite (H a (or_introl eq_refl) Ea). cbn [length]. lia.
  - destruct (f a); cbn [length]; lia.
Qed.

Lemma filter_le_one (f f' : Z -> bool) k0 l :
  NoDup l -> (forall k, In k l -> f' k = true -> f k = true \/ k = k0) ->
  (length (filter f' l) <= length (filter f l) + 1)%nat.
Proof.
  induction l as [|a t IH]; intros N H; cbn [filter length]; [lia|].
  inversion N as [|? ? Hn Hd]; subst.
  destruct (Z.eq_dec a k0) as [Ea|Hne].
  - subst a.
    assert (Ht : (length (filter f' t) <= length (filter f t))%nat).
    { apply filter_le. intros k Hk Hf. destruct (H k (or_intror Hk) Hf) as [|E]; [assumption|].
      subst k. contradiction. }
    destruct (f' k0), (f k0); cbn [length]; lia.
  - assert (Ha : f' a = true -> f a = true).
    { intros Ha. destruct (H a (or_introl eq_refl) Ha); [assumption|contradiction]. }
    assert (IH' : (length (filter f' t) <= length (filter f t) + 1)%nat)
      by (apply IH; [exact Hd|intros k Hk; apply H; right; exact Hk]).
    destruct (f' a) eqn:Ea; [rewrite (Ha eq_refl)|destruct (f a)]; cbn [length]; lia.
Qed.

Lemma sinv_open s g d :
  SInv s g -> 0 <= s.(side) <= 1 -> 0 <= d <= 1 -> 0 <= get_next d s ->
  lookup (sid s.(side) d (get_next d s)) s.(send) = None ->
  SInv (set_send_streams (s.(send_streams) + 1)
         (set_send (insert (sid s.(side) d (get_next d s)) None s.(send))
            (set_next d (get_next d s + 1) s))) g.
Proof.
  intros [A B C D E] Hs Hd Hn Ln.
  set (id := sid (side s) d (get_next d s)) in *.
  assert (Hii : id_init id = side s) by (apply id_init_sid; lia).
  assert (Hsd : forall v m, side (set_send_streams v (set_send m (set_next d (get_next d s + 1) s))) = side s)
    by (intros; unfold set_next; destr_if; autorewrite with st; reflexivity).
  assert (Hrp : forall v m, next_reported_bi (set_send_streams v (set_send m (set_next d (get_next d s + 1) s))) = next_reported_bi s)
    by (intros; unfold set_next; destr_if; autorewrite with st; reflexivity).
  constructor; unfold cnt, counted in *; rewrite ?Hsd, ?Hrp; autorewrite with st; auto.
  - rewrite cnt_filter_insert. rewrite Hii, Z.eqb_refl. cbn [orb]. lia.
  - intros k Hk Hr. apply keys_insert in Hk. destruct Hk as [->|Hk]; [congruence|auto].
  - intros k x Lk. rewrite lookup_insert in Lk by exact Ln. destruct (k =? id); [discriminate|].
    eapply D; eauto.
Qed.

Lemma sinv_accept s g :
  SInv s g -> NoDup (keys s.(send)) -> 0 <= s.(side) <= 1 ->
  SInv (set_send_streams (s.(send_streams) + 1) (set_next_reported_bi (s.(next_reported_bi) + 1) s))
       (mkGhost 2 g.(g_par) g.(g_md) g.(g_msd) g.(g_ms) g.(g_closed)).
Proof.
  intros [A B C D E] N Hsd.
  constructor; unfold cnt, counted in *; autorewrite with st; auto; try lia;
    try (cbn; intros Hc; exfalso; apply Hc; reflexivity);
    try (intros id x Lk Hr Hs; specialize (D id x Lk Hr Hs); lia).
  - pose proof (filter_le_one
        (fun k => (id_init k =? side s) || ((id_dir k =? 0) && (id_index k <? next_reported_bi s)))
        (fun k => (id_init k =? side s) || ((id_dir k =? 0) && (id_index k <? next_reported_bi s + 1)))
        (sid (1 - side s) 0 (next_reported_bi s)) (keys (send s)) N) as Hle.
    assert (Hx : forall k, In k (keys (send s)) ->
              (id_init k =? side s) || ((id_dir k =? 0) && (id_index k <? next_reported_bi s + 1)) = true ->
              (id_init k =? side s) || ((id_dir k =? 0) && (id_index k <? next_reported_bi s)) = true
              \/ k = sid (1 - side s) 0 (next_reported_bi s)).
    { intros k Hk Hf.
      destruct (id_init k =? side s) eqn:E1; [left; reflexivity|]. cbn [orb] in *.
      destruct (id_dir k =? 0) eqn:E2; [|discriminate]. cbn [andb] in *.
      destruct (id_index k <? next_reported_bi s) eqn:E3; [left; reflexivity|]. right.
      unfold sid, id_init, id_dir, id_index in *. lia. }
    specialize (Hle Hx). lia.
Qed.

Lemma sinv_remove s g id x :
  SInv s g -> NoDup (keys s.(send)) -> lookup id s.(send) = Some (Some x) -> x.(s_state) <> 0 ->
  1 <= s.(send_streams)
  /\ SInv (set_send_streams (s.(send_streams) - 1) (set_send (remove id s.(send)) s)) g.
Proof.
  intros [A B C D E] N Lk Hs.
  assert (Hin : In id (keys (send s))) by (eapply lookup_in_keys; eauto).
  assert (Hc : counted s id = true).
  { unfold counted. destruct (id_init id =? side s) eqn:E1; [reflexivity|]. cbn [orb].
    assert (Hr : id_init id <> side s) by lia.
    rewrite (C id Hin Hr). red_eqb. cbn [andb]. specialize (D id x Lk Hr Hs). lia. }
  pose proof (cnt_filter_remove (counted s) id (send s) N Hin) as Hf. rewrite Hc in Hf. cbv iota in Hf.
  unfold cnt in A. split; [lia|].
  constructor; unfold cnt, counted in *; autorewrite with st; auto.
  - lia.
  - intros k Hk. apply C. eapply keys_remove_subset. exact Hk.
  - intros k y Ly. destruct (Z.eq_dec k id) as [->|Hn].
    + rewrite lookup_remove_eq in Ly by exact N. discriminate.
    + rewrite lookup_remove_neq in Ly by exact Hn. eapply D; eauto.
Qed.

Lemma sinv_put_app s g id x y :
  SInv s g -> lookup id s.(send) = Some (Some x) ->
  (id_init id <> s.(side) -> id_index id < s.(next_reported_bi)) ->
  SInv (put id y s) g.
Proof.
  intros [A B C D E] Lk Happ.
  constructor; unfold cnt, counted, put in *; autorewrite with st; rewrite ?keys_update; auto.
  intros k z Lz Hr Hs. rewrite lookup_update in Lz. destruct (k =? id) eqn:E1.
  - assert (k = id) by lia. subst k. auto.
  - eapply D; eauto.
Qed.

Lemma SInv_ext s s' g : kcore s = kcore s' -> SInv s g -> SInv s' g.
Proof. intros H I. eapply sinv_kq; [exact I|apply kq_core; exact H]. Qed.

Ltac kcore_eq0 :=
  unfold kcore, put, push_pending, set_next, set_max, set_blocked;
  repeat match goal with |- context [if ?c then _ else _] => destruct c end;
  autorewrite with st; reflexivity.

Lemma app_ok_remote s id x :
  app_ok s id = true -> lookup id s.(send) = Some (Some x) ->
  id_init id <> s.(side) -> id_index id < s.(next_reported_bi).
Proof.
  unfold app_ok, in_map_remote. intros H L Hr. rewrite L in H.
  destruct (id_init id =? side s) eqn:E; [lia|]. cbn [negb andb orb] in H. lia.
Qed.

Lemma finish_sinv s g id s' r :
  SInv s g -> app_ok s id = true -> do_finish id s = Some (s', r) -> SInv s' g.
Proof.
  intros I Ha F. unfold do_finish, ok in F.
  destruct (touch id s) as [[x s1]|] eqn:T; [|injection F as <- _; exact I].
  destruct (kq_touch _ _ _ _ T) as (K1 & L1 & _).
  pose proof (sinv_kq _ _ _ I K1) as I1.
  destruct (s_stop x); [injection F as <- _; exact I1|].
  destruct (s_state x =? 0); [|injection F as <- _; exact I1].
  injection F as <- _.
  assert (Happ : id_init id <> side s1 -> id_index id < next_reported_bi s1).
  { destruct K1 as (E1 & _ & E3 & _). rewrite E1, E3. intros Hr.
    unfold app_ok, in_map_remote in Ha. unfold touch in T.
    destruct (lookup id (send s)) as [[z|]|] eqn:Lz; [| |discriminate];
      destruct (id_init id =? side s) eqn:E; try lia; cbn [negb andb orb] in Ha; lia. }
  pose proof (sinv_put_app s1 g id x (set_s_fin_pending true (set_s_state 1 x)) I1 L1 Happ) as I2.
  destruct (is_pending x); [exact I2|]. eapply SInv_ext; [|exact I2]. kcore_eq0.
Qed.

Lemma reset_sinv s g id s' r :
  SInv s g -> app_ok s id = true -> do_reset id s = Some (s', r) -> SInv s' g.
Proof.
  intros I Ha F. unfold do_reset, ok in F.
  destruct (touch id s) as [[x s1]|] eqn:T; [|injection F as <- _; exact I].
  destruct (kq_touch _ _ _ _ T) as (K1 & L1 & _).
  pose proof (sinv_kq _ _ _ I K1) as I1.
  destruct (s_state x =? 3); [injection F as <- _; exact I1|].
  destruct (sb_unacked x) as [u|]; [|discriminate].
  destruct (unacked_data s1 <? u); [discriminate|]. injection F as <- _.
  assert (Happ : id_init id <> side s1 -> id_index id < next_reported_bi s1).
  { destruct K1 as (E1 & _ & E3 & _). rewrite E1, E3. intros Hr.
    unfold app_ok, in_map_remote in Ha. unfold touch in T.
    destruct (lookup id (send s)) as [[z|]|] eqn:Lz; [| |discriminate];
      destruct (id_init id =? side s) eqn:E; try lia; cbn [negb andb orb] in Ha; lia. }
  eapply SInv_ext; [|apply (sinv_put_app s1 g id x (set_s_state 3 x) I1 L1 Happ)]. kcore_eq0.
Qed.

Lemma reject_keys_sub s s' k :
  do_reject s = Some s' -> NoDup (keys s.(send)) -> In k (keys s'.(send)) -> In k (keys s.(send)).
Proof.
  unfold do_reject, reject_with. intros R N Hin.
  destruct (remove_locals (side s) 0 (Z.to_nat (next_bi s)) (send s)) as [m1|] eqn:R1; [|discriminate].
  destruct (remove_locals (side s) 1 (Z.to_nat (next_uni s)) m1) as [m2|] eqn:R2; [|discriminate].
  injection R as <-. autorewrite with st in Hin.
  destruct (remove_locals_spec _ _ _ _ _ R1 N) as (Nd1 & A1 & B1).
  destruct (remove_locals_spec _ _ _ _ _ R2 Nd1) as (Nd2 & A2 & B2).
  destruct (lookup k m2) as [v|] eqn:L; [|apply in_keys_lookup in Hin; contradiction].
  assert (H2 : ~ is_loc (side s) 1 (Z.to_nat (next_uni s)) k) by (intros Hl; rewrite (A2 k Hl) in L; discriminate).
  rewrite (B2 k H2) in L.
  assert (H1 : ~ is_loc (side s) 0 (Z.to_nat (next_bi s)) k) by (intros Hl; rewrite (A1 k Hl) in L; discriminate).
  rewrite (B1 k H1) in L. eapply lookup_in_keys. exact L.
Qed.

Lemma reject_sinv s g s' g' :
  SInv s g -> NoDup (keys s.(send)) -> g.(g_phase) = 0 -> do_reject s = Some s' ->
  Inv s' g' -> g'.(g_phase) = 1 -> SInv s' g'.
Proof.
  intros [A B C D E] N Hp R I' Hp'.
  assert (Hf : side s' = side s /\ next_reported_bi s' = next_reported_bi s /\ send_streams s' = 0).
  { unfold do_reject, reject_with in R.
    destruct (remove_locals _ _ _ _) as [m1|]; [|discriminate].
    destruct (remove_locals _ _ _ m1) as [m2|]; [|discriminate].
    injection R as <-. autorewrite with st. auto. }
  destruct Hf as (F1 & F2 & F3). specialize (E ltac:(lia)).
  assert (Hrem : forall k, In k (keys (send s')) -> id_init k <> side s').
  { intros k Hk El. destruct (i_keys _ _ I' k Hk) as (K2 & K3). specialize (K3 El).
    destruct (i_early _ _ I' ltac:(lia)) as (_ & _ & _ & M4). destruct (M4 Hp') as (N1 & N2 & _).
    unfold get_next, id_index in K3. destr_if; lia. }
  constructor; rewrite ?F1, ?F2, ?F3; auto; try lia.
  - assert (Hnc : forall k, In k (keys (send s')) -> counted s' k = false).
    { intros k Hk. unfold counted. rewrite F2, E. specialize (Hrem k Hk).
      destruct (i_keys _ _ I' k Hk) as (K2 & _).
      destruct (id_init k =? side s') eqn:E1; [lia|]. cbn [orb].
      destruct (id_dir k =? 0); cbn [andb]; [|reflexivity]. unfold id_index. lia. }
    unfold cnt. replace (filter (counted s') (keys (send s'))) with (@nil Z); [cbn; lia|].
    symmetry. clear -Hnc. induction (keys (send s')) as [|k t IH]; [reflexivity|].
    cbn [filter]. rewrite (Hnc k (or_introl eq_refl)). apply IH. intros k' Hk'. apply Hnc. right. exact Hk'.
  - intros k Hk Hr. rewrite <- F1 in *. apply C; [eapply reject_keys_sub; eauto|congruence].
  - intros id x Lk. destruct (phase1_no_streams _ _ _ _ I' Hp' Lk).
Qed.

Lemma ack_sinv f s g s' r :
  SInv s g -> NoDup (keys s.(send)) -> do_ack f s = Some (s', r) -> SInv s' g.
Proof.
  intros I N F. unfold do_ack, ok in F. destruct f as [[[id a] b] fin].
  destruct (lookup id (send s)) as [[x|]|] eqn:Lk; try (injection F as <- _; exact I).
  destruct (s_state x =? 3); [injection F as <- _; exact I|].
  destruct (b <? a); [discriminate|]. destruct (unacked_data s <? b - a); [discriminate|].
  destruct (sb_ack a b x) as [x1|] eqn:SA; [|discriminate].
  destruct (sb_ack_credit _ _ _ _ SA) as (_ & _ & Es).
  set (s0 := set_unacked_data (unacked_data s - (b - a)) s) in *.
  assert (I0 : SInv s0 g) by (eapply SInv_ext; [|exact I]; subst s0; kcore_eq0).
  assert (L0 : lookup id (send s0) = Some (Some x)) by (subst s0; autorewrite with st; exact Lk).
  assert (Hput : forall y, (s_state y <> 0 -> s_state x <> 0) -> SInv (put id y s0) g).
  { intros y Hy. eapply sinv_kq; [exact I0|]. eapply kq_put; [exact L0|exact Hy]. }
  destruct ((s_state x1 =? 1) || (s_state x1 =? 2)) eqn:E12.
  - destruct (((s_state x1 =? 2) || fin) && _).
    + destruct (stream_freed _) as [s2|] eqn:SF; [|discriminate]. injection F as <- _.
      unfold stream_freed in SF. destruct (send_streams _ <? 1); [discriminate|]. injection SF as <-.
      destruct (sinv_remove s0 g id x I0 ltac:(subst s0; autorewrite with st; exact N) L0 ltac:(lia)) as (_ & Hr).
      eapply SInv_ext; [|exact Hr]. subst s0. kcore_eq0.
    + injection F as <- _. apply Hput. autorewrite with st. intros _. lia.
  - injection F as <- _. apply Hput. rewrite Es. auto.
Qed.

Lemma reset_acked_sinv id s g s' r :
  SInv s g -> NoDup (keys s.(send)) -> do_reset_acked id s = Some (s', r) -> SInv s' g.
Proof.
  intros I N F. unfold do_reset_acked, ok in F.
  destruct (lookup id (send s)) as [[x|]|] eqn:Lk; try (injection F as <- _; exact I).
  destruct (s_state x =? 3) eqn:E3; [|injection F as <- _; exact I].
  destruct (stream_freed _) as [s2|] eqn:SF; [|discriminate]. injection F as <- _.
  unfold stream_freed in SF. destruct (send_streams _ <? 1); [discriminate|]. injection SF as <-.
  destruct (sinv_remove s g id x I N Lk ltac:(lia)) as (_ & Hr).
  eapply SInv_ext; [|exact Hr]. kcore_eq0.
Qed.

Lemma hinv_ghost' L s g g' : (g_phase g' <> 2 -> g_phase g <> 2) -> HInvL L s g -> HInvL L s g'.
Proof. intros Hp [A B C D]. constructor; auto. intros Hq. apply D. apply Hp. exact Hq. Qed.

(* ------------------------------------------------------------------------------------------ *)
(** * The three invariants together *)

Record Full (s : State) (g : Ghost) : Prop := mkFull {
  f_inv : Inv s g; f_hinv : HInv s g; f_sinv : SInv s g }.

Lemma hs_ghost s' g g' :
  HInv s' g -> SInv s' g -> (g_phase g' <> 2 -> g_phase g <> 2) -> HInv s' g' /\ SInv s' g'.
Proof.
  intros H S Hp. split; [eapply hinv_ghost'; eauto|eapply sinv_ghost; eauto].
Qed.

Lemma hinv_log s s' g : HInvL (log s) s' g -> log s' = log s -> HInv s' g.
Proof. unfold HInv. intros H E. rewrite E. exact H. Qed.

Ltac ph_tac := gcbn; repeat match goal with |- context [if ?c then _ else _] => destruct c eqn:? end; lia.

Lemma gstep_hs s g op :
  Full s g -> HInv (fst (gstep (s, g) op)) (snd (gstep (s, g) op))
              /\ SInv (fst (gstep (s, g) op)) (snd (gstep (s, g) op)).
Proof.
  intros [I H S]. pose proof (i_phase _ _ I) as Hph. pose proof (i_nodup _ _ I) as N.
  pose proof (i_side _ _ I) as Hsd.
  assert (Hstay : HInv s g /\ SInv s g) by auto.
  destruct (g_phase g =? 1) eqn:P1.
  { unfold gstep, adm. rewrite P1.
    destruct (arg op 0 =? 1) eqn:C1; cbn [andb]; [|exact Hstay].
    destruct (params_valid (params_of op)) eqn:V; [|exact Hstay].
    assert (Hc : arg op 0 = 1) by lia. unfold apply, gupd. rewrite Hc. red_eqb. cbv iota.
    rewrite V, P1. cbn [fst snd ok]. split.
    - eapply params_hinv; eauto; try lia; try reflexivity.
    - eapply sinv_ghost; [|eapply SInv_ext; [|exact S]].
      + gcbn. lia.
      + destruct (i_early _ _ I ltac:(lia)) as (M1 & _).
        unfold kcore. autorewrite with sp. rewrite (set_remote_limits_id _ _ _ N M1). reflexivity. }
  assert (Hp1 : g_phase g <> 1) by lia.
  destruct (arg op 0 =? 21) eqn:C21.
  { assert (Hc : arg op 0 = 21) by lia. op_case Hc. rewrite P1.
    destruct ((g_phase g =? 0) && (side s =? 0)) eqn:A; [|exact Hstay].
    destruct (do_retry s) as [s'|] eqn:R; cbn [fst snd ok]; [|exact Hstay].
    apply (hs_ghost s' g); [eapply retry_hinv; eauto; lia|eapply sinv_kq; [exact S|apply retry_kq; exact R]|ph_tac]. }
  destruct (arg op 0 =? 2) eqn:C2.
  { assert (Hc : arg op 0 = 2) by lia. op_case Hc. rewrite P1.
    destruct (do_open (arg op 1) s) as [[s' r]|] eqn:O; cbn [fst snd]; [|exact Hstay].
    unfold do_open, ok in O. pose proof (norm_dir_range (arg op 1)) as Hd.
    destruct (i_cnt _ _ I (norm_dir (arg op 1)) Hd) as (Hn & _).
    destruct (get_max (norm_dir (arg op 1)) s <=? get_next (norm_dir (arg op 1)) s) eqn:E.
    - injection O as <- _. apply (hs_ghost _ g); [|eapply SInv_ext; [|exact S]; kcore_eq0|ph_tac].
      apply (hinv_log s); [eapply HInvL_ext; [|exact H]; hcore_eq|unfold set_blocked; destr_if; autorewrite with st; reflexivity].
    - destruct (lookup _ (send s)) eqn:L; [discriminate|]. injection O as <- _.
      apply (hs_ghost _ g); [| |ph_tac].
      + apply (hinv_log s); [|unfold set_next; destr_if; autorewrite with st; reflexivity].
        eapply HInvL_ext; [|apply (open_hinv (log s) s g (norm_dir (arg op 1)) H I Hd L)]. hcore_eq.
      + eapply SInv_ext; [|apply (sinv_open s g (norm_dir (arg op 1)) S Hsd Hd ltac:(lia) L)].
        unfold kcore, set_next. destr_if; autorewrite with st; reflexivity. }
  destruct (arg op 0 =? 9) eqn:C9.
  { assert (Hc : arg op 0 = 9) by lia. op_case Hc. rewrite P1.
    destruct (do_transmit (arg op 1) s) as [[s' r]|] eqn:O; cbn [fst snd]; [|exact Hstay].
    apply (hs_ghost s' g); [eapply transmit_hinv; eauto|eapply sinv_kq; [exact S|eapply transmit_kq; eauto]|ph_tac]. }
  destruct (arg op 0 =? 13) eqn:C13.
  { assert (Hc : arg op 0 = 13) by lia. op_case Hc. rewrite P1. cbn [fst snd ok].
    apply (hs_ghost _ g); [|eapply SInv_ext; [|exact S]; kcore_eq0|ph_tac].
    apply (hinv_log s); [eapply HInvL_ext; [|exact H]; hcore_eq|autorewrite with st; reflexivity]. }
  destruct (arg op 0 =? 15) eqn:C15.
  { assert (Hc : arg op 0 = 15) by lia. op_case Hc. rewrite P1.
    destruct (do_poll s) as [[s' r]|] eqn:O; cbn [fst snd]; [|exact Hstay].
    destruct (poll_hinv _ _ _ _ _ H I O) as (A & B).
    apply (hs_ghost s' g); [apply (hinv_log s); assumption|eapply sinv_kq; [exact S|eapply poll_kq; eauto]|ph_tac]. }
  destruct (arg op 0 =? 19) eqn:C19.
  { assert (Hc : arg op 0 = 19) by lia. op_case Hc. rewrite P1.
    destruct (observe s); cbn [fst snd ok]; [|exact Hstay].
    apply (hs_ghost s g); [exact H|exact S|ph_tac]. }
  destruct (arg op 0 =? 3) eqn:C3.
  { assert (Hc : arg op 0 = 3) by lia. op_case Hc. rewrite P1.
    destruct (app_ok s (arg op 1) && (0 <=? arg op 2)) eqn:A; [|exact Hstay].
    destruct (do_write (arg op 1) (arg op 2) s) as [[s' r]|] eqn:O; cbn [fst snd]; [|exact Hstay].
    destruct (write_hinv _ _ _ _ _ _ _ H I O ltac:(lia)) as (A1 & B1).
    apply (hs_ghost s' g); [apply (hinv_log s); assumption|eapply sinv_kq; [exact S|eapply write_kq; eauto]|ph_tac]. }
  destruct (arg op 0 =? 4) eqn:C4.
  { assert (Hc : arg op 0 = 4) by lia. op_case Hc. rewrite P1.
    destruct (app_ok s (arg op 1) && (0 <=? arg op 2)) eqn:A; [|exact Hstay].
    destruct (do_finish (arg op 1) s) as [[s' r]|] eqn:O; cbn [fst snd]; [|exact Hstay].
    destruct (finish_hinv _ _ _ _ _ _ H O) as (A1 & B1).
    assert (Ha : app_ok s (arg op 1) = true) by (destruct (app_ok s (arg op 1)); [reflexivity|discriminate]).
    apply (hs_ghost s' g); [apply (hinv_log s); assumption|eapply finish_sinv; eauto|ph_tac]. }
  destruct (arg op 0 =? 5) eqn:C5.
  { assert (Hc : arg op 0 = 5) by lia. op_case Hc. rewrite P1.
    destruct (app_ok s (arg op 1) && (0 <=? arg op 2)) eqn:A; [|exact Hstay].
    destruct (do_reset (arg op 1) s) as [[s' r]|] eqn:O; cbn [fst snd]; [|exact Hstay].
    destruct (reset_hinv _ _ _ _ _ _ H O) as (A1 & B1).
    assert (Ha : app_ok s (arg op 1) = true) by (destruct (app_ok s (arg op 1)); [reflexivity|discriminate]).
    apply (hs_ghost s' g); [apply (hinv_log s); assumption|eapply reset_sinv; eauto|ph_tac]. }
  destruct (arg op 0 =? 1) eqn:C1.
  { assert (Hc : arg op 0 = 1) by lia. op_case Hc. rewrite P1.
    destruct ((g_phase g =? 0) && params_valid (params_of op) && pge_params (params_of op) (g_par g)) eqn:A; [|exact Hstay].
    assert (V : params_valid (params_of op) = true) by (destruct (params_valid (params_of op)); [reflexivity|rewrite Bool.andb_false_r in A; discriminate]).
    rewrite V. cbn [fst snd ok]. split.
    - eapply params_hinv; eauto; try lia; try reflexivity.
    - eapply sinv_ghost; [|eapply SInv_ext; [|exact S]].
      + gcbn. lia.
      + destruct (i_early _ _ I ltac:(lia)) as (M1 & _).
        unfold kcore. autorewrite with sp. rewrite (set_remote_limits_id _ _ _ N M1). reflexivity. }
  destruct (arg op 0 =? 14) eqn:C14.
  { assert (Hc : arg op 0 = 14) by lia. op_case Hc. rewrite P1.
    destruct (g_phase g =? 0) eqn:P0; [|exact Hstay].
    destruct (do_reject s) as [s'|] eqn:R; cbn [fst snd ok]; [|exact Hstay].
    pose proof (reject_inv s g s' I ltac:(lia) R) as I'.
    split; [eapply reject_hinv; eauto|eapply reject_sinv; eauto; lia]. }
  destruct (arg op 0 =? 6) eqn:C6.
  { assert (Hc : arg op 0 = 6) by lia. op_case Hc. rewrite P1.
    destruct (is_varint (arg op 1)) eqn:A; [|exact Hstay]. cbn [fst snd ok].
    apply (hs_ghost _ g); [|eapply SInv_ext; [|exact S]; unfold do_max_data; kcore_eq0|ph_tac].
    apply (hinv_log s); [eapply HInvL_ext; [|exact H]; unfold do_max_data; hcore_eq|unfold do_max_data; autorewrite with st; reflexivity]. }
  destruct (arg op 0 =? 7) eqn:C7.
  { assert (Hc : arg op 0 = 7) by lia. op_case Hc. rewrite P1.
    destruct ((0 <=? arg op 1) && (0 <=? arg op 2)) eqn:A; [|exact Hstay].
    destruct (do_max_stream_data (arg op 1) (arg op 2) s) as [[s' r]|] eqn:O; cbn [fst snd]; [|exact Hstay].
    destruct (max_stream_data_hinv _ _ _ _ _ _ _ H I O) as (A1 & B1).
    apply (hs_ghost s' g); [apply (hinv_log s); assumption|eapply sinv_kq; [exact S|eapply max_stream_data_kq; eauto]|ph_tac]. }
  destruct (arg op 0 =? 8) eqn:C8.
  { assert (Hc : arg op 0 = 8) by lia. op_case Hc. rewrite P1.
    destruct (0 <=? arg op 2) eqn:A; [|exact Hstay].
    destruct (do_max_streams MAX_STREAM_COUNT_MODEL (arg op 1) (arg op 2) s) as [[s' r]|] eqn:O; cbn [fst snd]; [|exact Hstay].
    unfold do_max_streams, ok in O.
    assert (Hs' : hcore s' = hcore s /\ kcore s' = kcore s /\ log s' = log s).
    { destr_if; injection O as <- _; repeat split; try reflexivity; try hcore_eq; try kcore_eq0;
        unfold set_blocked, set_max; destr_if; autorewrite with st; reflexivity. }
    destruct Hs' as (E1 & E2 & E3).
    apply (hs_ghost s' g); [apply (hinv_log s); [eapply HInvL_ext; [symmetry; exact E1|exact H]|exact E3]
                          |eapply SInv_ext; [symmetry; exact E2|exact S]|ph_tac]. }
  destruct (arg op 0 =? 10) eqn:C10.
  { assert (Hc : arg op 0 = 10) by lia. op_case Hc. rewrite P1.
    destruct (do_log true (arg op 1) s) as [[s' r]|] eqn:O; cbn [fst snd]; [|exact Hstay].
    unfold do_log, ok in O.
    destruct (arg op 1 <? 0); [injection O as <- _; apply (hs_ghost s g); [exact H|exact S|ph_tac]|].
    destruct (log_get (Z.to_nat (arg op 1)) (log s)) as [[f l]|] eqn:G;
      [|injection O as <- _; apply (hs_ghost s g); [exact H|exact S|ph_tac]].
    destruct f as [[[fid a] b] fin].
    pose proof (hinv_ghost' _ _ _ (mkGhost 2 (g_par g) (g_md g) (g_msd g) (g_ms g) (g_closed g)) ltac:(cbn; lia) H) as H2.
    destruct (ack_hinv _ _ _ _ _ _ _ _ _ _ _ G H2 N eq_refl O) as (A1 & B1).
    split.
    - eapply hinv_ghost'; [|unfold HInv; rewrite B1; exact A1]. ph_tac.
    - eapply sinv_ghost; [|eapply (ack_sinv _ (set_log l s) g); [eapply SInv_ext; [|exact S]; kcore_eq0|autorewrite with st; exact N|exact O]].
      ph_tac. }
  destruct (arg op 0 =? 11) eqn:C11.
  { assert (Hc : arg op 0 = 11) by lia. op_case Hc. rewrite P1.
    destruct (do_log false (arg op 1) s) as [[s' r]|] eqn:O; cbn [fst snd]; [|exact Hstay].
    unfold do_log, ok in O.
    destruct (arg op 1 <? 0); [injection O as <- _; apply (hs_ghost s g); [exact H|exact S|ph_tac]|].
    destruct (log_get (Z.to_nat (arg op 1)) (log s)) as [[f l]|] eqn:G;
      [|injection O as <- _; apply (hs_ghost s g); [exact H|exact S|ph_tac]].
    destruct f as [[[fid a] b] fin].
    pose proof (hinv_ghost' _ _ _ (mkGhost 2 (g_par g) (g_md g) (g_msd g) (g_ms g) (g_closed g)) ltac:(cbn; lia) H) as H2.
    destruct (lost_hinv _ _ _ _ _ _ _ _ _ _ _ G H2 eq_refl O) as (A1 & B1).
    split.
    - eapply hinv_ghost'; [|unfold HInv; rewrite B1; exact A1]. ph_tac.
    - eapply sinv_ghost; [|eapply sinv_kq; [eapply SInv_ext; [|exact S]|eapply lost_kq; exact O]].
      + ph_tac.
      + kcore_eq0. }
  destruct (arg op 0 =? 17) eqn:C17.
  { assert (Hc : arg op 0 = 17) by lia. op_case Hc. rewrite P1.
    destruct (do_reset_acked (arg op 1) s) as [[s' r]|] eqn:O; cbn [fst snd]; [|exact Hstay].
    destruct (reset_acked_hinv _ _ _ _ _ _ H N O) as (A1 & B1).
    apply (hs_ghost s' g); [apply (hinv_log s); assumption|eapply reset_acked_sinv; eauto|ph_tac]. }
  destruct (arg op 0 =? 18) eqn:C18.
  { assert (Hc : arg op 0 = 18) by lia. op_case Hc. rewrite P1.
    destruct (do_accept (arg op 1) s) as [[s' r]|] eqn:O; cbn [fst snd]; [|exact Hstay].
    unfold do_accept, ok in O.
    destruct (norm_dir (arg op 1) =? 0); [|injection O as <- _; apply (hs_ghost s g); [exact H|exact S|ph_tac]].
    destruct (next_remote_bi s =? next_reported_bi s); [injection O as <- _; apply (hs_ghost s g); [exact H|exact S|ph_tac]|].
    injection O as <- _. split.
    - eapply hinv_ghost'; [|apply (hinv_log s); [eapply HInvL_ext; [|exact H]; hcore_eq|autorewrite with st; reflexivity]].
      ph_tac.
    - eapply sinv_ghost; [|eapply SInv_ext; [|apply (sinv_accept s g S N Hsd)]].
      + ph_tac.
      + unfold kcore. autorewrite with st. reflexivity. }
  destruct (arg op 0 =? 16) eqn:C16.
  { assert (Hc : arg op 0 = 16) by lia. op_case Hc. rewrite P1.
    destruct ((0 <=? arg op 1) && is_varint (arg op 2)) eqn:A; [|exact Hstay].
    assert (V : is_varint (arg op 2) = true) by (destruct (is_varint (arg op 2)); [reflexivity|rewrite Bool.andb_false_r in A; discriminate]).
    rewrite V. cbn [fst snd ok].
    destruct (stop_sending_hinv (log s) s g (arg op 1) (arg op 2) H) as (A1 & B1).
    apply (hs_ghost _ g); [apply (hinv_log s); assumption|eapply sinv_kq; [exact S|apply stop_sending_kq]|ph_tac]. }
  unfold gstep, adm, is_neutral, is_app. rewrite P1, C21, C2, C9, C13, C15, C19, C3, C4, C5, C1, C14, C6, C7, C8, C10, C11, C17, C18, C16.
  cbn [orb]. exact Hstay.
Qed.

Lemma gstep_full s g op :
  Full s g -> Full (fst (gstep (s, g) op)) (snd (gstep (s, g) op)).
Proof.
  intros F. destruct (gstep_hs s g op F) as (H & S).
  constructor; [apply gstep_inv; exact (f_inv _ _ F)|exact H|exact S].
Qed.

Theorem grun_full : forall i s g, Full s g -> Full (fst (grun i (s, g))) (snd (grun i (s, g))).
Proof.
  induction i as [|op t IH]; intros s g F; [exact F|].
  unfold grun in *. cbn [fold_left].
  pose proof (gstep_full s g op F) as H. destruct (gstep (s, g) op) as [s1 g1].
  apply IH. exact H.
Qed.

Lemma full_start sd mrb sw p0 :
  0 <= sd <= 1 -> params_valid p0 = true ->
  Full (fst (start sd mrb sw p0)) (snd (start sd mrb sw p0)).
Proof.
  intros Hs Hv. pose proof (inv_start sd mrb sw p0 Hs Hv) as I.
  unfold start in *. cbn [fst snd] in *. rewrite start_state in *.
  destruct (remote_bi_spec sd (Z.to_nat mrb) Hs) as (N & K & V & S).
  pose proof (remote_bi_allnone sd (Z.to_nat mrb)) as An.
  rewrite (set_remote_limits_none _ _ _ An) in *.
  constructor; [exact I| |].
  - unfold HInv. cbn [log send unacked_data side]. constructor; cbn [send unacked_data side].
    + intros id x L. apply V in L. discriminate.
    + intros k id a b fin Hl. destruct k; discriminate.
    + unfold usum. symmetry. apply msum_zero. intros k v Hin.
      rewrite (V k v (In_lookup _ _ _ N Hin)). reflexivity.
    + intros _ id x L. apply V in L. discriminate.
  - constructor; unfold cnt, counted; cbn [send side next_reported_bi send_streams]; try lia.
    + replace (filter _ _) with (@nil Z); [cbn; lia|]. symmetry.
      assert (Hk : forall k, In k (keys (remote_bi sd (Z.to_nat mrb) [])) ->
                ((id_init k =? sd) || ((id_dir k =? 0) && (id_index k <? 0))) = false).
      { intros k Hin. destruct (K _ Hin) as (j & Hj & ->).
        rewrite id_init_sid, id_index_sid by lia. destruct (1 - sd =? sd) eqn:E; [lia|].
        cbn [orb]. destruct (j <? 0) eqn:E2; [lia|]. apply Bool.andb_false_r. }
      revert Hk. generalize (keys (remote_bi sd (Z.to_nat mrb) [])). intros l Hk.
      induction l as [|k t IH]; [reflexivity|].
      cbn [filter]. rewrite (Hk k (or_introl eq_refl)). apply IH. intros k' Hk'. apply Hk. right. exact Hk'.
    + intros k Hin _. destruct (K _ Hin) as (j & Hj & ->). apply id_dir_sid; lia.
    + intros id x L. apply V in L. discriminate.
Qed.

Theorem reachable_full sd mrb sw p0 i s g :
  0 <= sd <= 1 -> params_valid p0 = true ->
  grun i (start sd mrb sw p0) = (s, g) -> Full s g.
Proof.
  intros Hs Hv R. pose proof (grun_full i _ _ (full_start sd mrb sw p0 Hs Hv)) as H.
  unfold start in *. cbn [fst snd] in H. rewrite R in H. exact H.
Qed.
