(** The C15 theorems about Model/PathSM.v (statements re-exported by Props/C15.v). *)
From QV Require Import Lib.Tac Lib.Chk Lib.Corr Proofs.ChkProofs gen.Constants.
From QV Require Import Model.PathSM Proofs.PathSMProofs.
From QV Require Proofs.AntiAmpProofs.
Open Scope Z_scope.

Lemma memz_In x l : memz x l = true <-> In x l.
Proof.
  induction l as [|y l IH]; cbn [memz In]; [split; [discriminate|contradiction]|].
  rewrite orb_true_iff, IH. split; intros [H|H]; auto; [left; lia|left; subst; lia].
Qed.

(** * a client, or a server that forbids migration, never leaves its path *)
Definition Fixed (a : Z) (s : st) : Prop :=
  may_migrate s = false /\ remote (cur s) = a /\ timer s = None.

Lemma process_frame_timer from pn s f : timer s = None -> timer (process_frame from pn s f) = None.
Proof.
  intro H. destruct f as [|tok|tok|]; cbn [process_frame]; try exact H.
  destruct (challenge (cur s)) as [t|]; [|exact H].
  destruct ((t =? tok) && (from =? remote (cur s))); [reflexivity|exact H].
Qed.

Lemma fold_frames_timer from pn fs : forall s, timer s = None -> timer (fold_left (process_frame from pn) fs s) = None.
Proof.
  induction fs as [|f fs IH]; intros s H; cbn [fold_left]; [exact H|]. apply IH. apply process_frame_timer. exact H.
Qed.

Lemma fixed_step a s o s' out : Fixed a s -> step s o = Some (s', out) -> Fixed a s'.
Proof.
  intros (Hm & Hr & Ht) Hs. unfold Fixed.
  pose proof (server_migration_const_step _ _ _ _ Hs) as [E1 E2].
  split; [unfold may_migrate in *; rewrite E1, E2; exact Hm|].
  destruct o as [d|now|seg max ds]; cbn [step] in Hs.
  - inversion Hs; subst s' out. unfold handle_datagram. rewrite Hm. cbn [negb andb].
    destruct (d_from d =? remote (cur s)) eqn:Ef; cbn [negb andb]; [|split; [exact Hr|exact Ht]].
    assert (remote (cur (handle_packet s d)) = remote (cur s) /\ timer (handle_packet s d) = None) as [Hr' Ht'].
    { unfold handle_packet. destruct (negb (d_auth d)); [split; [reflexivity|exact Ht]|].
      destruct (d_old d || memz (d_pn d) (seen s)); [split; [reflexivity|exact Ht]|].
      match goal with |- context [if ?c then migrate ?s2 d else _] =>
        pose proof (fold_frames_stable (d_from d) (d_pn d) (d_frames d)
          (mk (server s) (migration s) (cur s) (prev s) (counter s) (timer s)
              (if rx_packet s <=? d_pn d then d_pn d else rx_packet s)
              (d_pn d :: seen s) (resps s) (last_valid s))) as (_ & _ & Hst & _);
        assert (timer s2 = None) as Hts by (apply fold_frames_timer; exact Ht) end.
      cbn [cur] in Hst. rewrite Hst. replace (d_from d =? remote (cur s)) with true. cbn [negb andb].
      split; [exact Hst|exact Hts]. }
    destruct (d_from d =? remote (cur (handle_packet s d))); cbn; split; congruence.
  - inversion Hs; subst s' out. unfold handle_timeout. rewrite Ht. split; [exact Hr|exact Ht].
  - unfold transmit in Hs.
    assert (forall s1 o1, transmit_main s seg max ds = Some (s1, o1) -> remote (cur s1) = a /\ timer s1 = None) as Hmn.
    { intros s1 o1 Hmn. unfold transmit_main in Hmn. destruct ds as [|d0 ds']; [inversion Hmn; subst; split; auto|].
      destruct (AA.blocked (aa (cur s)) 1) as [b|]; cbn [obind] in Hmn; [|discriminate].
      destruct b; [inversion Hmn; subst; split; auto|].
      destruct (PR.pop_off_path (resps s) (remote (cur s))) as [r' [[tk a0]|]]; [inversion Hmn; subst; split; auto|].
      destruct (AA.poll (aa (cur s)) seg max (d0 :: ds')); cbn [obind] in Hmn; [|discriminate].
      inversion Hmn; subst; split; auto. }
    destruct (prev s) as [p|]; [|eapply Hmn; exact Hs].
    destruct (pending p); [inversion Hs; subst; split; auto|eapply Hmn; exact Hs].
Qed.

Theorem non_migrating_never_moves : forall srv mig a l s,
  srv && mig = false -> steps (init srv mig a) l = Some s ->
  remote (cur s) = a /\ validated (cur s) = true.
Proof.
  intros srv mig a l s Hm Hs.
  assert (forall l s0 s1, Fixed a s0 -> steps s0 l = Some s1 -> Fixed a s1) as Hfix.
  { clear. induction l as [|o l IH]; intros s0 s1 H Hs; cbn [steps] in Hs; [inversion Hs; subst; exact H|].
    destruct (step s0 o) as [[s2 out]|] eqn:E; [|discriminate]. eapply IH; [|exact Hs]. eapply fixed_step; eassumption. }
  assert (Fixed a s) as (_ & Hr & Ht).
  { eapply Hfix; [|exact Hs]. unfold Fixed, init, may_migrate. cbn. auto. }
  split; [exact Hr|].
  pose proof (steps_inv0 l _ _ (init_inv srv mig a) Hs) as (_ & _ & I3 & _).
  destruct (validated (cur s)) eqn:E; [reflexivity|]. destruct (I3 eq_refl) as (Hn & _). congruence.
Qed.

(** * migrate_requires_fresh_authentic *)
Theorem migrate_requires_fresh_authentic s d :
  Inv s -> remote (cur (handle_datagram s d)) <> remote (cur s) ->
  may_migrate s = true /\ d_auth d = true /\ d_old d = false /\ memz (d_pn d) (seen s) = false /\
  all_probing (d_frames d) = false /\ (forall q, In q (seen s) -> q < d_pn d) /\
  d_from d <> remote (cur s) /\ remote (cur (handle_datagram s d)) = d_from d.
Proof.
  intros HI Hne. unfold handle_datagram in *.
  destruct (d_from d =? remote (cur s)) eqn:Ef; cbn [negb andb] in *.
  - (* from the current address: the trigger needs a different address *)
    exfalso. apply Hne. clear Hne.
    assert (remote (cur (handle_packet s d)) = remote (cur s)) as Hr.
    { destruct (handle_packet_stable s d) as [H|[_ H]]; [exact H|].
      unfold handle_packet in *. destruct (negb (d_auth d)); [reflexivity|].
      destruct (d_old d || memz (d_pn d) (seen s)); [reflexivity|].
      match goal with |- context [if ?c then migrate ?s2 d else _] =>
        pose proof (fold_frames_stable (d_from d) (d_pn d) (d_frames d)
          (mk (server s) (migration s) (cur s) (prev s) (counter s) (timer s)
              (if rx_packet s <=? d_pn d then d_pn d else rx_packet s)
              (d_pn d :: seen s) (resps s) (last_valid s))) as (_ & _ & Hst & _) end.
      cbn [cur] in Hst. rewrite Hst. rewrite Ef. cbn [negb andb]. exact Hst. }
    destruct (d_from d =? remote (cur (handle_packet s d))); cbn; exact Hr.
  - destruct (may_migrate s) eqn:Em; cbn [negb andb] in *; [|contradiction Hne; reflexivity].
    assert (remote (cur (handle_packet s d)) <> remote (cur s)) as Hne'.
    { destruct (d_from d =? remote (cur (handle_packet s d))); cbn in Hne; exact Hne. }
    clear Hne. unfold handle_packet in *.
    destruct (d_auth d); cbn [negb] in *; [|contradiction Hne'; reflexivity].
    destruct (d_old d); cbn [orb] in *; [contradiction Hne'; reflexivity|].
    destruct (memz (d_pn d) (seen s)) eqn:Emem; [contradiction Hne'; reflexivity|].
    pose proof (fold_frames_stable (d_from d) (d_pn d) (d_frames d)
          (mk (server s) (migration s) (cur s) (prev s) (counter s) (timer s)
              (if rx_packet s <=? d_pn d then d_pn d else rx_packet s)
              (d_pn d :: seen s) (resps s) (last_valid s))) as (_ & _ & Hst & Hrx & _).
    cbn [cur rx_packet] in Hst, Hrx.
    match type of Hne' with context [if ?c then _ else _] => destruct c eqn:Ec end;
      [|contradiction Hne'; exact Hst].
    apply andb_true_iff in Ec as [Ec Epn]. apply andb_true_iff in Ec as [_ Epr].
    rewrite Hrx in Epn.
    assert (d_from d =? remote (cur (migrate (fold_left (process_frame (d_from d) (d_pn d)) (d_frames d)
          (mk (server s) (migration s) (cur s) (prev s) (counter s) (timer s)
              (if rx_packet s <=? d_pn d then d_pn d else rx_packet s)
              (d_pn d :: seen s) (resps s) (last_valid s))) d)) = true) as Eself by (cbn; lia).
    rewrite Eself. cbn.
    repeat split; try reflexivity; try lia.
    + destruct (all_probing (d_frames d)); [discriminate|reflexivity].
    + intros q Hq. destruct HI as (_ & _ & _ & I4). specialize (I4 q Hq).
      assert (q <> d_pn d) as Hqn.
      { intro; subst q. apply memz_In in Hq. congruence. }
      destruct (rx_packet s <=? d_pn d) eqn:E; lia.
Qed.

(** a packet whose number was accepted before does nothing (beyond the byte credit when it
    arrives from the current address): a replay can never migrate, validate or queue a response *)
Theorem replay_does_nothing s d :
  memz (d_pn d) (seen s) = true -> handle_packet s d = s.
Proof.
  intro H. unfold handle_packet. destruct (negb (d_auth d)); [reflexivity|]. rewrite H, orb_true_r. reflexivity.
Qed.

Theorem unauthenticated_does_nothing s d : d_auth d = false -> handle_packet s d = s.
Proof. intro H. unfold handle_packet. rewrite H. reflexivity. Qed.

Lemma handle_datagram_seen s d q : In q (seen s) -> In q (seen (handle_datagram s d)).
Proof.
  intro H. unfold handle_datagram.
  destruct (negb (d_from d =? remote (cur s)) && negb (may_migrate s)); [exact H|].
  assert (In q (seen (handle_packet s d))) as Hp.
  { unfold handle_packet. destruct (negb (d_auth d)); [exact H|].
    destruct (d_old d || memz (d_pn d) (seen s)); [exact H|].
    pose proof (fold_frames_stable (d_from d) (d_pn d) (d_frames d)
          (mk (server s) (migration s) (cur s) (prev s) (counter s) (timer s)
              (if rx_packet s <=? d_pn d then d_pn d else rx_packet s)
              (d_pn d :: seen s) (resps s) (last_valid s))) as (_ & _ & _ & _ & Hsn & _).
    cbn [seen] in Hsn.
    match goal with |- context [if ?c then _ else _] => destruct c end; cbn [migrate seen]; rewrite Hsn; right; exact H. }
  destruct (d_from d =? remote (cur (handle_packet s d))); cbn; exact Hp.
Qed.

Lemma accepted_is_seen s d :
  (d_from d = remote (cur s) \/ may_migrate s = true) -> d_auth d = true -> d_old d = false ->
  In (d_pn d) (seen (handle_datagram s d)).
Proof.
  intros Hg Ha Ho. unfold handle_datagram.
  replace (negb (d_from d =? remote (cur s)) && negb (may_migrate s)) with false
    by (destruct Hg as [-> | ->]; [rewrite Z.eqb_refl; reflexivity|rewrite andb_false_r; reflexivity]).
  assert (In (d_pn d) (seen (handle_packet s d))) as Hp.
  { unfold handle_packet. rewrite Ha, Ho. cbn [negb orb].
    destruct (memz (d_pn d) (seen s)) eqn:Em; [apply memz_In; exact Em|].
    pose proof (fold_frames_stable (d_from d) (d_pn d) (d_frames d)
          (mk (server s) (migration s) (cur s) (prev s) (counter s) (timer s)
              (if rx_packet s <=? d_pn d then d_pn d else rx_packet s)
              (d_pn d :: seen s) (resps s) (last_valid s))) as (_ & _ & _ & _ & Hsn & _).
    cbn [seen] in Hsn.
    match goal with |- context [if ?c then _ else _] => destruct c end; cbn [migrate seen]; rewrite Hsn; left; reflexivity. }
  destruct (d_from d =? remote (cur (handle_packet s d))); cbn; exact Hp.
Qed.

Lemma step_seen s o s' out q : step s o = Some (s', out) -> In q (seen s) -> In q (seen s').
Proof.
  intros Hs H. destruct o as [d|now|seg max ds]; cbn [step] in Hs.
  - inversion Hs; subst. apply handle_datagram_seen. exact H.
  - inversion Hs; subst. unfold handle_timeout. destruct (timer s) as [dl|]; [|exact H]. destruct (dl <=? now); exact H.
  - unfold transmit in Hs.
    assert (forall s1 o1, transmit_main s seg max ds = Some (s1, o1) -> seen s1 = seen s) as Hmn.
    { intros s1 o1 Hmn. unfold transmit_main in Hmn. destruct ds as [|d0 ds']; [inversion Hmn; subst; reflexivity|].
      destruct (AA.blocked (aa (cur s)) 1) as [b|]; cbn [obind] in Hmn; [|discriminate].
      destruct b; [inversion Hmn; subst; reflexivity|].
      destruct (PR.pop_off_path (resps s) (remote (cur s))) as [r' [[tk a0]|]]; [inversion Hmn; subst; reflexivity|].
      destruct (AA.poll (aa (cur s)) seg max (d0 :: ds')); cbn [obind] in Hmn; [|discriminate].
      inversion Hmn; subst; reflexivity. }
    destruct (prev s) as [p|]; [|rewrite (Hmn _ _ Hs); exact H].
    destruct (pending p); [inversion Hs; subst; exact H|rewrite (Hmn _ _ Hs); exact H].
Qed.

Lemma steps_seen l : forall s s' q, steps s l = Some s' -> In q (seen s) -> In q (seen s').
Proof.
  induction l as [|o l IH]; intros s s' q Hs H; cbn [steps] in Hs; [inversion Hs; subst; exact H|].
  destruct (step s o) as [[s1 out]|] eqn:E; [|discriminate]. eapply IH; [exact Hs|]. eapply step_seen; eassumption.
Qed.

(** once a packet was processed, the same packet delivered again — from any address, at any
    later time, with whatever the environment claims about it — changes nothing *)
Theorem replayed_packet_never_migrates : forall s d l s2 d',
  (d_from d = remote (cur s) \/ may_migrate s = true) -> d_auth d = true -> d_old d = false ->
  steps (handle_datagram s d) l = Some s2 -> d_pn d' = d_pn d ->
  handle_packet s2 d' = s2 /\ remote (cur (handle_datagram s2 d')) = remote (cur s2).
Proof.
  intros s d l s2 d' Hg Ha Ho Hs Hpn.
  assert (memz (d_pn d') (seen s2) = true) as Hm.
  { apply memz_In. rewrite Hpn. eapply steps_seen; [exact Hs|]. apply accepted_is_seen; assumption. }
  split; [apply replay_does_nothing; exact Hm|].
  unfold handle_datagram. destruct (negb (d_from d' =? remote (cur s2)) && negb (may_migrate s2)); [reflexivity|].
  rewrite (replay_does_nothing _ _ Hm). destruct (d_from d' =? remote (cur s2)); reflexivity.
Qed.

(** * new_path_limited_until_validated *)

Lemma process_frame_offpath from pn s f :
  from <> remote (cur s) ->
  let s' := process_frame from pn s f in
  cur s' = cur s /\ prev s' = prev s /\ timer s' = timer s /\ last_valid s' = last_valid s.
Proof.
  intro Hne. cbv zeta. destruct f as [|tok|tok|]; try (cbn [process_frame]; repeat split; reflexivity).
  rewrite response_elsewhere_changes_nothing by (left; exact Hne). repeat split; reflexivity.
Qed.

Lemma fold_frames_offpath from pn fs : forall s,
  from <> remote (cur s) ->
  let s' := fold_left (process_frame from pn) fs s in
  cur s' = cur s /\ prev s' = prev s /\ timer s' = timer s /\ last_valid s' = last_valid s.
Proof.
  induction fs as [|f fs IH]; intros s Hne; cbn [fold_left]; cbv zeta; [repeat split; reflexivity|].
  destruct (process_frame_offpath from pn s f Hne) as (E1 & E2 & E3 & E4).
  destruct (IH (process_frame from pn s f) ltac:(rewrite E1; exact Hne)) as (F1 & F2 & F3 & F4).
  repeat split; congruence.
Qed.

(** directly after a migration: unvalidated, counters restarted from the triggering datagram,
    a fresh challenge outstanding, the validation timer armed with 3 x the larger PTO, and
    [prev_path] holding the path that was validated last *)
Theorem migration_starts_limited s d :
  Inv s -> remote (cur (handle_datagram s d)) <> remote (cur s) ->
  let s' := handle_datagram s d in
  validated (cur s') = false /\ aa (cur s') = AA.recv (AA.fresh false) (d_size d) /\
  challenge (cur s') = Some (d_tok_new d) /\ pending (cur s') = true /\
  timer s' = Some (d_now d + 3 * Z.max (d_pto_new d) (d_pto_prev d)) /\
  last_valid s' = last_valid s /\
  exists p, prev s' = Some p /\ validated p = true /\ remote p = last_valid s.
Proof.
  intros HI Hne. pose proof (migrate_requires_fresh_authentic s d HI Hne) as (Hm & Ha & Ho & Hmem & Hpr & _ & Hfrom & Hto).
  pose proof (handle_datagram_inv s d HI) as HI'.
  cbv zeta. unfold handle_datagram in *.
  replace (negb (d_from d =? remote (cur s)) && negb (may_migrate s)) with false in * by (rewrite Hm, andb_false_r; reflexivity).
  destruct (handle_packet_stable s d) as [Hst|[Hr Heq]].
  { exfalso. apply Hne. destruct (d_from d =? remote (cur (handle_packet s d))); cbn; exact Hst. }
  rewrite Hr, Z.eqb_refl in *. rewrite Heq in *.
  match goal with |- context [migrate (fold_left ?f ?fs ?s1) d] =>
    pose proof (fold_frames_offpath (d_from d) (d_pn d) fs s1 Hfrom) as (F1 & F2 & F3 & F4) end.
  cbn [last_valid] in F4.
  destruct HI' as (_ & _ & I3 & _). specialize (I3 eq_refl). destruct I3 as (_ & p & Hp & Hpv & Hpl).
  cbn in Hp, Hpl. rewrite F4 in Hpl.
  cbn. repeat split; try exact F4.
  exists p. repeat split; assumption.
Qed.

(** C07's bound on every unvalidated current path: the bytes really sent to the address since
    the migration stay below 3 x the bytes really received from it (triggering datagram
    included) plus one datagram *)
Theorem new_path_amplification_bound : forall mtu srv mig a l s,
  0 < mtu -> Forall (op_wf mtu) l -> steps (init srv mig a) l = Some s ->
  validated (cur s) = false ->
  AA.gs (aa (cur s)) < AA.FACTOR * AA.gr (aa (cur s)) + mtu.
Proof.
  intros mtu srv mig a l s Hm Hwf Hs Hv.
  destruct (reachable_inv mtu srv mig a l s Hwf Hs) as [_ HH].
  destruct (HH Hv) as (h & Hh & Hsteps).
  exact (AntiAmpProofs.amplification_bound mtu h _ Hm Hh Hsteps Hv).
Qed.

(** * validation happens only by the matching response from the path's own address (or by falling
    back to the validated previous path) *)
Lemma fold_frames_validates from pn fs : forall s,
  validated (cur s) = false ->
  validated (cur (fold_left (process_frame from pn) fs s)) = true ->
  exists tok, In (FResponse tok) fs /\ challenge (cur s) = Some tok /\ from = remote (cur s).
Proof.
  induction fs as [|f fs IH]; intros s Hv Hv'; cbn [fold_left] in Hv'; [congruence|].
  destruct (validated (cur (process_frame from pn s f))) eqn:E.
  - destruct f as [|tok|tok|]; cbn [process_frame cur] in E; try congruence.
    destruct (challenge (cur s)) as [t|] eqn:Ec; [|congruence].
    destruct ((t =? tok) && (from =? remote (cur s))) eqn:Em; [|congruence].
    apply andb_true_iff in Em as [E1 E2]. exists tok. split; [left; reflexivity|]. split; [f_equal; lia|lia].
  - destruct (IH _ E Hv') as (tok & Hin & Hc & Hf).
    assert (cur (process_frame from pn s f) = cur s) as Ecur.
    { destruct f as [|tk|tk|]; cbn [process_frame] in *; try reflexivity.
      destruct (challenge (cur s)) as [t|]; [|reflexivity].
      destruct ((t =? tk) && (from =? remote (cur s))); [|reflexivity]. cbn in E. discriminate. }
    rewrite Ecur in *. exists tok. split; [right; exact Hin|]. split; assumption.
Qed.

Lemma transmit_keeps s seg max ds s' out :
  transmit s seg max ds = Some (s', out) ->
  validated (cur s') = validated (cur s) /\ timer s' = timer s /\ remote (cur s') = remote (cur s) /\
  last_valid s' = last_valid s /\ challenge (cur s') = challenge (cur s).
Proof.
  intro Hs. unfold transmit in Hs.
  assert (forall s1 o1, transmit_main s seg max ds = Some (s1, o1) ->
    validated (cur s1) = validated (cur s) /\ timer s1 = timer s /\ remote (cur s1) = remote (cur s) /\
    last_valid s1 = last_valid s /\ challenge (cur s1) = challenge (cur s)) as Hmn.
  { intros s1 o1 Hmn. unfold transmit_main in Hmn. destruct ds as [|d0 ds']; [inversion Hmn; subst; repeat split; reflexivity|].
    destruct (AA.blocked (aa (cur s)) 1) as [b|]; cbn [obind] in Hmn; [|discriminate].
    destruct b; [inversion Hmn; subst; repeat split; reflexivity|].
    destruct (PR.pop_off_path (resps s) (remote (cur s))) as [r' [[tk a0]|]]; [inversion Hmn; subst; repeat split; reflexivity|].
    destruct (AA.poll (aa (cur s)) seg max (d0 :: ds')) as [[[a' n] t]|] eqn:Ep; cbn [obind] in Hmn; [|discriminate].
    inversion Hmn; subst. unfold validated. cbn. repeat split. eapply poll_validated. exact Ep. }
  destruct (prev s) as [p|]; [|eapply Hmn; exact Hs].
  destruct (pending p); [inversion Hs; subst; cbn; repeat split; reflexivity|eapply Hmn; exact Hs].
Qed.

Theorem validation_only_by s o s' out :
  Inv s -> step s o = Some (s', out) -> validated (cur s) = false -> validated (cur s') = true ->
  (exists d tok, o = Datagram d /\ d_auth d = true /\ d_old d = false /\ memz (d_pn d) (seen s) = false /\
                 d_from d = remote (cur s) /\ challenge (cur s) = Some tok /\ In (FResponse tok) (d_frames d) /\
                 remote (cur s') = remote (cur s))
  \/ (exists now dl, o = Timeout now /\ timer s = Some dl /\ dl <= now /\ remote (cur s') = last_valid s).
Proof.
  intros HI Hs Hv Hv'. destruct o as [d|now|seg max ds]; cbn [step] in Hs.
  - left. inversion Hs; subst s' out. clear Hs. unfold handle_datagram in *.
    destruct (negb (d_from d =? remote (cur s)) && negb (may_migrate s)); [congruence|].
    assert (validated (cur (handle_packet s d)) = true) as Hp.
    { destruct (d_from d =? remote (cur (handle_packet s d))); cbn in Hv'; exact Hv'. }
    assert (remote (cur (if d_from d =? remote (cur (handle_packet s d)) then credit (handle_packet s d) (d_size d)
                         else handle_packet s d)) = remote (cur (handle_packet s d))) as Hrem
      by (destruct (d_from d =? remote (cur (handle_packet s d))); reflexivity).
    rewrite Hrem. clear Hv' Hrem.
    unfold handle_packet in *.
    destruct (d_auth d) eqn:Eauth; cbn [negb] in *; [|congruence].
    destruct (d_old d) eqn:Eold; cbn [orb] in *; [congruence|].
    destruct (memz (d_pn d) (seen s)) eqn:Emem; [congruence|]. cbv iota in Hp.
    match type of Hp with context [if ?c then _ else _] => destruct c end; [cbn in Hp; discriminate|].
    apply fold_frames_validates in Hp; [|exact Hv]. cbn [cur] in Hp. destruct Hp as (tok & Hin & Hc & Hf).
    exists d, tok. repeat split; try assumption.
    match goal with |- remote (cur (fold_left ?f ?fs ?s1)) = _ => pose proof (fold_frames_stable (d_from d) (d_pn d) fs s1) as (_ & _ & Hst & _) end.
    exact Hst.
  - right. inversion Hs; subst s' out. unfold handle_timeout in *.
    destruct (timer s) as [dl|] eqn:Et; [|congruence].
    destruct (dl <=? now) eqn:El; [|congruence].
    exists now, dl. repeat split; try lia.
    destruct (timeout_reverts s now dl HI Et ltac:(lia)) as (_ & Hr & _). unfold handle_timeout in Hr. rewrite Et, El in Hr. exact Hr.
  - exfalso. destruct (transmit_keeps _ _ _ _ _ _ Hs) as (E & _). congruence.
Qed.

(** * fallback_within_3pto *)

(** in every reachable state: an unvalidated path has its validation timer armed and a challenge
    outstanding, and [prev_path] is the most recently validated path (overlapping and repeated
    migrations included); a validated path has no timer *)
Theorem unvalidated_path_is_on_the_clock : forall srv mig a l s,
  steps (init srv mig a) l = Some s ->
  if validated (cur s)
  then timer s = None /\ last_valid s = remote (cur s) /\ challenge (cur s) = None
  else (exists dl, timer s = Some dl) /\ (exists tok, challenge (cur s) = Some tok) /\
       exists p, prev s = Some p /\ validated p = true /\ remote p = last_valid s.
Proof.
  intros srv mig a l s Hs. pose proof (steps_inv0 l _ _ (init_inv srv mig a) Hs) as HI.
  pose proof HI as (I1 & I2 & I3 & _).
  destruct (validated (cur s)) eqn:E.
  - destruct (I2 eq_refl) as (Hl & Ht & _). repeat split; try assumption. apply I1. reflexivity.
  - destruct (I3 eq_refl) as (Ht & Hp). split; [destruct (timer s) as [dl|]; [exists dl; reflexivity|contradiction]|].
    split; [|exact Hp]. destruct (challenge (cur s)) as [t|] eqn:Ec; [exists t; reflexivity|].
    destruct I1 as [I1 _]. specialize (I1 eq_refl). congruence.
Qed.

Theorem fallback_at_deadline : forall srv mig a l s dl now,
  steps (init srv mig a) l = Some s -> timer s = Some dl -> dl <= now ->
  let s' := handle_timeout s now in
  validated (cur s) = false /\ remote (cur s') = last_valid s /\ validated (cur s') = true /\
  challenge (cur s') = None /\ prev s' = None /\ timer s' = None.
Proof.
  intros srv mig a l s dl now Hs Ht Hle.
  pose proof (steps_inv0 l _ _ (init_inv srv mig a) Hs) as HI.
  destruct (timeout_reverts s now dl HI Ht Hle) as (H1 & H2 & H3 & H4 & H5 & H6 & _).
  cbv zeta. repeat split; assumption.
Qed.

Lemma fold_frames_timer_val from pn fs dl : forall s,
  timer (fold_left (process_frame from pn) fs s) = Some dl -> timer s = Some dl.
Proof.
  induction fs as [|f fs IH]; intros s H; cbn [fold_left] in H; [exact H|].
  apply IH in H. destruct f as [|tok|tok|]; cbn [process_frame] in H; try exact H.
  destruct (challenge (cur s)) as [t|]; [|exact H].
  destruct ((t =? tok) && (from =? remote (cur s))); [cbn in H; discriminate|exact H].
Qed.

(** a deadline appears only by [migrate], as now + 3 x max(PTO after, PTO before): a pending
    deadline was computed by the most recent migration *)
Theorem timer_set_only_by_migrate s o s' out dl :
  step s o = Some (s', out) -> timer s' = Some dl -> timer s <> Some dl ->
  exists d, o = Datagram d /\ remote (cur s') = d_from d /\ d_from d <> remote (cur s) /\
            dl = d_now d + 3 * Z.max (d_pto_new d) (d_pto_prev d).
Proof.
  intros Hs Ht Hn. destruct o as [d|now|seg max ds]; cbn [step] in Hs.
  - inversion Hs; subst s' out. exists d. split; [reflexivity|]. unfold handle_datagram in *.
    destruct (negb (d_from d =? remote (cur s)) && negb (may_migrate s)); [congruence|].
    assert (timer (handle_packet s d) = Some dl) as Htp
      by (destruct (d_from d =? remote (cur (handle_packet s d))); cbn in Ht; exact Ht).
    assert (remote (cur (if d_from d =? remote (cur (handle_packet s d)) then credit (handle_packet s d) (d_size d)
                         else handle_packet s d)) = remote (cur (handle_packet s d))) as Hrem
      by (destruct (d_from d =? remote (cur (handle_packet s d))); reflexivity).
    rewrite Hrem. clear Ht Hrem. unfold handle_packet in *.
    destruct (negb (d_auth d)); [congruence|].
    destruct (d_old d || memz (d_pn d) (seen s)); [congruence|].
    match type of Htp with context [if ?c then migrate (fold_left ?f ?fs ?s1) d else _] =>
      pose proof (fold_frames_stable (d_from d) (d_pn d) fs s1) as (_ & _ & Hst & _);
      destruct c eqn:Ec end.
    + cbn in Htp. inversion Htp; subst dl. apply andb_true_iff in Ec as [Ec _]. apply andb_true_iff in Ec as [Ec _].
      cbn [cur] in Hst. rewrite Hst in Ec. cbn. repeat split; lia.
    + exfalso. apply fold_frames_timer_val in Htp. cbn in Htp. congruence.
  - inversion Hs; subst s' out. unfold handle_timeout in Ht. destruct (timer s) as [d0|] eqn:E; [|congruence].
    destruct (d0 <=? now); cbn in Ht; congruence.
  - exfalso. destruct (transmit_keeps _ _ _ _ _ _ Hs) as (_ & E & _). congruence.
Qed.

(** * validated_path_resumes *)
Theorem validated_path_not_limited s b :
  validated (cur s) = true -> AA.blocked (aa (cur s)) b = Some false.
Proof. intro H. unfold AA.blocked. unfold validated in H. rewrite H. reflexivity. Qed.

(** the matching response lifts the limit at once, whatever the counters say *)
Theorem validated_path_resumes s d tok b :
  Inv s -> validated (cur s) = false -> challenge (cur s) = Some tok ->
  d_from d = remote (cur s) -> d_auth d = true -> d_old d = false -> memz (d_pn d) (seen s) = false ->
  In (FResponse tok) (d_frames d) ->
  let s' := handle_datagram s d in
  validated (cur s') = true /\ remote (cur s') = remote (cur s) /\ timer s' = None /\
  AA.blocked (aa (cur s')) b = Some false.
Proof.
  intros HI Hv Hc Hf Ha Ho Hm Hin. cbv zeta.
  assert (forall fs s1, In (FResponse tok) fs -> challenge (cur s1) = Some tok \/ validated (cur s1) = true ->
            d_from d = remote (cur s1) -> (validated (cur s1) = true -> timer s1 = None) ->
            validated (cur (fold_left (process_frame (d_from d) (d_pn d)) fs s1)) = true /\
            timer (fold_left (process_frame (d_from d) (d_pn d)) fs s1) = None) as Hfold.
  { clear. induction fs as [|f fs IH]; intros s1 Hin Hc Hf Ht; [contradiction|]. cbn [fold_left].
    assert (forall s2, validated (cur s2) = true -> timer s2 = None -> forall fs2,
              validated (cur (fold_left (process_frame (d_from d) (d_pn d)) fs2 s2)) = true /\
              timer (fold_left (process_frame (d_from d) (d_pn d)) fs2 s2) = None) as Hdone.
    { clear. intros s2 Hv Ht fs2. revert s2 Hv Ht. induction fs2 as [|g fs2 IH2]; intros s2 Hv Ht; cbn [fold_left]; [split; assumption|].
      apply IH2.
      - destruct g as [|tk|tk|]; cbn [process_frame]; try exact Hv.
        destruct (challenge (cur s2)) as [t|]; [|exact Hv]. destruct ((t =? tk) && (d_from d =? remote (cur s2))); [reflexivity|exact Hv].
      - apply process_frame_timer. exact Ht. }
    destruct Hc as [Hc|Hvd]; [|apply Hdone; [|apply process_frame_timer; apply Ht; exact Hvd];
      destruct f as [|tk|tk|]; cbn [process_frame]; try exact Hvd;
      destruct (challenge (cur s1)) as [t|]; [|exact Hvd]; destruct ((t =? tk) && (d_from d =? remote (cur s1))); [reflexivity|exact Hvd]].
    destruct Hin as [->|Hin].
    - apply Hdone; cbn [process_frame]; rewrite Hc, Hf, !Z.eqb_refl; reflexivity.
    - destruct (validated (cur (process_frame (d_from d) (d_pn d) s1 f))) eqn:E.
      + apply Hdone; [exact E|]. destruct f as [|tk|tk|]; cbn [process_frame] in *; try (apply Ht; exact E).
        destruct (challenge (cur s1)) as [t|]; [|apply Ht; exact E].
        destruct ((t =? tk) && (d_from d =? remote (cur s1))); [reflexivity|apply Ht; exact E].
      + assert (cur (process_frame (d_from d) (d_pn d) s1 f) = cur s1) as Ecur.
        { destruct f as [|tk|tk|]; cbn [process_frame] in *; try reflexivity.
          destruct (challenge (cur s1)) as [t|]; [|reflexivity].
          destruct ((t =? tk) && (d_from d =? remote (cur s1))); [cbn in E; discriminate|reflexivity]. }
        apply IH; [exact Hin|left; rewrite Ecur; exact Hc|rewrite Ecur; exact Hf|congruence]. }
  unfold handle_datagram. rewrite Hf, Z.eqb_refl. cbn [negb andb].
  unfold handle_packet. rewrite Ha, Ho, Hm. cbn [negb orb].
  match goal with |- context [fold_left ?f ?fs ?s1] =>
    pose proof (fold_frames_stable (remote (cur s)) (d_pn d) fs s1) as (_ & _ & Hst & _);
    destruct (Hfold fs s1 Hin (or_introl Hc) Hf ltac:(cbn; congruence)) as [Hv2 Ht2] end.
  rewrite Hf in *. cbn [cur] in Hst. rewrite Hst, Z.eqb_refl. cbn [negb andb].
  rewrite Hst, Z.eqb_refl. unfold credit, validated in *. cbn. rewrite Hv2.
  repeat split; try assumption. unfold AA.blocked. cbn. rewrite Hv2. reflexivity.
Qed.

(** * where a [poll_transmit] may send (decides the "bypassing transmits" question) *)
Lemma poll_ghost a seg max ds a' n t :
  AA.poll a seg max ds = Some (a', n, t) -> AA.gs a' = AA.gs a + t /\ AA.gr a' = AA.gr a.
Proof.
  unfold AA.poll. destruct (AA.batch a seg max ds 0 0) as [r|]; cbn [obind]; [|discriminate].
  intro H. inversion H; subst. cbn. split; reflexivity.
Qed.

Theorem transmit_destinations s seg max ds s' out :
  Inv s -> transmit s seg max ds = Some (s', out) ->
  out = []
  \/ (exists t, out = [(remote (cur s), t)] /\
                AA.gs (aa (cur s')) = AA.gs (aa (cur s)) + t /\ AA.gr (aa (cur s')) = AA.gr (aa (cur s)))
  \/ (exists p, prev s = Some p /\ pending p = true /\ validated p = true /\ remote p = last_valid s /\
                validated (cur s) = false /\ out = [(remote p, MIN_INITIAL_SIZE)] /\
                prev s' = Some (set_pending p false) /\ cur s' = cur s)
  \/ (exists tok a r', PR.pop_off_path (resps s) (remote (cur s)) = (r', Some (tok, a)) /\
                a <> remote (cur s) /\ out = [(a, MIN_INITIAL_SIZE)] /\ resps s' = r' /\ cur s' = cur s).
Proof.
  intros HI Hs. unfold transmit in Hs.
  assert (transmit_main s seg max ds = Some (s', out) ->
    out = []
    \/ (exists t, out = [(remote (cur s), t)] /\
                AA.gs (aa (cur s')) = AA.gs (aa (cur s)) + t /\ AA.gr (aa (cur s')) = AA.gr (aa (cur s)))
    \/ (exists tok a r', PR.pop_off_path (resps s) (remote (cur s)) = (r', Some (tok, a)) /\
                a <> remote (cur s) /\ out = [(a, MIN_INITIAL_SIZE)] /\ resps s' = r' /\ cur s' = cur s)) as Hmn.
  { intro Hmn. unfold transmit_main in Hmn. destruct ds as [|d0 ds']; [inversion Hmn; subst; left; reflexivity|].
    destruct (AA.blocked (aa (cur s)) 1) as [b|]; cbn [obind] in Hmn; [|discriminate].
    destruct b; [inversion Hmn; subst; left; reflexivity|].
    destruct (PR.pop_off_path (resps s) (remote (cur s))) as [r' [[tk a0]|]] eqn:Epop.
    - inversion Hmn; subst. right. right. exists tk, a0, r'. repeat split.
      unfold PR.pop_off_path in Epop. destruct (PR.unsnoc (resps s)) as [[l' x]|]; [|discriminate].
      destruct (PR.remote x =? remote (cur s)) eqn:E; [discriminate|]. inversion Epop; subst. lia.
    - destruct (AA.poll (aa (cur s)) seg max (d0 :: ds')) as [[[a' n] t]|] eqn:Ep; cbn [obind] in Hmn; [|discriminate].
      inversion Hmn; subst. right. left. exists t. cbn. split; [reflexivity|]. eapply poll_ghost. exact Ep. }
  destruct (prev s) as [p|] eqn:Ep.
  - destruct (pending p) eqn:Epd.
    + inversion Hs; subst. right. right. left. exists p.
      assert (validated (cur s) = false) as Hv.
      { destruct (validated (cur s)) eqn:E; [|reflexivity]. destruct HI as (_ & I2 & _).
        destruct (I2 E) as (_ & _ & Hpp). rewrite (Hpp p Ep) in Epd. discriminate. }
      destruct (inv_unvalidated s HI Hv) as (_ & p' & Hp' & Hpv & Hpr). rewrite Ep in Hp'. inversion Hp'; subst p'.
      repeat split; assumption.
    + destruct (Hmn Hs) as [H|[H|H]]; auto.
  - destruct (Hmn Hs) as [H|[H|H]]; auto.
Qed.

(** the off-path PATH_RESPONSE is not limited by what its address sent: an authentic 50-byte
    datagram from a third address carrying only a PATH_CHALLENGE is answered there with 1200 bytes *)
Definition offpath_witness : dgram := mkd 0 9 50 true false 5 [FChallenge 77] 0 0 0 0.

Theorem offpath_response_not_limited :
  let s1 := handle_datagram (init true true 0) offpath_witness in
  remote (cur s1) = 0 /\ validated (cur s1) = true /\
  option_map snd (step s1 (Transmit 1200 1 [100])) = Some [(9, MIN_INITIAL_SIZE)] /\
  3 * d_size offpath_witness < MIN_INITIAL_SIZE.
Proof. vm_compute. repeat split; reflexivity. Qed.

(** * the coalesced-datagram credit (defect found by the trace ledger, repaired in the code) *)
Lemma coalesced_fixed_inv s from n : Inv s -> Inv (coalesced_fixed s from n).
Proof. intro H. unfold coalesced_fixed. destruct (from =? remote (cur s)); [apply credit_inv|]; exact H. Qed.

Lemma coalesced_fixed_hist mtu s from n : 0 <= n -> Hist mtu s -> Hist mtu (coalesced_fixed s from n).
Proof. intros Hn H. unfold coalesced_fixed. destruct (from =? remote (cur s)); [apply credit_hist; assumption|exact H]. Qed.

(** the unrepaired credit refutes the bound: address 66 sent 1200 bytes; two datagrams from
    elsewhere with 1149 coalesced bytes each raise its budget; 6000 bytes go to 66, which is not
    below 3 x 1200 + 1200 *)
Definition coalesced_witness : dgram := mkd 1000 66 1200 true false 7 [FOther] 333 444 400 300.
Theorem coalesced_credit_refuted :
  let s1 := handle_datagram (init true true 0) coalesced_witness in
  let s2 := coalesced_unfixed (coalesced_unfixed s1 1149) 1149 in
  match steps s2 [Transmit 1200 1 [1200]; Transmit 1200 10 [1200; 1200; 1200; 1200; 1200]] with
  | Some s3 => remote (cur s3) = 66 /\ validated (cur s3) = false /\
               AA.gr (aa (cur s3)) = 1200 /\ AA.gs (aa (cur s3)) = 6000 /\
               3 * AA.gr (aa (cur s3)) + 1200 <= AA.gs (aa (cur s3))
  | None => False
  end.
Proof. vm_compute. repeat split; try reflexivity; intro H; discriminate H. Qed.
