(** Proofs about the model of [TimerTable] and the [handle_timeout] dispatch loop (C20). *)
From QV Require Import Lib.Tac Lib.Corr Model.TimerTable.
Open Scope Z_scope.

(** * Table access *)
Lemma upd_length tb i v : length (upd tb i v) = length tb.
Proof. revert i; induction tb as [|x r IH]; intros [|i]; cbn [upd length]; auto. Qed.

Lemma get_upd_same tb i v : (i < length tb)%nat -> get (upd tb i v) i = v.
Proof.
  unfold get. revert i; induction tb as [|x r IH]; intros [|i] Hl; cbn [upd length nth] in *; try lia; auto.
  apply IH; lia.
Qed.

Lemma get_upd_other tb i j v : i <> j -> get (upd tb i v) j = get tb j.
Proof.
  unfold get. revert i j; induction tb as [|x r IH]; intros [|i] [|j] Hn; cbn [upd nth]; auto; try congruence.
Qed.

Lemma get_out_of_range tb j : (length tb <= j)%nat -> get tb j = None.
Proof. intro Hl. unfold get. apply nth_overflow; exact Hl. Qed.

Lemma get_upd_out tb i v : (length tb <= i)%nat -> upd tb i v = tb.
Proof.
  revert i; induction tb as [|x r IH]; intros [|i] Hl; cbn [upd length] in *; auto; try lia.
  f_equal. apply IH; lia.
Qed.

(** * [next_timeout] is the minimum of the armed timers *)
Lemma next_timeout_none tb : next_timeout tb = None <-> forall j, get tb j = None.
Proof.
  induction tb as [|x r IH]; cbn [next_timeout].
  - split; auto. intros _ j. unfold get. destruct j; reflexivity.
  - split.
    + intros Hn [|j].
      * unfold get; cbn [nth]. destruct x; [destruct (next_timeout r); discriminate | reflexivity].
      * unfold get; cbn [nth]. apply IH.
        destruct x; [destruct (next_timeout r); discriminate | exact Hn].
    + intro Ha. assert (Hx : x = None) by (apply (Ha O)).
      subst x. cbn [omin]. apply IH. intro j. apply (Ha (S j)).
Qed.

Lemma next_timeout_lower tb m : next_timeout tb = Some m -> forall j x, get tb j = Some x -> m <= x.
Proof.
  revert m; induction tb as [|y r IH]; cbn [next_timeout]; intros m Hm j x Hg.
  - discriminate.
  - destruct j as [|j]; unfold get in Hg; cbn [nth] in Hg.
    + subst y. cbn [omin] in Hm. destruct (next_timeout r); inversion Hm; lia.
    + destruct y as [y|]; cbn [omin] in Hm.
      * destruct (next_timeout r) as [m'|] eqn:En.
        -- inversion Hm; subst. specialize (IH m' eq_refl j x Hg). lia.
        -- apply next_timeout_none with (j := j) in En. unfold get in En. congruence.
      * apply (IH m Hm j x Hg).
Qed.

Lemma next_timeout_attained tb m : next_timeout tb = Some m -> exists j, (j < length tb)%nat /\ get tb j = Some m.
Proof.
  revert m; induction tb as [|y r IH]; cbn [next_timeout]; intros m Hm.
  - discriminate.
  - destruct y as [y|]; cbn [omin] in Hm.
    + destruct (next_timeout r) as [m'|] eqn:En.
      * inversion Hm; subst. destruct (Z.min_spec y m') as [[_ E]|[_ E]]; rewrite E.
        -- exists O; cbn [length]; split; [lia | reflexivity].
        -- destruct (IH m' eq_refl) as [j [Hj Hg]]. exists (S j); cbn [length]; split; [lia | exact Hg].
      * inversion Hm; subst. exists O; cbn [length]; split; [lia | reflexivity].
    + destruct (IH m Hm) as [j [Hj Hg]]. exists (S j); cbn [length]; split; [lia | exact Hg].
Qed.

(** [next_timeout] = minimum of the armed deadlines *)
Theorem next_timeout_is_min tb :
  match next_timeout tb with
  | None => forall j, get tb j = None
  | Some m => (exists j, get tb j = Some m) /\ forall j x, get tb j = Some x -> m <= x
  end.
Proof.
  destruct (next_timeout tb) as [m|] eqn:E.
  - split.
    + destruct (next_timeout_attained tb m E) as [j [_ Hg]]; eauto.
    + apply next_timeout_lower; exact E.
  - apply next_timeout_none; exact E.
Qed.

(** no timer has expired  <->  the next timeout is in the future *)
Lemma future_iff tb now : future tb now <-> forall j, is_expired tb j now = false.
Proof.
  unfold future, is_expired. split.
  - intros Hf j. destruct (get tb j) as [x|] eqn:Eg; [|reflexivity].
    destruct (next_timeout tb) as [m|] eqn:En.
    + pose proof (next_timeout_lower tb m En j x Eg). lia.
    + apply next_timeout_none with (j := j) in En. congruence.
  - intro Ha. destruct (next_timeout tb) as [m|] eqn:En; [|exact I].
    destruct (next_timeout_attained tb m En) as [j [_ Hg]].
    specialize (Ha j). rewrite Hg in Ha. lia.
Qed.

Definition settled (now : Z) (tb : table) (j : nat) : Prop :=
  get tb j = None \/ exists x, get tb j = Some x /\ now < x.

Lemma slot_ok_settled now a b :
  slot_ok now a b -> (a = None \/ exists x, a = Some x /\ now < x) ->
  (b = None \/ exists x, b = Some x /\ now < x).
Proof. intros [E|[E|[x [E Hx]]]] Hs; subst; eauto. Qed.

Lemma not_expired_settled now tb j : is_expired tb j now = false -> settled now tb j.
Proof.
  unfold is_expired, settled. destruct (get tb j) as [x|]; [|auto].
  intro E. right. exists x. split; [reflexivity | lia].
Qed.

Lemma all_settled_future now tb : (forall j, settled now tb j) -> future tb now.
Proof.
  intro Ha. apply future_iff. intro j. unfold is_expired.
  destruct (Ha j) as [E|[x [E Hx]]]; rewrite E; [reflexivity | lia].
Qed.


(** * The dispatch loop *)
Section Dispatch.
  Variable H : Type.
  Variable handler : nat -> Z -> H * table -> H * table.

  Lemma dispatch_noop ts now s :
    (forall j, is_expired (snd s) j now = false) -> dispatch H handler ts now s = s.
  Proof.
    intro Ha. induction ts as [|i r IH]; cbn [dispatch]; [reflexivity|].
    rewrite Ha. exact IH.
  Qed.

  (** a call with no expired timer changes nothing and runs no handler *)
  Theorem spurious_timeout_noop now s :
    future (snd s) now -> handle_timeout H handler now s = s.
  Proof. intro Hf. apply dispatch_noop. apply future_iff; exact Hf. Qed.

  Lemma iter_noop n now s : future (snd s) now -> iter H handler n now s = s.
  Proof.
    revert s; induction n as [|n IH]; intros s Hf; cbn [iter]; [reflexivity|].
    rewrite spurious_timeout_noop by exact Hf. apply IH; exact Hf.
  Qed.

  (** ** strict contract: one call settles *)
  Hypothesis Hc : contract H handler.

  (** invariant of the loop: every timer already visited is settled *)
  Lemma dispatch_settles now ts done s :
    (forall j, In j done -> settled now (snd s) j) ->
    forall j, In j (done ++ ts) -> settled now (snd (dispatch H handler ts now s)) j.
  Proof.
    revert done s; induction ts as [|i r IH]; intros done s Hd j Hj; cbn [dispatch].
    - rewrite app_nil_r in Hj. apply Hd; exact Hj.
    - destruct (is_expired (snd s) i now) eqn:Ee.
      + apply (IH (done ++ [i])); [| rewrite <- app_assoc; exact Hj].
        intros k Hk. destruct s as [h tb]; cbn [fst snd] in *.
        destruct (Hc i now h (stop tb i)) as [Hlen Hslots].
        specialize (Hslots k). unfold settled.
        apply (slot_ok_settled now _ _ Hslots).
        apply in_app_or in Hk as [Hk|[Hk|[]]].
        * destruct (Nat.eq_dec i k) as [->|Hne].
          -- left. destruct (Nat.lt_ge_cases k (length tb)) as [Hl|Hl].
             ++ unfold stop. apply get_upd_same; exact Hl.
             ++ apply get_out_of_range. unfold stop. rewrite upd_length. exact Hl.
          -- unfold stop. rewrite get_upd_other by exact Hne. apply (Hd k Hk).
        * subst k. left. destruct (Nat.lt_ge_cases i (length tb)) as [Hl|Hl].
          -- unfold stop. apply get_upd_same; exact Hl.
          -- apply get_out_of_range. unfold stop. rewrite upd_length. exact Hl.
      + apply (IH (done ++ [i])); [| rewrite <- app_assoc; exact Hj].
        intros k Hk. apply in_app_or in Hk as [Hk|[Hk|[]]].
        * apply Hd; exact Hk.
        * subst k. apply not_expired_settled; exact Ee.
  Qed.

  Lemma dispatch_length now ts s :
    length (snd (dispatch H handler ts now s)) = length (snd s).
  Proof.
    revert s; induction ts as [|i r IH]; intro s; cbn [dispatch]; [reflexivity|].
    destruct (is_expired (snd s) i now).
    - rewrite IH. destruct s as [h tb]; cbn [fst snd].
      destruct (Hc i now h (stop tb i)) as [Hlen _]. rewrite Hlen. unfold stop. apply upd_length.
    - apply IH.
  Qed.

  (** under the strict handler contract ONE call of handle_timeout leaves the next timeout
      unset or strictly after [now] *)
  Theorem timeouts_settle now s :
    length (snd s) = NTIMERS -> future (snd (handle_timeout H handler now s)) now.
  Proof.
    intro Hl. apply all_settled_future. intro j.
    destruct (Nat.lt_ge_cases j NTIMERS) as [Hj|Hj].
    - apply (dispatch_settles now (seq 0 NTIMERS) [] s); [intros k []|].
      cbn [app]. apply in_seq. lia.
    - left. apply get_out_of_range. unfold handle_timeout. rewrite dispatch_length. unfold table in *. lia.
  Qed.
End Dispatch.

(** ** contract with back-off: at most [mu + 1] calls *)
Section Bounded.
  Variable H : Type.
  Variable handler : nat -> Z -> H * table -> H * table.
  Variable mu : H -> nat.
  Variable now : Z.
  Variable Inv : H -> Prop.
  Hypothesis Hc : contract_b H handler mu now Inv.

  Lemma dispatch_b ts done s m0 :
    Inv (fst s) -> (mu (fst s) <= m0)%nat ->
    ((forall j, In j done -> settled now (snd s) j) \/ (mu (fst s) < m0)%nat) ->
    Inv (fst (dispatch H handler ts now s)) /\
    length (snd (dispatch H handler ts now s)) = length (snd s) /\
    (mu (fst (dispatch H handler ts now s)) <= m0)%nat /\
    ((forall j, In j (done ++ ts) -> settled now (snd (dispatch H handler ts now s)) j)
     \/ (mu (fst (dispatch H handler ts now s)) < m0)%nat).
  Proof.
    revert done s; induction ts as [|i r IH]; intros done s Hi Hm Hd; cbn [dispatch].
    - rewrite app_nil_r. repeat split; assumption.
    - destruct (is_expired (snd s) i now) eqn:Ee.
      + destruct s as [h tb]; cbn [fst snd] in *.
        destruct (Hc i h (stop tb i) Hi) as [Hi' [Hlen [Hmono Hor]]].
        specialize (IH (done ++ [i]) (handler i now (h, stop tb i))).
        rewrite <- app_assoc in IH. cbn [app] in IH.
        assert (Hlen' : length (snd (handler i now (h, stop tb i))) = length tb)
          by (rewrite Hlen; unfold stop; apply upd_length).
        rewrite <- Hlen'. apply IH; [exact Hi' | unfold table in *; lia |].
        destruct Hd as [Hd|Hd]; [|right; unfold table in *; lia].
        destruct Hor as [Hslots|Hlt]; [|right; unfold table in *; lia].
        left. intros k Hk. specialize (Hslots k). unfold settled.
        apply (slot_ok_settled now _ _ Hslots).
        apply in_app_or in Hk as [Hk|[Hk|[]]].
        * destruct (Nat.eq_dec i k) as [->|Hne].
          -- left. destruct (Nat.lt_ge_cases k (length tb)) as [Hl|Hl].
             ++ unfold stop. apply get_upd_same; exact Hl.
             ++ apply get_out_of_range. unfold stop. rewrite upd_length. exact Hl.
          -- unfold stop. rewrite get_upd_other by exact Hne. apply (Hd k Hk).
        * subst k. left. destruct (Nat.lt_ge_cases i (length tb)) as [Hl|Hl].
          -- unfold stop. apply get_upd_same; exact Hl.
          -- apply get_out_of_range. unfold stop. rewrite upd_length. exact Hl.
      + specialize (IH (done ++ [i]) s). rewrite <- app_assoc in IH. cbn [app] in IH.
        apply IH; [exact Hi | exact Hm |].
        destruct Hd as [Hd|Hd]; [|right; exact Hd].
        left. intros k Hk. apply in_app_or in Hk as [Hk|[Hk|[]]].
        * apply Hd; exact Hk.
        * subst k. apply not_expired_settled; exact Ee.
  Qed.

  (** one call either settles or strictly decreases the measure *)
  Lemma one_call s :
    Inv (fst s) -> length (snd s) = NTIMERS ->
    Inv (fst (handle_timeout H handler now s)) /\
    length (snd (handle_timeout H handler now s)) = NTIMERS /\
    (mu (fst (handle_timeout H handler now s)) <= mu (fst s))%nat /\
    (future (snd (handle_timeout H handler now s)) now \/
     (mu (fst (handle_timeout H handler now s)) < mu (fst s))%nat).
  Proof.
    intros Hi Hl. unfold handle_timeout.
    destruct (dispatch_b (seq 0 NTIMERS) [] s (mu (fst s)) Hi (le_n _)) as [Hi' [Hlen [Hm Hor]]].
    { left. intros k []. }
    split; [exact Hi'|]. split; [rewrite Hlen; exact Hl|]. split; [exact Hm|].
    destruct Hor as [Hs|Hlt]; [left|right; exact Hlt].
    apply all_settled_future. intro j.
    destruct (Nat.lt_ge_cases j NTIMERS) as [Hj|Hj].
    - apply Hs. cbn [app]. apply in_seq. lia.
    - left. apply get_out_of_range. rewrite Hlen. unfold table in *. lia.
  Qed.

  (** servicing timeouts repeatedly at one instant reaches, within [mu + 1] calls, a state whose
      next timeout lies strictly in the future *)
  Theorem timeouts_settle_bounded n s :
    Inv (fst s) -> length (snd s) = NTIMERS -> (mu (fst s) < n)%nat ->
    future (snd (iter H handler n now s)) now.
  Proof.
    revert s; induction n as [|n IH]; intros s Hi Hl Hn; [lia|].
    cbn [iter]. destruct (one_call s Hi Hl) as [Hi' [Hl' [Hmono [Hf|Hlt]]]].
    - rewrite iter_noop by exact Hf. exact Hf.
    - destruct n as [|n'].
      + unfold table in *. lia.
      + apply IH; [exact Hi' | exact Hl' |]. unfold table in *. lia.
  Qed.
End Bounded.

(** * The concrete PTO handler meets the back-off contract when service is late by less than the
    largest back-off: [now - last_ae < base * 2^E] (carried by [pto_inv]). *)
Lemma pow2_mono a b : 0 <= a <= b -> 2 ^ a <= 2 ^ b.
Proof. intros Hab. apply Z.pow_le_mono_r; lia. Qed.

Lemma pto_handler_contract (E now : Z) : 0 <= E ->
  contract_b Pto (pto_handler E) (pto_mu E now) now (pto_inv E now).
Proof.
  intros HE i h tb [Hc [Hb Hlate]]. destruct i as [|i]; cbn [pto_handler fst snd].
  - split; [unfold pto_inv; cbn [pto_count last_ae pto_base]; lia|].
    split; [unfold set; apply upd_length|].
    unfold pto_mu, pto_deadline; cbn [pto_count last_ae pto_base].
    assert (Hp1 : 2 ^ Z.min (pto_count h) E <= 2 ^ Z.min (pto_count h + 1) E) by (apply pow2_mono; lia).
    assert (Hd : last_ae h + pto_base h * 2 ^ Z.min (pto_count h) E
                 <= last_ae h + pto_base h * 2 ^ Z.min (pto_count h + 1) E) by nia.
    destruct (now <? last_ae h + pto_base h * 2 ^ Z.min (pto_count h + 1) E) eqn:E1.
    + split; [lia|]. left. intro j. destruct (Nat.eq_dec j 0) as [->|Hne].
      * destruct (Nat.lt_ge_cases 0 (length tb)) as [Hl|Hl].
        -- unfold set. rewrite get_upd_same by exact Hl. right; right.
           eexists; split; [reflexivity|]. lia.
        -- left. unfold set. rewrite get_upd_out by exact Hl. reflexivity.
      * left. unfold set. apply get_upd_other. congruence.
    + (* still late: the count was below E (else the lateness bound is contradicted), so the
         measure drops *)
      assert (Hlt : pto_count h < E).
      { destruct (Z.lt_ge_cases (pto_count h) E) as [Hx|Hx]; [exact Hx|].
        rewrite Z.min_r in E1 by lia. lia. }
      destruct (now <? last_ae h + pto_base h * 2 ^ Z.min (pto_count h) E) eqn:E0; [lia|].
      split; [lia|]. right. lia.
  - split; [exact (conj Hc (conj Hb Hlate))|]. split; [reflexivity|]. split; [lia|].
    left. intro j. left. reflexivity.
Qed.

Lemma pto_mu_bound E now h : 0 <= E -> 0 <= pto_count h -> (pto_mu E now h <= Z.to_nat E)%nat.
Proof. intros HE Hc. unfold pto_mu. destruct (now <? pto_deadline E h); lia. Qed.

(** PTO serviced late by less than [base * 2^E]: at most [E + 1] calls at one instant *)
Theorem pto_settles E now h tb :
  0 <= E -> pto_inv E now h -> length tb = NTIMERS ->
  future (snd (iter Pto (pto_handler E) (S (Z.to_nat E)) now (h, tb))) now.
Proof.
  intros HE Hi Hl.
  apply (timeouts_settle_bounded Pto (pto_handler E) (pto_mu E now) now (pto_inv E now)
           (pto_handler_contract E now HE) (S (Z.to_nat E)) (h, tb) Hi Hl).
  cbn [fst]. destruct Hi as [Hc _]. pose proof (pto_mu_bound E now h HE Hc). lia.
Qed.

(** * Event polls on empty queues *)
Theorem poll_on_empty_queues_is_noop ee :
  poll (mkQ [] [] None ee) = (None, mkQ [] [] None ee)
  /\ forall q, ep_events q = [] -> poll_endpoint_events q = (None, q).
Proof.
  split; [reflexivity|]. intros q Hq. unfold poll_endpoint_events. rewrite Hq. reflexivity.
Qed.

(** * Time translation *)
Lemma shift_upd d tb i v : shift_table d (upd tb i v) = upd (shift_table d tb) i (shift_o d v).
Proof.
  unfold shift_table. revert i; induction tb as [|x r IH]; intros [|i]; cbn [upd map]; auto.
  f_equal. apply IH.
Qed.

Lemma shift_get d tb i : get (shift_table d tb) i = shift_o d (get tb i).
Proof.
  unfold get, shift_table. revert i; induction tb as [|x r IH]; intros [|i]; cbn [map nth]; auto.
Qed.

Lemma shift_omin d a b : omin (shift_o d a) (shift_o d b) = shift_o d (omin a b).
Proof. destruct a, b; cbn [omin shift_o]; auto. f_equal. lia. Qed.

Lemma shift_next d tb : next_timeout (shift_table d tb) = shift_o d (next_timeout tb).
Proof.
  unfold shift_table. induction tb as [|x r IH]; cbn [map next_timeout]; auto.
  rewrite IH. apply shift_omin.
Qed.

Lemma shift_expired d tb i a : is_expired (shift_table d tb) i (a + d) = is_expired tb i a.
Proof.
  unfold is_expired. rewrite shift_get. destruct (get tb i); cbn [shift_o]; auto.
  destruct (z <=? a) eqn:E; lia.
Qed.

(** shifting every supplied instant by [d] shifts every returned instant by [d] and changes
    nothing else *)
Theorem shift_equivariant d tb op :
  step (shift_table d tb) (shift_op d op)
  = (shift_table d (fst (step tb op)), shift_out d (snd (step tb op))).
Proof.
  destruct op; cbn [step shift_op shift_out fst snd].
  - unfold set. rewrite shift_upd. reflexivity.
  - unfold stop. rewrite shift_upd. reflexivity.
  - rewrite shift_get. reflexivity.
  - rewrite shift_next. reflexivity.
  - rewrite shift_expired. reflexivity.
  - reflexivity.
Qed.

Theorem shift_equivariant_steps d l : forall tb,
  steps (shift_table d tb) (map (shift_op d) l)
  = (shift_table d (fst (steps tb l)), map (shift_out d) (snd (steps tb l))).
Proof.
  unfold steps.
  assert (G : forall l tb acc,
    fold_left (fun acc op => let '(tb', o) := step (fst acc) op in (tb', snd acc ++ [o]))
              (map (shift_op d) l) (shift_table d tb, map (shift_out d) acc)
    = (shift_table d (fst (fold_left (fun acc op => let '(tb', o) := step (fst acc) op in (tb', snd acc ++ [o])) l (tb, acc))),
       map (shift_out d) (snd (fold_left (fun acc op => let '(tb', o) := step (fst acc) op in (tb', snd acc ++ [o])) l (tb, acc))))).
  { clear l. induction l as [|op l IH]; intros tb acc; cbn [map fold_left fst snd]; [reflexivity|].
    rewrite shift_equivariant.
    destruct (step tb op) as [tb' o] eqn:Es. cbn [fst snd].
    replace (map (shift_out d) acc ++ [shift_out d o]) with (map (shift_out d) (acc ++ [o]))
      by (rewrite map_app; reflexivity).
    apply IH. }
  intro tb. apply (G l tb []).
Qed.

(** the dispatch loop commutes with the shift when the handlers do *)
Section DispatchShift.
  Variable H : Type.
  Variable shift_h : Z -> H -> H.
  Variable handler : nat -> Z -> H * table -> H * table.
  Hypothesis handler_equivariant : forall d i now h tb,
    handler i (now + d) (shift_h d h, shift_table d tb)
    = (shift_h d (fst (handler i now (h, tb))), shift_table d (snd (handler i now (h, tb)))).

  Theorem handle_timeout_equivariant d now h tb :
    handle_timeout H handler (now + d) (shift_h d h, shift_table d tb)
    = (shift_h d (fst (handle_timeout H handler now (h, tb))),
       shift_table d (snd (handle_timeout H handler now (h, tb)))).
  Proof.
    unfold handle_timeout. generalize (seq 0 NTIMERS) as ts.
    intro ts; revert h tb; induction ts as [|i r IH]; intros h tb; cbn [dispatch fst snd]; [reflexivity|].
    rewrite shift_expired. destruct (is_expired tb i now).
    - replace (stop (shift_table d tb) i) with (shift_table d (stop tb i))
        by (unfold stop; rewrite shift_upd; reflexivity).
      rewrite handler_equivariant.
      destruct (handler i now (h, stop tb i)) as [h' tb'] eqn:Eh. cbn [fst snd]. apply IH.
    - apply IH.
  Qed.
End DispatchShift.
