(** Proofs about Model/Mtud.v (C13, component level). *)
From QV Require Import Lib.Tac Lib.Corr gen.Constants Model.Mtud.
Open Scope Z_scope.

Section Proofs.
Variable MPR BHT : Z.
Hypothesis MPR_pos : 1 <= MPR.
Hypothesis BHT_nonneg : 0 <= BHT.

Notation step := (Mtud.step MPR BHT true).
Notation poll_searching := (Mtud.poll_searching MPR).
Notation enabled_poll := (Mtud.enabled_poll MPR).

(** min(config.upper_bound, peer max_udp_payload_size) *)
Definition Ustar (e : Enabled) : Z := Z.min (c_upper (config e)) (peer_max e).

(** Invariant of a stored [Searching] state relative to the current MTU. *)
Definition SInv (cur : Z) (e : Enabled) (s : Search) : Prop :=
  min_change s = c_min_change (config e) /\
  upper s <= Z.max cur (Ustar e) /\
  0 <= lost_count s /\
  match in_flight s with
  | Some _ => lost_count s < MPR /\ lower s = cur /\ cur < last_probed s <= upper s
  | None => if lost_count s =? 0 then last_probed s = cur /\ lower s <= cur <= upper s
            else lost_count s <= MPR /\ lower s = cur /\ cur < last_probed s <= upper s
  end.

Definition MInv (m : Mtud) : Prop :=
  match st m with
  | None => True
  | Some e => 3 <= c_min_change (config e) /\ cur m <= peer_max e /\
              match phase e with Searching s => SInv (cur m) e s | _ => True end
  end.

(** Caller contract of [Connection] (see the call sites in connection/mod.rs, paths.rs). *)
Definition op_ok (m : Mtud) (op : Op) : Prop :=
  match op with
  | OProbeLost => in_flight_probe m <> None
  | ONew i mn p en c => 3 <= c_min_change c /\ mn <= i /\ (p = None -> i <= MAX_UDP_PAYLOAD)
  | OReset c mn => mn <= c
  | _ => True
  end.

Definition outstanding (m : Mtud) : option Z :=
  match st m with
  | Some e => match phase e with
              | Searching s => match in_flight s with Some _ => Some (last_probed s) | None => None end
              | _ => None
              end
  | None => None
  end.

Lemma clamp_bounds x lo hi : lo <= hi -> lo <= clamp x lo hi <= Z.max lo (Z.min x hi).
Proof. intros H. unfold clamp. destruct (x <? lo) eqn:E1; [lia|]. destruct (hi <? x) eqn:E2; lia. Qed.

Lemma search_new_SInv cur e :
  cur <= peer_max e -> SInv cur e (search_new cur (peer_max e) (config e)).
Proof.
  intros H. unfold SInv, search_new, Ustar. cbn [min_change upper lower last_probed in_flight lost_count].
  pose proof (clamp_bounds (c_upper (config e)) (Z.min cur (peer_max e)) (peer_max e) ltac:(lia)).
  cbn [Z.eqb]. replace (Z.min cur (peer_max e)) with cur in * by lia. repeat split; lia.
Qed.

Ltac srec := cbn [min_change upper lower last_probed in_flight lost_count peer_max config phase
                   set_phase set_in_flight cur st bhd] in *.

(** The heart: one [poll_transmit] on a [Searching] state satisfying the invariant. *)
Lemma poll_searching_spec cur e s now pn e' r :
  3 <= c_min_change (config e) -> SInv cur e s ->
  poll_searching e s now pn = Some (e', r) ->
  peer_max e' = peer_max e /\ config e' = config e /\
  match r with
  | Some p =>
      in_flight s = None /\ cur < p <= Ustar e /\
      exists s', phase e' = Searching s' /\ in_flight s' = Some pn /\ last_probed s' = p /\
                 SInv cur e' s'
  | None =>
      (exists f, in_flight s = Some f /\ phase e' = Searching s) \/
      (in_flight s = None /\ exists t, phase e' = Complete t)
  end.
Proof.
  intros Hmc (Hm & Hu & Hl & Hcls) H. unfold Mtud.poll_searching in H.
  destruct (in_flight s) as [f|] eqn:Ef.
  { inversion H; subst. cbn [peer_max config set_phase phase]. split; [reflexivity|]. split; [reflexivity|].
    left. exists f. split; reflexivity. }
  unfold next_mtu_to_probe in H.
  destruct (lost_count s =? 0) eqn:E0.
  - (* previous probe acknowledged (or fresh search) *)
    assert (E1 : (0 <? lost_count s) && (lost_count s <? MPR) = false) by lia.
    rewrite E1 in H. destruct Hcls as (Hlast & Hlo & Hup).
    match type of H with context [Z.abs ?d <? ?c] => destruct (Z.abs d <? c) eqn:E2 end.
    + match type of H with context [?a <=? Z.max 0 ?b] => destruct (a <=? Z.max 0 b) eqn:E3 end.
      * inversion H; subst; clear H. srec. split; [reflexivity|]. split; [reflexivity|].
        split; [reflexivity|]. split; [unfold Ustar in *; lia|].
        eexists. split; [reflexivity|]. srec. split; [reflexivity|]. split; [reflexivity|].
        unfold SInv, Ustar in *. srec. repeat split; lia.
      * inversion H; subst; clear H. srec. split; [reflexivity|]. split; [reflexivity|]. right. eauto.
    + inversion H; subst; clear H. srec. split; [reflexivity|]. split; [reflexivity|].
      split; [reflexivity|]. split; [unfold Ustar in *; lia|].
      eexists. split; [reflexivity|]. srec. split; [reflexivity|]. split; [reflexivity|].
      unfold SInv, Ustar in *. srec. repeat split; lia.
  - destruct Hcls as (Hk & Hlo & Hlast).
    destruct ((0 <? lost_count s) && (lost_count s <? MPR)) eqn:E1.
    { (* retransmission *)
      inversion H; subst; clear H. srec. split; [reflexivity|]. split; [reflexivity|].
      split; [reflexivity|]. split; [unfold Ustar in *; lia|].
      eexists. split; [reflexivity|]. srec. split; [reflexivity|]. split; [reflexivity|].
      unfold SInv, Ustar in *. srec. repeat split; lia. }
    (* retransmissions exhausted *)
    srec. destruct (last_probed s =? 0) eqn:E4; [discriminate H|].
    match type of H with context [Z.abs ?d <? ?c] => destruct (Z.abs d <? c) eqn:E2 end.
    + match type of H with context [?a <=? Z.max 0 ?b] => destruct (a <=? Z.max 0 b) eqn:E3 end; [lia|].
      inversion H; subst; clear H. srec. split; [reflexivity|]. split; [reflexivity|]. right. eauto.
    + inversion H; subst; clear H. srec. split; [reflexivity|]. split; [reflexivity|].
      split; [reflexivity|]. split; [unfold Ustar in *; lia|].
      eexists. split; [reflexivity|]. srec. split; [reflexivity|]. split; [reflexivity|].
      unfold SInv, Ustar in *. srec. repeat split; lia.
Qed.

Lemma SInv_transport cur e e' s :
  SInv cur e s -> peer_max e' = peer_max e -> config e' = config e -> SInv cur e' s.
Proof. unfold SInv, Ustar. intros H H1 H2. rewrite H1, H2. exact H. Qed.

Definition phase_in_flight (e : Enabled) : option Z :=
  match phase e with Searching s => in_flight s | _ => None end.

Lemma enabled_poll_spec cur e now pn e' r :
  3 <= c_min_change (config e) -> cur <= peer_max e ->
  match phase e with Searching s => SInv cur e s | _ => True end ->
  enabled_poll e now cur pn = Some (e', r) ->
  peer_max e' = peer_max e /\ config e' = config e /\
  match phase e' with Searching s' => SInv cur e' s' | _ => True end /\
  forall p, r = Some p ->
    phase_in_flight e = None /\ cur < p <= Ustar e /\
    exists s', phase e' = Searching s' /\ in_flight s' = Some pn /\ last_probed s' = p.
Proof.
  intros Hmc Hcur Hph H. unfold Mtud.enabled_poll in H.
  assert (G : forall s, SInv cur e s -> poll_searching e s now pn = Some (e', r) ->
             (phase_in_flight e = None \/ phase e = Searching s) ->
    peer_max e' = peer_max e /\ config e' = config e /\
    match phase e' with Searching s' => SInv cur e' s' | _ => True end /\
    forall p, r = Some p ->
      phase_in_flight e = None /\ cur < p <= Ustar e /\
      exists s', phase e' = Searching s' /\ in_flight s' = Some pn /\ last_probed s' = p).
  { intros s HS HP Heq. destruct (poll_searching_spec cur e s now pn e' r Hmc HS HP) as (H1 & H2 & H3).
    split; [exact H1|]. split; [exact H2|]. destruct r as [p|].
    - destruct H3 as (Ha & Hb & s' & Hc & Hd & He & Hf). split.
      + rewrite Hc. exact Hf.
      + intros p0 Hp0. inversion Hp0; subst p0. split.
        * destruct Heq as [Heq|Heq]; [exact Heq|]. unfold phase_in_flight. rewrite Heq. exact Ha.
        * split; [exact Hb|]. exists s'. auto.
    - split; [|intros p Hp; discriminate Hp].
      destruct H3 as [(f & Ha & Hb)|(Ha & t & Hb)]; rewrite Hb; [|exact I].
      eapply SInv_transport; eauto. }
  destruct (phase e) as [|s|t] eqn:Ep.
  - apply (G _ (search_new_SInv cur e Hcur) H). left. unfold phase_in_flight. now rewrite Ep.
  - apply (G s Hph H). right. reflexivity.
  - destruct (now <? t) eqn:Et.
    + inversion H; subst. split; [reflexivity|]. split; [reflexivity|]. rewrite Ep.
      split; [exact I|]. intros p Hp. discriminate Hp.
    + apply (G _ (search_new_SInv cur e Hcur) H). left. unfold phase_in_flight. now rewrite Ep.
Qed.

Lemma on_peer_max_spec m v m' :
  on_peer_max m v = Some m' ->
  cur m' = Z.min (cur m) v /\ bhd m' = bhd m /\
  match st m, st m' with
  | None, None => True
  | Some e, Some e' => phase e' = phase e /\ config e' = config e /\ peer_max e' = v /\
                       (forall s, phase e <> Searching s)
  | _, _ => False
  end.
Proof.
  unfold on_peer_max. destruct (st m) as [e|].
  - destruct (phase e) eqn:Ep; intros H; inversion H; subst; cbn [cur bhd st phase config peer_max];
      repeat split; auto; intros s0; discriminate.
  - intros H; inversion H; subst; cbn [cur bhd st]. auto.
Qed.

Lemma finish_bmin b : bmin_mtu (finish_loss_burst BHT b) = bmin_mtu b.
Proof.
  unfold finish_loss_burst. destruct (cur_burst b) as [[sm latest]|]; [|reflexivity].
  destruct ((sm <=? bmin_mtu b) || (latest <? largest_post_loss b) && (sm <=? acked_mtu b)); reflexivity.
Qed.

Lemma lost_bmin b pn len b' : bhd_on_non_probe_lost BHT b pn len = Some b' -> bmin_mtu b' = bmin_mtu b.
Proof.
  unfold bhd_on_non_probe_lost. destruct (cur_burst b) as [[sm latest]|].
  - destruct (pn <? latest); [discriminate|]. destruct (pn - latest =? 1); intros H; inversion H; subst;
      cbn [bmin_mtu]; auto using finish_bmin.
  - intros H; inversion H; subst. reflexivity.
Qed.

Lemma detect_bmin b : bmin_mtu (fst (bhd_black_hole_detected BHT b)) = bmin_mtu b.
Proof.
  unfold bhd_black_hole_detected.
  destruct (Z.of_nat (length (bursts (finish_loss_burst BHT b))) <=? BHT); cbn [fst bmin_mtu]; apply finish_bmin.
Qed.

Lemma acked_bmin b pn len : bmin_mtu (bhd_on_non_probe_acked b pn len) = bmin_mtu b.
Proof. unfold bhd_on_non_probe_acked. destruct (len <=? acked_mtu b); reflexivity. Qed.

(** Ghost: the lowest peer limit received so far. *)
Definition plow_step (plow : Z) (op : Op) : Z :=
  match op with
  | ONew _ _ p _ _ => match p with Some v => v | None => MAX_UDP_PAYLOAD end
  | OPeerMax v => Z.min v plow
  | _ => plow
  end.

Definition FInv (m : Mtud) (plow : Z) : Prop :=
  MInv m /\ Z.min (bmin_mtu (bhd m)) plow <= cur m /\
  match st m with Some e => plow <= peer_max e | None => True end.

Lemma finv_same m plow b' :
  FInv m plow -> bmin_mtu b' = bmin_mtu (bhd m) -> FInv (mkMtud (cur m) (st m) b') plow.
Proof. unfold FInv, MInv. cbn [cur st bhd]. intros H E. rewrite E. exact H. Qed.

Lemma step_finv m plow op m' r :
  FInv m plow -> op_ok m op -> step m op = Some (m', r) -> FInv m' (plow_step plow op).
Proof.
  intros (HM & HF & HP) Hok H. unfold FInv, MInv in *.
  destruct op as [i mn p en c|c mn|v|now pn|sp pn len| |pn len|now]; cbn [Mtud.step plow_step] in H |- *.
  - (* new *)
    destruct Hok as (Hmc & Hmn & Hp).
    destruct (mtud_new i mn p en c) as [m1|] eqn:E; [|discriminate]. inversion H; subst m1 r; clear H.
    unfold mtud_new in E. destruct en.
    + destruct (i <? mn) eqn:E1; [discriminate|]. destruct p as [v|].
      * apply on_peer_max_spec in E. cbn [cur bhd st] in E. destruct E as (E1' & E2 & E3).
        destruct (st m') as [e'|]; [|contradiction]. destruct E3 as (Ea & Eb & Ec & _).
        rewrite E1', E2, Ea, Eb, Ec. cbn [phase config enabled_new bhd_new bmin_mtu]. repeat split; lia.
      * inversion E; subst; clear E. cbn [cur st bhd phase config peer_max enabled_new bhd_new bmin_mtu].
        specialize (Hp eq_refl). repeat split; lia.
    + inversion E; subst; clear E. cbn [cur st bhd bhd_new bmin_mtu]. repeat split; auto. destruct p; lia.
  - (* reset *)
    cbn [op_ok] in Hok. destruct (mtud_reset m c mn) as [m1|] eqn:E; [|discriminate]. inversion H; subst m1 r; clear H.
    unfold mtud_reset in E. destruct (st m) as [e|] eqn:Es.
    + destruct (on_peer_max _ (peer_max e)) as [m2|] eqn:E2; [|discriminate]. inversion E; subst; clear E.
      apply on_peer_max_spec in E2. cbn [cur bhd st] in E2. destruct E2 as (E1' & _ & E3).
      destruct (st m2) as [e2|]; [|contradiction]. destruct E3 as (Ea & Eb & Ec & _).
      cbn [cur st bhd bhd_new bmin_mtu]. rewrite E1', Ea, Eb, Ec. cbn [phase config enabled_new].
      destruct HM as (HM1 & _). repeat split; lia.
    + inversion E; subst; clear E. cbn [cur st bhd bhd_new bmin_mtu]. repeat split; auto. lia.
  - (* peer max *)
    destruct (on_peer_max m v) as [m1|] eqn:E; [|discriminate]. inversion H; subst m1 r; clear H.
    apply on_peer_max_spec in E. destruct E as (E1 & E2 & E3). rewrite E1, E2.
    destruct (st m) as [e|], (st m') as [e'|]; try contradiction.
    + destruct E3 as (Ea & Eb & Ec & Ed). rewrite Ea, Eb, Ec. destruct HM as (HM1 & HM2 & HM3).
      split; [|split; lia]. split; [exact HM1|]. split; [lia|].
      destruct (phase e) eqn:Ep; auto. exfalso. eapply Ed. reflexivity.
    + repeat split; auto; lia.
  - (* poll *)
    destruct (st m) as [e|] eqn:Es.
    + destruct (enabled_poll e now (cur m) pn) as [[e' r']|] eqn:E; [|discriminate].
      inversion H; subst; clear H. cbn [cur st bhd]. destruct HM as (HM1 & HM2 & HM3).
      destruct (enabled_poll_spec _ _ _ _ _ _ HM1 HM2 HM3 E) as (Ha & Hb & Hc & _).
      rewrite Ha, Hb. repeat split; auto.
    + inversion H; subst; clear H. rewrite Es. auto.
  - (* acked *)
    destruct (negb (is_data sp)); [inversion H; subst; exact (conj HM (conj HF HP))|].
    destruct (match st m with Some e => enabled_on_probe_acked e pn | None => None end)
      as [[e' new]|] eqn:E.
    + destruct (st m) as [e|] eqn:Es; [|discriminate].
      unfold enabled_on_probe_acked in E. destruct (phase e) as [|s|t] eqn:Ep; try discriminate.
      destruct (in_flight s) as [f|] eqn:Ef; [|discriminate].
      destruct (f =? pn) eqn:Efp; [|discriminate].
      inversion E; subst; clear E. inversion H; subst; clear H.
      cbn [cur st bhd bhd_on_probe_acked bmin_mtu set_phase phase config peer_max].
      destruct HM as (HM1 & HM2 & (S1 & S2 & S3 & S4)). rewrite Ef in S4. destruct S4 as (S4 & S5 & S6).
      unfold SInv, Ustar in *. srec. cbn [Z.eqb]. repeat split; try lia.
    + inversion H; subst; clear H. apply finv_same; [exact (conj HM (conj HF HP))|apply acked_bmin].
  - (* probe lost *)
    inversion H; subst; clear H. cbn [cur st bhd]. cbn [op_ok] in Hok. unfold in_flight_probe in Hok.
    destruct (st m) as [e|] eqn:Es; [|auto].
    unfold enabled_on_probe_lost. destruct (phase e) as [|s|t] eqn:Ep.
    + rewrite Ep. exact (conj HM (conj HF HP)).
    + destruct HM as (HM1 & HM2 & (S1 & S2 & S3 & S4)).
      destruct (in_flight s) as [f|] eqn:Ef; [|contradiction]. destruct S4 as (S4 & S5 & S6).
      cbn [set_phase phase config peer_max]. unfold SInv, Ustar in *. srec.
      destruct (lost_count s + 1 =? 0) eqn:E0; [lia|]. repeat split; try lia.
    + rewrite Ep. exact (conj HM (conj HF HP)).
  - (* non-probe lost *)
    destruct (bhd_on_non_probe_lost BHT (bhd m) pn len) as [b|] eqn:E; [|discriminate].
    inversion H; subst; clear H. apply finv_same; [exact (conj HM (conj HF HP))|eapply lost_bmin; eauto].
  - (* black hole *)
    pose proof (detect_bmin (bhd m)) as Hb.
    destruct (bhd_black_hole_detected BHT (bhd m)) as [b det]. cbn [fst] in Hb.
    destruct det; inversion H; subst; clear H; cbn [cur st bhd]; rewrite Hb.
    + destruct (st m) as [e|] eqn:Es.
      * cbn [set_phase phase config peer_max]. destruct HM as (HM1 & HM2 & _). repeat split; lia.
      * repeat split; auto; lia.
    + auto.
Qed.

(** Reachable states: any contract-respecting op sequence from scratch ([ONew] creates). *)
Inductive reach : Mtud -> Z -> Prop :=
| reach_init : reach dummy 0
| reach_step m plow op m' r :
    reach m plow -> op_ok m op -> step m op = Some (m', r) -> reach m' (plow_step plow op).

Lemma reach_finv m plow : reach m plow -> FInv m plow.
Proof.
  induction 1 as [|m plow op m' r Hr IH Hok Hs].
  - unfold FInv, MInv, dummy. cbn. repeat split; auto; lia.
  - eapply step_finv; eauto.
Qed.

(* ------------------------------------------------------------------ final forms *)
Lemma probe_bounds m plow e now pn e' p :
  reach m plow -> st m = Some e ->
  enabled_poll e now (cur m) pn = Some (e', Some p) ->
  in_flight_probe m = None /\
  cur m < p <= Z.min (c_upper (config e)) (peer_max e) /\
  in_flight_probe (mkMtud (cur m) (Some e') (bhd m)) = Some pn /\
  outstanding (mkMtud (cur m) (Some e') (bhd m)) = Some p.
Proof.
  intros Hr Hs Hp. destruct (reach_finv _ _ Hr) as (HM & _). unfold MInv in HM. rewrite Hs in HM.
  destruct HM as (H1 & H2 & H3).
  destruct (enabled_poll_spec _ _ _ _ _ _ H1 H2 H3 Hp) as (_ & _ & _ & H4).
  destruct (H4 p eq_refl) as (Ha & Hb & s' & Hc & Hd & He).
  unfold in_flight_probe, outstanding, phase_in_flight in *. rewrite Hs. cbn [st]. rewrite Hc, Hd, He.
  repeat split; auto; unfold Ustar in Hb; lia.
Qed.

Lemma step_poll_unfold m now pn :
  step m (OPoll now pn) =
  match st m with
  | None => Some (m, -1)
  | Some e => match enabled_poll e now (cur m) pn with
              | None => None
              | Some (e', r) => Some (mkMtud (cur m) (Some e') (bhd m), optz r)
              end
  end.
Proof. reflexivity. Qed.

(** The estimate rises only by acknowledgement of the in-flight probe, to exactly its size
    (or by explicit re-initialisation).  Step-local: needs no invariant. *)
Lemma mtu_rises_only_on_probe_ack m op m' r :
  step m op = Some (m', r) -> cur m < cur m' ->
  (exists i mn p en c, op = ONew i mn p en c) \/ (exists c mn, op = OReset c mn) \/
  (exists sp pn len, op = OAcked sp pn len /\ is_data sp = true /\
     in_flight_probe m = Some pn /\ r = 1 /\ outstanding m = Some (cur m')).
Proof.
  intros H Hlt.
  destruct op as [i mn p en c|c mn|v|now pn|sp pn len| |pn len|now]; cbn [Mtud.step] in H.
  - left. eauto 10.
  - right. left. eauto.
  - destruct (on_peer_max m v) as [m1|] eqn:E; [|discriminate]. inversion H; subst.
    apply on_peer_max_spec in E. lia.
  - destruct (st m) as [e|]; [|inversion H; subst; lia].
    destruct (enabled_poll e now (cur m) pn) as [[e' r']|]; [|discriminate].
    inversion H; subst. cbn [cur] in Hlt. lia.
  - right. right. destruct (is_data sp) eqn:Ed; cbn [negb] in H; [|inversion H; subst; lia].
    destruct (match st m with Some e => enabled_on_probe_acked e pn | None => None end)
      as [[e' new]|] eqn:E; [|inversion H; subst; cbn [cur] in Hlt; lia].
    destruct (st m) as [e|] eqn:Es; [|discriminate].
    unfold enabled_on_probe_acked in E. destruct (phase e) as [|s|t] eqn:Ep; try discriminate.
    destruct (in_flight s) as [f|] eqn:Ef; [|discriminate].
    destruct (f =? pn) eqn:Efp; [|discriminate].
    inversion E; subst; clear E. inversion H; subst; clear H.
    exists sp, pn, len. unfold in_flight_probe, outstanding. rewrite Es, Ep, Ef. cbn [cur].
    repeat split; auto. f_equal. lia.
  - inversion H; subst. cbn [cur] in Hlt. lia.
  - destruct (bhd_on_non_probe_lost BHT (bhd m) pn len); [|discriminate]. inversion H; subst. cbn [cur] in Hlt. lia.
  - destruct (bhd_black_hole_detected BHT (bhd m)) as [b det].
    destruct det; inversion H; subst; cbn [cur] in Hlt; lia.
Qed.

(** mtu_floor, with the lowest peer limit received so far as ghost. *)
Lemma mtu_floor m plow :
  reach m plow -> Z.min (bmin_mtu (bhd m)) plow <= cur m.
Proof. intros H. apply reach_finv in H. apply H. Qed.

(** While MTU discovery is enabled the estimate never exceeds the peer's limit. *)
Lemma mtu_within_peer_limit m plow e :
  reach m plow -> st m = Some e -> cur m <= peer_max e.
Proof.
  intros H Hs. apply reach_finv in H. destruct H as (HM & _). unfold MInv in HM. rewrite Hs in HM. apply HM.
Qed.

Lemma black_hole_threshold m now m' :
  step m (OBlackHole now) = Some (m', 1) ->
  BHT < Z.of_nat (length (bursts (finish_loss_burst BHT (bhd m)))).
Proof.
  cbn [Mtud.step]. unfold bhd_black_hole_detected.
  destruct (Z.of_nat (length (bursts (finish_loss_burst BHT (bhd m)))) <=? BHT) eqn:E.
  - intros H. inversion H.
  - intros _. lia.
Qed.

(** [initial_mtu] above the configured [upper_bound] (independent public setters): the search's
    upper bound is clamped UP to the current MTU by [SearchState::new], and no probe is issued. *)
Lemma no_probe_when_upper_bound_not_above_current m plow e now pn e' r :
  reach m plow -> st m = Some e -> Z.min (c_upper (config e)) (peer_max e) <= cur m ->
  enabled_poll e now (cur m) pn = Some (e', r) -> r = None.
Proof.
  intros Hr Hs Hle Hp. destruct r as [p|]; [|reflexivity].
  destruct (probe_bounds _ _ _ _ _ _ _ Hr Hs Hp) as (_ & Hb & _). lia.
Qed.

End Proofs.

(* ------------------------------------------------------------------ refutations (vm_compute witnesses) *)
Definition cur_after (MPR BHT : Z) (fx : bool) (ops : list Op) : option Z :=
  match fold_left (fun acc op => match acc with
                                 | Some m => match Mtud.step MPR BHT fx m op with Some (m', _) => Some m' | None => None end
                                 | None => None end) ops (Some dummy) with
  | Some m => Some (cur m)
  | None => None
  end.

(** F8 on the code BEFORE the repair ([F8FIXED = false]): large packets are lost before the peer's
    smaller limit arrives; the black-hole fallback then RAISES the estimate from 1200 to
    min_mtu = 1300, above the peer's max_udp_payload_size = 1200, without any probe. *)
Definition f8_witness : list Op :=
  [ONew 1400 1300 None true (mkConfig 1452 600000000 60000000 20);
   ONonProbeLost 0 1400; ONonProbeLost 2 1400; ONonProbeLost 4 1400; ONonProbeLost 6 1400;
   OPeerMax 1200].

Lemma F8_refuted :
  cur_after 3 3 false f8_witness = Some 1200 /\
  cur_after 3 3 false (f8_witness ++ [OBlackHole 0]) = Some 1300 /\
  cur_after 3 3 true (f8_witness ++ [OBlackHole 0]) = Some 1200.
Proof. vm_compute. repeat split; reflexivity. Qed.

(** F8b: a disabled MtuDiscovery forgets the peer's limit: [reset] (Connection::path_changed)
    restores the initial MTU above it. *)
Lemma F8b_disabled_reset_refuted :
  cur_after 3 3 true [ONew 1400 1200 None false (mkConfig 0 0 0 0); OPeerMax 1200] = Some 1200 /\
  cur_after 3 3 true [ONew 1400 1200 None false (mkConfig 0 0 0 0); OPeerMax 1200; OReset 1400 1200] = Some 1400.
Proof. vm_compute. split; reflexivity. Qed.

(** minimum_change below 3 (unvalidated configuration): with minimum_change = 1 a probe SMALLER
    than the current MTU is issued (1199 < 1200) and its acknowledgement lowers the estimate. *)
Definition polls_of (MPR BHT : Z) (ops : list Op) : list Z :=
  snd (fold_left (fun acc op => match fst acc with
                                | Some m => match Mtud.step MPR BHT true m op with
                                            | Some (m', r) => (Some m', snd acc ++ [r])
                                            | None => (None, snd acc) end
                                | None => acc end) ops (Some dummy, [])).

Lemma min_change_1_refuted :
  polls_of 3 3 [ONew 1200 1200 None true (mkConfig 1202 0 0 1);
                OPoll 0 1; OProbeLost; OPoll 0 2; OProbeLost; OPoll 0 3; OProbeLost;
                OPoll 0 4; OProbeLost; OPoll 0 5; OProbeLost; OPoll 0 6; OProbeLost;
                OPoll 0 7; OAcked 2 7 1199]
  = [0; 1201; 0; 1201; 0; 1201; 0; 1200; 0; 1200; 0; 1200; 0; 1199; 1] /\
  cur_after 3 3 true [ONew 1200 1200 None true (mkConfig 1202 0 0 1);
                OPoll 0 1; OProbeLost; OPoll 0 2; OProbeLost; OPoll 0 3; OProbeLost;
                OPoll 0 4; OProbeLost; OPoll 0 5; OProbeLost; OPoll 0 6; OProbeLost;
                OPoll 0 7; OAcked 2 7 1199] = Some 1199.
Proof. vm_compute. split; reflexivity. Qed.

(** minimum_change = 0: the search never completes — every poll after convergence issues a probe of
    exactly the current MTU (here: 8 in a row, each acknowledged). *)
Lemma min_change_0_refuted :
  polls_of 3 3 [ONew 1200 1200 None true (mkConfig 1200 0 0 0);
                OPoll 0 1; OAcked 2 1 1200; OPoll 0 2; OAcked 2 2 1200; OPoll 0 3; OAcked 2 3 1200;
                OPoll 0 4; OAcked 2 4 1200; OPoll 0 5; OAcked 2 5 1200; OPoll 0 6; OAcked 2 6 1200;
                OPoll 0 7; OAcked 2 7 1200; OPoll 0 8]
  = [0; 1200; 1; 1200; 1; 1200; 1; 1200; 1; 1200; 1; 1200; 1; 1200; 1; 1200].
Proof. vm_compute. reflexivity. Qed.
