(** C18 — the inductive invariant of Model/AsyncConn.v and basic facts about the small maps. *)
From QV Require Import Lib.Tac Model.AsyncConn.
From Coq Require Import Arith.

(** where the waker of a pending operation is registered *)
Definition registered (s : st) (t : nat) (o : op) : Prop :=
  match o with
  | ORead k => aget (br s) k = Some t
  | OWrite k => aget (bw s) k = Some t
  | OStopped k => nwait s (NStopped k) t = true /\ memb (skeys s) k = true
  | _ => match notify_of o with Some n => nwait s n t = true | None => False end
  end.

Record Inv0 (s : st) : Prop := {
  (** the wake-up invariant: a pending operation whose task is not runnable is registered
      and its condition is false *)
  inv_wake : forall t o, pend s t = Some o ->
      runnable s t = true \/ (registered s t o /\ cond s o = false);
  (** the [&mut] borrows are exactly the live stream futures *)
  inv_rb1 : forall t k, pend s t = Some (ORead k) -> rborrow s k = Some t;
  inv_rb2 : forall t k, rborrow s k = Some t -> pend s t = Some (ORead k);
  inv_wb1 : forall t k, pend s t = Some (OWrite k) -> wborrow s k = Some t;
  inv_wb2 : forall t k, wborrow s k = Some t -> pend s t = Some (OWrite k);
  (** a registered [Notified] belongs to a live future of exactly that operation *)
  inv_nw : forall n t, nwait s n t = true -> exists o, pend s t = Some o /\ notify_of o = Some n;
  (** stream bookkeeping *)
  inv_rh_seen : forall k, recv_h s k = true -> seen s k = true;
  inv_sh_seen : forall k, send_h s k = true -> seen s k = true;
  inv_br_seen : forall k, aget (br s) k <> None -> seen s k = true;
  inv_end_seen : forall k, rx_end s k = true -> seen s k = true;
  inv_rx_seen : forall k, rx s k <> [] -> seen s k = true;
  inv_inc_seen : forall d k, In k (incoming s d) -> seen s k = true;
  inv_pend_rh : forall t k, pend s t = Some (ORead k) -> recv_h s k = true /\ all_read s k = false;
  inv_pend_sh : forall t k, pend s t = Some (OWrite k) -> send_h s k = true;
  (** the [debug_assert!] in [RecvStream::drop] *)
  inv_br_end : forall k, aget (br s) k <> None -> rx_end s k = false /\ rx s k = [];
  inv_allread_end : forall k, all_read s k = true -> rx_end s k = true;
  (** reference counting: [ref_count] = number of [ConnectionRef]s - 1 *)
  inv_ref_alive : driver_alive s = true -> refcnt s = nhandles s;
  inv_ref_dead : driver_alive s = false -> refcnt s = (nhandles s - 1)%Z;
  (** integrity: nothing received is lost or duplicated by polls, drops and wake-ups *)
  inv_data : forall k, discarded s k = false -> arrived s k = delivered s k ++ rx s k;
  inv_dgram : d_arrived s = d_delivered s ++ dq s;
  inv_deliv_seen : forall k, seen s k = false -> delivered s k = []
}.

(** the driver's own wake-up protocol (not maintained INSIDE a driver poll, hence separate) *)
Definition drv_ok (s : st) : Prop :=
  driver_alive s = true ->
  (drv_runnable s = true \/ drv_waker s = true) /\ (drv_work s = true -> drv_runnable s = true).

Record Inv (s : st) : Prop := { inv_0 :> Inv0 s; inv_drv : drv_ok s }.

(** the protocol / ghost / handle part of the state (everything a cancelled future must not touch) *)
Definition proto_eq (a b : st) : Prop :=
  connected a = connected b /\ hsconf a = hsconf b /\ err a = err b /\ budget a = budget b /\
  incoming a = incoming b /\ seen a = seen b /\ rx a = rx b /\ rx_end a = rx_end b /\
  wcredit a = wcredit b /\ w_end a = w_end b /\ stop_done a = stop_done b /\ dq a = dq b /\
  dspace a = dspace b /\ arrived a = arrived b /\ delivered a = delivered b /\
  discarded a = discarded b /\ d_arrived a = d_arrived b /\ d_delivered a = d_delivered b /\
  recv_h a = recv_h b /\ send_h a = send_h b /\ all_read a = all_read b /\
  refcnt a = refcnt b /\ nhandles a = nhandles b /\ br a = br b /\ bw a = bw b /\
  skeys a = skeys b /\ inner_closed a = inner_closed b /\ drained a = drained b /\
  driver_alive a = driver_alive b /\ drv_waker a = drv_waker b /\ drv_runnable a = drv_runnable b /\
  drv_work a = drv_work b /\ ep_entry a = ep_entry b.

Definition ok (ls : list label) : Prop := forallb label_no_reset_ack ls = true.

