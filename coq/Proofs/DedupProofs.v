(** Proofs about Model/Dedup.v: [seen] is the abstract membership ("reported duplicate"); [insert]
    answers [seen] and extends it by exactly the inserted number and what falls left of the window. *)
From QV Require Import Lib.Tac Lib.Corr Model.Dedup.
Open Scope Z_scope.

Definition seen (d : Dedup.t) (m : Z) : bool :=
  (m <? next d) &&
  ((WINDOW_SIZE <=? next d - 1 - m) || (m =? next d - 1) || Z.testbit (window d) (next d - 2 - m)).

Lemma insert_dup d p d' dup :
  insert d p = Some (d', dup) -> dup = seen d p.
Proof.
  unfold insert, seen, WINDOW_SIZE, BITS. intros H.
  destruct (next d <=? p) eqn:E1.
  - destruct (U64_MAX <=? p); [discriminate|]. injection H as Hd Hdup; subst d' dup.
    destruct (p <? next d) eqn:E2; [lia|reflexivity].
  - destruct (next d - 1 - p <? 1 + 128) eqn:E2.
    + destruct (1 <=? next d - 1 - p) eqn:E3; injection H as Hd Hdup; subst d' dup.
      * replace (next d - 1 - p - 1) with (next d - 2 - p) by lia.
        destruct (p <? next d) eqn:A; [|lia].
        destruct (1 + 128 <=? next d - 1 - p) eqn:B; [lia|].
        destruct (p =? next d - 1) eqn:C; [lia|]. reflexivity.
      * destruct (p <? next d) eqn:A; [|lia].
        destruct (p =? next d - 1) eqn:C; [|lia].
        destruct (1 + 128 <=? next d - 1 - p); reflexivity.
    + injection H as Hd Hdup; subst d' dup.
      destruct (p <? next d) eqn:A; [|lia].
      destruct (1 + 128 <=? next d - 1 - p) eqn:B; [reflexivity|lia].
Qed.

Lemma testbit_one k : Z.testbit 1 k = (k =? 0).
Proof.
  destruct (Z.eq_dec k 0) as [->|N]; [reflexivity|].
  destruct (Z.lt_ge_cases k 0) as [L|G].
  - rewrite Z.testbit_neg_r by lia. lia.
  - change 1 with (2 ^ 0). rewrite Z.pow2_bits_eqb by lia. lia.
Qed.

Lemma advance_bit w diff i :
  0 <= diff < 128 -> 0 <= i < 128 ->
  Z.testbit (Z.shiftl (Z.lor (Z.shiftl w 1 mod 2 ^ 128) 1) diff mod 2 ^ 128) i =
  if i - diff <? 0 then false
  else if i - diff =? 0 then true else Z.testbit w (i - diff - 1).
Proof.
  intros Hd Hi.
  rewrite Z.mod_pow2_bits_low by lia.
  rewrite Z.shiftl_spec by lia.
  destruct (i - diff <? 0) eqn:K.
  - apply Z.testbit_neg_r. lia.
  - rewrite Z.lor_spec, testbit_one.
    destruct (i - diff =? 0) eqn:K0.
    + apply orb_true_r.
    + rewrite orb_false_r. rewrite Z.mod_pow2_bits_low by lia.
      rewrite Z.shiftl_spec by lia. reflexivity.
Qed.

Lemma seen_true_iff d m :
  seen d m = true <->
  m < next d /\ (WINDOW_SIZE <= next d - 1 - m \/ m = next d - 1 \/
                 Z.testbit (window d) (next d - 2 - m) = true).
Proof.
  unfold seen. rewrite andb_true_iff, !orb_true_iff, Z.ltb_lt, Z.leb_le, Z.eqb_eq. tauto.
Qed.

Definition left_of (d : Dedup.t) (m : Z) : bool :=
  (m <? next d) && (WINDOW_SIZE <=? next d - 1 - m).

Lemma insert_seen d p d' dup m :
  insert d p = Some (d', dup) ->
  seen d' m = seen d m || (m =? p) || left_of d' m.
Proof.
  intros H. pose proof (insert_dup _ _ _ _ H) as Hdup.
  apply Bool.eq_iff_eq_true.
  rewrite !orb_true_iff, !seen_true_iff. unfold left_of.
  rewrite andb_true_iff, Z.ltb_lt, Z.leb_le, Z.eqb_eq.
  revert H. unfold insert, WINDOW_SIZE, W_MOD, BITS.
  destruct (next d <=? p) eqn:E1.
  - destruct (U64_MAX <=? p); [discriminate|]. intros H; injection H as Hd _. subst d'.
    cbn [next window].
    destruct (Z.lt_ge_cases p m) as [A|A]; [intuition lia|].
    destruct (Z.eq_dec m p) as [->|A']; [intuition lia|].
    destruct (Z.le_gt_cases (1 + 128) (p + 1 - 1 - m)) as [B|B]; [intuition lia|].
    assert (Hi : 0 <= p + 1 - 2 - m < 128) by lia.
    destruct (p - next d <? 128) eqn:E2.
    + change (2 * window d) with (Z.shiftl (window d) 1). rewrite advance_bit by lia.
      replace (p + 1 - 2 - m - (p - next d)) with (next d - 1 - m) by lia.
      destruct (next d - 1 - m <? 0) eqn:K; [intuition (try discriminate; lia)|].
      destruct (next d - 1 - m =? 0) eqn:K0; [intuition lia|].
      replace (next d - 1 - m - 1) with (next d - 2 - m) by lia.
      set (T := Z.testbit (window d) (next d - 2 - m) = true). intuition lia.
    + rewrite Z.bits_0. intuition (try discriminate; lia).
  - destruct (next d - 1 - p <? 1 + 128) eqn:E2.
    + destruct (1 <=? next d - 1 - p) eqn:E3; intros H; injection H as Hd Hd2; subst d'.
      * cbn [next window]. rewrite Z.lor_spec, orb_true_iff.
        rewrite Z.shiftl_1_l.
        destruct (Z.lt_ge_cases (next d - 2 - m) 0) as [N|N].
        { rewrite !(Z.testbit_neg_r _ _ N). intuition (try discriminate; lia). }
        rewrite Z.pow2_bits_eqb by lia. rewrite Z.eqb_eq.
        set (T := Z.testbit (window d) (next d - 2 - m) = true). intuition lia.
      * rewrite <- Hd2 in Hdup. symmetry in Hdup. rewrite seen_true_iff in Hdup.
        unfold WINDOW_SIZE, BITS in Hdup.
        destruct (Z.eq_dec m p) as [->|A']; [tauto|].
        set (T := Z.testbit (window d) (next d - 2 - m) = true). intuition lia.
    + intros H; injection H as Hd Hd2; subst d'.
      rewrite <- Hd2 in Hdup. symmetry in Hdup. rewrite seen_true_iff in Hdup.
      unfold WINDOW_SIZE, BITS in Hdup.
      destruct (Z.eq_dec m p) as [->|A']; [tauto|].
      set (T := Z.testbit (window d) (next d - 2 - m) = true). intuition lia.
Qed.

(** ---- sequences ---- *)
Fixpoint inserts (d : Dedup.t) (l : list Z) : option (Dedup.t * list bool) :=
  match l with
  | [] => Some (d, [])
  | p :: l' =>
      match insert d p with
      | None => None
      | Some (d', dup) =>
          match inserts d' l' with
          | None => None
          | Some (d'', ds) => Some (d'', dup :: ds)
          end
      end
  end.

(** [d] represents the set [S] of inserted numbers *)
Definition Spec (d : Dedup.t) (S : list Z) : Prop :=
  next d = maxl S + 1 /\
  forall m, 0 <= m -> seen d m = mem m S || (m + WINDOW_SIZE <=? maxl S).

Lemma maxl_ge S : -1 <= maxl S.
Proof. induction S as [|x S IH]; cbn [maxl fold_right]; [lia|]. fold (maxl S). lia. Qed.

Lemma maxl_cons x S : maxl (x :: S) = Z.max x (maxl S).
Proof. reflexivity. Qed.

Lemma mem_le_maxl m S : mem m S = true -> m <= maxl S.
Proof.
  induction S as [|x S IH]; cbn [mem]; [discriminate|].
  rewrite maxl_cons, orb_true_iff, Z.eqb_eq. intros [->|H]; [lia|]. apply IH in H. lia.
Qed.

Lemma spec_init : Spec init [].
Proof.
  split; [reflexivity|]. intros m Hm. unfold seen, init, WINDOW_SIZE, BITS. cbn [next window mem maxl fold_right].
  destruct (m <? 0) eqn:A; [lia|]. destruct (m + (1 + 128) <=? -1) eqn:B; [lia|]. reflexivity.
Qed.

Lemma insert_next d p d' dup :
  insert d p = Some (d', dup) -> next d' = Z.max (next d) (p + 1).
Proof.
  unfold insert. destruct (next d <=? p) eqn:E1.
  - destruct (U64_MAX <=? p); [discriminate|]. intros H; injection H as <- _. cbn [next]. lia.
  - destruct (next d - 1 - p <? WINDOW_SIZE).
    + destruct (1 <=? next d - 1 - p); intros H; injection H as <- _; cbn [next]; lia.
    + intros H; injection H as <- _. lia.
Qed.

Lemma spec_step d S p d' dup :
  Spec d S -> 0 <= p -> insert d p = Some (d', dup) ->
  Spec d' (p :: S) /\ dup = mem p S || (p + WINDOW_SIZE <=? maxl S).
Proof.
  intros [Hn Hs] Hp H. split; [split|].
  - rewrite (insert_next _ _ _ _ H), maxl_cons. lia.
  - intros m Hm. rewrite (insert_seen _ _ _ _ m H), Hs by exact Hm. unfold left_of.
    rewrite (insert_next _ _ _ _ H), Hn, maxl_cons. cbn [mem].
    pose proof (maxl_ge S) as G. unfold WINDOW_SIZE, BITS.
    destruct (mem m S); destruct (m =? p) eqn:A; cbn [orb]; try reflexivity;
      try (rewrite !orb_true_r; reflexivity).
    destruct (m + (1 + 128) <=? maxl S) eqn:B;
      destruct (m <? Z.max (maxl S + 1) (p + 1)) eqn:C;
      destruct (1 + 128 <=? Z.max (maxl S + 1) (p + 1) - 1 - m) eqn:D;
      destruct (m + (1 + 128) <=? Z.max p (maxl S)) eqn:E; cbn [andb orb]; lia.
  - rewrite (insert_dup _ _ _ _ H). apply Hs. exact Hp.
Qed.

Lemma mem_app x a b : mem x (a ++ b) = mem x a || mem x b.
Proof. induction a as [|y a IH]; cbn [mem app]; [reflexivity|]. rewrite IH, orb_assoc. reflexivity. Qed.

Lemma maxl_app a b : maxl (a ++ b) = Z.max (maxl a) (maxl b).
Proof.
  induction a as [|y a IH]; cbn [app].
  - pose proof (maxl_ge b). cbn [maxl fold_right]. lia.
  - rewrite !maxl_cons, IH. lia.
Qed.

Lemma mem_middle x a y b : mem x (a ++ y :: b) = mem x ((y :: a) ++ b).
Proof. cbn [app]. rewrite mem_app. cbn [mem]. rewrite mem_app. destruct (x =? y), (mem x a); reflexivity. Qed.

Lemma maxl_middle a y b : maxl (a ++ y :: b) = maxl ((y :: a) ++ b).
Proof. cbn [app]. rewrite maxl_app, !maxl_cons, maxl_app. lia. Qed.

Lemma inserts_char : forall l d0 S0 d ds,
  Forall (fun p => 0 <= p) l ->
  Spec d0 S0 -> inserts d0 l = Some (d, ds) ->
  Spec d (rev l ++ S0) /\
  forall j p, nth_error l j = Some p ->
    nth_error ds j =
    Some (mem p (firstn j l ++ S0) || (p + WINDOW_SIZE <=? maxl (firstn j l ++ S0))).
Proof.
  induction l as [|p0 l IH]; intros d0 S0 d ds HF HS H.
  - cbn [inserts] in H. injection H as <- <-. split; [exact HS|]. intros [|j] p; discriminate.
  - cbn [inserts] in H. destruct (insert d0 p0) as [[d1 dup]|] eqn:E; [|discriminate].
    destruct (inserts d1 l) as [[d2 ds']|] eqn:E2; [|discriminate]. injection H as <- <-.
    inversion HF as [|? ? Hp0 HF']; subst.
    destruct (spec_step _ _ _ _ _ HS Hp0 E) as [HS1 Hdup].
    destruct (IH _ _ _ _ HF' HS1 E2) as [HS2 Hj]. split.
    + cbn [rev]. rewrite <- app_assoc. exact HS2.
    + intros [|j] p Hp.
      * cbn [nth_error] in Hp. injection Hp as <-. cbn [nth_error firstn app]. rewrite Hdup. reflexivity.
      * cbn [nth_error] in Hp. cbn [nth_error firstn]. rewrite (Hj _ _ Hp).
        rewrite mem_middle, maxl_middle. reflexivity.
Qed.

Lemma mem_In x l : mem x l = true <-> In x l.
Proof.
  induction l as [|y l IH]; cbn [mem In]; [split; [discriminate|tauto]|].
  rewrite orb_true_iff, Z.eqb_eq, IH. split; intros [A|A]; auto.
Qed.

(** Every number already inserted — whatever happened in between — is reported as a duplicate,
    and so is every number that lies left of the window. *)
Theorem dedup_at_most_once : forall l d ds,
  Forall (fun p => 0 <= p) l ->
  inserts init l = Some (d, ds) ->
  forall j p, nth_error l j = Some p ->
    (In p (firstn j l) \/ p + WINDOW_SIZE <= maxl (firstn j l)) ->
    nth_error ds j = Some true.
Proof.
  intros l d ds HF H j p Hp Hc.
  destruct (inserts_char l init [] d ds HF spec_init H) as [_ Hj].
  rewrite (Hj _ _ Hp), app_nil_r. f_equal. apply orb_true_iff.
  destruct Hc as [A|A]; [left; apply mem_In; exact A|right; lia].
Qed.

Lemma nth_error_firstn_lt {A} : forall (l : list A) i j, (i < j)%nat ->
  nth_error (firstn j l) i = nth_error l i.
Proof.
  induction l as [|x l IH]; intros i j H.
  - rewrite firstn_nil. reflexivity.
  - destruct j as [|j]; [lia|]. destruct i as [|i]; [reflexivity|].
    cbn [firstn nth_error]. apply IH. lia.
Qed.

Corollary dedup_new_at_most_once : forall l d ds,
  Forall (fun p => 0 <= p) l ->
  inserts init l = Some (d, ds) ->
  forall i j p, (i < j)%nat -> nth_error l i = Some p -> nth_error l j = Some p ->
    nth_error ds j = Some true.
Proof.
  intros l d ds HF H i j p Hij Hi Hj. apply (dedup_at_most_once l d ds HF H j p Hj). left.
  apply nth_error_In with (n := i). rewrite nth_error_firstn_lt by exact Hij. exact Hi.
Qed.

(** No false duplicates inside the window. *)
Theorem dedup_first_time_fresh_in_window : forall l d ds,
  Forall (fun p => 0 <= p) l ->
  inserts init l = Some (d, ds) ->
  forall j p, nth_error l j = Some p ->
    ~ In p (firstn j l) -> maxl (firstn j l) < p + WINDOW_SIZE ->
    nth_error ds j = Some false.
Proof.
  intros l d ds HF H j p Hp Hn Hw.
  destruct (inserts_char l init [] d ds HF spec_init H) as [_ Hj].
  rewrite (Hj _ _ Hp), app_nil_r. f_equal. apply orb_false_iff. split.
  - destruct (mem p (firstn j l)) eqn:M; [|reflexivity]. apply mem_In in M. contradiction.
  - lia.
Qed.

Theorem dedup_total : forall l d0,
  Forall (fun p => p < U64_MAX) l -> exists d ds, inserts d0 l = Some (d, ds) /\ length ds = length l.
Proof.
  induction l as [|p l IH]; intros d0 HF.
  - exists d0, []. split; reflexivity.
  - inversion HF as [|? ? Hp HF']; subst.
    assert (exists d1 dup, insert d0 p = Some (d1, dup)) as (d1 & dup & E).
    { unfold insert. destruct (next d0 <=? p).
      - destruct (U64_MAX <=? p) eqn:A; [lia|]. eauto.
      - destruct (next d0 - 1 - p <? WINDOW_SIZE); [destruct (1 <=? next d0 - 1 - p)|]; eauto. }
    destruct (IH d1 HF') as (d2 & ds & E2 & L). exists d2, (dup :: ds).
    cbn [inserts]. rewrite E, E2. split; [reflexivity|]. cbn [length]. lia.
Qed.

Theorem dedup_next_is_highest_plus_one : forall l d ds,
  Forall (fun p => 0 <= p) l ->
  inserts init l = Some (d, ds) -> next d = maxl l + 1.
Proof.
  intros l d ds HF H. destruct (inserts_char l init [] d ds HF spec_init H) as [[Hn _] _].
  rewrite Hn, app_nil_r. f_equal.
  clear. induction l as [|x l IH]; [reflexivity|]. cbn [rev]. rewrite maxl_app, IH, !maxl_cons.
  change (maxl []) with (-1). pose proof (maxl_ge l). lia.
Qed.

(** ---- [smallest_missing_in_interval] is exact w.r.t. [seen] ---- *)

Lemma ones_bit n i : 0 <= n -> 0 <= i -> Z.testbit (2 ^ n - 1) i = (i <? n).
Proof.
  intros Hn Hi. replace (2 ^ n - 1) with (Z.ones n) by (rewrite Z.ones_equiv; lia).
  destruct (i <? n) eqn:E.
  - apply Z.ones_spec_low. lia.
  - apply Z.ones_spec_high. lia.
Qed.

(** bits of the mask built by [smallest_missing_in_interval] *)
Definition qmask (so rl : Z) : Z :=
  if rl =? BITS then W_MOD - 1 else Z.shiftl (2 ^ rl - 1) so mod W_MOD.

Lemma qmask_bit so rl i :
  0 <= so < 128 -> 0 < rl <= 128 -> 0 <= i ->
  Z.testbit (qmask so rl) i =
  (i <? 128) && (if rl =? 128 then true else (so <=? i) && (i <? so + rl)).
Proof.
  intros Hso Hrl Hi. unfold qmask, W_MOD, BITS.
  destruct (rl =? 128) eqn:E.
  - rewrite ones_bit by lia. rewrite andb_true_r. reflexivity.
  - destruct (i <? 128) eqn:I; cbn [andb].
    + rewrite Z.mod_pow2_bits_low by lia. rewrite Z.shiftl_spec by lia.
      destruct (so <=? i) eqn:S; cbn [andb].
      * rewrite ones_bit by lia. destruct (i - so <? rl) eqn:A; destruct (i <? so + rl) eqn:B; lia.
      * apply Z.testbit_neg_r. lia.
    + apply Z.mod_pow2_bits_high. lia.
Qed.

Lemma qmask_nonneg so rl : 0 <= so -> 0 <= rl -> 0 <= qmask so rl.
Proof.
  intros. unfold qmask, W_MOD, BITS. destruct (rl =? 128).
  - assert (0 < 2 ^ 128) by (apply Z.pow_pos_nonneg; lia). lia.
  - apply Z.mod_pos_bound. apply Z.pow_pos_nonneg; lia.
Qed.

Lemma gaps_bit w mask i : 0 <= i ->
  Z.testbit (Z.land (Z.lnot w) mask) i = negb (Z.testbit w i) && Z.testbit mask i.
Proof. intros. rewrite Z.land_spec, Z.lnot_spec by lia. reflexivity. Qed.

Lemma seen_highest d m : m = next d - 1 -> seen d m = true.
Proof. intros ->. apply seen_true_iff. lia. Qed.

Lemma seen_left d m : m < next d -> WINDOW_SIZE <= next d - 1 - m -> seen d m = true.
Proof. intros. apply seen_true_iff. lia. Qed.

Lemma seen_bit d m : m < next d -> Z.testbit (window d) (next d - 2 - m) = true -> seen d m = true.
Proof. intros. apply seen_true_iff. tauto. Qed.

Lemma unseen_bit d m :
  m < next d - 1 -> next d - 1 - m < WINDOW_SIZE ->
  Z.testbit (window d) (next d - 2 - m) = false -> seen d m = false.
Proof.
  intros A B C. destruct (seen d m) eqn:S; [|reflexivity].
  apply seen_true_iff in S. destruct S as [_ [S|[S|S]]]; [lia|lia|congruence].
Qed.

Theorem smallest_missing_exact : forall d l u r,
  0 <= l ->
  smallest_missing d l u = Some r ->
  match r with
  | None => forall m, l < m < u -> seen d m = true
  | Some q => l < q < u /\ seen d q = false /\ forall m, l < m < q -> seen d m = true
  end.
Proof.
  intros d l u r Hl. unfold smallest_missing.
  destruct ((l <=? u) && (1 <=? next d) && (u <=? next d - 1)) eqn:Pre; [|discriminate].
  apply andb_true_iff in Pre as [Pre P3]. apply andb_true_iff in Pre as [P1 P2].
  cbv zeta.
  set (h := next d - 1). set (lb := l + 1). set (ub := Z.max (u - 1) 0).
  set (so := Z.max (h - ub) 1 - 1). set (eo := Z.max (h - lb) 0).
  set (rl := Z.min (Z.max (eo - so) 0) BITS).
  fold (qmask so rl).
  assert (Hh : next d = h + 1) by (unfold h; lia).
  destruct (BITS <=? so) eqn:E1.
  { intros H; injection H as <-. intros m Hm. apply seen_left; unfold WINDOW_SIZE, BITS in *; lia. }
  destruct (rl =? 0) eqn:E2.
  { intros H; injection H as <-. intros m Hm.
    destruct (Z.eq_dec m h) as [->|N]; [apply seen_highest; lia|].
    unfold rl, BITS in E2. exfalso. lia. }
  assert (Hso : 0 <= so < 128) by (unfold BITS in E1; lia).
  assert (Hrl : 0 < rl <= 128) by (unfold rl, BITS in *; lia).
  assert (Heo : eo = h - lb /\ so < eo) by (unfold rl, BITS in *; lia).
  destruct Heo as [Heo Hse].
  assert (Hub : u >= 1 /\ ub = u - 1). { unfold rl, eo, so, ub, lb, BITS in *. clear Hse Heo Hrl Hso. first [lia | idtac "A"; clearbody h; lia | idtac "B"; clear rl eo so ub lb; lia]. }
  destruct Hub as [Hu1 Hub].
  assert (Hso' : so = h - ub - 1 \/ (so = 0 /\ ub = h)) by (unfold so; lia).
  set (gaps := Z.land (Z.lnot (window d)) (qmask so rl)).
  assert (Hg0 : 0 <= gaps).
  { unfold gaps. apply Z.land_nonneg. right. apply qmask_nonneg; lia. }
  assert (Hbit : forall i, 0 <= i -> Z.testbit gaps i =
            negb (Z.testbit (window d) i) &&
            ((i <? 128) && (if rl =? 128 then true else (so <=? i) && (i <? so + rl)))).
  { intros i Hi. unfold gaps. rewrite gaps_bit by lia. rewrite qmask_bit by lia. reflexivity. }
  (* every packet of the interval whose gap bit is clear has been seen *)
  assert (Hseen : forall m, lb <= m <= ub -> Z.testbit gaps (h - 1 - m) = false -> seen d m = true).
  { intros m Hm Hb.
    destruct (Z.le_gt_cases 128 (h - 1 - m)) as [A|A].
    - apply seen_left; unfold WINDOW_SIZE, BITS; lia.
    - rewrite Hbit in Hb by lia.
      destruct (h - 1 - m <? 128) eqn:B; [|lia].
      assert (C : (if rl =? 128 then true else (so <=? h - 1 - m) && (h - 1 - m <? so + rl)) = true).
      { destruct (rl =? 128) eqn:R; [reflexivity|].
        apply andb_true_iff. unfold rl, BITS in *. split; lia. }
      rewrite C in Hb. cbn [andb] in Hb. rewrite andb_true_r in Hb.
      apply seen_bit; [lia|]. replace (next d - 2 - m) with (h - 1 - m) by lia.
      destruct (Z.testbit (window d) (h - 1 - m)); [reflexivity|discriminate]. }
  destruct (gaps =? 0) eqn:G0.
  - (* no gap at all *)
    apply Z.eqb_eq in G0.
    destruct (h <? 0) eqn:E3; [lia|]. rewrite Z.sub_0_r.
    destruct (h <=? ub) eqn:E4; [lia|].
    intros H; injection H as <-. intros m Hm. apply Hseen; [unfold lb; lia|].
    rewrite G0. apply Z.bits_0.
  - assert (Hgp : 0 < gaps) by lia.
    set (kk := Z.log2 gaps).
    assert (Hk0 : 0 <= kk) by apply Z.log2_nonneg.
    assert (Hk1 : Z.testbit gaps kk = true) by (apply Z.bit_log2; exact Hgp).
    assert (Hk2 : forall j, kk < j -> Z.testbit gaps j = false) by (intros j Hj; apply Z.bits_above_log2; lia).
    pose proof Hk1 as Hk3. rewrite Hbit in Hk3 by lia.
    apply andb_true_iff in Hk3 as [Kw Km]. apply andb_true_iff in Km as [K128 Kr].
    assert (Kw' : Z.testbit (window d) kk = false) by (destruct (Z.testbit (window d) kk); [discriminate|reflexivity]).
    assert (Krange : kk < eo /\ kk < 128).
    { split; [|lia]. destruct (rl =? 128) eqn:R.
      - unfold rl, BITS in R. lia.
      - apply andb_true_iff in Kr. unfold rl, BITS in *. lia. }
    destruct (h <? kk + 1) eqn:E3; [unfold lb in *; lia|].
    destruct (h - (kk + 1) <=? ub) eqn:E4; intros H; injection H as <-.
    + split; [unfold lb in *; lia|]. split.
      * apply unseen_bit; [lia|unfold WINDOW_SIZE, BITS; lia|].
        replace (next d - 2 - (h - (kk + 1))) with kk by lia. exact Kw'.
      * intros m Hm. apply Hseen; [unfold lb; lia|]. apply Hk2. lia.
    + intros m Hm. apply Hseen; [unfold lb; lia|]. apply Hk2. lia.
Qed.

Theorem smallest_missing_total : forall d l u,
  0 <= l -> l <= u -> 1 <= next d -> u <= next d - 1 -> smallest_missing d l u <> None.
Proof.
  intros d l u Hl H1 H2 H3. unfold smallest_missing.
  destruct ((l <=? u) && (1 <=? next d) && (u <=? next d - 1)) eqn:Pre.
  2:{ apply andb_false_iff in Pre as [Pre|Pre]; [apply andb_false_iff in Pre as [Pre|Pre]|]; lia. }
  cbv zeta.
  set (h := next d - 1). set (lb := l + 1). set (ub := Z.max (u - 1) 0).
  set (so := Z.max (h - ub) 1 - 1). set (eo := Z.max (h - lb) 0).
  set (rl := Z.min (Z.max (eo - so) 0) BITS).
  fold (qmask so rl).
  destruct (BITS <=? so) eqn:E1; [discriminate|].
  destruct (rl =? 0) eqn:E2; [discriminate|].
  set (gaps := Z.land (Z.lnot (window d)) (qmask so rl)).
  destruct (gaps =? 0) eqn:G0.
  - destruct (h <? 0) eqn:E3; [lia|]. destruct (h - 0 <=? ub); discriminate.
  - assert (Hso : 0 <= so < 128) by (unfold BITS in E1; lia).
    assert (Hrl : 0 < rl <= 128) by (unfold rl, BITS in *; lia).
    assert (Hg0 : 0 <= gaps) by (apply Z.land_nonneg; right; apply qmask_nonneg; lia).
    assert (Hk1 : Z.testbit gaps (Z.log2 gaps) = true) by (apply Z.bit_log2; lia).
    pose proof (Z.log2_nonneg gaps) as Hk0.
    unfold gaps at 1 in Hk1. rewrite gaps_bit, qmask_bit in Hk1 by lia.
    apply andb_true_iff in Hk1 as [_ Km]. apply andb_true_iff in Km as [K128 Kr].
    assert (Z.log2 gaps < eo).
    { destruct (rl =? 128) eqn:R.
      - unfold rl, BITS in R. lia.
      - apply andb_true_iff in Kr. unfold rl, BITS in *. lia. }
    destruct (h <? Z.log2 gaps + 1) eqn:E3; [unfold eo, lb in *; lia|].
    destruct (h - (Z.log2 gaps + 1) <=? ub); discriminate.
Qed.

Lemma mem_rev x l : mem x (rev l) = mem x l.
Proof.
  induction l as [|y l IH]; [reflexivity|]. cbn [rev]. rewrite mem_app, IH. cbn [mem].
  rewrite orb_false_r. apply orb_comm.
Qed.

Lemma maxl_rev l : maxl (rev l) = maxl l.
Proof.
  induction l as [|x l IH]; [reflexivity|]. cbn [rev]. rewrite maxl_app, IH, !maxl_cons.
  change (maxl []) with (-1). pose proof (maxl_ge l). lia.
Qed.

Theorem seen_spec : forall l d ds,
  Forall (fun p => 0 <= p) l ->
  inserts init l = Some (d, ds) ->
  forall m, 0 <= m -> seen d m = mem m l || (m + WINDOW_SIZE <=? maxl l).
Proof.
  intros l d ds HF H m Hm.
  destruct (inserts_char l init [] d ds HF spec_init H) as [[_ Hs] _].
  rewrite (Hs m Hm), app_nil_r, mem_rev, maxl_rev. reflexivity.
Qed.
