(** SendBuffer model: the buffered segments are always the suffix of the written bytes starting at
    [base = offset - unacked_len]; consequences for [get] and for the frames produced by
    poll_transmit + the copy loop, for all op sequences. *)
From QV Require Import Lib.Tac Lib.Bytes Lib.Corr Lib.RangeSpec Model.RangeSet Model.SendBuffer.
Open Scope Z_scope.

Definition base (s : t) : Z := offset s - unacked_len s.

(** [W] = everything written so far *)
Definition inv (W : list Z) (s : t) : Prop :=
  offset s = zlen W /\ 0 <= base s /\ unacked_len s = zlen (concat (segs s)) /\
  concat (segs s) = skipn (Z.to_nat (base s)) W.

Lemma csub_some a b c : csub a b = Some c -> c = a - b /\ b <= a.
Proof. unfold csub. destruct (b <=? a) eqn:E; [|discriminate]. intros [= <-]. lia. Qed.

Lemma inv_init : inv [] init.
Proof. unfold inv, base. cbn. repeat split; lia. Qed.

Lemma skipn_skipn {A} (x y : nat) (l : list A) : skipn x (skipn y l) = skipn (x + y) l.
Proof.
  revert l; induction y as [|y IH]; intros l.
  - now rewrite Nat.add_0_r.
  - destruct l as [|a l]; [now rewrite !skipn_nil|]. rewrite Nat.add_succ_r. cbn [skipn]. apply IH.
Qed.

Lemma skipn_app_le {A} n (l1 l2 : list A) : (n <= length l1)%nat -> skipn n (l1 ++ l2) = skipn n l1 ++ l2.
Proof. intros H. rewrite skipn_app. replace (n - length l1)%nat with 0%nat by lia. reflexivity. Qed.

Lemma inv_write W s d : inv W s -> inv (W ++ d) (write s d).
Proof.
  unfold inv, base, write, zlen. cbn [offset unacked_len segs]. intros (H1 & H2 & H3 & H4).
  rewrite concat_app. cbn [concat]. rewrite app_nil_r, !app_length.
  repeat split; try lia.
  rewrite H4. replace (Z.to_nat (offset s + Z.of_nat (length d) - (unacked_len s + Z.of_nat (length d))))
    with (Z.to_nat (offset s - unacked_len s)) by lia.
  rewrite skipn_app_le; [reflexivity|]. unfold zlen in *. lia.
Qed.

Lemma advance_spec sg : forall n sg', advance sg n = Some sg' -> 0 <= n ->
  concat sg' = skipn (Z.to_nat n) (concat sg) /\ n <= zlen (concat sg).
Proof.
  induction sg as [|f r IH]; intros n sg' H Hn.
  - cbn [advance] in H. destruct (n <=? 0) eqn:E; [|discriminate]. inversion H; subst.
    replace n with 0 by lia. cbn. split; [reflexivity | unfold zlen; cbn; lia].
  - cbn [advance] in H. destruct (n <=? 0) eqn:E.
    + inversion H; subst. replace n with 0 by lia. cbn [Z.to_nat skipn]. split; [reflexivity|].
      unfold zlen. lia.
    + destruct (zlen f <=? n) eqn:E2.
      * apply IH in H; [|lia]. destruct H as [H1 H2]. cbn [concat]. unfold zlen in *.
        rewrite app_length. split; [|lia].
        rewrite skipn_app, H1.
        rewrite (skipn_all2 f) by lia. cbn [app]. f_equal. lia.
      * inversion H; subst. cbn [concat]. unfold zlen in *. rewrite app_length. split; [|lia].
        rewrite skipn_app_le by lia. reflexivity.
Qed.

Lemma ack_loop_inv W a : forall sg ulen off a' sg' ulen',
  ack_loop a sg ulen off = Some (a', sg', ulen') ->
  off = zlen W -> 0 <= off - ulen -> ulen = zlen (concat sg) ->
  concat sg = skipn (Z.to_nat (off - ulen)) W ->
  0 <= off - ulen' /\ ulen' = zlen (concat sg') /\ concat sg' = skipn (Z.to_nat (off - ulen')) W.
Proof.
  induction a as [|[s e] r IH]; intros sg ulen off a' sg' ulen' H Ho Hb Hu Hc; cbn [ack_loop] in H.
  - inversion H; subst. auto.
  - destruct (csub off ulen) as [b|] eqn:E0; [|discriminate]. apply csub_some in E0 as [-> _].
    destruct (s =? off - ulen) eqn:E1.
    + destruct (csub e s) as [adv|] eqn:E2; [|discriminate]. apply csub_some in E2 as [-> Les].
      destruct (csub ulen (e - s)) as [ulen1|] eqn:E3; [|discriminate]. apply csub_some in E3 as [-> L3].
      destruct (advance sg (e - s)) as [sg1|] eqn:E4; [|discriminate].
      apply advance_spec in E4 as [A1 A2]; [|lia].
      apply IH in H; auto; try lia.
      * unfold zlen in *. rewrite A1, skipn_length. lia.
      * rewrite A1, Hc, skipn_skipn. f_equal. lia.
    + inversion H; subst. auto.
Qed.

Lemma inv_ack W s rs re s' : inv W s -> ack s rs re = Some s' -> inv W s'.
Proof.
  unfold inv, base, ack. intros (H1 & H2 & H3 & H4) H.
  destruct (csub (offset s) (unacked_len s)) as [b|]; [|discriminate].
  destruct (ack_loop _ _ _ _) as [[[a2 sg] ulen]|] eqn:E; [|discriminate].
  inversion H; subst; clear H. cbn [offset unacked_len segs].
  apply (ack_loop_inv W) in E; auto.
Qed.

(** [get]: the returned bytes are the written bytes at [gs] *)
Lemma get_from_before sg : forall seg_off gs ge d,
  get_from sg seg_off gs ge = Some d -> gs < seg_off -> d = [].
Proof.
  induction sg as [|f r IH]; intros seg_off gs ge d H Hlt; cbn [get_from] in H.
  - now inversion H.
  - destruct ((seg_off <=? gs) && (gs <? seg_off + zlen f)) eqn:E; [lia|].
    eapply IH; [exact H|]. unfold zlen. lia.
Qed.

Lemma get_from_spec sg : forall seg_off gs ge d,
  get_from sg seg_off gs ge = Some d -> seg_off <= gs ->
  d = firstn (length d) (skipn (Z.to_nat (gs - seg_off)) (concat sg)) /\
  zlen d <= Z.max 0 (ge - gs).
Proof.
  induction sg as [|f r IH]; intros seg_off gs ge d H Hle; cbn [get_from] in H.
  - inversion H; subst. split; [reflexivity | unfold zlen; cbn; lia].
  - destruct ((seg_off <=? gs) && (gs <? seg_off + zlen f)) eqn:E.
    + destruct (csub ge seg_off) as [en|] eqn:E1; [|discriminate]. apply csub_some in E1 as [-> L1].
      destruct (Z.min (ge - seg_off) (zlen f) <? gs - seg_off) eqn:E2; [discriminate|].
      inversion H; subst; clear H. cbn [concat]. unfold zlen in *.
      rewrite skipn_app_le by lia.
      set (k := Z.to_nat (Z.min (ge - seg_off) (Z.of_nat (length f)) - (gs - seg_off))).
      assert (Hk : (k <= length (skipn (Z.to_nat (gs - seg_off)) f))%nat)
        by (rewrite skipn_length; lia).
      rewrite firstn_length, Nat.min_l by exact Hk.
      split; [rewrite firstn_app; replace (k - _)%nat with 0%nat by lia; cbn [firstn]; now rewrite app_nil_r | lia].
    + destruct (Z.lt_ge_cases gs (seg_off + zlen f)) as [L|G]; [lia|].
      apply IH in H; [|lia]. destruct H as [H1 H2]. split; [|exact H2].
      cbn [concat]. rewrite skipn_app. unfold zlen in *.
      rewrite (skipn_all2 f) by lia. cbn [app].
      replace (Z.to_nat (gs - seg_off) - length f)%nat with (Z.to_nat (gs - (seg_off + Z.of_nat (length f)))) by lia.
      exact H1.
Qed.

Definition slice (l : list Z) (off len : Z) : list Z := SendBuffer.slice l off len.

Lemma get_sound W s gs ge d : inv W s -> get s gs ge = Some d ->
  d = slice W gs (zlen d) /\ zlen d <= Z.max 0 (ge - gs).
Proof.
  unfold inv, get, base. intros (H1 & H2 & H3 & H4) H.
  destruct (csub (offset s) (unacked_len s)) as [b|] eqn:E; [|discriminate]. apply csub_some in E as [-> _].
  destruct (Z.lt_ge_cases gs (offset s - unacked_len s)) as [L|G].
  - apply get_from_before in H; [|exact L]. subst d. split; [reflexivity | unfold zlen; cbn; lia].
  - apply get_from_spec in H; [|exact G]. destruct H as [Hd Hl]. split; [|exact Hl].
    rewrite Hd at 1. rewrite H4, skipn_skipn. unfold slice, SendBuffer.slice, zlen.
    rewrite Nat2Z.id. do 2 f_equal. lia.
Qed.

(** [sendbuffer_get_progress], local form: inside the buffered window a [get] for a non-empty
    range is non-empty (so the copy loop of write_stream_frames advances) *)
Lemma get_from_progress sg : forall seg_off gs ge,
  seg_off <= gs -> gs < ge -> gs < seg_off + zlen (concat sg) ->
  exists b d, get_from sg seg_off gs ge = Some (b :: d).
Proof.
  induction sg as [|f r IH]; intros seg_off gs ge H1 H2 H3; cbn [get_from].
  - unfold zlen in H3. cbn in H3. lia.
  - destruct ((seg_off <=? gs) && (gs <? seg_off + zlen f)) eqn:E.
    + unfold csub. destruct (seg_off <=? ge) eqn:E1; [|lia].
      destruct (Z.min (ge - seg_off) (zlen f) <? gs - seg_off) eqn:E2; [lia|].
      set (k := Z.to_nat (Z.min (ge - seg_off) (zlen f) - (gs - seg_off))).
      assert (Hk : (0 < k)%nat) by (unfold k; lia).
      destruct (skipn (Z.to_nat (gs - seg_off)) f) as [|b0 t] eqn:Es.
      * apply (f_equal (@length Z)) in Es. rewrite skipn_length in Es. unfold zlen in *. cbn in Es. lia.
      * destruct k as [|k']; [lia|]. cbn [firstn]. eauto.
    + cbn [concat] in H3. unfold zlen in *. rewrite app_length in H3.
      apply IH; lia.
Qed.

Theorem get_progress W s gs ge : inv W s ->
  base s <= gs -> gs < ge -> gs < offset s ->
  exists b d, get s gs ge = Some (b :: d).
Proof.
  unfold inv, get, base. intros (H1 & H2 & H3 & H4) Hb Hlt Ho.
  unfold csub. destruct (unacked_len s <=? offset s) eqn:E; [|lia].
  apply get_from_progress; lia.
Qed.

(** the copy loop accumulates exactly the written bytes of the range it has covered *)
Lemma firstn_add {A} n : forall m (l : list A),
  firstn (n + m) l = firstn n l ++ firstn m (skipn n l).
Proof.
  induction n as [|n IH]; intros m l; [reflexivity|].
  destruct l as [|x l]; cbn [plus firstn skipn app]; [now rewrite firstn_nil|]. now rewrite IH.
Qed.

Lemma slice_app W a n m : 0 <= a -> 0 <= n -> 0 <= m ->
  slice W a n ++ slice W (a + n) m = slice W a (n + m).
Proof.
  intros Ha Hn Hm. unfold slice, SendBuffer.slice.
  replace (Z.to_nat (n + m)) with (Z.to_nat n + Z.to_nat m)%nat by lia.
  rewrite firstn_add, skipn_skipn. do 3 f_equal. lia.
Qed.

Lemma copy_loop_sound W s fuel : forall gs ge acc rs d ok,
  inv W s -> 0 <= rs <= gs ->
  acc = slice W rs (gs - rs) -> zlen acc = gs - rs ->
  copy_loop fuel s gs ge acc = Some (d, ok) ->
  exists ge', rs <= ge' /\ d = slice W rs (ge' - rs) /\ zlen d = ge' - rs /\ (ok = true -> ge' = ge).
Proof.
  induction fuel as [|f IH]; intros gs ge acc rs d ok Hi Hr Ha Hl H; cbn [copy_loop] in H.
  - destruct (gs =? ge) eqn:E; inversion H; subst; exists gs; repeat split; auto; try lia; discriminate.
  - destruct (gs =? ge) eqn:E.
    { inversion H; subst. exists gs. repeat split; auto; lia. }
    destruct (get s gs ge) as [g|] eqn:G; [|discriminate].
    destruct g as [|g0 gt].
    { inversion H; subst. exists gs. repeat split; auto; try lia; discriminate. }
    apply get_sound with (W := W) in G; [|exact Hi]. destruct G as [G1 G2].
    set (g := g0 :: gt) in *.
    assert (Hg : 0 < zlen g) by (unfold zlen, g; cbn [length]; lia).
    apply IH with (rs := rs) in H; auto; try lia.
    + rewrite Ha.
      pose proof (slice_app W rs (gs - rs) (zlen g)) as S.
      replace (rs + (gs - rs)) with gs in S by lia. rewrite <- G1 in S. rewrite S by lia. f_equal. lia.
    + unfold zlen in *. rewrite app_length. lia.
Qed.

(* ------------------------------------------------------------ executions *)
Inductive op :=
| OWrite (d : list Z)
| OPoll (max_len : Z)
| OAck (rs re : Z)
| OGet (gs ge : Z)
| ORetransmit (rs re : Z)
| OZeroRtt
| OObserve
| OProbe.

Definition encode (o : op) : list Z :=
  match o with
  | OWrite d => 0 :: d
  | OPoll m => [1; m]
  | OAck rs re => [2; rs; re]
  | OGet gs ge => [3; gs; ge]
  | ORetransmit rs re => [4; rs; re]
  | OZeroRtt => [5]
  | OObserve => [6]
  | OProbe => [7]
  end.

Definition written_after (W : list Z) (o : op) : list Z :=
  match o with OWrite d => W ++ d | _ => W end.

(** a frame produced by poll_transmit + copy loop: (complete?, start, end, data) *)
Definition frame := (bool * Z * Z * list Z)%type.

Definition frame_of (o : op) (out : list Z) : list frame :=
  match o, out with
  | OPoll _, tag :: rs :: re :: enc :: d => [(tag =? 0, rs, re, d)]
  | _, _ => []
  end.

Fixpoint exec (s : t) (W : list Z) (os : list op) : option (t * list Z * list frame) :=
  match os with
  | [] => Some (s, W, [])
  | o :: r =>
      match step s (encode o) with
      | None => None
      | Some (s1, out) =>
          match exec s1 (written_after W o) r with
          | None => None
          | Some (s2, W2, fs) => Some (s2, W2, frame_of o out ++ fs)
          end
      end
  end.

Definition frame_ok (W : list Z) (f : frame) : Prop :=
  let '(complete, rs, re, d) := f in
  0 <= rs -> d = slice W rs (zlen d) /\ (complete = true -> zlen d = re - rs).

Lemma inv_same_buffer W s s' :
  segs s' = segs s -> unacked_len s' = unacked_len s -> offset s' = offset s -> inv W s -> inv W s'.
Proof. unfold inv, base. intros -> -> ->. auto. Qed.

Lemma poll_transmit_buffer s m s' r : poll_transmit s m = Some (s', r) ->
  segs s' = segs s /\ unacked_len s' = unacked_len s /\ offset s' = offset s.
Proof.
  unfold poll_transmit. destruct (m <? 16); [discriminate|].
  destruct (RangeSet.pop_min (retransmits s)) as [[[rs re]|] rt].
  - destruct (budget rs re m) as [[e enc]|]; [|discriminate]. intros [= <- <-]. auto.
  - destruct (budget _ _ m) as [[e enc]|]; [|discriminate]. intros [= <- <-]. auto.
Qed.

Lemma step_inv W s o s1 out :
  step s (encode o) = Some (s1, out) -> inv W s ->
  inv (written_after W o) s1 /\ Forall (frame_ok (written_after W o)) (frame_of o out).
Proof.
  intros H Hi. destruct o as [d | m | rs re | gs ge | rs re | | | ]; cbn [encode step] in H;
    cbn [written_after].
  - inversion H; subst. split; [now apply inv_write | constructor].
  - destruct (poll_transmit s m) as [[s' [[rs re] enc]]|] eqn:P; [|discriminate].
    apply poll_transmit_buffer in P as (P1 & P2 & P3).
    assert (Hi' : inv W s') by (eapply inv_same_buffer; eauto).
    destruct (copy_loop _ s' rs re []) as [[d ok]|] eqn:C; [|discriminate].
    inversion H; subst; clear H. split; [exact Hi'|].
    cbn [frame_of]. constructor; [|constructor]. unfold frame_ok. intros Hrs.
    apply copy_loop_sound with (W := W) (rs := rs) in C; auto; try lia.
    + destruct C as (ge' & C1 & C2 & C3 & C4). split; [now rewrite C3|].
      destruct ok; cbn; intros Hc; [rewrite C3, (C4 eq_refl); reflexivity | discriminate].
    + replace (rs - rs) with 0 by lia. reflexivity.
    + unfold zlen. cbn. lia.
  - destruct (ack s rs re) as [s'|] eqn:A; [|discriminate]. inversion H; subst.
    split; [eapply inv_ack; eauto | constructor].
  - destruct (get s gs ge); [|discriminate]. inversion H; subst. split; [auto | constructor].
  - unfold retransmit in H. destruct (unsent s <? re); [discriminate|]. inversion H; subst.
    split; [eapply inv_same_buffer; eauto | constructor].
  - unfold retransmit_all_for_0rtt in H. destruct (offset s =? unacked_len s); [|discriminate].
    inversion H; subst. split; [eapply inv_same_buffer; eauto | constructor].
  - destruct (unacked s); [|discriminate]. inversion H; subst. split; [auto | constructor].
  - inversion H; subst. split; [auto | constructor].
Qed.

Lemma slice_prefix W X a d : 0 <= a -> d = slice W a (zlen d) -> d = slice (W ++ X) a (zlen d).
Proof.
  unfold slice, SendBuffer.slice, zlen. rewrite Nat2Z.id. intros Ha Hd.
  destruct d as [|d0 dt] eqn:Ed; [reflexivity|]. rewrite <- Ed in *.
  assert (L : (length d <= length (skipn (Z.to_nat a) W))%nat).
  { rewrite Hd at 1. rewrite firstn_length. lia. }
  assert (L2 : (0 < length d)%nat) by (rewrite Ed; cbn; lia).
  rewrite skipn_length in L.
  rewrite skipn_app_le by lia. rewrite firstn_app.
  rewrite skipn_length. replace (length d - (length W - Z.to_nat a))%nat with 0%nat by lia.
  cbn [firstn]. rewrite app_nil_r. exact Hd.
Qed.

Lemma frame_ok_prefix W X f : frame_ok W f -> frame_ok (W ++ X) f.
Proof.
  destruct f as [[[c rs] re] d]. unfold frame_ok. intros H Hrs. destruct (H Hrs) as [H1 H2].
  split; [now apply slice_prefix | exact H2].
Qed.

Lemma exec_inv os : forall s W s' W' fs,
  exec s W os = Some (s', W', fs) -> inv W s ->
  inv W' s' /\ (exists X, W' = W ++ X) /\ Forall (frame_ok W') fs.
Proof.
  induction os as [|o r IH]; intros s W s' W' fs H Hi; cbn [exec] in H.
  - inversion H; subst. split; [auto|]. split; [exists []; now rewrite app_nil_r | constructor].
  - destruct (step s (encode o)) as [[s1 out]|] eqn:S; [|discriminate].
    destruct (exec s1 (written_after W o) r) as [[[s2 W2] fs2]|] eqn:X; [|discriminate].
    inversion H; subst; clear H.
    apply step_inv with (W := W) in S; auto. destruct S as [I1 F1].
    apply IH in X; auto. destruct X as (I2 & [Y HY] & F2).
    split; [exact I2|]. split.
    + destruct o; cbn [written_after] in HY; try (exists Y; exact HY).
      exists (d ++ Y). now rewrite app_assoc.
    + apply Forall_app. split; [|exact F2].
      rewrite HY. eapply Forall_impl; [|exact F1]. intros f. apply frame_ok_prefix.
Qed.

(** [sendbuffer_frames_sound]: for every op sequence (any writes, any max_len, acks and losses of
    any ranges in any order, 0-RTT restart) on which the model does not panic, every frame
    (start, end, data) produced by poll_transmit + the copy loop carries exactly the written bytes
    at its offsets: [data = slice written start (length data)], and when the copy loop completed,
    [length data = end - start]. *)
Theorem frames_sound os s' W' fs :
  exec init [] os = Some (s', W', fs) -> Forall (frame_ok W') fs.
Proof. intros H. apply exec_inv in H; [|apply inv_init]. now destruct H as (_ & _ & F). Qed.
