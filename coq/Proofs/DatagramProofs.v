(** Proofs about Model/DatagramState.v (C16, component level). *)
From QV Require Import Lib.Tac Lib.Bytes Lib.Corr gen.Constants Model.Varint Model.DatagramState.
Open Scope Z_scope.

(* ------------------------------------------------------------------ subsequences *)
Inductive subseq {A : Type} : list A -> list A -> Prop :=
| ss_nil : subseq [] []
| ss_skip x l1 l2 : subseq l1 l2 -> subseq l1 (x :: l2)
| ss_take x l1 l2 : subseq l1 l2 -> subseq (x :: l1) (x :: l2).

Lemma subseq_refl {A} (l : list A) : subseq l l.
Proof. induction l; [constructor | apply ss_take; auto]. Qed.

Lemma subseq_nil_l {A} (l : list A) : subseq [] l.
Proof. induction l; constructor; auto. Qed.

Lemma subseq_trans {A} (a b c : list A) : subseq a b -> subseq b c -> subseq a c.
Proof.
  intros Hab Hbc. revert a Hab. induction Hbc; intros a Hab.
  - inversion Hab; subst. constructor.
  - apply ss_skip. auto.
  - inversion Hab; subst.
    + apply ss_skip. auto.
    + apply ss_take. auto.
Qed.

Lemma subseq_app {A} (a b c d : list A) : subseq a b -> subseq c d -> subseq (a ++ c) (b ++ d).
Proof.
  intros H1 H2. induction H1; cbn [app]; auto; [apply ss_skip | apply ss_take]; auto.
Qed.

Lemma subseq_suffix {A} (pre k : list A) : subseq k (pre ++ k).
Proof. induction pre; cbn [app]; [apply subseq_refl | apply ss_skip; auto]. Qed.

Lemma subseq_filter {A} (f : A -> bool) (l : list A) : subseq (filter f l) l.
Proof. induction l; cbn [filter]; [constructor | destruct (f a); [apply ss_take | apply ss_skip]; auto]. Qed.

(* ------------------------------------------------------------------ sums *)
Lemma zlen_nonneg (d : list Z) : 0 <= zlen d.
Proof. unfold zlen. lia. Qed.

Lemma sum_len_nonneg l : 0 <= sum_len l.
Proof. induction l as [|d l IH]; cbn [sum_len fold_right]; [lia | pose proof (zlen_nonneg d); fold (sum_len l); lia]. Qed.

Lemma sum_len_cons d l : sum_len (d :: l) = zlen d + sum_len l.
Proof. reflexivity. Qed.

Lemma sum_len_app a b : sum_len (a ++ b) = sum_len a + sum_len b.
Proof.
  induction a as [|d a IH]; cbn [app]; [cbn; lia | rewrite !sum_len_cons, IH; lia].
Qed.

Lemma sum_len_single d : sum_len [d] = zlen d.
Proof. cbn. lia. Qed.

(* ------------------------------------------------------------------ the accounting invariant *)
Definition Inv (s : DState) : Prop :=
  outgoing_total s = sum_len (outgoing s) /\ recv_buffered s = sum_len (incoming s).

Lemma Inv_init : Inv init.
Proof. split; reflexivity. Qed.

(** [make_space_for]: the survivors are a suffix, their byte count is exact, nothing underflows,
    and no more than necessary is evicted. *)
Lemma make_space_spec out len size :
  exists pre kept,
    make_space out (sum_len out) len size = Ok (kept, sum_len kept) /\
    out = pre ++ kept /\
    (has_space (sum_len kept) len size = true \/ kept = []) /\
    (forall p1 d p2, pre = p1 ++ d :: p2 -> has_space (sum_len (d :: p2 ++ kept)) len size = false).
Proof.
  induction out as [|d r IH].
  - exists [], []. cbn [make_space]. destruct (has_space (sum_len []) len size) eqn:E.
    + repeat split; auto. intros p1 d p2 H. destruct p1; discriminate.
    + repeat split; auto. intros p1 d p2 H. destruct p1; discriminate.
  - cbn [make_space]. destruct (has_space (sum_len (d :: r)) len size) eqn:E.
    + exists [], (d :: r). repeat split; auto. intros p1 x p2 H. destruct p1; discriminate.
    + rewrite sum_len_cons.
      pose proof (sum_len_nonneg r) as Hr. pose proof (zlen_nonneg d) as Hd.
      destruct (zlen d + sum_len r <? zlen d) eqn:E2; [lia|].
      replace (zlen d + sum_len r - zlen d) with (sum_len r) by lia.
      destruct IH as (pre & kept & H1 & H2 & H3 & H4).
      exists (d :: pre), kept. repeat split; auto.
      * cbn [app]. now f_equal.
      * intros p1 x p2 H. destruct p1 as [|y p1]; cbn [app] in H; inversion H; subst.
        -- exact E.
        -- eapply H4. reflexivity.
Qed.

(** The eviction loop of [received]. *)
Lemma drop_stale_spec inc len window :
  len <= window -> 0 <= len ->
  exists pre kept,
    drop_stale inc (sum_len inc) len window = Ok (kept, sum_len kept) /\
    inc = pre ++ kept /\
    len + sum_len kept <= window /\
    (forall p1 d p2, pre = p1 ++ d :: p2 -> window < len + sum_len (d :: p2 ++ kept)).
Proof.
  intros Hw Hl. induction inc as [|d r IH].
  - exists [], []. cbn [drop_stale]. change (sum_len []) with 0.
    destruct (window <? len + 0) eqn:E; [lia|].
    repeat split; auto; [cbn; lia|]. intros p1 d p2 H. destruct p1; discriminate.
  - cbn [drop_stale]. destruct (window <? len + sum_len (d :: r)) eqn:E.
    + rewrite sum_len_cons.
      pose proof (sum_len_nonneg r) as Hr. pose proof (zlen_nonneg d) as Hd.
      destruct (zlen d + sum_len r <? zlen d) eqn:E2; [lia|].
      replace (zlen d + sum_len r - zlen d) with (sum_len r) by lia.
      destruct IH as (pre & kept & H1 & H2 & H3 & H4).
      exists (d :: pre), kept. repeat split; auto.
      * cbn [app]. now f_equal.
      * intros p1 x p2 H. destruct p1 as [|y p1]; cbn [app] in H; inversion H; subst.
        -- lia.
        -- eapply H4. reflexivity.
    + exists [], (d :: r). repeat split; auto; [lia|]. intros p1 x p2 H. destruct p1; discriminate.
Qed.

Lemma filter_len_le {A} (f : A -> bool) l : (length (filter f l) <= length l)%nat.
Proof. induction l; cbn [filter length]; [lia | destruct (f a); cbn [length]; lia]. Qed.

Lemma retain_small_spec out mp :
  retain_small out (sum_len out) mp =
    Ok (filter (fun d => zlen d <? mp) out, sum_len (filter (fun d => zlen d <? mp) out),
        negb (Nat.eqb (length (filter (fun d => zlen d <? mp) out)) (length out))).
Proof.
  assert (G : forall out extra, 0 <= extra ->
    retain_small out (extra + sum_len out) mp =
    Ok (filter (fun d => zlen d <? mp) out, extra + sum_len (filter (fun d => zlen d <? mp) out),
        negb (Nat.eqb (length (filter (fun d => zlen d <? mp) out)) (length out)))).
  { clear out. induction out as [|d r IH]; intros extra He.
    - reflexivity.
    - cbn [retain_small filter]. pose proof (sum_len_nonneg r) as Hr. pose proof (zlen_nonneg d) as Hd.
      destruct (zlen d <? mp) eqn:E.
      + rewrite sum_len_cons.
        replace (extra + (zlen d + sum_len r)) with ((extra + zlen d) + sum_len r) by lia.
        rewrite IH by lia. rewrite sum_len_cons. cbn [length Nat.eqb]. f_equal. f_equal. f_equal. lia.
      + rewrite sum_len_cons.
        destruct (extra + (zlen d + sum_len r) <? zlen d) eqn:E2; [lia|].
        replace (extra + (zlen d + sum_len r) - zlen d) with (extra + sum_len r) by lia.
        rewrite IH by lia. cbn [length].
        pose proof (filter_len_le (fun d => zlen d <? mp) r) as Hle.
        destruct (Nat.eqb (length (filter (fun d0 => zlen d0 <? mp) r)) (S (length r))) eqn:E3.
        * apply Nat.eqb_eq in E3. exfalso. rewrite E3 in Hle. exact (Nat.nle_succ_diag_l _ Hle).
        * reflexivity. }
  specialize (G out 0 ltac:(lia)). replace (0 + sum_len out) with (sum_len out) in G by lia.
  rewrite G. reflexivity.
Qed.

(* ------------------------------------------------------------------ max_size *)
Definition ctx_ok (c : Ctx) : Prop := overhead c + DATAGRAM_SIZE_BOUND <= mtu c.

Lemma max_size_fits_gen SB c :
  0 <= SB -> overhead c + SB <= mtu c ->
  match peer_max c with
  | None => max_size_gen SB c = Ok None
  | Some p =>
      exists v, max_size_gen SB c = Ok (Some v) /\ 0 <= v /\
                v + SB + overhead c <= mtu c /\ (SB <= p -> v <= p - SB) /\ (p < SB -> v = 0)
  end.
Proof.
  intros HSB Hok. unfold max_size_gen.
  destruct (mtu c - overhead c - SB <? 0) eqn:E; [lia|].
  destruct (peer_max c) as [p|]; [|reflexivity].
  eexists. split; [reflexivity|]. lia.
Qed.

(* ------------------------------------------------------------------ per-operation lemmas *)
Ltac notok Ho Hi :=
  split; [reflexivity|]; split; [split; [exact Ho | exact Hi]|]; split; [reflexivity|];
  split; [intros HH; discriminate HH|];
  split; [intros _; cbn [outgoing incoming send_blocked]; repeat split;
          try (now rewrite orb_false_r); try (now rewrite orb_true_r)
         | intros HH; exact HH].

Lemma send_spec c s d drop :
  Inv s -> ctx_ok c -> send_buf c <= USIZE_MAX ->
  exists s' code, send c s d drop = Ok (s', code) /\ Inv s' /\
    (* the admission table *)
    code = match recv_buf c with
           | None => S_DISABLED
           | Some _ =>
               match max_size c with
               | Ok (Some mx) =>
                   if Z.min mx (send_buf c) <? zlen d then S_TOOLARGE
                   else if drop || (outgoing_total s + zlen d <=? send_buf c) then S_OK
                   else S_BLOCKED
               | _ => S_UNSUPPORTED
               end
           end /\
    (code = S_OK ->
       exists pre kept, outgoing s = pre ++ kept /\ outgoing s' = kept ++ [d] /\
         (drop = false -> pre = []) /\
         (forall p1 x p2, pre = p1 ++ x :: p2 ->
            has_space (sum_len (x :: p2 ++ kept)) (zlen d) (send_buf c) = false) /\
         incoming s' = incoming s /\ send_blocked s' = send_blocked s) /\
    (code <> S_OK -> outgoing s' = outgoing s /\ incoming s' = incoming s /\
                     send_blocked s' = (send_blocked s || (code =? S_BLOCKED))) /\
    (sum_len (outgoing s) <= send_buf c -> sum_len (outgoing s') <= send_buf c).
Proof.
  intros [Ho Hi] Hc Hsb. unfold send.
  destruct (recv_buf c) as [rb|].
  2:{ exists s, S_DISABLED. notok Ho Hi. }
  pose proof (max_size_fits_gen DATAGRAM_SIZE_BOUND c ltac:(vm_compute; discriminate) Hc) as Hm.
  fold max_size in Hm.
  destruct (peer_max c) as [p|].
  2:{ rewrite Hm. exists s, S_UNSUPPORTED. notok Ho Hi. }
  destruct Hm as (mx & Hm & Hmx0 & _). rewrite Hm.
  pose proof (zlen_nonneg d) as Hd. pose proof (sum_len_nonneg (outgoing s)) as Hso.
  destruct (Z.min mx (send_buf c) <? zlen d) eqn:E1.
  { exists s, S_TOOLARGE. notok Ho Hi. }
  destruct drop.
  - rewrite Ho. destruct (make_space_spec (outgoing s) (zlen d) (send_buf c)) as (pre & kept & H1 & H2 & H3 & H4).
    rewrite H1. eexists _, S_OK. split; [reflexivity|]. split.
    { split; cbn [outgoing outgoing_total incoming recv_buffered]; auto.
      rewrite sum_len_app, sum_len_single. reflexivity. }
    split; [reflexivity|]. split; [|split].
    + intros _. exists pre, kept. cbn [outgoing incoming send_blocked]. repeat split; auto. discriminate.
    + intros H. exfalso. apply H. reflexivity.
    + intros _. cbn [outgoing]. rewrite sum_len_app, sum_len_single.
      destruct H3 as [H3|H3].
      * unfold has_space in H3. destruct (USIZE_MAX <? sum_len kept + zlen d); [discriminate|]. lia.
      * subst kept. change (sum_len []) with 0. lia.
  - cbn [orb]. unfold has_space.
    destruct (outgoing_total s + zlen d <=? send_buf c) eqn:E3.
    + destruct (USIZE_MAX <? outgoing_total s + zlen d) eqn:E2; [lia|].
      eexists _, S_OK. split; [reflexivity|]. split.
      { split; cbn [outgoing outgoing_total incoming recv_buffered]; auto.
        rewrite sum_len_app, sum_len_single, Ho. reflexivity. }
      split; [reflexivity|]. split; [|split].
      * intros _. exists [], (outgoing s). cbn [outgoing incoming send_blocked app]. repeat split; auto.
        intros p1 x p2 H. destruct p1; discriminate.
      * intros H. exfalso. apply H. reflexivity.
      * intros _. cbn [outgoing]. rewrite sum_len_app, sum_len_single. lia.
    + assert (E4 : (if USIZE_MAX <? outgoing_total s + zlen d then false else false) = false)
        by (destruct (USIZE_MAX <? outgoing_total s + zlen d); reflexivity).
      rewrite E4. eexists _, S_BLOCKED. notok Ho Hi.
Qed.

Lemma received_spec s d w :
  Inv s ->
  exists s' r, received s d w = Ok (s', r) /\ Inv s' /\ outgoing s' = outgoing s /\
    match w with
    | None => r = None /\ s' = s
    | Some x =>
        if x <? zlen d then r = None /\ s' = s
        else r = Some (recv_buffered s =? 0) /\
             exists pre kept, incoming s = pre ++ kept /\ incoming s' = kept ++ [d] /\
               recv_buffered s' <= x /\
               (forall p1 y p2, pre = p1 ++ y :: p2 -> x < zlen d + sum_len (y :: p2 ++ kept))
    end.
Proof.
  intros [Ho Hi]. unfold received. destruct w as [x|].
  2:{ exists s, None. repeat split; auto. }
  destruct (x <? zlen d) eqn:E.
  { exists s, None. repeat split; auto. }
  pose proof (zlen_nonneg d) as Hd.
  rewrite Hi.
  destruct (drop_stale_spec (incoming s) (zlen d) x ltac:(lia) Hd) as (pre & kept & H1 & H2 & H3 & H4).
  rewrite H1. eexists _, _. split; [reflexivity|]. split.
  { split; cbn [outgoing outgoing_total incoming recv_buffered]; auto.
    rewrite sum_len_app, sum_len_single. reflexivity. }
  split; [reflexivity|]. split; [reflexivity|].
  exists pre, kept. cbn [incoming recv_buffered]. repeat split; auto. lia.
Qed.

Lemma recv_spec s :
  Inv s ->
  match incoming s with
  | [] => recv s = Ok (s, None)
  | d :: r => exists s', recv s = Ok (s', Some d) /\ Inv s' /\ incoming s' = r /\
                         outgoing s' = outgoing s
  end.
Proof.
  intros [Ho Hi]. unfold recv. destruct (incoming s) as [|d r] eqn:E; [reflexivity|].
  rewrite sum_len_cons in Hi. pose proof (sum_len_nonneg r). pose proof (zlen_nonneg d).
  destruct (recv_buffered s <? zlen d) eqn:E2; [lia|].
  eexists. split; [reflexivity|]. split; [|split; reflexivity].
  split; cbn [outgoing outgoing_total incoming recv_buffered]; auto. lia.
Qed.

Lemma write_spec s bl mx :
  Inv s -> sum_len (outgoing s) < 2 ^ 62 ->
  match outgoing s with
  | [] => write s bl mx = Ok (s, None)
  | d :: r =>
      exists sz enc, frame_size d = Some sz /\ frame_encode d = Some enc /\
        if mx <? bl + sz then write s bl mx = Ok (s, None)
        else exists s', write s bl mx = Ok (s', Some enc) /\ Inv s' /\ outgoing s' = r /\
                        incoming s' = incoming s
  end.
Proof.
  intros [Ho Hi] Hb. unfold write. destruct (outgoing s) as [|d r] eqn:E; [reflexivity|].
  rewrite sum_len_cons in Ho, Hb. pose proof (sum_len_nonneg r). pose proof (zlen_nonneg d).
  unfold frame_size, frame_encode, Varint.size, Varint.encode.
  destruct (zlen d <? 0) eqn:E0; [lia|].
  assert (Hlt : zlen d < 2 ^ 62) by lia.
  destruct (zlen d <? 2 ^ 6); [|destruct (zlen d <? 2 ^ 14); [|destruct (zlen d <? 2 ^ 30);
    [|destruct (zlen d <? 2 ^ 62) eqn:E62; [|lia]]]];
  (eexists _, _; split; [reflexivity|]; split; [reflexivity|];
   match goal with |- context [mx <? ?a] => destruct (mx <? a) eqn:E3 end; [reflexivity|];
   destruct (outgoing_total s <? zlen d) eqn:E4; [lia|];
   eexists; split; [reflexivity|]; split; [|split; reflexivity];
   split; cbn [outgoing outgoing_total incoming recv_buffered]; auto; lia).
Qed.

Lemma drop_oversized_spec s mp :
  Inv s ->
  exists s', drop_oversized s mp =
               Ok (s', negb (Nat.eqb (length (outgoing s')) (length (outgoing s)))) /\ Inv s' /\
    outgoing s' = filter (fun d => zlen d <? mp) (outgoing s) /\ incoming s' = incoming s.
Proof.
  intros [Ho Hi]. unfold drop_oversized. rewrite Ho, retain_small_spec.
  exists (mkD (incoming s) (recv_buffered s) (filter (fun d => zlen d <? mp) (outgoing s))
              (sum_len (filter (fun d => zlen d <? mp) (outgoing s))) (send_blocked s)).
  split; [reflexivity|]. split; [|split; reflexivity].
  split; cbn [outgoing outgoing_total incoming recv_buffered]; auto.
Qed.

(* ------------------------------------------------------------------ runs with history *)
(** Ghost history: payloads accepted by [received] / returned by [recv] / accepted by [send] /
    emitted by [write] (the payload whose frame was appended), each in order. *)
Record Hist := mkH { acc_in : list bytes; delivered : list bytes; acc_out : list bytes; written : list bytes }.
Definition h0 : Hist := mkH [] [] [] [].

Definition hist_step (s : DState) (h : Hist) (op : Op) (code : Z) (payload : list Z) : Hist :=
  match op with
  | OReceived _ d => if code =? 0 then mkH (acc_in h ++ [d]) (delivered h) (acc_out h) (written h) else h
  | ORecv => if code =? 1 then mkH (acc_in h) (delivered h ++ [payload]) (acc_out h) (written h) else h
  | OSend _ d => if code =? S_OK then mkH (acc_in h) (delivered h) (acc_out h ++ [d]) (written h) else h
  | OWrite _ _ =>
      if code =? 1 then
        mkH (acc_in h) (delivered h) (acc_out h) (written h ++ [hd [] (outgoing s)])
      else h
  | _ => h
  end.

Fixpoint exec (c : Ctx) (s : DState) (h : Hist) (ops : list Op) : res (Ctx * DState * Hist) :=
  match ops with
  | [] => Ok (c, s, h)
  | op :: rest =>
      match step (c, s) op with
      | Ok (c', s', (code, payload)) => exec c' s' (hist_step s h op code payload) rest
      | Panic => Panic
      | Hang => Hang
      end
  end.

(** Side conditions on the op sequence: the MTU never drops below what one empty packet needs
    (otherwise [max_size] underflows, a documented panic), and the queued bytes stay below the
    varint range (so that [VarInt::from_u64(len).unwrap()] in [write] cannot fail). *)
Definition op_ok (cl : Z) (sb : Z) (op : Op) : Prop :=
  match op with
  | OSetMtu m => 1 + cl + 4 + TAG_LEN + DATAGRAM_SIZE_BOUND <= m
  | _ => True
  end.

Definition GInv (sb : Z) (s : DState) (h : Hist) : Prop :=
  Inv s /\ sum_len (outgoing s) <= sb /\
  subseq (delivered h ++ incoming s) (acc_in h) /\ subseq (written h ++ outgoing s) (acc_out h).

Lemma subseq_evict {A} (a pre kept L : list A) d :
  subseq (a ++ pre ++ kept) L -> subseq (a ++ kept ++ [d]) (L ++ [d]).
Proof.
  intros H. rewrite app_assoc. apply subseq_app; [|apply subseq_refl].
  eapply subseq_trans; [|exact H]. apply subseq_app; [apply subseq_refl | apply subseq_suffix].
Qed.

Lemma subseq_pop {A} (a : list A) d r L : subseq (a ++ d :: r) L -> subseq ((a ++ [d]) ++ r) L.
Proof. now rewrite <- app_assoc. Qed.

Lemma sum_len_filter_le f l : sum_len (filter f l) <= sum_len l.
Proof.
  induction l as [|d l IH]; cbn [filter]; [lia|].
  pose proof (zlen_nonneg d). destruct (f d); rewrite !sum_len_cons; lia.
Qed.

Lemma step_ginv c s h op :
  GInv (send_buf c) s h -> ctx_ok c -> send_buf c < 2 ^ 62 ->
  op_ok (cid_len c) (send_buf c) op ->
  exists c' s' code payload,
    step (c, s) op = Ok (c', s', (code, payload)) /\
    GInv (send_buf c') s' (hist_step s h op code payload) /\
    ctx_ok c' /\ send_buf c' = send_buf c /\ cid_len c' = cid_len c.
Proof.
  intros (HI & Hb & Hin & Hout) Hc Hsb2 Hop.
  assert (Hsb : send_buf c <= USIZE_MAX) by (unfold USIZE_MAX; lia).
  destruct op as [drop d| |bl mx|w d| |mp| |m|p]; cbn [step].
  - destruct (send_spec c s d drop HI Hc Hsb) as (s' & code & H1 & H2 & H3 & H4 & H5 & H6).
    rewrite H1. eexists _, _, _, _. split; [reflexivity|]. split; [|auto].
    unfold GInv, hist_step. split; [auto|]. split; [auto|]. destruct (code =? S_OK) eqn:E.
    + apply Z.eqb_eq in E. destruct (H4 E) as (pre & kept & Ha & Hb' & _ & _ & Hc' & _).
      cbn [acc_in delivered acc_out written]. rewrite Hc', Hb'. split; [auto|].
      rewrite Ha in Hout. eapply subseq_evict; exact Hout.
    + apply Z.eqb_neq in E. destruct (H5 E) as (Ha & Hb' & _). rewrite Ha, Hb'. auto.
  - pose proof (max_size_fits_gen DATAGRAM_SIZE_BOUND c ltac:(vm_compute; discriminate) Hc) as Hm.
    fold max_size in Hm. destruct (peer_max c).
    + destruct Hm as (v & Hm & _). rewrite Hm. eexists _, _, _, _. split; [reflexivity|].
      unfold GInv, hist_step. auto 10.
    + rewrite Hm. eexists _, _, _, _. split; [reflexivity|]. unfold GInv, hist_step. auto 10.
  - pose proof (write_spec s bl mx HI ltac:(lia)) as Hw.
    destruct (outgoing s) as [|d r] eqn:Eo.
    + rewrite Hw. eexists _, _, _, _. split; [reflexivity|]. unfold GInv, hist_step. cbn [Z.eqb].
      rewrite Eo. auto 10.
    + destruct Hw as (sz & enc & Hsz & Henc & Hw). destruct (mx <? bl + sz).
      * rewrite Hw. eexists _, _, _, _. split; [reflexivity|]. unfold GInv, hist_step. cbn [Z.eqb].
        rewrite Eo. auto 10.
      * destruct Hw as (s' & Hw & HI' & Ho' & Hi'). rewrite Hw.
        eexists _, _, _, _. split; [reflexivity|]. split; [|auto].
        unfold GInv, hist_step. cbn [Z.eqb acc_in delivered acc_out written hd].
        rewrite Ho', Hi'. split; [auto|]. rewrite sum_len_cons in Hb. pose proof (zlen_nonneg d).
        split; [lia|]. split; [auto|]. rewrite ?Eo. cbn [hd]. now apply subseq_pop.
  - destruct (received_spec s d w HI) as (s' & r & H1 & H2 & H3 & H4). rewrite H1.
    destruct w as [x|].
    + destruct (x <? zlen d).
      * destruct H4 as [-> ->]. eexists _, _, _, _. split; [reflexivity|]. unfold GInv, hist_step.
        cbn [Z.eqb]. auto 10.
      * destruct H4 as (-> & pre & kept & Ha & Hb' & _). eexists _, _, _, _. split; [reflexivity|].
        split; [|auto]. unfold GInv, hist_step. cbn [Z.eqb acc_in delivered acc_out written].
        rewrite H3, Hb'. split; [auto|]. split; [auto|]. split; [|auto].
        rewrite Ha in Hin. eapply subseq_evict; exact Hin.
    + destruct H4 as [-> ->]. eexists _, _, _, _. split; [reflexivity|]. unfold GInv, hist_step.
      cbn [Z.eqb]. auto 10.
  - pose proof (recv_spec s HI) as Hr. destruct (incoming s) as [|d r] eqn:Ei.
    + rewrite Hr. eexists _, _, _, _. split; [reflexivity|]. unfold GInv, hist_step. cbn [Z.eqb].
      rewrite Ei. auto 10.
    + destruct Hr as (s' & Hr & HI' & Hi' & Ho'). rewrite Hr.
      eexists _, _, _, _. split; [reflexivity|]. split; [|auto].
      unfold GInv, hist_step. cbn [Z.eqb acc_in delivered acc_out written].
      rewrite Ho', Hi'. split; [auto|]. split; [auto|]. split; [|auto]. now apply subseq_pop.
  - destruct (drop_oversized_spec s mp HI) as (s' & H1 & H2 & H3 & H4). rewrite H1.
    eexists _, _, _, _. split; [reflexivity|]. split; [|auto].
    unfold GInv, hist_step. rewrite H3, H4. split; [auto|].
    split; [eapply Z.le_trans; [apply sum_len_filter_le | exact Hb]|]. split; [auto|].
    eapply subseq_trans; [|exact Hout]. apply subseq_app; [apply subseq_refl | apply subseq_filter].
  - eexists _, _, _, _. split; [reflexivity|]. unfold GInv, hist_step. auto 10.
  - eexists _, _, _, _. split; [reflexivity|]. unfold GInv, hist_step. cbn [send_buf cid_len].
    split; [auto 10|]. split; [|auto]. unfold ctx_ok, overhead. cbn [mtu cid_len]. cbn [op_ok] in Hop. lia.
  - eexists _, _, _, _. split; [reflexivity|]. unfold GInv, hist_step. cbn [send_buf cid_len].
    split; [auto 10|]. split; [|auto]. unfold ctx_ok, overhead in *. cbn [mtu cid_len]. lia.
Qed.

(** All runs: no panic, no hang, and the invariant at the end. *)
Theorem exec_ginv ops : forall c s h,
  GInv (send_buf c) s h -> ctx_ok c -> send_buf c < 2 ^ 62 ->
  Forall (op_ok (cid_len c) (send_buf c)) ops ->
  exists c' s' h', exec c s h ops = Ok (c', s', h') /\ GInv (send_buf c) s' h' /\
                   send_buf c' = send_buf c.
Proof.
  induction ops as [|op rest IH]; intros c s h HG Hc Hsb Hops.
  - exists c, s, h. auto.
  - inversion Hops as [|? ? Hop Hrest]; subst.
    destruct (step_ginv c s h op HG Hc Hsb Hop) as (c' & s' & code & payload & H1 & H2 & H3 & H4 & H5).
    cbn [exec]. rewrite H1.
    rewrite <- H4, <- H5 in Hrest.
    destruct (IH c' s' _ H2 H3 ltac:(lia) Hrest) as (c2 & s2 & h2 & Ha & Hb & Hc2).
    exists c2, s2, h2. rewrite H4 in *. auto.
Qed.

Lemma GInv_init sb : 0 <= sb -> GInv sb init h0.
Proof.
  intros H. split; [apply Inv_init|]. split; [cbn; lia|]. split; cbn; constructor.
Qed.

(* ------------------------------------------------------------------ final forms (Props/C16.v) *)
Definition run_ok (c : Ctx) (ops : list Op) : Prop :=
  ctx_ok c /\ 0 <= send_buf c < 2 ^ 62 /\ Forall (op_ok (cid_len c) (send_buf c)) ops.

Lemma buffer_accounting c ops :
  run_ok c ops ->
  exists c' s' h', exec c init h0 ops = Ok (c', s', h') /\
    outgoing_total s' = sum_len (outgoing s') /\
    recv_buffered s' = sum_len (incoming s') /\
    0 <= outgoing_total s' <= send_buf c /\ 0 <= recv_buffered s' /\
    send_buffer_space c' s' = send_buf c - outgoing_total s'.
Proof.
  intros (Hc & Hsb & Hops).
  destruct (exec_ginv ops c init h0 (GInv_init (send_buf c) ltac:(lia)) Hc ltac:(lia) Hops)
    as (c' & s' & h' & He & ((Ho & Hi) & Hb & _) & Hsb').
  exists c', s', h'. split; [exact He|]. split; [exact Ho|]. split; [exact Hi|].
  pose proof (sum_len_nonneg (outgoing s')). pose proof (sum_len_nonneg (incoming s')).
  unfold send_buffer_space. rewrite Hsb'. rewrite Ho, Hi. clear Hsb Hops He.
  repeat split; try lia.
Qed.

Lemma datagrams_intact_fifo c ops :
  run_ok c ops ->
  exists c' s' h', exec c init h0 ops = Ok (c', s', h') /\
    subseq (delivered h' ++ incoming s') (acc_in h') /\
    subseq (written h' ++ outgoing s') (acc_out h').
Proof.
  intros (Hc & Hsb & Hops).
  destruct (exec_ginv ops c init h0 (GInv_init (send_buf c) ltac:(lia)) Hc ltac:(lia) Hops)
    as (c' & s' & h' & He & (_ & _ & Hin & Hout) & _).
  exists c', s', h'. auto.
Qed.

(** Every state reached by a run satisfies the accounting invariant (used to apply the
    per-operation statements below to reachable states). *)
Lemma reachable_inv c ops c' s' h' :
  run_ok c ops -> exec c init h0 ops = Ok (c', s', h') -> Inv s' /\ sum_len (outgoing s') <= send_buf c.
Proof.
  intros (Hc & Hsb & Hops) He.
  destruct (exec_ginv ops c init h0 (GInv_init (send_buf c) ltac:(lia)) Hc ltac:(lia) Hops)
    as (c2 & s2 & h2 & He2 & (HI & Hb & _) & _).
  rewrite He in He2. inversion He2; subst. auto.
Qed.

Lemma receive_overflow_drops_oldest s d x :
  Inv s -> zlen d <= x ->
  exists s' pre kept,
    received s d (Some x) = Ok (s', Some (recv_buffered s =? 0)) /\
    incoming s = pre ++ kept /\ incoming s' = kept ++ [d] /\
    recv_buffered s' = sum_len (incoming s') /\ recv_buffered s' <= x /\
    (forall p1 y p2, pre = p1 ++ y :: p2 -> x < zlen d + sum_len (y :: p2 ++ kept)).
Proof.
  intros HI Hx. destruct (received_spec s d (Some x) HI) as (s' & r & H1 & (_ & H2) & _ & H4).
  destruct (x <? zlen d) eqn:E; [lia|].
  destruct H4 as (-> & pre & kept & Ha & Hb & Hc & Hd).
  exists s', pre, kept. auto 10.
Qed.

Lemma receive_rejects s d w :
  (match w with None => True | Some x => x < zlen d end) -> received s d w = Ok (s, None).
Proof.
  intros H. unfold received. destruct w as [x|]; [|reflexivity].
  destruct (x <? zlen d) eqn:E; [reflexivity|lia].
Qed.

Lemma drop_oversized_exact s mp :
  Inv s ->
  exists s', drop_oversized s mp =
               Ok (s', negb (Nat.eqb (length (outgoing s')) (length (outgoing s)))) /\
    outgoing s' = filter (fun d => zlen d <? mp) (outgoing s) /\
    outgoing_total s' = sum_len (outgoing s') /\ incoming s' = incoming s.
Proof.
  intros HI. destruct (drop_oversized_spec s mp HI) as (s' & H1 & (H2 & _) & H3 & H4).
  exists s'. auto.
Qed.

Lemma write_exact s bl mx :
  Inv s -> sum_len (outgoing s) < 2 ^ 62 ->
  match outgoing s with
  | [] => write s bl mx = Ok (s, None)
  | d :: r =>
      exists sz enc, frame_size d = Some sz /\ frame_encode d = Some enc /\ zlen enc = sz /\
        if mx <? bl + sz then write s bl mx = Ok (s, None)
        else exists s', write s bl mx = Ok (s', Some enc) /\ outgoing s' = r /\
                        outgoing_total s' = sum_len r /\ incoming s' = incoming s
  end.
Proof.
  intros HI Hb. pose proof (write_spec s bl mx HI Hb) as H.
  destruct (outgoing s) as [|d r]; [exact H|].
  destruct H as (sz & enc & H1 & H2 & H3). exists sz, enc. split; [exact H1|]. split; [exact H2|].
  split.
  - unfold frame_size, frame_encode, Varint.size, Varint.encode in H1, H2.
    pose proof (zlen_nonneg d).
    destruct (zlen d <? 0); [discriminate|].
    destruct (zlen d <? 2 ^ 6); [|destruct (zlen d <? 2 ^ 14); [|destruct (zlen d <? 2 ^ 30);
      [|destruct (zlen d <? 2 ^ 62); [|discriminate]]]];
    inversion H1; inversion H2; subst; unfold zlen in *; cbn [length be_bytes app];
    rewrite ?app_length; cbn [length]; lia.
  - destruct (mx <? bl + sz); [exact H3|].
    destruct H3 as (s' & Ha & (Hb' & _) & Hc & Hd). exists s'. rewrite Hc in Hb'. auto.
Qed.
