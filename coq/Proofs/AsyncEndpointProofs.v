(** C18 — endpoint half: invariant of Model/AsyncEndpoint.v and its consequences. *)
From QV Require Import Lib.Tac Model.AsyncEndpoint.
From Coq Require Import Arith.

Definition eregistered (s : est) (t : nat) (o : eop) : Prop :=
  match o with EAccept => e_winc s t = true | EWaitIdle => e_widle s t = true end.

Record EInv (s : est) : Prop := {
  ei_wake : forall t o, e_pend s t = Some o ->
      e_run s t = true \/ (eregistered s t o /\ econd s o = false);
  ei_winc : forall t, e_winc s t = true -> e_pend s t = Some EAccept;
  ei_widle : forall t, e_widle s t = true -> e_pend s t = Some EWaitIdle;
  ei_drv : e_alive s = true -> e_drun s = true \/ e_dwaker s = true;
  (** the driver notices that it may exit *)
  ei_exit : e_alive s = true -> e_refs s = 0%Z -> e_conns s = 0 -> e_drun s = true;
  ei_lost : e_alive s = false -> e_lost s = true;
  ei_refs : e_alive s = true -> (0 <= e_refs s)%Z
}.

Ltac eq_cases :=
  repeat match goal with
  | |- context [Nat.eqb ?a ?b] => destruct (Nat.eqb a b) eqn:?
  | H : context [Nat.eqb ?a ?b] |- _ => destruct (Nat.eqb a b) eqn:?
  end;
  repeat match goal with
  | H : Nat.eqb _ _ = true |- _ => apply Nat.eqb_eq in H; subst
  | H : Nat.eqb _ _ = false |- _ => apply Nat.eqb_neq in H
  end.

Lemma EInv_init : EInv einit.
Proof. constructor; cbn; intros; try discriminate; auto; lia. Qed.

(** the part of the invariant that holds in the middle of a driver poll: accept waiters are
    registered or runnable; [lost]/[close] do not change *)
Record EMid (l c : bool) (s : est) : Prop := {
  em_lost : e_lost s = l; em_close : e_close s = c;
  em_acc : forall t, e_pend s t = Some EAccept ->
      e_run s t = true \/ (e_winc s t = true /\ l = false /\ c = false);
  em_idle : forall t, e_pend s t = Some EWaitIdle ->
      e_run s t = true \/ (e_widle s t = true /\ Nat.eqb (e_conns s) 0 = false);
  em_winc : forall t, e_winc s t = true -> e_pend s t = Some EAccept;
  em_widle : forall t, e_widle s t = true -> e_pend s t = Some EWaitIdle;
  em_alive : e_alive s = true; em_dw : e_dwaker s = true; em_dr : e_drun s = false;
  em_refs : (0 <= e_refs s)%Z
}.

Lemma EMid_event : forall l c s e, EMid l c s -> EMid l c (edrv_event s e).
Proof.
  intros l c s e H. destruct H. destruct e as [id|]; unfold edrv_event.
  - destruct (e_close s) eqn:Ec; constructor; cbn; auto; congruence.
  - destruct (e_conns s) as [|n] eqn:En; [constructor; auto; intros t Ht; rewrite En; auto|].
    destruct (Nat.eqb n 0) eqn:E0.
    + constructor; cbn; auto.
      * intros t Ht. destruct (em_acc0 t Ht) as [Hr | Hr]; [left; rewrite Hr; auto | right; auto].
      * intros t Ht. destruct (em_idle0 t Ht) as [Hr | [Hr _]]; left; rewrite Hr; auto using orb_true_r.
      * intros; discriminate.
    + constructor; cbn; auto.
      intros t Ht. destruct (em_idle0 t Ht) as [Hr | [Hr _]]; auto.
Qed.

Lemma EMid_fold : forall evs l c s, EMid l c s -> EMid l c (fold_left edrv_event evs s).
Proof. induction evs; cbn; intros; auto using EMid_event. Qed.

Lemma EInv_drv : forall s evs, EInv s -> EInv (edrv_poll s evs).
Proof.
  intros s evs H. unfold edrv_poll. destruct (e_alive s) eqn:Ea; cbn [negb]; auto.
  set (s1 := emk _ _ _ _ _ _ _ _ _ true true false).
  assert (M : EMid (e_lost s) (e_close s) s1).
  { destruct H. constructor; cbn; auto.
    - intros t Ht. destruct (ei_wake0 t _ Ht) as [Hr | [Hg Hc]]; auto. right. cbn in Hg, Hc.
      apply orb_false_iff in Hc as [Hc Hc2]. apply orb_false_iff in Hc as [Hc Hc1]. auto.
    - intros t Ht. destruct (ei_wake0 t _ Ht) as [Hr | [Hg Hc]]; auto. }
  apply (EMid_fold evs) in M. set (s2 := fold_left edrv_event evs s1) in *.
  assert (M3 : EMid (e_lost s) (e_close s) (match e_incoming s2 with [] => s2 | _ => notify_inc s2 end)
               /\ forall t, e_pend s2 t = Some EAccept -> e_incoming s2 <> [] ->
                   e_run (match e_incoming s2 with [] => s2 | _ => notify_inc s2 end) t = true).
  { destruct M. destruct (e_incoming s2) eqn:Ei.
    - split; [constructor; auto | congruence].
    - split.
      + constructor; cbn; auto.
        * intros t Ht. destruct (em_acc0 t Ht) as [Hr | [Hr _]]; left; rewrite Hr; auto using orb_true_r.
        * intros t Ht. destruct (em_idle0 t Ht) as [Hr | Hr]; [left; rewrite Hr; auto | right; auto].
        * intros; discriminate.
      + intros t Ht _. cbn. destruct (em_acc0 t Ht) as [Hr | [Hr _]]; rewrite Hr; auto using orb_true_r. }
  destruct M3 as [M3 Hacc]. set (s3 := match e_incoming s2 with [] => s2 | _ => notify_inc s2 end) in *.
  assert (Hinc : e_incoming s3 = e_incoming s2) by (subst s3; destruct (e_incoming s2) eqn:E; cbn; auto).
  destruct M3.
  destruct (Z.eqb (e_refs s3) 0 && Nat.eqb (e_conns s3) 0) eqn:Ex.
  - (* exit *)
    constructor; cbn; try discriminate; auto.
    + intros t o Ht. destruct o.
      * destruct (em_acc0 t Ht) as [Hr | [Hr _]]; left; rewrite Hr; auto using orb_true_r.
      * destruct (em_idle0 t Ht) as [Hr | [_ Hr]]; [left; rewrite Hr; auto|].
        apply andb_true_iff in Ex as [_ Ex]. congruence.
  - constructor; auto.
    + intros t o Ht. destruct o.
      * destruct (em_acc0 t Ht) as [Hr | [Hr [Hl Hc]]]; auto.
        destruct (e_incoming s2) eqn:Ei.
        -- right. split; [exact Hr|]. cbn. rewrite Hinc, em_lost0, em_close0, Hl, Hc. reflexivity.
        -- left. apply Hacc; [|congruence]. subst s3. cbn in Ht. exact Ht.
      * destruct (em_idle0 t Ht) as [Hr | [Hr Hc]]; auto.
    + intros _ Hr Hc. rewrite Hr, Hc in Ex. discriminate.
    + rewrite em_alive0. discriminate.
Qed.

Ltac poll_fin W t :=
  constructor; cbn;
  try solve [auto];
  try solve [intros t' Ht'; unfold eupd in *; destruct (Nat.eqb t' t); first [discriminate | solve [auto]]];
  try (intros t' o' Ht'; unfold eupd in *; destruct (Nat.eqb t' t) eqn:E;
      [ try discriminate; try (inversion Ht'; subst; right; cbn; rewrite ?E; auto)
      | destruct (W t' o' Ht') as [Hr | [Hg Hc]]; auto; right; destruct o'; cbn in *; rewrite ?E; auto ]).

Lemma EInv_step : forall s l, EInv s -> EInv (estep' s l).
Proof.
  intros s l H. destruct l as [t o|t|evs| | | |]; unfold estep', estep; cbn [fst].
  - (* poll *)
    destruct H as [W Wi Wd D X L R]. unfold epoll, erelease; cbn.
    destruct o.
    + destruct (e_lost s) eqn:El; [poll_fin W t; rewrite El in Hc; discriminate|].
      destruct (e_incoming s) as [|id rest] eqn:Ei.
      * destruct (e_close s) eqn:Ec; poll_fin W t.
        all: try (rewrite El, Ei, Ec; auto). all: try (rewrite El, Ei, Ec in Hc; cbn in Hc; discriminate).
      * poll_fin W t. all: try (rewrite El, Ei in Hc; cbn in Hc; discriminate).
        -- intros Ha Hr. specialize (R Ha). lia.
        -- intros Ha. specialize (R Ha). lia.
    + destruct (Nat.eqb (e_conns s) 0) eqn:Ec; poll_fin W t.
      all: try (rewrite Ec; auto).
  - (* drop *)
    destruct H as [W Wi Wd D X L R]. unfold erelease. poll_fin W t.
  - apply EInv_drv; exact H.
  - (* close *)
    destruct H. constructor; cbn; auto.
    + intros t' o' Ht'. destruct (ei_wake0 t' o' Ht') as [Hr | [Hg Hc]]; [left; rewrite Hr; auto|].
      destruct o'; cbn in *; [left; rewrite Hg; auto using orb_true_r | right; auto].
    + intros; discriminate.
  - (* connect *)
    destruct (e_lost s || e_close s || negb (Z.ltb 0 (e_refs s))) eqn:Eg; auto.
    apply orb_false_iff in Eg as [Eg Er]. apply negb_false_iff in Er. apply Z.ltb_lt in Er.
    destruct H. constructor; cbn; auto.
    + intros t' o' Ht'. destruct (ei_wake0 t' o' Ht') as [Hr | [Hg Hc]]; auto.
      right. destruct o'; cbn in *; auto.
    + intros _ Hr. lia.
  - (* clone *)
    destruct (Z.ltb 0 (e_refs s)) eqn:Er; auto. apply Z.ltb_lt in Er.
    destruct H. constructor; cbn; auto; intros; lia.
  - (* handle drop *)
    destruct (Z.ltb 0 (e_refs s)) eqn:Er; auto. apply Z.ltb_lt in Er.
    destruct (Z.ltb 1 (e_refs s)) eqn:E1.
    + apply Z.ltb_lt in E1. destruct H. constructor; cbn; auto; intros; lia.
    + apply Z.ltb_ge in E1. unfold wake_edriver; cbn. destruct H.
      destruct (e_dwaker s) eqn:Ew; constructor; cbn; auto; try (intros; lia).
      intros Ha _ _. destruct (ei_drv0 Ha) as [Hd | Hd]; congruence.
Qed.

Theorem EInv_run : forall ls, EInv (erun ls).
Proof.
  unfold erun. intros ls. generalize EInv_init. generalize einit.
  induction ls as [|l ls IH]; cbn; intros s H; auto using EInv_step.
Qed.

(** consequences *)
Theorem endpoint_no_lost_wakeup : forall ls t o,
  e_pend (erun ls) t = Some o -> econd (erun ls) o = true -> e_run (erun ls) t = true.
Proof.
  intros ls t o Hp Hc. destruct (ei_wake _ (EInv_run ls) t o Hp) as [Hr | [_ Hf]]; auto. congruence.
Qed.

Theorem endpoint_driver_exit_not_missed : forall ls,
  e_alive (erun ls) = true -> e_refs (erun ls) = 0%Z -> e_conns (erun ls) = 0 -> e_drun (erun ls) = true.
Proof. intros ls. apply (ei_exit _ (EInv_run ls)). Qed.

Theorem endpoint_driver_exits : forall s,
  e_alive s = true -> e_refs s = 0%Z -> e_conns s = 0 ->
  e_alive (edrv_poll s []) = false /\ e_lost (edrv_poll s []) = true.
Proof.
  intros s Ha Hr Hc. unfold edrv_poll. rewrite Ha. cbn.
  destruct (e_incoming s); cbn; rewrite Hr, Hc; cbn; auto.
Qed.

(** close wakes every pending accept; afterwards accept never pends *)
Theorem endpoint_close_wakes_accept : forall ls t,
  e_pend (estep' (erun ls) LClose) t = Some EAccept -> e_run (estep' (erun ls) LClose) t = true.
Proof.
  intros ls t Hp. pose proof (EInv_step _ LClose (EInv_run ls)) as H.
  destruct (ei_wake _ H t _ Hp) as [Hr | [_ Hc]]; auto.
  unfold estep', estep in Hc. cbn in Hc. rewrite orb_true_r in Hc. discriminate.
Qed.

Theorem endpoint_closed_accept_never_pends : forall s t,
  e_close s = true -> snd (epoll s t EAccept) <> EPending.
Proof.
  intros s t Hc. unfold epoll, erelease; cbn. destruct (e_lost s); [discriminate|].
  destruct (e_incoming s); [rewrite Hc|]; discriminate.
Qed.

(** cancel safety: dropping a pending accept / wait_idle future changes nothing but the task's
    own registration; no connection attempt is lost *)
Theorem endpoint_drop_changes_nothing : forall s t,
  let s' := estep' s (LDrop t) in
  e_incoming s' = e_incoming s /\ e_close s' = e_close s /\ e_conns s' = e_conns s /\ e_refs s' = e_refs s
  /\ e_winc s' t = false /\ e_widle s' t = false.
Proof.
  intros s t. unfold estep', estep, erelease; cbn. unfold eupd. rewrite Nat.eqb_refl. auto 10.
Qed.

Example endpoint_teardown :
  let s := erun [LConnect; LPoll 1 EWaitIdle; LDrv []; LHandleDrop; LDrv [VDrained]] in
  e_alive s = false /\ e_lost s = true /\ e_run s 1 = true /\ e_refs s = (-1)%Z.
Proof. vm_compute. auto. Qed.

Example endpoint_accept_wakeup :
  let s := erun [LPoll 1 EAccept; LPoll 2 EAccept; LDrop 1; LDrv [VIncoming 7]] in
  e_run s 2 = true /\ e_run s 1 = false /\ e_winc s 1 = false /\
  snd (estep s (LPoll 3 EAccept)) = EReady (EIncoming 7).
Proof. vm_compute. auto. Qed.
