(** Proofs about Model/Frames.v: primitive reader/writer round trips, frame round trips. *)
From QV Require Import Lib.Tac Lib.Bytes Lib.Corr Model.Varint Model.Frames
  Proofs.BytesProofs Proofs.VarintProofs.
Open Scope Z_scope.

(** * Primitive writers and readers *)
Definition venc (x : Z) : list Z :=
  match Varint.encode x with Some b => b | None => [] end.

Lemma in62_true x : in62 x = true <-> 0 <= x < 2 ^ 62.
Proof. unfold in62. lia. Qed.

Lemma wv_venc x : 0 <= x < 2 ^ 62 -> wv x = Some (venc x).
Proof.
  intros Hx. destruct (varint_roundtrip x [] Hx) as (b & Hb & _).
  unfold wv, venc. now rewrite Hb.
Qed.

Lemma get_var_venc x r : 0 <= x < 2 ^ 62 -> get_var (venc x ++ r) = DOk x r.
Proof.
  intros Hx. destruct (varint_roundtrip x r Hx) as (b & Hb & Hd).
  unfold get_var, venc. now rewrite Hb, Hd.
Qed.

Lemma venc_length x : 0 <= x < 2 ^ 62 -> (1 <= length (venc x) <= 8)%nat.
Proof.
  intros Hx. unfold venc, Varint.encode.
  destruct (x <? 0) eqn:E0; [lia|].
  destruct (x <? 2 ^ 6); [rewrite be_bytes_length; lia|].
  destruct (x <? 2 ^ 14); [rewrite be_bytes_length; lia|].
  destruct (x <? 2 ^ 30); [rewrite be_bytes_length; lia|].
  destruct (x <? 2 ^ 62) eqn:E; [rewrite be_bytes_length; lia|lia].
Qed.

Lemma venc_size x : 0 <= x < 2 ^ 62 -> Varint.size x = Some (zlen (venc x)).
Proof.
  intros Hx. destruct (varint_size_encode x Hx) as (b & s & Hb & Hs & Hl).
  unfold venc. rewrite Hb, Hs. now subst.
Qed.

Lemma get_n_app d r : get_n (length d) (d ++ r) = DOk d r.
Proof.
  unfold get_n. rewrite app_length.
  replace (Nat.ltb (length d + length r) (length d)) with false
    by (symmetry; apply Nat.ltb_ge; lia).
  now rewrite firstn_app_exact, skipn_app_exact.
Qed.

Lemma get_u64_bytes v r : 0 <= v <= U64_MAX -> get_u64 (be_bytes 8 v ++ r) = DOk v r.
Proof.
  intros Hv. unfold get_u64.
  replace 8%nat with (length (be_bytes 8 v)) at 1 by apply be_bytes_length.
  rewrite get_n_app. cbn [bind]. rewrite be_val_be_bytes.
  unfold U64_MAX in Hv. change (256 ^ Z.of_nat 8) with (2 ^ 64).
  rewrite Z.mod_small by lia. f_equal.
Qed.

Lemma take_len_app d r :
  0 <= zlen d < 2 ^ 62 -> take_len (venc (zlen d) ++ d ++ r) = DOk d r.
Proof.
  intros Hd. unfold take_len. rewrite get_var_venc by exact Hd. cbn [bind].
  unfold zlen in *. rewrite app_length.
  destruct (Z.of_nat (length d + length r) <? Z.of_nat (length d)) eqn:E; [lia|].
  rewrite Nat2Z.id. now rewrite firstn_app_exact, skipn_app_exact.
Qed.

(** [take_remaining] for frames without a length field. *)
Lemma ocat_cons_some a tl :
  ocat (Some a :: tl) = match ocat tl with Some b => Some (a ++ b) | None => None end.
Proof. reflexivity. Qed.

Lemma wlen_bytes_some d :
  0 <= zlen d < 2 ^ 62 -> wlen_bytes d = Some (venc (zlen d) ++ d ++ []).
Proof. intros Hd. unfold wlen_bytes. rewrite wv_venc by exact Hd. reflexivity. Qed.

(** * Frame round trips *)
Ltac wf_hyps :=
  repeat match goal with
         | H : _ && _ = true |- _ => apply andb_true_iff in H; destruct H
         | H : in62 _ = true |- _ => apply in62_true in H
         end.

Ltac norm_app := rewrite <- ?app_assoc; cbn [app].

(** Type bytes of the frame types below 64 are the single byte itself. *)
Lemma venc_small t : 0 <= t < 64 -> venc t = [t].
Proof.
  intros Ht. unfold venc, Varint.encode.
  destruct (t <? 0) eqn:E0; [lia|]. destruct (t <? 2 ^ 6) eqn:E1; [|lia].
  cbn [be_bytes]. change (Z.of_nat 0) with 0. rewrite Z.pow_0_r, Z.div_1_r.
  rewrite Z.mod_small by lia. reflexivity.
Qed.

Definition frame_ty (withlen : bool) (f : frame) : Z :=
  match f with
  | Padding => 0 | Ping => 1
  | Ack _ _ _ None => 2 | Ack _ _ _ (Some _) => 3
  | ResetStream _ _ _ => 4 | StopSending _ _ => 5 | Crypto _ _ => 6 | NewToken _ => 7
  | Stream _ off fin _ => 8 + (if off =? 0 then 0 else 4) + (if withlen then 2 else 0) + b2z fin
  | MaxData _ => 16 | MaxStreamData _ _ => 17 | MaxStreams u _ => 18 + b2z u
  | DataBlocked _ => 20 | StreamDataBlocked _ _ => 21 | StreamsBlocked u _ => 22 + b2z u
  | NewConnectionId _ _ _ _ => 24 | RetireConnectionId _ => 25
  | PathChallenge _ => 26 | PathResponse _ => 27
  | CloseConn _ _ _ => 28 | CloseApp _ _ => 29
  | HandshakeDone => 30 | ImmediateAck => 31
  | Datagram _ => 48 + b2z withlen
  | AckFrequency _ _ _ _ => 175
  end.

Lemma try_next_venc ty x : 0 <= ty < 2 ^ 62 -> try_next (venc ty ++ x) = frame_body ty x.
Proof. intros H. unfold try_next. now rewrite get_var_venc. Qed.

Ltac rt_start :=
  rewrite ?wv_venc by lia; rewrite ?wlen_bytes_some by (unfold zlen in *; lia); cbn [ocat];
  eexists; split; [reflexivity|]; intros r; norm_app; rewrite try_next_venc by lia.
Ltac rt_vars := repeat (rewrite get_var_venc by lia; cbn [bind]).
Ltac rt_done withlen := unfold absorb; destruct withlen; reflexivity.

Lemma bit_cases :
  bit 8 1 = false /\ bit 8 2 = false /\ bit 8 4 = false /\
  bit 9 1 = true /\ bit 9 2 = false /\ bit 9 4 = false /\
  bit 10 1 = false /\ bit 10 2 = true /\ bit 10 4 = false /\
  bit 11 1 = true /\ bit 11 2 = true /\ bit 11 4 = false /\
  bit 12 1 = false /\ bit 12 2 = false /\ bit 12 4 = true /\
  bit 13 1 = true /\ bit 13 2 = false /\ bit 13 4 = true /\
  bit 14 1 = false /\ bit 14 2 = true /\ bit 14 4 = true /\
  bit 15 1 = true /\ bit 15 2 = true /\ bit 15 4 = true /\
  bit 48 1 = false /\ bit 49 1 = true.
Proof. vm_compute. repeat split. Qed.

Lemma frame_roundtrip_fixed withlen max_len f :
  wf_frame f = true -> is_close f = false ->
  exists b, encode_frame withlen max_len f = Some b /\
    forall r, try_next (b ++ r) =
              DOk (absorb withlen f r) (if self_delimiting withlen f then r else []).
Proof.
  intros Hwf Hnc.
  destruct f; cbn [wf_frame is_close] in Hwf, Hnc; try discriminate; wf_hyps;
    cbn [encode_frame self_delimiting].
  - (* Padding *)
    exists (venc 0). split; [apply wv_venc; lia|]. intros r. rewrite try_next_venc by lia.
    rt_done withlen.
  - (* Ping *)
    exists (venc 1). split; [apply wv_venc; lia|]. intros r. rewrite try_next_venc by lia.
    rt_done withlen.
  - (* ResetStream *)
    rt_start. change (frame_body 4) with body_reset. unfold body_reset. rt_vars. rt_done withlen.
  - (* StopSending *)
    rt_start. change (frame_body 5) with body_stop. unfold body_stop. rt_vars. rt_done withlen.
  - (* Crypto *)
    rt_start. change (frame_body 6) with body_crypto. unfold body_crypto. rt_vars.
    rewrite take_len_app by (unfold zlen in *; lia). cbn [bind]. rt_done withlen.
  - (* NewToken *)
    rt_start. change (frame_body 7) with body_new_token. unfold body_new_token.
    rewrite take_len_app by (unfold zlen in *; lia). cbn [bind]. rt_done withlen.
  - (* Stream *)
    pose proof bit_cases as HB. repeat match type of HB with _ /\ _ => destruct HB as [? HB] end.
    destruct (off =? 0) eqn:Eo; destruct withlen; destruct fin; cbn [b2z];
      match goal with |- context [wv (?a + ?b)] =>
        let v := eval vm_compute in (a + b) in change (a + b) with v end;
      rt_start;
      match goal with |- frame_body ?t _ = _ =>
        change (frame_body t) with (body_stream t) end;
      unfold body_stream; rt_vars;
      repeat match goal with H : bit _ _ = _ |- _ => rewrite H end; cbn [bind]; rt_vars;
      rewrite ?take_len_app by (unfold zlen in *; lia); cbn [bind absorb b2z];
      try (apply Z.eqb_eq in Eo; subst off); rewrite ?app_nil_r; reflexivity.
  - (* MaxData *)
    rt_start. change (frame_body 16) with (body_var1 MaxData). unfold body_var1. rt_vars.
    rt_done withlen.
  - (* MaxStreamData *)
    rt_start. change (frame_body 17) with (body_var2 MaxStreamData). unfold body_var2. rt_vars.
    rt_done withlen.
  - (* MaxStreams *)
    destruct uni; cbn [b2z];
      match goal with |- context [wv (?a + ?b)] =>
        let v := eval vm_compute in (a + b) in change (a + b) with v end;
      rt_start;
      [change (frame_body 19) with (body_var1 (MaxStreams true))
      |change (frame_body 18) with (body_var1 (MaxStreams false))];
      unfold body_var1; rt_vars; rt_done withlen.
  - (* DataBlocked *)
    rt_start. change (frame_body 20) with (body_var1 DataBlocked). unfold body_var1. rt_vars.
    rt_done withlen.
  - (* StreamDataBlocked *)
    rt_start. change (frame_body 21) with (body_var2 StreamDataBlocked). unfold body_var2. rt_vars.
    rt_done withlen.
  - (* StreamsBlocked *)
    destruct uni; cbn [b2z];
      match goal with |- context [wv (?a + ?b)] =>
        let v := eval vm_compute in (a + b) in change (a + b) with v end;
      rt_start;
      [change (frame_body 23) with (body_var1 (StreamsBlocked true))
      |change (frame_body 22) with (body_var1 (StreamsBlocked false))];
      unfold body_var1; rt_vars; rt_done withlen.
  - (* NewConnectionId *)
    match goal with H : Nat.eqb _ _ = true |- _ => rename H into Htok end.
    rewrite Htok. cbn [negb]. rewrite orb_false_r.
    unfold MAX_CID_SIZE in *.
    destruct (20 <? zlen cid) eqn:Ec; [lia|].
    rt_start. change (frame_body 24) with body_new_cid. unfold body_new_cid. rt_vars.
    destruct (seq <? retire_prior_to) eqn:Es; [lia|].
    cbn [get_u8 bind]. unfold MAX_CID_SIZE.
    rewrite Ec. destruct (zlen cid =? 0) eqn:Ez; [lia|]. cbn [orb].
    unfold zlen at 1. rewrite Nat2Z.id, get_n_app. cbn [bind].
    apply Nat.eqb_eq in Htok. rewrite <- Htok, get_n_app. cbn [bind]. rt_done withlen.
  - (* RetireConnectionId *)
    rt_start. change (frame_body 25) with (body_var1 RetireConnectionId). unfold body_var1. rt_vars.
    rt_done withlen.
  - (* PathChallenge *)
    unfold u64_bytes. replace ((0 <=? v) && (v <=? U64_MAX)) with true by lia. rt_start.
    change (frame_body 26) with (body_u64 PathChallenge). unfold body_u64.
    rewrite get_u64_bytes by lia. cbn [bind]. rt_done withlen.
  - (* PathResponse *)
    unfold u64_bytes. replace ((0 <=? v) && (v <=? U64_MAX)) with true by lia. rt_start.
    change (frame_body 27) with (body_u64 PathResponse). unfold body_u64.
    rewrite get_u64_bytes by lia. cbn [bind]. rt_done withlen.
  - (* Datagram *)
    pose proof bit_cases as HB. repeat match type of HB with _ /\ _ => destruct HB as [? HB] end.
    destruct withlen; cbn [b2z];
      match goal with |- context [wv (?a + ?b)] =>
        let v := eval vm_compute in (a + b) in change (a + b) with v end;
      rt_start;
      match goal with |- frame_body ?t _ = _ =>
        change (frame_body t) with (body_datagram t) end;
      unfold body_datagram;
      repeat match goal with H : bit _ _ = _ |- _ => rewrite ?H end;
      rewrite ?take_len_app by (unfold zlen in *; lia); cbn [bind absorb]; rewrite ?app_nil_r;
      reflexivity.
  - (* AckFrequency *)
    rt_start. change (frame_body 175) with body_ack_freq. unfold body_ack_freq. rt_vars.
    rt_done withlen.
  - (* ImmediateAck *)
    exists (venc 31). split; [apply wv_venc; lia|]. intros r. rewrite try_next_venc by lia.
    rt_done withlen.
  - (* HandshakeDone *)
    exists (venc 30). split; [apply wv_venc; lia|]. intros r. rewrite try_next_venc by lia.
    rt_done withlen.
Qed.

(** * CONNECTION_CLOSE / APPLICATION_CLOSE with reason truncation *)
Lemma firstn_zlen (n : Z) (l : list Z) : 0 <= n <= zlen l -> zlen (firstn (Z.to_nat n) l) = n.
Proof. intros H. unfold zlen in *. rewrite firstn_length. lia. Qed.

Lemma close_reason_len_some max_len extra len sl :
  Varint.size len = Some sl -> 0 <= len -> 0 <= extra -> 0 <= sl -> 1 + extra + sl <= max_len ->
  close_reason_len max_len extra len = Some (Z.min len (max_len - 1 - extra - sl)).
Proof.
  intros Hs Hl He Hsl Hm. unfold close_reason_len, u64_sub. rewrite Hs.
  destruct (max_len <? 1) eqn:E1; [lia|].
  destruct (max_len - 1 <? extra) eqn:E2; [lia|].
  destruct (max_len - 1 - extra <? sl) eqn:E3; [lia|]. reflexivity.
Qed.

Lemma size_bounds x s : Varint.size x = Some s -> 1 <= s <= 8.
Proof.
  unfold Varint.size. destruct (x <? 0); [discriminate|].
  destruct (x <? 2 ^ 6); [intros [= <-]; lia|].
  destruct (x <? 2 ^ 14); [intros [= <-]; lia|].
  destruct (x <? 2 ^ 30); [intros [= <-]; lia|].
  destruct (x <? 2 ^ 62); [intros [= <-]; lia|discriminate].
Qed.

Lemma size_mono a b sa sb :
  0 <= a <= b -> Varint.size a = Some sa -> Varint.size b = Some sb -> sa <= sb.
Proof.
  unfold Varint.size. intros Hab.
  destruct (a <? 0) eqn:A0; [discriminate|]. destruct (b <? 0) eqn:B0; [discriminate|].
  destruct (a <? 2 ^ 6) eqn:A1; destruct (b <? 2 ^ 6) eqn:B1;
    destruct (a <? 2 ^ 14) eqn:A2; destruct (b <? 2 ^ 14) eqn:B2;
    destruct (a <? 2 ^ 30) eqn:A3; destruct (b <? 2 ^ 30) eqn:B3;
    destruct (a <? 2 ^ 62) eqn:A4; destruct (b <? 2 ^ 62) eqn:B4;
    intros [= <-] [= <-]; lia.
Qed.

(** Round trip with the reason cut to a prefix, and the frame fits in [max_len]. *)
Lemma close_roundtrip withlen max_len f :
  wf_frame f = true -> is_close f = true -> close_fits max_len (DFrame f) = true ->
  exists b n, encode_frame withlen max_len f = Some b /\
    0 <= n <= zlen (close_reason f) /\
    (forall r, try_next (b ++ r) = DOk (truncate_close n f) r) /\
    zlen b <= max_len.
Proof.
  intros Hwf Hc Hfit.
  destruct f; cbn [is_close] in Hc; try discriminate; cbn [wf_frame close_fits] in Hwf, Hfit;
    wf_hyps; cbn [encode_frame close_reason truncate_close].
  - destruct (Varint.size code) as [sc|] eqn:Esc; [|discriminate].
    destruct (Varint.size fty) as [sf|] eqn:Esf; [|discriminate].
    destruct (Varint.size (zlen reason)) as [sl|] eqn:Esl; [|discriminate].
    pose proof (size_bounds _ _ Esc). pose proof (size_bounds _ _ Esf).
    pose proof (size_bounds _ _ Esl).
    rewrite (close_reason_len_some max_len (sc + sf) (zlen reason) sl);
      [|first [assumption|lia]..].
    set (n := Z.min (zlen reason) (max_len - 1 - (sc + sf) - sl)).
    assert (Hn : 0 <= n <= zlen reason) by lia.
    exists (venc 28 ++ venc code ++ venc fty ++ venc n ++ firstn (Z.to_nat n) reason ++ []), n.
    split; [|split; [exact Hn|split]].
    + rewrite !wv_venc by lia. reflexivity.
    + intros r. norm_app. rewrite try_next_venc by lia.
      change (frame_body 28) with body_close_conn. unfold body_close_conn. rt_vars.
      rewrite <- (firstn_zlen n reason Hn) at 1.
      rewrite take_len_app by (rewrite firstn_zlen; lia). reflexivity.
    + pose proof (venc_size code ltac:(lia)) as Hsc. rewrite Esc in Hsc. inversion Hsc as [Hsc'].
      pose proof (venc_size fty ltac:(lia)) as Hsf. rewrite Esf in Hsf. inversion Hsf as [Hsf'].
      pose proof (venc_size n ltac:(lia)) as Hsn.
      pose proof (size_mono n (zlen reason) _ _ ltac:(lia) Hsn Esl).
      rewrite (venc_small 28) by lia.
      unfold zlen in *. rewrite !app_length, firstn_length. cbn [length]. lia.
  - destruct (Varint.size code) as [sc|] eqn:Esc; [|discriminate].
    destruct (Varint.size (zlen reason)) as [sl|] eqn:Esl; [|discriminate].
    pose proof (size_bounds _ _ Esc). pose proof (size_bounds _ _ Esl).
    rewrite (close_reason_len_some max_len sc (zlen reason) sl); [|first [assumption|lia]..].
    set (n := Z.min (zlen reason) (max_len - 1 - sc - sl)).
    assert (Hn : 0 <= n <= zlen reason) by lia.
    exists (venc 29 ++ venc code ++ venc n ++ firstn (Z.to_nat n) reason ++ []), n.
    split; [|split; [exact Hn|split]].
    + rewrite !wv_venc by lia. reflexivity.
    + intros r. norm_app. rewrite try_next_venc by lia.
      change (frame_body 29) with body_close_app. unfold body_close_app. rt_vars.
      rewrite <- (firstn_zlen n reason Hn) at 1.
      rewrite take_len_app by (rewrite firstn_zlen; lia). reflexivity.
    + pose proof (venc_size code ltac:(lia)) as Hsc. rewrite Esc in Hsc. inversion Hsc as [Hsc'].
      pose proof (venc_size n ltac:(lia)) as Hsn.
      pose proof (size_mono n (zlen reason) _ _ ltac:(lia) Hsn Esl).
      rewrite (venc_small 29) by lia.
      unfold zlen in *. rewrite !app_length, firstn_length. cbn [length]. lia.
Qed.

(** The reason is kept whole when [max_len] has room for it. *)
Lemma close_reason_intact max_len extra len sl :
  Varint.size len = Some sl -> 0 <= len -> 0 <= extra -> 0 <= sl ->
  1 + extra + sl + len <= max_len ->
  close_reason_len max_len extra len = Some len.
Proof.
  intros Hs Hl He Hsl Hm. rewrite (close_reason_len_some max_len extra len sl) by (assumption || lia).
  f_equal. lia.
Qed.

(** * ACK: [Ack::encode] over a range set, [scan_ack_blocks], [AckIter] *)
Fixpoint blocks_bytes (prev : Z) (rest : list (Z * Z)) : list Z :=
  match rest with
  | [] => []
  | (s, e) :: tl => venc (prev - e - 1) ++ venc (e - s - 1) ++ blocks_bytes s tl
  end.

Lemma enc_blocks_some rest : forall prev,
  wf_desc prev rest = true -> prev <= 2 ^ 62 ->
  enc_blocks prev rest = Some (blocks_bytes prev rest).
Proof.
  induction rest as [|[s e] tl IH]; intros prev Hwf Hp; [reflexivity|].
  cbn [wf_desc] in Hwf. wf_hyps. cbn [enc_blocks blocks_bytes].
  rewrite !wv_venc by lia. rewrite IH by (try assumption; lia). cbn [ocat].
  now rewrite app_nil_r.
Qed.

Lemma scan_loop_enc rest : forall prev fuel r,
  wf_desc prev rest = true -> prev <= 2 ^ 62 ->
  (length (blocks_bytes prev rest ++ r) < fuel)%nat ->
  scan_loop fuel (Z.of_nat (length rest)) prev (blocks_bytes prev rest ++ r) = DOk tt r.
Proof.
  induction rest as [|[s e] tl IH]; intros prev fuel r Hwf Hp Hf.
  - destruct fuel; reflexivity.
  - cbn [wf_desc] in Hwf. wf_hyps. cbn [blocks_bytes] in *.
    destruct fuel as [|k]; [lia|].
    cbn [scan_loop length]. rewrite Nat2Z.inj_succ.
    destruct (Z.succ (Z.of_nat (length tl)) <=? 0) eqn:En; [lia|].
    norm_app. rewrite get_var_venc by lia. cbn [bind].
    unfold u64_add, U64_MAX. destruct (2 ^ 64 - 1 <? prev - e - 1 + 2) eqn:E1; [lia|].
    unfold u64_sub. destruct (prev <? prev - e - 1 + 2) eqn:E2; [lia|].
    rewrite get_var_venc by lia. cbn [bind].
    destruct (prev - (prev - e - 1 + 2) <? e - s - 1) eqn:E3; [lia|].
    replace (Z.succ (Z.of_nat (length tl)) - 1) with (Z.of_nat (length tl)) by lia.
    replace (prev - (prev - e - 1 + 2) - (e - s - 1)) with s by lia.
    apply IH; [assumption|lia|].
    rewrite <- !app_assoc in Hf. rewrite !app_length in Hf.
    pose proof (venc_length (prev - e - 1) ltac:(lia)).
    pose proof (venc_length (e - s - 1) ltac:(lia)).
    rewrite app_length. lia.
Qed.

Lemma ack_iter_nil k l : ack_iter k l [] = AOk [].
Proof. destruct k; reflexivity. Qed.

Lemma get_var_nil : get_var [] = DErr E_END.
Proof. reflexivity. Qed.

Lemma ack_iter_enc rest : forall s e fuel,
  0 <= s < e -> e <= 2 ^ 62 -> wf_desc s rest = true ->
  (length (venc (e - s - 1) ++ blocks_bytes s rest) <= fuel)%nat ->
  ack_iter fuel (e - 1) (venc (e - s - 1) ++ blocks_bytes s rest)
  = AOk (map incl_range ((s, e) :: rest)).
Proof.
  induction rest as [|[s' e'] tl IH]; intros s e fuel Hse He Hwf Hf.
  - cbn [blocks_bytes] in *. rewrite app_nil_r in *.
    pose proof (venc_length (e - s - 1) ltac:(lia)) as Hl.
    destruct fuel as [|k]; [lia|].
    destruct (venc (e - s - 1)) as [|b0 t] eqn:Ev; [cbn [length] in Hl; lia|].
    cbn [ack_iter]. rewrite <- Ev. rewrite <- (app_nil_r (venc (e - s - 1))).
    rewrite get_var_venc by lia.
    unfold u64_sub. destruct (e - 1 <? e - s - 1) eqn:E1; [lia|].
    rewrite get_var_nil. cbn [tl]. rewrite ack_iter_nil.
    cbn [map]. unfold incl_range at 1. cbn [fst snd]. do 3 f_equal. lia.
  - cbn [wf_desc] in Hwf. wf_hyps. cbn [blocks_bytes] in *.
    pose proof (venc_length (e - s - 1) ltac:(lia)) as Hl.
    rewrite app_length in Hf.
    destruct fuel as [|k]; [lia|].
    destruct (venc (e - s - 1)) as [|b0 t] eqn:Ev; [cbn [length] in Hl; lia|].
    cbn [app ack_iter]. change (b0 :: t ++ ?x) with ((b0 :: t) ++ x). rewrite <- Ev.
    rewrite get_var_venc by lia.
    unfold u64_sub at 1. destruct (e - 1 <? e - s - 1) eqn:E1; [lia|].
    rewrite get_var_venc by lia.
    unfold u64_add, U64_MAX.
    destruct (2 ^ 64 - 1 <? e - s - 1 + (s - e' - 1)) eqn:E2; [lia|].
    destruct (2 ^ 64 - 1 <? e - s - 1 + (s - e' - 1) + 2) eqn:E3; [lia|].
    unfold u64_sub. destruct (e - 1 <? e - s - 1 + (s - e' - 1) + 2) eqn:E4; [lia|].
    replace (e - 1 - (e - s - 1 + (s - e' - 1) + 2)) with (e' - 1) by lia.
    rewrite IH; [|lia|lia|assumption|].
    + cbn [map]. unfold incl_range. cbn [fst snd]. do 3 f_equal. lia.
    + pose proof (venc_length (s - e' - 1) ltac:(lia)).
      cbn [length] in Hf. rewrite !app_length in Hf. rewrite app_length. lia.
Qed.

Definition ecn_bytes (ecn : option (Z * Z * Z)) : list Z :=
  match ecn with
  | Some (a, b, c) => venc a ++ venc b ++ venc c
  | None => []
  end.

Lemma wf_desc_length rest : forall prev,
  wf_desc prev rest = true -> Z.of_nat (length rest) <= Z.max prev 0.
Proof.
  induction rest as [|[s e] tl IH]; intros prev Hwf; cbn [length]; [lia|].
  cbn [wf_desc] in Hwf. wf_hyps. specialize (IH s ltac:(assumption)). lia.
Qed.

Lemma ecn_tail ecn r largest delay additional :
  wf_ecn ecn = true ->
  (if (match ecn with Some _ => 3 | None => 2 end) =? 3
   then
     bind (get_var (ecn_bytes ecn ++ r)) (fun e0 r5 =>
     bind (get_var r5) (fun e1 r6 =>
     bind (get_var r6) (fun ce r7 =>
       DOk (Ack largest delay additional (Some (e0, e1, ce))) r7)))
   else DOk (Ack largest delay additional None) (ecn_bytes ecn ++ r))
  = DOk (Ack largest delay additional ecn) r.
Proof.
  intros He. destruct ecn as [[[a b] c]|]; cbn [wf_ecn ecn_bytes] in *.
  - wf_hyps. change (3 =? 3) with true. cbv iota. norm_app. rt_vars. reflexivity.
  - reflexivity.
Qed.

Lemma ack_roundtrip delay rs ecn :
  in62 delay = true -> wf_ranges rs = true -> wf_ecn ecn = true ->
  exists b largest additional,
    encode_ack delay rs ecn = Some b /\
    (exists lo, hd_error (rev rs) = Some (lo, largest + 1)) /\
    (forall r, try_next (b ++ r) = DOk (Ack largest delay additional ecn) r) /\
    ack_ranges largest additional = AOk (map incl_range (rev rs)).
Proof.
  intros Hd Hwf He. unfold wf_ranges in Hwf. unfold encode_ack.
  assert (Hlen : length rs = length (rev rs)) by (now rewrite rev_length).
  destruct (rev rs) as [|[s e] rest] eqn:Er; [discriminate|].
  wf_hyps. cbn [length] in Hlen.
  pose proof (wf_desc_length rest s ltac:(assumption)) as Hn.
  set (ty := match ecn with Some _ => 3 | None => 2 end).
  assert (Hty : ty = 2 \/ ty = 3) by (subst ty; destruct ecn; auto).
  exists (venc ty ++ venc (e - 1) ++ venc delay
          ++ venc (Z.of_nat (length rest)) ++ venc (e - s - 1) ++ blocks_bytes s rest
          ++ ecn_bytes ecn ++ []),
    (e - 1), (venc (e - s - 1) ++ blocks_bytes s rest).
  split; [|split; [|split]].
  - rewrite Hlen. replace (Z.of_nat (S (length rest)) - 1) with (Z.of_nat (length rest)) by lia.
    rewrite !wv_venc by lia. rewrite enc_blocks_some by (try assumption; lia).
    assert (Hecn : match ecn with
                   | Some (a, b, c) => ocat [wv a; wv b; wv c]
                   | None => Some []
                   end = Some (ecn_bytes ecn ++ [])).
    { destruct ecn as [[[a b] c]|]; cbn [wf_ecn ecn_bytes] in *; [|reflexivity].
      wf_hyps. rewrite !wv_venc by lia. cbn [ocat]. now rewrite <- !app_assoc. }
    rewrite Hecn. cbn [ocat]. rewrite !app_nil_r. reflexivity.
  - exists s. cbn [hd_error]. do 2 f_equal. lia.
  - intros r. norm_app. rewrite try_next_venc by lia.
    assert (Hb : frame_body ty = body_ack ty) by (destruct Hty as [-> | ->]; reflexivity).
    rewrite Hb. unfold body_ack. rt_vars.
    unfold scan_ack_blocks. rt_vars.
    unfold u64_sub at 1. destruct (e - 1 <? e - s - 1) eqn:E1; [lia|].
    replace (e - 1 - (e - s - 1)) with s by lia.
    rewrite scan_loop_enc by (try assumption; lia). cbn [bind].
    replace (firstn _ _) with (venc (e - s - 1) ++ blocks_bytes s rest).
    2:{ rewrite (app_assoc (venc (e - s - 1))). symmetry. apply firstn_app_exact.
        rewrite !app_length. lia. }
    subst ty. apply ecn_tail. exact He.
  - unfold ack_ranges. apply ack_iter_enc; try lia; assumption.
Qed.
