(** Proofs about Model/PathResponses.v (C03: the PATH_RESPONSE queue is bounded by
    MAX_PATH_RESPONSES for every push/pop sequence, holds at most one entry per remote, and the
    entry of a remote is never older than the latest PATH_CHALLENGE pushed for it). *)
From QV Require Import Lib.Tac Lib.Corr Model.PathResponses.
Import PathResponses.
Open Scope Z_scope.

Definition remotes (l : t) : list Z := map remote l.

Definition Inv (M : Z) (l : t) : Prop :=
  Z.of_nat (length l) <= M /\ NoDup (remotes l).

Lemma replace_first_some : forall l n l',
  replace_first l n = Some l' ->
  length l' = length l /\ remotes l' = remotes l /\ In (remote n) (remotes l) /\
  (forall e, In e l' -> In e l \/ e = n) /\
  (NoDup (remotes l) -> forall e, In e l' -> remote e = remote n -> packet n <= packet e).
Proof.
  induction l as [|x l IH]; intros n l' H; cbn [replace_first] in H; [discriminate|].
  destruct (remote x =? remote n) eqn:E.
  - inversion H; subst; clear H. apply Z.eqb_eq in E.
    destruct (packet x <=? packet n) eqn:Ep; cbn [length remotes map In].
    + repeat split; try congruence; [left; congruence| |].
      * intros e [He|He]; [right; congruence|left; right; exact He].
      * intros Hnd e [He|He] Hr; [subst; lia|].
        inversion Hnd as [|? ? Hni _]; subst. exfalso. apply Hni.
        rewrite E, <- Hr. apply in_map. exact He.
    + repeat split; try congruence; [left; congruence| |].
      * intros e He. left. exact He.
      * intros Hnd e [He|He] Hr; [subst; lia|].
        inversion Hnd as [|? ? Hni _]; subst. exfalso. apply Hni.
        rewrite E, <- Hr. apply in_map. exact He.
  - destruct (replace_first l n) as [r'|] eqn:Er; [|discriminate].
    inversion H; subst; clear H.
    destruct (IH n r' Er) as (Hl & Hm & Hin & Hsub & Hnew).
    cbn [length remotes map In]. repeat split.
    + congruence.
    + unfold remotes in Hm. congruence.
    + right. exact Hin.
    + intros e [He|He]; [left; left; exact He|].
      destruct (Hsub e He) as [H1|H1]; [left; right; exact H1|right; exact H1].
    + intros Hnd e [He|He] Hr.
      * subst. apply Z.eqb_neq in E. congruence.
      * inversion Hnd; subst. apply Hnew; assumption.
Qed.

Lemma replace_first_none : forall l n,
  replace_first l n = None -> ~ In (remote n) (remotes l).
Proof.
  induction l as [|x l IH]; intros n H; cbn [replace_first] in H; [intros []|].
  destruct (remote x =? remote n) eqn:E; [discriminate|].
  destruct (replace_first l n) eqn:Er; [discriminate|].
  cbn [remotes map In]. intros [H1|H1].
  - apply Z.eqb_neq in E. congruence.
  - exact (IH n Er H1).
Qed.

Lemma remotes_app l1 l2 : remotes (l1 ++ l2) = remotes l1 ++ remotes l2.
Proof. unfold remotes. apply map_app. Qed.

Lemma NoDup_snoc (l : list Z) x : NoDup l -> ~ In x l -> NoDup (l ++ [x]).
Proof.
  intros Hnd Hni. apply NoDup_rev in Hnd.
  rewrite <- (rev_involutive (l ++ [x])). apply NoDup_rev.
  rewrite rev_app_distr. cbn. constructor; [|exact Hnd].
  rewrite <- in_rev. exact Hni.
Qed.

Lemma push_inv M l p tk r : 0 <= M -> Inv M l -> Inv M (push M l p tk r).
Proof.
  intros HM [Hlen Hnd]. unfold push.
  destruct (replace_first l (mkr p tk r)) as [l'|] eqn:E.
  - destruct (replace_first_some _ _ _ E) as (Hl & Hm & _). split.
    + rewrite Hl. exact Hlen.
    + rewrite Hm. exact Hnd.
  - apply replace_first_none in E. cbn [remote] in E.
    destruct (Z.of_nat (length l) <? M) eqn:Ec; [|split; assumption].
    split.
    + rewrite app_length. cbn [length]. lia.
    + rewrite remotes_app. apply NoDup_snoc; assumption.
Qed.

(** Never more than one step of growth, and only when below the cap. *)
Lemma push_length M l p tk r :
  (length l <= length (push M l p tk r) <= length l + 1)%nat /\
  (M <= Z.of_nat (length l) -> length (push M l p tk r) = length l).
Proof.
  unfold push. destruct (replace_first l (mkr p tk r)) as [l'|] eqn:E.
  - destruct (replace_first_some _ _ _ E) as (Hl & _). rewrite Hl. split; [lia|reflexivity].
  - destruct (Z.of_nat (length l) <? M) eqn:Ec.
    + rewrite app_length. cbn [length]. split; [lia|lia].
    + split; [lia|reflexivity].
Qed.

(** The queued response of a remote is never older than the PATH_CHALLENGE just pushed for it,
    and a challenge from a remote that already has an entry never consumes a second slot. *)
Lemma push_keeps_newest M l p tk r :
  NoDup (remotes l) ->
  forall e, In e (push M l p tk r) -> remote e = r -> p <= packet e.
Proof.
  intros Hnd e He Hr. unfold push in He.
  destruct (replace_first l (mkr p tk r)) as [l'|] eqn:E.
  - destruct (replace_first_some _ _ _ E) as (_ & _ & _ & _ & Hnew).
    apply (Hnew Hnd e He). exact Hr.
  - apply replace_first_none in E. cbn [remote] in E.
    destruct (Z.of_nat (length l) <? M).
    + apply in_app_or in He. destruct He as [He|[He|[]]].
      * exfalso. apply E. rewrite <- Hr. apply in_map. exact He.
      * subst. cbn. lia.
    + exfalso. apply E. rewrite <- Hr. apply in_map. exact He.
Qed.

Lemma unsnoc_spec : forall l l' x, unsnoc l = Some (l', x) -> l = l' ++ [x].
Proof.
  induction l as [|a l IH]; intros l' x H; cbn [unsnoc] in H; [discriminate|].
  destruct l as [|b l].
  - inversion H; subst. reflexivity.
  - destruct (unsnoc (b :: l)) as [[r' y]|] eqn:E; [|discriminate].
    inversion H; subst. rewrite (IH _ _ eq_refl). reflexivity.
Qed.

Lemma unsnoc_none : forall l, unsnoc l = None -> l = [].
Proof.
  induction l as [|a l IH]; intros H; [reflexivity|]. cbn [unsnoc] in H.
  destruct l as [|b l]; [discriminate|].
  destruct (unsnoc (b :: l)) as [[r' y]|] eqn:E; [discriminate|].
  specialize (IH eq_refl). discriminate.
Qed.

Lemma inv_prefix M l' x : Inv M (l' ++ [x]) -> Inv M l'.
Proof.
  intros [Hlen Hnd]. rewrite app_length in Hlen. cbn [length] in Hlen. split; [lia|].
  rewrite remotes_app in Hnd. apply NoDup_rev in Hnd. rewrite rev_app_distr in Hnd.
  cbn in Hnd. inversion Hnd; subst. apply NoDup_rev in H2. rewrite rev_involutive in H2.
  exact H2.
Qed.

Lemma step_inv M l o : 0 <= M -> Inv M l -> Inv M (fst (step M l o)).
Proof.
  intros HM HI. destruct o as [p tk r|r|r|]; cbn [step].
  - cbn [fst]. apply push_inv; assumption.
  - unfold pop_off_path. destruct (unsnoc l) as [[l' x]|] eqn:E; [|exact HI].
    destruct (remote x =? r); [exact HI|]. cbn [fst].
    apply unsnoc_spec in E. subst. eapply inv_prefix. exact HI.
  - unfold pop_on_path. destruct (unsnoc l) as [[l' x]|] eqn:E; [|exact HI].
    destruct (remote x =? r); [|exact HI]. cbn [fst].
    apply unsnoc_spec in E. subst. eapply inv_prefix. exact HI.
  - exact HI.
Qed.

(** The first number of every observation is the queue length after the op. *)
Lemma step_reports_length M l o : hd (-1) (snd (step M l o)) = zlen (fst (step M l o)).
Proof.
  destruct o as [p tk r|r|r|]; cbn [step].
  - reflexivity.
  - destruct (pop_off_path l r) as [l' [[tk r']|]]; reflexivity.
  - destruct (pop_on_path l r) as [l' [tk|]]; reflexivity.
  - reflexivity.
Qed.

Definition exec (M : Z) (l : t) (os : list op) : t :=
  fold_left (fun l o => fst (step M l o)) os l.

Lemma exec_inv M : 0 <= M -> forall os l, Inv M l -> Inv M (exec M l os).
Proof.
  intros HM. induction os as [|o os IH]; intros l HI; [exact HI|].
  cbn [exec fold_left]. apply IH. apply step_inv; assumption.
Qed.

Lemma run_ops_bounded M : 0 <= M -> forall os l, Inv M l ->
  Forall (fun out => 0 <= hd (-1) out <= M) (run_ops M l os).
Proof.
  intros HM. induction os as [|o os IH]; intros l HI; cbn [run_ops]; [constructor|].
  pose proof (step_inv M l o HM HI) as HI'. pose proof (step_reports_length M l o) as Hr.
  destruct (step M l o) as [l' out]. cbn [fst snd] in *. constructor.
  - rewrite Hr. unfold zlen. destruct HI' as [Hlen _]. lia.
  - apply IH. exact HI'.
Qed.

Lemma path_responses_bounded_lemma M : 0 <= M -> forall os,
  let l := exec M [] os in
  Z.of_nat (length l) <= M /\ NoDup (remotes l) /\
  Forall (fun out => 0 <= hd (-1) out <= M) (run_ops M [] os).
Proof.
  intros HM os l.
  assert (H0 : Inv M []) by (split; [cbn; lia|constructor]).
  destruct (exec_inv M HM os [] H0) as [H1 H2]. repeat split; try assumption.
  apply run_ops_bounded; assumption.
Qed.
