(** Proofs about Model/Recovery.v: the loss-detection timer invariant ([Inv]) for all operation
    sequences, the re-arm on datagram receipt, and the PTO deadline formula. *)
From QV Require Import Lib.Tac Model.SendGate Model.Recovery.
Open Scope Z_scope.

(** * [set_ld_timer] only touches the timer *)

Lemma with_ld_id : forall s, with_ld s (ld s) (stale s) = s.
Proof. destruct s; reflexivity. Qed.

Lemma set_ld_shape : forall m c s, exists t st, set_ld_timer m c s = with_ld s t st.
Proof.
  intros m c s. unfold set_ld_timer.
  destruct (closed s). { exists (ld s), (stale s). symmetry; apply with_ld_id. }
  destruct (loss_time_and_space s) as [[t i]|]. { eexists _, _; reflexivity. }
  destruct (blocked s 1). { eexists _, _; reflexivity. }
  destruct ((ae_total s =? 0) && peer_completed s). { eexists _, _; reflexivity. }
  destruct (pto_time_and_space m c s) as [[t i]|]; eexists _, _; reflexivity.
Qed.

Lemma is_some_pto_pick : forall acc p i, is_some (pto_pick acc p i) = true.
Proof. intros [[e j]|] p i; cbn; [destruct (p <? e)|]; reflexivity. Qed.

Lemma pto_some : forall m c s,
  is_some (pto_time_and_space m c s) = if ae_total s =? 0 then true else pto_eligible s.
Proof.
  intros m c s. unfold pto_time_and_space, pto_eligible.
  destruct (ae_total s =? 0); [reflexivity|].
  destruct (has_in_flight (sI s)), (tlae (sI s)), (has_in_flight (sH s)), (tlae (sH s)),
    (has_in_flight (sD s)), (handshaking s), (tlae (sD s));
    cbn [is_some andb orb negb]; rewrite ?is_some_pto_pick; reflexivity.
Qed.

Lemma set_ld_armed : forall m c s,
  closed s = false -> blocked s 1 = false -> needs_b s = true ->
  is_some (ld (set_ld_timer m c s)) = true.
Proof.
  intros m c s Hc Hb Hn. unfold set_ld_timer. rewrite Hc.
  unfold needs_b in Hn.
  destruct (loss_time_and_space s) as [[t i]|]; [reflexivity|].
  rewrite Hb. cbn [is_some orb] in Hn.
  pose proof (pto_some m c s) as Hp.
  destruct (ae_total s =? 0).
  - destruct (peer_completed s); [discriminate|]. cbn [andb].
    destruct (pto_time_and_space m c s) as [[t i]|]; [reflexivity|discriminate].
  - cbn [andb]. rewrite Hn in Hp.
    destruct (pto_time_and_space m c s) as [[t i]|]; [reflexivity|discriminate].
Qed.

(** every projection other than [ld]/[stale] is untouched *)
Ltac ld_shape m c s := let t := fresh "t" in let st := fresh "st" in let E := fresh "E" in
  destruct (set_ld_shape m c s) as (t & st & E); rewrite E in *; clear E.

Lemma set_ld_Inv : forall m c s, Inv (set_ld_timer m c s).
Proof.
  intros m c s Hc _ Hb Hn. left.
  assert (closed s = false /\ blocked s 1 = false /\ needs_b s = true) as (A & B & C).
  { ld_shape m c s. auto. }
  apply set_ld_armed; assumption.
Qed.

Lemma set_ld_Inv2 : forall m c s, Inv2 s -> Inv2 (set_ld_timer m c s).
Proof. intros m c s H. ld_shape m c s. exact H. Qed.

(** [Inv] and [Inv2] read the state only through these projections *)
Definition view (s : state) :=
  (closed s, in_dgram s, blocked s 1, needs_b s, is_some (ld s), stale s).

Lemma Inv_view : forall s s', view s' = view s -> Inv s -> Inv s'.
Proof.
  unfold view, Inv. intros s s' E H. inversion E as [[E1 E2 E3 E4 E5 E6]].
  rewrite E1, E2, E3, E4, E5, E6. exact H.
Qed.

(** a state whose need for the timer is not larger and whose timer is unchanged *)
Lemma Inv_weaken : forall s s',
  closed s' = closed s -> in_dgram s' = in_dgram s ->
  (blocked s' 1 = false -> blocked s 1 = false) ->
  (needs_b s' = true -> needs_b s = true) ->
  ld s' = ld s -> stale s' = stale s -> Inv s -> Inv s'.
Proof.
  unfold Inv. intros s s' E1 E2 E3 E4 E5 E6 H A B C D.
  rewrite E1 in A. rewrite E2 in B. rewrite E5, E6. auto.
Qed.

(** [needs_b] does not look at [probes], [keys] of the Initial space, nor at [acked] of Initial *)
Definition core (x : space) := (ae x, nae x, loss_time x, tlae x).

Lemma needs_b_ext : forall s s',
  core (sI s') = core (sI s) -> core (sH s') = core (sH s) -> core (sD s') = core (sD s) ->
  phase s' = phase s -> peer_completed s' = peer_completed s -> needs_b s' = needs_b s.
Proof.
  unfold core. intros s s' EI EH ED EP EC.
  inversion EI as [[I1 I2 I3 I4]]. inversion EH as [[H1 H2 H3 H4]]. inversion ED as [[D1 D2 D3 D4]].
  unfold needs_b, loss_time_and_space, ae_total, pto_eligible, has_in_flight, handshaking.
  rewrite I1, I2, I3, I4, H1, H2, H3, H4, D1, D2, D3, D4, EP, EC. reflexivity.
Qed.

Lemma needs_b_mono : forall s s',
  core (sI s') = core (sI s) -> core (sH s') = core (sH s) -> core (sD s') = core (sD s) ->
  phase s' = phase s -> (peer_completed s = true -> peer_completed s' = true) ->
  needs_b s' = true -> needs_b s = true.
Proof.
  unfold core. intros s s' EI EH ED EP EC.
  inversion EI as [[I1 I2 I3 I4]]. inversion EH as [[H1 H2 H3 H4]]. inversion ED as [[D1 D2 D3 D4]].
  unfold needs_b, loss_time_and_space, ae_total, pto_eligible, has_in_flight, handshaking.
  rewrite I1, I2, I3, I4, H1, H2, H3, H4, D1, D2, D3, D4, EP.
  destruct (peer_completed s), (peer_completed s'); try (specialize (EC eq_refl); discriminate); auto.
  match goal with |- (?a || (if ?b then _ else ?c)) = true -> _ => destruct a, b; cbn; auto end.
Qed.

Lemma sp_with_sp : forall s i x, sp (with_sp s i x) i = x.
Proof.
  intros s i x. unfold sp, with_sp. cbn [sI sH sD].
  destruct (i =? 0); [reflexivity|]. destruct (i =? 1); reflexivity.
Qed.

(** * Preservation of the invariants by every operation *)

Ltac zc := change (0 =? 0) with true in *; change (1 =? 0) with false in *; change (1 =? 1) with true in *;
  change (2 =? 0) with false in *; change (2 =? 1) with false in *; change (2 =? 2) with true in *;
  change (1 =? 2) with false in *; change (0 =? 1) with false in *; change (0 =? 2) with false in *; cbn.
Ltac triv := try reflexivity; try (let X := fresh in intros X; exact X).

Section Pres.
  Variable m : Z.
  Variable fixd : bool.

  Lemma discard_Inv : forall c s i, Inv (discard m c s i).
  Proof. intros. apply set_ld_Inv. Qed.

  Lemma discard_Inv2 : forall c s i, Inv2 s -> Inv2 (discard m c s i).
  Proof. intros c s i H. unfold discard. apply set_ld_Inv2. exact H. Qed.

  Lemma Inv2_step : forall s o, Inv2 s -> Inv2 (step m fixd s o).
  Proof.
    intros s o H. destruct o; cbn [step].
    - (* OSent *)
      destruct (in_range i && sendable s i && negb (is_some (in_dgram s))) eqn:G; [|exact H].
      unfold do_sent.
      set (s1 := if client s && (i =? 1) && keys (sI s) then discard m c s 0 else s).
      assert (H1 : Inv2 s1) by (subst s1; destruct (client s && (i =? 1) && keys (sI s)); [apply discard_Inv2|]; exact H).
      destruct ack_eliciting; [apply set_ld_Inv2; exact H1|].
      destruct padded; [apply set_ld_Inv2; exact H1|exact H1].
    - (* OTxDone *)
      destruct ((0 <=? bytes) && negb (is_some (in_dgram s))) eqn:G; [|exact H].
      intros E. cbn in E. destruct (in_dgram s); cbn in G; [|discriminate]. lia.
    - (* OGate *)
      destruct (in_range i && negb (is_some (in_dgram s))); exact H.
    - (* ODgramBegin *)
      destruct (is_some (in_dgram s)) eqn:G; [exact H|].
      intros E. cbn in E. injection E as E'. unfold blocked in *. cbn. exact E'.
    - (* ORecvd *)
      destruct ((0 <=? bytes) && is_some (in_dgram s)) eqn:G; [|exact H].
      intros E. cbn in E. specialize (H E). unfold blocked in *. cbn.
      destruct (validated s); cbn in *; [reflexivity|]. lia.
    - (* ODgramEnd *)
      destruct (in_dgram s) as [[|]|] eqn:G.
      + intros E. ld_shape m c (with_dgram s None). cbn in E. discriminate.
      + intros E. cbn in E. discriminate.
      + exact H.
    - (* OAck *)
      match goal with |- Inv2 (if ?g then _ else _) => destruct g end; [|exact H].
      unfold do_ack. apply set_ld_Inv2.
      match goal with |- Inv2 (if ?g then _ else _) => destruct g end; exact H.
    - (* OKeys *)
      match goal with |- Inv2 (if ?g then _ else _) => destruct g end; exact H.
    - (* OZeroRtt *)
      destruct (client s && (highest s =? 0)); exact H.
    - (* ODiscard *)
      match goal with |- Inv2 (if ?g then _ else _) => destruct g end; [|exact H].
      apply discard_Inv2; exact H.
    - (* ORetry *)
      match goal with |- Inv2 (if ?g then _ else _) => destruct g end; [|exact H].
      unfold do_retry.
      assert (H1 : Inv2 (discard m c s 0)) by (apply discard_Inv2; exact H).
      destruct fixd; [apply set_ld_Inv2|]; exact H1.
    - (* OValidated *)
      destruct (is_some (in_dgram s)); [|exact H]. intros _. unfold blocked. reflexivity.
    - (* OEstablished *)
      match goal with |- Inv2 (if ?g then _ else _) => destruct g end; [|exact H].
      unfold do_established.
      set (s1 := if client s then _ else _).
      assert (H1 : Inv2 s1).
      { subst s1. destruct (client s); [|apply discard_Inv2; exact H].
        destruct (rejected && zero_rtt s); exact H. }
      destruct fixd; [apply set_ld_Inv2|]; exact H1.
    - (* OClose *) exact H.
    - (* OTimeout *)
      match goal with |- Inv2 (if ?g then _ else _) => destruct g end; [|exact H].
      unfold do_timeout.
      set (s1 := if expired (ld s) (now c) then _ else s).
      assert (H1 : Inv2 s1).
      { subst s1. destruct (expired (ld s) (now c)); [|exact H].
        unfold on_ld_timeout.
        replace (loss_time_and_space (with_ld s None (stale s))) with (loss_time_and_space s) by reflexivity.
        destruct (loss_time_and_space s) as [[t i]|].
        - apply set_ld_Inv2. exact H.
        - destruct (pto_time_and_space m c (with_ld s None (stale s))) as [[t i]|]; [|exact H].
          apply set_ld_Inv2. exact H. }
      destruct (expired (pacing s1) (now c)); exact H1.
  Qed.

  Lemma Inv_stale : forall s t, Inv (with_ld s t true).
  Proof. intros s t _ _ _ _. right. reflexivity. Qed.

  Lemma Inv_step : forall s o, Inv s -> Inv2 s -> Inv (step m fixd s o).
  Proof.
    intros s o H H2. destruct o; cbn [step].
    - (* OSent *)
      destruct (in_range i && sendable s i && negb (is_some (in_dgram s))) eqn:G; [|exact H].
      unfold do_sent.
      set (s1 := if client s && (i =? 1) && keys (sI s) then discard m c s 0 else s).
      assert (H1 : Inv s1) by (subst s1; destruct (client s && (i =? 1) && keys (sI s)); [apply discard_Inv|]; exact H).
      destruct ack_eliciting; [apply set_ld_Inv|].
      destruct padded; [apply set_ld_Inv|exact H1].
    - (* OTxDone *)
      destruct ((0 <=? bytes) && negb (is_some (in_dgram s))) eqn:G; [|exact H].
      apply andb_prop in G as (G1 & _).
      eapply Inv_weaken; [..|exact H]; triv.
      unfold blocked; cbn. destruct (validated s); cbn; [auto|]. lia.
    - (* OGate *)
      destruct (in_range i && negb (is_some (in_dgram s))) eqn:G; [|exact H].
      unfold do_gate.
      eapply Inv_weaken; [..|exact H]; triv.
      apply needs_b_mono; unfold with_sp, with_pacing, sp, core, peer_completed, closed; cbn;
          try reflexivity; try (destruct (i =? 0); try reflexivity; destruct (i =? 1); reflexivity).
      destruct (i =? 0); [auto|]. destruct (i =? 1); auto.
    - (* ODgramBegin *)
      destruct (is_some (in_dgram s)) eqn:G; [exact H|].
      intros A B C D. cbn in B. apply H; try assumption.
      destruct (in_dgram s); discriminate.
    - (* ORecvd *)
      destruct ((0 <=? bytes) && is_some (in_dgram s)) eqn:G; [|exact H].
      intros A B C D. cbn in B.
      destruct (in_dgram s) as [[|]|] eqn:Ed; [congruence| |cbn in G; lia].
      apply H; try assumption. { congruence. } apply H2; exact Ed.
    - (* ODgramEnd *)
      destruct (in_dgram s) as [[|]|] eqn:G; [apply set_ld_Inv| |exact H].
      intros A B C D. apply H; try assumption. congruence.
    - (* OAck *)
      match goal with |- Inv (if ?g then _ else _) => destruct g end; [|exact H].
      apply set_ld_Inv.
    - (* OKeys *)
      match goal with |- Inv (if ?g then _ else _) => destruct g eqn:G end; [|exact H].
      assert (Hi : (i = 1 /\ keys (sD s) = false) \/ i = 2) by (destruct (keys (sD s)); lia).
      eapply Inv_weaken; [..|exact H]; triv.
      apply needs_b_mono; destruct Hi as [(-> & Hk)| ->]; unfold with_conn, with_sp, sp, core; zc; try reflexivity.
      + unfold peer_completed, closed; zc. rewrite Hk. cbn.
        destruct (negb (client s)), (2 <=? phase s), (acked (sH s)), (acked (sD s)); cbn; auto.
      + unfold peer_completed, closed; zc.
        destruct (negb (client s)), (2 <=? phase s), (acked (sH s)), (acked (sD s)), (keys (sD s)), (keys (sH s)); cbn; auto.
    - (* OZeroRtt *)
      destruct (client s && (highest s =? 0)); [|exact H].
      eapply Inv_weaken; [..|exact H]; triv.
    - (* ODiscard *)
      match goal with |- Inv (if ?g then _ else _) => destruct g end; [|exact H].
      apply discard_Inv.
    - (* ORetry *)
      match goal with |- Inv (if ?g then _ else _) => destruct g end; [|exact H].
      unfold do_retry. destruct fixd; [apply set_ld_Inv|apply Inv_stale].
    - (* OValidated *)
      destruct (is_some (in_dgram s)) eqn:G; [|exact H].
      intros A B C D. cbn in B.
      destruct (in_dgram s) as [[|]|] eqn:Ed; [congruence| |discriminate].
      apply H; try assumption. { congruence. } apply H2; exact Ed.
    - (* OEstablished *)
      match goal with |- Inv (if ?g then _ else _) => destruct g end; [|exact H].
      unfold do_established. destruct fixd; [apply set_ld_Inv|apply Inv_stale].
    - (* OClose *)
      intros A. vm_compute in A. discriminate.
    - (* OTimeout *)
      match goal with |- Inv (if ?g then _ else _) => destruct g end; [|exact H].
      unfold do_timeout.
      set (s1 := if expired (ld s) (now c) then _ else s).
      assert (H1 : Inv s1).
      { subst s1. destruct (expired (ld s) (now c)); [|exact H].
        unfold on_ld_timeout.
        replace (loss_time_and_space (with_ld s None (stale s))) with (loss_time_and_space s) by reflexivity.
        destruct (loss_time_and_space s) as [[t i]|] eqn:EL; [apply set_ld_Inv|].
        pose proof (pto_some m c (with_ld s None (stale s))) as Hp.
        destruct (pto_time_and_space m c (with_ld s None (stale s))) as [[t i]|]; [apply set_ld_Inv|].
        intros A B C D. exfalso.
        unfold needs_b in D.
        replace (loss_time_and_space (with_ld s None (stale s))) with (loss_time_and_space s) in D by reflexivity.
        rewrite EL in D. cbn [is_some orb] in D, Hp.
        destruct (ae_total (with_ld s None (stale s)) =? 0); [discriminate|]. congruence. }
      destruct (expired (pacing s1) (now c)); [|exact H1].
      eapply Inv_weaken; [..|exact H1]; triv.
  Qed.


  Lemma Inv_run : forall ops s, Inv s -> Inv2 s -> Inv (run m fixd s ops) /\ Inv2 (run m fixd s ops).
  Proof.
    induction ops as [|o ops IH]; intros s H H2; [split; assumption|].
    cbn [run fold_left]. apply IH; [apply Inv_step|apply Inv2_step]; assumption.
  Qed.

  Lemma Inv_init : forall cl v, Inv (init cl v) /\ Inv2 (init cl v).
  Proof.
    intros cl v. split.
    - intros _ _ _ _. right. reflexivity.
    - intros E. discriminate E.
  Qed.

  (** * For every operation sequence from a fresh connection *)
  Theorem timer_inv_reachable : forall cl v ops,
    let s := run m fixd (init cl v) ops in
    closed s = false -> in_dgram s <> Some true -> blocked s 1 = false -> needs_b s = true ->
    is_some (ld s) = true \/ stale s = true.
  Proof.
    intros cl v ops s. destruct (Inv_init cl v) as (A & B).
    destruct (Inv_run ops _ A B) as (C & _). exact C.
  Qed.

  (** receipt of a datagram while anti-amplification blocked re-arms the timer, whatever the
      datagram contained *)
  Theorem dgram_end_rearms : forall s c,
    in_dgram s = Some true ->
    let s' := step m fixd s (ODgramEnd c) in
    in_dgram s' = None /\
    (closed s' = false -> blocked s' 1 = false -> needs_b s' = true -> is_some (ld s') = true).
  Proof.
    intros s c E s'. subst s'. cbn [step]. rewrite E. split.
    - ld_shape m c (with_dgram s None). reflexivity.
    - intros A B C.
      assert (closed (with_dgram s None) = false /\ blocked (with_dgram s None) 1 = false
              /\ needs_b (with_dgram s None) = true) as (A' & B' & C').
      { ld_shape m c (with_dgram s None). auto. }
      apply set_ld_armed; assumption.
  Qed.
End Pres.

(** * [stale] in the repaired variant: only a connection that has not evaluated the timer yet *)

Definition J (s : state) : Prop := stale s = true -> closed s = false -> ld s = None /\ ae_total s = 0.

Lemma J_set_ld : forall m c s, J (set_ld_timer m c s).
Proof.
  intros m c s. unfold set_ld_timer. destruct (closed s) eqn:E.
  - intros _ A. congruence.
  - intros A. exfalso. revert A.
    destruct (loss_time_and_space s) as [[t i]|]; [discriminate|].
    destruct (blocked s 1); [discriminate|].
    destruct ((ae_total s =? 0) && peer_completed s); [discriminate|].
    destruct (pto_time_and_space m c s) as [[t i]|]; discriminate.
Qed.

Lemma J_weaken : forall s s', stale s' = stale s -> closed s' = closed s -> ld s' = ld s ->
  ae_total s' = ae_total s -> J s -> J s'.
Proof. unfold J. intros s s' -> -> -> ->. auto. Qed.

Lemma J_step : forall m s o, J s -> J (step m true s o).
Proof.
  intros m s o H. destruct o; cbn [step].
  - destruct (in_range i && sendable s i && negb (is_some (in_dgram s))); [|exact H].
    unfold do_sent.
    set (s1 := if client s && (i =? 1) && keys (sI s) then discard m c s 0 else s).
    assert (H1 : J s1) by (subst s1; destruct (client s && (i =? 1) && keys (sI s)); [apply J_set_ld|exact H]).
    destruct ack_eliciting; [apply J_set_ld|]. destruct padded; [apply J_set_ld|exact H1].
  - destruct ((0 <=? bytes) && negb (is_some (in_dgram s))); [|exact H].
    eapply J_weaken; [..|exact H]; reflexivity.
  - destruct (in_range i && negb (is_some (in_dgram s))); [|exact H].
    unfold do_gate. eapply J_weaken; [..|exact H]; try reflexivity.
    unfold ae_total, with_sp, with_pacing, sp; cbn.
    destruct (i =? 0); [reflexivity|]. destruct (i =? 1); reflexivity.
  - destruct (is_some (in_dgram s)); [exact H|]. eapply J_weaken; [..|exact H]; reflexivity.
  - destruct ((0 <=? bytes) && is_some (in_dgram s)); [|exact H]. eapply J_weaken; [..|exact H]; reflexivity.
  - destruct (in_dgram s) as [[|]|]; [apply J_set_ld| |exact H]. eapply J_weaken; [..|exact H]; reflexivity.
  - match goal with |- J (if ?g then _ else _) => destruct g end; [|exact H]. apply J_set_ld.
  - match goal with |- J (if ?g then _ else _) => destruct g eqn:G end; [|exact H].
    eapply J_weaken; [..|exact H]; try reflexivity.
    assert (Hi : i = 1 \/ i = 2) by lia.
    destruct Hi as [-> | ->]; unfold ae_total, with_conn, with_sp, sp; zc; reflexivity.
  - destruct (client s && (highest s =? 0)); [|exact H]. eapply J_weaken; [..|exact H]; reflexivity.
  - match goal with |- J (if ?g then _ else _) => destruct g end; [|exact H]. apply J_set_ld.
  - match goal with |- J (if ?g then _ else _) => destruct g end; [|exact H]. apply J_set_ld.
  - destruct (is_some (in_dgram s)); [|exact H]. eapply J_weaken; [..|exact H]; reflexivity.
  - match goal with |- J (if ?g then _ else _) => destruct g end; [|exact H]. apply J_set_ld.
  - intros _ A. vm_compute in A. discriminate.
  - match goal with |- J (if ?g then _ else _) => destruct g end; [|exact H].
    unfold do_timeout.
    set (s1 := if expired (ld s) (now c) then _ else s).
    assert (H1 : J s1).
    { subst s1. destruct (expired (ld s) (now c)) eqn:E; [|exact H].
      unfold on_ld_timeout.
      replace (loss_time_and_space (with_ld s None (stale s))) with (loss_time_and_space s) by reflexivity.
      destruct (loss_time_and_space s) as [[t i]|]; [apply J_set_ld|].
      destruct (pto_time_and_space m c (with_ld s None (stale s))) as [[t i]|]; [apply J_set_ld|].
      intros A B. destruct (H A B) as (L & _). rewrite L in E. discriminate. }
    destruct (expired (pacing s1) (now c)); [|exact H1].
    eapply J_weaken; [..|exact H1]; reflexivity.
Qed.

Lemma J_run : forall m ops s, J s -> J (run m true s ops).
Proof. induction ops as [|o ops IH]; intros s H; [exact H|]. cbn [run fold_left]. apply IH, J_step, H. Qed.

Lemma J_init : forall cl v, J (init cl v).
Proof. intros cl v _ _. split; reflexivity. Qed.

(** The repaired code: the timer is armed whenever needed, except on a connection that has not
    yet sent anything ack-eliciting nor evaluated its timer (a just-created client). *)
Theorem timer_armed_fixed : forall m cl v ops,
  let s := run m true (init cl v) ops in
  closed s = false -> in_dgram s <> Some true -> blocked s 1 = false -> needs_b s = true ->
  is_some (ld s) = true \/ (stale s = true /\ ld s = None /\ ae_total s = 0).
Proof.
  intros m cl v ops s A B C D.
  destruct (timer_inv_reachable m true cl v ops A B C D) as [E|E]; [left; exact E|right].
  split; [exact E|]. exact (J_run m ops _ (J_init cl v) E A).
Qed.

(** * The readable [needs] implies the exact condition on well-formed states *)
Lemma needs_needs_b : forall s, wf s -> needs s -> needs_b s = true.
Proof.
  intros s (WI & WH & WD & _) N. unfold needs_b.
  destruct (is_some (loss_time_and_space s)) eqn:EL; [reflexivity|]. cbn [orb].
  unfold loss_time_and_space, pick_min in EL.
  destruct WI as (I1 & I2 & I3 & I4), WH as (H1 & H2 & H3 & H4), WD as (D1 & D2 & D3 & D4).
  destruct (loss_time (sI s)) as [a|] eqn:LI; [destruct (loss_time (sH s)); [destruct (_ <? _)|]; destruct (loss_time (sD s)); try destruct (_ <? _); discriminate|].
  destruct (loss_time (sH s)) as [b|] eqn:LH; [destruct (loss_time (sD s)); try destruct (_ <? _); discriminate|].
  destruct (loss_time (sD s)) as [d|] eqn:LD; [discriminate|].
  destruct N as [N|[N|[N|N]]]; try congruence.
  unfold ae_total, pto_eligible, has_in_flight, handshaking in *.
  destruct N as [N|[N|[(N & P)|(N & P)]]].
  - replace (ae (sI s) + ae (sH s) + ae (sD s) =? 0) with false by lia.
    rewrite (I4 N). replace (0 <? ae (sI s) + nae (sI s)) with true by lia. reflexivity.
  - replace (ae (sI s) + ae (sH s) + ae (sD s) =? 0) with false by lia.
    rewrite (H4 N). replace (0 <? ae (sH s) + nae (sH s)) with true by lia. cbn [andb]. rewrite orb_true_r. reflexivity.
  - replace (ae (sI s) + ae (sH s) + ae (sD s) =? 0) with false by lia.
    rewrite (D4 N). replace (0 <? ae (sD s) + nae (sD s)) with true by lia.
    replace (phase s =? 0) with false by lia. cbn [andb negb]. apply orb_true_r.
  - replace (ae (sI s) + ae (sH s) + ae (sD s) =? 0) with true by lia. rewrite P. reflexivity.
Qed.

(** * PTO deadline and probe space *)

Lemma pto_value : forall m c s t i,
  pto_time_and_space m c s = Some (t, i) ->
  let b := 2 ^ Z.min (pto_count s) m in
  (ae_total s = 0 /\ t = now c + base c * b /\ i = (if highest s =? 1 then 1 else 0))
  \/ (ae_total s <> 0 /\ (i = 0 \/ i = 1 \/ (i = 2 /\ phase s <> 0)) /\ has_in_flight (sp s i) = true /\
      exists t0, tlae (sp s i) = Some t0 /\
                 t = t0 + (base c * b + (if i =? 2 then mad c * b else 0))).
Proof.
  intros m c s t i E b. unfold pto_time_and_space, backoff in E. fold b in E.
  destruct (ae_total s =? 0) eqn:Z0.
  - left. inversion E. split; [lia|]. split; reflexivity.
  - right. split; [lia|]. unfold pto_pick, handshaking, sp in *.
    destruct (has_in_flight (sI s)) eqn:FI, (tlae (sI s)) as [tI|] eqn:TI,
             (has_in_flight (sH s)) eqn:FH, (tlae (sH s)) as [tH|] eqn:TH,
             (has_in_flight (sD s)) eqn:FD, (phase s =? 0) eqn:PH, (tlae (sD s)) as [tD|] eqn:TD;
      cbn in E; repeat match type of E with context [if ?x <? ?y then _ else _] => destruct (x <? y) end;
      inversion E; subst; zc;
      try (split; [lia|]; split; [assumption|]; eexists; split; [eassumption|]; lia).
Qed.

Lemma pow2_pos : forall k, 0 <= k -> 0 < 2 ^ k.
Proof. intros k H. apply Z.pow_pos_nonneg; lia. Qed.

Theorem pto_backoff : forall m c s t i,
  0 <= m -> 0 <= pto_count s -> 0 < base c -> 0 <= mad c ->
  pto_time_and_space m c s = Some (t, i) ->
  let d := (base c + (if i =? 2 then mad c else 0)) * 2 ^ Z.min (pto_count s) m in
  0 < d <= (base c + mad c) * 2 ^ m /\
  ((ae_total s = 0 /\ t = now c + d) \/
   (ae_total s <> 0 /\ exists t0, tlae (sp s i) = Some t0 /\ t = t0 + d)).
Proof.
  intros m c s t i Hm Hp Hb Hd E d.
  assert (P : 0 < 2 ^ Z.min (pto_count s) m) by (apply pow2_pos; lia).
  assert (Q : 2 ^ Z.min (pto_count s) m <= 2 ^ m) by (apply Z.pow_le_mono_r; lia).
  destruct (pto_value m c s t i E) as [(A & B & C)|(A & B & F & t0 & T & V)].
  - subst d. replace (i =? 2) with false by (destruct (highest s =? 1); lia).
    split; [nia|]. left. split; [exact A|]. rewrite B. lia.
  - subst d. split.
    + destruct (i =? 2); nia.
    + right. split; [exact A|]. exists t0. split; [exact T|]. rewrite V. destruct (i =? 2); lia.
Qed.

(** firing the PTO: the chosen space gets probes; with [wf] it has keys, except for the anti-deadlock
    probe of a client that already has 1-RTT keys and has dropped its Initial keys *)
Theorem pto_fire_probes : forall m c s t i,
  wf s -> pto_time_and_space m c s = Some (t, i) -> loss_time_and_space s = None ->
  let s' := on_ld_timeout m c s 0 0 None in
  probes (sp s' i) = probes (sp s i) + (if ae_total s =? 0 then 1 else 2) /\
  0 < probes (sp s' i) /\
  pto_count s' = pto_count s + 1 /\
  (sendable s' i = true \/ (ae_total s = 0 /\ highest s = 2 /\ keys (sI s) = false)).
Proof.
  intros m c s t i W E L s'. subst s'. unfold on_ld_timeout. rewrite L, E.
  set (x := sp s i).
  set (s1 := with_pto_count (with_sp s i _) _).
  assert (Hi : i = 0 \/ i = 1 \/ i = 2).
  { destruct (pto_value m c s t i E) as [(_ & _ & ->)|(_ & B & _)]; [destruct (highest s =? 1); lia|lia]. }
  assert (S1 : sp s1 i = mkSpace (ae x) (nae x) (loss_time x) (tlae x)
                                 (probes x + (if ae_total s =? 0 then 1 else 2)) (keys x) (acked x)).
  { subst s1. unfold with_pto_count, sp. cbn. unfold with_sp. cbn.
    destruct Hi as [-> | [-> | ->]]; zc; reflexivity. }
  assert (Px : 0 <= probes x).
  { destruct W as ((_ & _ & A & _) & (_ & _ & B & _) & (_ & _ & C & _) & _).
    subst x. unfold sp. destruct (i =? 0); [exact A|]. destruct (i =? 1); assumption. }
  ld_shape m c s1.
  change (sp (with_ld s1 t0 st) i) with (sp s1 i). rewrite S1. cbn [probes].
  split; [reflexivity|]. split; [destruct (ae_total s =? 0); lia|]. split; [reflexivity|].
  assert (SK : sendable (with_ld s1 t0 st) i = sendable s i).
  { unfold sendable. change (sp (with_ld s1 t0 st) i) with (sp s1 i). rewrite S1. reflexivity. }
  rewrite SK.
  destruct W as (_ & _ & _ & KI & KH & KD & HR & H0 & H1).
  destruct (pto_value m c s t i E) as [(A & _ & ->)|(A & B & F & _)].
  - destruct HR as [R|[R|R]].
    + left. rewrite R. zc. unfold sendable, sp. zc. destruct (H0 R) as (K & _). rewrite K. reflexivity.
    + left. rewrite R. zc. unfold sendable, sp. zc. destruct (H1 R) as (K & _). rewrite K. reflexivity.
    + rewrite R. zc. unfold sendable, sp. zc. destruct (keys (sI s)) eqn:K; [left; reflexivity|right; auto].
  - left. unfold sendable, sp in *.
    destruct B as [-> | [-> | (-> & _)]]; zc; zc.
    + rewrite (KI F). reflexivity.
    + rewrite (KH F). reflexivity.
    + exact (KD F).
Qed.
