(** in_flight_is_sum: the path's in-flight counters equal the sums over the tracked packets after
    every history; the debit never underflows; all acked implies zero. *)
From QV Require Import Lib.Tac Lib.Chk Lib.Corr Proofs.ChkProofs Model.SentPackets Model.InFlight.
Open Scope Z_scope.

Definition pkt_ok (p : pkt) : Prop := p_gen p = GENERATION /\ 0 <= p_size p /\ 0 <= p_ae p.
Definition ents_ok (l : entries) : Prop := Forall (fun e => pkt_ok (snd e)) l.

Definition inv (s : st) : Prop :=
  bytes s = sum_size (ents (sp s)) /\ aec s = count_ae (ents (sp s)) /\ ents_ok (ents (sp s)) /\
  bytes s <= U64MAX /\ aec s <= U64MAX.

(** ---- sums over association lists ---- *)
Lemma sum_size_app l e : sum_size (l ++ [e]) = sum_size l + (if p_gen (snd e) =? GENERATION then p_size (snd e) else 0).
Proof. induction l as [|x l IH]; cbn [app sum_size fold_right] in *; [lia|]. unfold sum_size in *. lia. Qed.

Lemma count_ae_app l e : count_ae (l ++ [e]) = count_ae l + (if p_gen (snd e) =? GENERATION then p_ae (snd e) else 0).
Proof. induction l as [|x l IH]; cbn [app count_ae fold_right] in *; [lia|]. unfold count_ae in *. lia. Qed.

Lemma sum_size_delete k l q :
  lookup k l = Some q ->
  sum_size (delete k l) = sum_size l - (if p_gen q =? GENERATION then p_size q else 0).
Proof.
  induction l as [|[k' p] l IH]; cbn [lookup delete]; [discriminate|].
  destruct (k' =? k) eqn:E; intro H.
  - inversion H; subst. unfold sum_size. cbn [fold_right snd]. lia.
  - specialize (IH H). unfold sum_size in *. cbn [fold_right snd]. lia.
Qed.

Lemma count_ae_delete k l q :
  lookup k l = Some q ->
  count_ae (delete k l) = count_ae l - (if p_gen q =? GENERATION then p_ae q else 0).
Proof.
  induction l as [|[k' p] l IH]; cbn [lookup delete]; [discriminate|].
  destruct (k' =? k) eqn:E; intro H.
  - inversion H; subst. unfold count_ae. cbn [fold_right snd]. lia.
  - specialize (IH H). unfold count_ae in *. cbn [fold_right snd]. lia.
Qed.

Lemma ents_ok_delete k l : ents_ok l -> ents_ok (delete k l).
Proof.
  induction l as [|[k' p] l IH]; cbn [delete]; intro H; [exact H|].
  inversion H; subst. destruct (k' =? k); [assumption|]. constructor; [assumption|apply IH; assumption].
Qed.

Lemma lookup_ok k l q : ents_ok l -> lookup k l = Some q -> pkt_ok q.
Proof.
  induction l as [|[k' p] l IH]; cbn [lookup]; intros H E; [discriminate|].
  inversion H; subst. destruct (k' =? k); [inversion E; subst; assumption|apply IH; assumption].
Qed.

Lemma sums_nonneg l : ents_ok l -> 0 <= sum_size l /\ 0 <= count_ae l.
Proof.
  induction 1 as [|[k p] l Hp Hl IH]; unfold sum_size, count_ae in *; cbn [fold_right snd]; [lia|].
  cbn [snd] in Hp. destruct Hp as (? & ? & ?). destruct (p_gen p =? GENERATION); lia.
Qed.

Lemma sum_size_ge k l q : ents_ok l -> lookup k l = Some q -> p_size q <= sum_size l.
Proof.
  induction l as [|[k' p] l IH]; cbn [lookup]; intros H E; [discriminate|].
  inversion H as [|? ? Hp Hl]; subst. cbn [snd] in Hp. destruct Hp as (Hg & Hs & Ha).
  destruct (sums_nonneg _ Hl) as [Hnn1 Hnn2].
  unfold sum_size in *. cbn [fold_right snd]. rewrite Hg, Z.eqb_refl.
  destruct (k' =? k); [inversion E; subst; lia|]. specialize (IH Hl E). lia.
Qed.

Lemma count_ae_ge k l q : ents_ok l -> lookup k l = Some q -> p_ae q <= count_ae l.
Proof.
  induction l as [|[k' p] l IH]; cbn [lookup]; intros H E; [discriminate|].
  inversion H as [|? ? Hp Hl]; subst. cbn [snd] in Hp. destruct Hp as (Hg & Hs & Ha).
  destruct (sums_nonneg _ Hl) as [Hnn1 Hnn2].
  unfold count_ae in *. cbn [fold_right snd]. rewrite Hg, Z.eqb_refl.
  destruct (k' =? k); [inversion E; subst; lia|]. specialize (IH Hl E). lia.
Qed.

(** ---- SentPackets facts ---- *)
Lemma insert_ents s pn p s' : SentPackets.insert s pn p = Some s' -> ents s' = ents s ++ [(pn, p)].
Proof.
  unfold SentPackets.insert. destruct (ents s) as [|e l] eqn:El.
  - intro H; inversion H; subst. reflexivity.
  - destruct (last s) as [x|]; [destruct (pn <=? x); [discriminate|]|];
      intro H; inversion H; subst; reflexivity.
Qed.

Lemma remove_some s k q s' :
  SentPackets.remove s k = (Some q, s') -> lookup k (ents s) = Some q /\ ents s' = delete k (ents s).
Proof.
  unfold SentPackets.remove. destruct (lookup k (ents s)) as [p|]; intro H; inversion H; subst.
  split; reflexivity.
Qed.

Lemma remove_none s k s' : SentPackets.remove s k = (None, s') -> s' = s.
Proof.
  unfold SentPackets.remove. destruct (lookup k (ents s)) as [p|]; intro H; inversion H; reflexivity.
Qed.

(** ---- the debit never underflows on a tracked packet ---- *)
Lemma debit_tracked spx t la b a q :
  pkt_ok q -> p_size q <= b <= U64MAX -> p_ae q <= a <= U64MAX ->
  debit (mk spx t la b a) q = inl (true, mk spx t la (b - p_size q) (a - p_ae q)).
Proof.
  intros (Hg & Hs & Ha) Hb Hc. unfold debit. cbn [bytes aec sp tail largest_ae].
  rewrite Hg, Z.eqb_refl. unfold csub. rewrite !chk_in_range by lia. reflexivity.
Qed.

Definition sent_wf (p : pkt) : Prop := pkt_ok p.

Lemma sent_inv s pn p r :
  inv s -> pkt_ok p -> sent s pn p = r ->
  match r with inl s' => inv s' | inr e => e <> 2 end.
Proof.
  intros (Hb & Ha & Hok & Hbm & Ham) Hp <-. destruct Hp as (Hg & Hs & Hae).
  destruct (sums_nonneg _ Hok) as [Hsn Hcn].
  unfold sent, credit.
  destruct (cadd (bytes s) (p_size p)) as [b1|] eqn:Eb; [|discriminate].
  destruct (cadd (aec s) (p_ae p)) as [a1|] eqn:Ea; [|discriminate].
  apply cadd_some in Eb as [-> Hb1]. apply cadd_some in Ea as [-> Ha1].
  cbn [sp tail largest_ae bytes aec].
  destruct (nz (p_ae p)) eqn:Enz.
  - (* ack-eliciting *)
    cbn [sp]. destruct (SentPackets.insert (sp s) pn p) as [sp'|] eqn:Ei; [|discriminate].
    apply insert_ents in Ei. unfold inv. cbn [sp bytes aec]. rewrite Ei, sum_size_app, count_ae_app.
    cbn [snd]. rewrite Hg, Z.eqb_refl.
    repeat split; try lia. apply Forall_app. split; [assumption|]. repeat constructor; cbn [snd]; assumption.
  - destruct (MAX_TAIL <? tail s) eqn:Et.
    + (* forgetting *)
      destruct (first_after (sp s) (largest_ae s)) as [k|]; [|discriminate].
      destruct (SentPackets.remove (sp s) k) as [[q|] spr] eqn:Er; [|discriminate].
      apply remove_some in Er as [Hl Hd]. cbn [sp tail largest_ae bytes aec].
      destruct (SentPackets.insert spr pn p) as [sp'|] eqn:Ei; [|discriminate].
      apply insert_ents in Ei.
      pose proof (lookup_ok _ _ _ Hok Hl) as Hq.
      pose proof (sum_size_ge _ _ _ Hok Hl) as Hqs. pose proof (count_ae_ge _ _ _ Hok Hl) as Hqa.
      rewrite (debit_tracked sp' (tail s) (largest_ae s) _ _ q Hq) by lia.
      unfold inv. cbn [sp bytes aec]. rewrite Ei, Hd, sum_size_app, count_ae_app.
      rewrite (sum_size_delete _ _ _ Hl), (count_ae_delete _ _ _ Hl). cbn [snd].
      destruct Hq as (Hqg & Hq0 & Hq1). rewrite Hg, Hqg, Z.eqb_refl.
      repeat split; try lia. apply Forall_app. split; [apply ents_ok_delete; assumption|].
      repeat constructor; cbn [snd]; assumption.
    + cbn [sp]. destruct (SentPackets.insert (sp s) pn p) as [sp'|] eqn:Ei; [|discriminate].
      apply insert_ents in Ei. unfold inv. cbn [sp bytes aec]. rewrite Ei, sum_size_app, count_ae_app.
      cbn [snd]. rewrite Hg, Z.eqb_refl.
      repeat split; try lia. apply Forall_app. split; [assumption|]. repeat constructor; cbn [snd]; assumption.
Qed.

Lemma take_inv s pn r :
  inv s -> take s pn = r ->
  match r with
  | inl (code, s') => inv s' /\ (code = 0 -> s' = s) /\ code <> 2
  | inr e => e <> 2
  end.
Proof.
  intros (Hb & Ha & Hok & Hbm & Ham) <-. unfold take.
  destruct (SentPackets.remove (sp s) pn) as [[q|] spr] eqn:Er.
  2:{ repeat split; try assumption; try reflexivity; discriminate. }
  apply remove_some in Er as [Hl Hd].
  match goal with |- context [if ?c then inr 4 else _] => destruct c end; [discriminate|].
  pose proof (lookup_ok _ _ _ Hok Hl) as Hq.
  pose proof (sum_size_ge _ _ _ Hok Hl) as Hqs. pose proof (count_ae_ge _ _ _ Hok Hl) as Hqa.
  destruct (sums_nonneg _ Hok) as [Hsn Hcn].
  rewrite (debit_tracked spr _ (largest_ae s) _ _ q Hq) by lia.
  split; [|split; [discriminate|discriminate]].
  unfold inv. cbn [sp bytes aec]. rewrite Hd, (sum_size_delete _ _ _ Hl), (count_ae_delete _ _ _ Hl).
  destruct Hq as (Hqg & Hq0 & Hq1). rewrite Hqg, Z.eqb_refl.
  repeat split; try lia. apply ents_ok_delete; assumption.
Qed.

Lemma debit_all_inv l : forall spx t la b a,
  ents_ok l -> b = sum_size l -> a = count_ae l -> b <= U64MAX -> a <= U64MAX ->
  debit_all (mk spx t la b a) l = inl (mk spx t la 0 0).
Proof.
  induction l as [|[k q] l IH]; intros spx t la b a Hok Hb Ha Hbm Ham; cbn [debit_all].
  - unfold sum_size, count_ae in *. cbn [fold_right] in *. subst. reflexivity.
  - inversion Hok as [|? ? Hq Hl]; subst. cbn [snd] in Hq.
    destruct (sums_nonneg _ Hl) as [Hsn Hcn].
    assert (sum_size ((k, q) :: l) = p_size q + sum_size l) as E1.
    { unfold sum_size. cbn [fold_right snd]. destruct Hq as (-> & _). rewrite Z.eqb_refl. reflexivity. }
    assert (count_ae ((k, q) :: l) = p_ae q + count_ae l) as E2.
    { unfold count_ae. cbn [fold_right snd]. destruct Hq as (-> & _). rewrite Z.eqb_refl. reflexivity. }
    pose proof Hq as (Hqg & Hq0 & Hq1).
    rewrite (debit_tracked spx t la _ _ q Hq) by lia.
    apply IH; try assumption; lia.
Qed.

Lemma discard_inv s : inv s -> exists s', discard s = inl s' /\ inv s' /\ bytes s' = 0 /\ aec s' = 0.
Proof.
  intros (Hb & Ha & Hok & Hbm & Ham). unfold discard.
  rewrite (debit_all_inv (ents (sp s)) SentPackets.empty (tail s) (largest_ae s) _ _ Hok Hb Ha Hbm Ham).
  eexists. split; [reflexivity|]. unfold inv. cbn [sp bytes aec ents SentPackets.empty].
  unfold sum_size, count_ae, U64MAX. cbn [fold_right]. repeat split; try lia. constructor.
Qed.

(** Well-formed history: packets are sent with the path's current generation (as
    [PacketBuilder::finish_and_track] does), sizes are u16 values. *)
Definition op_wf (op : list Z) : Prop :=
  match op with
  | [0; _; size; _; gen] => gen = GENERATION /\ 0 <= size
  | _ => True
  end.

Lemma b2z_nonneg b : 0 <= b2z b.
Proof. destruct b; cbn; lia. Qed.

Lemma step_inv s op r :
  op_wf op -> inv s -> step s op = r ->
  match r with inl (s', _) => inv s' | inr e => e <> 2 end.
Proof.
  intros Hwf Hi <-. unfold step.
  destruct op as [|c [|a1 [|a2 [|a3 [|a4 [|a5 rest]]]]]]; try exact Hi.
  - (* one-element op: [4] or unknown *)
    destruct c as [|p|p]; try exact Hi. repeat (destruct p as [p|p|]; try exact Hi).
    destruct (discard_inv s Hi) as (s' & -> & Hi' & _). exact Hi'.
  - (* [k; pn] *)
    assert (forall k, match (if (1 <=? k) && (k <=? 3)
                             then match take s a1 with inl (r, s') => inl (s', obs r s') | inr e => inr e end
                             else inl (s, [-1])) with inl (s', _) => inv s' | inr e => e <> 2 end) as Hk.
    { intro k. destruct ((1 <=? k) && (k <=? 3)); [|exact Hi].
      pose proof (take_inv s a1 _ Hi eq_refl) as Ht. destruct (take s a1) as [[code s']|e]; [apply Ht|exact Ht]. }
    destruct c as [|p|p]; try apply Hk. all: repeat (destruct p as [p|p|]; try apply Hk; try exact Hi).
  - destruct c as [|p|p]; exact Hi || (repeat (destruct p as [p|p|]; try exact Hi)).
  - destruct c as [|p|p]; exact Hi || (repeat (destruct p as [p|p|]; try exact Hi)).
  - (* [0; pn; size; ae; gen] *)
    destruct c as [|p|p]; try exact Hi; [|repeat (destruct p as [p|p|]; try exact Hi)].
    cbn in Hwf. destruct Hwf as [Hg Hs].
    assert (pkt_ok (a2, b2z (nz a3), a4)) as Hp.
    { unfold pkt_ok, p_gen, p_size, p_ae. cbn [fst snd]. repeat split; [assumption|assumption|apply b2z_nonneg]. }
    pose proof (sent_inv s a1 _ _ Hi Hp eq_refl) as Hs'.
    destruct (sent s a1 (a2, b2z (nz a3), a4)) as [s'|e]; exact Hs'.
  - destruct c as [|p|p]; exact Hi || (repeat (destruct p as [p|p|]; try exact Hi)).
Qed.

Lemma steps_inv l : forall s,
  Forall op_wf l -> inv s ->
  match steps s l with inl s' => inv s' | inr e => e <> 2 end.
Proof.
  induction l as [|op l IH]; intros s Hwf Hi; cbn [steps]; [exact Hi|].
  inversion Hwf as [|? ? Hop Hl]; subst.
  pose proof (step_inv s op _ Hop Hi eq_refl) as Hs.
  destruct (step s op) as [[s' o]|e]; [apply IH; assumption|exact Hs].
Qed.

Lemma init_inv : inv init.
Proof.
  unfold inv, init, sum_size, count_ae, U64MAX. cbn [sp bytes aec ents SentPackets.empty fold_right].
  repeat split; try lia. constructor.
Qed.

Theorem in_flight_is_sum : forall l,
  Forall op_wf l ->
  match steps init l with
  | inl s => bytes s = sum_size (ents (sp s)) /\ aec s = count_ae (ents (sp s))
  | inr e => e <> 2
  end.
Proof.
  intros l Hwf. pose proof (steps_inv l init Hwf init_inv) as H.
  destruct (steps init l) as [s|e]; [|exact H]. destruct H as (Hb & Ha & _). split; assumption.
Qed.

Theorem all_acked_implies_zero : forall l s,
  Forall op_wf l -> steps init l = inl s -> ents (sp s) = [] -> bytes s = 0 /\ aec s = 0.
Proof.
  intros l s Hwf E Hnil. pose proof (in_flight_is_sum l Hwf) as H. rewrite E in H.
  destruct H as [Hb Ha]. rewrite Hnil in Hb, Ha. unfold sum_size, count_ae in *. cbn [fold_right] in *.
  split; assumption.
Qed.

(** ---- each packet leaves the tracked set exactly once ---- *)
Fixpoint incr (l : entries) : Prop :=
  match l with
  | [] => True
  | (k, _) :: l' => Forall (fun e => k < fst e) l' /\ incr l'
  end.

Definition sp_inv (s : SentPackets.st) : Prop :=
  incr (ents s) /\
  (ents s <> [] -> exists x, SentPackets.last s = Some x /\ Forall (fun e => fst e <= x) (ents s)).

Lemma forall_delete (P : Z * pkt -> Prop) k l : Forall P l -> Forall P (delete k l).
Proof.
  induction l as [|[k' p] l IH]; cbn [delete]; intro H; [exact H|].
  inversion H; subst. destruct (k' =? k); [assumption|]. constructor; [assumption|apply IH; assumption].
Qed.

Lemma incr_delete k l : incr l -> incr (delete k l).
Proof.
  induction l as [|[k' p] l IH]; cbn [delete incr]; intro H; [exact H|].
  destruct H as [Hf Hi]. destruct (k' =? k); [assumption|]. cbn [incr].
  split; [apply forall_delete; assumption|apply IH; assumption].
Qed.

Lemma lookup_none_gt k l : Forall (fun e => k < fst e) l -> lookup k l = None.
Proof.
  induction 1 as [|[k' p] l Hk Hl IH]; cbn [lookup]; [reflexivity|].
  cbn [fst] in Hk. destruct (k' =? k) eqn:E; [lia|exact IH].
Qed.

Lemma lookup_delete_none k l : incr l -> lookup k (delete k l) = None.
Proof.
  induction l as [|[k' p] l IH]; cbn [delete incr]; intro H; [reflexivity|].
  destruct H as [Hf Hi]. destruct (k' =? k) eqn:E.
  - assert (k' = k) by lia. subst. apply lookup_none_gt; assumption.
  - cbn [lookup]. rewrite E. apply IH; assumption.
Qed.

Lemma incr_app l pn p : incr l -> Forall (fun e => fst e < pn) l -> incr (l ++ [(pn, p)]).
Proof.
  induction l as [|[k q] l IH]; cbn [app incr]; intros Hi Hf; [split; [constructor|exact I]|].
  destruct Hi as [Hk Hi]. inversion Hf as [|? ? Hkp Hfl]; subst. cbn [fst] in Hkp.
  split; [apply Forall_app; split; [assumption|repeat constructor; cbn [fst]; lia]|apply IH; assumption].
Qed.

Lemma sp_insert_inv s pn p s' : sp_inv s -> SentPackets.insert s pn p = Some s' -> sp_inv s'.
Proof.
  intros [Hi Hl] H. unfold SentPackets.insert in H. destruct (ents s) as [|e l] eqn:El.
  - inversion H; subst. unfold sp_inv. cbn [ents SentPackets.last incr].
    split; [split; [constructor|exact I]|]. intros _. exists pn. split; [reflexivity|].
    repeat constructor; cbn [fst]; lia.
  - destruct Hl as (x & Hx & Hle); [discriminate|]. rewrite Hx in H.
    destruct (pn <=? x) eqn:E; [discriminate|]. inversion H; subst.
    unfold sp_inv. cbn [ents SentPackets.last]. split.
    + apply (incr_app (e :: l) pn p); [assumption|]. eapply Forall_impl; [|exact Hle]. cbn beta. intros a Ha. lia.
    + intros _. exists pn. split; [reflexivity|].
      change (Forall (fun e0 : Z * pkt => fst e0 <= pn) ((e :: l) ++ [(pn, p)])). apply Forall_app. split.
      * eapply Forall_impl; [|exact Hle]. cbn beta. intros a Ha. lia.
      * repeat constructor; cbn [fst]; lia.
Qed.

Lemma sp_remove_inv s k r s' : sp_inv s -> SentPackets.remove s k = (r, s') -> sp_inv s'.
Proof.
  intros [Hi Hl] H. unfold SentPackets.remove in H.
  destruct (lookup k (ents s)) as [p|] eqn:E; inversion H; subst; [|split; assumption].
  unfold sp_inv. cbn [ents SentPackets.last]. split; [apply incr_delete; assumption|].
  intro Hne. destruct Hl as (x & Hx & Hle).
  { intro Hnil. rewrite Hnil in E. discriminate. }
  exists x. split; [assumption|apply forall_delete; assumption].
Qed.

Lemma sent_sp_inv s pn p s' : sp_inv (sp s) -> sent s pn p = inl s' -> sp_inv (sp s').
Proof.
  intros Hi H. unfold sent in H. destruct (credit s p) as [s1|e] eqn:Ec; [|discriminate].
  assert (sp s1 = sp s) as Es1.
  { unfold credit in Ec. destruct (cadd (bytes s) (p_size p)); [|discriminate].
    destruct (cadd (aec s) (p_ae p)); [|discriminate]. inversion Ec; reflexivity. }
  assert (forall st0 q, match debit st0 q with inl (_, s4) => sp s4 = sp st0 | inr _ => True end) as Hdeb.
  { intros st0 q. unfold debit. destruct (p_gen q =? GENERATION); [|reflexivity].
    destruct (csub (bytes st0) (p_size q)); [|exact I]. destruct (csub (aec st0) (p_ae q)); [|exact I]. reflexivity. }
  destruct (nz (p_ae p)).
  - cbn [sp] in H. destruct (SentPackets.insert (sp s1) pn p) as [sp'|] eqn:Ei; [|discriminate].
    inversion H; subst. cbn [sp]. rewrite Es1 in Ei. eapply sp_insert_inv; eassumption.
  - destruct (MAX_TAIL <? tail s1).
    + destruct (first_after (sp s1) (largest_ae s1)) as [k|]; [|discriminate].
      destruct (SentPackets.remove (sp s1) k) as [[q|] spr] eqn:Er; [|discriminate].
      cbn [sp tail largest_ae bytes aec] in H.
      destruct (SentPackets.insert spr pn p) as [sp'|] eqn:Ei; [|discriminate].
      rewrite Es1 in Er. pose proof (sp_remove_inv _ _ _ _ Hi Er) as Hr.
      pose proof (sp_insert_inv _ _ _ _ Hr Ei) as Hi'.
      specialize (Hdeb (mk sp' (tail s1) (largest_ae s1) (bytes s1) (aec s1)) q).
      destruct (debit (mk sp' (tail s1) (largest_ae s1) (bytes s1) (aec s1)) q) as [[b s4]|e]; [|discriminate].
      inversion H; subst. rewrite Hdeb. exact Hi'.
    + cbn [sp] in H. destruct (SentPackets.insert (sp s1) pn p) as [sp'|] eqn:Ei; [|discriminate].
      inversion H; subst. cbn [sp]. rewrite Es1 in Ei. eapply sp_insert_inv; eassumption.
Qed.

(** Once taken (acked, lost or abandoned), a packet number is no longer tracked: a second
    removal finds nothing and leaves every counter unchanged. *)
Theorem leaves_once : forall s pn code s',
  sp_inv (sp s) -> take s pn = inl (code, s') -> code <> 0 ->
  take s' pn = inl (0, s').
Proof.
  intros s pn code s' [Hi _] H Hc. unfold take in H.
  destruct (SentPackets.remove (sp s) pn) as [[q|] spr] eqn:Er.
  2:{ inversion H; subst. lia. }
  apply remove_some in Er as [Hl Hd].
  match type of H with (if ?c then _ else _) = _ => destruct c end; [discriminate|].
  assert (sp s' = spr) as Es.
  { revert H. unfold debit. cbn [sp tail largest_ae bytes aec]. destruct (p_gen q =? GENERATION).
    - match goal with |- context [csub ?a ?b] => destruct (csub a b) end; [|discriminate].
      match goal with |- context [csub ?a ?b] => destruct (csub a b) end; [|discriminate].
      intro H; inversion H; reflexivity.
    - intro H; inversion H; reflexivity. }
  unfold take, SentPackets.remove. rewrite Es, Hd, (lookup_delete_none pn _ Hi). reflexivity.
Qed.

Lemma debit_sp st0 q : match debit st0 q with inl (_, s4) => sp s4 = sp st0 | inr _ => True end.
Proof.
  unfold debit. destruct (p_gen q =? GENERATION); [|reflexivity].
  destruct (csub (bytes st0) (p_size q)); [|exact I]. destruct (csub (aec st0) (p_ae q)); [|exact I]. reflexivity.
Qed.

Lemma take_sp_inv s pn code s' : sp_inv (sp s) -> take s pn = inl (code, s') -> sp_inv (sp s').
Proof.
  intros Hi H. unfold take in H.
  destruct (SentPackets.remove (sp s) pn) as [[q|] spr] eqn:Er.
  2:{ inversion H; subst. assumption. }
  pose proof (sp_remove_inv _ _ _ _ Hi Er) as Hr.
  match type of H with (if ?c then _ else _) = _ => destruct c end; [discriminate|].
  match type of H with match debit ?a ?b with _ => _ end = _ =>
    pose proof (debit_sp a b) as Hd; destruct (debit a b) as [[[|] s4]|e] end;
    inversion H; subst; rewrite Hd; exact Hr.
Qed.

Lemma debit_all_sp l : forall s0 s', debit_all s0 l = inl s' -> sp s' = sp s0.
Proof.
  induction l as [|[k q] l IH]; intros s0 s' H; cbn [debit_all] in H; [inversion H; reflexivity|].
  pose proof (debit_sp s0 q) as Hd. destruct (debit s0 q) as [[b s4]|e]; [|discriminate].
  rewrite (IH _ _ H). exact Hd.
Qed.

Lemma empty_sp_inv : sp_inv SentPackets.empty.
Proof. unfold sp_inv, SentPackets.empty. cbn [ents incr]. split; [exact I|]. intro H; contradiction. Qed.

Lemma step_sp_inv s op s' o : sp_inv (sp s) -> step s op = inl (s', o) -> sp_inv (sp s').
Proof.
  intros Hi H. unfold step in H.
  assert (forall x : st * list Z, inl (B := Z) (s, [-1]) = inl x -> sp_inv (sp (fst x))) as Hsame.
  { intros x Hx. inversion Hx; subst. exact Hi. }
  destruct op as [|c [|a1 [|a2 [|a3 [|a4 [|a5 rest]]]]]];
    try (apply (Hsame (s', o)); exact H).
  - destruct c as [|p|p]; try (apply (Hsame (s', o)); exact H).
    repeat (destruct p as [p|p|]; try (apply (Hsame (s', o)); exact H)).
    destruct (discard s) as [s1|e] eqn:Ed; [|discriminate]. inversion H; subst.
    unfold discard in Ed. apply debit_all_sp in Ed. rewrite Ed. cbn [sp]. apply empty_sp_inv.
  - assert (forall k, (if (1 <=? k) && (k <=? 3)
                       then match take s a1 with inl (r, s1) => inl (s1, obs r s1) | inr e => inr e end
                       else inl (s, [-1])) = inl (s', o) -> sp_inv (sp s')) as Hk.
    { intros k Hk. destruct ((1 <=? k) && (k <=? 3)); [|apply (Hsame (s', o)); exact Hk].
      destruct (take s a1) as [[r s1]|e] eqn:Et; [|discriminate]. inversion Hk; subst.
      eapply take_sp_inv; eassumption. }
    destruct c as [|p|p]; try (match type of H with (if (1 <=? ?k) && _ then _ else _) = _ => exact (Hk k H) end).
    all: try (apply (Hsame (s', o)); exact H).
    all: repeat (destruct p as [p|p|]; try (match type of H with (if (1 <=? ?k) && _ then _ else _) = _ => exact (Hk k H) end); try (apply (Hsame (s', o)); exact H)).
  - destruct c as [|p|p]; try (apply (Hsame (s', o)); exact H);
      repeat (destruct p as [p|p|]; try (apply (Hsame (s', o)); exact H)).
  - destruct c as [|p|p]; try (apply (Hsame (s', o)); exact H);
      repeat (destruct p as [p|p|]; try (apply (Hsame (s', o)); exact H)).
  - destruct c as [|p|p]; try (apply (Hsame (s', o)); exact H);
      [|repeat (destruct p as [p|p|]; try (apply (Hsame (s', o)); exact H))].
    destruct (sent s a1 (a2, b2z (nz a3), a4)) as [s1|e] eqn:Es; [|discriminate].
    inversion H; subst. eapply sent_sp_inv; eassumption.
  - destruct c as [|p|p]; try (apply (Hsame (s', o)); exact H);
      repeat (destruct p as [p|p|]; try (apply (Hsame (s', o)); exact H)).
Qed.

Lemma steps_sp_inv l : forall s s', sp_inv (sp s) -> steps s l = inl s' -> sp_inv (sp s').
Proof.
  induction l as [|op l IH]; intros s s' Hi H; cbn [steps] in H; [inversion H; subst; exact Hi|].
  destruct (step s op) as [[s1 o]|e] eqn:E; [|discriminate].
  eapply IH; [|exact H]. eapply step_sp_inv; eassumption.
Qed.

Theorem leaves_once_reachable : forall l s pn code s',
  steps init l = inl s -> take s pn = inl (code, s') -> code <> 0 ->
  take s' pn = inl (0, s').
Proof.
  intros l s pn code s' Hs Ht Hc. eapply leaves_once; [|exact Ht|exact Hc].
  eapply steps_sp_inv; [|exact Hs]. apply empty_sp_inv.
Qed.
