(** C20: time-translation equivariance of the time-carrying component models.

    For each model: [shift d] adds [d] to every instant held in the state / carried by an op /
    returned as an output and changes nothing else; the theorem is
        step (shift d s) (shift d op) = shift d (step s op)
    for ALL states, ops and shifts.  It holds because every use of an instant in these models is a
    comparison between two instants, a difference of two instants, or instant + duration.
    (Determinism is trivial for Gallina functions and is not stated.)
    Models without instants (AckFrequency: durations only) have nothing to shift. *)
From QV Require Import Lib.Tac Lib.Corr.
From QV Require Model.PendingAcks Model.StatelessReset Model.BloomLog Model.CidState Model.Mtud.
Open Scope Z_scope.

Definition shift_o (d : Z) (o : option Z) : option Z :=
  match o with Some t => Some (t + d) | None => None end.

(** lifting a step equivariance to op sequences, generic in the model *)
Section Lift.
  Variables (S Op Out : Type).
  Variable step : S -> Op -> option (S * Out).
  Variables (sh_s : S -> S) (sh_op : Op -> Op) (sh_out : Out -> Out).
  Hypothesis Hstep : forall s op,
    step (sh_s s) (sh_op op)
    = match step s op with Some (s', o) => Some (sh_s s', sh_out o) | None => None end.

  Fixpoint run_seq (s : S) (l : list Op) : option (S * list Out) :=
    match l with
    | [] => Some (s, [])
    | op :: r =>
        match step s op with
        | None => None
        | Some (s', o) =>
            match run_seq s' r with
            | None => None
            | Some (s'', os) => Some (s'', o :: os)
            end
        end
    end.

  Lemma run_seq_equivariant l : forall s,
    run_seq (sh_s s) (map sh_op l)
    = match run_seq s l with Some (s', os) => Some (sh_s s', map sh_out os) | None => None end.
  Proof.
    induction l as [|op r IH]; intro s; cbn [map run_seq]; [reflexivity|].
    rewrite Hstep. destruct (step s op) as [[s' o]|]; [|reflexivity].
    rewrite IH. destruct (run_seq s' r) as [[s'' os]|]; reflexivity.
  Qed.
End Lift.

(** * PendingAcks: receive time of the largest packet; [ack_delay] is a difference (a duration) *)
Module PA.
  Import PendingAcks.
  Definition shift_s (d : Z) (s : t) : t :=
    mk (ranges s) (match largest s with Some (pn, r) => Some (pn, r + d) | None => None end).
  Definition shift_op (d : Z) (o : op) : op :=
    match o with
    | InsertOne p now => InsertOne p (now + d)
    | AckDelay now => AckDelay (now + d)
    | o => o
    end.

  (** outputs (range summary and the ack delay) carry no instant: unchanged *)
  Theorem shift_equivariant M d s o :
    step M (shift_s d s) (shift_op d o)
    = match step M s o with Some (s', out) => Some (shift_s d s', out) | None => None end.
  Proof.
    destruct s as [rg lg]. destruct o as [p now|m|now|]; cbn [step shift_op].
    - unfold insert_one, shift_s; cbn [ranges largest].
      destruct (U64_MAX <=? p); [reflexivity|]. cbn [ranges largest summary].
      destruct lg as [[pn r]|]; cbn [ranges largest]; [destruct (pn <? p)|]; reflexivity.
    - unfold subtract_below, shift_s; cbn [ranges largest].
      destruct (U64_MAX <=? m); reflexivity.
    - unfold shift_s, ack_delay, summary; cbn [ranges largest].
      destruct lg as [[pn r]|]; cbn [ranges largest]; [|reflexivity].
      replace (now + d - (r + d)) with (now - r) by lia. reflexivity.
    - reflexivity.
  Qed.

  Theorem shift_equivariant_runs M d l s :
    run_seq _ _ _ (step M) (shift_s d s) (map (shift_op d) l)
    = match run_seq _ _ _ (step M) s l with
      | Some (s', os) => Some (shift_s d s', map (fun x => x) os) | None => None end.
  Proof. apply run_seq_equivariant. intros; apply shift_equivariant. Qed.
End PA.

(** * StatelessReset: time of the last reset sent; the rate limit compares [now] with last + interval *)
Module SR.
  Import StatelessReset.
  Definition shift_s (d : Z) (s : st) : st := mk (has_server s) (interval s) (shift_o d (last s)).

  Lemma decide_shift d s now len : decide (shift_s d s) (now + d) len = decide s now len.
  Proof.
    unfold decide, shift_s; cbn [last interval]. destruct (last s) as [l|]; cbn [shift_o]; [|reflexivity].
    replace (now + d <? l + d + interval s) with (now <? l + interval s) by lia. reflexivity.
  Qed.

  Theorem shift_equivariant d s now len hint :
    stateless_reset (shift_s d s) (now + d) len hint
    = match stateless_reset s now len hint with
      | Some (s', r) => Some (shift_s d s', r) | None => None end.
  Proof.
    unfold stateless_reset. rewrite decide_shift.
    destruct (decide s now len); try reflexivity.
    destruct (size_ok len hint); reflexivity.
  Qed.

  (** the datagram handler: outputs (sizes, counters) carry no instant *)
  Theorem handle_equivariant d s kind now len hint :
    handle (shift_s d s) kind (now + d) len hint
    = match handle s kind now len hint with
      | Some (s', o) => Some (shift_s d s', o) | None => None end.
  Proof.
    unfold handle. destruct (kind =? 1).
    - destruct (len <? 1 + CID_LEN); [reflexivity|].
      rewrite shift_equivariant. destruct (stateless_reset s now len hint) as [[s' r]|]; reflexivity.
    - destruct (kind =? 2); [|reflexivity].
      change (has_server (shift_s d s)) with (has_server s).
      destruct (has_server s).
      + match goal with |- context [if ?c then _ else _] => destruct c end; reflexivity.
      + rewrite shift_equivariant. destruct (stateless_reset s now len hint) as [[s' r]|]; reflexivity.
  Qed.
End SR.

(** * BloomLog: start of period 1 (a SystemTime); expiry = issued + lifetime; the period index
    is the difference (expiry - period start) / lifetime.  The state [init] holds the Unix epoch
    as period start — an absolute origin supplied by the TimeSource, shifted like any instant. *)
Module BL.
  Import BloomLog.
  Definition shift_s (d : Z) (s : t) : t := mk (p1s s + d) (f1 s) (f2 s).

  Theorem shift_equivariant fmb d s nonce issued lifetime fpr :
    check fmb (shift_s d s) nonce (issued + d) lifetime fpr
    = (shift_s d (fst (check fmb s nonce issued lifetime fpr)),
       snd (check fmb s nonce issued lifetime fpr)).
  Proof.
    unfold check, shift_s; cbn [p1s f1 f2].
    destruct (lifetime =? 0); [reflexivity|].
    replace (issued + d + lifetime <? p1s s + d) with (issued + lifetime <? p1s s) by lia.
    destruct (issued + lifetime <? p1s s); [reflexivity|].
    replace (issued + d + lifetime - (p1s s + d)) with (issued + lifetime - p1s s) by lia.
    destruct ((issued + lifetime - p1s s) / lifetime =? 0).
    { destruct (filter_check fmb (f1 s) (nonce mod 2 ^ 64) fpr); reflexivity. }
    destruct ((issued + lifetime - p1s s) / lifetime =? 1).
    { destruct (filter_check fmb (f2 s) (nonce mod 2 ^ 64) fpr); reflexivity. }
    destruct ((issued + lifetime - p1s s) / lifetime =? 2).
    { destruct (filter_check fmb empty_filter (nonce mod 2 ^ 64) fpr); cbn [fst snd p1s f1 f2].
      f_equal. f_equal. lia. }
    destruct (filter_check fmb empty_filter (nonce mod 2 ^ 64) fpr); cbn [fst snd p1s f1 f2].
    f_equal. f_equal. lia.
  Qed.
End BL.

(** * CidState: expiry instants of issued CID batches ([now + lifetime]); batches issued at the same
    instant are merged by comparing expiries; the next timeout is the head's expiry. *)
Module CS.
  Import CidState.
  Definition sh_e (d : Z) (x : Z * Z) : Z * Z := (fst x, snd x + d).
  Definition shift_q (d : Z) (q : list (Z * Z)) : list (Z * Z) := map (sh_e d) q.
  Definition shift_s (d : Z) (s : t) : t :=
    mk (shift_q d (ts s)) (issued s) (active s) (prev s) (rseq s) (cid_len s) (lifetime s).
  Definition shift_op (d : Z) (o : op) : op :=
    match o with
    | New cl lt now iss => New cl lt (now + d) iss
    | Issue n now => Issue n (now + d)
    | o => o
    end.
  Definition next_timeout_o (s : t) : option Z :=
    match ts s with [] => None | (_, e) :: _ => Some e end.
  Definition optz (o : option Z) : Z := match o with Some x => x | None => -1 end.

  Lemma next_timeout_enc s : next_timeout s = optz (next_timeout_o s).
  Proof. unfold next_timeout, next_timeout_o. destruct (ts s) as [|[a e] r]; reflexivity. Qed.

  Lemma next_timeout_shift d s : next_timeout_o (shift_s d s) = shift_o d (next_timeout_o s).
  Proof. unfold next_timeout_o, shift_s; cbn [ts]. destruct (ts s) as [|[a e] r]; reflexivity. Qed.

  Lemma last_shift d q x y : q <> [] -> last (shift_q d q) x = sh_e d (last q y).
  Proof.
    induction q as [|a r IH]; intro Hn; [congruence|].
    destruct r as [|b r']; [reflexivity|].
    change (last (shift_q d (a :: b :: r')) x) with (last (shift_q d (b :: r')) x).
    change (last (a :: b :: r') y) with (last (b :: r') y).
    apply IH. discriminate.
  Qed.

  Lemma set_last_shift d q v : set_last (shift_q d q) (sh_e d v) = shift_q d (set_last q v).
  Proof.
    induction q as [|a r IH]; [reflexivity|].
    destruct r as [|b r']; [reflexivity|].
    change (set_last (shift_q d (a :: b :: r')) (sh_e d v))
      with (sh_e d a :: set_last (shift_q d (b :: r')) (sh_e d v)).
    rewrite IH. reflexivity.
  Qed.

  Lemma track_shift d lt q seq now :
    track lt (shift_q d q) seq (now + d)
    = match track lt q seq now with Some q' => Some (shift_q d q') | None => None end.
  Proof.
    unfold track. destruct lt as [dd|]; [|reflexivity].
    destruct q as [|a r].
    - cbn [last shift_q map length Nat.eqb negb andb app sh_e fst snd].
      replace (now + d + dd) with (now + dd + d) by lia. reflexivity.
    - rewrite (last_shift d (a :: r) (-1, -1) (-1, -1)) by discriminate.
      destruct (last (a :: r) (-1, -1)) as [lseq lts] eqn:El. cbn [sh_e fst snd].
      unfold shift_q at 1. rewrite map_length.
      replace (lts + d =? now + d + dd) with (lts =? now + dd) by lia.
      destruct (negb (length (a :: r) =? 0)%nat && (lts =? now + dd)).
      + destruct (lseq <? seq); [|reflexivity].
        change (seq, now + d + dd) with (seq, now + d + dd).
        replace (seq, now + d + dd) with (sh_e d (seq, now + dd))
          by (unfold sh_e; cbn [fst snd]; f_equal; lia).
        rewrite set_last_shift. reflexivity.
      + unfold shift_q. rewrite map_app. cbn [map sh_e fst snd].
        replace (now + d + dd) with (now + dd + d) by lia. reflexivity.
  Qed.

  Lemma track_all_shift d lt l : forall q now,
    track_all lt (shift_q d q) l (now + d)
    = match track_all lt q l now with Some q' => Some (shift_q d q') | None => None end.
  Proof.
    induction l as [|s r IH]; intros q now; cbn [track_all]; [reflexivity|].
    rewrite track_shift. destruct (track lt q s now) as [q'|]; [apply IH | reflexivity].
  Qed.

  (** replace the next-timeout field (index 6 of an observation) *)
  Definition set_nt (v : Z) (out : list Z) : list Z :=
    match out with
    | a :: b :: c :: e :: f :: g :: _ :: r => a :: b :: c :: e :: f :: g :: v :: r
    | _ => out
    end.

  Lemma snapshot_shift d s b c :
    b :: c :: snapshot (shift_s d s)
    = set_nt (optz (shift_o d (next_timeout_o s))) (b :: c :: snapshot s).
  Proof.
    unfold snapshot. cbn [app set_nt]. rewrite next_timeout_enc, next_timeout_shift.
    unfold shift_s at 1 2 3 4 5 6; cbn [issued prev rseq ts active].
    unfold shift_q. rewrite map_length. reflexivity.
  Qed.

  (** the only output field that changes is the next timeout, which moves by [d] *)
  Theorem shift_equivariant d s o :
    step (shift_s d s) (shift_op d o)
    = match step s o with
      | Some (s', out) => Some (shift_s d s', set_nt (optz (shift_o d (next_timeout_o s'))) out)
      | None => None
      end.
  Proof.
    destruct o as [cl lt now iss|n now|seq limit| |]; cbn [step shift_op].
    - unfold new. change (@nil (Z * Z)) with (shift_q d []) at 1. rewrite track_all_shift.
      destruct (track_all lt [] (seqs 0 (Z.to_nat iss)) now) as [q|]; [|reflexivity].
      change (mk (shift_q d q) iss (seqs 0 (Z.to_nat iss)) 0 0 cl lt)
        with (shift_s d (mk q iss (seqs 0 (Z.to_nat iss)) 0 0 cl lt)).
      rewrite snapshot_shift. reflexivity.
    - unfold new_cids. change (issued (shift_s d s)) with (issued s).
      destruct (n <=? 0).
      + rewrite snapshot_shift. reflexivity.
      + change (lifetime (shift_s d s)) with (lifetime s).
        change (ts (shift_s d s)) with (shift_q d (ts s)). rewrite track_shift.
        destruct (track (lifetime s) (ts s) (issued s + n - 1) now) as [q|]; [|reflexivity].
        match goal with |- Some (?a, _) = _ =>
          match a with mk (shift_q d q) ?i ?ac ?p ?r ?c ?l =>
            change a with (shift_s d (mk q i ac p r c l)) end end.
        rewrite snapshot_shift. reflexivity.
    - unfold on_cid_retirement. change (cid_len (shift_s d s)) with (cid_len s).
      change (issued (shift_s d s)) with (issued s).
      destruct (cid_len s =? 0); [rewrite snapshot_shift; reflexivity|].
      destruct (issued s <? seq); [rewrite snapshot_shift; reflexivity|].
      match goal with |- Some (?a, _) = _ =>
        match a with mk (ts (shift_s d s)) ?i ?ac ?p ?r ?c ?l =>
          change a with (shift_s d (mk (ts s) i ac p r c l)) end end.
      rewrite snapshot_shift. reflexivity.
    - unfold on_cid_timeout.
      change (prev (shift_s d s)) with (prev s). change (rseq (shift_s d s)) with (rseq s).
      change (active (shift_s d s)) with (active s). change (ts (shift_s d s)) with (shift_q d (ts s)).
      assert (Hh : match shift_q d (ts s) with [] => None | (q, _) :: _ => Some (q + 1) end
                   = match ts s with [] => None | (q, _) :: _ => Some (q + 1) end)
        by (destruct (ts s) as [|[a e] r]; reflexivity).
      rewrite Hh.
      assert (Ht : tl (shift_q d (ts s)) = shift_q d (tl (ts s)))
        by (destruct (ts s) as [|[a e] r]; reflexivity).
      rewrite Ht.
      match goal with |- Some (?a, _) = _ =>
        match a with mk (shift_q d ?q) ?i ?ac ?p ?r ?c ?l =>
          change a with (shift_s d (mk q i ac p r c l)) end end.
      rewrite snapshot_shift. reflexivity.
    - rewrite snapshot_shift. reflexivity.
  Qed.
End CS.

(** * Mtud: the instant at which the next probing round may start ([Complete t]): set to
    [now + interval] / [now + cooldown], compared with [now] in [poll_transmit]. *)
Module MT.
  Import Mtud.
  Definition shift_phase (d : Z) (p : Phase) : Phase :=
    match p with Complete t => Complete (t + d) | p => p end.
  Definition shift_e (d : Z) (e : Enabled) : Enabled :=
    mkEnabled (shift_phase d (phase e)) (peer_max e) (config e).
  Definition shift_st (d : Z) (o : option Enabled) : option Enabled :=
    match o with Some e => Some (shift_e d e) | None => None end.
  Definition shift_s (d : Z) (m : Mtud) : Mtud := mkMtud (cur m) (shift_st d (st m)) (bhd m).
  Definition shift_op (d : Z) (o : Op) : Op :=
    match o with
    | OPoll now pn => OPoll (now + d) pn
    | OBlackHole now => OBlackHole (now + d)
    | o => o
    end.

  Lemma set_phase_shift d e p : set_phase (shift_e d e) (shift_phase d p) = shift_e d (set_phase e p).
  Proof. reflexivity. Qed.

  Lemma poll_searching_shift MPR d e s now pn :
    poll_searching MPR (shift_e d e) s (now + d) pn
    = match poll_searching MPR e s now pn with
      | Some (e', r) => Some (shift_e d e', r) | None => None end.
  Proof.
    unfold poll_searching. destruct (in_flight s); [reflexivity|].
    destruct ((0 <? lost_count s) && (lost_count s <? MPR)); [reflexivity|].
    match goal with |- context [next_mtu_to_probe ?a ?b] => destruct (next_mtu_to_probe a b) as [[s2 [p|]]|] end;
      try reflexivity.
    change (config (shift_e d e)) with (config e).
    unfold set_phase, shift_e; cbn [phase peer_max config shift_phase].
    replace (now + d + c_interval (config e)) with (now + c_interval (config e) + d) by lia.
    reflexivity.
  Qed.

  Lemma enabled_poll_shift MPR d e now current pn :
    enabled_poll MPR (shift_e d e) (now + d) current pn
    = match enabled_poll MPR e now current pn with
      | Some (e', r) => Some (shift_e d e', r) | None => None end.
  Proof.
    unfold enabled_poll. change (phase (shift_e d e)) with (shift_phase d (phase e)).
    change (peer_max (shift_e d e)) with (peer_max e). change (config (shift_e d e)) with (config e).
    destruct (phase e) as [|s|t]; cbn [shift_phase].
    - apply poll_searching_shift.
    - apply poll_searching_shift.
    - replace (now + d <? t + d) with (now <? t) by lia.
      destruct (now <? t); [|apply poll_searching_shift].
      destruct e as [ph pm cf]; reflexivity.
  Qed.

  Lemma probe_acked_shift d e pn :
    enabled_on_probe_acked (shift_e d e) pn
    = match enabled_on_probe_acked e pn with Some (e', r) => Some (shift_e d e', r) | None => None end.
  Proof.
    unfold enabled_on_probe_acked. change (phase (shift_e d e)) with (shift_phase d (phase e)).
    destruct (phase e) as [|s|t]; cbn [shift_phase]; try reflexivity.
    destruct (in_flight s) as [f|]; [|reflexivity]. destruct (f =? pn); reflexivity.
  Qed.

  Lemma probe_lost_shift d e : enabled_on_probe_lost (shift_e d e) = shift_e d (enabled_on_probe_lost e).
  Proof.
    unfold enabled_on_probe_lost. change (phase (shift_e d e)) with (shift_phase d (phase e)).
    destruct (phase e) as [|s|t]; cbn [shift_phase]; reflexivity.
  Qed.

  Lemma on_peer_max_shift d m v :
    on_peer_max (shift_s d m) v
    = match on_peer_max m v with Some m' => Some (shift_s d m') | None => None end.
  Proof.
    unfold on_peer_max, shift_s; cbn [cur st bhd]. destruct (st m) as [e|]; cbn [shift_st]; [|reflexivity].
    change (phase (shift_e d e)) with (shift_phase d (phase e)).
    destruct (phase e) as [|s|t]; cbn [shift_phase]; reflexivity.
  Qed.

  (** states produced by [new] / [reset] hold no instant *)
  Definition timeless (m : Mtud) : Prop :=
    match st m with Some e => match phase e with Complete _ => False | _ => True end | None => True end.
  Lemma timeless_shift d m : timeless m -> shift_s d m = m.
  Proof.
    unfold timeless, shift_s. destruct m as [c [e|] b]; cbn [st cur bhd shift_st]; [|reflexivity].
    destruct e as [ph pm cf]; cbn [phase]. destruct ph; [reflexivity | reflexivity | intros []].
  Qed.
  Lemma on_peer_max_timeless m v m' : timeless m -> on_peer_max m v = Some m' -> timeless m'.
  Proof.
    unfold on_peer_max, timeless. destruct (st m) as [e|].
    - destruct (phase e) eqn:Ep; intros Ht Hs; inversion Hs; subst; cbn [st phase]; try rewrite Ep; auto; try contradiction.
    - intros _ Hs; inversion Hs; subst; exact I.
  Qed.
  Lemma mtud_new_timeless i mn p en c m' : mtud_new i mn p en c = Some m' -> timeless m'.
  Proof.
    unfold mtud_new. destruct en.
    - destruct (i <? mn); [discriminate|]. destruct p as [p|].
      + apply on_peer_max_timeless. exact I.
      + intro Hs; inversion Hs; subst; exact I.
    - intro Hs; inversion Hs; subst; exact I.
  Qed.
  Lemma mtud_reset_shift d m c mn : mtud_reset (shift_s d m) c mn = mtud_reset m c mn.
  Proof.
    unfold mtud_reset, shift_s; cbn [st cur bhd]. destruct (st m) as [e|]; reflexivity.
  Qed.
  Lemma mtud_reset_timeless m c mn m' : mtud_reset m c mn = Some m' -> timeless m'.
  Proof.
    unfold mtud_reset. destruct (st m) as [e|].
    - destruct (on_peer_max _ (peer_max e)) as [m1|] eqn:Eo; [|discriminate].
      intro Hs; inversion Hs; subst. apply on_peer_max_timeless in Eo; [|exact I].
      unfold timeless in *; cbn [st]. exact Eo.
    - intro Hs; inversion Hs; subst; exact I.
  Qed.

  (** return codes and probe sizes carry no instant: unchanged *)
  Theorem shift_equivariant MPR BHT fx d m o :
    step MPR BHT fx (shift_s d m) (shift_op d o)
    = match step MPR BHT fx m o with Some (m', r) => Some (shift_s d m', r) | None => None end.
  Proof.
    destruct o as [i mn p en c|c mn|v|now pn|sp pn len| |pn len|now]; cbn [step shift_op].
    - destruct (mtud_new i mn p en c) as [m'|] eqn:En; [|reflexivity].
      rewrite (timeless_shift d m' (mtud_new_timeless _ _ _ _ _ _ En)). reflexivity.
    - rewrite mtud_reset_shift. destruct (mtud_reset m c mn) as [m'|] eqn:En; [|reflexivity].
      rewrite (timeless_shift d m' (mtud_reset_timeless _ _ _ _ En)). reflexivity.
    - rewrite on_peer_max_shift. destruct (on_peer_max m v); reflexivity.
    - change (st (shift_s d m)) with (shift_st d (st m)). change (cur (shift_s d m)) with (cur m).
      destruct (st m) as [e|]; cbn [shift_st]; [|reflexivity].
      rewrite enabled_poll_shift. destruct (enabled_poll MPR e now (cur m) pn) as [[e' r]|]; reflexivity.
    - destruct (negb (is_data sp)); [reflexivity|].
      change (st (shift_s d m)) with (shift_st d (st m)).
      destruct (st m) as [e|]; cbn [shift_st]; [|reflexivity].
      rewrite probe_acked_shift. destruct (enabled_on_probe_acked e pn) as [[e' r]|]; reflexivity.
    - change (st (shift_s d m)) with (shift_st d (st m)).
      destruct (st m) as [e|]; cbn [shift_st]; [|reflexivity].
      rewrite probe_lost_shift. reflexivity.
    - change (bhd (shift_s d m)) with (bhd m).
      destruct (bhd_on_non_probe_lost BHT (bhd m) pn len); reflexivity.
    - change (bhd (shift_s d m)) with (bhd m).
      destruct (bhd_black_hole_detected BHT (bhd m)) as [b det].
      destruct det; [|reflexivity].
      change (st (shift_s d m)) with (shift_st d (st m)). change (cur (shift_s d m)) with (cur m).
      destruct (st m) as [e|]; cbn [shift_st]; [|reflexivity].
      change (config (shift_e d e)) with (config e).
      unfold shift_s, set_phase, shift_e; cbn [cur st bhd shift_st phase peer_max config shift_phase].
      replace (now + d + c_cooldown (config e)) with (now + c_cooldown (config e) + d) by lia.
      reflexivity.
  Qed.

  Theorem shift_equivariant_runs MPR BHT fx d l m :
    run_seq _ _ _ (step MPR BHT fx) (shift_s d m) (map (shift_op d) l)
    = match run_seq _ _ _ (step MPR BHT fx) m l with
      | Some (m', os) => Some (shift_s d m', map (fun x => x) os) | None => None end.
  Proof. apply run_seq_equivariant. intros; apply shift_equivariant. Qed.
End MT.
