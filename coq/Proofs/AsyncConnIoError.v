(** C18 — the driver's exit on a socket error (fixed finding, /repo commit ade9d8a). *)
From QV Require Import Lib.Tac Model.AsyncConn Proofs.AsyncConnInv Proofs.AsyncConnLemmas
  Proofs.AsyncConnProofs Proofs.AsyncConnHandles Proofs.AsyncConnFacts Proofs.AsyncConnMain.
From Coq Require Import Arith.

Theorem io_error_preserves_invariant : forall s, Inv s -> Inv (drv_io_error s).
Proof.
  intros s HI. unfold drv_io_error. destruct (driver_alive s) eqn:Ea; cbn [negb]; [|exact HI].
  constructor.
  - apply Inv0_drop_ref_driver.
    + apply Inv0_terminate. apply HI.
    + destruct (drv_same_terminate s IO_ERROR) as [A _]. congruence.
  - apply drv_ok_drop_ref. apply drv_ok_dead. cbn_st. reflexivity.
Qed.

(** every pending operation is runnable afterwards, for all schedules *)
Theorem io_error_wakes_everyone : forall ls, ok ls -> driver_alive (run ls) = true -> forall t o,
  pend (drv_io_error (run ls)) t = Some o -> runnable (drv_io_error (run ls)) t = true.
Proof.
  intros ls Hok Ea t o Hp.
  pose proof (io_error_preserves_invariant _ (Inv_run ls Hok)) as HI.
  eapply closed_all_runnable; [apply HI| |exact Hp].
  unfold drv_io_error. rewrite Ea. cbn [negb]. apply closed_drop_ref.
  unfold closed. rewrite terminate_nf. cbn_st. reflexivity.
Qed.

(** before the fix: the driver is gone, the connection is not closed, a blocked reader whose data
    arrived in that very poll is never woken (two handles alive, so no implicit close either) *)
Open Scope Z_scope.
Theorem io_error_unfixed_refuted : exists ls t o,
  let s := drv_io_error_unfixed (run ls) in
  pend s t = Some o /\ runnable s t = false /\ closed s = false /\ driver_alive s = false /\
  0 < nhandles s.
Proof.
  exists [DrvPoll [PConnected; POpened false 3 [] false]; AppPoll 0 (OAccept false) 0; AppPoll 1 (ORead 3) 10],
         1%nat, (ORead 3).
  vm_compute. repeat split; reflexivity.
Qed.
