(** [Close::encode(max_len)]: does the encoded frame fit in [max_len]?  Yes when the error code
    takes at most 2 bytes (every transport error code; application codes below 2^14) — the
    encoder reserves 3 bytes for type and code; refuted for larger application error codes. *)
From QV Require Import Lib.Tac Lib.Bytes Lib.Corr Model.Varint Model.Frames
  Proofs.BytesProofs Proofs.VarintProofs Proofs.FramesProofs.
Open Scope Z_scope.

Definition close_code (f : frame) : Z :=
  match f with CloseConn c _ _ | CloseApp c _ => c | _ => 0 end.

Lemma size_mono a b sa sb :
  0 <= a <= b -> Varint.size a = Some sa -> Varint.size b = Some sb -> sa <= sb.
Proof.
  unfold Varint.size. intros Hab.
  destruct (a <? 0) eqn:A0; [discriminate|]. destruct (b <? 0) eqn:B0; [discriminate|].
  destruct (a <? 2 ^ 6) eqn:A1; destruct (b <? 2 ^ 6) eqn:B1;
    destruct (a <? 2 ^ 14) eqn:A2; destruct (b <? 2 ^ 14) eqn:B2;
    destruct (a <? 2 ^ 30) eqn:A3; destruct (b <? 2 ^ 30) eqn:B3;
    destruct (a <? 2 ^ 62) eqn:A4; destruct (b <? 2 ^ 62) eqn:B4;
    intros [= <-] [= <-]; lia.
Qed.

Lemma size_small c s : 0 <= c < 2 ^ 14 -> Varint.size c = Some s -> s <= 2.
Proof.
  unfold Varint.size. intros Hc. destruct (c <? 0) eqn:E0; [lia|].
  destruct (c <? 2 ^ 6); [intros [= <-]; lia|].
  destruct (c <? 2 ^ 14) eqn:E; [intros [= <-]; lia|lia].
Qed.

Lemma close_encode_fits withlen max_len f :
  wf_frame f = true -> is_close f = true -> close_fits max_len (DFrame f) = true ->
  close_code f < 2 ^ 14 ->
  exists b, encode_frame withlen max_len f = Some b /\ zlen b <= max_len.
Proof.
  intros Hwf Hc Hfit Hcode.
  destruct f; cbn [is_close] in Hc; try discriminate;
    cbn [wf_frame close_fits close_code] in Hwf, Hfit, Hcode; wf_hyps; cbn [encode_frame].
  - destruct (Varint.size fty) as [sf|] eqn:Esf; [|discriminate].
    destruct (Varint.size (zlen reason)) as [sl|] eqn:Esl; [|discriminate].
    pose proof (size_bounds _ _ Esf). pose proof (size_bounds _ _ Esl).
    rewrite (close_reason_len_some max_len sf (zlen reason) sl); [|first [assumption|lia]..].
    set (n := Z.min (zlen reason) (max_len - 3 - sf - sl)).
    assert (Hn : 0 <= n <= zlen reason) by lia.
    rewrite !wv_venc by lia. cbn [ocat]. eexists; split; [reflexivity|].
    pose proof (venc_size code ltac:(lia)) as Hsc. pose proof (size_small code _ ltac:(lia) Hsc).
    pose proof (venc_size fty ltac:(lia)) as Hsf. rewrite Esf in Hsf. inversion Hsf as [Hsf'].
    pose proof (venc_size n ltac:(lia)) as Hsn.
    pose proof (size_mono n (zlen reason) _ _ ltac:(lia) Hsn Esl).
    rewrite (venc_small 28) by lia.
    unfold zlen in *. rewrite !app_length, firstn_length. cbn [length]. lia.
  - destruct (Varint.size (zlen reason)) as [sl|] eqn:Esl; [|discriminate].
    pose proof (size_bounds _ _ Esl).
    rewrite (close_reason_len_some max_len 0 (zlen reason) sl); [|first [assumption|lia]..].
    set (n := Z.min (zlen reason) (max_len - 3 - 0 - sl)).
    assert (Hn : 0 <= n <= zlen reason) by lia.
    rewrite !wv_venc by lia. cbn [ocat]. eexists; split; [reflexivity|].
    pose proof (venc_size code ltac:(lia)) as Hsc. pose proof (size_small code _ ltac:(lia) Hsc).
    pose proof (venc_size n ltac:(lia)) as Hsn.
    pose proof (size_mono n (zlen reason) _ _ ltac:(lia) Hsn Esl).
    rewrite (venc_small 29) by lia.
    unfold zlen in *. rewrite !app_length, firstn_length. cbn [length]. lia.
Qed.

(** The bound fails for application error codes of 4 or 8 bytes: 12 bytes written for
    [max_len = 10]. *)
Lemma close_encode_fits_refuted :
  exists f max_len b,
    wf_frame f = true /\ is_close f = true /\ close_fits max_len (DFrame f) = true /\
    encode_frame true max_len f = Some b /\ max_len < zlen b.
Proof.
  exists (CloseApp 16384 (repeat 65 20)), 10.
  eexists. vm_compute. repeat split; reflexivity.
Qed.
