(** Proofs about Model/CidQueue.v (C03: the remote connection-ID window driven by peer-chosen
    NEW_CONNECTION_ID frames never panics and keeps its invariant).

    The ring-buffer arithmetic is proved for the concrete window size [L = 5]
    ([CidQueue::LEN]); Props/C03.v instantiates [L] with the generated constant, so a changed
    constant breaks the build there. *)
From QV Require Import Lib.Tac Lib.Corr Model.CidQueue.
Import CidQueue.
Open Scope Z_scope.

(** * Buffer primitives *)
Lemma upd_length : forall b i v, length (upd b i v) = length b.
Proof.
  induction b as [|x b IH]; intros i v; cbn [upd length]; [reflexivity|].
  destruct i; cbn [length]; [reflexivity|]. rewrite IH. reflexivity.
Qed.

Lemma nth_upd : forall b i j v, (i < length b)%nat ->
  nth j (upd b i v) None = if Nat.eqb i j then v else nth j b None.
Proof.
  induction b as [|x b IH]; intros i j v Hi; cbn [length] in Hi; [lia|].
  destruct i as [|i]; destruct j as [|j]; cbn [upd nth Nat.eqb]; try reflexivity.
  apply IH. lia.
Qed.

Lemma set_length b i v : length (set b i v) = length b.
Proof. apply upd_length. Qed.

Lemma get_set b i j v : 0 <= i < Z.of_nat (length b) -> 0 <= j ->
  get (set b i v) j = if i =? j then v else get b j.
Proof.
  intros Hi Hj. unfold get, set. rewrite nth_upd by lia.
  destruct (Nat.eqb (Z.to_nat i) (Z.to_nat j)) eqn:E1; destruct (i =? j) eqn:E2;
    try reflexivity.
  - apply Nat.eqb_eq in E1. lia.
  - apply Nat.eqb_neq in E1. apply Z.eqb_eq in E2. subst. congruence.
Qed.

Lemma clear_length : forall n b cur, length (clear 5 b cur n) = length b.
Proof.
  induction n as [|n IH]; intros b cur; cbn [clear]; [reflexivity|].
  rewrite set_length. apply IH.
Qed.

(** slot [j] is cleared iff its distance from [cur] is below [n] *)
Lemma get_clear : forall n b cur j,
  length b = 5%nat -> 0 <= cur < 5 -> (n <= 5)%nat -> 0 <= j < 5 ->
  get (clear 5 b cur n) j = if (j - cur) mod 5 <? Z.of_nat n then None else get b j.
Proof.
  induction n as [|n IH]; intros b cur j Hb Hc Hn Hj; cbn [clear].
  - destruct ((j - cur) mod 5 <? Z.of_nat 0) eqn:E; [lia|reflexivity].
  - rewrite get_set; [|rewrite clear_length; lia|lia].
    rewrite IH by (try assumption; lia).
    destruct ((cur + Z.of_nat n) mod 5 =? j) eqn:E1;
      destruct ((j - cur) mod 5 <? Z.of_nat n) eqn:E2;
      destruct ((j - cur) mod 5 <? Z.of_nat (S n)) eqn:E3; try reflexivity; lia.
Qed.

(** * The slot at distance [k] from the cursor *)
Definition at_ (b : list (option data)) (cur k : Z) : option data := get b ((cur + k) mod 5).

Lemma scan_nil : forall n b cur k0,
  scan 5 b cur k0 n = [] -> forall k, k0 <= k < k0 + Z.of_nat n -> at_ b cur k = None.
Proof.
  induction n as [|n IH]; intros b cur k0 H k Hk; [lia|]. cbn [scan] in H. fold (at_ b cur k0) in H.
  destruct (at_ b cur k0) as [d|] eqn:E; [discriminate|].
  destruct (Z.eq_dec k k0) as [->|Hne]; [exact E|]. apply (IH _ _ _ H). lia.
Qed.

Lemma scan_cons : forall n b cur k0 i d rest,
  scan 5 b cur k0 n = (i, d) :: rest ->
  k0 <= i < k0 + Z.of_nat n /\ at_ b cur i = Some d /\
  (forall k, k0 <= k < i -> at_ b cur k = None) /\
  rest = scan 5 b cur (i + 1) (Z.to_nat (k0 + Z.of_nat n - i - 1)).
Proof.
  induction n as [|n IH]; intros b cur k0 i d rest H; [discriminate|]. cbn [scan] in H.
  fold (at_ b cur k0) in H. destruct (at_ b cur k0) as [d0|] eqn:E.
  - inversion H; subst. split; [lia|]. split; [exact E|]. split; [intros; lia|].
    f_equal. lia.
  - destruct (IH _ _ _ _ _ _ H) as (H1 & H2 & H3 & H4). split; [lia|]. split; [exact H2|].
    split.
    + intros k Hk. destruct (Z.eq_dec k k0) as [->|Hne]; [exact E|]. apply H3. lia.
    + rewrite H4. f_equal. lia.
Qed.

(** * The invariant, with the ghost list of accepted NEW_CONNECTION_ID frames (seq, rpt, id) *)
Definition accs := list (Z * Z * Z).

Record Inv (s : t) (acc : accs) : Prop := {
  i_len : length (buf s) = 5%nat;
  i_cur : 0 <= cursor s < 5;
  i_off : 0 <= offset s;
  (* [buffer[cursor]] is occupied *)
  i_act : exists d, at_ (buf s) (cursor s) 0 = Some d;
  (* only the handshake CID (sequence number 0, at the cursor) has no reset token *)
  i_init : forall k id, 0 <= k < 5 -> at_ (buf s) (cursor s) k = Some (id, None) ->
             k = 0 /\ offset s = 0;
  (* the slot at distance [k] holds the accepted frame with sequence number [offset + k] *)
  i_seq : forall k id tk, 0 <= k < 5 -> at_ (buf s) (cursor s) k = Some (id, Some tk) ->
            tk = id /\ exists rpt, In (offset s + k, rpt, id) acc;
  (* every processed retire_prior_to has been honoured *)
  i_rpt : forall seq rpt id, In (seq, rpt, id) acc -> rpt <= offset s
}.

Lemma new_inv id : Inv (new 5 id) [].
Proof.
  constructor; cbn [new buf cursor offset].
  - reflexivity.
  - lia.
  - lia.
  - eexists. reflexivity.
  - intros k id' Hk H. unfold at_, get in H.
    assert (Hc : k = 0 \/ k = 1 \/ k = 2 \/ k = 3 \/ k = 4) by lia.
    destruct Hc as [->|[->|[->|[->| ->]]]]; vm_compute in H; try discriminate.
    split; reflexivity.
  - intros k id' tk Hk H. unfold at_, get in H.
    assert (Hc : k = 0 \/ k = 1 \/ k = 2 \/ k = 3 \/ k = 4) by lia.
    destruct Hc as [->|[->|[->|[->| ->]]]]; vm_compute in H; discriminate.
  - intros seq rpt id' [].
Qed.

(** characterisation of the buffer after the clearing loop and the store of the new CID *)
Lemma b2_get b c idx rc id x :
  length b = 5%nat -> 0 <= c < 5 -> 0 <= rc -> 0 <= idx -> 0 <= x < 5 ->
  get (set (clear 5 b c (Z.to_nat (Z.min rc 5))) ((c + idx) mod 5) (Some (id, Some id))) x =
  if (c + idx) mod 5 =? x then Some (id, Some id)
  else if (x - c) mod 5 <? Z.min rc 5 then None else get b x.
Proof.
  intros Hb Hc Hrc Hidx Hx.
  rewrite get_set; [|rewrite clear_length; lia|lia].
  destruct ((c + idx) mod 5 =? x); [reflexivity|].
  rewrite get_clear by (try assumption; lia).
  rewrite Z2Nat.id by lia. reflexivity.
Qed.

Definition insert_post (s : t) (acc : accs) (seq rpt id : Z) (s' : t) (r : insert_result) : Prop :=
  match r with
  | InsOk => Inv s' ((seq, rpt, id) :: acc) /\ offset s' = offset s /\ rpt <= offset s
  | InsRetired lo hi tk =>
      Inv s' ((seq, rpt, id) :: acc) /\ lo = offset s /\ lo < hi <= lo + 5 /\
      hi <= offset s' /\ rpt <= offset s' <= seq
  | ErrRetired => s' = s /\ seq < offset s
  | ErrExceedsLimit => s' = s /\ offset s + 5 <= seq
  end.

Lemma at_old b c x : 0 <= c < 5 -> 0 <= x < 5 -> get b x = at_ b c ((x - c) mod 5).
Proof. intros Hc Hx. unfold at_. f_equal. lia. Qed.

Lemma insert_inv s acc seq rpt id :
  Inv s acc -> 0 <= rpt <= seq ->
  exists s' r, insert 5 s seq rpt id = Some (s', r) /\ insert_post s acc seq rpt id s' r.
Proof.
  intros HI Hr. pose proof HI as [Hlen Hcur Hoff [d0 Hact] Hinit Hseq Hrpt].
  unfold insert.
  destruct (seq <? offset s) eqn:E1.
  { eexists _, _. split; [reflexivity|]. cbn. split; [reflexivity|lia]. }
  set (idx := seq - offset s). set (rc := Z.max 0 (rpt - offset s)).
  destruct (5 + rc <=? idx) eqn:E2.
  { eexists _, _. split; [reflexivity|]. cbn. split; [reflexivity|lia]. }
  set (c := cursor s) in *. set (b := buf s) in *.
  set (b2 := set (clear 5 b c (Z.to_nat (Z.min rc 5))) ((c + idx) mod 5) (Some (id, Some id))).
  assert (Hb2 : forall x, 0 <= x < 5 ->
            get b2 x = if (c + idx) mod 5 =? x then Some (id, Some id)
                       else if (x - c) mod 5 <? Z.min rc 5 then None else get b x).
  { intros x Hx. apply b2_get; try assumption; lia. }
  assert (Hb2len : length b2 = 5%nat).
  { unfold b2. rewrite set_length, clear_length. exact Hlen. }
  destruct (rc =? 0) eqn:E3.
  - (* nothing retired *)
    eexists _, _. split; [reflexivity|]. cbn [insert_post offset].
    split; [|split; [reflexivity|lia]].
    constructor; cbn [buf cursor offset]; fold c; try assumption.
    + unfold at_. rewrite Hb2 by lia.
      destruct ((c + idx) mod 5 =? (c + 0) mod 5); [eexists; reflexivity|].
      destruct (((c + 0) mod 5 - c) mod 5 <? Z.min rc 5) eqn:E4; [lia|].
      exists d0. exact Hact.
    + intros k id' Hk H. unfold at_ in H. rewrite Hb2 in H by lia.
      destruct ((c + idx) mod 5 =? (c + k) mod 5); [discriminate|].
      destruct (((c + k) mod 5 - c) mod 5 <? Z.min rc 5); [discriminate|].
      apply (Hinit k id' Hk H).
    + intros k id' tk Hk H. unfold at_ in H. rewrite Hb2 in H by lia.
      destruct ((c + idx) mod 5 =? (c + k) mod 5) eqn:E4.
      * inversion H; subst id' tk. split; [reflexivity|]. exists rpt. left.
        f_equal. f_equal. lia.
      * destruct (((c + k) mod 5 - c) mod 5 <? Z.min rc 5); [discriminate|].
        destruct (Hseq k id' tk Hk H) as [Ht [rp Hin]]. split; [exact Ht|].
        exists rp. right. exact Hin.
    + intros sq rp i' [Heq|Hin]; [inversion Heq; subst; lia|eapply Hrpt; exact Hin].
  - (* the active CID is retired *)
    set (cur1 := (c + rc) mod 5).
    assert (Hnew : at_ b2 cur1 (idx - rc) = Some (id, Some id)).
    { unfold at_. rewrite Hb2 by lia.
      destruct ((c + idx) mod 5 =? (cur1 + (idx - rc)) mod 5) eqn:E4; [reflexivity|lia]. }
    unfold iter. change (Z.to_nat 5) with 5%nat.
    destruct (scan 5 b2 cur1 0 5) as [|[i [cid tok]] rest] eqn:Es.
    { pose proof (scan_nil _ _ _ _ Es (idx - rc)) as Hn. rewrite Hnew in Hn.
      assert (Hd : Some (id, Some id) = None) by (apply Hn; lia). discriminate. }
    destruct (scan_cons _ _ _ _ _ _ _ Es) as (Hi & Hati & Hbefore & _).
    assert (Hile : i <= idx - rc).
    { destruct (Z_le_gt_dec i (idx - rc)) as [Hle|Hgt]; [exact Hle|].
      rewrite Hbefore in Hnew by lia. discriminate. }
    (* the found entry, seen from the old frame *)
    assert (Hfound : (i = idx - rc /\ cid = id /\ tok = Some id) \/
                     (rc < 5 /\ rc + i < 5 /\ at_ b c (rc + i) = Some (cid, tok))).
    { unfold at_ in Hati. rewrite Hb2 in Hati by lia.
      destruct ((c + idx) mod 5 =? (cur1 + i) mod 5) eqn:E4.
      - left. inversion Hati; subst. repeat split; lia.
      - destruct (((cur1 + i) mod 5 - c) mod 5 <? Z.min rc 5) eqn:E5; [discriminate|].
        right. assert (rc < 5) by lia. assert (rc + i < 5) by lia.
        repeat split; try assumption. unfold at_. etransitivity; [|exact Hati]. f_equal. lia. }
    assert (Htok : exists tk, tok = Some tk).
    { destruct Hfound as [(_ & _ & ->)|(H1 & H2 & H3)]; [eexists; reflexivity|].
      destruct tok as [tk|]; [eexists; reflexivity|].
      destruct (Hinit (rc + i) cid) as [Hk0 _]; [lia|exact H3|lia]. }
    destruct Htok as [tk ->].
    eexists _, _. split; [reflexivity|]. cbn [insert_post offset].
    split; [|repeat split; lia].
    constructor; cbn [buf cursor offset]; try assumption; try lia.
    + eexists. unfold at_ in *. etransitivity; [|exact Hati]. f_equal. lia.
    + intros k id' Hk H. exfalso. unfold at_ in H. rewrite Hb2 in H by lia.
      destruct ((c + idx) mod 5 =? ((cur1 + i) mod 5 + k) mod 5); [discriminate|].
      destruct (((((cur1 + i) mod 5 + k) mod 5) - c) mod 5 <? Z.min rc 5) eqn:E5; [discriminate|].
      rewrite (at_old b c) in H by lia.
      apply Hinit in H; [|lia]. lia.
    + intros k id' tk' Hk H. unfold at_ in H. rewrite Hb2 in H by lia.
      destruct ((c + idx) mod 5 =? ((cur1 + i) mod 5 + k) mod 5) eqn:E4.
      * inversion H; subst id' tk'. split; [reflexivity|]. exists rpt. left.
        f_equal. f_equal. lia.
      * destruct (((((cur1 + i) mod 5 + k) mod 5) - c) mod 5 <? Z.min rc 5) eqn:E5;
          [discriminate|].
        assert (Hrc5 : rc < 5) by lia.
        destruct (i + k <? 5) eqn:E6.
        -- rewrite (at_old b c) in H by lia.
           apply Hseq in H; [|lia]. destruct H as [Ht [rp Hin]]. split; [exact Ht|].
           exists rp. right.
           replace (rpt + i + k) with (offset s + ((((cur1 + i) mod 5 + k) mod 5 - c) mod 5))
             by lia. exact Hin.
        -- (* wrapping past the slots scanned as empty *)
           exfalso. specialize (Hbefore (i + k - 5) ltac:(lia)). unfold at_ in Hbefore.
           rewrite Hb2 in Hbefore by lia.
           replace ((cur1 + (i + k - 5)) mod 5) with (((cur1 + i) mod 5 + k) mod 5) in Hbefore
             by lia.
           rewrite E4, E5 in Hbefore. congruence.
    + intros sq rp i' [Heq|Hin]; [inversion Heq; subst; lia|].
      specialize (Hrpt _ _ _ Hin). lia.
Qed.

Lemma next_inv s acc :
  Inv s acc ->
  exists s' r, next 5 s = Some (s', r) /\ Inv s' acc /\
    match r with
    | None => s' = s
    | Some (tk, lo, hi) => lo = offset s /\ hi = offset s' /\ lo < hi < lo + 5
    end.
Proof.
  intros HI. pose proof HI as [Hlen Hcur Hoff [d0 Hact] Hinit Hseq Hrpt].
  unfold next, iter. change (Z.to_nat 5) with 5%nat.
  set (c := cursor s) in *. set (b := buf s) in *.
  destruct (scan 5 b c 0 5) as [|[i0 [c0 t0]] rest] eqn:Es.
  { eexists _, _. split; [reflexivity|]. split; [exact HI|reflexivity]. }
  destruct (scan_cons _ _ _ _ _ _ _ Es) as (Hi0 & Hat0 & Hbefore0 & Hrest).
  assert (i0 = 0).
  { destruct (Z.eq_dec i0 0) as [->|Hne]; [reflexivity|].
    rewrite Hbefore0 in Hact by lia. discriminate. }
  subst i0.
  destruct rest as [|[i [cid tok]] rest2].
  { eexists _, _. split; [reflexivity|]. split; [exact HI|reflexivity]. }
  symmetry in Hrest. destruct (scan_cons _ _ _ _ _ _ _ Hrest) as (Hi & Hati & Hbefore & _).
  destruct tok as [tk|].
  2:{ apply Hinit in Hati; [|lia]. lia. }
  eexists _, _. split; [reflexivity|]. cbn [offset]. split; [|repeat split; lia].
  assert (Hg : forall x, 0 <= x < 5 -> get (set b c None) x = if c =? x then None else get b x).
  { intros x Hx. apply get_set; lia. }
  constructor; cbn [buf cursor offset]; try lia.
  - rewrite set_length. exact Hlen.
  - eexists. unfold at_ in *. rewrite Hg by lia.
    destruct (c =? ((c + i) mod 5 + 0) mod 5) eqn:E; [lia|].
    etransitivity; [|exact Hati]. f_equal. lia.
  - intros k id' Hk H. exfalso. unfold at_ in H. rewrite Hg in H by lia.
    destruct (c =? ((c + i) mod 5 + k) mod 5) eqn:E; [discriminate|].
    rewrite (at_old b c) in H by lia. apply Hinit in H; [|lia]. lia.
  - intros k id' tk' Hk H. unfold at_ in H. rewrite Hg in H by lia.
    destruct (c =? ((c + i) mod 5 + k) mod 5) eqn:E; [discriminate|].
    destruct (i + k <? 5) eqn:E6.
    + rewrite (at_old b c) in H by lia. apply Hseq in H; [|lia].
      destruct H as [Ht [rp Hin]]. split; [exact Ht|]. exists rp.
      replace (offset s + i + k) with (offset s + (((c + i) mod 5 + k) mod 5 - c) mod 5) by lia.
      exact Hin.
    + exfalso. specialize (Hbefore (i + k - 5) ltac:(lia)). unfold at_ in Hbefore.
      replace ((c + (i + k - 5)) mod 5) with (((c + i) mod 5 + k) mod 5) in Hbefore by lia.
      congruence.
  - intros sq rp i' Hin. specialize (Hrpt _ _ _ Hin). lia.
Qed.

Lemma update_inv s acc id :
  Inv s acc -> offset s = 0 ->
  exists s', update_initial_cid s id = Some s' /\ Inv s' acc /\ offset s' = 0.
Proof.
  intros HI H0. pose proof HI as [Hlen Hcur Hoff [d0 Hact] Hinit Hseq Hrpt].
  unfold update_initial_cid. rewrite H0. cbn [Z.eqb].
  eexists. split; [reflexivity|]. split; [|reflexivity].
  set (c := cursor s) in *. set (b := buf s) in *.
  assert (Hg : forall x, 0 <= x < 5 ->
            get (set b c (Some (id, None))) x = if c =? x then Some (id, None) else get b x).
  { intros x Hx. apply get_set; lia. }
  constructor; cbn [buf cursor offset]; try lia.
  - rewrite set_length. exact Hlen.
  - eexists. unfold at_. rewrite Hg by lia.
    destruct (c =? (c + 0) mod 5) eqn:E; [reflexivity|lia].
  - intros k id' Hk H. unfold at_ in H. rewrite Hg in H by lia.
    destruct (c =? (c + k) mod 5) eqn:E; [split; lia|].
    destruct (Hinit k id' Hk H) as [Hk0 _]. split; [exact Hk0|reflexivity].
  - intros k id' tk Hk H. unfold at_ in H. rewrite Hg in H by lia.
    destruct (c =? (c + k) mod 5) eqn:E; [discriminate|].
    destruct (Hseq k id' tk Hk H) as [Ht [rp Hin]]. split; [exact Ht|]. exists rp.
    rewrite H0 in Hin. exact Hin.
  - intros sq rp i' Hin. specialize (Hrpt _ _ _ Hin). lia.
Qed.

Lemma active_some s acc : Inv s acc -> exists a, active s = Some a.
Proof.
  intros [_ Hcur _ [[a tk] Hact] _ _ _]. unfold active. unfold at_ in Hact.
  replace ((cursor s + 0) mod 5) with (cursor s) in Hact by lia. rewrite Hact.
  eexists. reflexivity.
Qed.

(** * Runs *)
(** the ghost list: frames whose insertion the queue accepted *)
Definition accepted (s : t) (o : op) (acc : accs) : accs :=
  match o with
  | Insert seq rpt id =>
      match insert 5 s seq rpt id with
      | Some (_, InsOk) | Some (_, InsRetired _ _ _) => (seq, rpt, id) :: acc
      | _ => acc
      end
  | _ => acc
  end.

Fixpoint gexec (s : t) (acc : accs) (os : list op) : option (t * accs) :=
  match os with
  | [] => Some (s, acc)
  | o :: r =>
      match observe 5 s o with
      | None => None
      | Some (s', _) => gexec s' (accepted s o acc) r
      end
  end.

(** the caller's contract: [retire_prior_to <= sequence] (checked in [Connection::process_payload]
    before [insert]); [update_initial_cid] only during the handshake, i.e. before any insert/next *)
Definition main_op (o : op) : Prop :=
  match o with Insert seq rpt id => 0 <= rpt <= seq | Next => True | _ => False end.
Definition upd_op (o : op) : Prop := match o with Update _ => True | _ => False end.

(** returned retired ranges are non-empty and hold at most [LEN] sequence numbers *)
Definition out_ok (o : op) (out : list Z) : Prop :=
  match o, out with
  | Insert _ _ _, [aseq; _; 1; lo; hi; _] => lo < hi <= lo + 5 /\ hi <= aseq
  | Next, [aseq; _; 1; _; lo; hi] => lo < hi < lo + 5 /\ hi = aseq
  | _, _ => True
  end.

Lemma observe_main s acc o :
  Inv s acc -> main_op o ->
  exists s' out, observe 5 s o = Some (s', out) /\ Inv s' (accepted s o acc) /\ out_ok o out.
Proof.
  intros HI Hm. destruct o as [id|seq rpt id| |id]; cbn [main_op] in Hm; try contradiction.
  - destruct (insert_inv s acc seq rpt id HI Hm) as (s' & r & Hins & Hpost).
    unfold observe. cbn [step accepted]. rewrite Hins.
    destruct r as [|lo hi tk| |]; cbn [insert_post] in Hpost.
    + destruct Hpost as (HI' & _). destruct (active_some _ _ HI') as [a Ha]. rewrite Ha.
      eexists _, _. split; [reflexivity|]. split; [exact HI'|exact I].
    + destruct Hpost as (HI' & H1 & H2 & H3 & H4). destruct (active_some _ _ HI') as [a Ha].
      rewrite Ha. eexists _, _. split; [reflexivity|]. split; [exact HI'|].
      cbn [out_ok]. unfold active_seq. lia.
    + destruct Hpost as [-> _]. destruct (active_some _ _ HI) as [a Ha]. rewrite Ha.
      eexists _, _. split; [reflexivity|]. split; [exact HI|exact I].
    + destruct Hpost as [-> _]. destruct (active_some _ _ HI) as [a Ha]. rewrite Ha.
      eexists _, _. split; [reflexivity|]. split; [exact HI|exact I].
  - destruct (next_inv s acc HI) as (s' & r & Hn & HI' & Hpost).
    unfold observe. cbn [step accepted]. rewrite Hn.
    destruct (active_some _ _ HI') as [a Ha].
    destruct r as [[[tk lo] hi]|]; rewrite Ha; eexists _, _; (split; [reflexivity|]);
      (split; [exact HI'|]); [|exact I].
    cbn [out_ok]. unfold active_seq. lia.
Qed.

Lemma observe_upd s acc o :
  Inv s acc -> offset s = 0 -> upd_op o ->
  exists s' out, observe 5 s o = Some (s', out) /\ Inv s' (accepted s o acc) /\ offset s' = 0
                 /\ out_ok o out.
Proof.
  intros HI H0 Hu. destruct o as [id|seq rpt id| |id]; cbn [upd_op] in Hu; try contradiction.
  destruct (update_inv s acc id HI H0) as (s' & Hs & HI' & H0').
  unfold observe. cbn [step accepted]. rewrite Hs.
  destruct (active_some _ _ HI') as [a Ha]. rewrite Ha.
  eexists _, _. split; [reflexivity|]. split; [exact HI'|]. split; [exact H0'|exact I].
Qed.

Lemma run_main : forall os s acc,
  Inv s acc -> Forall main_op os ->
  exists s' outs acc', run_ops 5 s os = Some (s', outs) /\ gexec s acc os = Some (s', acc') /\
                       Inv s' acc' /\ Forall2 out_ok os outs.
Proof.
  induction os as [|o os IH]; intros s acc HI Hm.
  - exists s, [], acc. split; [reflexivity|]. split; [reflexivity|]. split; [exact HI|constructor].
  - inversion Hm as [|? ? Ho Hos]; subst.
    destruct (observe_main s acc o HI Ho) as (s1 & out & Hobs & HI1 & Hok).
    destruct (IH s1 _ HI1 Hos) as (s' & outs & acc' & Hr & Hg & HI' & Hf).
    exists s', (out :: outs), acc'. cbn [run_ops gexec]. rewrite Hobs, Hr.
    split; [reflexivity|]. split; [exact Hg|]. split; [exact HI'|]. constructor; assumption.
Qed.

Lemma run_upd_then_main : forall pre post s acc,
  Inv s acc -> offset s = 0 -> Forall upd_op pre -> Forall main_op post ->
  exists s' outs acc', run_ops 5 s (pre ++ post) = Some (s', outs) /\
                       gexec s acc (pre ++ post) = Some (s', acc') /\
                       Inv s' acc' /\ Forall2 out_ok (pre ++ post) outs.
Proof.
  induction pre as [|o pre IH]; intros post s acc HI H0 Hu Hm.
  - cbn [app]. apply run_main; assumption.
  - inversion Hu as [|? ? Ho Hos]; subst.
    destruct (observe_upd s acc o HI H0 Ho) as (s1 & out & Hobs & HI1 & H01 & Hok).
    destruct (IH post s1 _ HI1 H01 Hos Hm) as (s' & outs & acc' & Hr & Hg & HI' & Hf).
    exists s', (out :: outs), acc'. cbn [app run_ops gexec]. rewrite Hobs, Hr.
    split; [reflexivity|]. split; [exact Hg|]. split; [exact HI'|]. constructor; assumption.
Qed.

(** the ghost list only ever contains frames that were inserted *)
Lemma gexec_acc_inserted : forall os s acc s' acc',
  gexec s acc os = Some (s', acc') ->
  forall seq rpt id, In (seq, rpt, id) acc' ->
    In (seq, rpt, id) acc \/ In (Insert seq rpt id) os.
Proof.
  induction os as [|o os IH]; intros s acc s' acc' H seq rpt id Hin; cbn [gexec] in H.
  - inversion H; subst. left. exact Hin.
  - destruct (observe 5 s o) as [[s1 out]|]; [|discriminate].
    destruct (IH _ _ _ _ H _ _ _ Hin) as [H1|H1]; [|right; right; exact H1].
    destruct o as [i|sq rp i| |i]; cbn [accepted] in H1; try (left; exact H1).
    destruct (insert 5 s sq rp i) as [[s2 [|lo hi tk| |]]|]; try (left; exact H1);
      (destruct H1 as [H1|H1]; [inversion H1; subst; right; left; reflexivity|left; exact H1]).
Qed.

(** functional reading of the invariant *)
Lemma inv_active_seq s acc :
  Inv s acc ->
  (active_seq s = 0 \/ exists rpt id, In (active_seq s, rpt, id) acc) /\
  (forall seq rpt id, In (seq, rpt, id) acc -> rpt <= active_seq s) /\
  exists a, active s = Some a.
Proof.
  intros HI. pose proof HI as [_ _ _ [[a [tk|]] Hact] Hinit Hseq Hrpt]. 
  - split; [|split; [exact Hrpt|exact (active_some _ _ HI)]].
    right. destruct (Hseq 0 a tk ltac:(lia) Hact) as [_ [rp Hin]].
    exists rp, a. unfold active_seq. replace (offset s) with (offset s + 0) by lia. exact Hin.
  - split; [|split; [exact Hrpt|exact (active_some _ _ HI)]].
    left. destruct (Hinit 0 a ltac:(lia) Hact) as [_ H0]. exact H0.
Qed.

Lemma cidqueue_never_panics_lemma L : L = 5 -> forall id0 pre post,
  Forall upd_op pre -> Forall main_op post ->
  exists s outs acc,
    run_ops L (new L id0) (pre ++ post) = Some (s, outs) /\
    Forall2 out_ok (pre ++ post) outs /\
    (* the invariant, spelled out *)
    length (buf s) = Z.to_nat L /\ 0 <= cursor s < L /\
    (exists a, active s = Some a) /\
    (* functional: the active sequence number is 0 or that of an inserted frame, and no
       accepted frame's retire_prior_to is above it *)
    gexec (new L id0) [] (pre ++ post) = Some (s, acc) /\
    (active_seq s = 0 \/ exists rpt id, In (Insert (active_seq s) rpt id) post) /\
    (forall seq rpt id, In (seq, rpt, id) acc -> rpt <= active_seq s).
Proof.
  intros -> id0 pre post Hu Hm.
  destruct (run_upd_then_main pre post (new 5 id0) [] (new_inv id0) eq_refl Hu Hm)
    as (s & outs & acc & Hr & Hg & HI & Hf).
  exists s, outs, acc. destruct (inv_active_seq s acc HI) as (H1 & H2 & H3).
  split; [exact Hr|]. split; [exact Hf|]. split; [exact (i_len _ _ HI)|].
  split; [exact (i_cur _ _ HI)|]. split; [exact H3|]. split; [exact Hg|]. split; [|exact H2].
  destruct H1 as [H1|(rp & i & H1)]; [left; exact H1|right].
  destruct (gexec_acc_inserted _ _ _ _ _ Hg _ _ _ H1) as [[]|Hin].
  apply in_app_or in Hin. destruct Hin as [Hin|Hin]; [|exists rp, i; exact Hin].
  exfalso. rewrite Forall_forall in Hu. specialize (Hu _ Hin). exact Hu.
Qed.
