(** Cubic never reports a window below two datagrams — for all call histories, all arguments and
    ALL outcomes of the float computations (every oracle value). *)
From QV Require Import Lib.Tac Lib.Chk Lib.Corr Proofs.ChkProofs Model.Cubic.
Open Scope Z_scope.

Definition inv (s : st) : Prop := 0 <= mtu s /\ 2 * mtu s <= window (cur s).

Lemma build_inv w m : 0 <= m -> 2 * m <= w -> inv (build w m).
Proof. intros Hm Hw. unfold inv, build. cbn [mtu cur window]. lia. Qed.

Lemma on_ack_inv s now sent bytes al o1 s' :
  inv s -> 0 <= bytes -> on_ack s now sent bytes al o1 = Some s' -> inv s'.
Proof.
  intros [Hm Hw] Hb H. unfold on_ack in H.
  destruct (nz al || in_recovery (cur s) sent) eqn:E1.
  { inversion H; subst. split; assumption. }
  destruct (window (cur s) <? ssthresh (cur s)) eqn:E2.
  - destruct (cadd (window (cur s)) bytes) as [w|] eqn:Ew; cbn [obind] in H; [|discriminate].
    apply cadd_some in Ew as [-> _]. inversion H; subst. unfold inv; cbn [mtu cur window]. lia.
  - destruct (nz o1) eqn:E3.
    + destruct (cadd (window (cur s)) (mtu s)) as [w|] eqn:Ew; cbn [obind] in H; [|discriminate].
      apply cadd_some in Ew as [-> _]. inversion H; subst. unfold inv; cbn [mtu cur window]. lia.
    + inversion H; subst. unfold inv; cbn [mtu cur window]. lia.
Qed.

Lemma on_congestion_event_inv s now sent p e o1 o2 :
  inv s -> inv (on_congestion_event s now sent p e o1 o2).
Proof.
  intros [Hm Hw]. unfold on_congestion_event.
  destruct (in_recovery (cur s) sent) eqn:E1; [split; assumption|].
  unfold inv, min_window. destruct (nz p); cbn [mtu cur window]; lia.
Qed.

Lemma on_spurious_inv s : inv s -> inv (on_spurious s).
Proof.
  intros [Hm Hw]. unfold on_spurious. destruct (prior s) as [p|]; [|split; assumption].
  destruct (window (cur s) <? window p) eqn:E; unfold inv; cbn [mtu cur window]; lia.
Qed.

Lemma on_mtu_update_inv s m : 0 <= m -> inv (on_mtu_update s m).
Proof. intro Hm. unfold inv, on_mtu_update, min_window. cbn [mtu cur window]. lia. Qed.

Lemma step_inv s op o1 o2 s' : wf_op op -> inv s -> step s op o1 o2 = Some s' -> inv s'.
Proof.
  intros Hwf Hi H. unfold step in H. destruct op as [|c a]; [inversion H; subst; assumption|].
  apply wf_tail in Hwf.
  destruct (c =? 2) eqn:E2.
  { eapply on_ack_inv; [exact Hi| |exact H]. apply nth_nonneg; assumption. }
  destruct (c =? 4) eqn:E4.
  { inversion H; subst. apply on_congestion_event_inv; assumption. }
  destruct (c =? 5) eqn:E5.
  { inversion H; subst. apply on_spurious_inv; assumption. }
  destruct (c =? 6) eqn:E6.
  { inversion H; subst. apply on_mtu_update_inv. apply nth_nonneg; assumption. }
  inversion H; subst; assumption.
Qed.

Lemma steps_inv l : forall s s',
  Forall (fun p => wf_op (fst p)) l -> inv s -> steps s l = Some s' -> inv s'.
Proof.
  induction l as [|[op [o1 o2]] l IH]; intros s s' Hwf Hi H; cbn [steps] in H.
  - inversion H; subst; assumption.
  - inversion Hwf as [|? ? Hop Hl]; subst. cbn [fst] in Hop.
    destruct (step s op o1 o2) as [s1|] eqn:E; [|discriminate].
    eapply IH; [exact Hl| |exact H]. eapply step_inv; eassumption.
Qed.

Theorem cubic_floor : forall w m l s',
  0 <= m -> 2 * m <= w ->
  Forall (fun p => wf_op (fst p)) l ->
  steps (build w m) l = Some s' ->
  2 * mtu s' <= window (cur s').
Proof.
  intros w m l s' Hm Hw Hwf H.
  apply (steps_inv l (build w m) s' Hwf (build_inv w m Hm Hw) H).
Qed.
