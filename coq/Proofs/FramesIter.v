(** AckIter safety after [scan_ack_blocks], and the [Iter] iterator: fuel, panics, round trip of
    whole payloads. *)
From QV Require Import Lib.Tac Lib.Bytes Lib.Corr Model.Varint Model.Frames
  Proofs.BytesProofs Proofs.VarintProofs Proofs.FramesProofs Proofs.FramesTotal.
Open Scope Z_scope.

(** Whatever [scan_loop] accepted, [AckIter] walks without underflow, producing descending,
    separated ranges. *)
Lemma ack_iter_scan fuel : forall n smallest bs r4 u,
  scan_loop fuel n smallest bs = DOk u r4 -> all_bytes bs = true -> 0 <= smallest ->
  exists pre, bs = pre ++ r4 /\
    forall largest b Bb fuel2,
      0 <= b < 2 ^ 62 -> largest - b = smallest ->
      (forall x, get_var (Bb ++ x) = DOk b x) -> (1 <= length Bb)%nat ->
      (length (Bb ++ pre) <= fuel2)%nat ->
      exists rs, ack_iter fuel2 largest (Bb ++ pre) = AOk ((smallest, largest) :: rs) /\
                 Forall (range_ok smallest) rs.
Proof.
  induction fuel as [|k IH]; intros n smallest bs r4 u Hs Hb Hsm; cbn [scan_loop] in Hs.
  - destruct (n <=? 0); [|discriminate]. inversion Hs; subst r4. exists []. split; [now rewrite app_nil_l|].
    intros largest b Bb fuel2 Hbv Hl HB HlB Hf.
    destruct Bb as [|b0 t]; [cbn [length] in HlB; lia|].
    destruct fuel2 as [|k2]; [cbn [length app] in Hf; lia|].
    cbn [app ack_iter]. change (b0 :: t ++ []) with ((b0 :: t) ++ []). rewrite HB.
    unfold u64_sub. destruct (largest <? b) eqn:E1; [lia|].
    rewrite get_var_nil. cbn [tl]. rewrite ack_iter_nil. exists []. split; [|constructor].
    do 3 f_equal. lia.
  - destruct (n <=? 0).
    { inversion Hs; subst r4. exists []. split; [now rewrite app_nil_l|].
      intros largest b Bb fuel2 Hbv Hl HB HlB Hf.
      destruct Bb as [|b0 t]; [cbn [length] in HlB; lia|].
      destruct fuel2 as [|k2]; [cbn [length app] in Hf; lia|].
      cbn [app ack_iter]. change (b0 :: t ++ []) with ((b0 :: t) ++ []). rewrite HB.
      unfold u64_sub. destruct (largest <? b) eqn:E1; [lia|].
      rewrite get_var_nil. cbn [tl]. rewrite ack_iter_nil. exists []. split; [|constructor].
      do 3 f_equal. lia. }
    destruct (get_var bs) as [gap r1|e|] eqn:Eg; cbn [bind] in Hs; try discriminate.
    destruct (get_var_prefix bs gap r1 Hb Eg) as (Hg & G & -> & HlG & HG). unfold v62 in Hg.
    apply all_bytes_app in Hb as [_ Hb1].
    unfold u64_add, U64_MAX in Hs. destruct (2 ^ 64 - 1 <? gap + 2) eqn:E0; [lia|].
    unfold u64_sub in Hs at 1. destruct (smallest <? gap + 2) eqn:E1; [discriminate|].
    destruct (get_var r1) as [block r2|e|] eqn:Eb; cbn [bind] in Hs; try discriminate.
    destruct (get_var_prefix r1 block r2 Hb1 Eb) as (Hbl & B & -> & HlB' & HB'). unfold v62 in Hbl.
    apply all_bytes_app in Hb1 as [_ Hb2].
    unfold u64_sub in Hs. destruct (smallest - (gap + 2) <? block) eqn:E2; [discriminate|].
    destruct (IH (n - 1) (smallest - (gap + 2) - block) r2 r4 u Hs Hb2 ltac:(lia))
      as (pre' & -> & Hit).
    exists (G ++ B ++ pre'). split; [now rewrite <- !app_assoc|].
    intros largest b Bb fuel2 Hbv Hl HB HlB Hf.
    destruct Bb as [|b0 t]; [cbn [length] in HlB; lia|].
    destruct fuel2 as [|k2]; [cbn [length app] in Hf; lia|].
    cbn [app ack_iter]. change (b0 :: t ++ ?x) with ((b0 :: t) ++ x). rewrite HB.
    unfold u64_sub at 1. destruct (largest <? b) eqn:E3; [lia|].
    rewrite HG.
    unfold u64_add, U64_MAX. destruct (2 ^ 64 - 1 <? b + gap) eqn:E4; [lia|].
    destruct (2 ^ 64 - 1 <? b + gap + 2) eqn:E5; [lia|].
    unfold u64_sub. destruct (largest <? b + gap + 2) eqn:E6; [lia|].
    destruct (Hit (largest - (b + gap + 2)) block B k2 Hbl ltac:(lia) HB' ltac:(lia))
      as (rs' & Hrs' & Hall).
    { cbn [length app] in Hf. rewrite !app_length in Hf. rewrite app_length. lia. }
    rewrite Hrs'. eexists. split.
    + do 3 f_equal. lia.
    + constructor.
      * unfold range_ok. cbn [fst snd]. lia.
      * eapply Forall_impl; [|exact Hall]. intros [lo hi]. unfold range_ok. cbn [fst snd]. lia.
Qed.

Lemma bind_ok_inv {A B} (p : dres A) (k : A -> list Z -> dres B) b r :
  bind p k = DOk b r -> exists a r1, p = DOk a r1 /\ k a r1 = DOk b r.
Proof. destruct p as [a r1|e|]; cbn [bind]; intros H; try discriminate. now exists a, r1. Qed.

Ltac inv_body H :=
  repeat first
    [ discriminate H
    | apply bind_ok_inv in H; destruct H as (? & ? & _ & H)
    | match type of H with (if ?c then _ else _) = _ => destruct c end ].

(** Only the ACK branch of [try_next] produces an [Ack] frame. *)
Lemma frame_body_ack_inv ty r0 largest delay additional ecn r :
  frame_body ty r0 = DOk (Ack largest delay additional ecn) r ->
  body_ack ty r0 = DOk (Ack largest delay additional ecn) r.
Proof.
  intros H. unfold frame_body in H.
  repeat match type of H with
         | (if ?c then _ else _) = _ => destruct c
         end; try exact H; try discriminate H.
  all: unfold body_reset, body_stop, body_crypto, body_new_token, body_stream, body_var1,
         body_var2, body_new_cid, body_u64, body_close_conn, body_close_app, body_datagram,
         body_ack_freq in H; inv_body H.
Qed.

(** C03 [ack_iter_safe]: an ACK frame produced by the decoder can be iterated without panic;
    the ranges lie in [0, largest], highest first, pairwise separated. *)
Lemma ack_iter_safe bs largest delay additional ecn r :
  all_bytes bs = true ->
  try_next bs = DOk (Ack largest delay additional ecn) r ->
  exists lo rs, ack_ranges largest additional = AOk ((lo, largest) :: rs) /\
                0 <= lo <= largest /\ Forall (range_ok lo) rs.
Proof.
  intros Hb H. unfold try_next in H.
  destruct (get_var bs) as [ty r0|e|] eqn:Eg; cbn [bind] in H; try discriminate.
  destruct (get_var_prefix bs ty r0 Hb Eg) as (_ & G0 & -> & _ & _).
  apply all_bytes_app in Hb as [_ Hb0].
  apply frame_body_ack_inv in H. unfold body_ack in H.
  destruct (get_var r0) as [l r1|e|] eqn:E1; cbn [bind] in H; try discriminate.
  destruct (get_var_prefix r0 l r1 Hb0 E1) as (Hl & G1 & -> & _ & _).
  apply all_bytes_app in Hb0 as [_ Hb1].
  destruct (get_var r1) as [d r2|e|] eqn:E2; cbn [bind] in H; try discriminate.
  destruct (get_var_prefix r1 d r2 Hb1 E2) as (_ & G2 & -> & _ & _).
  apply all_bytes_app in Hb1 as [_ Hb2].
  destruct (get_var r2) as [n r3|e|] eqn:E3; cbn [bind] in H; try discriminate.
  destruct (get_var_prefix r2 n r3 Hb2 E3) as (_ & G3 & -> & _ & _).
  apply all_bytes_app in Hb2 as [_ Hb3].
  destruct (scan_ack_blocks r3 l n) as [u r4|e|] eqn:Es; cbn [bind] in H; try discriminate.
  assert (Hadd : largest = l /\ additional = firstn (length r3 - length r4) r3).
  { destruct (ty =? 3).
    - do 3 (apply bind_ok_inv in H; destruct H as (? & ? & _ & H)). inversion H; auto.
    - inversion H; auto. }
  destruct Hadd as [-> ->]. clear H.
  unfold scan_ack_blocks in Es.
  destruct (get_var r3) as [first r5|e|] eqn:E4; cbn [bind] in Es; try discriminate.
  destruct (get_var_prefix r3 first r5 Hb3 E4) as (Hf & G4 & -> & HlG4 & HG4).
  apply all_bytes_app in Hb3 as [_ Hb5].
  unfold u64_sub in Es. destruct (l <? first) eqn:E5; [discriminate|].
  unfold v62 in *.
  destruct (ack_iter_scan _ _ _ _ _ _ Es Hb5 ltac:(lia)) as (pre & -> & Hit).
  replace (firstn _ _) with (G4 ++ pre).
  2:{ rewrite app_assoc. symmetry. apply firstn_app_exact. rewrite !app_length. lia. }
  destruct (Hit l first G4 (length (G4 ++ pre)) Hf eq_refl HG4 ltac:(lia) ltac:(lia))
    as (rs & Hrs & Hall).
  exists (l - first), rs. unfold ack_ranges. split; [exact Hrs|]. split; [lia|exact Hall].
Qed.

(** * The iterator *)
Lemma try_next_shorter bs f r :
  all_bytes bs = true -> try_next bs = DOk f r ->
  (length r < length bs)%nat /\ all_bytes r = true.
Proof.
  intros Hb H. pose proof (try_next_total bs Hb) as HT. rewrite H in HT.
  destruct HT as (pre & -> & Hl). rewrite app_length. split; [lia|].
  now apply all_bytes_app in Hb.
Qed.

Lemma iter_all_fuel f1 : forall f2 bs last,
  all_bytes bs = true -> (length bs <= f1)%nat -> (length bs <= f2)%nat ->
  iter_all f1 bs last = iter_all f2 bs last.
Proof.
  induction f1 as [|k IH]; intros f2 bs last Hb H1 H2.
  - destruct bs; [|cbn [length] in H1; lia]. destruct f2; reflexivity.
  - destruct bs as [|b t]; [destruct f2; reflexivity|].
    destruct f2 as [|k2]; [cbn [length] in H2; lia|].
    cbn [iter_all]. destruct (try_next (b :: t)) as [f r|e|] eqn:E; try reflexivity.
    destruct (try_next_shorter _ _ _ Hb E) as [Hl Hr]. f_equal.
    apply IH; [exact Hr|lia|lia].
Qed.

Definition item_ok (i : item) : Prop :=
  match i with
  | IFrame f => exists o, render f = Some o
  | IErr _ e => is_err e
  | IPanic | IFuel => False
  end.

Lemma render_ok bs f r :
  all_bytes bs = true -> try_next bs = DOk f r -> exists o, render f = Some o.
Proof.
  intros Hb H. destruct f; cbn [render]; try (eexists; reflexivity).
  destruct (ack_iter_safe _ _ _ _ _ _ Hb H) as (lo & rs & -> & _). eexists; reflexivity.
Qed.

(** Neither the fuel artefact nor a panic ever shows up, for arbitrary bytes. *)
Lemma iter_all_ok fuel : forall bs last,
  all_bytes bs = true -> (length bs <= fuel)%nat -> Forall item_ok (iter_all fuel bs last).
Proof.
  induction fuel as [|k IH]; intros bs last Hb Hf.
  - destruct bs; [constructor|cbn [length] in Hf; lia].
  - destruct bs as [|b t]; [constructor|]. cbn [iter_all].
    pose proof (try_next_total (b :: t) Hb) as HT.
    destruct (try_next (b :: t)) as [f r|e|] eqn:E.
    + destruct (try_next_shorter _ _ _ Hb E) as [Hl Hr]. constructor.
      * cbn [item_ok]. exact (render_ok _ _ _ Hb E).
      * apply IH; [exact Hr|cbn [length] in *; lia].
    + constructor; [exact HT|constructor].
    + contradiction.
Qed.

Lemma render_items_ok l : Forall item_ok l -> exists o, render_items l = Some o.
Proof.
  induction 1 as [|i l Hi _ IH]; [now exists []|].
  destruct IH as (o & Ho). destruct i; cbn [item_ok] in Hi; try contradiction; cbn [render_items].
  - destruct Hi as (a & ->). rewrite Ho. eexists; reflexivity.
  - rewrite Ho. eexists; reflexivity.
Qed.

(** Decoding arbitrary bytes never panics (neither [try_next] nor the [AckIter] walk the hook
    performs on every decoded ACK). *)
Lemma decode_never_panics bs : all_bytes bs = true -> exists o, decode_out bs = Some o.
Proof.
  intros Hb. unfold decode_out, iter. destruct bs as [|b t]; [eexists; reflexivity|].
  destruct (render_items_ok _ (iter_all_ok (length (b :: t)) (b :: t) None Hb (le_n _))) as (o & ->).
  eexists; reflexivity.
Qed.

(** A self-delimiting frame at the head of a payload is yielded first and the iterator continues
    at the bytes that follow it. *)
Lemma iter_step b f r fuel last :
  b <> [] -> try_next (b ++ r) = DOk f r -> (length (b ++ r) <= fuel)%nat ->
  exists k, (length r <= k)%nat /\
    iter_all fuel (b ++ r) last = IFrame f :: iter_all k r (new_last (b ++ r) last).
Proof.
  intros Hne H Hf. destruct b as [|x t]; [congruence|]. cbn [app] in *.
  destruct fuel as [|k]; [cbn [length] in Hf; lia|].
  exists k. split; [cbn [length] in Hf; rewrite app_length in Hf; lia|].
  cbn [iter_all]. now rewrite H.
Qed.

(** Whole payloads: the concatenated encodings of well-formed frames (length-prefixed STREAM /
    DATAGRAM, CLOSE handled separately) decode to exactly those frames, in order. *)
Lemma payload_roundtrip_fuel max_len fs :
  Forall (fun f => wf_frame f = true /\ is_close f = false) fs ->
  exists p, encode_all max_len fs = Some p /\
    forall fuel last, (length p <= fuel)%nat -> iter_all fuel p last = map IFrame fs.
Proof.
  induction 1 as [|f tl [Hwf Hnc] _ IH].
  - exists []. split; [reflexivity|]. intros fuel last _. destruct fuel; reflexivity.
  - destruct IH as (p & Hp & Hit).
    destruct (frame_roundtrip_fixed true max_len f Hwf Hnc) as (b & Hb & Hrt).
    exists (b ++ p). cbn [encode_all]. rewrite Hb, Hp. split; [reflexivity|].
    intros fuel last Hf.
    assert (Hne : b <> []).
    { intros ->. specialize (Hrt []). cbn [app] in Hrt. discriminate Hrt. }
    specialize (Hrt p).
    replace (absorb true f p) with f in Hrt by reflexivity.
    replace (if self_delimiting true f then p else []) with p in Hrt
      by (destruct f; reflexivity).
    destruct (iter_step b f p fuel last Hne Hrt Hf) as (k & Hk & ->).
    cbn [map]. f_equal. apply Hit. exact Hk.
Qed.

Lemma payload_roundtrip max_len fs :
  fs <> [] -> Forall (fun f => wf_frame f = true /\ is_close f = false) fs ->
  exists p, encode_all max_len fs = Some p /\ iter p = Some (map IFrame fs).
Proof.
  intros Hne Hall. destruct (payload_roundtrip_fuel max_len fs Hall) as (p & Hp & Hit).
  exists p. split; [exact Hp|]. unfold iter.
  destruct p as [|x t] eqn:Ep.
  - destruct fs as [|f tl]; [congruence|]. specialize (Hit 0%nat None (le_n _)). discriminate Hit.
  - rewrite Hit by apply le_n. reflexivity.
Qed.
