(** BTree RangeSet model (Model/RangeSet.v): representation invariant and set semantics of
    [insert] and [replace] (with the Replace iterator drained by a for loop and then dropped). *)
From QV Require Import Lib.Tac Lib.Corr Lib.RangeSpec Model.RangeSet Proofs.RangeSetProofs.
Open Scope Z_scope.

(** split syntactic conjunctions only (do not unfold [wfb] of a cons) *)
Ltac csplit := repeat match goal with |- _ /\ _ => split end.

(** all keys of [m] are greater than [k] *)
Definition keys_gt (k : Z) (m : rmap) : Prop := forall s e, In (s, e) m -> k < s.

Lemma wfb_keys_gt lo m : wfb lo m -> keys_gt lo m.
Proof.
  revert lo; induction m as [|[s e] r IH]; intros lo W a b I; [destruct I|].
  cbn [wfb] in W. destruct W as (W1 & W2 & W3). destruct I as [E|I]; [inversion E; subst; lia|].
  specialize (IH e W3 a b I). lia.
Qed.

Lemma keys_gt_head k s e r : keys_gt k ((s, e) :: r) -> k < s.
Proof. intros H. apply (H s e). now left. Qed.

Lemma wfb_head_gt_all lo s e r k : wfb lo ((s, e) :: r) -> k < s -> keys_gt k ((s, e) :: r).
Proof.
  intros W H a b [E|I]; [inversion E; subst; lia|].
  cbn [wfb] in W. destruct W as (_ & W2 & W3). apply wfb_keys_gt in W3. specialize (W3 a b I). lia.
Qed.

Lemma pred_none_keys lo x m : wfb lo m -> pred x m = None -> keys_gt x m.
Proof.
  destruct m as [|[s e] r]; intros W H; [intros a b []|].
  cbn [pred] in H. destruct (s <=? x) eqn:E.
  - destruct (pred x r); discriminate.
  - eapply wfb_head_gt_all; [exact W | lia].
Qed.

Lemma pred_some_in lo x m ps pe : wfb lo m -> pred x m = Some (ps, pe) -> In (ps, pe) m /\ ps <= x.
Proof.
  revert lo; induction m as [|[s e] r IH]; intros lo W H; [discriminate|].
  cbn [pred] in H. destruct (s <=? x) eqn:E; [|discriminate].
  cbn [wfb] in W. destruct W as (W1 & W2 & W3).
  destruct (pred x r) as [[a b]|] eqn:P.
  - inversion H; subst. destruct (IH e W3 eq_refl) as [I L]. split; [now right | exact L].
  - inversion H; subst. split; [now left | lia].
Qed.

(** [drain] on a map all of whose keys are beyond [xs] *)
Definition in_its (x : Z) (its : list (Z * Z)) : Prop := exists a b, In (a, b) its /\ a <= x < b.

Fixpoint its_sorted (lo hi : Z) (its : list (Z * Z)) : Prop :=
  match its with
  | [] => True
  | (a, b) :: t => lo <= a /\ a < b /\ b <= hi /\ its_sorted b hi t
  end.

Lemma in_its_cons x a b t : in_its x ((a, b) :: t) <-> a <= x < b \/ in_its x t.
Proof.
  split.
  - intros (a' & b' & [E|I] & H); [inversion E; subst; now left | right; now exists a', b'].
  - intros [H|(a' & b' & I & H)]; [exists a, b; split; [now left|exact H] | exists a', b'; split; [now right|exact H]].
Qed.

Lemma in_its_nil x : ~ in_its x [].
Proof. intros (a & b & [] & _). Qed.

Lemma drain_stop xs xe r : keys_gt xe r -> xs <= xe -> drain xs xe r = ([], r, xe).
Proof.
  destruct r as [|[s e] t]; intros K H; [reflexivity|]. cbn [drain].
  apply keys_gt_head in K.
  destruct (xs <? s) eqn:E1; [|lia]. destruct (xe <? s) eqn:E2; [reflexivity|lia].
Qed.

Lemma drain_spec r : forall lo xs xe,
  wfb lo r -> keys_gt xs r -> xs < xe ->
  let '(its, r', xe') := drain xs xe r in
  xe <= xe' /\ wfb xe' r' /\
  drain xs xe' r' = ([], r', xe') /\
  (forall x, mem x r' -> mem x r) /\
  (forall x, mem x r -> mem x r' \/ x < xe') /\
  (forall x, xe <= x < xe' -> mem x r) /\
  (forall x, x < xe -> (mem x r <-> in_its x its)) /\
  (forall lo', lo' <= lo -> its_sorted lo' xe its) /\
  (forall x, mem x r -> lo < x).
Proof.
  induction r as [|[s e] t IH]; intros lo xs xe W K Hlt.
  - cbn [drain]. csplit; auto; try lia; try (intros x M; now apply mem_nil in M);
      try (intros M; now apply mem_nil in M); try (intros M; now apply in_its_nil in M).
    intros x _. split; intros M; [now apply mem_nil in M | now apply in_its_nil in M].
  - pose proof (keys_gt_head _ _ _ _ K) as Ks.
    pose proof W as W0. cbn [wfb] in W. destruct W as (W1 & W2 & W3).
    assert (Glo : forall x, mem x ((s, e) :: t) -> lo < x).
    { intros x M. eapply wfb_mem_gt; [exact W0 | exact M]. }
    cbn [drain]. destruct (xs <? s) eqn:E1; [|lia].
    destruct (xe <? s) eqn:E2.
    + (* no overlap: stop *)
      split; [lia|]. split; [cbn [wfb]; csplit; auto; lia|].
      split; [cbn [drain]; rewrite E1, E2; reflexivity|].
      split; [auto|]. split; [intros x M; now left|]. split; [intros x Hx; lia|].
      split; [|split; [intros; exact I | exact Glo]].
      intros x Hx. split; intros M; [|now apply in_its_nil in M].
      exfalso. apply (wfb_mem_gt (s - 1)) in M; [lia|]. cbn [wfb]. csplit; auto; lia.
    + assert (Kt : keys_gt xs t).
      { intros a b I. apply (K a b). now right. }
      destruct (s =? Z.min xe e) eqn:E3.
      * (* touching successor: removed, no item *)
        assert (s = xe) by lia. subst s.
        replace (Z.max xe e) with e by lia.
        split; [lia|]. split; [exact W3|].
        split; [apply drain_stop; [now apply wfb_keys_gt | lia]|].
        split; [intros x M; apply mem_cons; now right|].
        split; [intros x M; apply mem_cons in M as [M|M]; [right; lia | now left]|].
        split; [intros x Hx; apply mem_cons; left; lia|].
        split; [|split; [intros; exact I | exact Glo]].
        intros x Hx. split; intros M; [|now apply in_its_nil in M].
        exfalso. apply mem_cons in M as [M|M]; [lia|].
        apply (wfb_mem_gt e) in M; [lia | exact W3].
      * destruct (Z.le_gt_cases xe e) as [Le|Gt].
        -- (* the successor reaches beyond xe: item (s, xe), then stop *)
           replace (Z.min xe e) with xe by lia. replace (Z.max xe e) with e by lia.
           rewrite (drain_stop xs e t) by (try apply wfb_keys_gt; auto; lia).
           split; [lia|]. split; [exact W3|].
           split; [apply drain_stop; [now apply wfb_keys_gt | lia]|].
           split; [intros x M; apply mem_cons; now right|].
           split; [intros x M; apply mem_cons in M as [M|M]; [right; lia | now left]|].
           split; [intros x Hx; apply mem_cons; left; lia|].
           split; [|split; [intros lo' Hlo'; cbn [its_sorted]; csplit; auto; lia | exact Glo]].
           intros x Hx. split; intros M.
           ++ apply in_its_cons. left. apply mem_cons in M as [M|M]; [lia|].
              apply (wfb_mem_gt e) in M; [lia | exact W3].
           ++ apply in_its_cons in M as [M|M]; [apply mem_cons; left; lia | now apply in_its_nil in M].
        -- (* the successor lies inside: item (s, e), continue *)
           replace (Z.min xe e) with e by lia. replace (Z.max xe e) with xe by lia.
           specialize (IH e xs xe W3 Kt Hlt).
           destruct (drain xs xe t) as [[its t'] xe'].
           destruct IH as (I1 & I2 & I3 & I4 & I5 & I6 & I7 & I8 & I9).
           split; [exact I1|]. split; [exact I2|]. split; [exact I3|].
           split; [intros x M; apply mem_cons; right; now apply I4|].
           split; [intros x M; apply mem_cons in M as [M|M]; [right; lia | now apply I5]|].
           split; [intros x Hx; apply mem_cons; right; now apply I6|].
           split; [|split; [intros lo' Hlo'; cbn [its_sorted]; csplit; try lia; apply I8; lia | exact Glo]].
           intros x Hx. split; intros M.
           ++ apply in_its_cons. apply mem_cons in M as [M|M]; [now left | right; now apply I7].
           ++ apply mem_cons. apply in_its_cons in M as [M|M]; [now left | right; now apply I7].
Qed.

Lemma keys_gt_mem k m x : keys_gt k m -> mem x m -> k < x.
Proof. intros K (s & e & I & H). specialize (K s e I). lia. Qed.

Lemma keys_gt_pred_none k m : keys_gt k m -> pred k m = None.
Proof.
  destruct m as [|[s e] r]; intros K; [reflexivity|]. apply keys_gt_head in K.
  cbn [pred]. destruct (s <=? k) eqn:E; [lia | reflexivity].
Qed.

Lemma put_front k v m : keys_gt k m -> put k v m = (k, v) :: m.
Proof.
  destruct m as [|[s e] r]; intros K; [reflexivity|]. apply keys_gt_head in K.
  cbn [put]. destruct (k <? s) eqn:E; [reflexivity | lia].
Qed.

Lemma keys_gt_weaken k k' m : k' <= k -> keys_gt k m -> keys_gt k' m.
Proof. intros H K s e I. specialize (K s e I). lia. Qed.

Lemma its_sorted_weaken lo lo' hi its : lo' <= lo -> its_sorted lo hi its -> its_sorted lo' hi its.
Proof. destruct its as [|[a b] t]; cbn [its_sorted]; intros; auto. intuition lia. Qed.

Lemma its_sorted_empty lo its : its_sorted lo lo its -> its = [].
Proof. destruct its as [|[a b] t]; cbn [its_sorted]; intros; auto. lia. Qed.

Lemma in_its_app x a b : in_its x (a ++ b) <-> in_its x a \/ in_its x b.
Proof.
  unfold in_its. split.
  - intros (s & e & I & H). apply in_app_or in I as [I|I]; [left|right]; now exists s, e.
  - intros [(s & e & I & H)|(s & e & I & H)]; exists s, e; (split; [apply in_or_app; auto | exact H]).
Qed.

Definition replace_post (lo xs xe : Z) (m : rmap) (res : list (Z * Z) * rmap) : Prop :=
  let '(dups, m') := res in
  wfb lo m' /\ (forall x, mem x m' <-> mem x m \/ xs <= x < xe) /\
  its_sorted xs xe dups /\ (forall x, xs <= x < xe -> (mem x m <-> in_its x dups)).

Lemma replace_skip s e r xs xe : s < e -> e < xs -> wfb e r ->
  replace xs xe ((s, e) :: r) = (fst (replace xs xe r), (s, e) :: snd (replace xs xe r)).
Proof.
  intros Hse Hex W. unfold replace. cbn [pred].
  destruct (s <=? xs) eqn:E0; [|lia].
  assert (Skip : forall k, s < k -> forall v m, put k v ((s, e) :: m) = (s, e) :: put k v m).
  { intros k Hk v m. cbn [put]. destruct (k <? s) eqn:A; [lia|]. destruct (k =? s) eqn:B; [lia|]. reflexivity. }
  assert (SkipD : forall k, s < k -> forall v m, drain k v ((s, e) :: m) =
             let '(its, r', v') := drain k v m in (its, (s, e) :: r', v')).
  { intros k Hk v m. cbn [drain]. destruct (k <? s) eqn:A; [lia|]. reflexivity. }
  destruct (pred xs r) as [[ps pe]|] eqn:P.
  - destruct (pred_some_in _ _ _ _ _ W P) as [I L].
    assert (Hps : e < ps) by (apply (wfb_keys_gt _ _ W) in I; exact I).
    destruct (xs <=? pe) eqn:E1.
    + cbn [rm]. destruct (s =? ps) eqn:E2; [lia|].
      rewrite SkipD by lia. destruct (drain (Z.min xs ps) (Z.max xe pe) (rm ps r)) as [[its m2] xe2].
      rewrite SkipD by lia. destruct (drain (Z.min xs ps) xe2 m2) as [[its' m3] xe3].
      rewrite Skip by lia. reflexivity.
    + rewrite SkipD by lia. destruct (drain xs xe r) as [[its m2] xe2].
      rewrite SkipD by lia. destruct (drain xs xe2 m2) as [[its' m3] xe3].
      rewrite Skip by lia. reflexivity.
  - destruct (xs <=? e) eqn:E1; [lia|].
    rewrite SkipD by lia. destruct (drain xs xe r) as [[its m2] xe2].
    rewrite SkipD by lia. destruct (drain xs xe2 m2) as [[its' m3] xe3].
    rewrite Skip by lia. reflexivity.
Qed.

Lemma replace_spec m : forall lo xs xe,
  wfb lo m -> lo < xs -> xs < xe -> replace_post lo xs xe m (replace xs xe m).
Proof.
  induction m as [|[s e] r IH]; intros lo xs xe W Hlo Hlt.
  - unfold replace_post, replace. cbn [pred drain put app]. cbn [wfb its_sorted].
    split; [auto|]. split; [intros x; rewrite mem_cons; tauto|]. split; [auto|].
    intros x Hx. split; intros M; [now apply mem_nil in M | now apply in_its_nil in M].
  - pose proof W as W0. cbn [wfb] in W. destruct W as (W1 & W2 & W3).
    destruct (Z.lt_ge_cases xs s) as [C1|C1].
    + (* no predecessor *)
      assert (K : keys_gt xs ((s, e) :: r)) by (eapply wfb_head_gt_all; eauto).
      unfold replace. rewrite (keys_gt_pred_none _ _ K).
      assert (Wm : wfb (Z.max lo xs) ((s, e) :: r)) by (cbn [wfb]; csplit; auto; lia).
      pose proof (drain_spec _ _ xs xe Wm K Hlt) as D.
      destruct (drain xs xe ((s, e) :: r)) as [[its r'] xe'].
      destruct D as (I1 & I2 & I3 & I4 & I5 & I6 & I7 & I8 & I9).
      rewrite I3. cbn [app].
      rewrite put_front by (eapply keys_gt_weaken; [|apply wfb_keys_gt; exact I2]; lia).
      unfold replace_post. split; [cbn [wfb]; csplit; auto; lia|].
      split; [|split; [apply I8; lia | intros x Hx; apply I7; lia]].
      intros x. rewrite mem_cons. split.
      * intros [H|H]; [|left; now apply I4].
        destruct (Z.lt_ge_cases x xe); [right; lia | left; apply I6; lia].
      * intros [H|H]; [|left; lia].
        destruct (I5 x H) as [H'|H']; [now right|]. left. apply (keys_gt_mem _ _ _ K) in H. lia.
    + destruct (Z.le_gt_cases xs e) as [C2|C2].
      * (* the head is the predecessor and overlaps or touches *)
        assert (K : keys_gt xs r) by (eapply keys_gt_weaken; [|apply wfb_keys_gt; exact W3]; lia).
        unfold replace. cbn [pred]. destruct (s <=? xs) eqn:E0; [|lia].
        rewrite (keys_gt_pred_none _ _ K). destruct (xs <=? e) eqn:E1; [|lia].
        cbn [rm]. rewrite Z.eqb_refl. replace (Z.min xs s) with s by lia.
        assert (Ks : keys_gt s r) by (eapply keys_gt_weaken; [|exact K]; lia).
        pose proof (drain_spec _ _ s (Z.max xe e) W3 Ks ltac:(lia)) as D.
        destruct (drain s (Z.max xe e) r) as [[its r'] xe'].
        destruct D as (I1 & I2 & I3 & I4 & I5 & I6 & I7 & I8 & I9).
        rewrite I3.
        rewrite put_front by (eapply keys_gt_weaken; [|apply wfb_keys_gt; exact I2]; lia).
        unfold replace_post. split; [cbn [wfb]; csplit; auto; lia|].
        split; [|split].
        -- intros x. rewrite !mem_cons. split.
           ++ intros [H|H]; [|left; right; now apply I4].
              destruct (Z.lt_ge_cases x e); [left; left; lia|].
              destruct (Z.lt_ge_cases x (Z.max xe e)); [right; lia | left; right; apply I6; lia].
           ++ intros [[H|H]|H]; [left; lia | | left; lia].
              destruct (I5 x H) as [H'|H']; [now right|]. left.
              apply (keys_gt_mem _ _ _ Ks) in H. lia.
        -- specialize (I8 e ltac:(lia)).
           destruct (Z.le_gt_cases xe e) as [C3|C3].
           ++ replace (Z.max xe e) with e in I8 by lia. apply its_sorted_empty in I8. subst its.
              rewrite app_nil_r. replace (Z.min xe e) with xe by lia.
              destruct (xs =? xe) eqn:E2; [lia|]. cbn [its_sorted]. csplit; auto; lia.
           ++ replace (Z.max xe e) with xe in I8 by lia. replace (Z.min xe e) with e by lia.
              destruct (xs =? e) eqn:E2.
              ** cbn [app]. eapply its_sorted_weaken; [|exact I8]. lia.
              ** cbn [app its_sorted]. csplit; auto; lia.
        -- intros x Hx. rewrite in_its_app, mem_cons.
           assert (Hp : in_its x (if xs =? Z.min xe e then [] else [(xs, Z.min xe e)]) <-> x < e).
           { destruct (xs =? Z.min xe e) eqn:E2.
             - split; [intros M; now apply in_its_nil in M | lia].
             - rewrite in_its_cons. split; [intros [H|H]; [lia | now apply in_its_nil in H] | left; lia]. }
           rewrite Hp. rewrite <- (I7 x) by lia. split; (intros [H|H]; [left; lia | now right]).
      * (* the head lies strictly before xs: skipped *)
        rewrite replace_skip by auto.
        specialize (IH e xs xe W3 C2 Hlt). unfold replace_post in *.
        destruct (replace xs xe r) as [dups m']. cbn [fst snd].
        destruct IH as (J1 & J2 & J3 & J4).
        split; [cbn [wfb]; auto|]. split; [|split; [exact J3|]].
        -- intros x. rewrite !mem_cons, J2. tauto.
        -- intros x Hx. rewrite mem_cons, <- (J4 x Hx). split; [intros [H|H]; [lia | exact H] | now right].
Qed.

(* ------------------------------------------------------------ insert *)
Lemma absorb_spec r : forall lo xs xe,
  wfb lo r -> keys_gt xs r -> xs < xe ->
  let '(r', xe') := absorb xs xe r in
  xe <= xe' /\ wfb xe' r' /\
  (forall x, mem x r' -> mem x r) /\
  (forall x, mem x r -> mem x r' \/ x < xe') /\
  (forall x, xe <= x < xe' -> mem x r).
Proof.
  induction r as [|[s e] t IH]; intros lo xs xe W K Hlt.
  - cbn [absorb]. split; [lia|]. split; [exact I|]. split; [auto|].
    split; [intros x M; now apply mem_nil in M | intros x Hx; lia].
  - pose proof (keys_gt_head _ _ _ _ K) as Ks.
    pose proof W as W0. cbn [wfb] in W. destruct W as (W1 & W2 & W3).
    cbn [absorb]. destruct (xs <? s) eqn:E1; [|lia].
    destruct (xe <? s) eqn:E2.
    + split; [lia|]. split; [cbn [wfb]; csplit; auto; lia|]. split; [auto|].
      split; [intros x M; now left | intros x Hx; lia].
    + assert (Kt : keys_gt xs t) by (intros a b I; apply (K a b); now right).
      specialize (IH e xs (Z.max e xe) W3 Kt ltac:(lia)).
      destruct (absorb xs (Z.max e xe) t) as [t' xe'].
      destruct IH as (I1 & I2 & I3 & I4 & I5).
      split; [lia|]. split; [exact I2|].
      split; [intros x M; apply mem_cons; right; now apply I3|].
      split.
      * intros x M. apply mem_cons in M as [M|M]; [right; lia | now apply I4].
      * intros x Hx. apply mem_cons.
        destruct (Z.lt_ge_cases x (Z.max e xe)); [left; lia | right; apply I5; lia].
Qed.

Lemma insert_skip s e r xs xe : s < e -> e < xs -> xs < xe -> wfb e r ->
  RangeSet.insert xs xe ((s, e) :: r) =
  (fst (RangeSet.insert xs xe r), (s, e) :: snd (RangeSet.insert xs xe r)).
Proof.
  intros Hse Hex Hlt W. unfold RangeSet.insert. destruct (xe <=? xs) eqn:E; [lia|].
  cbn [pred]. destruct (s <=? xs) eqn:E0; [|lia].
  assert (Skip : forall k, s < k -> forall v m, put k v ((s, e) :: m) = (s, e) :: put k v m).
  { intros k Hk v m. cbn [put]. destruct (k <? s) eqn:A; [lia|]. destruct (k =? s) eqn:B; [lia|]. reflexivity. }
  assert (SkipA : forall k, s < k -> forall v m, absorb k v ((s, e) :: m) =
             let '(r', v') := absorb k v m in ((s, e) :: r', v')).
  { intros k Hk v m. cbn [absorb]. destruct (k <? s) eqn:A; [lia|]. reflexivity. }
  destruct (pred xs r) as [[ps pe]|] eqn:P.
  - destruct (pred_some_in _ _ _ _ _ W P) as [I L].
    assert (Hps : e < ps) by (apply (wfb_keys_gt _ _ W) in I; exact I).
    destruct (xe <=? pe) eqn:E1; [reflexivity|].
    destruct (xs <=? pe) eqn:E2.
    + cbn [rm]. destruct (s =? ps) eqn:E3; [lia|].
      rewrite SkipA by lia. destruct (absorb ps xe (rm ps r)) as [m2 xe2].
      rewrite Skip by lia. reflexivity.
    + rewrite SkipA by lia. destruct (absorb xs xe r) as [m2 xe2].
      rewrite Skip by lia. reflexivity.
  - destruct (xe <=? e) eqn:E1; [lia|]. destruct (xs <=? e) eqn:E2; [lia|].
    rewrite SkipA by lia. destruct (absorb xs xe r) as [m2 xe2].
    rewrite Skip by lia. reflexivity.
Qed.

Lemma insert_spec m : forall lo xs xe,
  wfb lo m -> lo < xs -> xs < xe ->
  wfb lo (snd (RangeSet.insert xs xe m)) /\
  (forall x, mem x (snd (RangeSet.insert xs xe m)) <-> mem x m \/ xs <= x < xe).
Proof.
  induction m as [|[s e] r IH]; intros lo xs xe W Hlo Hlt.
  - unfold RangeSet.insert. destruct (xe <=? xs) eqn:E; [lia|]. cbn [pred absorb put snd wfb].
    split; [auto|]. intros x. rewrite mem_cons. tauto.
  - pose proof W as W0. cbn [wfb] in W. destruct W as (W1 & W2 & W3).
    destruct (Z.lt_ge_cases xs s) as [C1|C1].
    + assert (K : keys_gt xs ((s, e) :: r)) by (eapply wfb_head_gt_all; eauto).
      unfold RangeSet.insert. destruct (xe <=? xs) eqn:E; [lia|].
      rewrite (keys_gt_pred_none _ _ K).
      pose proof (absorb_spec _ _ xs xe W0 K Hlt) as D.
      destruct (absorb xs xe ((s, e) :: r)) as [r' xe'].
      destruct D as (I1 & I2 & I3 & I4 & I5). cbn [snd].
      rewrite put_front by (eapply keys_gt_weaken; [|apply wfb_keys_gt; exact I2]; lia).
      split; [cbn [wfb]; csplit; auto; lia|].
      intros x. rewrite mem_cons. split.
      * intros [H|H]; [|left; now apply I3].
        destruct (Z.lt_ge_cases x xe); [right; lia | left; apply I5; lia].
      * intros [H|H]; [|left; lia].
        destruct (I4 x H) as [H'|H']; [now right|]. left. apply (keys_gt_mem _ _ _ K) in H. lia.
    + destruct (Z.le_gt_cases xs e) as [C2|C2].
      * assert (K : keys_gt xs r) by (eapply keys_gt_weaken; [|apply wfb_keys_gt; exact W3]; lia).
        unfold RangeSet.insert. destruct (xe <=? xs) eqn:E; [lia|].
        cbn [pred]. destruct (s <=? xs) eqn:E0; [|lia].
        rewrite (keys_gt_pred_none _ _ K).
        destruct (xe <=? e) eqn:E1.
        -- cbn [snd]. split; [exact W0|]. intros x. rewrite mem_cons. split; [tauto|].
           intros [H|H]; [exact H | left; lia].
        -- destruct (xs <=? e) eqn:E2; [|lia]. cbn [rm]. rewrite Z.eqb_refl.
           assert (Ks : keys_gt s r) by (eapply keys_gt_weaken; [|exact K]; lia).
           pose proof (absorb_spec _ _ s xe W3 Ks ltac:(lia)) as D.
           destruct (absorb s xe r) as [r' xe'].
           destruct D as (I1 & I2 & I3 & I4 & I5). cbn [snd].
           rewrite put_front by (eapply keys_gt_weaken; [|apply wfb_keys_gt; exact I2]; lia).
           split; [cbn [wfb]; csplit; auto; lia|].
           intros x. rewrite !mem_cons. split.
           ++ intros [H|H]; [|left; right; now apply I3].
              destruct (Z.lt_ge_cases x e); [left; left; lia|].
              destruct (Z.lt_ge_cases x xe); [right; lia | left; right; apply I5; lia].
           ++ intros [[H|H]|H]; [left; lia | | left; lia].
              destruct (I4 x H) as [H'|H']; [now right|]. left.
              apply (keys_gt_mem _ _ _ Ks) in H. lia.
      * rewrite insert_skip by auto. cbn [snd].
        destruct (IH e xs xe W3 C2 Hlt) as [J1 J2].
        split; [cbn [wfb]; auto|]. intros x. rewrite !mem_cons, J2. tauto.
Qed.

Lemma insert_empty xs xe m : xe <= xs -> RangeSet.insert xs xe m = (false, m).
Proof. intros H. unfold RangeSet.insert. destruct (xe <=? xs) eqn:E; [reflexivity | lia]. Qed.
