(** Checked u64 arithmetic for models (Rust debug builds panic on overflow/underflow):
    [None] is the panic outcome. Definitions only. *)
From Coq Require Import ZArith List Bool.
Import ListNotations.
Open Scope Z_scope.

Definition U64MAX : Z := 2 ^ 64 - 1.

(** Result of a u64 operation: in range or panic. *)
Definition chk (x : Z) : option Z := if (0 <=? x) && (x <=? U64MAX) then Some x else None.
Definition cadd (a b : Z) : option Z := chk (a + b).
Definition csub (a b : Z) : option Z := chk (a - b).
Definition cmul (a b : Z) : option Z := chk (a * b).
(** [saturating_add] *)
Definition sat_add (a b : Z) : Z := Z.min (a + b) U64MAX.

Definition obind {A B} (o : option A) (f : A -> option B) : option B :=
  match o with Some a => f a | None => None end.
Notation "'do' x <- o ; k" := (obind o (fun x => k)) (at level 200, x name, o at level 100, k at level 200).

Definition nz (b : Z) : bool := negb (b =? 0).
Definition b2z (b : bool) : Z := if b then 1 else 0.

(** All arguments of an operation are u64 values. *)
Definition args_u64 (op : list Z) : bool := forallb (fun x => (0 <=? x) && (x <=? U64MAX)) op.
