(** Big-endian byte strings as [list Z] (each element in [0,256)). Definitions only. *)
From Coq Require Import ZArith List Bool.
Import ListNotations.
Open Scope Z_scope.

(** [be_bytes n x]: the [n] low-order bytes of [x], most significant first. *)
Fixpoint be_bytes (n : nat) (x : Z) : list Z :=
  match n with
  | O => []
  | S k => (x / 256 ^ Z.of_nat k) mod 256 :: be_bytes k x
  end.

(** [be_val bs acc]: fold big-endian bytes into [acc]. *)
Fixpoint be_val (bs : list Z) (acc : Z) : Z :=
  match bs with
  | [] => acc
  | b :: r => be_val r (acc * 256 + b)
  end.

Definition is_byte (b : Z) : bool := (0 <=? b) && (b <? 256).
Definition all_bytes (bs : list Z) : bool := forallb is_byte bs.
Definition zlen (l : list Z) : Z := Z.of_nat (length l).
