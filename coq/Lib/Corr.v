(** Generic correspondence checker (trusted glue, see DESIGN §2.2).

    Every component model exposes
      run    : ops -> outs          the executable model on integer-encoded operations
      oracle : ops -> outs -> bool  the property's observable conclusion, evaluated on the
                                    outputs of the IMPLEMENTATION (used by the failing-input search)
    The harness writes a [cases.v] holding (ops, implementation outputs) pairs and evaluates
    [failures run oracle cases] with [vm_compute].  Codes: 1 = model and implementation differ but
    the property's oracle holds on the implementation's outputs; 2 = the oracle fails on the
    implementation's outputs (a concrete failing input). *)
From Coq Require Import ZArith List Bool.
Import ListNotations.
Open Scope Z_scope.

Definition ops := list (list Z).
Definition outs := list (list Z).

Fixpoint lz_eqb (a b : list Z) : bool :=
  match a, b with
  | [], [] => true
  | x :: a', y :: b' => Z.eqb x y && lz_eqb a' b'
  | _, _ => false
  end.

Fixpoint llz_eqb (a b : list (list Z)) : bool :=
  match a, b with
  | [], [] => true
  | x :: a', y :: b' => lz_eqb x y && llz_eqb a' b'
  | _, _ => false
  end.

Definition check_case (run : ops -> outs) (oracle : ops -> outs -> bool)
           (c : ops * outs) : Z :=
  let '(i, o) := c in
  if oracle i o then (if llz_eqb (run i) o then 0 else 1) else 2.

Fixpoint failures_from (k : Z) (run : ops -> outs) (oracle : ops -> outs -> bool)
         (cs : list (ops * outs)) : list (Z * Z) :=
  match cs with
  | [] => []
  | c :: cs' =>
      let r := check_case run oracle c in
      let rest := failures_from (k + 1) run oracle cs' in
      if Z.eqb r 0 then rest else (k, r) :: rest
  end.

Definition failures := failures_from 0.

(** Output of a case in which the implementation panicked. *)
Definition PANIC : list Z := [-999].

Lemma lz_eqb_eq a b : lz_eqb a b = true <-> a = b.
Proof.
  revert b; induction a as [|x a IH]; intros [|y b]; simpl; split; intro H;
    try reflexivity; try discriminate.
  - apply andb_true_iff in H as [H1 H2]. apply Z.eqb_eq in H1. apply IH in H2. congruence.
  - inversion H; subst. apply andb_true_iff; split; [apply Z.eqb_refl | now apply IH].
Qed.

Lemma llz_eqb_eq a b : llz_eqb a b = true <-> a = b.
Proof.
  revert b; induction a as [|x a IH]; intros [|y b]; simpl; split; intro H;
    try reflexivity; try discriminate.
  - apply andb_true_iff in H as [H1 H2]. apply lz_eqb_eq in H1. apply IH in H2. congruence.
  - inversion H; subst. apply andb_true_iff; split; [now apply lz_eqb_eq | now apply IH].
Qed.
