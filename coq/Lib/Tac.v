(** Common imports and arithmetic set-up for proof files. *)
From Coq Require Export ZArith List Bool Lia ZifyBool ZifyNat ZifyN.
Export ListNotations.
Ltac Zify.zify_post_hook ::= Z.div_mod_to_equations.
Global Arguments N.add : simpl never.
Global Arguments N.sub : simpl never.
Global Arguments N.mul : simpl never.
Global Arguments N.div : simpl never.
Global Arguments N.modulo : simpl never.
Global Arguments N.ltb : simpl never.
Global Arguments N.leb : simpl never.
Global Arguments N.eqb : simpl never.
Global Arguments Z.add : simpl never.
Global Arguments Z.sub : simpl never.
Global Arguments Z.mul : simpl never.
Global Arguments Z.div : simpl never.
Global Arguments Z.modulo : simpl never.
Global Arguments Z.ltb : simpl never.
Global Arguments Z.leb : simpl never.
Global Arguments Z.eqb : simpl never.
Global Arguments Z.pow : simpl never.
