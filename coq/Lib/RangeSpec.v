(** Executable reference specification of a set of integers given as a log of range additions and
    removals, used by the property oracles of the range-set components (definitions only).
    The canonical form is computed by brute force from the log: membership of a point is decided
    by the newest log entry covering it; the listed ranges are the maximal runs of member points
    over the elementary intervals between all endpoints occurring in the log. *)
From Coq Require Import ZArith List Bool.
Import ListNotations.
Open Scope Z_scope.

(** newest entry first; [(true, s, e)] adds [s, e), [(false, s, e)] removes it *)
Definition log := list (bool * Z * Z).

Fixpoint member (l : log) (x : Z) : bool :=
  match l with
  | [] => false
  | (add, s, e) :: r => if (s <=? x) && (x <? e) then add else member r x
  end.

Fixpoint ins_sorted (x : Z) (l : list Z) : list Z :=
  match l with
  | [] => [x]
  | y :: r => if x <? y then x :: l else if x =? y then l else y :: ins_sorted x r
  end.

Fixpoint points (l : log) : list Z :=
  match l with
  | [] => []
  | (_, s, e) :: r => if s <? e then ins_sorted s (ins_sorted e (points r)) else points r
  end.

Fixpoint runs (l : log) (pts : list Z) (open : option Z) : list (Z * Z) :=
  match pts with
  | [] => []
  | p :: r =>
      match open, member l p with
      | None, true => runs l r (Some p)
      | None, false => runs l r None
      | Some a, true => runs l r (Some a)
      | Some a, false => (a, p) :: runs l r None
      end
  end.

Definition canon (l : log) : list (Z * Z) := runs l (points l) None.

(** every integer of the non-empty range [s, e) is in the set *)
Definition contains_range (c : list (Z * Z)) (s e : Z) : bool :=
  existsb (fun '(a, b) => (a <=? s) && (e <=? b)) c.

(** some integer of the non-empty range [s, e) is in the set *)
Definition meets_range (c : list (Z * Z)) (s e : Z) : bool :=
  existsb (fun '(a, b) => (a <? e) && (s <? b)) c.

(** intersections of the canonical ranges with [s, e), ascending *)
Fixpoint intersections (c : list (Z * Z)) (s e : Z) : list (Z * Z) :=
  match c with
  | [] => []
  | (a, b) :: r =>
      if (a <? e) && (s <? b) then (Z.max a s, Z.min b e) :: intersections r s e
      else intersections r s e
  end.

Fixpoint flat (l : list (Z * Z)) : list Z :=
  match l with
  | [] => []
  | (s, e) :: r => s :: e :: flat r
  end.

Definition b2z (b : bool) : Z := if b then 1 else 0.
