(** Model of quinn-proto/src/frame.rs — every frame encoder and the decoder [frame::Iter]
    ([Iter::new], [try_next], [next], [take_len], [scan_ack_blocks], [AckIter]).  Definitions only.

    Rust [u64]/[usize] arithmetic that can overflow, underflow or [unwrap] a failure is written as a
    checked operation whose failure is the explicit outcome [DPanic] / [None]; loops carry fuel and
    running out of it is the distinct outcome [E_FUEL] / [IFuel] (proved unreachable in
    Proofs/FramesProofs.v).  Frame types are varints compared by value, as in Rust. *)
From Coq Require Import ZArith List Bool.
From QV Require Import Lib.Bytes Lib.Corr Model.Varint.
Import ListNotations.
Open Scope Z_scope.

(** * Decoder results *)
Definition E_END : Z := 1.        (* IterErr::UnexpectedEnd  "unexpected end"   *)
Definition E_ID : Z := 2.         (* IterErr::InvalidFrameId "invalid frame ID" *)
Definition E_MALFORMED : Z := 3.  (* IterErr::Malformed      "malformed"        *)
Definition E_FUEL : Z := 99.      (* model artefact: loop fuel exhausted *)

Inductive dres (A : Type) : Type :=
| DOk (a : A) (rest : list Z)
| DErr (e : Z)
| DPanic.
Arguments DOk {A}.
Arguments DErr {A}.
Arguments DPanic {A}.

Definition bind {A B} (p : dres A) (k : A -> list Z -> dres B) : dres B :=
  match p with
  | DOk a r => k a r
  | DErr e => DErr e
  | DPanic => DPanic
  end.

(** * Primitive readers (coding.rs) *)
Definition get_var (bs : list Z) : dres Z :=
  match Varint.decode bs with
  | Some (v, r) => DOk v r
  | None => DErr E_END
  end.

Definition get_u8 (bs : list Z) : dres Z :=
  match bs with
  | [] => DErr E_END
  | b :: r => DOk b r
  end.

(** [remaining() < n] check followed by [copy_to_slice]. *)
Definition get_n (n : nat) (bs : list Z) : dres (list Z) :=
  if Nat.ltb (length bs) n then DErr E_END else DOk (firstn n bs) (skipn n bs).

Definition get_u64 (bs : list Z) : dres Z :=
  bind (get_n 8 bs) (fun b r => DOk (be_val b 0) r).

(** [Iter::take_len] *)
Definition take_len (bs : list Z) : dres (list Z) :=
  bind (get_var bs) (fun len r =>
    if zlen r <? len then DErr E_END
    else DOk (firstn (Z.to_nat len) r) (skipn (Z.to_nat len) r)).

(** Checked [u64] operations. *)
Definition U64_MAX : Z := 2 ^ 64 - 1.
Definition u64_add (a b : Z) : option Z := if U64_MAX <? a + b then None else Some (a + b).
Definition u64_sub (a b : Z) : option Z := if a <? b then None else Some (a - b).

(** * Frames *)
Inductive frame : Type :=
| Padding
| Ping
| Ack (largest delay : Z) (additional : list Z) (ecn : option (Z * Z * Z))
| ResetStream (id code final : Z)
| StopSending (id code : Z)
| Crypto (off : Z) (data : list Z)
| NewToken (token : list Z)
| Stream (id off : Z) (fin : bool) (data : list Z)
| MaxData (v : Z)
| MaxStreamData (id off : Z)
| MaxStreams (uni : bool) (count : Z)
| DataBlocked (off : Z)
| StreamDataBlocked (id off : Z)
| StreamsBlocked (uni : bool) (limit : Z)
| NewConnectionId (seq retire_prior_to : Z) (cid : list Z) (token : list Z)
| RetireConnectionId (seq : Z)
| PathChallenge (v : Z)
| PathResponse (v : Z)
| CloseConn (code fty : Z) (reason : list Z)     (* fty = 0 stands for [frame_type: None] *)
| CloseApp (code : Z) (reason : list Z)
| Datagram (data : list Z)
| AckFrequency (seq threshold max_ack_delay reordering : Z)
| ImmediateAck
| HandshakeDone.

Definition MAX_CID_SIZE : Z := 20.
Definition RESET_TOKEN_SIZE : nat := 16.

(** * scan_ack_blocks *)
(** The [for _ in 0..n] loop; [n] is peer-chosen (up to 2^62), fuel is the buffer length. *)
Fixpoint scan_loop (fuel : nat) (n smallest : Z) (bs : list Z) : dres unit :=
  if n <=? 0 then DOk tt bs
  else
    match fuel with
    | O => DErr E_FUEL
    | S k =>
        bind (get_var bs) (fun gap r1 =>
          match u64_add gap 2 with
          | None => DPanic
          | Some g2 =>
              match u64_sub smallest g2 with
              | None => DErr E_MALFORMED
              | Some s1 =>
                  bind (get_var r1) (fun block r2 =>
                    match u64_sub s1 block with
                    | None => DErr E_MALFORMED
                    | Some s2 => scan_loop k (n - 1) s2 r2
                    end)
              end
          end)
    end.

(** Returns the input after the validated blocks. *)
Definition scan_ack_blocks (bs : list Z) (largest n : Z) : dres unit :=
  bind (get_var bs) (fun first r1 =>
    match u64_sub largest first with
    | None => DErr E_MALFORMED
    | Some smallest => scan_loop (S (length r1)) n smallest r1
    end).

(** * AckIter.  [None] = panic ([unwrap] of a failed read, or subtraction underflow). *)
Inductive ack_res : Type :=
| AOk (ranges : list (Z * Z))
| APanic
| AFuel.

Fixpoint ack_iter (fuel : nat) (largest : Z) (data : list Z) : ack_res :=
  match data with
  | [] => AOk []
  | _ :: _ =>
      match fuel with
      | O => AFuel
      | S k =>
          match get_var data with
          | DOk block d1 =>
              match u64_sub largest block with
              | None => APanic
              | Some lo =>
                  match get_var d1 with
                  | DOk gap d2 =>
                      match u64_add block gap with
                      | None => APanic
                      | Some bg =>
                          match u64_add bg 2 with
                          | None => APanic
                          | Some bg2 =>
                              match u64_sub largest bg2 with
                              | None => APanic
                              | Some l' =>
                                  match ack_iter k l' d2 with
                                  | AOk rs => AOk ((lo, largest) :: rs)
                                  | x => x
                                  end
                              end
                          end
                      end
                  | _ =>
                      (* a failed [get_var] has consumed the first byte, if any *)
                      match ack_iter k largest (tl d1) with
                      | AOk rs => AOk ((lo, largest) :: rs)
                      | x => x
                      end
                  end
              end
          | _ => APanic
          end
      end
  end.

Definition ack_ranges (largest : Z) (additional : list Z) : ack_res :=
  ack_iter (length additional) largest additional.

(** * Iter::try_next *)
Definition body_ack (ty : Z) (r0 : list Z) : dres frame :=
  bind (get_var r0) (fun largest r1 =>
  bind (get_var r1) (fun delay r2 =>
  bind (get_var r2) (fun extra r3 =>
  bind (scan_ack_blocks r3 largest extra) (fun _ r4 =>
    let additional := firstn (length r3 - length r4) r3 in
    if ty =? 3 then
      bind (get_var r4) (fun e0 r5 =>
      bind (get_var r5) (fun e1 r6 =>
      bind (get_var r6) (fun ce r7 =>
        DOk (Ack largest delay additional (Some (e0, e1, ce))) r7)))
    else DOk (Ack largest delay additional None) r4)))).

Definition body_reset (r : list Z) : dres frame :=
  bind (get_var r) (fun id r1 =>
  bind (get_var r1) (fun code r2 =>
  bind (get_var r2) (fun fo r3 => DOk (ResetStream id code fo) r3))).

Definition body_stop (r : list Z) : dres frame :=
  bind (get_var r) (fun id r1 =>
  bind (get_var r1) (fun code r2 => DOk (StopSending id code) r2)).

Definition body_crypto (r : list Z) : dres frame :=
  bind (get_var r) (fun off r1 =>
  bind (take_len r1) (fun d r2 => DOk (Crypto off d) r2)).

Definition body_new_token (r : list Z) : dres frame :=
  bind (take_len r) (fun d r1 => DOk (NewToken d) r1).

Definition bit (ty k : Z) : bool := (ty / k) mod 2 =? 1.

Definition body_stream (ty : Z) (r : list Z) : dres frame :=
  bind (get_var r) (fun id r1 =>
  bind (if bit ty 4 then get_var r1 else DOk 0 r1) (fun off r2 =>
  bind (if bit ty 2 then take_len r2 else DOk r2 []) (fun d r3 =>
    DOk (Stream id off (bit ty 1) d) r3))).

Definition body_datagram (ty : Z) (r : list Z) : dres frame :=
  bind (if bit ty 1 then take_len r else DOk r []) (fun d r1 => DOk (Datagram d) r1).

Definition body_var1 (mk : Z -> frame) (r : list Z) : dres frame :=
  bind (get_var r) (fun v r1 => DOk (mk v) r1).

Definition body_var2 (mk : Z -> Z -> frame) (r : list Z) : dres frame :=
  bind (get_var r) (fun a r1 =>
  bind (get_var r1) (fun b r2 => DOk (mk a b) r2)).

Definition body_new_cid (r : list Z) : dres frame :=
  bind (get_var r) (fun seq r1 =>
  bind (get_var r1) (fun rpt r2 =>
    if seq <? rpt then DErr E_MALFORMED
    else
      bind (get_u8 r2) (fun len r3 =>
        if (MAX_CID_SIZE <? len) || (len =? 0) then DErr E_MALFORMED
        else
          bind (get_n (Z.to_nat len) r3) (fun cid r4 =>
          bind (get_n RESET_TOKEN_SIZE r4) (fun tok r5 =>
            DOk (NewConnectionId seq rpt cid tok) r5))))).

Definition body_u64 (mk : Z -> frame) (r : list Z) : dres frame :=
  bind (get_u64 r) (fun v r1 => DOk (mk v) r1).

Definition body_close_conn (r : list Z) : dres frame :=
  bind (get_var r) (fun code r1 =>
  bind (get_var r1) (fun fty r2 =>
  bind (take_len r2) (fun d r3 => DOk (CloseConn code fty d) r3))).

Definition body_close_app (r : list Z) : dres frame :=
  bind (get_var r) (fun code r1 =>
  bind (take_len r1) (fun d r2 => DOk (CloseApp code d) r2)).

Definition body_ack_freq (r : list Z) : dres frame :=
  bind (get_var r) (fun a r1 =>
  bind (get_var r1) (fun b r2 =>
  bind (get_var r2) (fun c r3 =>
  bind (get_var r3) (fun d r4 => DOk (AckFrequency a b c d) r4)))).

Definition frame_body (ty : Z) (r : list Z) : dres frame :=
  if ty =? 0 then DOk Padding r
  else if ty =? 1 then DOk Ping r
  else if (ty =? 2) || (ty =? 3) then body_ack ty r
  else if ty =? 4 then body_reset r
  else if ty =? 5 then body_stop r
  else if ty =? 6 then body_crypto r
  else if ty =? 7 then body_new_token r
  else if (8 <=? ty) && (ty <=? 15) then body_stream ty r
  else if ty =? 16 then body_var1 MaxData r
  else if ty =? 17 then body_var2 MaxStreamData r
  else if ty =? 18 then body_var1 (MaxStreams false) r
  else if ty =? 19 then body_var1 (MaxStreams true) r
  else if ty =? 20 then body_var1 DataBlocked r
  else if ty =? 21 then body_var2 StreamDataBlocked r
  else if ty =? 22 then body_var1 (StreamsBlocked false) r
  else if ty =? 23 then body_var1 (StreamsBlocked true) r
  else if ty =? 24 then body_new_cid r
  else if ty =? 25 then body_var1 RetireConnectionId r
  else if ty =? 26 then body_u64 PathChallenge r
  else if ty =? 27 then body_u64 PathResponse r
  else if ty =? 28 then body_close_conn r
  else if ty =? 29 then body_close_app r
  else if ty =? 30 then DOk HandshakeDone r
  else if ty =? 31 then DOk ImmediateAck r
  else if (48 <=? ty) && (ty <=? 49) then body_datagram ty r
  else if ty =? 175 then body_ack_freq r
  else DErr E_ID.

Definition try_next (bs : list Z) : dres frame :=
  bind (get_var bs) (fun ty r => frame_body ty r).

(** * Iter (Iterator impl): items until the buffer is empty; an error clears the buffer. *)
Inductive item : Type :=
| IFrame (f : frame)
| IErr (last_ty : option Z) (reason : Z)
| IPanic
| IFuel.

Definition new_last (bs : list Z) (last : option Z) : option Z :=
  match get_var bs with
  | DOk ty _ => Some ty
  | _ => last
  end.

Fixpoint iter_all (fuel : nat) (bs : list Z) (last : option Z) : list item :=
  match bs with
  | [] => []
  | _ :: _ =>
      match fuel with
      | O => [IFuel]
      | S k =>
          match try_next bs with
          | DOk f r => IFrame f :: iter_all k r (new_last bs last)
          | DErr e => [IErr (new_last bs last) e]
          | DPanic => [IPanic]
          end
      end
  end.

(** [Iter::new(payload)] then collect; [None] = PROTOCOL_VIOLATION("packet payload is empty"). *)
Definition iter (bs : list Z) : option (list item) :=
  match bs with
  | [] => None
  | _ => Some (iter_all (length bs) bs None)
  end.

(** * Encoders.  [None] = the Rust code panics ([VarInt::from_u64(..).unwrap()], underflow, slice
    index out of range). *)
Definition wv (x : Z) : option (list Z) := Varint.encode x.

Fixpoint ocat (l : list (option (list Z))) : option (list Z) :=
  match l with
  | [] => Some []
  | None :: _ => None
  | Some a :: tl =>
      match ocat tl with
      | Some b => Some (a ++ b)
      | None => None
      end
  end.

(** [buf.write_var(data.len())] then the bytes. *)
Definition wlen_bytes (d : list Z) : option (list Z) := ocat [wv (zlen d); Some d].

(** Ranges below the first one, descending; [prev] = start of the range above. *)
Fixpoint enc_blocks (prev : Z) (rest : list (Z * Z)) : option (list Z) :=
  match rest with
  | [] => Some []
  | (s, e) :: tl => ocat [wv (prev - e - 1); wv (e - s - 1); enc_blocks s tl]
  end.

(** [Ack::encode(delay, ranges, ecn)]; [rs] is [ranges.iter()] (ascending, half-open). *)
Definition encode_ack (delay : Z) (rs : list (Z * Z)) (ecn : option (Z * Z * Z)) : option (list Z) :=
  match rev rs with
  | [] => None
  | (s, e) :: rest =>
      ocat [wv (match ecn with Some _ => 3 | None => 2 end);
            wv (e - 1); wv delay; wv (Z.of_nat (length rs) - 1); wv (e - s - 1);
            enc_blocks s rest;
            match ecn with
            | Some (a, b, c) => ocat [wv a; wv b; wv c]
            | None => Some []
            end]
  end.

Definition b2z (b : bool) : Z := if b then 1 else 0.

(** [ConnectionClose::encode] / [ApplicationClose::encode] with the reason truncated to fit
    [max_len]: the budget for the reason is [max_len - 1 - extra - size(reason.len())] where
    [extra] is the size of the error code (plus the size of the frame-type varint for
    CONNECTION_CLOSE); each subtraction is a checked [usize] subtraction.
    (Before the repair of the defect reported for C10 the encoder reserved a constant 3 bytes for
    type and error code, so that a 4- or 8-byte application error code overran [max_len].) *)
Definition close_reason_len (max_len extra reason_len : Z) : option Z :=
  match Varint.size reason_len with
  | None => None
  | Some sl =>
      match u64_sub max_len 1 with
      | None => None
      | Some m1 =>
          match u64_sub m1 extra with
          | None => None
          | Some m2 =>
              match u64_sub m2 sl with
              | None => None
              | Some m3 => Some (Z.min reason_len m3)
              end
          end
      end
  end.

Definition u64_bytes (v : Z) : option (list Z) :=
  if (0 <=? v) && (v <=? U64_MAX) then Some (be_bytes 8 v) else None.

(** [withlen]: the [length] argument of [StreamMeta::encode] / [Datagram::encode];
    [max_len]: the argument of [Close::encode]. *)
Definition encode_frame (withlen : bool) (max_len : Z) (f : frame) : option (list Z) :=
  match f with
  | Padding => wv 0
  | Ping => wv 1
  | Ack _ _ _ _ => None  (* encoded from a range set: [encode_ack] *)
  | ResetStream id c fo => ocat [wv 4; wv id; wv c; wv fo]
  | StopSending id c => ocat [wv 5; wv id; wv c]
  | Crypto off d => ocat [wv 6; wv off; wlen_bytes d]
  | NewToken d => ocat [wv 7; wlen_bytes d]
  | Stream id off fin d =>
      ocat [wv (8 + (if off =? 0 then 0 else 4) + (if withlen then 2 else 0) + b2z fin);
            wv id;
            if off =? 0 then Some [] else wv off;
            if withlen then wlen_bytes d else Some d]
  | MaxData v => ocat [wv 16; wv v]
  | MaxStreamData id off => ocat [wv 17; wv id; wv off]
  | MaxStreams uni c => ocat [wv (18 + b2z uni); wv c]
  | DataBlocked off => ocat [wv 20; wv off]
  | StreamDataBlocked id off => ocat [wv 21; wv id; wv off]
  | StreamsBlocked uni l => ocat [wv (22 + b2z uni); wv l]
  | NewConnectionId seq rpt cid tok =>
      if (MAX_CID_SIZE <? zlen cid) || negb (Nat.eqb (length tok) RESET_TOKEN_SIZE) then None
      else ocat [wv 24; wv seq; wv rpt; Some [zlen cid]; Some cid; Some tok]
  | RetireConnectionId seq => ocat [wv 25; wv seq]
  | PathChallenge v => ocat [wv 26; u64_bytes v]
  | PathResponse v => ocat [wv 27; u64_bytes v]
  | CloseConn code fty reason =>
      match Varint.size code, Varint.size fty with
      | Some sc, Some sf =>
          match close_reason_len max_len (sc + sf) (zlen reason) with
          | None => None
          | Some n => ocat [wv 28; wv code; wv fty; wv n; Some (firstn (Z.to_nat n) reason)]
          end
      | _, _ => None
      end
  | CloseApp code reason =>
      match Varint.size code with
      | Some sc =>
          match close_reason_len max_len sc (zlen reason) with
          | None => None
          | Some n => ocat [wv 29; wv code; wv n; Some (firstn (Z.to_nat n) reason)]
          end
      | None => None
      end
  | Datagram d => ocat [wv (48 + b2z withlen); if withlen then wlen_bytes d else Some d]
  | AckFrequency a b c d => ocat [wv 175; wv a; wv b; wv c; wv d]
  | ImmediateAck => wv 31
  | HandshakeDone => wv 30
  end.

(** * Well-formedness of frame values (what the encoders' callers establish). *)
Definition in62 (x : Z) : bool := (0 <=? x) && (x <? 2 ^ 62).

Definition wf_frame (f : frame) : bool :=
  match f with
  | Padding | Ping | ImmediateAck | HandshakeDone => true
  | Ack _ _ _ _ => false
  | ResetStream id c fo => in62 id && in62 c && in62 fo
  | StopSending id c => in62 id && in62 c
  | Crypto off d => in62 off && in62 (zlen d)
  | NewToken d => in62 (zlen d)
  | Stream id off _ d => in62 id && in62 off && in62 (zlen d)
  | MaxData v | DataBlocked v | RetireConnectionId v => in62 v
  | MaxStreamData a b | StreamDataBlocked a b => in62 a && in62 b
  | MaxStreams _ c | StreamsBlocked _ c => in62 c
  | NewConnectionId seq rpt cid tok =>
      in62 seq && in62 rpt && (rpt <=? seq) && (1 <=? zlen cid) && (zlen cid <=? MAX_CID_SIZE)
      && Nat.eqb (length tok) RESET_TOKEN_SIZE
  | PathChallenge v | PathResponse v => (0 <=? v) && (v <=? U64_MAX)
  | CloseConn code fty reason => in62 code && in62 fty && in62 (zlen reason)
  | CloseApp code reason => in62 code && in62 (zlen reason)
  | Datagram d => in62 (zlen d)
  | AckFrequency a b c d => in62 a && in62 b && in62 c && in62 d
  end.

(** Frames whose encoding is not self-delimiting extend to the end of the packet: decoding
    [enc f ++ r] yields [absorb f r]. *)
Definition self_delimiting (withlen : bool) (f : frame) : bool :=
  match f with
  | Stream _ _ _ _ | Datagram _ => withlen
  | _ => true
  end.

Definition absorb (withlen : bool) (f : frame) (r : list Z) : frame :=
  if withlen then f
  else
    match f with
    | Stream id off fin d => Stream id off fin (d ++ r)
    | Datagram d => Datagram (d ++ r)
    | _ => f
    end.

Definition is_close (f : frame) : bool :=
  match f with CloseConn _ _ _ | CloseApp _ _ => true | _ => false end.

Definition close_reason (f : frame) : list Z :=
  match f with CloseConn _ _ r | CloseApp _ r => r | _ => [] end.

(** What [Close::encode(max_len)] keeps of the frame. *)
Definition truncate_close (n : Z) (f : frame) : frame :=
  match f with
  | CloseConn code fty reason => CloseConn code fty (firstn (Z.to_nat n) reason)
  | CloseApp code reason => CloseApp code (firstn (Z.to_nat n) reason)
  | _ => f
  end.

(** Range lists as held by an [ArrayRangeSet]: ascending, half-open, non-empty, non-adjacent.
    Stated on the descending (reversed) list, the order [Ack::encode] walks it. *)
Fixpoint wf_desc (prev : Z) (rest : list (Z * Z)) : bool :=
  match rest with
  | [] => true
  | (s, e) :: tl => (0 <=? s) && (s <? e) && (e <? prev) && wf_desc s tl
  end.

Definition wf_ranges (rs : list (Z * Z)) : bool :=
  match rev rs with
  | [] => false
  | (s, e) :: rest => (0 <=? s) && (s <? e) && (e <=? 2 ^ 62) && wf_desc s rest
  end.

(** The same, on the ascending list (the check the hook performs through [ArrayRangeSet]). *)
Fixpoint sorted_asc (lo : Z) (rs : list (Z * Z)) : bool :=
  match rs with
  | [] => true
  | (s, e) :: tl => (lo <=? s) && (s <? e) && sorted_asc (e + 1) tl
  end.

Definition incl_range (r : Z * Z) : Z * Z := (fst r, snd r - 1).

Definition wf_ecn (ecn : option (Z * Z * Z)) : bool :=
  match ecn with
  | Some (a, b, c) => in62 a && in62 b && in62 c
  | None => true
  end.

(** The three [IterErr]s. *)
Definition is_err (e : Z) : Prop := e = E_END \/ e = E_ID \/ e = E_MALFORMED.

(** An inclusive range below [bound] with a gap: [0 <= lo <= hi] and [hi + 1 < bound]. *)
Definition range_ok (bound : Z) (p : Z * Z) : Prop := 0 <= fst p <= snd p /\ snd p + 1 < bound.

(** Concatenated encodings (STREAM / DATAGRAM with length). *)
Fixpoint encode_all (max_len : Z) (fs : list frame) : option (list Z) :=
  match fs with
  | [] => Some []
  | f :: tl =>
      match encode_frame true max_len f, encode_all max_len tl with
      | Some a, Some b => Some (a ++ b)
      | _, _ => None
      end
  end.

(** * Integer interface shared with the hook [verif_hooks::frames] *)
Definition lbytes (d : list Z) : list Z := zlen d :: d.

Fixpoint flat_ranges (rs : list (Z * Z)) : list Z :=
  match rs with
  | [] => []
  | (a, b) :: tl => a :: b :: flat_ranges tl
  end.

(** [None] = [AckIter] panicked. *)
Definition render (f : frame) : option (list Z) :=
  match f with
  | Padding => Some [0]
  | Ping => Some [1]
  | Ack largest delay additional ecn =>
      match ack_ranges largest additional with
      | AOk rs =>
          Some ([2; largest; delay]
                  ++ match ecn with Some (a, b, c) => [1; a; b; c] | None => [0; 0; 0; 0] end
                  ++ lbytes additional ++ [Z.of_nat (length rs)] ++ flat_ranges rs)
      | _ => None
      end
  | ResetStream id c fo => Some [4; id; c; fo]
  | StopSending id c => Some [5; id; c]
  | Crypto off d => Some (6 :: off :: lbytes d)
  | NewToken d => Some (7 :: lbytes d)
  | Stream id off fin d => Some (8 :: id :: off :: b2z fin :: lbytes d)
  | MaxData v => Some [16; v]
  | MaxStreamData id off => Some [17; id; off]
  | MaxStreams uni c => Some [18; b2z uni; c]
  | DataBlocked off => Some [20; off]
  | StreamDataBlocked id off => Some [21; id; off]
  | StreamsBlocked uni l => Some [22; b2z uni; l]
  | NewConnectionId seq rpt cid tok => Some (24 :: seq :: rpt :: lbytes cid ++ tok)
  | RetireConnectionId seq => Some [25; seq]
  | PathChallenge v => Some [26; v]
  | PathResponse v => Some [27; v]
  | CloseConn code fty reason => Some (28 :: code :: fty :: lbytes reason)
  | CloseApp code reason => Some (29 :: code :: lbytes reason)
  | Datagram d => Some (48 :: lbytes d)
  | AckFrequency a b c d => Some [175; a; b; c; d]
  | ImmediateAck => Some [31]
  | HandshakeDone => Some [30]
  end.

Fixpoint render_items (l : list item) : option (list Z) :=
  match l with
  | [] => Some []
  | IFrame f :: tl =>
      match render f, render_items tl with
      | Some a, Some b => Some (a ++ b)
      | _, _ => None
      end
  | IErr last e :: tl =>
      match render_items tl with
      | Some b => Some ([-1; e; match last with Some t => t | None => -1 end] ++ b)
      | None => None
      end
  | IPanic :: _ => None
  | IFuel :: _ => Some [-2]
  end.

(** Output of op 1 (decode); [None] = panic. *)
Definition decode_out (bs : list Z) : option (list Z) :=
  match iter bs with
  | None => Some [1]
  | Some items =>
      match render_items items with
      | Some o => Some (0 :: o)
      | None => None
      end
  end.

(** Parsing a frame description. *)
Definition split_l (l : list Z) : option (list Z * list Z) :=
  match l with
  | [] => None
  | n :: tl =>
      if (n <? 0) || (zlen tl <? n) then None
      else Some (firstn (Z.to_nat n) tl, skipn (Z.to_nat n) tl)
  end.

Fixpoint parse_ranges (l : list Z) : option (list (Z * Z)) :=
  match l with
  | [] => Some []
  | s :: e :: tl =>
      match parse_ranges tl with
      | Some rs => Some ((s, e) :: rs)
      | None => None
      end
  | _ => None
  end.

(** What to encode: a frame, or an ACK (delay, ranges, ecn). *)
Inductive desc : Type :=
| DFrame (f : frame)
| DAck (delay : Z) (rs : list (Z * Z)) (ecn : option (Z * Z * Z)).

Definition zb (x : Z) : bool := negb (x =? 0).

Definition parse_desc (d : list Z) : option desc :=
  match d with
  | [0] => Some (DFrame Padding)
  | [1] => Some (DFrame Ping)
  | [30] => Some (DFrame HandshakeDone)
  | [31] => Some (DFrame ImmediateAck)
  | 2 :: delay :: has_ecn :: a :: b :: c :: n :: tl =>
      match parse_ranges tl with
      | Some rs =>
          if (Z.of_nat (length rs) =? n) && sorted_asc 0 rs
          then Some (DAck delay rs (if zb has_ecn then Some (a, b, c) else None))
          else None
      | None => None
      end
  | [4; id; c; fo] => Some (DFrame (ResetStream id c fo))
  | [5; id; c] => Some (DFrame (StopSending id c))
  | 6 :: off :: tl =>
      match split_l tl with Some (d, []) => Some (DFrame (Crypto off d)) | _ => None end
  | 7 :: tl =>
      match split_l tl with Some (d, []) => Some (DFrame (NewToken d)) | _ => None end
  | 8 :: id :: off :: fin :: tl =>
      match split_l tl with Some (d, []) => Some (DFrame (Stream id off (zb fin) d)) | _ => None end
  | [16; v] => Some (DFrame (MaxData v))
  | [17; id; off] => Some (DFrame (MaxStreamData id off))
  | [18; dir; c] => Some (DFrame (MaxStreams (zb dir) c))
  | [20; off] => Some (DFrame (DataBlocked off))
  | [21; id; off] => Some (DFrame (StreamDataBlocked id off))
  | [22; dir; l] => Some (DFrame (StreamsBlocked (zb dir) l))
  | 24 :: seq :: rpt :: tl =>
      match split_l tl with
      | Some (cid, tok) =>
          if Nat.eqb (length tok) RESET_TOKEN_SIZE then Some (DFrame (NewConnectionId seq rpt cid tok))
          else None
      | None => None
      end
  | [25; seq] => Some (DFrame (RetireConnectionId seq))
  | [26; v] => Some (DFrame (PathChallenge v))
  | [27; v] => Some (DFrame (PathResponse v))
  | 28 :: code :: fty :: tl =>
      match split_l tl with Some (d, []) => Some (DFrame (CloseConn code fty d)) | _ => None end
  | 29 :: code :: tl =>
      match split_l tl with Some (d, []) => Some (DFrame (CloseApp code d)) | _ => None end
  | 48 :: tl =>
      match split_l tl with Some (d, []) => Some (DFrame (Datagram d)) | _ => None end
  | [175; a; b; c; d] => Some (DFrame (AckFrequency a b c d))
  | _ => None
  end.

Definition encode_desc (withlen : bool) (max_len : Z) (d : desc) : option (list Z) :=
  match d with
  | DFrame f => encode_frame withlen max_len f
  | DAck delay rs ecn => encode_ack delay rs ecn
  end.

(** One op; outer [None] = the implementation panics. *)
Definition step (op : list Z) : option (list Z) :=
  match op with
  | 0 :: withlen :: max_len :: d =>
      match parse_desc d with
      | None => Some [-1]
      | Some ds =>
          match encode_desc (zb withlen) max_len ds with
          | Some b => Some (0 :: b)
          | None => None
          end
      end
  | 1 :: bs => decode_out bs
  | 2 :: withlen :: max_len :: d =>
      match parse_desc d with
      | None => Some [-1]
      | Some ds =>
          match encode_desc (zb withlen) max_len ds with
          | Some b => decode_out b
          | None => None
          end
      end
  | _ => Some [-1]
  end.

Fixpoint run_steps (i : ops) : option outs :=
  match i with
  | [] => Some []
  | op :: tl =>
      match step op, run_steps tl with
      | Some o, Some os => Some (o :: os)
      | _, _ => None
      end
  end.

Definition run (i : ops) : outs :=
  match run_steps i with
  | Some o => o
  | None => [PANIC]
  end.

(** * Property oracle on the implementation's outputs.
    op 2 (encode then decode with the real code): the decoded description equals the description
    that was encoded (for frames that extend to the end of the packet there is nothing after them
    here; CLOSE reasons may be truncated to a prefix; for ACK the ranges iterated are the ranges
    encoded, highest first, inclusive).
    op 0 (encode): the model decoder reads the implementation's bytes back to the same frame. *)
Definition expect_roundtrip (ds : desc) (out : list Z) : bool :=
  match ds with
  | DFrame (CloseConn code fty reason) =>
      match out with
      | 0 :: 28 :: c :: f :: tl =>
          match split_l tl with
          | Some (d, []) =>
              (c =? code) && (f =? fty) && lz_eqb d (firstn (length d) reason)
          | _ => false
          end
      | _ => false
      end
  | DFrame (CloseApp code reason) =>
      match out with
      | 0 :: 29 :: c :: tl =>
          match split_l tl with
          | Some (d, []) => (c =? code) && lz_eqb d (firstn (length d) reason)
          | _ => false
          end
      | _ => false
      end
  | DFrame f =>
      match render f with
      | Some o => lz_eqb out (0 :: o)
      | None => false
      end
  | DAck delay rs ecn =>
      match rev rs, out with
      | (_, e) :: _, 0 :: 2 :: largest :: delay' :: he :: a :: b :: c :: tl =>
          match split_l tl with
          | Some (_, n :: flat) =>
              (largest =? e - 1) && (delay' =? delay)
              && lz_eqb [he; a; b; c]
                   (match ecn with Some (x, y, z) => [1; x; y; z] | None => [0; 0; 0; 0] end)
              && (n =? Z.of_nat (length rs))
              && lz_eqb flat (flat_ranges (map incl_range (rev rs)))
          | _ => false
          end
      | _, _ => false
      end
  end.

Definition wf_desc_enc (ds : desc) : bool :=
  match ds with
  | DFrame f => wf_frame f
  | DAck delay rs (Some (a, b, c)) => in62 delay && wf_ranges rs && in62 a && in62 b && in62 c
  | DAck delay rs None => in62 delay && wf_ranges rs
  end.

(** [max_len] covers what [Close::encode] reserves (otherwise its subtraction underflows). *)
Definition close_fits (max_len : Z) (ds : desc) : bool :=
  match ds with
  | DFrame (CloseConn code fty reason) =>
      match Varint.size code, Varint.size fty, Varint.size (zlen reason) with
      | Some sc, Some sf, Some sl => (1 + sc + sf + sl <=? max_len) && (max_len <=? U64_MAX)
      | _, _, _ => false
      end
  | DFrame (CloseApp code reason) =>
      match Varint.size code, Varint.size (zlen reason) with
      | Some sc, Some sl => (1 + sc + sl <=? max_len) && (max_len <=? U64_MAX)
      | _, _ => false
      end
  | _ => true
  end.

(** The encoded CLOSE frame never exceeds [max_len]. *)
Definition close_len_ok (max_len : Z) (ds : desc) (b : list Z) : bool :=
  match ds with
  | DFrame (CloseConn _ _ _) | DFrame (CloseApp _ _) => zlen b <=? max_len
  | _ => true
  end.

Definition oracle_step (op out : list Z) : bool :=
  match op with
  | 2 :: withlen :: max_len :: d =>
      match parse_desc d with
      | Some ds =>
          if wf_desc_enc ds && close_fits max_len ds then expect_roundtrip ds out else true
      | None => true
      end
  | 0 :: withlen :: max_len :: d =>
      match parse_desc d with
      | Some ds =>
          if wf_desc_enc ds && close_fits max_len ds then
            match out with
            | 0 :: b =>
                match decode_out b with
                | Some o => expect_roundtrip ds o && close_len_ok max_len ds b
                | None => false
                end
            | _ => false
            end
          else true
      | None => true
      end
  | _ => true
  end.

Fixpoint oracle_list (i : ops) (o : outs) : bool :=
  match i, o with
  | [], [] => true
  | a :: i', b :: o' => oracle_step a b && oracle_list i' o'
  | _, _ => false
  end.

(** A panicking case ([PANIC]) is acceptable only if the model also predicts a panic for it; that
    comparison is the model-equality check, so the oracle itself only rejects a panic when every
    op of the case is a well-formed encode/decode (for which the theorems exclude panics). *)
Definition op_must_not_panic (op : list Z) : bool :=
  match op with
  | 1 :: _ => true
  | 0 :: _ :: max_len :: d | 2 :: _ :: max_len :: d =>
      match parse_desc d with
      | Some ds => wf_desc_enc ds && close_fits max_len ds
      | None => true
      end
  | _ => true
  end.

Definition oracle (i : ops) (o : outs) : bool :=
  match o with
  | [[-999]] => negb (forallb op_must_not_panic i)
  | _ => oracle_list i o
  end.
