(** Minimal model of [ArrayRangeSet] (quinn-proto/src/range_set/array_range_set.rs) — the part
    [PendingAcks] uses.  Definitions only.

    A set of [u64] as an ascending list of half-open ranges [(start, end)], pairwise disjoint and
    non-adjacent.  The functions follow the Rust algorithms step by step ([partition_point] on a
    sorted array = skip the leading ranges satisfying the predicate). *)
From Coq Require Import ZArith List Bool.
Import ListNotations.
Open Scope Z_scope.

Definition rng := (Z * Z)%type.
Definition t := list rng.

(** merge follow-up ranges overlapping or touching the current range [(a, e)] *)
Fixpoint merge (a e : Z) (l : t) : t :=
  match l with
  | [] => [(a, e)]
  | (c, d) :: r => if c <=? e then merge a (Z.max d e) r else (a, e) :: l
  end.

(** [insert(s..e)] *)
Fixpoint insert_range (l : t) (s e : Z) : t :=
  match l with
  | [] => [(s, e)]
  | (a, b) :: r =>
      if b <? s then (a, b) :: insert_range r s e
      else if e <? a then (s, e) :: l
      else
        let a' := if s <? a then s else a in
        if e <=? b then (a', b) :: r
        else merge a' e r
  end.

Definition insert (l : t) (s e : Z) : t := if e <=? s then l else insert_range l s e.

(** [remove(s..e)]: the loop starting at the first range that might overlap *)
Fixpoint remove_loop (l : t) (s e : Z) : t :=
  match l with
  | [] => []
  | (a, b) :: r =>
      if e <=? a then l
      else
        let left_empty := s <=? a in
        let right_empty := b <=? e in
        if left_empty && right_empty then remove_loop r s e
        else if left_empty then (e, b) :: remove_loop r s e
        else if right_empty then (a, s) :: remove_loop r s e
        else (a, s) :: (e, b) :: remove_loop r s e
  end.

Fixpoint remove_range (l : t) (s e : Z) : t :=
  match l with
  | [] => []
  | (a, b) :: r => if b <=? s then (a, b) :: remove_range r s e else remove_loop l s e
  end.

Definition remove (l : t) (s e : Z) : t := if e <=? s then l else remove_range l s e.

Definition pop_min (l : t) : t := tl l.

Definition mem (l : t) (x : Z) : bool := existsb (fun r => (fst r <=? x) && (x <? snd r)) l.

Fixpoint flatten (l : t) : list Z :=
  match l with [] => [] | (a, b) :: r => a :: b :: flatten r end.
