(** Model of [TokenMemoryCache] (quinn-proto/src/token_memory_cache.rs) — definitions only.

    The cache is an LRU ([LruSlab], every [get_mut] freshens) of per-server FIFO queues:
    [store] pushes at the back (dropping the FRONT when the queue is full), [take] pops the FRONT
    (the oldest token) and removes the entry when its queue becomes empty.  The model keeps the
    entries as a list ordered from most to least recently used.  [take]'s
    [pop_front().unwrap()] on an empty queue is a panic ([None]). *)
From Coq Require Import ZArith List Bool.
From QV Require Import Lib.Corr.
Import ListNotations.
Open Scope Z_scope.

Definition entry := (Z * list Z)%type.          (* server name, token queue (front first) *)

Record t := mk { max_names : Z; max_tokens : Z; lru : list entry }.   (* head = most recently used *)

Definition init (mn mt : Z) : t := mk mn mt [].

Definition zlen {A} (l : list A) : Z := Z.of_nat (length l).

(** remove the entry of [name]; returns its queue and the other entries in order *)
Fixpoint extract (name : Z) (l : list entry) : option (list Z * list entry) :=
  match l with
  | [] => None
  | (n, q) :: l' =>
      if Z.eqb n name then Some (q, l')
      else match extract name l' with
           | Some (q', r) => Some (q', (n, q) :: r)
           | None => None
           end
  end.

Definition store (s : t) (name tok : Z) : t :=
  if max_names s =? 0 then s
  else if max_tokens s =? 0 then s
  else
    match extract name (lru s) with
    | Some (q, rest) =>
        let q' := if max_tokens s <=? zlen q then tl q else q in
        mk (max_names s) (max_tokens s) ((name, q' ++ [tok]) :: rest)
    | None =>
        let base := if max_names s <=? zlen (lru s) then removelast (lru s) else lru s in
        mk (max_names s) (max_tokens s) ((name, [tok]) :: base)
    end.

(** [None] = panic; [Some (s', result)] *)
Definition take (s : t) (name : Z) : option (t * option Z) :=
  match extract name (lru s) with
  | None => Some (s, None)
  | Some ([], _) => None
  | Some (tok :: q', rest) =>
      match q' with
      | [] => Some (mk (max_names s) (max_tokens s) rest, Some tok)
      | _ => Some (mk (max_names s) (max_tokens s) ((name, q') :: rest), Some tok)
      end
  end.

Definition step (s : t) (op : list Z) : option (t * list Z) :=
  match op with
  | [1; name; tok] => Some (store s name tok, [0])
  | [2; name] =>
      match take s name with
      | Some (s', None) => Some (s', [0])
      | Some (s', Some tok) => Some (s', [1; tok])
      | None => None
      end
  | _ => Some (s, [-1])
  end.

Fixpoint run_from (s : t) (i : ops) : option outs :=
  match i with
  | [] => Some []
  | op :: i' =>
      match step s op with
      | Some (s', o) =>
          match run_from s' i' with
          | Some os => Some (o :: os)
          | None => None
          end
      | None => None
      end
  end.

(** Without a configuration op the case runs on [TokenMemoryCache::new(0, 0)] (as the hook does). *)
Definition run (i : ops) : outs :=
  match i with
  | [0; mn; mt] :: i' =>
      match run_from (init mn mt) i' with
      | Some o => [0] :: o
      | None => [PANIC]
      end
  | _ =>
      match run_from (init 0 0) i with
      | Some o => o
      | None => [PANIC]
      end
  end.

(** Oracle on the implementation's outputs: every token returned by [take server] was inserted
    earlier under that server name and has not been handed out since (multiset inclusion);
    nothing is ever returned when a capacity is zero; at most [max_tokens_per_server] tokens
    come out of one server between two insertions for it. *)
Fixpoint remove1 (name tok : Z) (l : list (Z * Z)) : option (list (Z * Z)) :=
  match l with
  | [] => None
  | (n, t) :: l' =>
      if Z.eqb n name && Z.eqb t tok then Some l'
      else match remove1 name tok l' with
           | Some r => Some ((n, t) :: r)
           | None => None
           end
  end.

Fixpoint oracle_from (zero : bool) (avail : list (Z * Z)) (i : ops) (o : outs) : bool :=
  match i, o with
  | [], [] => true
  | op :: i', out :: o' =>
      match op, out with
      | [1; name; tok], [0] => oracle_from zero ((name, tok) :: avail) i' o'
      | [2; name], [0] => oracle_from zero avail i' o'
      | [2; name], [1; tok] =>
          if zero then false
          else match remove1 name tok avail with
               | Some avail' => oracle_from zero avail' i' o'
               | None => false
               end
      | 1 :: _, _ => false
      | 2 :: _, _ => false
      | _, _ => oracle_from zero avail i' o'
      end
  | _, _ => false
  end.

Definition oracle (i : ops) (o : outs) : bool :=
  match i, o with
  | _, [[-999]] => false
  | [0; mn; mt] :: i', [0] :: o' => oracle_from ((mn =? 0) || (mt =? 0)) [] i' o'
  | _, _ => oracle_from true [] i o
  end.
