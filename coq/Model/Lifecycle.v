(** Model of the connection lifecycle of quinn-proto/src/connection/mod.rs — definitions only.

    What is modelled (names of the Rust items in brackets):
      [State]  Handshake | Established | Closed(reason) | Draining | Drained
      [close]  "a CONNECTION_CLOSE packet is still owed"                    (bool)
      [error]  reason waiting to be reported by [poll] (taken by [error.take()])
      [endpoint_events]  only [Drained] matters: number of queued Drained events
      [timers] Close / Idle / KeepAlive as [option Z] deadlines in microseconds
      [permit_idle_reset], [idle_timeout] (negotiated, microseconds), the local configuration
      ([max_idle_timeout] in ms, [keep_alive_interval] in us).
    Everything the lifecycle depends on but that lives elsewhere (RTT estimator -> PTO, which
    spaces have keys, anti-amplification, congestion/pacing gate, whether other events are queued,
    what a received packet turned out to be) is an INPUT of the operation: the theorems quantify
    over all of it.  Times are arbitrary integers supplied with the operations.

    Not modelled: the LossDetection / KeyDiscard / PathValidation / Pacing / PushNewCid /
    MaxAckDelay timers ([close_common] stops all nine, but code that is not lifecycle code can
    re-arm those afterwards), stream and datagram events (the [other] flag of [OpPoll]). *)
From Coq Require Import ZArith List Bool.
From QV Require Import Lib.Corr.
Import ListNotations.
Open Scope Z_scope.

(** TransportErrorCode values the lifecycle code mentions (transport_error.rs); pinned to the
    compiled crate by op 1 of the [idle_negotiate] hook. *)
Definition NO_ERROR : Z := 0.
Definition APPLICATION_ERROR : Z := 12.
Definition AEAD_LIMIT_REACHED : Z := 15.

(** [ConnectionError] as far as packet processing / timers can produce it. *)
Inductive reason :=
| RVersionMismatch
| RTransport (code : Z)          (* TransportError detected locally *)
| RConnClosed (code : Z)         (* peer sent CONNECTION_CLOSE (transport) *)
| RAppClosed (code : Z)          (* peer sent CONNECTION_CLOSE (application) *)
| RReset
| RTimedOut.

(** [frame::Close] stored in [State::Closed]. *)
Inductive close_reason :=
| CApp (code : Z)                (* Close::Application: the local application's close() *)
| CTransport (code : Z).         (* Close::Connection: a transport error we detected *)

Inductive cstate := Handshake | Established | Closed (r : close_reason) | Draining | Drained.

Definition is_closed (c : cstate) : bool :=
  match c with Closed _ | Draining | Drained => true | _ => false end.
Definition is_drained (c : cstate) : bool := match c with Drained => true | _ => false end.
Definition is_established (c : cstate) : bool := match c with Established => true | _ => false end.
Definition is_handshake (c : cstate) : bool := match c with Handshake => true | _ => false end.
Definition is_closing (c : cstate) : bool :=
  match c with Closed _ | Draining => true | _ => false end.

Record state := {
  st : cstate;
  close : bool;
  error : option reason;
  epq : Z;                         (* queued EndpointEventInner::Drained *)
  t_close : option Z;
  t_idle : option Z;
  t_ka : option Z;
  permit_idle_reset : bool;
  idle_timeout : option Z;         (* us *)
  cfg_idle : option Z;             (* TransportConfig::max_idle_timeout, ms; None / 0 = absent *)
  cfg_ka : option Z;               (* TransportConfig::keep_alive_interval, us *)
}.

(** * negotiate_max_idle_timeout (milliseconds in, microseconds out) *)
Definition absent (x : option Z) : bool :=
  match x with None => true | Some v => v =? 0 end.
Definition negotiate (x y : option Z) : option Z :=
  match x, y with
  | Some a, Some b =>
      if a =? 0 then (if b =? 0 then None else Some (1000 * b))
      else if b =? 0 then Some (1000 * a) else Some (1000 * Z.min a b)
  | Some a, None => if a =? 0 then None else Some (1000 * a)
  | None, Some b => if b =? 0 then None else Some (1000 * b)
  | None, None => None
  end.

(** [Connection::new] *)
Definition init (idle_ms ka_us : option Z) : state :=
  {| st := Handshake; close := false; error := None; epq := 0;
     t_close := None; t_idle := None; t_ka := None; permit_idle_reset := true;
     idle_timeout := negotiate idle_ms None;
     cfg_idle := idle_ms; cfg_ka := ka_us |}.

(** * field updates *)
Definition set_st (s : state) (c : cstate) : state :=
  {| st := c; close := close s; error := error s; epq := epq s; t_close := t_close s;
     t_idle := t_idle s; t_ka := t_ka s; permit_idle_reset := permit_idle_reset s;
     idle_timeout := idle_timeout s; cfg_idle := cfg_idle s; cfg_ka := cfg_ka s |}.
Definition set_close (s : state) (b : bool) : state :=
  {| st := st s; close := b; error := error s; epq := epq s; t_close := t_close s;
     t_idle := t_idle s; t_ka := t_ka s; permit_idle_reset := permit_idle_reset s;
     idle_timeout := idle_timeout s; cfg_idle := cfg_idle s; cfg_ka := cfg_ka s |}.
Definition set_error (s : state) (e : option reason) : state :=
  {| st := st s; close := close s; error := e; epq := epq s; t_close := t_close s;
     t_idle := t_idle s; t_ka := t_ka s; permit_idle_reset := permit_idle_reset s;
     idle_timeout := idle_timeout s; cfg_idle := cfg_idle s; cfg_ka := cfg_ka s |}.
Definition set_epq (s : state) (n : Z) : state :=
  {| st := st s; close := close s; error := error s; epq := n; t_close := t_close s;
     t_idle := t_idle s; t_ka := t_ka s; permit_idle_reset := permit_idle_reset s;
     idle_timeout := idle_timeout s; cfg_idle := cfg_idle s; cfg_ka := cfg_ka s |}.
Definition set_t_close (s : state) (t : option Z) : state :=
  {| st := st s; close := close s; error := error s; epq := epq s; t_close := t;
     t_idle := t_idle s; t_ka := t_ka s; permit_idle_reset := permit_idle_reset s;
     idle_timeout := idle_timeout s; cfg_idle := cfg_idle s; cfg_ka := cfg_ka s |}.
Definition set_t_idle (s : state) (t : option Z) : state :=
  {| st := st s; close := close s; error := error s; epq := epq s; t_close := t_close s;
     t_idle := t; t_ka := t_ka s; permit_idle_reset := permit_idle_reset s;
     idle_timeout := idle_timeout s; cfg_idle := cfg_idle s; cfg_ka := cfg_ka s |}.
Definition set_t_ka (s : state) (t : option Z) : state :=
  {| st := st s; close := close s; error := error s; epq := epq s; t_close := t_close s;
     t_idle := t_idle s; t_ka := t; permit_idle_reset := permit_idle_reset s;
     idle_timeout := idle_timeout s; cfg_idle := cfg_idle s; cfg_ka := cfg_ka s |}.
Definition set_permit (s : state) (b : bool) : state :=
  {| st := st s; close := close s; error := error s; epq := epq s; t_close := t_close s;
     t_idle := t_idle s; t_ka := t_ka s; permit_idle_reset := b;
     idle_timeout := idle_timeout s; cfg_idle := cfg_idle s; cfg_ka := cfg_ka s |}.
Definition set_idle_timeout (s : state) (i : option Z) : state :=
  {| st := st s; close := close s; error := error s; epq := epq s; t_close := t_close s;
     t_idle := t_idle s; t_ka := t_ka s; permit_idle_reset := permit_idle_reset s;
     idle_timeout := i; cfg_idle := cfg_idle s; cfg_ka := cfg_ka s |}.

(** * helpers of mod.rs *)

(** [close_common]: every timer is stopped. *)
Definition close_common (s : state) : state :=
  set_t_ka (set_t_idle (set_t_close s None) None) None.

(** [set_close_timer(now)] with [pto = self.pto(self.highest_space)]. *)
Definition set_close_timer (s : state) (now pto : Z) : state :=
  set_t_close s (Some (now + 3 * pto)).

(** [kill(reason)] *)
Definition kill (s : state) (r : reason) : state :=
  let s := close_common s in
  let s := set_error s (Some r) in
  let s := set_st s Drained in
  set_epq s (epq s + 1).

(** [reset_idle_timeout(now, space)] with [pto = self.pto(space)]. *)
Definition reset_idle_timeout (s : state) (now pto : Z) : state :=
  match idle_timeout s with
  | None => s
  | Some i =>
      if is_closed (st s) then set_t_idle s None
      else set_t_idle s (Some (now + Z.max i (3 * pto)))
  end.

(** [reset_keep_alive(now)] *)
Definition reset_keep_alive (s : state) (now : Z) : state :=
  match cfg_ka s with
  | Some x => if is_established (st s) then set_t_ka s (Some (now + x)) else s
  | None => s
  end.

(** the lifecycle part of [on_packet_authenticated] *)
Definition on_packet_authenticated (s : state) (now pto : Z) : state :=
  set_permit (reset_idle_timeout (reset_keep_alive s now) now pto) true.

(** [close_inner(now, reason)] *)
Definition close_inner (s : state) (now pto : Z) (r : close_reason) : state :=
  if is_closed (st s) then s
  else
    let s := close_common s in
    let s := set_close_timer s now pto in
    let s := set_close s true in
    set_st s (Closed r).

(** [set_peer_params]: only the idle-timeout negotiation.  Since the repair of the stale idle
    timer (known_findings.txt, fixed: C08 "stop the idle timer when the negotiated idle timeout
    becomes disabled") the Idle timer is stopped when the negotiation yields "none";
    [set_peer_params_prefix] is the code as found. *)
Definition set_peer_params_prefix (s : state) (peer_idle_ms : option Z) : state :=
  set_idle_timeout s (negotiate (cfg_idle s) peer_idle_ms).
Definition set_peer_params (s : state) (peer_idle_ms : option Z) : state :=
  match negotiate (cfg_idle s) peer_idle_ms with
  | None => set_t_idle (set_idle_timeout s None) None
  | Some i => set_idle_timeout s (Some i)
  end.

(** * Received packets: what [handle_packet] found the packet to be *)
Inductive pkt :=
| PDiscard                           (* returns early: not decryptable (below the integrity limit),
                                        duplicate, short header during the handshake, wrong retry
                                        token, wrong remote during the handshake *)
| POrdinary                          (* authenticated, processed, no lifecycle effect *)
| PEstablish                         (* authenticated; completes the handshake *)
| PCloseData (r : close_reason)      (* close frame in a 1-RTT / 0-RTT payload: [process_payload] *)
| PCloseEarly (r : close_reason)     (* close frame in Initial / Handshake: [process_early_payload] *)
| PTransportError (code : Z) (authed : bool)
                                     (* [Err(TransportError)]: from [decrypt_packet] (authed = false:
                                        reserved bits, key update error, integrity limit) or from
                                        frame processing (authed = true) *)
| PReset                             (* stateless reset token recognised *)
| PVersionMismatch.                  (* version negotiation packet without our version *)

Definition authed (p : pkt) : bool :=
  match p with
  | PDiscard | PReset => false
  | PTransportError _ a => a
  | _ => true
  end.

(** [ConnectionError::from(frame::Close)] *)
Definition peer_reason (c : close_reason) : reason :=
  match c with CApp x => RAppClosed x | CTransport x => RConnClosed x end.

(** [process_decrypted_packet] (+ the [stateless_reset] / decrypt arms of [handle_packet]):
    new state and the [Result]. *)
Definition process (s : state) (p : pkt) : state * option reason :=
  match p with
  | PReset => (s, Some RReset)
  | PTransportError c _ => (s, Some (RTransport c))
  | PDiscard | POrdinary => (s, None)
  | PEstablish => (if is_handshake (st s) then set_st s Established else s, None)
  | PVersionMismatch => (s, if is_handshake (st s) then Some RVersionMismatch else None)
  | PCloseData r =>
      match st s with
      | Handshake | Established =>
          (set_close (set_st (set_error s (Some (peer_reason r))) Draining) true, None)
      | Closed _ => (set_st s Draining, None)
      | _ => (s, None)
      end
  | PCloseEarly r =>
      match st s with
      | Handshake | Established => (set_st (set_error s (Some (peer_reason r))) Draining, None)
      | Closed _ => (set_st s Draining, None)
      | _ => (s, None)
      end
  end.

(** "State transitions for error cases" *)
Definition state_of_err (e : reason) (old : cstate) : cstate :=
  match e with
  | RAppClosed c => Closed (CApp c)
  | RConnClosed c => Closed (CTransport c)
  | RReset => Drained
  | RTransport c => if c =? AEAD_LIMIT_REACHED then Drained else Closed (CTransport c)
  | RVersionMismatch => Draining
  | RTimedOut => old            (* unreachable!() in the code; never produced by [process] *)
  end.

(** [handle_packet]: [pto_idle] = pto(space of the packet) when it is authenticated,
    [pto_close] = pto(highest space) when the close timer is armed, [same_remote] =
    (remote == self.path.remote) at the end. *)
Definition handle_packet (s : state) (now : Z) (p : pkt) (pto_idle pto_close : Z)
           (same_remote : bool) : state :=
  match p with
  | PDiscard => s
  | _ =>
      let was_closed := is_closed (st s) in
      let was_drained := is_drained (st s) in
      let s := if authed p && negb was_closed then on_packet_authenticated s now pto_idle else s in
      let '(s, res) := process s p in
      let s := match res with
               | Some e => set_st (set_error s (Some e)) (state_of_err e (st s))
               | None => s
               end in
      let s := if negb was_closed && is_closed (st s) then
                 let s := close_common s in
                 if is_drained (st s) then s else set_close_timer s now pto_close
               else s in
      let s := if negb was_drained && is_drained (st s) then
                 set_t_close (set_epq s (epq s + 1)) None
               else s in
      match st s with
      | Closed _ => set_close s same_remote
      | _ => s
      end
  end.

(** * handle_timeout: Timer::VALUES order is ... Idle, Close, ..., KeepAlive ... *)
Definition expired (t : option Z) (now : Z) : bool :=
  match t with Some d => d <=? now | None => false end.

Definition handle_timeout (s : state) (now : Z) : state :=
  let s := if expired (t_idle s) now then kill (set_t_idle s None) RTimedOut else s in
  let s := if expired (t_close s) now then
             let s := set_t_close s None in
             set_epq (set_st s Drained) (epq s + 1)
           else s in
  if expired (t_ka s) now then set_t_ka s None (* + ping(): no lifecycle effect *) else s.

(** * poll / poll_endpoint_events *)
Inductive out :=
| ONone
| OOther                              (* some other event / a data packet *)
| OLost (r : reason)                  (* Event::ConnectionLost *)
| OEpDrained                          (* EndpointEvent::Drained *)
| OTxClose (frames : list (Z * close_reason)).
                                      (* close packets: (space 0/1/2, what the frame announces) *)

(** [poll()]: [other] = an ordinary event or a stream event was available first. *)
Definition poll (s : state) (other : bool) : state * out :=
  if other then (s, OOther)
  else match error s with
       | Some e => (set_error s None, OLost e)
       | None => (s, ONone)
       end.

Definition poll_endpoint_events (s : state) : state * out :=
  if 0 <? epq s then (set_epq s (epq s - 1), OEpDrained) else (s, ONone).

(** * poll_transmit *)
Record txenv := {
  keys_i : bool; keys_h : bool; keys_d : bool;   (* spaces[..].crypto.is_some() *)
  highest : Z;                                    (* highest_space 0/1/2 *)
  amp_blocked : bool;                             (* anti_amplification_blocked *)
  gate_blocked : bool;                            (* congestion window full or pacing delay *)
  ack_eliciting : bool;                           (* the space has ack-eliciting frames queued *)
  data : bool;                                    (* not closed: something is sent *)
  pto_tx : Z;                                     (* pto(space) of that packet *)
  conf : Z;                                       (* PacketBuilder::new: 0 fine, 1 graceful close
                                                     (limit - 1 reached), 2 kill (limit exceeded) *)
}.

(** What the close frame announces in a space ([poll_transmit], "if close" branch). *)
Definition announce (c : cstate) (space : Z) : close_reason :=
  match c with
  | Closed (CApp code) => if space =? 2 then CApp code else CTransport APPLICATION_ERROR
  | Closed (CTransport code) => CTransport code
  | _ => CTransport NO_ERROR          (* Draining *)
  end.

(** spaces that get a close packet: those with keys, in order, stopping at [highest];
    the flag tells whether [highest] itself was served ([self.close = false]). *)
Definition close_spaces (e : txenv) : list Z * bool :=
  let k0 := keys_i e in let k1 := keys_h e in let k2 := keys_d e in
  let h := highest e in
  let l0 := if k0 then [0] else [] in
  if k0 && (h =? 0) then (l0, true) else
  let l1 := if k1 then l0 ++ [1] else l0 in
  if k1 && (h =? 1) then (l1, true) else
  let l2 := if k2 then l1 ++ [2] else l1 in
  (l2, k2 && (h =? 2)).

(** the lifecycle part of [PacketBuilder::finish_and_track] for a tracked packet *)
Definition on_sent (s : state) (now : Z) (ack_el : bool) (pto : Z) : state :=
  let s := reset_keep_alive s now in
  if ack_el then
    let s := if permit_idle_reset s then reset_idle_timeout s now pto else s in
    set_permit s false
  else s.

(** [old_gate = true] is the code before the repair of F1: the congestion / pacing gate also
    applied to the close packet. *)
Definition poll_transmit_gen (old_gate : bool) (s : state) (now : Z) (e : txenv) : state * out :=
  match st s with
  | Drained => (s, ONone)
  | Closed _ | Draining =>
      if negb (close s) then (s, ONone)
      else if amp_blocked e then (s, ONone)
      else if old_gate && ack_eliciting e && gate_blocked e then (s, ONone)
      else if conf e =? 2 then (kill s (RTransport AEAD_LIMIT_REACHED), ONone)
      else
        let '(sp, served) := close_spaces e in
        match sp with
        | [] => (s, ONone)
        | _ => (if served then set_close s false else s,
                OTxClose (map (fun x => (x, announce (st s) x)) sp))
        end
  | _ =>
      if negb (data e) then (s, ONone)
      else if amp_blocked e then (s, ONone)
      else if ack_eliciting e && gate_blocked e then (s, ONone)
      else if conf e =? 2 then (kill s (RTransport AEAD_LIMIT_REACHED), ONone)
      else
        let s := if conf e =? 1 then close_inner s now (pto_tx e) (CTransport AEAD_LIMIT_REACHED)
                 else s in
        (on_sent s now (ack_eliciting e) (pto_tx e), OOther)
  end.
Definition poll_transmit := poll_transmit_gen false.

(** * Operations and runs *)
Inductive op :=
| OpClose (now code pto : Z)                      (* Connection::close *)
| OpPacket (now : Z) (p : pkt) (pto_idle pto_close : Z) (same_remote : bool)
| OpPeerParams (peer_idle_ms : option Z)          (* set_peer_params during the handshake / 0-RTT *)
| OpTimeout (now : Z)                             (* handle_timeout *)
| OpPoll (other : bool)
| OpPollEndpoint
| OpTransmit (now : Z) (e : txenv).

Definition step_gen (old_gate : bool) (s : state) (o : op) : state * out :=
  match o with
  | OpClose now code pto => (close_inner s now pto (CApp code), ONone)
  | OpPacket now p pi pc sr => (handle_packet s now p pi pc sr, ONone)
  | OpPeerParams i => (set_peer_params s i, ONone)
  | OpTimeout now => (handle_timeout s now, ONone)
  | OpPoll other => poll s other
  | OpPollEndpoint => poll_endpoint_events s
  | OpTransmit now e => poll_transmit_gen old_gate s now e
  end.
Definition step := step_gen false.

Definition step' (s : state) (o : op) : state := fst (step s o).
Definition run_state (s : state) (h : list op) : state := fold_left step' h s.

Fixpoint outs_from (s : state) (h : list op) : list out :=
  match h with
  | [] => []
  | o :: r => snd (step s o) :: outs_from (fst (step s o)) r
  end.

Definition is_lost (o : out) : bool := match o with OLost _ => true | _ => false end.
Definition is_epdrained (o : out) : bool := match o with OEpDrained => true | _ => false end.
Fixpoint count (f : out -> bool) (l : list out) : Z :=
  match l with [] => 0 | o :: r => (if f o then 1 else 0) + count f r end.

(** * The known class (known_findings.txt, key lost-after-local-close)
    [handle_packet] stores an error RESULT into [self.error] and into [self.state] whatever the
    state was: an error result (stateless reset, transport error from [decrypt_packet] or from
    [frame::Iter::new] in the Closed arm) that arrives while the connection is already closed is
    reported although the close was local / already reported, and can even move a Drained
    connection back to Closed.
    Excluded with it (second disjunct of [guard]): [PacketBuilder::new] finding the
    confidentiality limit already EXCEEDED while building the close packet of an Initial /
    Handshake space ([kill] then records AEAD_LIMIT_REACHED as a new error). That needs more
    than 2^23 packets sent under handshake keys and is not reachable by any peer behaviour. *)
Definition err_result (p : pkt) : bool :=
  match p with PTransportError _ _ | PReset => true | _ => false end.
Definition guard (s : state) (o : op) : bool :=
  match o with
  | OpPacket _ p _ _ _ => negb (err_result p && is_closed (st s))
  | OpTransmit _ e => negb ((conf e =? 2) && is_closed (st s))
  | _ => true
  end.
Fixpoint guarded (s : state) (h : list op) : bool :=
  match h with
  | [] => true
  | o :: r => guard s o && guarded (step' s o) r
  end.
Definition KnownClassFrom (s : state) (h : list op) : Prop := guarded s h = false.

(** * Layer A interface of the [idle_negotiate] hook (connection/verif_hooks/lifecycle.rs):
    op [0; x; y] (x, y = -1 for None, else a VarInt in ms) -> [-1] | [micros];
    op [1] -> the three error codes. *)
Definition dec (x : Z) : option Z := if x <? 0 then None else Some x.
Definition enc (x : option Z) : Z := match x with None => -1 | Some v => v end.
Definition hstep (o : list Z) : list Z :=
  match o with
  | [0; x; y] => [enc (negotiate (dec x) (dec y))]
  | [1] => [NO_ERROR; APPLICATION_ERROR; AEAD_LIMIT_REACHED]
  | _ => [-1000]
  end.
Definition run (i : ops) : outs := map hstep i.

(** oracle on the implementation's outputs: commutative on swapped arguments is checked by the
    generator emitting (x,y) followed by (y,x); 0 = absent; result = 1000 * min of the present. *)
Definition oracle_pair (a b : list Z) (oa ob : list Z) : bool :=
  match a, b with
  | [0; x; y], [0; y'; x'] => negb ((x =? x') && (y =? y')) || lz_eqb oa ob
  | _, _ => true
  end.
Definition oracle_one (a oa : list Z) : bool :=
  match a, oa with
  | [0; x; y], [r] =>
      let px := 0 <? x in let py := 0 <? y in
      if px && py then r =? 1000 * Z.min x y
      else if px then r =? 1000 * x else if py then r =? 1000 * y else r =? -1
  | [0; _; _], _ => false
  | _, _ => true
  end.
Fixpoint oracle (i : ops) (o : outs) : bool :=
  match i, o with
  | [], [] => true
  | a :: i', oa :: o' =>
      oracle_one a oa &&
      match i', o' with
      | b :: _, ob :: _ => oracle_pair a b oa ob
      | _, _ => true
      end && oracle i' o'
  | _, _ => false
  end.
