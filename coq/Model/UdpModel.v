(** Model of datagram boundaries in quinn-udp / quinn — definitions only.

    - [effective_segment_size]: quinn-udp/src/lib.rs [Transmit::effective_segment_size].
    - [segments]: what a segmentation-offloaded (UDP_SEGMENT) transmit puts on the wire: chunks
      of [seg] bytes, the last one possibly shorter (kernel contract, udp(7)).
    - [gro_coalesce]: what a UDP_GRO receiver may be handed: runs of equal-size datagrams from
      one source, optionally closed by one shorter datagram, delivered as ONE message whose
      [stride] is the size of the first datagram.  How many datagrams the kernel merges is its
      own choice: it is the parameter [choice] and every theorem quantifies over it.
    - [split_by_stride]: the loop in quinn/src/endpoint.rs [RecvState::poll_socket]
        [while !data.is_empty() { let buf = data.split_to(meta.stride.min(data.len())); .. }]
      with explicit fuel; [None] = the loop does not terminate (only for [stride = 0] on a
      non-empty message: [split_to(0)] makes no progress).
    Lengths and sizes are [nat] (list indices); bytes are [Z]. *)
From Coq Require Import ZArith List Bool Arith.
From QV Require Import Lib.Bytes Lib.Corr.
Import ListNotations.
Open Scope nat_scope.

(** [Transmit::effective_segment_size]: [segment_size?] then [None] if [size >= contents.len()]. *)
Definition effective_segment_size (segment_size : option nat) (len : nat) : option nat :=
  match segment_size with
  | None => None
  | Some size => if len <=? size then None else Some size
  end.

(** GSO: chunks of [seg]; out of fuel is [None] (unreachable for [0 < seg], see proofs). *)
Fixpoint segments_fuel (fuel seg : nat) (l : list Z) : option (list (list Z)) :=
  match l with
  | [] => Some []
  | _ =>
      match fuel with
      | O => None
      | S f => option_map (cons (firstn seg l)) (segments_fuel f seg (skipn seg l))
      end
  end.
Definition segments (seg : nat) (l : list Z) : option (list (list Z)) :=
  segments_fuel (length l) seg l.

(** The datagrams a [Transmit] stands for: one datagram unless an effective segment size is set. *)
Definition transmit_datagrams (segment_size : option nat) (contents : list Z)
  : option (list (list Z)) :=
  match effective_segment_size segment_size (length contents) with
  | None => Some [contents]
  | Some seg => segments seg contents
  end.

(** The receive loop of [poll_socket]. *)
Fixpoint split_fuel (fuel stride : nat) (data : list Z) : option (list (list Z)) :=
  match data with
  | [] => Some []
  | _ =>
      match fuel with
      | O => None
      | S f =>
          let n := Nat.min stride (length data) in
          option_map (cons (firstn n data)) (split_fuel f stride (skipn n data))
      end
  end.
Definition split_by_stride (stride : nat) (data : list Z) : option (list (list Z)) :=
  split_fuel (length data) stride data.

(** One received message: the reported stride and the buffer contents. *)
Definition message := (nat * list Z)%type.

(** After a first datagram of size [s]: up to [k] more datagrams of exactly [s] bytes, then
    optionally one shorter, non-empty datagram which closes the batch. *)
Fixpoint take_run (s k : nat) (l : list (list Z)) : list (list Z) * list (list Z) :=
  match k, l with
  | S k', d :: r =>
      if length d =? s then let '(a, b) := take_run s k' r in (d :: a, b)
      else if (0 <? length d) && (length d <? s) then ([d], r)
      else ([], l)
  | _, _ => ([], l)
  end.

(** [choice]: for each message, how many further datagrams the kernel tries to merge. *)
Fixpoint gro_fuel (fuel : nat) (choice : list nat) (dgs : list (list Z)) : list message :=
  match fuel, dgs with
  | S f, d :: r =>
      let '(batch, rest) := take_run (length d) (hd 0 choice) r in
      (length d, d ++ concat batch) :: gro_fuel f (tl choice) rest
  | _, _ => []
  end.
Definition gro_coalesce (choice : list nat) (dgs : list (list Z)) : list message :=
  gro_fuel (length dgs) choice dgs.

(** Splitting every message of a receive batch, in order. *)
Fixpoint split_all (ms : list message) : option (list (list Z)) :=
  match ms with
  | [] => Some []
  | (stride, data) :: r =>
      match split_by_stride stride data, split_all r with
      | Some a, Some b => Some (a ++ b)
      | _, _ => None
      end
  end.


(** Shape predicates used in the theorem statements (Props/C19.v). *)

(** every chunk but the last has exactly [seg] bytes; the last has between 1 and [seg] *)
Fixpoint run_shape (seg : nat) (b : list (list Z)) : Prop :=
  match b with
  | [] => True
  | [x] => 0 < length x <= seg
  | x :: r => length x = seg /\ run_shape seg r
  end.
