(** Frame legality: which frame kinds [Connection::process_early_payload] /
    [Connection::process_payload] (quinn-proto/src/connection/mod.rs) accept in which packet space
    on which side, and the transport error class they answer an illegal placement with.
    Definitions only.  Model-only component (no hook): the simulator injects frames and compares.

    Integer encodings (for traces):
      frame kind: 0 PADDING, 1 PING, 2 ACK, 3 RESET_STREAM, 4 STOP_SENDING, 5 CRYPTO, 6 NEW_TOKEN,
        7 STREAM, 8 MAX_DATA, 9 MAX_STREAM_DATA, 10 MAX_STREAMS, 11 DATA_BLOCKED,
        12 STREAM_DATA_BLOCKED, 13 STREAMS_BLOCKED, 14 NEW_CONNECTION_ID, 15 RETIRE_CONNECTION_ID,
        16 PATH_CHALLENGE, 17 PATH_RESPONSE, 18 CONNECTION_CLOSE (0x1c), 19 APPLICATION_CLOSE (0x1d),
        20 DATAGRAM, 21 ACK_FREQUENCY, 22 IMMEDIATE_ACK, 23 HANDSHAKE_DONE
      space: 0 Initial, 1 Handshake, 2 0-RTT, 3 1-RTT
      side (of the RECEIVER): 0 client, 1 server
      outcome: 0 dispatched to the frame's handler (which may still reject the CONTENT),
               1 connection enters Draining (a close frame), 2 transport error (code follows),
               3 unreachable (a client never holds 0-RTT read keys) *)
From Coq Require Import ZArith List Bool.
Import ListNotations.
Open Scope Z_scope.

Inductive frame_kind :=
| Padding | Ping | Ack | ResetStream | StopSending | Crypto | NewToken | Stream | MaxData
| MaxStreamData | MaxStreams | DataBlocked | StreamDataBlocked | StreamsBlocked | NewConnectionId
| RetireConnectionId | PathChallenge | PathResponse | ConnectionClose | ApplicationClose
| Datagram | AckFrequency | ImmediateAck | HandshakeDone.

Inductive space := Initial | Handshake | ZeroRtt | OneRtt.
Inductive side := Client | Server.
Inductive expected_outcome := Dispatch | Drain | Err (code : Z) | Unreachable.

Definition PROTOCOL_VIOLATION : Z := 10.

Definition all_frames : list frame_kind :=
  [Padding; Ping; Ack; ResetStream; StopSending; Crypto; NewToken; Stream; MaxData; MaxStreamData;
   MaxStreams; DataBlocked; StreamDataBlocked; StreamsBlocked; NewConnectionId;
   RetireConnectionId; PathChallenge; PathResponse; ConnectionClose; ApplicationClose; Datagram;
   AckFrequency; ImmediateAck; HandshakeDone].
Definition all_spaces : list space := [Initial; Handshake; ZeroRtt; OneRtt].
Definition all_sides : list side := [Client; Server].

Definition frame_code (f : frame_kind) : Z :=
  match f with
  | Padding => 0 | Ping => 1 | Ack => 2 | ResetStream => 3 | StopSending => 4 | Crypto => 5
  | NewToken => 6 | Stream => 7 | MaxData => 8 | MaxStreamData => 9 | MaxStreams => 10
  | DataBlocked => 11 | StreamDataBlocked => 12 | StreamsBlocked => 13 | NewConnectionId => 14
  | RetireConnectionId => 15 | PathChallenge => 16 | PathResponse => 17 | ConnectionClose => 18
  | ApplicationClose => 19 | Datagram => 20 | AckFrequency => 21 | ImmediateAck => 22
  | HandshakeDone => 23
  end.
Definition space_code (s : space) : Z :=
  match s with Initial => 0 | Handshake => 1 | ZeroRtt => 2 | OneRtt => 3 end.
Definition side_code (s : side) : Z := match s with Client => 0 | Server => 1 end.
Definition outcome_code (o : expected_outcome) : list Z :=
  match o with Dispatch => [0] | Drain => [1] | Err c => [2; c] | Unreachable => [3] end.

(** * The code, structurally *)
(** [process_early_payload] (Initial and Handshake packets) *)
Definition early (f : frame_kind) : expected_outcome :=
  match f with
  | Padding | Ping | Crypto | Ack => Dispatch
  | ConnectionClose | ApplicationClose => Drain
  | _ => Err PROTOCOL_VIOLATION                     (* "illegal frame type in handshake" *)
  end.

(** [process_payload] (0-RTT and 1-RTT packets) *)
Definition payload (f : frame_kind) (zero_rtt : bool) (sd : side) : expected_outcome :=
  match f with
  | Padding => Dispatch                             (* skipped before any check *)
  | _ =>
    if zero_rtt && match f with Crypto | ApplicationClose => true | _ => false end
    then Err PROTOCOL_VIOLATION                     (* "illegal frame type in 0-RTT" *)
    else
      match f, sd with
      | NewToken, Server => Err PROTOCOL_VIOLATION      (* "client sent NEW_TOKEN" *)
      | HandshakeDone, Server => Err PROTOCOL_VIOLATION (* "client sent HANDSHAKE_DONE" *)
      | ConnectionClose, _ | ApplicationClose, _ => Drain
      | _, _ => Dispatch
      end
  end.

Definition legal (f : frame_kind) (sp : space) (sd : side) : expected_outcome :=
  match sp, sd with
  | Initial, _ | Handshake, _ => early f
  | ZeroRtt, Client => Unreachable
  | ZeroRtt, Server => payload f true sd
  | OneRtt, _ => payload f false sd
  end.

(** * What RFC 9000 Table 3 (12.4), RFC 9221 and the ack-frequency draft permit *)
Definition rfc_spaces (f : frame_kind) : list space :=
  match f with
  | Padding | Ping => [Initial; Handshake; ZeroRtt; OneRtt]
  | Ack | Crypto => [Initial; Handshake; OneRtt]
  | ConnectionClose => [Initial; Handshake; ZeroRtt; OneRtt]
  | NewToken | PathResponse | HandshakeDone => [OneRtt]
  | _ => [ZeroRtt; OneRtt]
  end.

Definition space_eqb (a b : space) : bool := space_code a =? space_code b.

(** is the placement permitted for a frame RECEIVED by [sd]? *)
Definition rfc_permits (f : frame_kind) (sp : space) (sd : side) : bool :=
  existsb (space_eqb sp) (rfc_spaces f)
  && match f, sd with
     | NewToken, Server | HandshakeDone, Server => false   (* only servers send these *)
     | _, _ => true
     end.

(** Placements where the implementation is more permissive than the RFC (it dispatches or drains
    instead of answering PROTOCOL_VIOLATION) — none of them can crash it, the handlers are the
    ordinary ones: ACK and PATH_RESPONSE inside 0-RTT packets, APPLICATION_CLOSE inside Initial
    and Handshake packets. *)
Definition lenient (f : frame_kind) (sp : space) (sd : side) : bool :=
  match f, sp, sd with
  | Ack, ZeroRtt, Server | PathResponse, ZeroRtt, Server => true
  | ApplicationClose, Initial, _ | ApplicationClose, Handshake, _ => true
  | _, _, _ => false
  end.

(** ... and the one where it is stricter: APPLICATION_CLOSE in a 0-RTT packet is permitted by the
    RFC and answered with PROTOCOL_VIOLATION. *)
Definition stricter (f : frame_kind) (sp : space) (sd : side) : bool :=
  match f, sp, sd with ApplicationClose, ZeroRtt, Server => true | _, _, _ => false end.

Definition is_pv (o : expected_outcome) : bool :=
  match o with Err c => c =? PROTOCOL_VIOLATION | _ => false end.
Definition is_ok (o : expected_outcome) : bool :=
  match o with Dispatch | Drain => true | _ => false end.

(** one row of the table check *)
Definition row_ok (f : frame_kind) (sp : space) (sd : side) : bool :=
  match legal f sp sd with
  | Unreachable => match sp, sd with ZeroRtt, Client => true | _, _ => false end
  | o =>
      if rfc_permits f sp sd then is_ok o || stricter f sp sd && is_pv o
      else is_pv o || lenient f sp sd && is_ok o
  end.

Definition table_ok : bool :=
  forallb (fun f => forallb (fun sp => forallb (fun sd => row_ok f sp sd) all_sides) all_spaces)
          all_frames.

(** the whole table as integer rows [frame; space; side; outcome...] for the simulator *)
Definition table : list (list Z) :=
  flat_map (fun f => flat_map (fun sp => map (fun sd =>
    [frame_code f; space_code sp; side_code sd] ++ outcome_code (legal f sp sd)) all_sides)
    all_spaces) all_frames.
