(** Model of [Dedup] in quinn-proto/src/connection/spaces.rs — definitions only.

    State: [window : u128] as a [Z] kept below [2^128] by an explicit [mod], [next : u64].
    Bit [b] of the window stands for packet number [highest - 1 - b] where [highest = next - 1];
    numbers more than [WINDOW_SIZE - 1 = 128] below [highest] are "left of the window".
    Debug-build arithmetic: [packet + 1] overflowing u64, [next - 1] with [next = 0] and failed
    [debug_assert!]s panic ([None]). *)
From Coq Require Import ZArith List Bool.
From QV Require Import Lib.Corr.
Import ListNotations.
Open Scope Z_scope.

Definition BITS : Z := 128.
Definition WINDOW_SIZE : Z := 1 + BITS.
Definition U64_MAX : Z := 2 ^ 64 - 1.
Definition W_MOD : Z := 2 ^ BITS.

Record t := mk { window : Z; next : Z }.

Definition init : t := mk 0 0.

(** [insert]: [Some (state', duplicate)], [None] = panic ([packet + 1] overflows). *)
Definition insert (d : t) (p : Z) : option (t * bool) :=
  if next d <=? p then
    (* right of window: window = ((window << 1) | 1).checked_shl(min(diff, u32::MAX)).unwrap_or(0) *)
    let diff := p - next d in
    if U64_MAX <=? p then None
    else
      let w1 := Z.lor (Z.shiftl (window d) 1 mod W_MOD) 1 in
      let w' := if diff <? BITS then Z.shiftl w1 diff mod W_MOD else 0 in
      Some (mk w' (p + 1), false)
  else
    let highest := next d - 1 in
    if highest - p <? WINDOW_SIZE then
      if 1 <=? highest - p then
        let bit := highest - p - 1 in
        let dup := Z.testbit (window d) bit in
        Some (mk (Z.lor (window d) (Z.shiftl 1 bit)) (next d), dup)
      else Some (d, true)
    else Some (d, true).

(** [smallest_missing_in_interval(lower, upper)]; outer [None] = panic. *)
Definition smallest_missing (d : t) (lower upper : Z) : option (option Z) :=
  if (lower <=? upper) && (1 <=? next d) && (upper <=? next d - 1) then
    let highest := next d - 1 in
    let lb := lower + 1 in
    let ub := Z.max (upper - 1) 0 in
    let so := Z.max (highest - ub) 1 - 1 in
    if BITS <=? so then Some None
    else
      let eo := Z.max (highest - lb) 0 in
      let rl := Z.min (Z.max (eo - so) 0) BITS in
      if rl =? 0 then Some None
      else
        let mask := if rl =? BITS then W_MOD - 1
                    else Z.shiftl (2 ^ rl - 1) so mod W_MOD in
        let gaps := Z.land (Z.lnot (window d)) mask in   (* !window & mask; mask < 2^128 *)
        let off := if gaps =? 0 then 0 else Z.log2 gaps + 1 in
        if highest <? off then None
        else
          let p := highest - off in
          if p <=? ub then Some (Some p) else Some None
  else None.

Definition b2z (b : bool) : Z := if b then 1 else 0.

Definition step (d : t) (op : list Z) : option (t * list Z) :=
  match op with
  | [0; p] =>
      match insert d p with
      | Some (d', dup) => Some (d', [b2z dup; next d'])
      | None => None
      end
  | [1; l; u] =>
      match smallest_missing d l u with
      | Some None => Some (d, [0])
      | Some (Some p) => Some (d, [1; p])
      | None => None
      end
  | [2; l; u] =>
      match smallest_missing d l u with
      | Some None => Some (d, [0])
      | Some (Some _) => Some (d, [1])
      | None => None
      end
  | [3] => Some (d, [next d; window d / 2 ^ 64; window d mod 2 ^ 64])
  | _ => Some (d, [-1])
  end.

Fixpoint run_from (d : t) (i : ops) : option outs :=
  match i with
  | [] => Some []
  | op :: i' =>
      match step d op with
      | Some (d', o) =>
          match run_from d' i' with
          | Some os => Some (o :: os)
          | None => None
          end
      | None => None
      end
  end.

Definition run (i : ops) : outs :=
  match run_from init i with
  | Some o => o
  | None => [PANIC]
  end.

(** Oracle, from the op sequence and the implementation's outputs alone:
    - no packet number is reported "new" (duplicate = 0) twice;
    - a number reported "new" was never inserted before, and a number never inserted before that
      lies inside the window ([p + WINDOW_SIZE > highest]) is reported "new";
    - the reported [next] is one more than the largest number inserted so far;
    - [smallest_missing_in_interval l u] answers exactly the smallest never-inserted number
      strictly between the bounds that is still inside the window. *)
Fixpoint mem (x : Z) (l : list Z) : bool :=
  match l with
  | [] => false
  | y :: l' => Z.eqb x y || mem x l'
  end.

Definition maxl (l : list Z) : Z := fold_right Z.max (-1) l.

(** smallest [m] with [lo <= m], [m < hi] and [m] not in [seen], searching at most [fuel] numbers. *)
Fixpoint first_missing (fuel : nat) (lo hi : Z) (seen : list Z) : option Z :=
  match fuel with
  | O => None
  | S f =>
      if hi <=? lo then None
      else if mem lo seen then first_missing f (lo + 1) hi seen else Some lo
  end.

Definition spec_smallest (seen : list Z) (l u : Z) : option Z :=
  let highest := maxl seen in
  let lo := Z.max (l + 1) (highest - BITS) in
  first_missing 130 lo (Z.min u (lo + 129)) seen.

Fixpoint oracle_from (seen : list Z) (i : ops) (o : outs) : bool :=
  match i, o with
  | [], [] => true
  | op :: i', out :: o' =>
      match op, out with
      | [0; p], [dup; nx] =>
          let was := mem p seen in
          let highest := maxl seen in
          let ok :=
            (if was then Z.eqb dup 1
             else if highest - p <? WINDOW_SIZE then Z.eqb dup 0 else Z.eqb dup 1)
            && Z.eqb nx (Z.max highest p + 1) in
          ok && oracle_from (p :: seen) i' o'
      | [1; l; u], r =>
          (match spec_smallest seen l u, r with
           | None, [0] => true
           | Some p, [1; q] => Z.eqb p q
           | _, _ => false
           end) && oracle_from seen i' o'
      | [2; l; u], r =>
          (match spec_smallest seen l u, r with
           | None, [0] => true
           | Some _, [1] => true
           | _, _ => false
           end) && oracle_from seen i' o'
      | _, _ => oracle_from seen i' o'
      end
  | _, _ => false
  end.

Definition oracle (i : ops) (o : outs) : bool :=
  match o with
  | [[-999]] => llz_eqb (run i) o   (* a panic is expected exactly where the model panics *)
  | _ => oracle_from [] i o
  end.
