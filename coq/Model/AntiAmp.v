(** Model of the anti-amplification arithmetic: [PathData::anti_amplification_blocked] with the
    path byte counters (quinn-proto/src/connection/paths.rs) and the datagram loop of
    [Connection::poll_transmit] abstracted to its use of the predicate — definitions only.

    The counters are u64: updates use [saturating_add] as the callers do; the predicate computes
    [total_recvd * 3 < total_sent + bytes_to_send] with plain (checked) arithmetic: [None] = the
    debug build panics. Alongside, the state carries GHOST counters [gr], [gs]: the true
    (unbounded) byte totals, so that the theorem is about the bytes really sent and received. *)
From Coq Require Import ZArith List Bool.
From QV Require Import Lib.Corr Lib.Chk.
Import ListNotations.
Open Scope Z_scope.

Definition FACTOR : Z := 3.

Record st := mk { validated : bool; recvd : Z; sent : Z; gr : Z; gs : Z }.

Definition fresh (v : bool) : st := mk v 0 0 0 0.

(** [anti_amplification_blocked(b)]; [&&] short-circuits on a validated path. *)
Definition blocked (s : st) (b : Z) : option bool :=
  if validated s then Some false
  else do r3 <- cmul (recvd s) FACTOR; do sb <- cadd (sent s) b; Some (r3 <? sb).

Definition recv (s : st) (n : Z) : st := mk (validated s) (sat_add (recvd s) n) (sent s) (gr s + n) (gs s).
Definition recv_first (s : st) (n : Z) : st := mk (validated s) n (sent s) n (gs s).
Definition send (s : st) (n : Z) : st := mk (validated s) (recvd s) (sat_add (sent s) n) (gr s) (gs s + n).

(** The datagram loop: [ds] = sizes the caller wants to send, [i] datagrams done so far with
    [total] bytes, current segment size [seg]; returns (datagrams, bytes). *)
Fixpoint batch (s : st) (seg max : Z) (ds : list Z) (i total : Z) : option (Z * Z) :=
  match ds with
  | [] => Some (i, total)
  | d :: ds' =>
      if max <=? i then Some (i, total)
      else
        do a <- cmul seg i;
        do a1 <- cadd a 1;
        do b <- blocked s a1;
        if b then Some (i, total)
        else do t <- cadd total d; batch s (if i =? 0 then d else seg) max ds' (i + 1) t
  end.

Definition poll (s : st) (seg max : Z) (ds : list Z) : option (st * Z * Z) :=
  do r <- batch s seg max ds 0 0;
  Some (send s (snd r), fst r, snd r).

(** Largest s in [0, 2^40] with [!blocked(s)], as the hook's bisection finds it; -1 if blocked(0). *)
Definition CAP : Z := 2 ^ 40.
Definition budget (s : st) : option Z :=
  do b0 <- blocked s 0;
  if b0 then Some (-1)
  else
    do bh <- blocked s CAP;
    if negb bh then Some CAP
    else Some (recvd s * FACTOR - sent s).

Definition step (s : st) (op : list Z) : option (st * list Z) :=
  match op with
  | [] => Some (s, [-1])
  | c :: a =>
      match a with
      | [] => if c =? 5 then do b <- budget s; Some (s, [b]) else Some (s, [-1])
      | x :: a' =>
          if c =? 0 then Some (fresh (nz x), [0])
          else if c =? 1 then let s' := recv s x in Some (s', [recvd s'])
          else if c =? 2 then let s' := recv_first s x in Some (s', [recvd s'])
          else if c =? 3 then let s' := send s x in Some (s', [sent s'])
          else if c =? 4 then do b <- blocked s x; Some (s, [b2z b])
          else if c =? 6 then
            match a' with
            | max :: ds => do r <- poll s x max ds;
                           let '(s', n, t) := r in Some (s', [n; t; sent s'])
            | [] => Some (s, [-1])
            end
          else if c =? 7 then Some (mk (nz x) (recvd s) (sent s) (gr s) (gs s), [x])
          else Some (s, [-1])
      end
  end.

Fixpoint go (s : st) (i : ops) : option outs :=
  match i with
  | [] => Some []
  | op :: i' => do r <- step s op; do rest <- go (fst r) i'; Some (snd r :: rest)
  end.

Definition run (i : ops) : outs := match go (fresh false) i with Some r => r | None => [PANIC] end.

(** All reachable states. *)
Fixpoint steps (s : st) (l : list (list Z)) : option st :=
  match l with
  | [] => Some s
  | op :: l' => match step s op with Some (s', _) => steps s' l' | None => None end
  end.

(** Oracle on the implementation's outputs, from a ledger of the ops alone (unbounded integers):
    on an unvalidated path, [blocked(b)] answers exactly [sent + b > 3 * recvd]; the budget probe
    answers [3 * recvd - sent]; a batch never starts a datagram once [sent >= 3 * recvd], and
    after it [sent < 3 * recvd + first datagram size]. Counter values above 2^62 are outside the
    oracle (saturation/overflow: judged by model equality). *)
Fixpoint ledger_ok (v : bool) (r s : Z) (i : ops) (o : outs) : bool :=
  match i, o with
  | [], [] => true
  | op :: i', out :: o' =>
      if (2 ^ 62 <=? r) || (2 ^ 62 <=? s) || existsb (fun x => 2 ^ 62 <=? x) op then true else
      match op, out with
      | [0; x], _ => ledger_ok (nz x) 0 0 i' o'
      | [1; n], [r'] => (r' =? r + n) && ledger_ok v (r + n) s i' o'
      | [2; n], [r'] => (r' =? n) && ledger_ok v n s i' o'
      | [3; n], [s'] => (s' =? s + n) && ledger_ok v r (s + n) i' o'
      | [4; b], [x] =>
          (if (b <? 2 ^ 62) then x =? b2z (negb v && (3 * r <? s + b)) else true) && ledger_ok v r s i' o'
      | [5], [x] =>
          (if v then x =? CAP else if 3 * r <? s then x =? -1 else x =? Z.min CAP (3 * r - s))
          && ledger_ok v r s i' o'
      | 6 :: seg :: max :: d0 :: ds, [n; t; s'] =>
          (s' =? s + t) &&
          (if v then true
           else (if 3 * r <=? s then n =? 0 else true) && ((n =? 0) || (s + t <? 3 * r + d0)))
          && ledger_ok v r (s + t) i' o'
      | [7; x], _ => ledger_ok (nz x) r s i' o'
      | _, _ => ledger_ok v r s i' o'
      end
  | _, _ => false
  end.

Definition oracle (i : ops) (o : outs) : bool :=
  if llz_eqb o [PANIC] then true else ledger_ok false 0 0 i o.
