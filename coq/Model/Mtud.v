(** Model of [MtuDiscovery] / [EnabledMtuDiscovery] / [SearchState] / [BlackHoleDetector]
    (quinn-proto/src/connection/mtud.rs), debug build — definitions only.

    Sizes are [u16] values held in [Z] (the generator only produces values in range), packet
    numbers [u64], times integer microseconds.  [None] = the Rust code panics:
      - [debug_assert!(initial_plpmtu >= min_mtu)] in [new];
      - [debug_assert!(!Searching)] in [on_peer_max_udp_payload_size_received];
      - [last_probed_mtu - 1] underflow in [next_mtu_to_probe];
      - [pn - latest_non_probe] underflow in [on_non_probe_lost].
    The two constants are parameters here and instantiated from gen/Constants.v in [run]. *)
From Coq Require Import ZArith List Bool.
From QV Require Import Lib.Corr gen.Constants.
Import ListNotations.
Open Scope Z_scope.

Record Config := mkConfig {
  c_upper : Z; c_interval : Z; c_cooldown : Z; c_min_change : Z }.

Record Search := mkSearch {
  lower : Z; upper : Z; min_change : Z; last_probed : Z;
  in_flight : option Z; lost_count : Z }.

Inductive Phase := Initial | Searching (s : Search) | Complete (t : Z).

Record Enabled := mkEnabled { phase : Phase; peer_max : Z; config : Config }.

(** [cur_burst] = (smallest_packet_size, latest_non_probe). *)
Record Bhd := mkBhd {
  bursts : list Z; cur_burst : option (Z * Z);
  largest_post_loss : Z; acked_mtu : Z; bmin_mtu : Z }.

Record Mtud := mkMtud { cur : Z; st : option Enabled; bhd : Bhd }.

(** Operations (decoded form of the hook's integer ops). *)
Inductive Op :=
| ONew (initial min_mtu : Z) (peer : option Z) (enabled : bool) (c : Config)
| OReset (cur' min_mtu : Z)
| OPeerMax (v : Z)
| OPoll (now next_pn : Z)
| OAcked (space pn len : Z)
| OProbeLost
| ONonProbeLost (pn len : Z)
| OBlackHole (now : Z).

Definition clamp (x lo hi : Z) : Z := if x <? lo then lo else if hi <? x then hi else x.

(* ------------------------------------------------------------------ SearchState *)
Definition search_new (lower0 peer : Z) (c : Config) : Search :=
  let lo := Z.min lower0 peer in
  mkSearch lo (clamp (c_upper c) lo peer) (c_min_change c) lo None 0.

Definition set_in_flight (s : Search) (f : option Z) : Search :=
  mkSearch (lower s) (upper s) (min_change s) (last_probed s) f (lost_count s).

(** [next_mtu_to_probe]; outer [None] = panic. *)
Definition next_mtu_to_probe (s : Search) (succeeded : bool) : option (Search * option Z) :=
  let bounds :=
    if succeeded then Some (last_probed s, upper s)
    else if last_probed s =? 0 then None else Some (lower s, last_probed s - 1) in
  match bounds with
  | None => None
  | Some (lo, up) =>
      let s' := mkSearch lo up (min_change s) (last_probed s) (in_flight s) (lost_count s) in
      let next := (lo + up) / 2 in
      if Z.abs (next - last_probed s) <? min_change s then
        if min_change s <=? Z.max 0 (up - last_probed s) then Some (s', Some up)
        else Some (s', None)
      else Some (s', Some next)
  end.

(* ------------------------------------------------------------------ BlackHoleDetector *)
Definition bhd_new (min_mtu : Z) : Bhd := mkBhd [] None 0 min_mtu min_mtu.

Definition bhd_on_probe_acked (b : Bhd) (pn len : Z) : Bhd :=
  mkBhd [] (cur_burst b) pn len (bmin_mtu b).

Definition bhd_on_non_probe_acked (b : Bhd) (pn len : Z) : Bhd :=
  if len <=? acked_mtu b then b
  else mkBhd (filter (fun x => len <? x) (bursts b)) (cur_burst b) pn len (bmin_mtu b).

(** Index of the first minimal element ([Iterator::min_by_key] returns the first minimum). *)
Fixpoint list_min (l : list Z) (d : Z) : Z :=
  match l with [] => d | x :: r => list_min r (Z.min d x) end.
Fixpoint replace_first (l : list Z) (old new : Z) : list Z :=
  match l with
  | [] => []
  | x :: r => if x =? old then new :: r else x :: replace_first r old new
  end.

Section WithConstants.
Variable MPR BHT : Z.
(** [F8FIXED = false] is the code before the repair of finding F8 ([black_hole_detected] assigned
    [min_mtu] unconditionally); [run] models the repaired code. *)
Variable F8FIXED : bool.

Definition finish_loss_burst (b : Bhd) : Bhd :=
  match cur_burst b with
  | None => b
  | Some (sm, latest) =>
      let b0 := mkBhd (bursts b) None (largest_post_loss b) (acked_mtu b) (bmin_mtu b) in
      if (sm <=? bmin_mtu b) || ((latest <? largest_post_loss b) && (sm <=? acked_mtu b)) then b0
      else
        let acked' := if largest_post_loss b <? latest then bmin_mtu b else acked_mtu b in
        let bs := bursts b in
        let bs' :=
          if Z.of_nat (length bs) <=? BHT then bs ++ [sm]
          else match bs with
               | [] => bs
               | x :: r => let m := list_min r x in
                           if m <? sm then replace_first bs m sm else bs
               end in
        mkBhd bs' None (largest_post_loss b) acked' (bmin_mtu b)
  end.

(** [None] = [pn - latest_non_probe] underflows. *)
Definition bhd_on_non_probe_lost (b : Bhd) (pn len : Z) : option Bhd :=
  match cur_burst b with
  | None => Some (mkBhd (bursts b) (Some (len, pn)) (largest_post_loss b) (acked_mtu b) (bmin_mtu b))
  | Some (sm, latest) =>
      if pn <? latest then None
      else if pn - latest =? 1 then
        Some (mkBhd (bursts b) (Some (Z.min sm len, pn)) (largest_post_loss b) (acked_mtu b) (bmin_mtu b))
      else
        let b1 := finish_loss_burst b in
        Some (mkBhd (bursts b1) (Some (len, pn)) (largest_post_loss b1) (acked_mtu b1) (bmin_mtu b1))
  end.

Definition bhd_black_hole_detected (b : Bhd) : Bhd * bool :=
  let b1 := finish_loss_burst b in
  if Z.of_nat (length (bursts b1)) <=? BHT then (b1, false)
  else (mkBhd [] (cur_burst b1) (largest_post_loss b1) (acked_mtu b1) (bmin_mtu b1), true).

(* ------------------------------------------------------------------ EnabledMtuDiscovery *)
Definition enabled_new (c : Config) : Enabled := mkEnabled Initial MAX_UDP_PAYLOAD c.

Definition set_phase (e : Enabled) (p : Phase) : Enabled := mkEnabled p (peer_max e) (config e).

(** The part of [poll_transmit] executed once the phase is [Searching s]. *)
Definition poll_searching (e : Enabled) (s : Search) (now next_pn : Z)
  : option (Enabled * option Z) :=
  match in_flight s with
  | Some _ => Some (set_phase e (Searching s), None)
  | None =>
      if (0 <? lost_count s) && (lost_count s <? MPR) then
        Some (set_phase e (Searching (set_in_flight s (Some next_pn))), Some (last_probed s))
      else
        let succeeded := lost_count s =? 0 in
        let s1 := if succeeded then s
                  else mkSearch (lower s) (upper s) (min_change s) (last_probed s) None 0 in
        match next_mtu_to_probe s1 succeeded with
        | None => None
        | Some (s2, Some p) =>
            Some (set_phase e (Searching
                    (mkSearch (lower s2) (upper s2) (min_change s2) p (Some next_pn) (lost_count s2))),
                  Some p)
        | Some (_, None) =>
            Some (set_phase e (Complete (now + c_interval (config e))), None)
        end
  end.

Definition enabled_poll (e : Enabled) (now current next_pn : Z) : option (Enabled * option Z) :=
  match phase e with
  | Initial => poll_searching e (search_new current (peer_max e) (config e)) now next_pn
  | Complete t =>
      if now <? t then Some (e, None)
      else poll_searching e (search_new current (peer_max e) (config e)) now next_pn
  | Searching s => poll_searching e s now next_pn
  end.

Definition enabled_on_probe_acked (e : Enabled) (pn : Z) : option (Enabled * Z) :=
  match phase e with
  | Searching s =>
      match in_flight s with
      | Some f =>
          if f =? pn then
            Some (set_phase e (Searching
                    (mkSearch (lower s) (upper s) (min_change s) (last_probed s) None 0)),
                  last_probed s)
          else None
      | None => None
      end
  | _ => None
  end.

Definition enabled_on_probe_lost (e : Enabled) : Enabled :=
  match phase e with
  | Searching s =>
      set_phase e (Searching
        (mkSearch (lower s) (upper s) (min_change s) (last_probed s) None (lost_count s + 1)))
  | _ => e
  end.

(* ------------------------------------------------------------------ MtuDiscovery *)
(** [None] = the debug assertion fires. *)
Definition on_peer_max (m : Mtud) (v : Z) : option Mtud :=
  let c := Z.min (cur m) v in
  match st m with
  | None => Some (mkMtud c None (bhd m))
  | Some e =>
      match phase e with
      | Searching _ => None
      | _ => Some (mkMtud c (Some (mkEnabled (phase e) v (config e))) (bhd m))
      end
  end.

Definition mtud_new (initial min_mtu : Z) (peer : option Z) (enabled : bool) (c : Config)
  : option Mtud :=
  if enabled then
    if initial <? min_mtu then None
    else
      let m := mkMtud initial (Some (enabled_new c)) (bhd_new min_mtu) in
      match peer with Some p => on_peer_max m p | None => Some m end
  else Some (mkMtud initial None (bhd_new min_mtu)).

Definition mtud_reset (m : Mtud) (current min_mtu : Z) : option Mtud :=
  match st m with
  | None => Some (mkMtud current None (bhd_new min_mtu))
  | Some e =>
      match on_peer_max (mkMtud current (Some (enabled_new (config e))) (bhd m)) (peer_max e) with
      | None => None
      | Some m' => Some (mkMtud (cur m') (st m') (bhd_new min_mtu))
      end
  end.

Definition in_flight_probe (m : Mtud) : option Z :=
  match st m with
  | Some e => match phase e with Searching s => in_flight s | _ => None end
  | None => None
  end.

Definition is_data (space : Z) : bool := negb ((space =? 0) || (space =? 1)).

Definition optz (o : option Z) : Z := match o with Some x => x | None => -1 end.
Definition b2z (b : bool) : Z := if b then 1 else 0.

(** One operation on an existing [MtuDiscovery]: new state and the return value. *)
Definition step (m : Mtud) (op : Op) : option (Mtud * Z) :=
  match op with
  | ONew i mn p en c =>
      match mtud_new i mn p en c with Some m' => Some (m', 0) | None => None end
  | OReset c mn =>
      match mtud_reset m c mn with Some m' => Some (m', 0) | None => None end
  | OPeerMax v =>
      match on_peer_max m v with Some m' => Some (m', 0) | None => None end
  | OPoll now pn =>
      match st m with
      | None => Some (m, -1)
      | Some e =>
          match enabled_poll e now (cur m) pn with
          | None => None
          | Some (e', r) => Some (mkMtud (cur m) (Some e') (bhd m), optz r)
          end
      end
  | OAcked space pn len =>
      if negb (is_data space) then Some (m, 0)
      else
        match match st m with Some e => enabled_on_probe_acked e pn | None => None end with
        | Some (e', new_mtu) =>
            Some (mkMtud new_mtu (Some e') (bhd_on_probe_acked (bhd m) pn len), 1)
        | None => Some (mkMtud (cur m) (st m) (bhd_on_non_probe_acked (bhd m) pn len), 0)
        end
  | OProbeLost =>
      Some (mkMtud (cur m) (match st m with Some e => Some (enabled_on_probe_lost e) | None => None end)
                   (bhd m), 0)
  | ONonProbeLost pn len =>
      match bhd_on_non_probe_lost (bhd m) pn len with
      | None => None
      | Some b => Some (mkMtud (cur m) (st m) b, 0)
      end
  | OBlackHole now =>
      let '(b, det) := bhd_black_hole_detected (bhd m) in
      if det then
        Some (mkMtud (if F8FIXED then Z.min (cur m) (bmin_mtu b) else bmin_mtu b)
                (match st m with
                 | Some e => Some (set_phase e (Complete (now + c_cooldown (config e))))
                 | None => None
                 end) b, 1)
      else Some (mkMtud (cur m) (st m) b, 0)
  end.

End WithConstants.

(* ------------------------------------------------------------------ integer interface *)
Definition dummy : Mtud := mkMtud 0 None (bhd_new 0).

Definition decode_op (op : list Z) : option Op :=
  match op with
  | [0; i; mn; p; en; up; iv; cd; mc] =>
      Some (ONew i mn (if p <? 0 then None else Some p) (negb (en =? 0)) (mkConfig up iv cd mc))
  | [1; c; mn] => Some (OReset c mn)
  | [2; v] => Some (OPeerMax v)
  | [3; now; pn] => Some (OPoll now pn)
  | [4; sp; pn; len] => Some (OAcked sp pn len)
  | [5] => Some OProbeLost
  | [6; pn; len] => Some (ONonProbeLost pn len)
  | [7; now] => Some (OBlackHole now)
  | _ => None
  end.

Definition obs (r : Z) (m : Mtud) : list Z := [r; cur m; optz (in_flight_probe m)].

Definition is_new (o : Op) : bool := match o with ONew _ _ _ _ _ => true | _ => false end.

(** Run the ops after the first; [None] = panic. *)
Fixpoint run_from (MPR BHT : Z) (fx : bool) (m : Mtud) (i : ops) : option outs :=
  match i with
  | [] => Some []
  | op :: rest =>
      match decode_op op with
      | None => match run_from MPR BHT fx m rest with Some o => Some ([-1] :: o) | None => None end
      | Some o =>
          if is_new o then
            match run_from MPR BHT fx m rest with Some o => Some ([-1] :: o) | None => None end
          else
            match step MPR BHT fx m o with
            | None => None
            | Some (m', r) =>
                match run_from MPR BHT fx m' rest with
                | Some o' => Some (obs r m' :: o')
                | None => None
                end
            end
      end
  end.

Definition run_with (MPR BHT : Z) (fx : bool) (i : ops) : outs :=
  match i with
  | [] => []
  | first :: rest =>
      match decode_op first with
      | Some (ONew a b c d e as o) =>
          match step MPR BHT fx dummy o with
          | None => [PANIC]
          | Some (m, r) =>
              match run_from MPR BHT fx m rest with
              | Some o' => obs r m :: o'
              | None => [PANIC]
              end
          end
      | _ => map (fun _ => [-2]) i
      end
  end.

Definition run (i : ops) : outs := run_with MAX_PROBE_RETRANSMITS BLACK_HOLE_THRESHOLD true i.

(* ------------------------------------------------------------------ oracle
   The property's observable conclusions, evaluated on the IMPLEMENTATION's outputs only
   (no model state): a small tracker over (ops, outputs) keeps
     current MTU and in-flight probe as last reported, min_mtu, peer limit, configured upper
     bound and minimum_change as given by the ops, the size of the outstanding probe as returned by
     [poll_transmit], and a spec-level count of loss bursts made only of packets > min_mtu since
     the evidence was last cleared. *)
Record Track := mkTrack {
  t_cur : Z; t_infl : Z; t_min : Z; t_peer : Z; t_upper : Z; t_mc : Z; t_enabled : bool;
  t_probe_size : Z;            (* size of the probe in flight, as returned by poll *)
  t_burst : option (Z * Z);    (* spec-level open burst: (smallest, latest pn) *)
  t_nbursts : Z;               (* closed bursts with smallest > min_mtu since last clear *)
  t_plow : Z                   (* lowest peer limit received so far *)
}.

Definition t_close (t : Track) : Track :=
  match t_burst t with
  | None => t
  | Some (sm, _) =>
      mkTrack (t_cur t) (t_infl t) (t_min t) (t_peer t) (t_upper t) (t_mc t) (t_enabled t)
              (t_probe_size t) None (if t_min t <? sm then t_nbursts t + 1 else t_nbursts t) (t_plow t)
  end.

Definition t_set (t : Track) (c f : Z) : Track :=
  mkTrack c f (t_min t) (t_peer t) (t_upper t) (t_mc t) (t_enabled t) (t_probe_size t)
          (t_burst t) (t_nbursts t) (t_plow t).

(** [fix_f8 = true] states the property at full strength (black-hole fallback never raises the
    estimate); [false] tolerates exactly the F8 class: a rise to [min_mtu] in [black_hole_detected]. *)
Definition oracle_step (BHT : Z) (t : Track) (op : Op) (out : list Z) : option Track :=
  match out with
  | [r; c; f] =>
      match op with
      | ONew _ _ _ _ _ => None
      | OReset c' mn =>

            (* the new estimate is the given one, never above the peer's limit
               (a disabled MtuDiscovery does not remember the limit: finding F8b) *)
            let t' := mkTrack c f mn (t_peer t) (t_upper t) (t_mc t) (t_enabled t) 0 None 0 (t_plow t) in
            if (f =? -1) && (c =? Z.min c' (t_peer t)) then Some t' else None
      | OPeerMax v =>
          let t' := mkTrack c f (t_min t) v (t_upper t) (t_mc t) (t_enabled t) (t_probe_size t)
                            (t_burst t) (t_nbursts t) (Z.min v (t_plow t)) in
          if (c =? Z.min (t_cur t) v) && (f =? t_infl t) then Some t' else None
      | OPoll now pn =>
          if negb (c =? t_cur t) then None
          else if r <? 0 then
            (* no probe: in-flight state unchanged *)
            if f =? t_infl t then Some (t_set t c f) else None
          else
            (* a probe of size r was issued *)
            if t_enabled t && (t_infl t =? -1) && (f =? pn)
               (* probe_bounds at full strength for every configuration; configurations with
                  minimum_change < 3 violate it (known finding mtud-minimum-change-below-3) *)
               && (t_cur t <? r) && (r <=? Z.min (t_upper t) (t_peer t))
            then Some (mkTrack c f (t_min t) (t_peer t) (t_upper t) (t_mc t) (t_enabled t) r
                               (t_burst t) (t_nbursts t) (t_plow t))
            else None
      | OAcked sp pn len =>
          if r =? 1 then
            (* the probe was acknowledged: MTU becomes exactly the probed size *)
            if is_data sp && (0 <=? t_infl t) && (pn =? t_infl t) && (f =? -1)
               && (c =? t_probe_size t) && (t_cur t <=? c)
            then Some (mkTrack c f (t_min t) (t_peer t) (t_upper t) (t_mc t) (t_enabled t) 0
                               (t_burst t) 0 (t_plow t))
            else None
          else
            if (c =? t_cur t) && (f =? t_infl t)
               && negb (is_data sp && (0 <=? t_infl t) && (pn =? t_infl t))
            then Some (t_set t c f) else None
      | OProbeLost =>
          if t_infl t =? -1 then
            (* outside the caller contract (no probe in flight): stop checking *)
            None
          else if (c =? t_cur t) && (f =? -1) then Some (t_set t c f) else None
      | ONonProbeLost pn len =>
          if negb ((c =? t_cur t) && (f =? t_infl t)) then None
          else
            let t1 := match t_burst t with
                      | Some (sm, latest) =>
                          if pn - latest =? 1 then
                            mkTrack c f (t_min t) (t_peer t) (t_upper t) (t_mc t) (t_enabled t)
                                    (t_probe_size t) (Some (Z.min sm len, pn)) (t_nbursts t) (t_plow t)
                          else
                            let t0 := t_close t in
                            mkTrack c f (t_min t) (t_peer t) (t_upper t) (t_mc t) (t_enabled t)
                                    (t_probe_size t) (Some (len, pn)) (t_nbursts t0) (t_plow t)
                      | None =>
                          mkTrack c f (t_min t) (t_peer t) (t_upper t) (t_mc t) (t_enabled t)
                                  (t_probe_size t) (Some (len, pn)) (t_nbursts t) (t_plow t)
                      end in
            Some t1
      | OBlackHole now =>
          let t0 := t_close t in
          if r =? 1 then
            (* declared: needs more than BHT bursts of large packets; falls back to min_mtu,
               never upwards, and stops the search *)
            if (BHT <? t_nbursts t0) && (c =? Z.min (t_cur t) (t_min t)) && (f =? -1)
            then Some (mkTrack c f (t_min t) (t_peer t) (t_upper t) (t_mc t) (t_enabled t) 0 None 0 (t_plow t))
            else None
          else
            if (c =? t_cur t) && (f =? t_infl t) then Some (t_set t0 c f) else None
      end
  | _ => None
  end.

(** [accepting] ops are those after which the oracle stops checking (contract left). *)
Definition leaves_contract (t : Track) (op : Op) : bool :=
  match op with
  | OReset c' mn => (c' <? mn) || (MAX_UDP_PAYLOAD <? c')
  | OProbeLost => t_infl t =? -1
  | _ => false
  end.

Fixpoint oracle_from (BHT : Z) (t : Track) (i : ops) (o : outs) : bool :=
  match i, o with
  | [], [] => true
  | op :: i', out :: o' =>
      match decode_op op with
      | None => lz_eqb out [-1] && oracle_from BHT t i' o'
      | Some d =>
          if is_new d then lz_eqb out [-1] && oracle_from BHT t i' o'
          else if leaves_contract t d then true
          else match oracle_step BHT t d out with
               | Some t' =>
                   (* mtu_floor: never below min(min_mtu, lowest peer limit received) *)
                   (Z.min (t_min t') (t_plow t') <=? t_cur t') && oracle_from BHT t' i' o'
               | None => false
               end
      end
  | _, _ => false
  end.

(** Panics are part of the contract only where the debug assertions document them; the oracle
    accepts a panicking case iff the op sequence contains one of the documented triggers
    (checked by the model equality, code 1 otherwise), so here it only checks shape. *)
Definition oracle_with (BHT : Z) (i : ops) (o : outs) : bool :=
  if llz_eqb o [PANIC] then true
  else
    match i, o with
    | [], [] => true
    | first :: rest, out0 :: o' =>
        match decode_op first with
        | Some (ONew ini mn p en c) =>
            match out0 with
            | [0; c0; -1] =>
                if (ini <? mn) || (MAX_UDP_PAYLOAD <? ini) then true (* outside the caller contract *) else
                let peer := match p with Some v => v | None => MAX_UDP_PAYLOAD end in
                let plow := match p with Some v => v | None => 65535 end in
                (c0 =? Z.min ini plow) &&
                oracle_from BHT (mkTrack c0 (-1) mn peer (c_upper c) (c_min_change c) en 0 None 0 plow) rest o'
            | _ => false
            end
        | _ => llz_eqb o (map (fun _ => [-2]) i)
        end
    | _, _ => false
    end.

Definition oracle (i : ops) (o : outs) : bool := oracle_with BLACK_HOLE_THRESHOLD i o.
