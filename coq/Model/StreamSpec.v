(** The specification of C11: the RFC 9000 §3 stream state machines extended with the outcome of
    every application operation — definitions only.

    A stream half that is absent from the maps does not exist for the application: it was never
    created (beyond the stream limit / not opened) or it is terminal; every operation on it reports
    a closed stream and every frame for it is ignored.
    Receive half (RFC: Recv, SizeKnown/DataRecvd, ResetRecvd; terminal = DataRead/ResetRead):
      [PRecv size] data may arrive and be read; [PReset code] reset received, not yet observed;
      [PStopped] stopped by the application, final size still unknown.
    Send half (RFC: Ready/Send, DataSent, ResetSent; terminal = DataRecvd/ResetRecvd):
      [PReady], [PDataSent fin_acked], [PResetSent], with the peer's STOP_SENDING code.
    A remotely initiated stream stops counting against the concurrency limit — [max_remote] of its
    direction grows by one and the next stream id comes into existence — exactly when its last
    live half becomes terminal.
    Whether a frame is acceptable under flow control / final-size rules is C06's concern: the spec
    takes "accepted" as an input.  Buffered data is [FlowRecv.asm] (lengths only). *)
From Coq Require Import ZArith List Bool.
From QV Require Import Lib.Corr Model.FlowRecv.
Import ListNotations.
Open Scope Z_scope.

Inductive rphase := PRecv (size : option Z) | PReset (code : Z) | PStopped.
Record rhalf := mkRh { rp : rphase; rbuf : asm }.
Inductive sphase := PReady | PDataSent (fin_acked : bool) | PResetSent.
Record shalf := mkSh { sp : sphase; sstop : option Z; swritten : Z; sacked : list (Z * Z) }.

Definition rh_new : rhalf := mkRh (PRecv None) asm_new.
Definition sh_new : shalf := mkSh PReady None 0 [].

Record spec := mkSpec {
  x_side : Z;
  x_rh : list (Z * rhalf);
  x_sh : list (Z * shalf);
  x_next : Z * Z; x_maxl : Z * Z; x_max_remote : Z * Z;
  x_next_remote : Z * Z; x_opened : bool * bool; x_next_rep : Z * Z;
  x_events : list (list Z) }.

Definition upd_rh v x := mkSpec (x_side x) v (x_sh x) (x_next x) (x_maxl x) (x_max_remote x)
  (x_next_remote x) (x_opened x) (x_next_rep x) (x_events x).
Definition upd_sh v x := mkSpec (x_side x) (x_rh x) v (x_next x) (x_maxl x) (x_max_remote x)
  (x_next_remote x) (x_opened x) (x_next_rep x) (x_events x).
Definition upd_next v x := mkSpec (x_side x) (x_rh x) (x_sh x) v (x_maxl x) (x_max_remote x)
  (x_next_remote x) (x_opened x) (x_next_rep x) (x_events x).
Definition upd_max_remote v x := mkSpec (x_side x) (x_rh x) (x_sh x) (x_next x) (x_maxl x) v
  (x_next_remote x) (x_opened x) (x_next_rep x) (x_events x).
Definition upd_used nr op x := mkSpec (x_side x) (x_rh x) (x_sh x) (x_next x) (x_maxl x)
  (x_max_remote x) nr op (x_next_rep x) (x_events x).
Definition upd_opened v x := upd_used (x_next_remote x) v x.
Definition upd_next_rep v x := mkSpec (x_side x) (x_rh x) (x_sh x) (x_next x) (x_maxl x)
  (x_max_remote x) (x_next_remote x) (x_opened x) v (x_events x).
Definition upd_events v x := mkSpec (x_side x) (x_rh x) (x_sh x) (x_next x) (x_maxl x)
  (x_max_remote x) (x_next_remote x) (x_opened x) (x_next_rep x) v.
Definition push_event e x := upd_events (x_events x ++ [e]) x.

Definition is_remote (x : spec) (id : Z) : bool := negb (sid_init id =? x_side x).

(** A stream comes into existence. *)
Definition create (remote : bool) (id : Z) (x : spec) : spec :=
  let bi := sid_dir id =? 0 in
  let x1 := if bi || negb remote then upd_sh (aset id sh_new (x_sh x)) x else x in
  if bi || remote then upd_rh (aset id rh_new (x_rh x1)) x1 else x1.

Fixpoint create_remote_range (n : nat) (d from : Z) (x : spec) : spec :=
  match n with
  | O => x
  | S n' => create_remote_range n' d (from + 1) (create true (mk_sid (1 - x_side x) d from) x)
  end.

(** Called after a half of [id] was removed: a remote stream with no live half left returns its
    concurrency credit. *)
Definition credit_if_done (id : Z) (x : spec) : spec :=
  if is_remote x id && negb (amem id (x_rh x)) && negb (amem id (x_sh x)) then
    let d := sid_dir id in
    let m := pget d (x_max_remote x) in
    create true (mk_sid (1 - x_side x) d m) (upd_max_remote (pset d (m + 1) (x_max_remote x)) x)
  else x.
Definition term_recv (id : Z) (x : spec) : spec :=
  credit_if_done id (upd_rh (aremove id (x_rh x)) x).
Definition term_send (id : Z) (x : spec) : spec :=
  credit_if_done id (upd_sh (aremove id (x_sh x)) x).

(** The peer used stream [id] (Opened / Readable events). *)
Definition used (notify : bool) (id : Z) (x : spec) : spec :=
  if is_remote x id then
    let d := sid_dir id in
    if pget d (x_next_remote x) <=? sid_index id
    then upd_used (pset d (sid_index id + 1) (x_next_remote x)) (pset d true (x_opened x)) x
    else if notify then push_event [2; id] x else x
  else if notify then push_event [2; id] x else x.

(** * Receive half *)
Definition spec_stream_frame (id off len : Z) (fin : bool) (x : spec) : spec :=
  match alookup id (x_rh x) with
  | None => x
  | Some h =>
      match rp h with
      | PRecv size =>
          let h' := mkRh (PRecv (if fin then Some (off + len) else size))
                         (asm_insert (rbuf h) off len) in
          used true id (upd_rh (aset id h' (x_rh x)) x)
      | PStopped => if fin then term_recv id x else x
      | PReset _ => x
      end
  end.

Definition spec_reset_frame (id code : Z) (x : spec) : spec :=
  match alookup id (x_rh x) with
  | None => x
  | Some h =>
      match rp h with
      | PRecv _ => used true id (upd_rh (aset id (mkRh (PReset code) (asm_clear (rbuf h))) (x_rh x)) x)
      | PStopped => used false id (term_recv id x)
      | PReset _ => x
      end
  end.

(** read: [1] closed | [2] illegal ordered read | [0; bytes; term; code]. *)
Definition spec_read (id : Z) (ordered : bool) (budget : Z) (x : spec) : spec * list Z :=
  match alookup id (x_rh x) with
  | None => (x, [1])
  | Some h =>
      match rp h with
      | PStopped => (x, [1])
      | _ =>
          match asm_ensure (rbuf h) ordered with
          | None => (x, [2])
          | Some a1 =>
              let '(a2, total, none) := asm_read a1 budget in
              let h' := mkRh (rp h) a2 in
              if none then
                match rp h with
                | PReset c => (term_recv id x, [0; total; 3; c])
                | PRecv (Some z) =>
                    if a_read a2 =? z then (term_recv id x, [0; total; 2; 0])
                    else (upd_rh (aset id h' (x_rh x)) x, [0; total; 1; 0])
                | _ => (upd_rh (aset id h' (x_rh x)) x, [0; total; 1; 0])
                end
              else (upd_rh (aset id h' (x_rh x)) x, [0; total; 0; 0])
          end
      end
  end.

Definition spec_stop (id : Z) (x : spec) : spec * list Z :=
  match alookup id (x_rh x) with
  | None => (x, [1])
  | Some h =>
      match rp h with
      | PStopped => (x, [1])
      | PRecv None => (upd_rh (aset id (mkRh PStopped (asm_clear (rbuf h))) (x_rh x)) x, [0])
      | _ => (term_recv id x, [0])
      end
  end.

Definition spec_received_reset (id : Z) (x : spec) : spec * list Z :=
  match alookup id (x_rh x) with
  | None => (x, [1])
  | Some h =>
      match rp h with
      | PStopped => (x, [1])
      | PReset c => (term_recv id x, [0; 1; c])
      | PRecv _ => (x, [0; 0])
      end
  end.

(** * Send half *)
Definition spec_write (id n : Z) (x : spec) : spec * list Z :=
  match alookup id (x_sh x) with
  | None => (x, [3])
  | Some h =>
      match sp h, sstop h with
      | PReady, None =>
          (upd_sh (aset id (mkSh PReady None (swritten h + Z.max 0 n) (sacked h)) (x_sh x)) x,
           [0; Z.max 0 n])
      | PReady, Some c => (x, [2; c])
      | _, _ => (x, [3])
      end
  end.

Definition spec_finish (id : Z) (x : spec) : spec * list Z :=
  match alookup id (x_sh x) with
  | None => (x, [3])
  | Some h =>
      match sstop h, sp h with
      | Some c, _ => (x, [2; c])
      | None, PReady =>
          (upd_sh (aset id (mkSh (PDataSent false) None (swritten h) (sacked h)) (x_sh x)) x, [0])
      | None, _ => (x, [3])
      end
  end.

Definition spec_reset (id : Z) (x : spec) : spec * list Z :=
  match alookup id (x_sh x) with
  | None => (x, [3])
  | Some h =>
      match sp h with
      | PResetSent => (x, [3])
      | _ => (upd_sh (aset id (mkSh PResetSent (sstop h) (swritten h) (sacked h)) (x_sh x)) x, [0])
      end
  end.

Definition spec_stopped (id : Z) (x : spec) : spec * list Z :=
  match alookup id (x_sh x) with
  | None => (x, [3])
  | Some h => (x, match sstop h with Some c => [0; 1; c] | None => [0; 0] end)
  end.

Definition spec_stop_sending (id code : Z) (x : spec) : spec :=
  match alookup id (x_sh x) with
  | None => x
  | Some h =>
      match sstop h with
      | Some _ => x
      | None =>
          used false id
            (push_event [5; id; code]
               (upd_sh (aset id (mkSh (sp h) (Some code) (swritten h) (sacked h)) (x_sh x)) x))
      end
  end.

Definition covers (acked : list (Z * Z)) (written : Z) : bool :=
  (written =? 0) ||
  match acked with [(a, b)] => (a =? 0) && (b =? written) | _ => false end.

(** Acknowledgement of a sent STREAM frame [a, b) (+ FIN). *)
Definition spec_ack (id a b : Z) (fin : bool) (x : spec) : spec :=
  match alookup id (x_sh x) with
  | None => x
  | Some h =>
      match sp h with
      | PResetSent => x
      | PReady =>
          upd_sh (aset id (mkSh PReady (sstop h) (swritten h) (rs_add a b (sacked h))) (x_sh x)) x
      | PDataSent fa =>
          let acked := rs_add a b (sacked h) in
          let fa' := fa || fin in
          if fa' && covers acked (swritten h)
          then push_event [4; id] (term_send id x)
          else upd_sh (aset id (mkSh (PDataSent fa') (sstop h) (swritten h) acked) (x_sh x)) x
      end
  end.

Definition spec_reset_acked (id : Z) (x : spec) : spec :=
  match alookup id (x_sh x) with
  | Some h => match sp h with PResetSent => term_send id x | _ => x end
  | None => x
  end.

(** * Streams *)
Definition spec_open (d : Z) (x : spec) : spec * list Z :=
  if pget d (x_maxl x) <=? pget d (x_next x) then (x, [1])
  else
    let id := mk_sid (x_side x) d (pget d (x_next x)) in
    (create false id (upd_next (pset d (pget d (x_next x) + 1) (x_next x)) x), [0; id]).

Definition spec_accept (d : Z) (x : spec) : spec * list Z :=
  if pget d (x_next_remote x) =? pget d (x_next_rep x) then (x, [1])
  else
    let n := pget d (x_next_rep x) in
    (upd_next_rep (pset d (n + 1) (x_next_rep x)) x, [0; mk_sid (1 - x_side x) d n]).

Definition spec_poll (x : spec) : spec * list Z :=
  if fst (x_opened x) then (upd_opened (false, snd (x_opened x)) x, [1; 0])
  else if snd (x_opened x) then (upd_opened (false, false) x, [1; 1])
  else match x_events x with
       | [] => (x, [0])
       | e :: r => (upd_events r x, e)
       end.

Definition spec_init (sd mru mrb pmb pmu : Z) : spec :=
  create_remote_range (Z.to_nat mru) 1 0
    (create_remote_range (Z.to_nat mrb) 0 0
       (mkSpec sd [] [] (0, 0) (pmb, pmu) (mrb, mru) (0, 0) (false, false) (0, 0) [])).

(** * The spec as oracle: it predicts every API result from the op sequence.
    Inputs taken from the implementation's outputs: whether a frame was accepted (result 0),
    and which sent frame an ack op refers to. *)
Definition zn (k : nat) (l : list Z) : Z := nth k l 0.
Definition prefix_eq (want got : list Z) : bool :=
  lz_eqb want (firstn (length want) got).

(** Predicted result and next spec state; [None] = nothing to predict for this op. *)
Definition spec_step (x : spec) (op o : list Z) : spec * option (list Z) :=
  match op with
  | [1; id; off; len; fin] =>
      (if zn 0 o =? 0 then spec_stream_frame id off len (negb (fin =? 0)) x else x, None)
  | [2; id; code; final] => (if zn 0 o =? 0 then spec_reset_frame id code x else x, None)
  | [3; id; ordered; budget] =>
      let '(x', r) := spec_read id (negb (ordered =? 0)) budget x in (x', Some r)
  | [4; id; code] => let '(x', r) := spec_stop id x in (x', Some r)
  | [5; id] => let '(x', r) := spec_received_reset id x in (x', Some r)
  | [8; d] => let '(x', r) := spec_open (if d =? 0 then 0 else 1) x in (x', Some r)
  | [9; d] => let '(x', r) := spec_accept (if d =? 0 then 0 else 1) x in (x', Some r)
  | [10; id; n] => let '(x', r) := spec_write id n x in (x', Some r)
  | [11; id] => let '(x', r) := spec_finish id x in (x', Some r)
  | [12; id; code] => let '(x', r) := spec_reset id x in (x', Some r)
  | [13; id] => let '(x', r) := spec_stopped id x in (x', Some r)
  | [14; id; code] => (spec_stop_sending id code x, None)
  | [16; k] =>
      (if zn 0 o =? 0 then spec_ack (zn 1 o) (zn 2 o) (zn 3 o) (negb (zn 4 o =? 0)) x else x, None)
  | [17; id] => (spec_reset_acked id x, None)
  | [18] => let '(x', r) := spec_poll x in (x', Some (firstn 5 (r ++ [0; 0; 0; 0; 0])))
  | _ => (x, None)
  end.

(** Counters and half presence reported by the implementation must agree with the spec. *)
Definition agree (x : spec) (op o : list Z) : bool :=
  let g := firstn 22 (skipn 5 o) in
  (zn 5 g =? fst (x_max_remote x)) && (zn 6 g =? snd (x_max_remote x))
  && (zn 11 g =? fst (x_next_remote x)) && (zn 12 g =? snd (x_next_remote x))
  && (zn 13 g =? fst (x_next_rep x)) && (zn 14 g =? snd (x_next_rep x))
  && (zn 15 g =? fst (x_next x)) && (zn 16 g =? snd (x_next x))
  && match op with
     | [7; _; _; _] | [8; _] | [9; _] | [15] | [16; _] | [18] | [19; _] | [6; _] => true
     | _ :: id :: _ =>
         let s := firstn 14 (skipn 27 o) in
         Bool.eqb (negb (zn 0 s =? 0)) (amem id (x_rh x))
         && Bool.eqb (negb (zn 8 s =? 0)) (amem id (x_sh x))
     | _ => true
     end.

Fixpoint spec_oracle_from (x : spec) (i : ops) (o : outs) : bool :=
  match i, o with
  | [], [] => true
  | op :: i', out :: o' =>
      let '(x', want) := spec_step x op out in
      (match want with Some r => prefix_eq r out | None => true end)
      && agree x' op out && spec_oracle_from x' i' o'
  | _, _ => false
  end.

Definition spec_oracle (i : ops) (o : outs) : bool :=
  match o with
  | [[-999]] => true
  | _ =>
      match i, o with
      | [0; sd; mru; mrb; rw; srw; pmb; pmu] :: i', _ :: o' =>
          spec_oracle_from (spec_init sd mru mrb pmb pmu) i' o'
      | _, _ => true
      end
  end.

(** Diagnostics: per-op verdicts. *)
Fixpoint spec_trace_from (x : spec) (i : ops) (o : outs) : list bool :=
  match i, o with
  | op :: i', out :: o' =>
      let '(x', want) := spec_step x op out in
      ((match want with Some r => prefix_eq r out | None => true end) && agree x' op out)
        :: spec_trace_from x' i' o'
  | _, _ => []
  end.
Definition oracle_trace (i : ops) (o : outs) : list bool :=
  match i, o with
  | [0; sd; mru; mrb; rw; srw; pmb; pmu] :: i', _ :: o' =>
      true :: spec_trace_from (spec_init sd mru mrb pmb pmu) i' o'
  | _, _ => []
  end.
