(** Model of [BloomTokenLog] (quinn-proto/src/bloom_token_log.rs) — definitions only.

    Times and lifetimes are integer microseconds since the Unix epoch.  A period filter is an
    abstract set of 64-bit fingerprints ([nonce as u64]) plus its representation tag:
    - [Set] (exact [HashSet]): membership is exact;
    - [Bloom]: NO false negatives; a false positive (rejecting a fingerprint that is not in the
      set) is an oracle value ([fp_reject]) supplied with each operation — the theorems quantify
      over all oracle values, the correspondence takes them from a first pass over the real log
      and accepts them only while the filter really is in Bloom representation.
    The Set -> Bloom switch happens when [hset.capacity() * 8 > filter_max_bytes]; the capacity of
    the standard library's hash set after [n] insertions into an empty one is [hb_capacity n]. *)
From Coq Require Import ZArith List Bool.
From QV Require Import Lib.Corr.
Import ListNotations.
Open Scope Z_scope.

Record filter := mkF { is_bloom : bool; elems : list Z }.
Definition empty_filter : filter := mkF false [].

Record t := mk { p1s : Z; f1 : filter; f2 : filter }.
Definition init : t := mk 0 empty_filter empty_filter.

Fixpoint mem (x : Z) (l : list Z) : bool :=
  match l with
  | [] => false
  | y :: l' => Z.eqb x y || mem x l'
  end.

(** hashbrown: 4 buckets -> 3, 8 -> 7, then buckets/8*7 with buckets doubling. *)
Fixpoint hb_grow (fuel : nat) (c n : Z) : Z :=
  match fuel with
  | O => c
  | S f => if n <=? c then c else hb_grow f (2 * c) n
  end.
Definition hb_capacity (n : Z) : Z :=
  if n <=? 0 then 0 else if n <=? 3 then 3 else if n <=? 7 then 7 else hb_grow 60 14 n.

Definition zlen (l : list Z) : Z := Z.of_nat (length l).

(** [Filter::check_and_insert(fingerprint, config)]: (filter', accepted). *)
Definition filter_check (fmb : Z) (f : filter) (fp : Z) (fp_reject : bool) : filter * bool :=
  if mem fp (elems f) then (f, false)
  else if is_bloom f then
    (* the bits of [fp] are set either way *)
    (mkF true (fp :: elems f), negb fp_reject)
  else
    let e' := fp :: elems f in
    (mkF (negb (hb_capacity (zlen e') * 8 <=? fmb)) e', true).

(** [check_and_insert(nonce, issued, lifetime)] *)
Definition check (fmb : Z) (s : t) (nonce issued lifetime : Z) (fp_reject : bool) : t * bool :=
  if lifetime =? 0 then (s, false)
  else
    let e := issued + lifetime in
    if e <? p1s s then (s, false)
    else
      let fp := nonce mod 2 ^ 64 in
      let pf := (e - p1s s) / lifetime in
      if pf =? 0 then
        let '(f, r) := filter_check fmb (f1 s) fp fp_reject in (mk (p1s s) f (f2 s), r)
      else if pf =? 1 then
        let '(f, r) := filter_check fmb (f2 s) fp fp_reject in (mk (p1s s) (f1 s) f, r)
      else if pf =? 2 then
        let '(f, r) := filter_check fmb empty_filter fp fp_reject in
        (mk (p1s s + lifetime) (f2 s) f, r)
      else
        let '(f, r) := filter_check fmb empty_filter fp fp_reject in
        (mk e f empty_filter, r).

Definition b2z (b : bool) : Z := if b then 1 else 0.

Definition obs (s : t) (r : bool) : list Z :=
  [b2z r; p1s s;
   b2z (is_bloom (f1 s)); (if is_bloom (f1 s) then 0 else zlen (elems (f1 s)));
   b2z (is_bloom (f2 s)); (if is_bloom (f2 s) then 0 else zlen (elems (f2 s)))].

(** interpreter state: (filter_max_bytes, default lifetime, log) *)
Definition step (fmb lt : Z) (s : t) (op : list Z) : t * list Z :=
  match op with
  | [1; hi; lo; issued; hint] =>
      let '(s', r) := check fmb s (hi * 2 ^ 64 + lo) issued lt (Z.eqb hint 0) in (s', obs s' r)
  | [2; hi; lo; issued; lifetime; hint] =>
      let '(s', r) := check fmb s (hi * 2 ^ 64 + lo) issued lifetime (Z.eqb hint 0) in (s', obs s' r)
  | _ => (s, [-1])
  end.

Fixpoint run_from (fmb lt : Z) (s : t) (i : ops) : outs :=
  match i with
  | [] => []
  | op :: i' => let '(s', o) := step fmb lt s op in o :: run_from fmb lt s' i'
  end.

Definition run (i : ops) : outs :=
  match i with
  | [0; max_bytes; _; lt] :: i' => [0] :: run_from (max_bytes / 2) lt init i'
  | _ => run_from 0 0 init i        (* no configuration op: as if it were [0; 0; 0; 0] *)
  end.

(** Oracle on the implementation's outputs: with one non-zero lifetime in use, no
    (nonce, issued) pair is accepted twice; zero lifetime is always rejected. *)
Fixpoint mem3 (a b c : Z) (l : list (Z * Z * Z)) : bool :=
  match l with
  | [] => false
  | (x, y, z) :: l' => (Z.eqb a x && Z.eqb b y && Z.eqb c z) || mem3 a b c l'
  end.

Definition accepted (o : list Z) : bool :=
  match o with r :: _ => Z.eqb r 1 | [] => false end.

Fixpoint single_lifetime (lt : Z) (i : ops) : bool :=
  match i with
  | [] => true
  | [2; _; _; _; l; _] :: i' => ((Z.eqb l 0) || (Z.eqb l lt)) && single_lifetime lt i'
  | _ :: i' => single_lifetime lt i'
  end.

Fixpoint oracle_from (check_reuse : bool) (lt : Z) (acc : list (Z * Z * Z)) (i : ops) (o : outs) : bool :=
  match i, o with
  | [], [] => true
  | op :: i', out :: o' =>
      let key :=
        match op with
        | [1; hi; lo; issued; _] => Some (hi, lo, issued, lt)
        | [2; hi; lo; issued; l; _] => Some (hi, lo, issued, l)
        | _ => None
        end in
      match key with
      | Some (hi, lo, issued, l) =>
          if accepted out then
            negb (Z.eqb l 0) && negb (check_reuse && mem3 hi lo issued acc)
            && oracle_from check_reuse lt ((hi, lo, issued) :: acc) i' o'
          else oracle_from check_reuse lt acc i' o'
      | None => oracle_from check_reuse lt acc i' o'
      end
  | _, _ => false
  end.

Definition oracle (i : ops) (o : outs) : bool :=
  match i, o with
  | [0; _; _; lt] :: i', _ :: o' => oracle_from (single_lifetime lt i') lt [] i' o'
  | _, _ => oracle_from (single_lifetime 0 i) 0 [] i o
  end.
