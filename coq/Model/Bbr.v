(** Model of [Bbr] (quinn-proto/src/congestion/bbr/{mod,bw_estimation,min_max}.rs) — definitions only.

    Everything that determines [window()] is modelled: modes, recovery state machine, cwnd and
    recovery-window arithmetic, round counting, the bandwidth sampler (integer arithmetic), the
    ack-aggregation max filter (Kathleen Nichols' windowed max), min-RTT tracking and ProbeRtt
    timing. u64 arithmetic is checked ([None] = debug-build panic). NOT modelled because it never
    feeds back into [window()]: pacing gain / gain cycle (and its random offset) and pacing rate.

    The only float-derived quantity that matters is
      [get_target_cwnd(gain) = let c = ((gain as f64 * bdp as f64) / 1e6) as u64 in
                               if c == 0 { init_cwnd } else { max c min_cwnd }].
    Its raw value [c] is an ORACLE value supplied with every step, one per gain used
    (0.75, 1.0 and the current cwnd gain). The theorems hold for ALL oracle values. In the
    correspondence ([run]) they are read back from the implementation (three trailing hint
    arguments per op = the three targets observed after that call on the real controller; within
    one call bandwidth, min-RTT and the window bounds do not change before the targets are used, so
    the values observed after the call are the values used inside it) and [run] insists that each
    lies within 1 of the exact rational gain * bdp / 10^6 (for bdp < 2^50). Relational tie.

    [fx] selects the behaviour of [on_mtu_update]: [false] = as found (recovery_window left alone,
    DESIGN §7 F7), [true] = with the repair [recovery_window = max(recovery_window, min_cwnd)]. *)
From Coq Require Import ZArith List Bool.
From QV Require Import Lib.Corr Lib.Chk.
Import ListNotations.
Open Scope Z_scope.

(** Windowed max filter (min_max.rs), window = 10 rounds; a sample is (round, value). *)
Record mm := mkmm { m0 : Z * Z; m1 : Z * Z; m2 : Z * Z }.
Definition mm_zero : mm := mkmm (0, 0) (0, 0) (0, 0).
Definition mm_get (f : mm) : Z := snd (m0 f).
Definition MM_WINDOW : Z := 10.

Definition mm_subwin (f : mm) (s : Z * Z) : mm :=
  let dt := fst s - fst (m0 f) in
  if MM_WINDOW <? dt then
    let f1 := mkmm (m1 f) (m2 f) s in
    if MM_WINDOW <? fst s - fst (m0 f1) then mkmm (m1 f1) (m2 f1) s else f1
  else if (fst (m1 f) =? fst (m0 f)) && (MM_WINDOW / 4 <? dt) then mkmm (m0 f) s s
  else if (fst (m2 f) =? fst (m1 f)) && (MM_WINDOW / 2 <? dt) then mkmm (m0 f) (m1 f) s
  else f.

Definition mm_update (f : mm) (round meas : Z) : mm :=
  let s := (round, meas) in
  if (snd (m0 f) =? 0) || (snd (m0 f) <=? meas) || (MM_WINDOW <? round - fst (m2 f)) then mkmm s s s
  else
    let f' := if snd (m1 f) <=? meas then mkmm (m0 f) s s
              else if snd (m2 f) <=? meas then mkmm (m0 f) (m1 f) s else f in
    mm_subwin f' s.

Record st := mk {
  mtu : Z; min_cwnd : Z; init_cwnd : Z; iwc : Z;
  cwnd : Z; rwin : Z; rec : Z; mode : Z; full_bw : bool; derived : bool;
  (* bandwidth sampler *)
  total_acked : Z; prev_total_acked : Z; acked_time : option Z; prev_acked_time : option Z;
  total_sent : Z; prev_total_sent : Z; sent_time : option Z; prev_sent_time : option Z;
  bw : Z; acked_at_last_window : Z;
  (* counters *)
  acked_bytes : Z; lost_bytes : Z; max_sent_pn : Z; max_acked_pn : Z; end_recovery_pn : Z;
  round_end_pn : Z; round_count : Z; bw_at_last_round : Z; round_wo_bw_gain : Z;
  (* ack aggregation *)
  height : mm; epoch_start : option Z; epoch_bytes : Z;
  (* probe rtt *)
  exit_at : option Z; last_started : option Z; min_rtt : Z
}.

Definition build (initial_window m : Z) : st :=
  mk m (4 * m) initial_window initial_window
     initial_window 0 0 0 false false
     0 0 None None 0 0 None None 0 0
     0 0 0 0 0 0 0 0 0
     mm_zero None 0
     None None 0.

(** [get_target_cwnd] from its raw float result. *)
Definition target (s : st) (raw : Z) : Z :=
  if raw =? 0 then init_cwnd s else Z.max raw (min_cwnd s).

(** [window()]. *)
Definition window (s : st) (r075 : Z) : Z :=
  if mode s =? 3 then target s r075
  else if negb (rec s =? 0) && negb (mode s =? 0) then Z.min (cwnd s) (rwin s)
  else cwnd s.

Definition sat_since (now : Z) (t : Z) : Z := Z.max 0 (now - t).

(** [BandwidthEstimation::bw_from_delta(bytes, delta)] with delta in microseconds:
    outer [None] = panic, inner [None] = zero duration. *)
Definition bw_from_delta (bytes delta_us : Z) : option (option Z) :=
  if delta_us * 1000 =? 0 then Some None
  else do b <- cmul bytes 1000000000; Some (Some (b / (delta_us * 1000))).

Definition min_rtt_expired (s : st) (now : Z) (app_limited : bool) : bool :=
  negb app_limited &&
  match last_started s with
  | Some l => 10000000 <? sat_since now l
  | None => true
  end.

Definition on_sent (s : st) (now bytes pn : Z) : option st :=
  do ts <- cadd (total_sent s) bytes;
  Some (mk (mtu s) (min_cwnd s) (init_cwnd s) (iwc s) (cwnd s) (rwin s) (rec s) (mode s) (full_bw s) (derived s)
     (total_acked s) (prev_total_acked s) (acked_time s) (prev_acked_time s)
     ts (total_sent s) (Some now) (sent_time s) (bw s) (acked_at_last_window s)
     (acked_bytes s) (lost_bytes s) pn (max_acked_pn s) (end_recovery_pn s)
     (round_end_pn s) (round_count s) (bw_at_last_round s) (round_wo_bw_gain s)
     (height s) (epoch_start s) (epoch_bytes s) (exit_at s) (last_started s) (min_rtt s)).

Definition on_ack (s : st) (now bytes : Z) (app_limited : bool) (rtt_min : Z) : option st :=
  do ta <- cadd (total_acked s) bytes;
  let pat := acked_time s in
  (* the sample *)
  do bw' <-
    match prev_sent_time s with
    | None => Some (bw s)
    | Some pst =>
        do send_rate <-
          match sent_time s with
          | Some stt =>
              if pst <? stt then
                do r <- bw_from_delta (total_sent s - prev_total_sent s) (stt - pst);
                Some (match r with Some x => x | None => 0 end)
              else Some U64MAX
          | None => Some U64MAX
          end;
        do ack_rate <-
          match pat with
          | Some p =>
              do r <- bw_from_delta bytes (sat_since now p);
              Some (match r with Some x => x | None => 0 end)
          | None => Some 0
          end;
        let bandwidth := Z.min send_rate ack_rate in
        Some (if negb app_limited && (bw s <? bandwidth) then bandwidth else bw s)
    end;
  do ab <- cadd (acked_bytes s) bytes;
  let mr := if min_rtt_expired s now app_limited || (rtt_min <? min_rtt s) then rtt_min else min_rtt s in
  Some (mk (mtu s) (min_cwnd s) (init_cwnd s) (iwc s) (cwnd s) (rwin s) (rec s) (mode s) (full_bw s) (derived s)
     ta (total_acked s) (Some now) pat
     (total_sent s) (prev_total_sent s) (sent_time s) (prev_sent_time s) bw' (acked_at_last_window s)
     ab (lost_bytes s) (max_sent_pn s) (max_acked_pn s) (end_recovery_pn s)
     (round_end_pn s) (round_count s) (bw_at_last_round s) (round_wo_bw_gain s)
     (height s) (epoch_start s) (epoch_bytes s) (exit_at s) (last_started s) mr).

(** Everything [on_end_acks] decides before it recomputes the two windows. *)
Record pre := mkpre {
  p_bytes_acked : Z; p_excess : Z; p_height : mm; p_epoch_start : option Z; p_epoch_bytes : Z;
  p_max_acked : Z; p_end_rec : Z; p_round_end : Z; p_round_count : Z; p_bwlr : Z; p_rwo : Z;
  p_full : bool; p_rec : Z; p_rwin : Z; p_mode : Z; p_derived : bool; p_exit : option Z;
  p_started : option Z
}.

Definition end_acks_pre (s : st) (now in_flight : Z) (app_limited : bool) (largest : option Z)
           (r075 r1 : Z) : option pre :=
  let bytes_acked := total_acked s - acked_at_last_window s in
  (* update_ack_aggregation_bytes *)
  do expected0 <- cmul (bw s) (sat_since now (match epoch_start s with Some e => e | None => now end));
  let expected := expected0 / 1000000 in
  do agg <-
    (if epoch_bytes s <=? expected then Some (height s, Some now, bytes_acked, 0)
     else
       do eb <- cadd (epoch_bytes s) bytes_acked;
       let diff := eb - expected in
       Some (mm_update (height s) (round_count s) diff, epoch_start s, eb, diff));
  let '(height1, epoch_start', epoch_bytes', excess_acked) := agg in
  let max_acked := match largest with Some l => l | None => max_acked_pn s end in
  let is_round_start := (0 <? bytes_acked) && (round_end_pn s <? max_acked) in
  do round_count' <- (if is_round_start then cadd (round_count s) 1 else Some (round_count s));
  let round_end1 := if is_round_start then max_sent_pn s else round_end_pn s in
  (* update_recovery_state *)
  let has_losses := negb (lost_bytes s =? 0) in
  let end_rec := if has_losses then max_sent_pn s else end_recovery_pn s in
  let '(rec1, rwin1, round_end2) :=
    if rec s =? 0 then
      if has_losses then (1, 0, max_sent_pn s) else (0, rwin s, round_end1)
    else
      let r := if (rec s =? 1) && is_round_start then 2 else rec s in
      let r' := if negb has_losses && (end_rec <? max_acked) then 0 else r in
      (r', rwin s, round_end1) in
  (* check_if_full_bw_reached *)
  do fb <-
    (if is_round_start && negb (full_bw s) && negb app_limited then
       let tgt := bw_at_last_round s * 5 / 4 in
       if tgt <=? bw s then Some (full_bw s, bw s, 0, mm_zero)
       else
         do rw <- cadd (round_wo_bw_gain s) 1;
         Some ((3 <=? rw) || negb (rec1 =? 0), bw_at_last_round s, rw, height1)
     else Some (full_bw s, bw_at_last_round s, round_wo_bw_gain s, height1));
  let '(full1, bwlr, rwo, height2) := fb in
  (* maybe_exit_startup_or_drain *)
  let '(mode1, derived1) := if (mode s =? 0) && full1 then (1, false) else (mode s, derived s) in
  let '(mode2, derived2) := if (mode1 =? 1) && (in_flight <=? target s r1) then (2, true) else (mode1, derived1) in
  (* maybe_enter_or_exit_probe_rtt *)
  let enter := min_rtt_expired s now app_limited && negb (mode2 =? 3) in
  let '(mode3, exit1, started1) :=
    if enter then (3, None, Some now) else (mode2, exit_at s, last_started s) in
  do pr <-
    (if mode3 =? 3 then
       match exit1 with
       | None =>
           do lim <- cadd (target s r075) (mtu s);
           Some (mode3, derived2, if in_flight <? lim then Some (now + 200000) else None)
       | Some e =>
           if is_round_start && (e <=? now) then
             if negb full1 then Some (0, false, exit1) else Some (2, true, exit1)
           else Some (mode3, derived2, exit1)
       end
     else Some (mode3, derived2, exit1));
  let '(mode4, derived4, exit2) := pr in
  Some (mkpre bytes_acked excess_acked height2 epoch_start' epoch_bytes' max_acked end_rec
              round_end2 round_count' bwlr rwo full1 rec1 rwin1 mode4 derived4 exit2 started1).

(** [calculate_cwnd]; [rg] = raw target for the current cwnd gain. *)
Definition calc_cwnd (s : st) (p : pre) (rg : Z) : option Z :=
  if p_mode p =? 3 then Some (cwnd s)
  else
    do tw <- cadd (target s rg) (if p_full p then mm_get (p_height p) else p_excess p);
    do c <-
      (if p_full p then do c1 <- cadd (cwnd s) (p_bytes_acked p); Some (Z.min tw c1)
       else if (3 <=? tw) || (acked_bytes s <? init_cwnd s) then cadd (cwnd s) (p_bytes_acked p)
       else Some (cwnd s));
    Some (if c <? min_cwnd s then min_cwnd s else c).

(** [calculate_recovery_window]. *)
Definition calc_rwin (s : st) (p : pre) (in_flight : Z) : option Z :=
  if p_rec p =? 0 then Some (p_rwin p)
  else
    do fa <- cadd in_flight (p_bytes_acked p);
    if p_rwin p =? 0 then Some (Z.max (min_cwnd s) fa)
    else
      let a := if lost_bytes s <=? p_rwin p then p_rwin p - lost_bytes s else mtu s in
      do b <- (if p_rec p =? 2 then cadd a (p_bytes_acked p) else Some a);
      Some (Z.max (Z.max b fa) (min_cwnd s)).

Definition on_end_acks (s : st) (now in_flight : Z) (app_limited : bool) (largest : option Z)
           (r075 r1 rg : Z) : option st :=
  do p <- end_acks_pre s now in_flight app_limited largest r075 r1;
  do cwnd1 <- calc_cwnd s p rg;
  do rwin2 <- calc_rwin s p in_flight;
  Some (mk (mtu s) (min_cwnd s) (init_cwnd s) (iwc s) cwnd1 rwin2 (p_rec p) (p_mode p) (p_full p) (p_derived p)
     (total_acked s) (prev_total_acked s) (acked_time s) (prev_acked_time s)
     (total_sent s) (prev_total_sent s) (sent_time s) (prev_sent_time s) (bw s) (total_acked s)
     (acked_bytes s) 0 (max_sent_pn s) (p_max_acked p) (p_end_rec p)
     (p_round_end p) (p_round_count p) (p_bwlr p) (p_rwo p)
     (p_height p) (p_epoch_start p) (p_epoch_bytes p) (p_exit p) (p_started p) (min_rtt s)).

Definition on_congestion_event (s : st) (lost : Z) : option st :=
  do l <- cadd (lost_bytes s) lost;
  Some (mk (mtu s) (min_cwnd s) (init_cwnd s) (iwc s) (cwnd s) (rwin s) (rec s) (mode s) (full_bw s) (derived s)
     (total_acked s) (prev_total_acked s) (acked_time s) (prev_acked_time s)
     (total_sent s) (prev_total_sent s) (sent_time s) (prev_sent_time s) (bw s) (acked_at_last_window s)
     (acked_bytes s) l (max_sent_pn s) (max_acked_pn s) (end_recovery_pn s)
     (round_end_pn s) (round_count s) (bw_at_last_round s) (round_wo_bw_gain s)
     (height s) (epoch_start s) (epoch_bytes s) (exit_at s) (last_started s) (min_rtt s)).

Definition on_mtu_update (fx : bool) (s : st) (new_mtu : Z) : st :=
  let mc := 4 * new_mtu in
  mk new_mtu mc (Z.max (iwc s) mc) (iwc s) (Z.max (cwnd s) mc)
     (if fx then Z.max (rwin s) mc else rwin s) (rec s) (mode s) (full_bw s) (derived s)
     (total_acked s) (prev_total_acked s) (acked_time s) (prev_acked_time s)
     (total_sent s) (prev_total_sent s) (sent_time s) (prev_sent_time s) (bw s) (acked_at_last_window s)
     (acked_bytes s) (lost_bytes s) (max_sent_pn s) (max_acked_pn s) (end_recovery_pn s)
     (round_end_pn s) (round_count s) (bw_at_last_round s) (round_wo_bw_gain s)
     (height s) (epoch_start s) (epoch_bytes s) (exit_at s) (last_started s) (min_rtt s).

(** One call; [r075 r1 rg] are the raw float results of the three target computations. *)
Definition arg (a : list Z) (k : nat) : Z := nth k a 0.

Definition step (fx : bool) (s : st) (op : list Z) (r075 r1 rg : Z) : option st :=
  match op with
  | [] => Some s
  | c :: a =>
      if c =? 1 then on_sent s (arg a 0) (arg a 1) (arg a 2)
      else if c =? 2 then on_ack s (arg a 0) (arg a 2) (nz (arg a 3)) (arg a 4)
      else if c =? 3 then
        on_end_acks s (arg a 0) (arg a 1) (nz (arg a 2))
                    (if nz (arg a 3) then Some (arg a 4) else None) r075 r1 rg
      else if c =? 4 then on_congestion_event s (arg a 4)
      else if c =? 6 then Some (on_mtu_update fx s (arg a 0))
      else Some s
  end.

(** All reachable states: a history is a list of (op, oracle values). *)
Fixpoint steps (fx : bool) (s : st) (l : list (list Z * (Z * Z * Z))) : option st :=
  match l with
  | [] => Some s
  | (op, (r075, r1, rg)) :: l' =>
      match step fx s op r075 r1 rg with Some s' => steps fx s' l' | None => None end
  end.

(** ---- correspondence ---- *)

Definition oz (o : option Z) : Z := match o with Some x => x | None => -1 end.

(** Observation = [Bbr::verif_state] + initial_window(); [None] if computing the BDP overflows
    (the probe, like [window()] in ProbeRtt, multiplies min_rtt by the bandwidth). *)
Definition obs (s : st) (r075 r1 rg : Z) : option (list Z) :=
  do _bdp <- cmul (min_rtt s) (bw s);
  Some [window s r075; mode s; rec s; cwnd s; rwin s; min_cwnd s; init_cwnd s; b2z (full_bw s); bw s;
        min_rtt s; round_count s; mm_get (height s); target s r075; target s r1; target s rg;
        b2z (derived s); acked_bytes s; lost_bytes s; max_sent_pn s; max_acked_pn s;
        end_recovery_pn s; round_end_pn s; bw_at_last_round s; round_wo_bw_gain s;
        oz (exit_at s); oz (last_started s); iwc s].

Definition arity (opc : Z) : nat :=
  if opc =? 0 then 3%nat else if opc =? 1 then 4%nat else if opc =? 2 then 6%nat
  else if opc =? 3 then 6%nat else if opc =? 4 then 6%nat else if opc =? 5 then 1%nat
  else if opc =? 6 then 2%nat else 0%nat.

Definition split_hints (op : list Z) : option (list Z * Z * Z * Z) :=
  match op with
  | [] => None
  | opc :: _ =>
      let n := arity opc in
      match skipn n op with
      | [a; b; c] => if Nat.eqb n 0 then None else Some (firstn n op, a, b, c)
      | _ => None
      end
  end.

(** Raw value explaining an observed target [t]. *)
Definition raw_of (s : st) (t : Z) : Z := if t =? init_cwnd s then 0 else t.

(** Is the observed target within 1 of the exact gain * bdp / 10^6 (gain = gn / gd)? *)
Definition target_ok (s : st) (gn gd t : Z) : bool :=
  let bdp := min_rtt s * bw s in
  if 2 ^ 50 <=? bdp then true
  else
    let e := gn * bdp / (gd * 1000000) in
    existsb (fun raw => t =? target s (Z.max 0 raw)) [e - 1; e; e + 1].

(** cwnd gain as a rational: 2.0, or 2.885f32 = 12100567 / 2^22. *)
Definition gain_n (s : st) : Z := if derived s then 2 else 12100567.
Definition gain_d (s : st) : Z := if derived s then 1 else 4194304.

Definition hints_ok (s : st) (t075 t1 tg : Z) : bool :=
  target_ok s 3 4 t075 && target_ok s 1 1 t1 && target_ok s (gain_n s) (gain_d s) tg.

Definition FIXED : bool := true.

Fixpoint go (s : option st) (i : ops) : option outs :=
  match i with
  | [] => Some []
  | op :: i' =>
      match split_hints op with
      | None => do r <- go s i'; Some ([-1] :: r)
      | Some (op0, t075, t1, tg) =>
          do s' <-
            match op0 with
            | [0; w; m] => Some (Some (build w m))
            | _ => match s with
                   | None => Some None
                   | Some s0 =>
                       (* targets inside the call are evaluated on the pre-state's bounds, which
                          only on_mtu_update changes (and it uses no target) *)
                       do s1 <- step FIXED s0 op0 (raw_of s0 t075) (raw_of s0 t1) (raw_of s0 tg);
                       Some (Some s1)
                   end
            end;
          match s' with
          | None => do r <- go s' i'; Some ([-1] :: r)
          | Some s1 =>
              do o <- obs s1 (raw_of s1 t075) (raw_of s1 t1) (raw_of s1 tg);
              do r <- go s' i';
              Some ((if hints_ok s1 t075 t1 tg then o else [-2]) :: r)
          end
      end
  end.

Definition run (i : ops) : outs :=
  match go None i with Some r => r | None => [PANIC] end.

(** Oracle on the implementation's outputs: window >= 2 * current MTU after every call. *)
Fixpoint floor_ok (m : Z) (i : ops) (o : outs) : bool :=
  match i, o with
  | [], [] => true
  | op :: i', out :: o' =>
      let m' := match op with 0 :: _ :: m0 :: _ => m0 | 6 :: nm :: _ => nm | _ => m end in
      if lz_eqb out [-1] then floor_ok m' i' o'
      else match out with
           | w :: _ => (2 * m' <=? w) && floor_ok m' i' o'
           | [] => false
           end
  | _, _ => false
  end.

Definition built_ok (i : ops) : bool :=
  match i with (0 :: w :: m :: _) :: _ => 2 * m <=? w | _ => true end.

Definition oracle (i : ops) (o : outs) : bool :=
  if llz_eqb o [PANIC] then true
  else if built_ok i then floor_ok 0 i o else true.
